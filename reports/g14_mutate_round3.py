import subprocess, sys, json, re
RW="/tmp/rw/g14d"; SIM="mesa/experimental/devs/simulator.py"; EV="mesa/experimental/devs/eventlist.py"
M={
 "R1-reset-keeps-clock": (SIM, "        self.model = None\n        self.time = self.start_time\n", "        self.model = None\n"),
 "R2-setup-ignores-pending-events": (SIM, "        if not self.event_list.is_empty():\n            raise ValueError(", "        if False:\n            raise ValueError("),
 "R3-run-until-swallows-user-exception": (SIM, "    def _execute_event(self, event: SimulationEvent) -> None:\n        \"\"\"Advance the clock to the time of the event and execute it.\"\"\"\n        self.time = event.time\n        event.execute()\n",
        "    def _execute_event(self, event: SimulationEvent) -> None:\n        \"\"\"Advance the clock to the time of the event and execute it.\"\"\"\n        self.time = event.time\n        try:\n            event.execute()\n        except Exception:\n            pass\n"),
 "R4-reset-keeps-model": (SIM, "        self.event_list.clear()\n        self.model = None\n", "        self.event_list.clear()\n"),
 "R5-exception-requeues-event": (SIM, "            if event.time <= end_time:\n                self._execute_event(event)\n            else:\n                self.time = end_time\n                self._schedule_event(event)  # reschedule event",
        "            if event.time <= end_time:\n                try:\n                    self._execute_event(event)\n                except Exception:\n                    self._schedule_event(event)\n                    raise\n            else:\n                self.time = end_time\n                self._schedule_event(event)  # reschedule event"),
}
def sh(c, cwd=None): return subprocess.run(c, shell=True, capture_output=True, text=True, cwd=cwd)
for name in sys.argv[1:]:
    sh("git checkout -q .", RW)
    path, old, new = M[name]
    s=open(f"{RW}/{path}").read()
    assert s.count(old)==1, name
    open(f"{RW}/{path}","w").write(s.replace(old,new))
    t=sh("PYTHONPATH=/tmp/rw/g14d /venv/bin/python -m pytest -q -p no:cacheprovider -x tests/test_devs.py 2>&1 | tail -1", RW).stdout.strip()[:40]
    out=[name, "tests:"+t]
    for pid in ("C14","C15"):
        r=sh(f"VERIF_NO_ESCALATE=1 VERIF_REPO=/tmp/rw/g14d ./check {pid} 2>&1", "/tmp/vw/g14")
        keys=[]
        for v in [l for l in r.stdout.splitlines() if l.startswith("VIOLATION")]:
            p=json.load(open(re.search(r"replay=(\S+)", v).group(1)))
            keys.append(p.get("key") or ("tie:"+";".join(p.get("broken",[]))[:120]))
        out.append(f"{pid}: "+("CAUGHT "+" | ".join(keys) if keys else "MISSED"))
    print("\n   ".join(out), flush=True)
sh("git checkout -q .", RW)
