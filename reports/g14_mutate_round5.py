"""round-5 self-test: mutations aimed at the generator gaps closed in round 5 (scratch tree /tmp/rw/g14g)"""
import subprocess, sys, json, re
RW="/tmp/rw/g14g"; SIM="mesa/experimental/devs/simulator.py"; EV="mesa/experimental/devs/eventlist.py"
M={
 "F1-absolute-time-coerced-to-float": (SIM, "        event = SimulationEvent(\n            time,\n            function,", "        event = SimulationEvent(\n            float(time),\n            function,"),
 "F2-execute-tests-truth-of-callable": (EV, "            if fn is not None:", "            if fn:"),
 "F3-cancel-clears-callers-args": (EV, "        self.function_args = []\n        self.function_kwargs = {}\n", "        self.function_args.clear()\n        self.function_kwargs = {}\n"),
 "F4-run-until-parameter-renamed": (SIM, "    def run_until(self, end_time: int | float) -> None:", "    def run_until(self, until: int | float) -> None:\n        end_time = until"),
 "F5-abm-tests-truth-of-model": (SIM, "        if event.fn() == self.model.step:", "        if self.model and event.fn() == self.model.step:"),
 "F6-kwargs-dict-shared-and-mutated": (EV, "        self.function_kwargs = function_kwargs if function_kwargs else {}", "        self.function_kwargs = function_kwargs if function_kwargs else {}\n        self.function_kwargs.pop(\"extra\", None)"),
}
def sh(c, cwd=None): return subprocess.run(c, shell=True, capture_output=True, text=True, cwd=cwd)
for name in sys.argv[1:]:
    sh("git checkout -q .", RW)
    path, old, new = M[name]
    s=open(f"{RW}/{path}").read()
    assert s.count(old)==1, name
    open(f"{RW}/{path}","w").write(s.replace(old,new))
    t=sh("PYTHONPATH=/tmp/rw/g14g /venv/bin/python -m pytest -q -p no:cacheprovider -x tests/test_devs.py 2>&1 | tail -1", RW).stdout.strip()[:40]
    r=sh("VERIF_NO_ESCALATE=1 VERIF_REPO=/tmp/rw/g14g ./check C14 2>&1", "/tmp/vw/g14")
    keys=[]
    for v in [l for l in r.stdout.splitlines() if l.startswith("VIOLATION")]:
        p=json.load(open(re.search(r"replay=(\S+)", v).group(1)))
        keys.append(p.get("key") or ("tie:"+";".join(p.get("broken",[]))[:100]))
    print(name, "| tests:", t, "| C14:", ("CAUGHT "+" | ".join(keys)) if keys else "MISSED", flush=True)
sh("git checkout -q .", RW)
