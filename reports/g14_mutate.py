"""Self-test of detection power (task item 5): apply one single-site mutation to the scratch Mesa tree (on top of the
fixes), run tests/test_devs.py, run ./check C14 and ./check C15 against it, restore.  Usage: g14_mutate.py NAME..."""
import os
import subprocess
import sys

RW = "/tmp/rw/g14"
VW = "/tmp/vw/g14"
EV = "mesa/experimental/devs/eventlist.py"
SIM = "mesa/experimental/devs/simulator.py"
M = {
    "M1-lt-drops-priority": (EV, "return (self.time, self.priority, self.unique_id) < (\n            other.time,\n            other.priority,\n            other.unique_id,\n        )",
                             "return (self.time, self.unique_id) < (\n            other.time,\n            other.unique_id,\n        )"),
    "M2-lt-priority-before-time": (EV, "return (self.time, self.priority, self.unique_id) < (\n            other.time,\n            other.priority,\n            other.unique_id,\n        )",
                                   "return (self.priority, self.time, self.unique_id) < (\n            other.priority,\n            other.time,\n            other.unique_id,\n        )"),
    "M3-priority-values-swapped": (EV, "    DEFAULT = 5\n    HIGH = 1\n", "    DEFAULT = 1\n    HIGH = 5\n"),
    "M4-run-until-strict": (SIM, "            if event.time <= end_time:\n                self._execute_event(event)\n            else:\n                self.time = end_time\n                self._schedule_event(event)  # reschedule event",
                            "            if event.time < end_time:\n                self._execute_event(event)\n            else:\n                self.time = end_time\n                self._schedule_event(event)  # reschedule event"),
    "M5-pop-returns-cancelled": (EV, "            if not event.CANCELED:\n                return event\n", "            return event\n"),
    "M6-abm-no-repush": (SIM, "                self.time = end_time\n                self._schedule_event(event)\n                break", "                self.time = end_time\n                break"),
    "M7-absolute-rejects-now": (SIM, "if self.time > time:", "if self.time >= time:"),
    "M8-step-rescheduled-after-execute": (SIM, "        if event.fn() == self.model.step:\n            self.schedule_event_next_tick(self.model.step, priority=Priority.HIGH)\n\n        event.execute()",
                                          "        is_step = event.fn() == self.model.step\n        event.execute()\n        if is_step:\n            self.schedule_event_next_tick(self.model.step, priority=Priority.HIGH)"),
    "M9-setup-step-default-priority": (SIM, "        super().setup(model)\n        self.schedule_event_next_tick(self.model.step, priority=Priority.HIGH)",
                                       "        super().setup(model)\n        self.schedule_event_next_tick(self.model.step, priority=Priority.DEFAULT)"),
    "M13-abm-accepts-any-float": (SIM, "            return time.is_integer()", "            return True"),
    "M14-peek-one-too-many": (EV, "            if len(peek) >= n:", "            if len(peek) > n:"),
    "M15-strong-ref-to-method": (EV, "            function = WeakMethod(function)", "            function = (lambda f: (lambda: f))(function)"),
    "M19-append-instead-of-heappush": (EV, "        heappush(self._events, event)", "        self._events.append(event)"),
    "M20-lifo-ties": (EV, "    _ids = itertools.count()", "    _ids = itertools.count(0, -1)"),
    "M21-relative-check-removed": (SIM, "        if time_delta < 0:\n            raise ValueError(\"trying to schedule an event in the past\")\n\n", ""),
    "M22-devs-run-next-ignores-clock": (SIM, "    def _execute_event(self, event: SimulationEvent) -> None:\n        \"\"\"Advance the clock to the time of the event and execute it.\"\"\"\n        self.time = event.time\n",
                                        "    def _execute_event(self, event: SimulationEvent) -> None:\n        \"\"\"Advance the clock to the time of the event and execute it.\"\"\"\n        self.time = max(self.time, event.time)\n"),
    "M23-cancel-keeps-flag-false": (EV, "        event.cancel()", "        event.fn = None"),
    "M24-abm-run-until-own-loop-no-resched": (SIM, "    def _execute_event(self, event: SimulationEvent) -> None:\n        \"\"\"Advance the clock to the time of the event and execute it.\n", "    def _execute_event_unused(self, event: SimulationEvent) -> None:\n        \"\"\"Advance the clock to the time of the event and execute it.\n"),
    "M25-next-tick-delta-2": (SIM, "            function,\n            1,\n", "            function,\n            2,\n"),
    "M30-unit-check-after-add": (SIM, "        if not self.check_time_unit(event.time):\n            raise ValueError(\n                f\"time unit mismatch {event.time} is not of time unit {self.time_unit}\"\n            )\n\n        # check timeunit of events\n        self.event_list.add_event(event)",
                                 "        self.event_list.add_event(event)\n        if not self.check_time_unit(event.time):\n            raise ValueError(\n                f\"time unit mismatch {event.time} is not of time unit {self.time_unit}\"\n            )"),
    "M27-step-identity-comparison": (SIM, "        if event.fn() == self.model.step:", "        if event.fn() is self.model.step:"),
    "M28-clock-set-after-reschedule": (SIM, "        self.time = event.time\n        if event.fn() == self.model.step:\n            self.schedule_event_next_tick(self.model.step, priority=Priority.HIGH)\n",
                                       "        if event.fn() == self.model.step:\n            self.schedule_event_next_tick(self.model.step, priority=Priority.HIGH)\n        self.time = event.time\n"),
    "M29-run-next-skips-clock": (SIM, "        else:\n            self._execute_event(event)\n", "        else:\n            event.execute()\n"),
    "M31-steps-incremented-after-user-step": ("mesa/model.py", "        self.steps += 1\n        _mesa_logger.info(f\"calling model.step for timestep {self.steps} \")\n        # Call the original user-defined step method\n        self._user_step(*args, **kwargs)\n",
                                              "        _mesa_logger.info(f\"calling model.step for timestep {self.steps} \")\n        # Call the original user-defined step method\n        self._user_step(*args, **kwargs)\n        self.steps += 1\n"),
    "M32-strong-ref-to-function": (EV, "            function = ref(function)", "            function = (lambda f: (lambda: f))(function)"),
    "M33-viz-run-until-steps": ("mesa/visualization/solara_viz.py", "        else:\n            for _ in range(render_interval.value):\n                simulator.run_for(1)\n", "        else:\n            for _ in range(render_interval.value):\n                simulator.run_until(model.value.steps + 1)\n"),
    "M34-abm-run-until-without-setup-check": (SIM, "        if self.model is None:\n            raise Exception(\n                \"simulator has not been setup, call simulator.setup(model) first\"\n            )\n\n        while True:\n            try:\n                event = self.event_list.pop_event()\n            except IndexError:\n                self.time = end_time\n                break\n\n            # fixme",
                                              "        while True:\n            try:\n                event = self.event_list.pop_event()\n            except IndexError:\n                self.time = end_time\n                break\n\n            # fixme"),
    "M26-run-for-from-start": (SIM, "end_time = self.time + time_delta", "end_time = self.start_time + time_delta if self.time == self.start_time else self.time + time_delta + 0"),
}


def sh(cmd, **kw):
    return subprocess.run(cmd, shell=True, capture_output=True, text=True, **kw)


def restore():
    sh("git checkout -q . && for d in /tmp/vw/g14/fixes/C*.diff; do git apply $d; done", cwd=RW)


for name in sys.argv[1:]:
    path, old, new = M[name]
    restore()
    s = open(os.path.join(RW, path)).read()
    if s.count(old) != 1:
        print(name, "PATTERN NOT UNIQUE/FOUND", s.count(old))
        continue
    open(os.path.join(RW, path), "w").write(s.replace(old, new))
    t = sh("PYTHONPATH=/tmp/rw/g14 /venv/bin/python -m pytest -q -p no:cacheprovider -x tests/test_devs.py " + ("tests/test_solara_viz.py " if "viz" in name else "") + "2>&1 | tail -1", cwd=RW)
    res = [name, "tests:" + t.stdout.strip()[:40]]
    for pid in ("C14", "C15"):
        r = sh(f"VERIF_REPO=/tmp/rw/g14 ./check {pid} --tier quick 2>&1", cwd=VW)
        viol = [l for l in r.stdout.splitlines() if l.startswith("VIOLATION")]
        keys = []
        for v in viol:
            import json, re
            m = re.search(r"replay=(\S+)", v)
            try:
                p = json.load(open(m.group(1)))
                keys.append(p.get("key") or ("tie-broken:" + ";".join(p.get("broken", []))[:160]))
            except Exception as e:  # noqa: BLE001
                keys.append(str(e))
        res.append(f"{pid}: exit={r.returncode} " + ("CAUGHT " + " | ".join(keys) if viol else "MISSED"))
    print("\n   ".join(res), flush=True)
restore()
# leave coq/Generated/Tables.v as the repaired tree gives it (rewritten only when the text differs)
r = sh("cd /tmp/vw/g14/harness && VERIF_REPO=/tmp/rw/g14 /venv/bin/python translate.py")
tp = os.path.join(VW, "coq/Generated/Tables.v")
if open(tp).read() != r.stdout:
    open(tp, "w").write(r.stdout)
