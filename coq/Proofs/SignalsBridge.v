(* Bridge between the code-level T1 translation of mesa_signals (Generated.Tables: gen_observe, gen_unobserve,
   gen_clear_all_subscriptions, gen_mesa_notify, gen_sl_setitem / delitem / insert / append - regenerated from the
   working tree by harness/tables/signals_code.py on every run) and the hand-written model Model/Signals.v that
   the C16 theorems are about.  The generated definitions are polymorphic in the registry / list primitives; here
   they are instantiated with the model's sget / sset / sub_append / sclear_name / alive and with CPython's list
   indexing (norm_index, slice_indices, ...), and proved equal to observe / unobserve / clear_all / notify1 and
   p_setitem / p_setslice / p_delitem / p_delslice / p_insert / p_append. *)
From Coq Require Import ZArith List Bool Lia.
From Mesa Require Import Common.ListX Generated.Tables Model.Signals Proofs.SignalsProofs.
Import ListNotations.
Open Scope Z_scope.

(* ------------------------------------------------------------------ generic facts about the combinators *)
Lemma fold_sum_inl {S A} (f : S -> A -> S + (Z * S)) (g : S -> A -> S) l : forall s,
  (forall s a, In a l -> f s a = inl (g s a)) -> fold_sum f l s = inl (fold_left g l s).
Proof.
  induction l as [|a t IH]; intros s H; cbn [fold_sum fold_left]; [reflexivity|].
  rewrite (H s a (or_introl eq_refl)). apply IH. intros s' a' Hin. apply H. right. exact Hin.
Qed.
Lemma fold_sum_check {S A} (f : S -> A -> S + (Z * S)) (p : A -> bool) (k : Z) l : forall s,
  (forall s a, In a l -> f s a = if p a then inl s else inr (k, s)) ->
  fold_sum f l s = if forallb p l then inl s else inr (k, s).
Proof.
  induction l as [|a t IH]; intros s H; cbn [fold_sum forallb]; [reflexivity|].
  rewrite (H s a (or_introl eq_refl)). destruct (p a); cbn [andb]; [|reflexivity].
  apply IH. intros s' a' Hin. apply H. right. exact Hin.
Qed.
Lemma fold_left_flat_map {S A B} (g : S -> B -> S) (h : A -> list B) l : forall s,
  fold_left g (flat_map h l) s = fold_left (fun s a => fold_left g (h a) s) l s.
Proof. induction l as [|a t IH]; intros s; cbn [flat_map fold_left]; [reflexivity|]. rewrite fold_left_app. apply IH. Qed.
Lemma fold_left_map {S A B} (g : S -> B -> S) (h : A -> B) l : forall s,
  fold_left g (map h l) s = fold_left (fun s a => g s (h a)) l s.
Proof. induction l as [|a t IH]; intros s; cbn [map fold_left]; [reflexivity|apply IH]. Qed.
Lemma fold_left_ext_in {S A} (f g : S -> A -> S) l : forall s,
  (forall s a, In a l -> f s a = g s a) -> fold_left f l s = fold_left g l s.
Proof.
  induction l as [|a t IH]; intros s H; cbn [fold_left]; [reflexivity|].
  rewrite (H s a (or_introl eq_refl)). apply IH. intros s' a' Hin. apply H. right. exact Hin.
Qed.

(* ------------------------------------------------------------------ the registry primitives of the model *)
Definition opt_nm (nm : target) : option Z := match nm with TAll => None | TName n => Some n end.
Definition opt_ty (ty : tsel) : option Z := match ty with SAll => None | SType t => Some t end.
Definition p_types_opt (tb : sig_tables) (slots : list slot) (n : Z) : option (list Z) :=
  if known slots n then Some (types_of tb slots n) else None.      (* self.observables[n] raises KeyError *)
Definition p_get (s : subs) (n t : Z) : list Z := sget (n, t) s.    (* self.subscribers[n][t] *)
Definition p_set (s : subs) (n t : Z) (l : list Z) : subs := sset (n, t) l s.
Definition p_app (s : subs) (n t h : Z) : subs := sub_append h s (n, t).
Definition p_del (s : subs) (n : Z) : subs := sclear_name n s.

Section Registry.
  Variable tb : sig_tables.
  Variable dead : list Z.
  Variable slots : list slot.

  Definition src_observe := gen_observe (known slots) (all_names slots) (types_of tb slots) (p_types_opt tb slots)
                                        p_get p_set p_app p_del ([] : subs) (alive dead).
  Definition src_unobserve := gen_unobserve (known slots) (all_names slots) (types_of tb slots) (p_types_opt tb slots)
                                        p_get p_set p_app p_del ([] : subs) (alive dead).
  Definition src_clear := gen_clear_all_subscriptions (known slots) (all_names slots) (types_of tb slots)
                                        (p_types_opt tb slots) p_get p_set p_app p_del ([] : subs) (alive dead).
  Definition src_mesa_notify := gen_mesa_notify (known slots) (all_names slots) (types_of tb slots)
                                        (p_types_opt tb slots) p_get p_set p_app p_del ([] : subs) (alive dead).

  (* what one round of the subscribing loop does for name a, in the model's terms *)
  Definition sub_round (ty : tsel) (h : Z) (s : subs) (a : Z) : subs :=
    fold_left (sub_append h) (map (fun t => (a, t)) (sel_types tb slots ty a)) s.
  Lemma sub_rounds ty h names s :
    fold_left (sub_round ty h) names s = fold_left (sub_append h) (sel_keys tb slots names ty) s.
  Proof. unfold sel_keys. rewrite fold_left_flat_map. reflexivity. Qed.
  Definition rm_round (ty : tsel) (h : Z) (s : subs) (a : Z) : subs :=
    fold_left (sub_remove dead h) (map (fun t => (a, t)) (sel_types tb slots ty a)) s.
  Lemma rm_rounds ty h names s :
    fold_left (rm_round ty h) names s = fold_left (sub_remove dead h) (sel_keys tb slots names ty) s.
  Proof. unfold sel_keys. rewrite fold_left_flat_map. reflexivity. Qed.

  Lemma names_known nm : (match nm with TName n => known slots n = true | TAll => True end) ->
    forall a, In a (sel_names slots nm) -> known slots a = true.
  Proof.
    destruct nm as [|n]; cbn [sel_names]; intros H a Ha.
    - apply all_names_In. exact Ha.
    - destruct Ha as [<-|[]]. exact H.
  Qed.

  (* the loops of the translated observe, for any list of known names *)
  Lemma src_subscribe_loop ty h names s
        (f : subs -> Z -> subs + (Z * subs)) :
    (forall a, In a names -> known slots a = true) ->
    (forall s a, known slots a = true -> f s a = inl (sub_round ty h s a)) ->
    fold_sum f names s = inl (fold_left (sub_append h) (sel_keys tb slots names ty) s).
  Proof.
    intros Hk Hf. rewrite <- sub_rounds. apply fold_sum_inl. intros s' a Ha. apply Hf. apply Hk. exact Ha.
  Qed.

  Ltac round_tac K :=
    cbv zeta; unfold p_types_opt; rewrite ?K; cbn [fold_sum sel_types map fold_left];
    try reflexivity;
    try (erewrite fold_sum_inl by (intros; cbv zeta; reflexivity); rewrite fold_left_map; reflexivity).

  Lemma observe_bridge s0 nm ty h :
    let x := {| i_slots := slots; i_subs := s0 |} in
    observe tb x nm ty h =
    match src_observe (opt_nm nm) (opt_ty ty) h (i_subs x) with
    | inl s => ({| i_slots := i_slots x; i_subs := s |}, Done)
    | inr (k, s) => ({| i_slots := i_slots x; i_subs := s |}, Raised k)      (* the registry as the raise leaves it *)
    end.
  Proof.
    intros x. rewrite observe_eq. subst x. cbn [i_slots i_subs]. unfold src_observe, gen_observe, observe_ok.
    destruct nm as [|n]; cbn [opt_nm sel_names andb].
    - (* All names *)
      cbv zeta. pose proof (names_known TAll I) as Hk. cbn [sel_names] in Hk.
      destruct ty as [|t]; cbn [opt_ty types_ok].
      + erewrite (src_subscribe_loop SAll h) by
          (try exact Hk; intros s a K; unfold p_types_opt; rewrite K; cbv zeta;
           erewrite fold_sum_inl by (intros; cbv zeta; reflexivity); unfold sub_round; cbn [sel_types];
           rewrite fold_left_map; reflexivity).
        reflexivity.
      + rewrite (fold_sum_check _ (fun a => zmem t (types_of tb slots a)) 2)
          by (intros s a _; unfold zmem; destruct (existsb (Z.eqb t) (types_of tb slots a)); reflexivity).
        destruct (forallb (fun a => zmem t (types_of tb slots a)) (all_names slots)); [|reflexivity].
        erewrite (src_subscribe_loop (SType t) h) by
          (try exact Hk; intros s a K; cbv zeta; cbn [fold_sum]; unfold sub_round; cbn [sel_types map fold_left]; reflexivity).
        reflexivity.
    - (* one name *)
      destruct (known slots n) eqn:K; cbn [negb andb]; [|reflexivity].
      cbv zeta. pose proof (names_known (TName n) K) as Hk. cbn [sel_names] in Hk.
      destruct ty as [|t]; cbn [opt_ty types_ok].
      + erewrite (src_subscribe_loop SAll h) by
          (try exact Hk; intros s a Ka; unfold p_types_opt; rewrite Ka; cbv zeta;
           erewrite fold_sum_inl by (intros; cbv zeta; reflexivity); unfold sub_round; cbn [sel_types];
           rewrite fold_left_map; reflexivity).
        reflexivity.
      + rewrite (fold_sum_check _ (fun a => zmem t (types_of tb slots a)) 2)
          by (intros s a _; unfold zmem; destruct (existsb (Z.eqb t) (types_of tb slots a)); reflexivity).
        destruct (forallb (fun a => zmem t (types_of tb slots a)) [n]); [|reflexivity].
        erewrite (src_subscribe_loop (SType t) h) by
          (try exact Hk; intros s a Ka; cbv zeta; cbn [fold_sum]; unfold sub_round; cbn [sel_types map fold_left]; reflexivity).
        reflexivity.
  Qed.

  Lemma rm_step h s a t :
    (let remaining := [] in
     let remaining := remaining ++ filter (fun ref => alive dead ref && negb (ref =? h)) (p_get s a t) in
     p_set s a t remaining) = sub_remove dead h s (a, t).
  Proof. reflexivity. Qed.

  Lemma src_remove_loop ty h names s (f : subs -> Z -> subs + (Z * subs)) :
    (forall a, In a names -> known slots a = true \/ ty <> SAll) ->
    (forall s a, known slots a = true \/ ty <> SAll -> f s a = inl (rm_round ty h s a)) ->
    fold_sum f names s = inl (fold_left (sub_remove dead h) (sel_keys tb slots names ty) s).
  Proof.
    intros Hk Hf. rewrite <- rm_rounds. apply fold_sum_inl. intros s' a Ha. apply Hf. apply Hk. exact Ha.
  Qed.

  Ltac rm_round_tac :=
    intros s a Ka; cbv zeta; unfold p_types_opt;
    try (destruct Ka as [Ka|Ka]; [rewrite Ka|exfalso; apply Ka; reflexivity]);
    erewrite fold_sum_inl by (intros; cbv zeta; cbn [app]; reflexivity);
    unfold rm_round; cbn [sel_types]; rewrite ?fold_left_map; cbn [map fold_left]; reflexivity.

  Lemma unobserve_bridge s0 nm ty h :
    let x := {| i_slots := slots; i_subs := s0 |} in
    unobserve tb dead x nm ty h =
    match src_unobserve (opt_nm nm) (opt_ty ty) h (i_subs x) with
    | inl s => ({| i_slots := i_slots x; i_subs := s |}, Done)
    | inr (k, s) => ({| i_slots := i_slots x; i_subs := s |}, Raised k)      (* the registry as the raise leaves it *)
    end.
  Proof.
    intros x. rewrite unobserve_eq. subst x. cbn [i_slots i_subs]. unfold src_unobserve, gen_unobserve, unobserve_ok. cbv zeta.
    destruct ty as [|t]; cbn [opt_ty].
    - destruct nm as [|n]; cbn [opt_nm sel_names].
      + erewrite (src_remove_loop SAll h) by
          (try (intros a Ha; left; apply all_names_In; exact Ha); rm_round_tac).
        reflexivity.
      + destruct (known slots n) eqn:K.
        * erewrite (src_remove_loop SAll h) by
            (try (intros a [<-|[]]; left; exact K); rm_round_tac).
          reflexivity.
        * cbn [fold_sum]. unfold p_types_opt. rewrite K. reflexivity.
    - assert (forall names a, In a names -> known slots a = true \/ SType t <> SAll) as Hany
        by (intros names a _; right; discriminate).
      destruct nm as [|n]; cbn [opt_nm sel_names].
      + erewrite (src_remove_loop (SType t) h) by
          (try apply Hany; intros s a _; cbv zeta; cbn [fold_sum app]; unfold rm_round; cbn [sel_types map fold_left]; reflexivity).
        reflexivity.
      + erewrite (src_remove_loop (SType t) h) by
          (try apply Hany; intros s a _; cbv zeta; cbn [fold_sum app]; unfold rm_round; cbn [sel_types map fold_left]; reflexivity).
        reflexivity.
  Qed.

  Lemma clear_bridge s0 nm :
    let x := {| i_slots := slots; i_subs := s0 |} in
    (clear_all x nm, Done) =
    match src_clear (opt_nm nm) (i_subs x) with
    | inl s => ({| i_slots := i_slots x; i_subs := s |}, Done)
    | inr (k, s) => ({| i_slots := i_slots x; i_subs := s |}, Raised k)      (* the registry as the raise leaves it *)
    end.
  Proof. destruct nm; reflexivity. Qed.

  (* _mesa_notify: the live references, in list order, are called and are what stays in the list *)
  Lemma mesa_notify_bridge owner n s e :
    notify1 dead owner n s e =
    match src_mesa_notify n (e_type e) s with
    | inl (s', calls) => (s', map (fun h => (h, mk_signal owner n e)) calls)
    | inr (_, s') => (s', [])
    end.
  Proof. reflexivity. Qed.
End Registry.

(* ------------------------------------------------------------------ SignalingList: CPython list indexing as primitives *)
Definition py_getitem (d : list Z) (ix : idx) : val + Z :=
  match ix with
  | IInt i => match norm_index (zlen d) i with Some j => inl (VInt (znth d j)) | None => inr E_INDEX end
  | ISlice a b c =>
      match slice_indices (zlen d) a b c with
      | Some (start, stop, step) => inl (VList (getslice d (slice_positions start stop step)))
      | None => inr E_VALUE
      end
  | INone => inr 99
  end.
Definition py_setitem (d : list Z) (ix : idx) (v : val) : list Z + Z :=
  match ix, v with
  | IInt i, VInt x => match norm_index (zlen d) i with Some j => inl (zupd d j x) | None => inr E_INDEX end
  | ISlice a b c, VList vs =>
      match slice_indices (zlen d) a b c with
      | None => inr E_VALUE
      | Some (start, stop, step) =>
          if step =? 1 then inl (splice d start stop vs)
          else if zlen vs =? zlen (slice_positions start stop step)
               then inl (set_positions d (slice_positions start stop step) vs) else inr E_VALUE
      end
  | _, _ => inr 99
  end.
Definition py_delitem (d : list Z) (ix : idx) : list Z + Z :=
  match ix with
  | IInt i => match norm_index (zlen d) i with Some j => inl (zdel d j) | None => inr E_INDEX end
  | ISlice a b c =>
      match slice_indices (zlen d) a b c with
      | Some (start, stop, step) => inl (del_positions 0 d (slice_positions start stop step))
      | None => inr E_VALUE
      end
  | INone => inr 99
  end.
Definition py_ins (d : list Z) (ix : idx) (v : val) : list Z :=
  match ix, v with IInt i, VInt x => py_insert d i x | _, _ => d end.
Definition py_app (d : list Z) (v : val) : list Z := match v with VInt x => d ++ [x] | _ => d end.
Definition py_len (d : list Z) : idx := IInt (zlen d).

Definition src_setitem := gen_sl_setitem py_getitem py_setitem py_delitem py_ins py_app py_len VNone.
Definition src_delitem := gen_sl_delitem py_getitem py_setitem py_delitem py_ins py_app py_len VNone.
Definition src_insert := gen_sl_insert py_getitem py_setitem py_delitem py_ins py_app py_len VNone.
Definition src_append := gen_sl_append py_getitem py_setitem py_delitem py_ins py_app py_len VNone.

(* the model's result of a primitive mutator, in the shape of the translated code:
   (new data, (type, old, new, index)) or (error, the data as the raise leaves it = unchanged) *)
Definition of_lres (d : list Z) (r : lres) : (list Z * (Z * val * val * idx)) + (Z * list Z) :=
  match r with
  | LOk d' [e] _ => inl (d', (e_type e, e_old e, e_new e, e_index e))
  | LOk _ _ _ => inr (99, d)
  | LErr k => inr (k, d)
  end.

Lemma setitem_bridge d i v : src_setitem d (IInt i) (VInt v) = of_lres d (p_setitem gen_sig_tables d i v).
Proof. unfold src_setitem, gen_sl_setitem, p_setitem, py_getitem, py_setitem. destruct (norm_index (zlen d) i); reflexivity. Qed.
Lemma setslice_bridge d a b c vs :
  src_setitem d (ISlice a b c) (VList vs) = of_lres d (p_setslice gen_sig_tables d a b c vs).
Proof.
  unfold src_setitem, gen_sl_setitem, p_setslice, py_getitem, py_setitem.
  destruct (slice_indices (zlen d) a b c) as [[[start stop] step]|]; [|reflexivity].
  destruct (step =? 1); [reflexivity|]. destruct (zlen vs =? zlen (slice_positions start stop step)); reflexivity.
Qed.
Lemma delitem_bridge d i : src_delitem d (IInt i) = of_lres d (p_delitem gen_sig_tables d i).
Proof. unfold src_delitem, gen_sl_delitem, p_delitem, py_getitem, py_delitem. destruct (norm_index (zlen d) i); reflexivity. Qed.
Lemma delslice_bridge d a b c : src_delitem d (ISlice a b c) = of_lres d (p_delslice gen_sig_tables d a b c).
Proof.
  unfold src_delitem, gen_sl_delitem, p_delslice, py_getitem, py_delitem.
  destruct (slice_indices (zlen d) a b c) as [[[start stop] step]|]; reflexivity.
Qed.
Lemma insert_bridge d i v : src_insert d (IInt i) (VInt v) = of_lres d (p_insert gen_sig_tables d i v).
Proof. reflexivity. Qed.
Lemma append_bridge d v : src_append d (VInt v) = of_lres d (p_append gen_sig_tables d v).
Proof. reflexivity. Qed.

(* ------------------------------------------------------------------ headline facts restated about the translated source *)
(* the translated observe: accepted exactly when every requested (name, type) exists; then the handler is appended
   to exactly the lists the call names; otherwise it raises and the registry at the raise is the one it started from *)
Theorem src_observe_spec tb dead slots s0 nm ty h : tables_ok tb = true ->
  match src_observe tb dead slots (opt_nm nm) (opt_ty ty) h s0 with
  | inl s => observe_ok tb slots nm ty = true /\
             forall k, sget k s = if matches tb slots nm ty k then sget k s0 ++ [h] else sget k s0
  | inr (e, s) => observe_ok tb slots nm ty = false /\ s = s0 /\ (e = E_UNKNOWN_NAME \/ e = E_UNKNOWN_TYPE)
  end.
Proof.
  intros Hok. pose proof (observe_bridge tb dead slots s0 nm ty h) as B. cbv zeta in B. cbn [i_subs] in B.
  pose proof (fun k => observe_sget tb {| i_slots := slots; i_subs := s0 |} nm ty h k Hok) as G.
  rewrite observe_eq in B. cbn [i_slots i_subs] in *. rewrite observe_eq in G. cbn [i_slots i_subs] in G.
  destruct (src_observe tb dead slots (opt_nm nm) (opt_ty ty) h s0) as [s|[e s]];
    destruct (observe_ok tb slots nm ty); inversion B; subst.
  - split; [reflexivity|]. intros k. specialize (G k). cbn [fst i_subs andb] in G. exact G.
  - split; [reflexivity|]. split; [reflexivity|]. destruct nm as [|n]; [right; reflexivity|].
    destruct (known slots n); [right|left]; reflexivity.
Qed.

(* the translated _mesa_notify calls exactly the live references of subscribers[name][type], in list order, and
   keeps exactly those *)
Theorem src_mesa_notify_spec tb dead slots n t s :
  src_mesa_notify tb dead slots n t s = inl (sset (n, t) (live dead (sget (n, t) s)) s, live dead (sget (n, t) s)).
Proof. reflexivity. Qed.

(* ================================================================== the mutators inherited from MutableSequence
   (translated from the CPython stdlib source by harness/tables/signals_stdlib.py): abstract sequence programs over
   getitem / setitem / delitem / append / index / len, instantiated with SignalingList's own methods. State =
   (the data, the signals emitted so far). *)
Definition sq := (list Z * list emit)%type.
Section Derived.
  Variable tb : sig_tables.
  (* SignalingList.__getitem__ : return self.data[index]   (int index) *)
  Definition q_getitem (s : sq) (i : Z) : Z + Z :=
    match norm_index (zlen (fst s)) i with Some j => inl (znth (fst s) j) | None => inr E_INDEX end.
  Definition q_of_lres (s : sq) (r : lres) : sq + Z :=
    match r with LOk d' es _ => inl (d', snd s ++ es) | LErr k => inr k end.
  Definition q_setitem (s : sq) (i v : Z) : sq + Z := q_of_lres s (p_setitem tb (fst s) i v).
  Definition q_delitem (s : sq) (i : Z) : sq + Z := q_of_lres s (p_delitem tb (fst s) i).
  Definition q_append (s : sq) (v : Z) : sq := (fst s ++ [v], snd s ++ [em_append tb v (zlen (fst s))]).
  (* Sequence.index (transcribed: index_of; source checked verbatim by gen_ms_glue_ok) *)
  Definition q_index (s : sq) (v : Z) : Z + Z :=
    match index_of 0 v (fst s) with Some j => inl j | None => inr E_VALUE end.
  Definition q_len (s : sq) : Z := zlen (fst s).
  Definition q_snapshot (s : sq) : list Z := fst s.

  Definition src_pop := gen_ms_pop q_getitem q_setitem q_delitem q_append q_index q_len q_snapshot.
  Definition src_remove := gen_ms_remove q_getitem q_setitem q_delitem q_append q_index q_len q_snapshot.
  Definition src_extend := gen_ms_extend q_getitem q_setitem q_delitem q_append q_index q_len q_snapshot.
  Definition src_iadd := gen_ms_iadd q_getitem q_setitem q_delitem q_append q_index q_len q_snapshot src_extend.
  Definition src_reverse := gen_ms_reverse q_getitem q_setitem q_delitem q_append q_index q_len q_snapshot.
  Definition src_clear_list :=
    gen_ms_clear q_getitem q_setitem q_delitem q_append q_index q_len q_snapshot (fun s => src_pop s gen_ms_pop_default).

  Definition lres_of_q (r : (sq * option Z) + Z) : lres :=
    match r with
    | inl ((d, es), Some v) => LOk d es (VInt v)
    | inl ((d, es), None) => LOk d es VNone
    | inr k => LErr k
    end.

  Lemma pop_bridge_acc d acc i :
    src_pop (d, acc) i =
    match l_pop tb d i with
    | LOk d' es (VInt v) => inl ((d', acc ++ es), Some v)
    | LOk d' es _ => inr 99
    | LErr k => inr k
    end.
  Proof.
    unfold src_pop, gen_ms_pop, l_pop, q_getitem, q_delitem, p_delitem. cbn [fst snd].
    destruct (norm_index (zlen d) i) as [j|]; reflexivity.
  Qed.
  Lemma pop_bridge d i : l_pop tb d i = lres_of_q (src_pop (d, []) i).
  Proof. rewrite pop_bridge_acc. unfold l_pop, p_delitem. destruct (norm_index (zlen d) i); reflexivity. Qed.

  Lemma remove_bridge d v : l_remove tb d v = lres_of_q (src_remove (d, []) v).
  Proof.
    unfold src_remove, gen_ms_remove, l_remove, q_index, q_delitem, p_delitem. cbn [fst snd].
    destruct (index_of 0 v d) as [j|]; [|reflexivity]. destruct (norm_index (zlen d) j); reflexivity.
  Qed.

  Lemma extend_fold vs : forall d acc,
    fold_err (fun s v => inl (q_append s v)) vs (d, acc) = inl (extend_loop tb d vs acc).
  Proof. induction vs as [|v t IH]; intros d acc; cbn [fold_err extend_loop]; [reflexivity|]. apply IH. Qed.
  Lemma extend_bridge d vs : l_extend tb d vs = lres_of_q (src_extend (d, []) vs false).
  Proof.
    unfold src_extend, gen_ms_extend, l_extend. cbv zeta. rewrite extend_fold.
    destruct (extend_loop tb d vs []). reflexivity.
  Qed.
  (* extend(self): `if values is self: values = list(values)` *)
  Lemma extend_self_bridge d vs : l_extend tb d d = lres_of_q (src_extend (d, []) vs true).
  Proof.
    unfold src_extend, gen_ms_extend, l_extend, q_snapshot. cbv zeta. cbn [fst]. rewrite extend_fold.
    destruct (extend_loop tb d d []). reflexivity.
  Qed.
  (* __iadd__ = extend, return self; the descriptor's __set__ that `owner.l += vs` then performs is the model's em_change *)
  Lemma iadd_bridge d vs : l_extend tb d vs = lres_of_q (src_iadd (d, []) vs false).
  Proof.
    unfold src_iadd, gen_ms_iadd. pose proof (extend_bridge d vs) as E. unfold src_extend in *.
    unfold gen_ms_extend in *. cbv zeta in *. rewrite extend_fold in *.
    rewrite E. destruct (extend_loop tb d vs []). reflexivity.
  Qed.

  Lemma l_pop_err d i k : l_pop tb d i = LErr k -> k = E_INDEX.
  Proof.
    unfold l_pop, p_delitem. destruct (norm_index (zlen d) i); intros H; inversion H. reflexivity.
  Qed.
  Lemma l_pop_ret d i d' es r : l_pop tb d i = LOk d' es r -> exists v, r = VInt v.
  Proof.
    unfold l_pop, p_delitem. destruct (norm_index (zlen d) i); intros H; inversion H. eexists. reflexivity.
  Qed.
  Lemma l_pop_m1_cons a t :
    l_pop tb (a :: t) (-1) =
    LOk (zdel (a :: t) (zlen (a :: t) - 1))
        [em_remove tb (VInt (znth (a :: t) (zlen (a :: t) - 1))) (IInt (-1))] (VInt (znth (a :: t) (zlen (a :: t) - 1))).
  Proof. unfold l_pop, p_delitem. rewrite (norm_index_m1 (a :: t)) by discriminate. reflexivity. Qed.
  Lemma clear_while fuel : forall d acc, (length d < fuel)%nat ->
    while_catch fuel 4 (fun s => match src_pop s gen_ms_pop_default with inl (s, _) => inl s | inr e => inr e end) (d, acc)
    = inl (clear_loop tb fuel d acc).
  Proof.
    induction fuel as [|f IH]; intros d acc H; [lia|]. cbn [while_catch clear_loop].
    rewrite pop_bridge_acc. change gen_ms_pop_default with (-1).
    destruct d as [|a t]; [reflexivity|]. rewrite l_pop_m1_cons. apply IH.
    assert (0 <= zlen (a :: t) - 1 < zlen (a :: t)) as Hr by (unfold zlen; cbn [length]; rewrite Nat2Z.inj_succ; lia).
    rewrite (length_zdel _ _ Hr). cbn [length] in *. lia.
  Qed.
  Lemma clear_bridge_list d : l_clear tb d = lres_of_q (src_clear_list (S (length d)) (d, [])).
  Proof.
    unfold src_clear_list, gen_ms_clear, l_clear. rewrite clear_while by lia.
    destruct (clear_loop tb (S (length d)) d []). reflexivity.
  Qed.

  (* one round of MutableSequence.reverse, as the model's reverse_loop performs it *)
  Definition rev_step (d : list Z) (acc : list emit) (i : Z) : sq :=
    let n := zlen d in
    let a := znth d (n - i - 1) in
    let b := znth d i in
    let e1 := em_replace tb (VInt (znth d i)) (VInt a) (IInt i) in
    let d1 := zupd d i a in
    let e2 := em_replace tb (VInt (znth d1 (n - i - 1))) (VInt b) (IInt (n - i - 1)) in
    let d2 := zupd d1 (n - i - 1) b in
    (d2, acc ++ [e1; e2]).
  Lemma reverse_loop_S f i d acc :
    reverse_loop tb (S f) i d acc = reverse_loop tb f (i + 1) (fst (rev_step d acc i)) (snd (rev_step d acc i)).
  Proof. reflexivity. Qed.
  Lemma rev_step_len d acc i : 0 <= i -> i < zlen d / 2 -> zlen (fst (rev_step d acc i)) = zlen d.
  Proof.
    intros Hi Hb. assert (0 <= zlen d) by (unfold zlen; lia).
    assert (2 * (zlen d / 2) <= zlen d) by (apply Z.mul_div_le; lia).
    assert (0 <= i < zlen d) as R1 by lia. assert (0 <= zlen d - i - 1 < zlen d) as R2 by lia.
    unfold rev_step. cbn [fst]. rewrite zlen_zupd; [apply zlen_zupd; exact R1|rewrite zlen_zupd by exact R1; exact R2].
  Qed.

  Lemma reverse_fold (f : sq -> Z -> sq + Z) n :
    (forall d acc i, zlen d = n -> 0 <= i -> i < n / 2 -> f (d, acc) i = inl (rev_step d acc i)) ->
    forall fuel i d acc, zlen d = n -> 0 <= i -> i + Z.of_nat fuel <= n / 2 ->
    fold_err f (map (fun k => i + Z.of_nat k) (seq 0 fuel)) (d, acc) = inl (reverse_loop tb fuel i d acc).
  Proof.
    intros Hf. induction fuel as [|fu IH]; intros i d acc Hl Hi Hb; [reflexivity|].
    cbn [seq map fold_err]. rewrite Z.add_0_r. rewrite (Hf d acc i Hl Hi) by lia.
    rewrite reverse_loop_S. destruct (rev_step d acc i) as [d2 acc2] eqn:E. cbn [fst snd].
    rewrite <- seq_shift, map_map.
    rewrite (map_ext _ (fun k => (i + 1) + Z.of_nat k)) by (intros k; lia).
    apply IH; [|lia|lia].
    replace d2 with (fst (rev_step d acc i)) by (rewrite E; reflexivity). rewrite rev_step_len; [exact Hl|exact Hi|rewrite Hl; lia].
  Qed.

  Lemma reverse_bridge d : l_reverse tb d = lres_of_q (src_reverse (d, [])).
  Proof.
    unfold src_reverse, gen_ms_reverse, l_reverse. cbv zeta. unfold q_len. cbn [fst].
    assert (0 <= zlen d / 2) as H2 by (apply Z.div_pos; unfold zlen; lia).
    unfold zrange. replace (Z.to_nat (zlen d / 2 - 1 - 0 + 1)) with (Z.to_nat (zlen d / 2)) by lia.
    erewrite (reverse_fold _ (zlen d)); [destruct (reverse_loop tb (Z.to_nat (zlen d / 2)) 0 d []); reflexivity| |reflexivity|lia|lia].
    intros d0 acc i Hl Hi Hb.
    assert (0 <= zlen d0) by (unfold zlen; lia).
    assert (2 * (zlen d0 / 2) <= zlen d0) by (apply Z.mul_div_le; lia).
    unfold q_getitem, q_setitem, p_setitem, rev_step. cbn [fst snd]. rewrite <- Hl in *.
    rewrite (norm_index_in (zlen d0) (zlen d0 - i - 1)) by lia.
    rewrite (norm_index_in (zlen d0) i) by lia. cbn [q_of_lres fst snd].
    rewrite zlen_zupd by lia. rewrite (norm_index_in (zlen d0) (zlen d0 - i - 1)) by lia. cbn [q_of_lres fst snd].
    rewrite <- app_assoc. reflexivity.
  Qed.
End Derived.
