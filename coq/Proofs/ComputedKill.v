(* Owner collection: foundations for the invariant relative to a set of healthy computeds
   (round 4; see reports/g17.md for what is and is not reached).

   1. RDe  - the per-computed invariant "parents are the reads of the last evaluation" stated about the
             function ALONE: the Computables it read are an arbitrary environment `env` (their values at that
             time), not recomputed on the old store.  It follows from RD, still determines the value
             (RDe_det), and - unlike RD - survives the collection of an owner the evaluation did not read
             (RDe_kill).
   2. sd_unhealthy - a dirty cascade started at an unhealthy computed dirties only unhealthy computeds
             (for any set U closed the right way), so notifications caused by unhealthy computeds never
             disturb the clean-clauses of the healthy ones.
   3. GU / kill_GU - the global invariant relative to a healthy set U, its embedding (all-alive invariant =
             GU for U = everything) and its preservation by a collection when U shrinks by the computeds that
             remember a source of the collected owner, closed upwards along `parents`. *)
From Coq Require Import ZArith List Bool PeanoNat Lia.
From Mesa Require Import Model.Computed Proofs.ComputedProofs.
Import ListNotations.
Open Scope Z_scope.

Section K.
  Variable prog : list cdef.
  Notation n := (ncomp prog).
  Notation cown := (cowner prog).
  Notation ownof := (owner_of prog).
  Notation ex k := (d_expr (cdef_at prog k)).

  (* ---------------------------------------------------------------- 1. the environment form *)
  Definition RDe (al : Z -> bool) (j : nat) (P : pdict) (v : Z) : Prop :=
    exists env sto0, (forall p, In p (flat P) <-> In p (preads prog env al sto0 j (ex j))) /\
                     v = pev prog env al sto0 j (ex j).

  Lemma RD_RDe : forall al j P v, RD prog al j P v -> RDe al j P v.
  Proof.
    intros al j P v [sto0 [Hp Hv]]. exists (den prog al sto0), sto0. split; [exact Hp|].
    rewrite Hv. apply den_unfold.
  Qed.

  Lemma preads_det_env : forall env al sto0 sto' j e,
    (forall s x, In (s, x) (preads prog env al sto0 j e) -> dsrc prog al sto' s = x) ->
    pev prog (den prog al sto') al sto' j e = pev prog env al sto0 j e /\
    preads prog (den prog al sto') al sto' j e = preads prog env al sto0 j e.
  Proof.
    intros env al sto0 sto' j. induction e as [z|o nm|k|a IHa b IHb|c IHc a IHa b IHb]; simpl; intros H.
    - auto.
    - destruct (al o) eqn:E; auto. specialize (H (SObs o nm) (sto0 o nm) (or_introl eq_refl)). simpl in H.
      rewrite H. auto.
    - destruct ((k <? j)%nat && al (cown k)) eqn:E; auto.
      specialize (H (SComp k) (env k) (or_introl eq_refl)). simpl in H. rewrite H. auto.
    - destruct IHa as [A1 A2]; [intros; apply H; apply in_or_app; auto|].
      destruct IHb as [B1 B2]; [intros; apply H; apply in_or_app; auto|].
      rewrite A1, A2, B1, B2. auto.
    - destruct IHc as [C1 C2]; [intros; apply H; apply in_or_app; auto|].
      rewrite C1, C2. destruct (pev prog env al sto0 j c =? 0).
      + destruct IHb as [B1 B2]; [intros; apply H; apply in_or_app; auto|]. rewrite B1, B2. auto.
      + destruct IHa as [A1 A2]; [intros; apply H; apply in_or_app; auto|]. rewrite A1, A2. auto.
  Qed.

  (* the remembered pairs still determine the value and the reads *)
  Lemma RDe_det : forall al j P v, RDe al j P v ->
    forall sto', (forall s x, In (s, x) (flat P) -> dsrc prog al sto' s = x) ->
    den prog al sto' j = v /\ (forall p, In p (flat P) <-> In p (reads_of prog al sto' j)).
  Proof.
    intros al j P v [env [sto0 [Hp Hv]]] sto' H.
    destruct (preads_det_env env al sto0 sto' j (ex j)) as [E1 E2].
    { intros s x Hin. apply H. apply Hp. exact Hin. }
    split.
    - rewrite den_unfold, E1. symmetry. exact Hv.
    - intro p. unfold reads_of. rewrite E2. apply Hp.
  Qed.

  (* an evaluation none of whose reads is on owner o is literally the same evaluation once o is collected *)
  Lemma preads_kill_env : forall env al sto0 o j e,
    (forall s x, In (s, x) (preads prog env al sto0 j e) -> ownof s <> o) ->
    pev prog env (al_kill al o) sto0 j e = pev prog env al sto0 j e /\
    preads prog env (al_kill al o) sto0 j e = preads prog env al sto0 j e.
  Proof.
    intros env al sto0 o j. induction e as [z|o' nm|k|a IHa b IHb|c IHc a IHa b IHb]; simpl; intros H; auto.
    - unfold al_kill. destruct (al o') eqn:E.
      + pose proof (H (SObs o' nm) (sto0 o' nm) (or_introl eq_refl)) as Hne. simpl in Hne.
        destruct (o' =? o) eqn:E2; [apply Z.eqb_eq in E2; contradiction|]. auto.
      + destruct (o' =? o); auto.
    - unfold al_kill. destruct (k <? j)%nat eqn:E1; simpl in *; auto.
      destruct (al (cown k)) eqn:E2.
      + pose proof (H (SComp k) (env k) (or_introl eq_refl)) as Hne. simpl in Hne.
        destruct (cown k =? o) eqn:E3; [apply Z.eqb_eq in E3; contradiction|]. auto.
      + destruct (cown k =? o); auto.
    - destruct IHa as [A1 A2]; [intros; eapply H; apply in_or_app; eauto|].
      destruct IHb as [B1 B2]; [intros; eapply H; apply in_or_app; eauto|].
      rewrite A1, A2, B1, B2. auto.
    - destruct IHc as [C1 C2]; [intros; eapply H; apply in_or_app; eauto|].
      rewrite C1, C2. destruct (pev prog env al sto0 j c =? 0).
      + destruct IHb as [B1 B2]; [intros; eapply H; apply in_or_app; eauto|]. rewrite B1, B2. auto.
      + destruct IHa as [A1 A2]; [intros; eapply H; apply in_or_app; eauto|]. rewrite A1, A2. auto.
  Qed.

  (* Computed.parents after owner o is collected (the WeakKeyDictionary drops o's entry) *)
  Definition pkill (o : Z) (P : pdict) : pdict := filter (fun e => negb (fst e =? o)) P.

  Lemma pkill_id : forall o P, owner_keyed ownof P -> (forall s x, In (s, x) (flat P) -> ownof s <> o) ->
    forall p, In p (flat (pkill o P)) <-> In p (flat P).
  Proof.
    intros o P Hk Hn p. unfold pkill. rewrite !in_flat. split.
    - intros [o' [l [H1 H2]]]. apply filter_In in H1. destruct H1 as [H1 _]. exists o', l. auto.
    - intros [o' [l [H1 H2]]]. exists o', l. split; auto. apply filter_In. split; auto. simpl.
      apply negb_true_iff. apply Z.eqb_neq. intro E. subst o'.
      destruct p as [s x]. apply (Hn s x); [apply in_flat; exists o, l; auto|].
      exact (Hk o l H1 (s, x) H2).
  Qed.

  (* RDe survives the collection of an owner the last evaluation did not read *)
  Lemma RDe_kill : forall al o j P v, RDe al j P v -> owner_keyed ownof P ->
    (forall s x, In (s, x) (flat P) -> ownof s <> o) ->
    RDe (al_kill al o) j (pkill o P) v.
  Proof.
    intros al o j P v [env [sto0 [Hp Hv]]] Hk Hn.
    destruct (preads_kill_env env al sto0 o j (ex j)) as [E1 E2].
    { intros s x Hin. apply (Hn s x). apply Hp. exact Hin. }
    exists env, sto0. split.
    - intro p. rewrite E2, (pkill_id o P Hk Hn). apply Hp.
    - rewrite E1. exact Hv.
  Qed.

  (* ---------------------------------------------------------------- 2. cascades among the unhealthy *)
  (* U i = "i is healthy".  closedU: a healthy subscriber only subscribes to healthy Computables *)
  Definition closedU (U : nat -> Prop) (st : state) : Prop :=
    forall c d, In d (subs st (SComp c)) -> U d -> U c.

  Lemma sd_unhealthy : forall (U : nat -> Prop) f st c, closedU U st -> ~ U c ->
    forall i, U i -> dirty (set_dirty prog f st c) i = dirty st i.
  Proof.
    intros U. induction f as [|f IH]; intros st c HC Hc i Hi; simpl; auto.
    destruct (negb (c <? n)%nat); auto. destruct (negb (alive st (cown c))); auto.
    destruct (dirty st c) eqn:Ed; auto.
    set (st1 := upd_dirty st (updn (dirty st) c true)).
    assert (H1 : dirty st1 i = dirty st i).
    { unfold st1. simpl. apply updn_other. intro E. subst. contradiction. }
    rewrite <- H1.
    assert (HF : forall l s, closedU U s -> (forall d, In d l -> ~ U d) ->
                 dirty (fold_left (set_dirty prog f) l s) i = dirty s i).
    { induction l as [|d l IHl]; intros s Hs Hl; simpl; auto.
      rewrite IHl.
      - apply IH; auto. apply Hl. left. reflexivity.
      - intros c' d' Hin. destruct (sd_frame prog f s d) as (_ & _ & _ & _ & _ & _ & E & _). rewrite E in Hin.
        apply (Hs c' d' Hin).
      - intros d' Hd'. apply Hl. right. exact Hd'. }
    apply HF.
    - exact HC.
    - intros d Hd Hu. apply Hc. apply (HC c d); auto.
  Qed.

  Lemma sd_mono : forall f st c i, dirty st i = true -> dirty (set_dirty prog f st c) i = true.
  Proof.
    induction f as [|f IH]; intros st c i H; simpl; auto.
    destruct (negb (c <? n)%nat); auto. destruct (negb (alive st (cown c))); auto.
    destruct (dirty st c) eqn:Ed; auto.
    assert (HF : forall l s, dirty s i = true -> dirty (fold_left (set_dirty prog f) l s) i = true).
    { induction l as [|x l IHl]; intros s Hs; simpl; auto. }
    apply HF. simpl. unfold updn. destruct (Nat.eqb i c); auto.
  Qed.

  Lemma notify_unhealthy : forall (U : nat -> Prop) st s, closedU U st ->
    (forall d, In d (subs st s) -> dirty st d = true \/ ~ U d) ->
    forall i, U i -> dirty (notify prog st s) i = dirty st i.
  Proof.
    intros U st s HC. unfold notify. generalize (subs st s). intro l. revert st HC.
    induction l as [|d l IH]; intros st HC Hl i Hi; simpl; auto.
    assert (E1 : dirty (set_dirty prog n st d) i = dirty st i).
    { destruct (Hl d (or_introl eq_refl)) as [Hd|Hd].
      - rewrite set_dirty_dirty; auto.
      - apply (sd_unhealthy U); auto. }
    rewrite IH; auto.
    - intros c' d' Hin. destruct (sd_frame prog n st d) as (_ & _ & _ & _ & _ & _ & E & _). rewrite E in Hin.
      apply (HC c' d' Hin).
    - intros d' Hd'. destruct (Hl d' (or_intror Hd')) as [H|H]; auto. left.
      apply sd_mono. exact H.
  Qed.

  (* ---------------------------------------------------------------- 3. the invariant relative to a healthy set *)
  Record GU (U : nat -> Prop) (st : state) : Prop := {
    u_valid : forall j, U j -> (j < n)%nat /\ alive st (cown j) = true;
    u_down : forall j k x, U j -> In (SComp k, x) (flat (parents st j)) -> U k;
    u_par_alive : forall j s x, In (s, x) (flat (parents st j)) -> alive st (ownof s) = true;
    u_subs_valid : forall s d, In d (subs st s) -> (d < n)%nat;
    u_subs_up : forall c d, In d (subs st (SComp c)) -> (c < d)%nat;
    u_par_down : forall j k x, In (SComp k, x) (flat (parents st j)) -> (k < j)%nat;
    u_par_owner : forall j, owner_keyed ownof (parents st j);
    u_subs_par : forall s d, alive st (ownof s) = true -> In d (subs st s) -> exists x, In (s, x) (flat (parents st d));
    u_par_sub : forall j s x, In (s, x) (flat (parents st j)) -> In j (subs st s);
    u_clean_first : forall j, U j -> dirty st j = false -> first st j = false;
    u_clean_val : forall j s x, U j -> dirty st j = false -> In (s, x) (flat (parents st j)) -> Dsrc prog st s = x;
    u_clean_par : forall j k x, U j -> dirty st j = false -> In (SComp k, x) (flat (parents st j)) -> dirty st k = false;
    u_RD : forall j, U j -> first st j = false -> RDe (alive st) j (parents st j) (value st j)
  }.

  (* the all-alive invariant of the collection-free histories is the case U = every computed *)
  Lemma Inv_GU : forall st, Inv prog st -> GU (fun j => (j < n)%nat) st.
  Proof.
    intros st [HG HR]. destruct HG. constructor.
    - intros j Hj. split; auto.
    - intros j k x Hj H. pose proof (g_par_down j k x H). lia.
    - intros. apply g_alive.
    - exact g_subs_valid.
    - exact g_subs_up.
    - exact g_par_down.
    - exact g_par_owner.
    - intros s d _ H. exact (g_subs_par s d H).
    - exact g_par_sub.
    - intros j _ H. exact (g_clean_first j H).
    - intros j s x _. exact (g_clean_val j s x).
    - intros j k x _. exact (g_clean_par j k x).
    - intros j Hj Hf. apply RD_RDe. apply HR; auto.
  Qed.

  (* what a healthy clean computed serves is the denotation - also with dead owners around *)
  Lemma GU_clean_value : forall U st j, GU U st -> U j -> dirty st j = false -> value st j = D prog st j.
  Proof.
    intros U st j HU Hj Hd.
    destruct (RDe_det _ _ _ _ (u_RD _ _ HU j Hj (u_clean_first _ _ HU j Hj Hd)) (store st)) as [H _].
    - intros s x Hin. exact (u_clean_val _ _ HU j s x Hj Hd Hin).
    - symmetry. exact H.
  Qed.

  Definition kill_state (st : state) (o : Z) : state :=
    let st1 := upd_ps st [] in
    let st2 := upd_alive st1 (fun o' => if o' =? o then false else alive st1 o') in
    upd_parents st2 (fun j => filter (fun e => negb (fst e =? o)) (parents st2 j)).

  Lemma step_kill : forall nobs st o, alive st o = true -> fst (step prog nobs st (Kill o)) = kill_state st o.
  Proof. intros nobs st o H. unfold step. rewrite H. reflexivity. Qed.

  Lemma indepf_mono : forall st o f k, indepf prog f st o k = true -> indepf prog (S f) st o k = true.
  Proof.
    intros st o. induction f as [|f IH]; intros k H; [discriminate|].
    simpl in H. rewrite forallb_forall in H. cbn [indepf]. rewrite forallb_forall. intros p Hp.
    specialize (H p Hp). apply andb_true_iff in H. destruct H as [H1 H2]. apply andb_true_iff. split; auto.
    destruct (fst p) as [o' nm|k']; [auto|apply IH; exact H2].
  Qed.

  Lemma indepf_parents : forall st o f k s x, indepf prog (S f) st o k = true -> In (s, x) (flat (parents st k)) ->
    ownof s <> o /\ (forall k', s = SComp k' -> indepf prog f st o k' = true).
  Proof.
    intros st o f k s x H Hin. simpl in H. rewrite forallb_forall in H. specialize (H (s, x) Hin). simpl in H.
    apply andb_true_iff in H. destruct H as [H1 H2]. split.
    - apply negb_true_iff in H1. apply Z.eqb_neq. exact H1.
    - intros k' E. subst s. exact H2.
  Qed.

  (* a healthy clean computed whose remembered cone avoids o keeps its denotation when o is collected *)
  Lemma den_kill_U : forall U st o, GU U st -> forall f k, (k < f)%nat -> U k -> dirty st k = false ->
    indepf prog f st o k = true ->
    den prog (al_kill (alive st) o) (store st) k = den prog (alive st) (store st) k.
  Proof.
    intros U st o HU. induction f as [|f IH]; intros k Hkf Hk Hd Hi; [lia|].
    pose proof (u_clean_first _ _ HU k Hk Hd) as Hf.
    destruct (RDe_det _ _ _ _ (u_RD _ _ HU k Hk Hf) (store st)) as [_ H2].
    { intros s x H. exact (u_clean_val _ _ HU k s x Hk Hd H). }
    rewrite (den_unfold prog (al_kill (alive st) o)), (den_unfold prog (alive st)).
    apply pev_kill. intros s x Hin. apply H2 in Hin.
    destruct (indepf_parents st o f k s x Hi Hin) as [Hne Hk'].
    split; [exact Hne|].
    pose proof (u_clean_val _ _ HU k s x Hk Hd Hin) as Hv. destruct s as [o' nm|k']; [exact Hv|].
    simpl. simpl in Hv. rewrite <- Hv. apply IH.
    - pose proof (u_par_down _ _ HU k k' x Hin). lia.
    - exact (u_down _ _ HU k k' x Hk Hin).
    - exact (u_clean_par _ _ HU k k' x Hk Hd Hin).
    - apply Hk'. reflexivity.
  Qed.

  (* the healthy set after collecting o: healthy before, not owned by o, and the last evaluation read nothing
     of o - directly or through the Computables it remembers *)
  Definition U_kill (U : nat -> Prop) (st : state) (o : Z) : nat -> Prop :=
    fun j => U j /\ cown j <> o /\ indepf prog n st o j = true.

  (* a collection keeps the invariant, relative to the shrunken healthy set - for computeds clean or DIRTY at
     that moment *)
  Lemma kill_GU : forall U st o, GU U st -> GU (U_kill U st o) (kill_state st o).
  Proof.
    intros U st o HU.
    assert (Ep : forall j, parents (kill_state st o) j = pkill o (parents st j)) by (intro; reflexivity).
    assert (Ea : alive (kill_state st o) = al_kill (alive st) o) by reflexivity.
    assert (Hsub : forall j p, In p (flat (parents (kill_state st o) j)) -> In p (flat (parents st j))).
    { intros j p H. rewrite Ep in H. unfold pkill in H. apply in_flat in H. destruct H as [o' [l [H1 H2]]].
      apply filter_In in H1. apply in_flat. exists o', l. tauto. }
    assert (Hkey : forall j s x, In (s, x) (flat (parents (kill_state st o) j)) -> ownof s <> o).
    { intros j s x H. rewrite Ep in H. unfold pkill in H. apply in_flat in H. destruct H as [o' [l [H1 H2]]].
      apply filter_In in H1. destruct H1 as [H1 H3]. simpl in H3. apply negb_true_iff in H3. apply Z.eqb_neq in H3.
      pose proof (u_par_owner _ _ HU j o' l H1 (s, x) H2) as Eo. simpl in Eo. rewrite Eo. exact H3. }
    assert (Hnone : forall j, U_kill U st o j -> forall s x, In (s, x) (flat (parents st j)) -> ownof s <> o).
    { intros j (Hj & _ & Hi) s x Hin. unfold ncomp in Hi. destruct (length prog) as [|m] eqn:El; [discriminate|].
      exact (proj1 (indepf_parents st o m j s x Hi Hin)). }
    assert (Hsame : forall j, U_kill U st o j -> forall p, In p (flat (parents (kill_state st o) j)) <-> In p (flat (parents st j))).
    { intros j Hj p. rewrite Ep. apply pkill_id; [apply (u_par_owner _ _ HU)|apply (Hnone j Hj)]. }
    constructor.
    - intros j (Hj & Hne & _). destruct (u_valid _ _ HU j Hj) as [H1 H2]. split; auto.
      rewrite Ea. unfold al_kill. destruct (cown j =? o) eqn:E; [apply Z.eqb_eq in E; contradiction|exact H2].
    - intros j k x Hj Hin. pose proof Hj as (Hj0 & _ & Hi). apply Hsub in Hin.
      split; [exact (u_down _ _ HU j k x Hj0 Hin)|]. split.
      + exact (Hnone j Hj (SComp k) x Hin).
      + unfold ncomp in *. destruct (length prog) as [|m] eqn:El; [discriminate|].
        apply indepf_mono. exact (proj2 (indepf_parents st o m j (SComp k) x Hi Hin) k eq_refl).
    - intros j s x Hin. rewrite Ea. unfold al_kill. pose proof (Hkey j s x Hin) as Hne.
      destruct (ownof s =? o) eqn:E; [apply Z.eqb_eq in E; contradiction|].
      exact (u_par_alive _ _ HU j s x (Hsub j _ Hin)).
    - exact (u_subs_valid _ _ HU).
    - exact (u_subs_up _ _ HU).
    - intros j k x Hin. exact (u_par_down _ _ HU j k x (Hsub j _ Hin)).
    - intros j o' l Hin p Hp. rewrite Ep in Hin. unfold pkill in Hin. apply filter_In in Hin.
      exact (u_par_owner _ _ HU j o' l (proj1 Hin) p Hp).
    - intros s d Hal Hin. rewrite Ea in Hal. unfold al_kill in Hal.
      destruct (ownof s =? o) eqn:E; [discriminate|]. apply Z.eqb_neq in E.
      destruct (u_subs_par _ _ HU s d Hal Hin) as [x Hx]. exists x. rewrite Ep. unfold pkill.
      apply in_flat in Hx. destruct Hx as [o' [l [H1 H2]]]. apply in_flat. exists o', l. split; auto.
      apply filter_In. split; auto. simpl. apply negb_true_iff. apply Z.eqb_neq.
      pose proof (u_par_owner _ _ HU d o' l H1 (s, x) H2) as Eo. simpl in Eo. rewrite <- Eo. exact E.
    - intros j s x Hin. exact (u_par_sub _ _ HU j s x (Hsub j _ Hin)).
    - intros j (Hj & _) Hd. exact (u_clean_first _ _ HU j Hj Hd).
    - intros j s x Hj Hd Hin. pose proof Hj as (Hj0 & _ & Hi). apply Hsub in Hin.
      pose proof (u_clean_val _ _ HU j s x Hj0 Hd Hin) as Hv.
      destruct s as [o' nm|k]; [exact Hv|].
      change (den prog (al_kill (alive st) o) (store st) k = x). simpl in Hv. rewrite <- Hv.
      unfold ncomp in *. destruct (length prog) as [|m] eqn:El; [discriminate|].
      apply (den_kill_U U st o HU m k).
      + pose proof (u_par_down _ _ HU j k x Hin). destruct (u_valid _ _ HU j Hj0) as [Hn _]. unfold ncomp in Hn. lia.
      + exact (u_down _ _ HU j k x Hj0 Hin).
      + exact (u_clean_par _ _ HU j k x Hj0 Hd Hin).
      + exact (proj2 (indepf_parents st o m j (SComp k) x Hi Hin) k eq_refl).
    - intros j k x (Hj & _) Hd Hin. exact (u_clean_par _ _ HU j k x Hj Hd (Hsub j _ Hin)).
    - intros j Hj Hf. pose proof Hj as (Hj0 & _ & _). rewrite Ea, Ep.
      apply RDe_kill; [exact (u_RD _ _ HU j Hj0 Hf)|apply (u_par_owner _ _ HU)|exact (Hnone j Hj)].
  Qed.

  (* several collections in a row: the healthy set shrinks at each of them *)
  Fixpoint kills (st : state) (os : list Z) : state :=
    match os with [] => st | o :: t => kills (kill_state st o) t end.
  Fixpoint U_kills (U : nat -> Prop) (st : state) (os : list Z) : nat -> Prop :=
    match os with [] => U | o :: t => U_kills (U_kill U st o) (kill_state st o) t end.

  Lemma kills_GU : forall os U st, GU U st -> GU (U_kills U st os) (kills st os).
  Proof. induction os as [|o t IH]; intros U st H; simpl; auto. apply IH. apply kill_GU. exact H. Qed.

  Lemma final_kills : forall nobs os st, (forall o, In o os -> alive st o = true) -> NoDup os ->
    final prog nobs st (map Kill os) = kills st os.
  Proof.
    intros nobs. induction os as [|o t IH]; intros st Hal Hnd; cbn [map final kills]; auto.
    rewrite step_kill by (apply Hal; left; reflexivity). apply IH.
    - intros o' Hin. simpl. destruct (o' =? o) eqn:E.
      + apply Z.eqb_eq in E. subst. inversion Hnd; contradiction.
      + apply Hal. right. exact Hin.
    - inversion Hnd; assumption.
  Qed.

  (* after any collection-free history followed by any number of collections: the invariant holds relative
     to the computeds still healthy, and every healthy clean computed is alive and is read exactly *)
  Lemma healthy_after_collections : forall nobs init pre os, no_kill pre = true ->
    let st := final prog nobs (install prog (init_state init)) pre in
    GU (U_kills (fun j => (j < n)%nat) st os) (kills st os).
  Proof. intros nobs init pre os Hn st. apply kills_GU. apply Inv_GU. apply reach_ok. exact Hn. Qed.

  Lemma never_stale_after_collections : forall nobs init pre os k, no_kill pre = true -> NoDup os ->
    let st := final prog nobs (install prog (init_state init)) pre in
    let st' := final prog nobs st (map Kill os) in
    U_kills (fun j => (j < n)%nat) st os k -> dirty st' k = false ->
    alive st' (cown k) = true /\ snd (read_top prog st' k) = den prog (alive st') (store st') k.
  Proof.
    intros nobs init pre os k Hn Hnd st st' Hk Hd.
    pose proof (healthy_after_collections nobs init pre os Hn) as HU. fold st in HU.
    assert (E : st' = kills st os).
    { unfold st'. apply final_kills; auto. intros o _. apply (g_alive _ _ (proj1 (reach_ok prog nobs init pre Hn))). }
    rewrite E in *. destruct (u_valid _ _ HU k Hk) as [Hkn Hal]. split; [exact Hal|].
    rewrite (read_cached_noop prog _ k Hkn Hd (u_clean_first _ _ HU k Hk Hd)). simpl.
    exact (GU_clean_value _ _ k HU Hk Hd).
  Qed.
End K.
