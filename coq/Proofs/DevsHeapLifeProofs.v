(* The heap-array simulator with the life-cycle layer (Model/DevsHeapLife.v) refines the sorted-list simulator with
   the life-cycle layer (Model/DevsLife.v): the relation of Proofs/DevsHeapSimProofs.v lifted to `sim`, preserved
   by every life-cycle operation (an operation of Devs.v, reset(), setup(<a new model>)); observations agree. *)
From Coq Require Import ZArith List Bool Lia Sorted Permutation.
From Mesa Require Import Generated.Tables Model.Devs Model.DevsSpec Model.Heap Model.DevsHeap Model.DevsLife Model.DevsHeapLife Proofs.DevsProofs Proofs.HeapProofs Proofs.DevsHeapProofs Proofs.DevsHeapSimProofs.
Import ListNotations. Open Scope Z_scope.

Definition xhrel (hm m : sim) : Prop := m_setup hm = m_setup m /\ hrel (m_st hm) (m_st m).

(* ---------- reset() ---------- *)
Lemma hrel_reset_state : forall hs st, hrel hs st -> hrel (reset_state hs) (reset_state st).
Proof.
  intros hs st HR.
  pose proof (hrel_uid _ _ HR) as Hu. pose proof (hrel_steps _ _ HR) as Hs. pose proof (hrel_dead _ _ HR) as Hd.
  unfold reset_state. apply hrel_intro; proj; try assumption; try reflexivity.
  - exact refines_nil.
  - unfold inv. proj. split; constructor.
Qed.

(* ---------- setup(model) that succeeded ---------- *)
Lemma hrel_setup_state : forall cfg hs st, hrel hs st -> s_events st = [] -> s_time st = 0 ->
  hrel (h_setup_state cfg hs) (setup_state cfg st).
Proof.
  intros cfg hs st HR _ _. unfold h_setup_state, setup_state. cbv zeta.
  pose proof (hrel_set_steps _ _ 0 HR) as HR0.
  destruct (c_abm cfg); [|exact HR0].
  destruct (h_schedule_relative cfg (set_steps hs 0) SCALE gen_step_prio (-1) (-1) true []) as [hs1 rch] eqn:E1.
  destruct (schedule_relative cfg (set_steps st 0) SCALE gen_step_prio (-1) (-1) true []) as [st1 rc] eqn:E2.
  cbn [fst]. exact (proj1 (hrel_schedule_relative _ _ _ _ _ _ _ _ _ _ _ _ _ HR0 E1 E2)).
Qed.

(* ---------- an operation while no model is attached ---------- *)
Lemma hrel_step_op_unset : forall cfg fuel hs st o hs' obh st' ob l, hrel hs st ->
  h_step_op_unset cfg fuel hs o = (hs', obh) -> step_op_unset cfg fuel st o = (st', ob, l) -> hrel hs' st' /\ obh = ob.
Proof.
  intros cfg fuel hs st o hs' obh st' ob l HR Hh Hs. unfold h_step_op_unset in Hh. unfold step_op_unset in Hs.
  destruct (is_run o).
  - inversion Hh; subst. inversion Hs; subst. split; [exact HR|reflexivity].
  - exact (hrel_step_op _ _ _ _ _ _ _ _ _ _ HR Hh Hs).
Qed.

(* emptiness of the two event lists agrees *)
Lemma refines_nil_l : forall sorted, refines [] sorted -> sorted = [].
Proof. intros sorted (HP & _). apply Permutation_nil. exact HP. Qed.

Lemma refines_nil_r : forall heap, refines heap [] -> heap = [].
Proof. intros heap (HP & _). apply Permutation_nil. apply Permutation_sym. exact HP. Qed.

(* ---------- one life-cycle operation ---------- *)
Lemma xhrel_xstep : forall cfg fuel hm m x hm' obh m' ob l, xhrel hm m ->
  h_xstep cfg fuel hm x = (hm', obh) -> xstep cfg fuel m x = (m', ob, l) -> xhrel hm' m' /\ obh = ob.
Proof.
  intros cfg fuel hm m x hm' obh m' ob l [Hb HR] Hh Hs.
  destruct hm as [hs hb]; destruct m as [st b]; cbn [m_st m_setup] in *. subst hb.
  destruct x as [o| |]; cbn [h_xstep xstep m_st m_setup] in Hh, Hs.
  - destruct b.
    + destruct (h_step_op cfg fuel hs o) as [hs1 obh1] eqn:E1.
      destruct (step_op cfg fuel st o) as [[st1 ob1] l1] eqn:E2.
      inversion Hh; subst. inversion Hs; subst.
      destruct (hrel_step_op _ _ _ _ _ _ _ _ _ _ HR E1 E2) as [HR1 ->].
      split; [|reflexivity]. split; cbn [m_st m_setup]; [reflexivity|exact HR1].
    + destruct (h_step_op_unset cfg fuel hs o) as [hs1 obh1] eqn:E1.
      destruct (step_op_unset cfg fuel st o) as [[st1 ob1] l1] eqn:E2.
      inversion Hh; subst. inversion Hs; subst.
      destruct (hrel_step_op_unset _ _ _ _ _ _ _ _ _ _ HR E1 E2) as [HR1 ->].
      split; [|reflexivity]. split; cbn [m_st m_setup]; [reflexivity|exact HR1].
  - cbv zeta in Hh, Hs. inversion Hh; subst. inversion Hs; subst.
    pose proof (hrel_reset_state _ _ HR) as HR1.
    split; [split; cbn [m_st m_setup]; [reflexivity|exact HR1]|].
    rewrite (h_view_eq _ _ [] HR1). reflexivity.
  - rewrite (hrel_time _ _ HR) in Hh.
    destruct (negb (s_time st =? 0)) eqn:Et.
    + inversion Hh; subst. inversion Hs; subst.
      split; [split; cbn [m_st m_setup]; [reflexivity|exact HR]|reflexivity].
    + pose proof (hrel_refines _ _ HR) as Hr.
      destruct (s_events hs) as [|eh rh] eqn:Eh; destruct (s_events st) as [|es rs] eqn:Es.
      * cbv zeta in Hh, Hs. inversion Hh; subst. inversion Hs; subst.
        assert (Ht : s_time st = 0).
        { apply negb_false_iff in Et. apply Z.eqb_eq in Et. exact Et. }
        pose proof (hrel_setup_state cfg _ _ HR Es Ht) as HR1.
        split; [split; cbn [m_st m_setup]; [reflexivity|exact HR1]|].
        rewrite (h_view_eq _ _ [] HR1). reflexivity.
      * apply refines_nil_l in Hr. discriminate Hr.
      * apply refines_nil_r in Hr. discriminate Hr.
      * inversion Hh; subst. inversion Hs; subst.
        split; [split; cbn [m_st m_setup]; [reflexivity|exact HR]|reflexivity].
Qed.

(* ---------- a fresh simulator ---------- *)
Lemma xhrel_xinit : forall cfg b, xhrel (h_xinit cfg b) (xinit cfg b).
Proof.
  intros cfg b. unfold xhrel, h_xinit, xinit. cbn [m_st m_setup]. split; [reflexivity|].
  destruct b; [apply hrel_init|apply hrel_fresh_fresh].
Qed.

(* ---------- a history of life-cycle operations ---------- *)
Theorem heap_lifecycle_refines : forall cfg fuel ops hm m, xhrel hm m ->
  map fst (h_xrun_ops cfg fuel hm ops) = xrun_ops cfg fuel m ops.
Proof.
  intros cfg fuel ops. induction ops as [|x r IH]; intros hm m HR; cbn [h_xrun_ops xrun_ops map].
  - reflexivity.
  - destruct (h_xstep cfg fuel hm x) as [hm1 obh] eqn:E1.
    destruct (xstep cfg fuel m x) as [[m1 ob] l] eqn:E2.
    destruct (xhrel_xstep _ _ _ _ _ _ _ _ _ _ HR E1 E2) as [HR1 ->].
    cbn [map fst]. f_equal. apply IH. exact HR1.
Qed.

Theorem heap_lifecycle_refines_case : forall c, map fst (h_run_xcase c) = run_xcase c.
Proof.
  intros c. unfold run_xcase, h_run_xcase. apply heap_lifecycle_refines. apply xhrel_xinit.
Qed.

Print Assumptions heap_lifecycle_refines_case.
