(* C15: the step invariant of ABMSimulator.  Under c_abm cfg = true exactly one live model.step event
   is pending, for tick steps+1, in every state of every history whose run horizons are not before
   the clock; model.steps equals the clock after a run to an integer horizon; model.step runs exactly
   once per tick. *)
From Coq Require Import ZArith List Bool Lia Sorted.
From Mesa Require Import Generated.Tables Model.Devs Model.DevsSpec Proofs.DevsProofs.
Import ListNotations. Open Scope Z_scope.

(* ---------- 0. what user code keeps ---------- *)
Definition keep (st st' : state) : Prop :=
  filter e_step (s_events st') = filter e_step (s_events st) /\
  s_steps st' = s_steps st /\ s_time st' = s_time st.

Lemma keep_refl : forall st, keep st st.
Proof. intros st. unfold keep. auto. Qed.

Lemma keep_trans : forall a b c, keep a b -> keep b c -> keep a c.
Proof. intros a b c (H1 & H2 & H3) (G1 & G2 & G3). unfold keep. repeat split; congruence. Qed.

Lemma step_inv_keep : forall st st', keep st st' -> step_inv st -> step_inv st'.
Proof. intros st st' (H1 & H2 & H3) Hs. unfold step_inv in *. rewrite H1, H2, H3. exact Hs. Qed.

Lemma steps_of_app : forall l1 l2, steps_of (l1 ++ l2) = steps_of l1 ++ steps_of l2.
Proof. intros. unfold steps_of. apply flat_map_app. Qed.

Lemma filter_none : forall (f : event -> bool) l, (forall x, In x l -> f x = false) -> filter f l = [].
Proof.
  intros f l. induction l as [|h t IH]; intros H; [reflexivity|]. cbn [filter].
  rewrite (H h (or_introl eq_refl)). apply IH. intros x Hx. apply H. right. exact Hx.
Qed.

(* ---------- 1. init ---------- *)
Lemma schedule_relative_scale : forall cfg st p tag h stp body,
  schedule_relative cfg st SCALE p tag h stp body = schedule cfg st (s_time st + SCALE) p tag h stp body.
Proof. reflexivity. Qed.

Lemma schedule_ok : forall cfg st t p tag h stp body, unit_ok (c_abm cfg) t = true ->
  schedule cfg st t p tag h stp body =
  (set_events (set_uid st (s_uid st + 1)) (ev_insert (mk_event t p (s_uid st) tag h stp body) (s_events st)), R_OK).
Proof. intros. unfold schedule. rewrite H. reflexivity. Qed.

Lemma step_inv_init : forall cfg, c_abm cfg = true -> step_inv (init cfg).
Proof.
  intros cfg H. unfold init. rewrite H. rewrite schedule_relative_scale.
  rewrite schedule_ok by (rewrite H; reflexivity).
  unfold step_inv. cbn. split; [|lia].
  eexists. split; [reflexivity|]. cbn. repeat split.
Qed.

(* ---------- 2. user code never creates, cancels or removes a step event ---------- *)
Lemma filter_step_insert : forall e l, e_step e = false -> filter e_step (ev_insert e l) = filter e_step l.
Proof.
  intros e l H. induction l as [|h t IH]; cbn [ev_insert].
  - cbn [filter]. rewrite H. reflexivity.
  - destruct (ev_ltb e h).
    + change (filter e_step (e :: h :: t)) with (if e_step e then e :: filter e_step (h :: t) else filter e_step (h :: t)).
      rewrite H. reflexivity.
    + cbn [filter]. rewrite IH. reflexivity.
Qed.

Lemma filter_step_insert_step : forall e l, e_step e = true -> filter e_step l = [] -> filter e_step (ev_insert e l) = [e].
Proof.
  intros e l H. induction l as [|h t IH]; intros Hf; cbn [ev_insert].
  - cbn [filter]. rewrite H. reflexivity.
  - destruct (ev_ltb e h).
    + change (filter e_step (e :: h :: t)) with (if e_step e then e :: filter e_step (h :: t) else filter e_step (h :: t)).
      rewrite H, Hf. reflexivity.
    + cbn [filter] in *. destruct (e_step h); [discriminate|]. apply IH, Hf.
Qed.

Lemma cancel_ev_step : forall tag e, e_step (cancel_ev tag e) = e_step e.
Proof. intros tag e. unfold cancel_ev. destruct ((e_tag e =? tag) && negb (e_step e)); reflexivity. Qed.

Lemma cancel_ev_id : forall tag e, e_step e = true -> cancel_ev tag e = e.
Proof. intros tag e H. unfold cancel_ev. rewrite H. cbn [negb]. rewrite andb_false_r. reflexivity. Qed.

Lemma filter_step_cancel : forall tag l, filter e_step (map (cancel_ev tag) l) = filter e_step l.
Proof.
  intros tag l. induction l as [|a t IH]; [reflexivity|]. cbn [map filter].
  rewrite cancel_ev_step. destruct (e_step a) eqn:E; [|exact IH].
  rewrite (cancel_ev_id _ _ E), IH. reflexivity.
Qed.

Lemma schedule_keep : forall cfg st t p tag h body st' rc,
  schedule cfg st t p tag h false body = (st', rc) -> keep st st'.
Proof.
  intros cfg st t p tag h body st' rc H.
  destruct (schedule_cases _ _ _ _ _ _ _ _ _ _ H) as [[_ [_ ->]]|[_ ->]]; unfold keep;
    cbn [s_events s_steps s_time set_events set_uid]; repeat split.
  apply filter_step_insert. reflexivity.
Qed.

Lemma schedule_relative_keep : forall cfg st d p tag h body st' rc,
  schedule_relative cfg st d p tag h false body = (st', rc) -> keep st st'.
Proof.
  intros cfg st d p tag h body st' rc H.
  destruct (schedule_relative_cases _ _ _ _ _ _ _ _ _ _ H) as [[_ ->]|[_ H1]];
    [apply keep_refl|eapply schedule_keep; exact H1].
Qed.

Lemma do_sched_keep : forall cfg st k t p tag h body st' rc,
  do_sched cfg st k t p tag h body = (st', rc) -> keep st st'.
Proof.
  intros cfg st k t p tag h body st' rc H. unfold do_sched in H.
  destruct (memz h (s_dead st)); [inversion H; subst; apply keep_refl|].
  destruct k.
  - eapply schedule_relative_keep; exact H.
  - eapply schedule_relative_keep; exact H.
  - destruct (s_time st >? t); [inversion H; subst; apply keep_refl|eapply schedule_keep; exact H].
  - destruct (c_abm cfg); [eapply schedule_relative_keep; exact H|inversion H; subst; apply keep_refl].
Qed.

Lemma step_inv_do_sched : forall cfg st k t p tag h body st' rc, step_inv st -> do_sched cfg st k t p tag h body = (st', rc) -> step_inv st'.
Proof. intros. eapply step_inv_keep; [eapply do_sched_keep; eassumption|assumption]. Qed.

Lemma do_act_keep : forall cfg a st st' l, do_act cfg st a = (st', l) -> keep st st' /\ steps_of l = [].
Proof.
  intros cfg a st st' l H. destruct a as [k t p tag h body|tag|h|]; cbn [do_act] in H.
  - destruct (do_sched cfg st k t p tag h body) as [s rc] eqn:E. inversion H; subst.
    split; [eapply do_sched_keep; exact E|reflexivity].
  - inversion H; subst. split; [|reflexivity]. unfold keep, do_cancel.
    cbn [s_events s_steps s_time set_events]. repeat split. apply filter_step_cancel.
  - inversion H; subst. split; [|reflexivity]. unfold keep, do_drop. cbn. auto.
  - inversion H; subst. split; [apply keep_refl|reflexivity].
Qed.

Lemma do_acts_keep : forall cfg acts st st' l, do_acts cfg st acts = (st', l) -> keep st st' /\ steps_of l = [].
Proof.
  intros cfg acts. induction acts as [|a r IH]; intros st st' l H; cbn [do_acts] in H.
  - inversion H; subst. split; [apply keep_refl|reflexivity].
  - destruct (do_act cfg st a) as [s1 l1] eqn:E1.
    destruct (do_act_keep _ _ _ _ _ E1) as [K1 L1].
    destruct (has_raise l1) eqn:Hr; [inversion H; subst; split; assumption|].
    destruct (do_acts cfg s1 r) as [s2 l2] eqn:E2. inversion H; subst.
    destruct (IH _ _ _ E2) as [K2 L2].
    split; [eapply keep_trans; eassumption|]. rewrite steps_of_app, L1, L2. reflexivity.
Qed.

Lemma step_inv_do_acts : forall cfg acts st st' l, step_inv st -> do_acts cfg st acts = (st', l) -> step_inv st'.
Proof.
  intros cfg acts st st' l Hs H. eapply step_inv_keep; [|exact Hs].
  apply (do_acts_keep _ _ _ _ _ H).
Qed.

(* ---------- 3. popping ---------- *)
Lemma step_ev_pending : forall st s, filter e_step (s_events st) = [s] -> In s (s_events st) /\ e_step s = true.
Proof. intros st s H. apply filter_In. rewrite H. left. reflexivity. Qed.

Lemma pop_vs_step : forall st e rest, inv st -> step_inv st -> pop_event (s_events st) = Some (e, rest) ->
  (e_step e = true /\ e_time e = (s_steps st + 1) * SCALE /\ filter e_step rest = []) \/
  (e_step e = false /\ e_time e <= (s_steps st + 1) * SCALE /\
   (e_time e = (s_steps st + 1) * SCALE -> e_prio e <= gen_prio_value gen_step_prio) /\
   filter e_step rest = filter e_step (s_events st)).
Proof.
  intros st e rest Hi [[s (Hf & Hc & Ht & Hp)] _] Hpop.
  destruct (pop_event_some _ _ _ Hpop) as [_ [pre [Heq Hpre]]].
  destruct (inv_pop _ _ _ Hi Hpop) as (_ & _ & _ & _ & Hm & _).
  assert (Hnone : filter e_step pre = []).
  { apply filter_none. intros x Hx. destruct (e_step x) eqn:Ex; [|reflexivity]. exfalso.
    assert (Hin : In x (filter e_step (s_events st))).
    { apply filter_In. split; [|exact Ex]. rewrite Heq. apply in_or_app. left. exact Hx. }
    rewrite Hf in Hin. destruct Hin as [<-|[]].
    rewrite Forall_forall in Hpre. rewrite (Hpre _ Hx) in Hc. discriminate. }
  rewrite Heq in Hf. rewrite filter_app, Hnone in Hf. cbn [app filter] in Hf.
  destruct (e_step e) eqn:Ee.
  - left. inversion Hf; subst. auto.
  - right. rewrite Heq, filter_app, Hnone. cbn [app filter]. rewrite Ee.
    assert (Hin : In s rest).
    { assert (H : In s (filter e_step rest)) by (rewrite Hf; left; reflexivity).
      apply filter_In in H. apply H. }
    rewrite Forall_forall in Hm. pose proof (Hm _ Hin) as Hlt. unfold ev_lt in Hlt.
    rewrite ev_ltb_spec in Hlt. repeat split; lia.
Qed.

Lemma pop_never_none : forall st, step_inv st -> pop_event (s_events st) <> None.
Proof.
  intros st [[s (Hf & Hc & _)] _] Hn.
  pose proof (pop_event_none _ Hn) as Hall. rewrite Forall_forall in Hall.
  destruct (step_ev_pending _ _ Hf) as [Hin _]. rewrite (Hall _ Hin) in Hc. discriminate.
Qed.

(* ---------- 4. executing the popped event ---------- *)
Lemma execute_step : forall cfg st e, e_cancelled e = false -> e_step e = true ->
  execute cfg st e =
  let '(st2, l) := do_acts cfg (set_steps st (s_steps st + 1)) (script_for (s_steps st + 1) (c_script cfg)) in
  (st2, LStep (s_steps st + 1) (s_time st) :: l).
Proof. intros cfg st e H1 H2. unfold execute. rewrite H1, H2. reflexivity. Qed.

Lemma execute_nonstep : forall cfg st e, e_cancelled e = false -> e_step e = false ->
  execute cfg st e =
  if memz (e_holder e) (s_dead st) then (st, [])
  else let '(st2, l) := do_acts cfg st (e_body e) in (st2, LExec e (s_time st) :: l).
Proof. intros cfg st e H1 H2. unfold execute. rewrite H1, H2. reflexivity. Qed.

Lemma exec_event_step_cases : forall cfg st e rest st' l, c_abm cfg = true -> inv st -> step_inv st ->
  pop_event (s_events st) = Some (e, rest) -> exec_event cfg (set_events st rest) e = (st', l) ->
  step_inv st' /\
  ((e_step e = true /\ s_steps st' = s_steps st + 1 /\
    steps_of l = [(s_steps st + 1, (s_steps st + 1) * SCALE)]) \/
   (e_step e = false /\ s_steps st' = s_steps st /\ steps_of l = [])).
Proof.
  intros cfg st e rest st' l Habm Hi Hs Hp H.
  destruct (pop_event_some _ _ _ Hp) as [Hc _].
  destruct (inv_pop _ _ _ Hi Hp) as [_ [Hte _]].
  pose proof Hs as [[s0 (Hf0 & Hc0 & Ht0 & Hp0)] Hclk].
  destruct (pop_vs_step _ _ _ Hi Hs Hp) as [(Hst & Htm & Hfr)|(Hst & Htm & _ & Hfr)].
  - unfold exec_event in H. rewrite Habm, Hst in H. cbn [andb] in H.
    rewrite schedule_relative_scale in H.
    rewrite schedule_ok in H.
    2:{ rewrite Habm. unfold unit_ok. cbn [s_time set_time]. rewrite Htm.
        replace ((s_steps st + 1) * SCALE + SCALE) with ((s_steps st + 2) * SCALE) by (unfold SCALE; lia).
        rewrite Z.mod_mul by (unfold SCALE; lia). reflexivity. }
    cbn [fst] in H. rewrite (execute_step _ _ _ Hc Hst) in H.
    match type of H with (let '(_, _) := do_acts ?c ?x ?a in _) = _ => destruct (do_acts c x a) as [s2 l2] eqn:E end.
    inversion H; subst st' l; clear H.
    destruct (do_acts_keep _ _ _ _ _ E) as [K L].
    split.
    + eapply step_inv_keep; [exact K|].
      unfold step_inv. destruct st as [tm evs uid steps dead].
      cbn [s_time s_events s_uid s_steps s_dead set_time set_events set_uid set_steps set_dead] in *.
      split.
      * eexists. split; [apply filter_step_insert_step; [reflexivity|exact Hfr]|].
        unfold mk_event; cbn [e_cancelled e_time e_prio]. repeat split.
        rewrite Htm. unfold SCALE. lia.
      * rewrite Htm. unfold SCALE. lia.
    + left. split; [exact Hst|]. destruct K as (_ & K2 & _). rewrite K2.
      destruct st as [tm evs uid steps dead].
      cbn [s_time s_events s_uid s_steps s_dead set_time set_events set_uid set_steps set_dead] in *.
      split; [reflexivity|]. cbn [steps_of flat_map step_of app]. fold (steps_of l2). rewrite L, Htm. reflexivity.
  - unfold exec_event in H. rewrite Hst, andb_false_r in H.
    rewrite (execute_nonstep _ _ _ Hc Hst) in H.
    assert (Hs0 : step_inv (set_time (set_events st rest) (e_time e))).
    { unfold step_inv. destruct st as [tm evs uid steps dead].
      cbn [s_time s_events s_uid s_steps s_dead set_time set_events set_uid set_steps set_dead] in *.
      split; [|lia]. exists s0. rewrite Hfr. auto. }
    destruct (memz (e_holder e) (s_dead (set_time (set_events st rest) (e_time e)))).
    + inversion H; subst st' l. split; [exact Hs0|]. right. repeat split; auto.
    + match type of H with (let '(_, _) := do_acts ?c ?x ?a in _) = _ => destruct (do_acts c x a) as [s2 l2] eqn:E end.
      inversion H; subst st' l; clear H.
      destruct (do_acts_keep _ _ _ _ _ E) as [K L].
      split; [eapply step_inv_keep; eassumption|]. right.
      destruct K as (_ & K2 & _). rewrite K2. repeat split; auto.
Qed.

Lemma step_inv_exec_event : forall cfg st e rest st' l, c_abm cfg = true -> inv st -> step_inv st ->
  pop_event (s_events st) = Some (e, rest) -> exec_event cfg (set_events st rest) e = (st', l) -> step_inv st'.
Proof. intros. eapply exec_event_step_cases; eassumption. Qed.

(* ---------- 5. runs and histories ---------- *)
Lemma step_inv_stop : forall st e rest endt, inv st -> step_inv st -> s_time st <= endt ->
  pop_event (s_events st) = Some (e, rest) -> endt < e_time e ->
  step_inv (set_events (set_time (set_events st rest) endt) (ev_insert e rest)) /\
  s_steps (set_events (set_time (set_events st rest) endt) (ev_insert e rest)) = s_steps st.
Proof.
  intros st e rest endt Hi Hs Hle Hp Hlt. split; [|reflexivity].
  pose proof Hs as [[s0 (Hf0 & Hc0 & Ht0 & Hp0)] Hclk].
  destruct (pop_event_some _ _ _ Hp) as [Hc _].
  unfold step_inv. cbn [s_time s_events s_steps set_time set_events].
  destruct (pop_vs_step _ _ _ Hi Hs Hp) as [(Hst & Htm & Hfr)|(Hst & Htm & _ & Hfr)].
  - split; [|lia]. exists e. split; [apply filter_step_insert_step; assumption|].
    assert (Hin : In e (filter e_step (s_events st))).
    { apply filter_In. split; [exact (proj1 (pop_event_In _ _ _ Hp))|exact Hst]. }
    rewrite Hf0 in Hin. destruct Hin as [<-|[]]. auto.
  - split; [|lia]. exists s0. rewrite (filter_step_insert _ _ Hst), Hfr. auto.
Qed.

Lemma step_inv_run_loop : forall cfg fuel endt st st' l ok, c_abm cfg = true -> inv st -> step_inv st -> s_time st <= endt ->
  run_loop cfg fuel endt st = (st', l, ok) -> step_inv st'.
Proof.
  intros cfg fuel endt. induction fuel as [|n IH]; intros st st' l ok Habm Hi Hs Hle H; cbn [run_loop] in H.
  - inversion H; subst. exact Hs.
  - destruct (pop_event (s_events st)) as [[e rest]|] eqn:Ep.
    + destruct (Z.leb_spec (e_time e) endt).
      * destruct (exec_event cfg (set_events st rest) e) as [s1 l1] eqn:E1.
        destruct (has_raise l1) eqn:Hr.
        { inversion H; subst. eapply step_inv_exec_event; eassumption. }
        destruct (run_loop cfg n endt s1) as [[s2 l2] ok2] eqn:E2. inversion H; subst.
        eapply IH; [exact Habm| | | |exact E2].
        -- eapply inv_exec_event; eassumption.
        -- eapply step_inv_exec_event; eassumption.
        -- rewrite (exec_event_time _ _ _ _ _ E1). assumption.
      * inversion H; subst. apply step_inv_stop; assumption.
    + exfalso. exact (pop_never_none _ Hs Ep).
Qed.

Lemma step_inv_run_next : forall cfg st st' l, c_abm cfg = true -> inv st -> step_inv st -> run_next cfg st = (st', l) -> step_inv st'.
Proof.
  intros cfg st st' l Habm Hi Hs H. unfold run_next in H.
  destruct (pop_event (s_events st)) as [[e rest]|] eqn:Ep.
  - eapply step_inv_exec_event; eassumption.
  - exfalso. exact (pop_never_none _ Hs Ep).
Qed.

Lemma step_inv_step_op : forall cfg fuel st o st' ob l, c_abm cfg = true -> inv st -> step_inv st -> op_ok st o ->
  step_op cfg fuel st o = (st', ob, l) -> step_inv st'.
Proof.
  intros cfg fuel st o st' ob l Habm Hi Hs Hok H. destruct o; cbn [step_op op_ok] in *.
  - destruct (do_sched cfg st k t p tag holder body) as [s rc] eqn:E. inversion H; subst.
    eapply step_inv_do_sched; eassumption.
  - inversion H; subst. eapply step_inv_keep; [|exact Hs]. unfold keep, do_cancel.
    cbn [s_events s_steps s_time set_events]. repeat split. apply filter_step_cancel.
  - inversion H; subst. exact Hs.
  - destruct (run_loop cfg fuel t st) as [[s1 l1] ok] eqn:E. inversion H; subst.
    eapply step_inv_run_loop; eassumption.
  - destruct (run_loop cfg fuel (s_time st + d) st) as [[s1 l1] ok] eqn:E. inversion H; subst.
    eapply step_inv_run_loop; [exact Habm|exact Hi|exact Hs| |exact E]. lia.
  - destruct (run_next cfg st) as [s1 l1] eqn:E. inversion H; subst.
    eapply step_inv_run_next; eassumption.
  - destruct (s_events st); inversion H; subst; exact Hs.
Qed.

Lemma step_inv_history : forall cfg fuel ops st, c_abm cfg = true -> inv st -> step_inv st -> ops_ok cfg fuel st ops ->
  step_inv (final cfg fuel st ops) /\ inv (final cfg fuel st ops).
Proof.
  intros cfg fuel ops. induction ops as [|o r IH]; intros st Habm Hi Hs Hok.
  - unfold final. cbn. auto.
  - cbn [ops_ok] in Hok. destruct Hok as [Ho Hr].
    unfold final in *. cbn [run_state].
    destruct (step_op cfg fuel st o) as [[s1 ob] l1] eqn:E. cbn [fst] in Hr.
    specialize (IH s1 Habm (inv_step_op _ _ _ _ _ _ _ Hi E)
                  (step_inv_step_op _ _ _ _ _ _ _ Habm Hi Hs Ho E) Hr).
    destruct (run_state cfg fuel s1 r) as [s2 l2]. cbn [fst] in *. exact IH.
Qed.

(* ---------- 6. the statements of C15 ---------- *)
Theorem steps_eq_clock : forall cfg fuel t st st' l, c_abm cfg = true -> inv st -> step_inv st -> s_time st <= t ->
  t mod SCALE = 0 -> run_loop cfg fuel t st = (st', l, true) -> s_steps st' * SCALE = t /\ s_time st' = t.
Proof.
  intros cfg fuel t st st' l Habm Hi Hs Hle Hmod H.
  pose proof (step_inv_run_loop _ _ _ _ _ _ _ Habm Hi Hs Hle H) as [[s (Hf & Hc & Ht & _)] Hclk].
  pose proof (run_loop_time _ _ _ _ _ _ H) as Htime.
  pose proof (run_loop_done _ _ _ _ _ _ Hi H) as Hd. rewrite Forall_forall in Hd.
  destruct (step_ev_pending _ _ Hf) as [Hin _].
  pose proof (Hd _ Hin Hc) as Hlt.
  split; [|exact Htime].
  pose proof (Z.div_mod t SCALE) as Hdm. rewrite Hmod in Hdm.
  unfold SCALE in *. lia.
Qed.

Theorem steps_near_clock : forall cfg st st' l, c_abm cfg = true -> inv st -> step_inv st -> run_next cfg st = (st', l) ->
  s_time st' - SCALE <= s_steps st' * SCALE <= s_time st'.
Proof.
  intros cfg st st' l Habm Hi Hs H.
  pose proof (step_inv_run_next _ _ _ _ Habm Hi Hs H) as [_ Hclk]. unfold SCALE in *. lia.
Qed.

Theorem step_before_lower_priority : forall st e rest, inv st -> step_inv st -> pop_event (s_events st) = Some (e, rest) ->
  e_step e = false -> e_time e = (s_steps st + 1) * SCALE -> e_prio e <= gen_prio_value gen_step_prio.
Proof.
  intros st e rest Hi Hs Hp Hst Htm.
  destruct (pop_vs_step _ _ _ Hi Hs Hp) as [(Hst' & _)|(_ & _ & Hpr & _)]; [congruence|].
  apply Hpr, Htm.
Qed.

Lemma step_prio_is_highest : forall p, gen_prio_value gen_step_prio <= gen_prio_value p.
Proof. intros p. destruct p; vm_compute; discriminate. Qed.

(* exactly once per tick, in the log *)
Theorem steps_once_per_tick : forall cfg fuel endt st st' l ok, c_abm cfg = true -> inv st -> step_inv st -> s_time st <= endt ->
  run_loop cfg fuel endt st = (st', l, ok) ->
  steps_of l = tick_list (s_steps st) (Z.to_nat (s_steps st' - s_steps st)) /\ s_steps st <= s_steps st'.
Proof.
  intros cfg fuel endt. induction fuel as [|n IH]; intros st st' l ok Habm Hi Hs Hle H; cbn [run_loop] in H.
  - inversion H; subst. rewrite Z.sub_diag. split; [reflexivity|lia].
  - destruct (pop_event (s_events st)) as [[e rest]|] eqn:Ep.
    + destruct (Z.leb_spec (e_time e) endt).
      * destruct (exec_event cfg (set_events st rest) e) as [s1 l1] eqn:E1.
        destruct (exec_event_step_cases _ _ _ _ _ _ Habm Hi Hs Ep E1) as [Hs1 Hcase].
        destruct (has_raise l1) eqn:Hr.
        { inversion H; subst st' l ok; clear H.
          destruct Hcase as [(_ & Hk & Hl)|(_ & Hk & Hl)]; rewrite Hl, Hk.
          - replace (s_steps st + 1 - s_steps st) with 1 by lia. split; [reflexivity|lia].
          - rewrite Z.sub_diag. split; [reflexivity|lia]. }
        destruct (run_loop cfg n endt s1) as [[s2 l2] ok2] eqn:E2. inversion H; subst st' l ok; clear H.
        assert (Hi1 : inv s1) by (eapply inv_exec_event; eassumption).
        assert (Hle1 : s_time s1 <= endt) by (rewrite (exec_event_time _ _ _ _ _ E1); assumption).
        destruct (IH _ _ _ _ Habm Hi1 Hs1 Hle1 E2) as [IH1 IH2].
        rewrite steps_of_app, IH1.
        destruct Hcase as [(_ & Hk & Hl)|(_ & Hk & Hl)]; rewrite Hl, Hk in *.
        -- split; [|lia].
           replace (s_steps s2 - s_steps st) with (Z.succ (s_steps s2 - (s_steps st + 1))) by lia.
           rewrite Z2Nat.inj_succ by lia. reflexivity.
        -- split; [reflexivity|lia].
      * inversion H; subst. cbn [s_steps set_events set_time]. rewrite Z.sub_diag. split; [reflexivity|lia].
    + exfalso. exact (pop_never_none _ Hs Ep).
Qed.
