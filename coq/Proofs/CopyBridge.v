(* Bridge between the code-level T1 translation of the copy / pickle hooks (Generated.Tables: gen_c19_* -
   regenerated from mesa/discrete_space/{cell,grid,discrete_space}.py and mesa/agent.py by
   harness/tables/c19_copy_code.py on every run) and Model/Copy.v: copy_space / copy_set ARE the translated
   pieces.  Proofs are written so that harmless rewrites of a condition or a loop body keep checking while a
   semantic change (another slot dropped, a descriptor not installed, the class loop gone, members re-ordered)
   breaks them. *)
From Coq Require Import ZArith List Bool Lia ZifyBool PeanoNat.
From Mesa Require Import Common.ListX Generated.Tables Model.Copy Proofs.CopyProofs Proofs.CopyInvProofs.
Import ListNotations.
Open Scope Z_scope.

(* ------------------------------------------------------------------ names *)
Definition S_DICT : Z := 0.
Definition S_AGENTS : Z := 1.
Definition S_CAPACITY : Z := 2.
Definition S_CONNECTIONS : Z := 3.
Definition S_COORDINATE : Z := 4.
Definition A_CELL_KLASS : Z := 0.

(* ------------------------------------------------------------------ what happens to each slot of a cell *)
Inductive action := Carried | Emptied | Dropped.

(* the instance __dict__ travels either as the first component of the state or as the slot "__dict__" *)
Definition gen_plain_dict_carried : bool :=
  gen_c19_cell_state_has_dict || (memz S_DICT gen_c19_cell_state_slots && negb (memz S_DICT gen_c19_cell_emptied)).
Definition gen_grid_dict_carried : bool :=
  gen_c19_gridcell_state_has_dict
  || (memz S_DICT gen_c19_cell_state_slots && gen_c19_gridcell_keeps S_DICT && negb (memz S_DICT gen_c19_cell_emptied)).

(* Cell.__getstate__ (default reduce: Network / Voronoi cells) *)
Definition gen_plain_action (k : Z) : action :=
  if k =? S_DICT then (if gen_plain_dict_carried then Carried else Dropped)
  else if negb (memz k gen_c19_cell_state_slots) then Dropped
  else if memz k gen_c19_cell_emptied then Emptied else Carried.

(* pickle_gridcell on top of it *)
Definition gen_grid_action (k : Z) : action :=
  if k =? S_DICT then (if gen_grid_dict_carried then Carried else Dropped)
  else if negb (memz k gen_c19_cell_state_slots) || negb (gen_c19_gridcell_keeps k) then Dropped
  else if memz k gen_c19_cell_emptied then Emptied else Carried.

Definition carried (a : action) : bool := match a with Carried => true | _ => false end.

(* of the keys of the instance __dict__ the model tracks `empty` (written by add_agent / remove_agent when there is no such
   layer): it must be carried; the cached `neighborhood` may be left out *)
Definition K_EMPTY : Z := 0.
Lemma cell_dict_keeps_empty : gen_c19_cell_dict_keeps K_EMPTY = true.
Proof. vm_compute. reflexivity. Qed.

(* what Model/Copy.v:copy_cell does *)
Definition model_action (grid : bool) (k : Z) : action :=
  if k =? S_CONNECTIONS then Emptied else if grid && (k =? S_DICT) then Dropped else Carried.

Lemma slot_actions_bridge (grid : bool) (k : Z) : In k gen_c19_cell_slots ->
  (if grid then gen_grid_action k else gen_plain_action k) = model_action grid k.
Proof.
  intros H. unfold gen_c19_cell_slots in H. simpl in H.
  repeat (destruct H as [<-|H]; [destruct grid; vm_compute; reflexivity|]). destruct H.
Qed.

Lemma modelled_slots_present :
  forallb (fun k => memz k gen_c19_cell_slots) [S_DICT; S_AGENTS; S_CAPACITY; S_CONNECTIONS; S_COORDINATE] = true.
Proof. vm_compute. reflexivity. Qed.

Lemma dict_carried_bridge : gen_grid_dict_carried = false /\ gen_plain_dict_carried = true.
Proof. split; vm_compute; reflexivity. Qed.

(* pickle_gridcell drops exactly "__dict__", whatever the slot; the legacy branch of unpickle_gridcell agrees *)
Lemma gridcell_keeps_bridge k : gen_c19_gridcell_keeps k = negb (k =? S_DICT).
Proof.
  unfold gen_c19_gridcell_keeps, S_DICT.
  match goal with |- ?l = ?r => destruct l eqn:E1; destruct r eqn:E2 end; try reflexivity; exfalso; lia.
Qed.

Lemma gridcell_legacy_bridge k : gen_c19_gridcell_legacy_keeps k = gen_c19_gridcell_keeps k.
Proof.
  unfold gen_c19_gridcell_legacy_keeps, gen_c19_gridcell_keeps.
  match goal with |- ?l = ?r => destruct l eqn:E1; destruct r eqn:E2 end; try reflexivity; exfalso; lia.
Qed.

(* Grid.__getstate__ drops exactly the attribute cell_klass *)
Lemma grid_state_keeps_bridge k : gen_c19_grid_state_keeps k = negb (k =? A_CELL_KLASS).
Proof.
  unfold gen_c19_grid_state_keeps, A_CELL_KLASS.
  match goal with |- ?l = ?r => destruct l eqn:E1; destruct r eqn:E2 end; try reflexivity; exfalso; lia.
Qed.

(* ------------------------------------------------------------------ the loops of Grid.__setstate__ *)
Fixpoint lookup (c : nat) (l : list (nat * nat)) : option nat :=
  match l with
  | [] => None
  | (c', k) :: t => if Nat.eqb c c' then Some k else lookup c t
  end.

Lemma lookup_app c l1 l2 : lookup c (l1 ++ l2) = match lookup c l1 with Some k => Some k | None => lookup c l2 end.
Proof. induction l1 as [|[c' k] t IH]; simpl; [reflexivity|]. destruct (Nat.eqb c c'); [reflexivity|exact IH]. Qed.

(* `for cell in self._cells.values(): cell.__class__ = self.cell_klass` gives EVERY cell the one class *)
Lemma setstate_classes_bridge klass cells c : In c cells ->
  lookup c (gen_c19_setstate_classes klass cells) = Some klass.
Proof.
  unfold gen_c19_setstate_classes. cbv zeta. induction cells as [|x t IH]; intros H; [destruct H|].
  cbn [flat_map]. rewrite lookup_app.
  destruct (Nat.eq_dec c x) as [->|Hne].
  - cbn [lookup]. rewrite Nat.eqb_refl. reflexivity.
  - destruct H as [H|H]; [congruence|]. cbn [lookup]. apply Nat.eqb_neq in Hne. rewrite Hne. apply IH. exact H.
Qed.

(* `for layer in ...values(): setattr(self.cell_klass, layer.name, PropertyDescriptor(layer))` installs one
   descriptor per layer, under the layer's own name, pointing to that layer *)
Lemma setstate_descr_bridge lname layers :
  gen_c19_setstate_descr lname layers = map (fun l => (lname l, l)) layers.
Proof.
  unfold gen_c19_setstate_descr. cbv zeta. induction layers as [|x t IH]; [reflexivity|].
  cbn [flat_map map]. rewrite IH. reflexivity.
Qed.

Lemma setstate_props_bridge lname layers :
  gen_c19_setstate_props lname layers = map fst (gen_c19_setstate_descr lname layers).
Proof.
  rewrite setstate_descr_bridge, map_map. unfold gen_c19_setstate_props. cbv zeta.
  induction layers as [|x t IH]; [reflexivity|]. cbn [flat_map map fst]. rewrite IH. reflexivity.
Qed.

(* ------------------------------------------------------------------ copy_space written with the translated pieces *)
Definition gen_copy_cell (h : heap) (sp : space) (nC nA nK : nat) (agents : list nat) (klass : nat)
           (cell_locs : list nat) (ic : nat * nat) : cellobj :=
  let co := getc h (snd ic) in
  let loc := (nC + fst ic)%nat in
  {| (* unpickle_gridcell gives cell i a class of its own (nK + 1 + i); the class loop of __setstate__ re-assigns it *)
     k_cls := if s_grid sp
              then match lookup loc (gen_c19_setstate_classes klass cell_locs) with
                   | Some k => k
                   | None => (nK + 1 + fst ic)%nat
                   end
              else klass;
     k_idx := k_idx co; k_cap := k_cap co;
     k_agents := map (tr_agent nA agents) (k_agents co);
     k_conns := map (fun kj => (fst kj, (nC + snd kj)%nat)) (nth (fst ic) (s_geom sp) []);
     k_dict := if (if s_grid sp then gen_grid_dict_carried else gen_plain_dict_carried) then k_dict co else [] |}.

Definition gen_copy_space (h : heap) (sd : side) : heap * side :=
  let sp := sd_space sd in
  let nC := length (h_cells h) in
  let nA := length (h_agents h) in
  let nL := length (h_layers h) in
  let nK := length (h_classes h) in
  let cells := s_cells sp in
  let agents := agents_of h cells in
  let new_layers := map (fun nl => getl h (snd nl)) (s_layers sp) in
  let layer_locs := seq nL (length (s_layers sp)) in
  let cell_locs := seq nC (length cells) in
  let klass := if s_grid sp then nK else s_klass sp in
  let lname := fun l => l_name (nth (l - nL) new_layers dlayer) in
  let new_class := {| d_descr := gen_c19_setstate_descr lname layer_locs |} in
  let new_cells := map (gen_copy_cell h sp nC nA nK agents klass cell_locs) (combine (seq 0 (length cells)) cells) in
  let new_agents := map (copy_agent h nC cells) agents in
  let h' := {| h_cells := h_cells h ++ new_cells;
               h_agents := h_agents h ++ new_agents;
               h_layers := h_layers h ++ new_layers;
               h_classes := if s_grid sp then h_classes h ++ [new_class] else h_classes h |} in
  let sp' := {| s_grid := s_grid sp; s_cells := cell_locs;
                s_layers := combine (map fst (s_layers sp)) layer_locs;
                s_klass := klass; s_geom := s_geom sp |} in
  (h', {| sd_space := sp'; sd_tab := combine (map a_label new_agents) (seq nA (length agents)) |}).

Lemma lname_seq (new_layers : list layerobj) nL :
  map (fun l => (l_name (nth (l - nL) new_layers dlayer), l)) (seq nL (length new_layers))
  = combine (map l_name new_layers) (seq nL (length new_layers)).
Proof.
  revert nL. induction new_layers as [|x t IH]; intros nL; [reflexivity|].
  cbn [length seq map combine]. rewrite Nat.sub_diag. cbn [nth]. f_equal.
  rewrite <- (IH (S nL)). apply map_ext_in. intros l Hl. apply in_seq in Hl.
  replace (l - nL)%nat with (S (l - S nL)) by lia. reflexivity.
Qed.

Theorem copy_space_bridge h sd : copy_space h sd = gen_copy_space h sd.
Proof.
  unfold copy_space, gen_copy_space. cbv zeta.
  assert (Ed : gen_c19_setstate_descr
                 (fun l => l_name (nth (l - length (h_layers h)) (map (fun nl => getl h (snd nl)) (s_layers (sd_space sd))) dlayer))
                 (seq (length (h_layers h)) (length (s_layers (sd_space sd))))
               = combine (map l_name (map (fun nl => getl h (snd nl)) (s_layers (sd_space sd))))
                         (seq (length (h_layers h)) (length (s_layers (sd_space sd))))).
  { rewrite setstate_descr_bridge.
    rewrite <- (map_length (fun nl => getl h (snd nl)) (s_layers (sd_space sd))). apply lname_seq. }
  rewrite Ed.
  assert (Ec : map (copy_cell h (sd_space sd) (length (h_cells h)) (length (h_agents h))
                      (agents_of h (s_cells (sd_space sd)))
                      (if s_grid (sd_space sd) then length (h_classes h) else s_klass (sd_space sd)))
                   (combine (seq 0 (length (s_cells (sd_space sd)))) (s_cells (sd_space sd)))
               = map (gen_copy_cell h (sd_space sd) (length (h_cells h)) (length (h_agents h)) (length (h_classes h))
                        (agents_of h (s_cells (sd_space sd)))
                        (if s_grid (sd_space sd) then length (h_classes h) else s_klass (sd_space sd))
                        (seq (length (h_cells h)) (length (s_cells (sd_space sd)))))
                     (combine (seq 0 (length (s_cells (sd_space sd)))) (s_cells (sd_space sd)))).
  { apply map_ext_in. intros [i c] Hic. apply in_combine_l in Hic. apply in_seq in Hic.
    unfold copy_cell, gen_copy_cell. cbn [fst snd].
    destruct dict_carried_bridge as [Eg Ep]. rewrite Eg, Ep.
    destruct (s_grid (sd_space sd)); [|reflexivity].
    rewrite setstate_classes_bridge by (apply in_seq; lia). reflexivity. }
  rewrite Ec. reflexivity.
Qed.

(* ------------------------------------------------------------------ AgentSet *)
Lemma dedup_acc_id (seen l : list nat) : NoDup l -> (forall x, In x l -> ~ In x seen) ->
  dedup_acc Nat.eqb seen l = l.
Proof.
  revert seen; induction l as [|x t IH]; intros seen Hnd Hdis; simpl; [reflexivity|].
  inversion Hnd as [|? ? Hnin Hnd']; subst.
  assert (Hm : memb Nat.eqb x seen = false).
  { destruct (memb Nat.eqb x seen) eqn:E; [|reflexivity]. exfalso.
    unfold memb in E. apply existsb_exists in E. destruct E as [y [Hy He]]. apply Nat.eqb_eq in He. subst y.
    exact (Hdis x (or_introl eq_refl) Hy). }
  rewrite Hm. f_equal. apply IH; [exact Hnd'|].
  intros y Hy [Hin|Hin]; [subst; exact (Hnin Hy)|exact (Hdis y (or_intror Hy) Hin)].
Qed.

Lemma aset_update_nodup l : NoDup l -> gen_c19_aset_update l = l.
Proof. intros H. unfold gen_c19_aset_update, dedup_first. apply dedup_acc_id; [exact H|intros x _ []]. Qed.

(* __getstate__: the member list in dict order;  __setstate__ -> _update: a dict filled in that order *)
Definition gen_copy_set (h : heap) (ss : setside) : heap * setside :=
  let nA := length (h_agents h) in
  let st := gen_c19_aset_state_members (ss_members ss) in
  let new_agents := map (fun a => {| a_label := a_label (geta h a); a_cell := None |}) st in
  let locs := gen_c19_aset_update (seq nA (length st)) in
  ({| h_cells := h_cells h; h_agents := h_agents h ++ new_agents; h_layers := h_layers h; h_classes := h_classes h |},
   {| ss_members := locs; ss_tab := combine (map a_label new_agents) locs |}).

Theorem copy_set_bridge h ss : copy_set h ss = gen_copy_set h ss.
Proof.
  unfold copy_set, gen_copy_set. cbv zeta. rewrite aset_update_nodup by apply seq_NoDup.
  unfold gen_c19_aset_state_members. reflexivity.
Qed.

(* ------------------------------------------------------------------ the headline theorems, about the translated code *)
Theorem faithful_of_source h sd : wf_side h sd ->
  abs_side (fst (gen_copy_space h sd)) (snd (gen_copy_space h sd)) = abs_side h sd.
Proof. intros W. rewrite <- copy_space_bridge. apply (copy_faithful h sd W). Qed.

Theorem attrs_wired_of_source h sd c nl : wf_side h sd -> nogrid_ok sd ->
  In c (cells_of (snd (gen_copy_space h sd))) -> In nl (layers_of (snd (gen_copy_space h sd))) ->
  let h' := fst (gen_copy_space h sd) in
  (length (h_layers h) <= snd nl)%nat /\
  cell_get h' c (fst nl) = Some (nth (k_idx (getc h' c)) (l_data (getl h' (snd nl))) NOATTR).
Proof.
  rewrite <- copy_space_bridge. intros W NG Hc Hl.
  destruct (copy_attrs_wired h sd c nl 0 W NG Hc Hl) as [H1 [H2 _]]. split; assumption.
Qed.

Theorem agentset_faithful_of_source h ss :
  set_labels (fst (gen_copy_set h ss)) (snd (gen_copy_set h ss)) = set_labels h ss.
Proof. rewrite <- copy_set_bridge. apply copy_set_faithful. Qed.

Theorem skeletons_ok :
  gen_c19_gridcell_reduce_skeleton_ok && gen_c19_grid_setstate_skeleton_ok
  && gen_c19_dspace_setstate_skeleton_ok && gen_c19_aset_skeleton_ok && gen_c19_cell_add_remove_skeleton_ok = true.
Proof. vm_compute. reflexivity. Qed.
