(* Lemmas about Model/LegacyHexNet.v *)
From Coq Require Import ZArith List Bool Lia Setoid Permutation.
From Mesa Require Import Common.ListX Common.Reach Generated.Tables Model.LegacyNbhd
  Proofs.LegacyNbhdProofs Model.LegacyHexNet.
Import ListNotations.
Open Scope Z_scope.

(* ---------- hex: the parity tables are "hexagons that touch" ---------- *)
(* even-q offset coordinates -> axial/cube coordinates *)
Definition cube_q (p : coord) : Z := fst p.
Definition cube_r (p : coord) : Z := snd p - (fst p + fst p mod 2) / 2.
Definition hexdist (a b : coord) : Z :=
  let dq := cube_q a - cube_q b in let dr := cube_r a - cube_r b in
  Z.max (Z.abs dq) (Z.max (Z.abs dr) (Z.abs (dq + dr))).

Lemma coord_pair_eq (a b c d : Z) : @eq coord (a, b) (c, d) <-> a = c /\ b = d.
Proof. split; [intros H; inversion H; auto|intros [-> ->]; reflexivity]. Qed.

Lemma hex_touching p c : In c (hex_raw p) <-> hexdist p c = 1.
Proof.
  destruct p as [x y], c as [cx cy]. unfold hex_raw, hexdist, cube_q, cube_r. cbn [fst snd].
  destruct (x mod 2 =? 0) eqn:Ex.
  - unfold gen_lhex_even_col. cbn [map In fst snd]. rewrite !coord_pair_eq.
    apply Z.eqb_eq in Ex.
    pose proof (Z.mod_pos_bound cx 2 ltac:(lia)).
    split; intros HH; Z.div_mod_to_equations; lia.
  - unfold gen_lhex_odd_col. cbn [map In fst snd]. rewrite !coord_pair_eq.
    apply Z.eqb_neq in Ex.
    pose proof (Z.mod_pos_bound cx 2 ltac:(lia)). pose proof (Z.mod_pos_bound x 2 ltac:(lia)).
    split; intros HH; Z.div_mod_to_equations; lia.
Qed.

(* touching is symmetric, hence so is the planar adjacency of the tables *)
Lemma hexdist_sym a b : hexdist a b = hexdist b a.
Proof. unfold hexdist. cbv zeta. lia. Qed.

Lemma hex_raw_sym p c : In c (hex_raw p) -> In p (hex_raw c).
Proof. rewrite !hex_touching, hexdist_sym. auto. Qed.

(* ---------- hex: the computed neighbourhood is the r-hop ball ---------- *)
Lemma hex_compute_spec g q c :
  In c (hex_compute g q) <->
  (c <> q_pos q /\ within (hex_adj g) (Z.to_nat (q_r q)) (q_pos q) c) \/ (q_ic q = true /\ c = q_pos q).
Proof.
  unfold hex_compute.
  set (s := dedup_first coord_eqb _).
  assert (forall x, In x s <-> within (hex_adj g) (Z.to_nat (q_r q)) (q_pos q) x) as Hs.
  { intros x. unfold s. rewrite (dedup_first_In coord_eqb coord_eqb_spec).
    apply (ball_spec coord_eqb coord_eqb_spec). }
  destruct (q_ic q).
  - destruct (memb coord_eqb (q_pos q) s) eqn:Em.
    + apply (memb_In coord_eqb coord_eqb_spec) in Em. rewrite Hs. split.
      * intros H. destruct (coord_eqb c (q_pos q)) eqn:E.
        -- apply coord_eqb_spec in E. right. auto.
        -- left. split; [|exact H]. intros ->.
           assert (coord_eqb (q_pos q) (q_pos q) = true) by (apply coord_eqb_spec; reflexivity). congruence.
      * intros [[_ H]|[_ ->]]; [exact H|]. apply Hs. exact Em.
    + simpl. rewrite Hs. split.
      * intros [<-|H]; [right; auto|].
        left. split; [|exact H]. intros ->.
        apply Hs in H. apply (memb_In coord_eqb coord_eqb_spec) in H. congruence.
      * intros [[_ H]|[_ ->]]; [right; exact H|left; reflexivity].
  - rewrite (remove_key_In coord_eqb coord_eqb_spec). rewrite Hs. split.
    + intros [H1 H2]. left. auto.
    + intros [[H1 H2]|[H _]]; [auto|discriminate].
Qed.

Lemma hex_compute_nodup g q : NoDup (hex_compute g q).
Proof.
  unfold hex_compute. set (s := dedup_first coord_eqb _).
  assert (NoDup s) as Hn by apply (dedup_first_NoDup coord_eqb coord_eqb_spec).
  destruct (q_ic q).
  - destruct (memb coord_eqb (q_pos q) s) eqn:Em; [exact Hn|].
    constructor; [|exact Hn]. rewrite <- (memb_In coord_eqb coord_eqb_spec). congruence.
  - apply remove_key_NoDup. exact Hn.
Qed.

(* ---------- hex: cache transparency with the key tuple of the source ---------- *)
Definition hex_key_complete (fields : list nb_field) : bool :=
  forallb (fun f => existsb (field_eqb f) fields) [FPos; FCenter; FRadius].

Lemma hex_key_injective fields p i r p' i' r' :
  hex_key_complete fields = true ->
  key_of fields (hq p i r) = key_of fields (hq p' i' r') -> hq p i r = hq p' i' r'.
Proof.
  unfold hex_key_complete. simpl. rewrite !andb_true_iff.
  intros [H1 [H2 [H3 _]]] Hk.
  pose proof (key_fields_eq fields _ _ Hk) as Hf.
  pose proof (Hf FPos (field_in _ _ H1)) as E1.
  pose proof (Hf FCenter (field_in _ _ H2)) as E2.
  pose proof (Hf FRadius (field_in _ _ H3)) as E3.
  destruct p as [x y], p' as [x' y']. simpl in *.
  inversion E1; inversion E3; subst.
  destruct i, i'; try discriminate; reflexivity.
Qed.

Definition hcache_ok (fields : list nb_field) (g : grid) (c : cache) : Prop :=
  forall k v, cache_get k c = Some v ->
    exists p i r, key_of fields (hq p i r) = k /\ v = hex_compute g (hq p i r).

Fixpoint hanswers (fields : list nb_field) (g : grid) (c : cache) (qs : list (coord * bool * Z))
  : list (list coord) :=
  match qs with
  | [] => []
  | (p, i, r) :: t =>
      let '(c', v) := hex_get_neighborhood fields g c (hq p i r) in v :: hanswers fields g c' t
  end.

Lemma hex_answers_history_independent fields g qs :
  hex_key_complete fields = true ->
  hanswers fields g [] qs = map (fun '(p, i, r) => hex_compute g (hq p i r)) qs.
Proof.
  intros Hk.
  assert (hcache_ok fields g []) as H0 by (intros k v H; discriminate).
  revert H0. generalize (@nil (list Z * list coord)) as c.
  induction qs as [|[[p i] r] t IH]; intros c Hc; simpl; [reflexivity|].
  unfold hex_get_neighborhood.
  destruct (cache_get (key_of fields (hq p i r)) c) as [v|] eqn:Eg.
  - destruct (Hc _ _ Eg) as [p' [i' [r' [Hq ->]]]].
    apply (hex_key_injective fields) in Hq; [|exact Hk]. rewrite Hq. f_equal. apply IH. exact Hc.
  - f_equal. apply IH. intros k v. simpl.
    destruct (zlist_eqb k (key_of fields (hq p i r))) eqn:Ek.
    + apply zlist_eqb_eq in Ek. intros [= <-]. exists p, i, r. auto.
    + apply Hc.
Qed.

(* ---------- NetworkGrid ---------- *)
Lemma zeqb_spec a b : Z.eqb a b = true <-> a = b.
Proof. apply Z.eqb_eq. Qed.

Lemma zsort_In x l : In x (zsort l) <-> In x l.
Proof.
  split; intros H.
  - apply (Permutation_in x (Permutation_sym (zsort_perm l))). exact H.
  - apply (Permutation_in x (zsort_perm l)). exact H.
Qed.

Definition simple (G : graph) : Prop := forall n, ~ In n (g_adj G n).

Lemma within_one {A} (adj : A -> list A) a b : within adj 1 a b <-> In b (adj a).
Proof.
  split.
  - intros [k [Hk Hh]]. assert (k = 1%nat) as -> by lia. simpl in Hh.
    destruct Hh as [m [<- Hb]]. exact Hb.
  - intros H. exists 1%nat. split; [lia|]. simpl. exists a. auto.
Qed.

Lemma net_nbhd_spec G node ic r c :
  simple G -> 1 <= r ->
  (In c (net_nbhd G node ic r) <->
   (c <> node /\ within (g_adj G) (Z.to_nat r) node c) \/ (ic = true /\ c = node)).
Proof.
  intros Hs Hr. unfold net_nbhd. destruct (r =? 1) eqn:Er.
  - apply Z.eqb_eq in Er. subst r. change (Z.to_nat 1) with 1%nat.
    rewrite in_app_iff, within_one. split.
    + intros [H|H].
      * left. split; [|exact H]. intros ->. exact (Hs node H).
      * destruct ic; [|destruct H]. destruct H as [<-|[]]. right. auto.
    + intros [[_ H]|[-> ->]]; [left; exact H|]. right. left. reflexivity.
  - rewrite zsort_In.
    assert (forall x, In x (dedup_first Z.eqb (node :: ball Z.eqb (g_adj G) (Z.to_nat r) node)) <->
                      x = node \/ within (g_adj G) (Z.to_nat r) node x) as Hd.
    { intros x. rewrite (dedup_first_In Z.eqb zeqb_spec). simpl.
      rewrite (ball_spec Z.eqb zeqb_spec). split; intros [H|H]; auto. }
    destruct ic.
    + rewrite Hd. split.
      * intros [->|H]; [right; auto|].
        destruct (Z.eq_dec c node) as [->|Hne]; [right; auto|left; auto].
      * intros [[_ H]|[_ ->]]; auto.
    + rewrite (remove_key_In Z.eqb zeqb_spec). rewrite Hd. split.
      * intros [[H|H] Hne]; [contradiction|left; auto].
      * intros [[Hne H]|[H _]]; [auto|discriminate].
Qed.
