(* The visualisation's ways of driving the simulator are single run_until calls:
   `for _ in range(n): simulator.run_for(d)` and a sequence of run_until at horizons below T. *)
From Coq Require Import ZArith List Bool Lia Sorted.
From Mesa Require Import Generated.Tables Model.Devs Model.DevsSpec Proofs.DevsProofs Proofs.DevsChunkProofs.
Import ListNotations. Open Scope Z_scope.

(* n+1 run_for(d) calls, stated on S k to keep the induction free of the side condition 0 < n *)
Lemma run_for_pieces_S : forall cfg fuel d k st st1 l1, inv st -> 0 <= d ->
  run_pieces cfg fuel st (repeat (PFor d) (S k)) = (st1, l1, true) ->
  exists m, run_loop cfg m (s_time st + Z.of_nat (S k) * d) st = (st1, l1, true).
Proof.
  intros cfg fuel d k. induction k as [|j IH]; intros st st1 l1 Hi Hd H.
  - cbn [repeat run_pieces run_piece] in H.
    destruct (run_loop cfg fuel (s_time st + d) st) as [[sa la] oka] eqn:Ea.
    inversion H as [[Hs Hl Hok]]. subst sa.
    rewrite app_nil_r in *. rewrite andb_true_r in Hok. subst oka.
    exists fuel. replace (s_time st + Z.of_nat 1 * d) with (s_time st + d) by lia. exact Ea.
  - remember (S j) as n eqn:En.
    change (repeat (PFor d) (S n)) with (PFor d :: repeat (PFor d) n) in H.
    cbn [run_pieces run_piece] in H.
    destruct (run_loop cfg fuel (s_time st + d) st) as [[sa la] oka] eqn:Ea.
    destruct (run_pieces cfg fuel sa (repeat (PFor d) n)) as [[sb lb] okb] eqn:Eb.
    inversion H as [[Hs Hl Hok]]. subst sb l1.
    apply andb_true_iff in Hok. destruct Hok as [-> ->].
    assert (Hia : inv sa) by (eapply inv_run_loop; eassumption).
    pose proof (run_loop_time _ _ _ _ _ _ Ea) as Ht.
    subst n.
    destruct (IH _ _ _ Hia Hd Eb) as [m Hm].
    rewrite Ht in Hm.
    exists (fuel + m)%nat.
    assert (Hnn : 0 <= Z.of_nat (S j) * d) by (apply Z.mul_nonneg_nonneg; lia).
    replace (s_time st + Z.of_nat (S (S j)) * d) with (s_time st + d + Z.of_nat (S j) * d)
      by (rewrite (Nat2Z.inj_succ (S j)); lia).
    eapply run_loop_chunk; [exact Hi | | exact Ea | exact Hm]. lia.
Qed.

(* the visualisation's loop  `for _ in range(n): simulator.run_for(d)`  is one run_until(now + n*d) *)
Theorem run_for_pieces : forall cfg fuel n d st st1 l1, inv st -> 0 <= d -> (0 < n)%nat ->
  run_pieces cfg fuel st (repeat (PFor d) n) = (st1, l1, true) ->
  exists m, run_loop cfg m (s_time st + Z.of_nat n * d) st = (st1, l1, true).
Proof.
  intros cfg fuel n d st st1 l1 Hi Hd Hn H.
  destruct n as [|k]; [inversion Hn|].
  eapply run_for_pieces_S; eassumption.
Qed.

Lemma within_until : forall cfg fuel T ts st, Forall (fun t => t <= T) ts ->
  within cfg fuel st T (map PUntil ts).
Proof.
  intros cfg fuel T ts. induction ts as [|t r IH]; intros st HF.
  - exact I.
  - inversion HF; subst. cbn [map within piece_within]. split; [assumption|]. apply IH. assumption.
Qed.

(* same for run_until pieces at increasing horizons *)
Theorem run_until_pieces : forall cfg fuel ts st T st1 l1 st2 l2, inv st -> Forall (fun t => t <= T) ts ->
  run_pieces cfg fuel st (map PUntil ts) = (st1, l1, true) -> run_loop cfg fuel T st1 = (st2, l2, true) ->
  exists m, run_loop cfg m T st = (st2, l1 ++ l2, true).
Proof.
  intros cfg fuel ts st T st1 l1 st2 l2 Hi HF H1 H2.
  eapply chunking; [exact Hi | apply within_until; exact HF | exact H1 | exact H2].
Qed.
