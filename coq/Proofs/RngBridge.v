(* Bridge between the code-level T1 tables of harness/tables/rng_code.py (regenerated from the working tree on every
   run) and the hand-written models Model/Rng.v (which generator each constructor call hands on) and Model/Seed.v
   (seed handling of Model.__init__ / reset_randomizer / reset_rng). *)
From Coq Require Import ZArith List Bool Lia.
From Mesa Require Import Common.ListX Generated.Tables Model.Rng Model.Seed Proofs.RngProofs.
Import ListNotations.
Open Scope Z_scope.

(* ================================================================== constructor-call sites *)
Scheme Equality for rng_site.
Scheme Equality for rng_kind.

Definition kind_ok (k : rng_kind) : bool :=
  match k with KOmitted | KOther => false | _ => true end.

(* every constructor call of a generator-carrying class in the package hands on a generator of a propagating kind *)
Definition all_sites_propagate (t : list ((Z * Z) * (rng_site * rng_kind))) : bool :=
  forallb (fun e => kind_ok (snd (snd e))) t.

Definition kinds_at (t : list ((Z * Z) * (rng_site * rng_kind))) (s : rng_site) : list rng_kind :=
  map (fun e => snd (snd e)) (filter (fun e => rng_site_beq (fst (snd e)) s) t).

(* what Model/Rng.v assumes at each site it transcribes (eval / ceval / step) *)
Definition model_rule (s : rng_site) : list rng_kind :=
  match s with
  | SModelInit | SRegisterAgent | SSelect | SShuffle | SSort | SGroupBy
  | SSpaceAgents | SAllCells | SCellSelect | SCellNbhd | SExpSpaceAgents => [KSelfRandom]
  | SCreateAgents => [KModelRandom]
  | SLegacyAgents => [KFirstAgentOrNone; KFirstAgentOrNone; KFirstAgentOrNone]   (* _Grid, ContinuousSpace, NetworkGrid *)
  | _ => []
  end.

Definition modelled_sites : list rng_site :=
  [SModelInit; SRegisterAgent; SCreateAgents; SSelect; SShuffle; SSort; SGroupBy; SSpaceAgents; SAllCells;
   SCellSelect; SCellNbhd; SLegacyAgents; SExpSpaceAgents].

Fixpoint kinds_beq (a b : list rng_kind) : bool :=
  match a, b with
  | [], [] => true
  | x :: a', y :: b' => rng_kind_beq x y && kinds_beq a' b'
  | _, _ => false
  end.

Definition sites_match_model (t : list ((Z * Z) * (rng_site * rng_kind))) : bool :=
  forallb (fun s => kinds_beq (kinds_at t s) (model_rule s)) modelled_sites.

(* cells get the space's generator: every call in a space constructor is self.random or the `random` parameter *)
Definition space_ctor_ok (t : list ((Z * Z) * (rng_site * rng_kind))) : bool :=
  forallb (fun k => match k with KSelfRandom | KPassThrough => true | _ => false end) (kinds_at t SSpaceCtor)
  && negb (Nat.eqb (length (kinds_at t SSpaceCtor)) 0).

(* the only calls that may end up without the model's generator are the three documented legacy `.agents` *)
Definition only_legacy_fallbacks (t : list ((Z * Z) * (rng_site * rng_kind))) : bool :=
  forallb (fun e => match snd (snd e) with
                    | KFirstAgentOrNone => rng_site_beq (fst (snd e)) SLegacyAgents
                    | _ => true
                    end) t.

(* ---- the generator of a derivation, computed from the kinds READ FROM THE SOURCE *)
Definition src_kind (s : rng_site) : rng_kind :=
  match kinds_at gen_rng_sites s with k :: _ => k | [] => KOther end.

Definition kind_gen (k : rng_kind) (self_gen : genid) (first_agent : option genid) : genid :=
  match k with
  | KSelfRandom | KPassThrough => self_gen
  | KModelRandom => MODEL_GEN
  | KFirstAgentOrNone => match first_agent with Some g => g | None => OTHER_GEN end
  | _ => OTHER_GEN
  end.

Fixpoint gen_src (w : world) (d : term) : genid :=
  match d with
  | TAgents => kind_gen (src_kind SModelInit) MODEL_GEN None              (* self is the model *)
  | TByType _ => kind_gen (src_kind SRegisterAgent) MODEL_GEN None
  | TSelect d _ _ => kind_gen (src_kind SSelect) (gen_src w d) None
  | TSelectAll d | TCopy d => gen_src w d
  | TShuffle d _ => kind_gen (src_kind SShuffle) (gen_src w d) None
  | TSort d _ => kind_gen (src_kind SSort) (gen_src w d) None
  | TGroup d _ => kind_gen (src_kind SGroupBy) (gen_src w d) None
  | TNew _ seeded => if seeded then MODEL_GEN else OTHER_GEN                (* the program's own constructor call *)
  | TSpaceAgents => kind_gen (src_kind SSpaceAgents) (w_sgen w) None        (* self is the space *)
  | TLegacyAgents =>
      kind_gen (src_kind SLegacyAgents) MODEL_GEN
               (match legacy_agents w with [] => None | _ => Some MODEL_GEN end)   (* agents[0].random = its model's *)
  | TXAgents s =>
      match znth (w_xspaces w) s with
      | Some x =>
          if xs_legacy x     (* MultiGrid / hex grids share _Grid.agents; NetworkGrid and ContinuousSpace have their own copy *)
          then kind_gen (src_kind SLegacyAgents) MODEL_GEN (match xs_members x with [] => None | _ => Some MODEL_GEN end)
          else kind_gen (src_kind SExpSpaceAgents) (xs_gen x) None                 (* self is the space *)
      | None => OTHER_GEN
      end
  end.

Fixpoint cgen_src (w : world) (d : cterm) : genid :=
  match d with
  | CAll => kind_gen (src_kind SAllCells) (w_sgen w) None
  | CEmpties => kind_gen (src_kind SCellSelect) (kind_gen (src_kind SAllCells) (w_sgen w) None) None
  | CNbhd _ _ => kind_gen (src_kind SCellNbhd) (w_sgen w) None               (* self is a cell of the space *)
  | CSelect d _ _ => kind_gen (src_kind SCellSelect) (cgen_src w d) None
  | CNew _ seeded => if seeded then MODEL_GEN else OTHER_GEN
  end.

Section WithTable.
  Hypothesis Hm : sites_match_model gen_rng_sites = true.

  Lemma src_kind_of s : In s modelled_sites -> src_kind s = hd KOther (model_rule s).
  Proof.
    intros Hin. unfold sites_match_model in Hm. rewrite forallb_forall in Hm. specialize (Hm s Hin).
    unfold src_kind. revert Hm. generalize (kinds_at gen_rng_sites s) as l. intros l.
    assert (forall a b, kinds_beq a b = true -> a = b) as Heq.
    { induction a as [|x a IH]; intros [|y b]; cbn; intros H; try discriminate; [reflexivity|].
      apply andb_true_iff in H. destruct H as [H1 H2]. apply internal_rng_kind_dec_bl in H1. f_equal; auto. }
    intros H. apply Heq in H. subst l. destruct (model_rule s); reflexivity.
  Qed.

  Opaque src_kind.
  Ltac sk S := rewrite (src_kind_of S) by (cbn; tauto); cbn [model_rule hd kind_gen].

  Lemma gen_src_is_spec w d : gen_src w d = gen_spec w d.
  Proof.
    induction d; cbn [gen_src gen_spec].
    - sk SModelInit. reflexivity.
    - sk SRegisterAgent. reflexivity.
    - sk SSelect. exact IHd.
    - exact IHd.
    - sk SShuffle. exact IHd.
    - sk SSort. exact IHd.
    - sk SGroupBy. exact IHd.
    - exact IHd.
    - reflexivity.
    - sk SSpaceAgents. reflexivity.
    - sk SLegacyAgents. destruct (legacy_agents w); reflexivity.
    - destruct (znth _ _) as [x|]; [|reflexivity]. destruct (xs_legacy x).
      + sk SLegacyAgents. unfold legacy_fallback. destruct (xs_members x); reflexivity.
      + sk SExpSpaceAgents. reflexivity.
  Qed.

  Lemma cgen_src_is_spec w d : cgen_src w d = cgen_spec w d.
  Proof.
    induction d; cbn [cgen_src cgen_spec].
    - sk SAllCells. reflexivity.
    - sk SCellSelect. sk SAllCells. reflexivity.
    - sk SCellNbhd. reflexivity.
    - sk SCellSelect. assumption.
    - reflexivity.
  Qed.

  Transparent src_kind.

  Lemma gen_of_source w d c : eval w d = Ok c -> gen c = gen_src w d.
  Proof. intros H. rewrite gen_src_is_spec. apply gen_refines_spec. exact H. Qed.

  Lemma cgen_of_source w d c : ceval w d = Ok c -> gen c = cgen_src w d.
  Proof. intros H. rewrite cgen_src_is_spec. apply cgen_refines_spec. exact H. Qed.

  Lemma gen_src_propagates w d c :
    seeded_space w -> wf_term w d -> eval w d = Ok c -> gen_src w d = MODEL_GEN.
  Proof. intros Hs Hw He. rewrite <- (gen_of_source w d c He). eapply gen_propagates; eassumption. Qed.
End WithTable.

(* ================================================================== seeds *)
Definition lift_init (r : init_result) :=
  (Some (i_random r), @None (option Z), Some (i_rng r), Some (i_seed r)).

Lemma model_init_bridge seed rng std_ok np_ok dn ds cur :
  gen_model_init seed rng std_ok np_ok dn ds cur = option_map lift_init (m_model_init seed rng std_ok np_ok dn ds).
Proof.
  unfold gen_model_init, m_model_init, lift_init.
  destruct seed, rng, std_ok, np_ok; reflexivity.
Qed.

Lemma reset_randomizer_bridge seed cur rng std_ok np_ok dn ds :
  gen_reset_randomizer seed cur rng std_ok np_ok dn ds =
  let r := m_reset_randomizer seed cur in
  Some (if r_in_place r then @None (option Z) else Some (r_reseed r),
        if r_in_place r then Some (r_reseed r) else @None (option Z),
        @None (option Z), Some (r_seed r)).
Proof.
  unfold gen_reset_randomizer, m_reset_randomizer. destruct seed, std_ok, np_ok; reflexivity.
Qed.

Lemma reset_rng_bridge rng seed cur std_ok np_ok dn ds :
  gen_reset_rng rng seed cur std_ok np_ok dn ds =
  Some (@None (option Z), @None (option Z), Some (m_reset_rng rng), @None (option Z)).
Proof. unfold gen_reset_rng, m_reset_rng. destruct rng, std_ok, np_ok; reflexivity. Qed.

(* the model: whatever the seed form, reset_randomizer() re-seeds with what model.random started from *)
Lemma m_reset_replays seed rng std_ok np_ok dn ds r :
  m_model_init seed rng std_ok np_ok dn ds = Some r ->
  i_seed r = i_random r /\
  r_reseed (m_reset_randomizer None (i_seed r)) = i_random r /\
  r_in_place (m_reset_randomizer None (i_seed r)) = true /\
  r_seed (m_reset_randomizer None (i_seed r)) = i_seed r.
Proof.
  unfold m_model_init, m_reset_randomizer.
  destruct seed, rng, std_ok, np_ok; intros H; inversion H; subst; cbn; auto.
Qed.

(* ... and the same about the code translated from the source *)
Lemma reset_replays_of_source seed rng std_ok np_ok dn ds cur0 ra rs rg sr :
  gen_model_init seed rng std_ok np_ok dn ds cur0 = Some (ra, rs, rg, sr) ->
  exists r s, ra = Some r /\ sr = Some s /\ s = r /\ rs = None /\
    forall rng' std' np' dn' ds',
      gen_reset_randomizer None s rng' std' np' dn' ds' = Some (None, Some r, None, Some s).
Proof.
  rewrite model_init_bridge. destruct (m_model_init _ _ _ _ _ _) as [r|] eqn:E; [|discriminate].
  cbn [option_map]. unfold lift_init. intros H; inversion H; subst.
  destruct (m_reset_replays _ _ _ _ _ _ _ E) as [H1 [H2 [H3 H4]]].
  exists (i_random r), (i_seed r). repeat split; auto.
  intros. rewrite reset_randomizer_bridge. cbn zeta. rewrite H3, H2, H4, H1. reflexivity.
Qed.

Lemma reset_in_place_of_source seed cur rng std_ok np_ok dn ds :
  exists x s, gen_reset_randomizer seed cur rng std_ok np_ok dn ds = Some (None, Some x, None, Some s) /\ s = x.
Proof.
  rewrite reset_randomizer_bridge. cbn. eexists. eexists. split; reflexivity.
Qed.

Lemma both_given_rejected_of_source seed rng std_ok np_ok dn ds cur :
  gen_model_init seed rng std_ok np_ok dn ds cur = None <-> (seed <> None /\ rng <> None).
Proof.
  rewrite model_init_bridge. unfold m_model_init.
  destruct seed, rng, std_ok, np_ok; cbn; split; intros H; try discriminate; try (destruct H; congruence);
    split; discriminate.
Qed.
