(* Bridge between the code facts regenerated from mesa/agent.py and mesa/model.py on every run
   (Generated/Tables.v, given a meaning by Model/ActivationCode.v) and the hand-written model
   Model/Activation.v the C04 theorems are about.
   The loop bridge is proved ONCE for every act_fn record that passes the decidable check fn_ok (which
   evaluates the translated conditions on all boolean inputs), so a rewrite of a condition that keeps
   its truth table keeps checking; a semantic change makes `fn_ok k gen_..._fn = true` false. *)
From Coq Require Import ZArith List Bool Lia.
From Mesa Require Import Common.ListX Generated.Tables Model.Activation Model.ActivationCode
                         Proofs.ActivationProofs.
Import ListNotations.
Open Scope Z_scope.

Lemma visit_g_id ex g sc order : (forall b, g b = b) -> forall s, visit_g ex g sc order s = visit ex sc order s.
Proof.
  intros Hg. induction order as [|r t IH]; intros s; [reflexivity|].
  cbn [visit_g visit]. rewrite Hg. destruct (alive s r).
  - destruct (run_acts ex r (script_of sc r) _) as [s2 rz]. destruct rz; [reflexivity|]. rewrite IH. reflexivity.
  - apply IH.
Qed.

Lemma loop_ok_facts k is_str lp :
  loop_ok k is_str lp = true ->
  src_ok k (al_src lp) = true /\ (forall b, al_guard lp b = b) /\ call_ok is_str (al_call lp) = true /\
  al_fwd_args lp = true /\ al_fwd_kwargs lp = true.
Proof.
  unfold loop_ok. rewrite !andb_true_iff. intros (((((H1 & H2) & H3) & H4) & H5) & H6).
  repeat split; try assumption. intros [|]; [apply eqb_prop in H2|apply eqb_prop in H3]; assumption.
Qed.

(* the translated function, run on the model state, IS the activation of the model *)
Lemma run_fn_bridge ex k f :
  fn_ok k f = true ->
  forall sc is_str perm snap s, run_fn ex sc f is_str perm snap s = activate ex k perm sc snap s.
Proof.
  unfold fn_ok. rewrite !andb_true_iff. intros [[Ht Hf] _] sc is_str perm snap s.
  assert (loop_ok k is_str (pick f is_str) = true) as Hl by (destruct is_str; assumption).
  destruct (loop_ok_facts _ _ _ Hl) as (Hs & Hg & _).
  unfold run_fn, run_loop, activate.
  destruct k; destruct (al_src (pick f is_str)); try discriminate; cbn [visit_order].
  - rewrite (visit_g_id ex _ sc snap Hg). reflexivity.
  - destruct (is_perm perm snap); [|reflexivity]. rewrite (visit_g_id ex _ sc perm Hg). reflexivity.
  - rewrite (visit_g_id ex _ sc snap Hg). reflexivity.
Qed.

(* every call made by a translated function that passes the check forwards *args and **kwargs, by the
   form selected by isinstance(method, str), and returns what the model observes *)
Lemma fn_ok_calls k f :
  fn_ok k f = true ->
  forall is_str, al_call (pick f is_str) = (if is_str then CallByName else CallCallable) /\
                 al_fwd_args (pick f is_str) = true /\ al_fwd_kwargs (pick f is_str) = true /\
                 af_ret f = match k with KMap => RetList | _ => RetSelf end.
Proof.
  unfold fn_ok. rewrite !andb_true_iff. intros [[Ht Hf] Hr] is_str.
  assert (loop_ok k is_str (pick f is_str) = true) as Hl by (destruct is_str; assumption).
  destruct (loop_ok_facts _ _ _ Hl) as (_ & _ & Hc & Ha & Hk).
  repeat split; try assumption.
  - destruct is_str; destruct (al_call (pick f _)); simpl in Hc; congruence.
  - destruct k; destruct (af_ret f); simpl in Hr; congruence.
Qed.

(* --- deregister_agent, statement by statement in the extracted order --- *)
Lemma upd_sets_ext g g' l : (forall r m, g r m = g' r m) -> upd_sets g l = upd_sets g' l.
Proof. intros H. unfold upd_sets. apply map_ext. intros [r m]. simpl. rewrite H. reflexivity. Qed.

Lemma upd_sets_upd g1 g2 l : upd_sets g2 (upd_sets g1 l) = upd_sets (fun r m => g2 r (g1 r m)) l.
Proof. unfold upd_sets. rewrite map_map. reflexivity. Qed.

Lemma class_of_mk n r e c s st nu nl a : class_of (mkSt n r e c (cls s) st nu nl) a = class_of s a.
Proof. reflexivity. Qed.

Lemma dereg_run_bridge a s :
  Inv s -> BT s ->
  dereg_run a [RHard; RByType; RAll] s = deregister a s.
Proof.
  intros [(W1 & W2 & W3 & W4) L] [B1 B2]. unfold deregister. cbn [dereg_run dereg_stmt].
  destruct (memz a (reg s)) eqn:Ea; [|reflexivity].
  apply memz_In in Ea.
  destruct (has_set_lookup _ _ (B2 a Ea)) as [m Hm].
  assert (In a m) as Hin by (rewrite (B1 _ m Hm); apply filter_In; split; [exact Ea|apply Z.eqb_refl]).
  unfold set_remove at 1. rewrite class_of_mk. cbn [sets]. rewrite Hm.
  rewrite (proj2 (memz_In a m) Hin).
  unfold set_remove. cbn [sets set_sets]. rewrite lookup_upd, W4. cbn [option_map sref_eqb].
  rewrite (proj2 (memz_In a (reg s)) Ea).
  unfold set_sets. cbn [next_id reg ext cur cls sets nuser nlog]. f_equal.
  rewrite upd_sets_upd. apply upd_sets_ext. intros r m0.
  destruct r; cbn [sref_eqb touches]; try reflexivity.
  rewrite (Z.eqb_sym c). destruct (class_of s a =? c); reflexivity.
Qed.

(* --- register_agent (called from Agent.__init__), statement by statement --- *)
Lemma upd_sets_app g l l' : upd_sets g (l ++ l') = upd_sets g l ++ upd_sets g l'.
Proof. unfold upd_sets. apply map_app. Qed.

Lemma has_set_lookup_none r l : has_set r l = false -> lookup r l = None.
Proof.
  unfold has_set. induction l as [|[r' m] t IH]; simpl; [reflexivity|].
  destruct (sref_eqb r r'); simpl; [discriminate|exact IH].
Qed.

Lemma upd_sets_ext_in g g' l : (forall r m, In (r, m) l -> g r m = g' r m) -> upd_sets g l = upd_sets g' l.
Proof.
  intros H. unfold upd_sets. apply map_ext_in. intros [r m] Hin. simpl. rewrite (H r m Hin). reflexivity.
Qed.

Lemma in_has_set r m l : In (r, m) l -> has_set r l = true.
Proof.
  intros H. unfold has_set. apply existsb_exists. exists (r, m). split; [exact H|apply sref_eqb_refl].
Qed.

Lemma create_stmts_bridge c keep s :
  Inv s -> create_stmts [RHard; RByType; RAll] c keep s = create1 c keep s.
Proof.
  intros [(W1 & W2 & W3 & W4) L]. unfold create_stmts, create1. cbn [fold_left reg_stmt].
  set (a := next_id s).
  destruct (has_set (SType c) (sets s)) eqn:Eh.
  - destruct (has_set_lookup _ _ Eh) as [m Hm].
    unfold set_add at 2. cbn [sets]. rewrite Hm.
    unfold set_add. cbn [sets set_sets]. rewrite lookup_upd, W4. cbn [option_map].
    unfold set_sets. cbn [next_id reg ext cur cls sets nuser nlog]. f_equal.
    rewrite upd_sets_upd. apply upd_sets_ext. intros r m0.
    destruct r; cbn [sref_eqb touches]; try reflexivity.
    rewrite Z.eqb_sym. destruct (c =? c0); reflexivity.
  - unfold set_add at 2. cbn [sets]. rewrite (has_set_lookup_none _ _ Eh).
    unfold set_add. cbn [sets set_sets]. rewrite lookup_app, W4.
    unfold set_sets. cbn [next_id reg ext cur cls sets nuser nlog]. f_equal.
    rewrite upd_sets_app. f_equal.
    apply upd_sets_ext_in. intros r m0 Hin. destruct r; cbn [sref_eqb touches]; try reflexivity.
    destruct (c =? c0) eqn:E; [|reflexivity].
    (* no set of class c exists yet, so this entry cannot be one *)
    apply Z.eqb_eq in E. subst c0. rewrite (in_has_set _ _ _ Hin) in Eh. discriminate.
Qed.

(* ------------------------------------------------------------------ the facts about the CURRENT source *)
Definition source_fns : list (akind * act_fn) :=
  [(KDo, gen_do_fn); (KShuffleDo, gen_shuffle_do_fn); (KMap, gen_map_fn)].

Lemma source_fns_ok : forallb (fun kf => fn_ok (fst kf) (snd kf)) source_fns = true.
Proof. vm_compute. reflexivity. Qed.

Lemma source_fn_ok k f : In (k, f) source_fns -> fn_ok k f = true.
Proof.
  intros H. pose proof source_fns_ok as Hall. rewrite forallb_forall in Hall. apply (Hall (k, f) H).
Qed.

Lemma source_groupby_ok :
  gfn_ok false gen_groupby_do_fn && gfn_ok true gen_groupby_map_fn &&
  (gcomp_ok false gen_groupby_count && gcomp_ok true gen_groupby_agg && gen_shuffle_groupby_skeleton_ok) = true.
Proof. vm_compute. reflexivity. Qed.

(* AgentSet.do / shuffle_do / map as they are in the working tree, run on the model state, are the
   model's activations - for either form of `method`, every executor, script, set, outcome, state *)
Lemma source_is_activation k f :
  In (k, f) source_fns ->
  forall ex sc is_str perm snap s, run_fn ex sc f is_str perm snap s = activate ex k perm sc snap s.
Proof. intros H ex. apply run_fn_bridge. apply source_fn_ok. exact H. Qed.

Lemma source_calls k f :
  In (k, f) source_fns ->
  forall is_str, al_call (pick f is_str) = (if is_str then CallByName else CallCallable) /\
                 al_fwd_args (pick f is_str) = true /\ al_fwd_kwargs (pick f is_str) = true /\
                 af_ret f = match k with KMap => RetList | _ => RetSelf end.
Proof. intros H. apply fn_ok_calls. apply source_fn_ok. exact H. Qed.

(* the headline statement, about the translated code *)
Lemma source_exactly_once k f :
  In (k, f) source_fns ->
  forall scs ops r snap is_str perm sc s' log rz order,
    lookup r (sets (reached ops)) = Some snap ->
    run_fn (exN scs) sc f is_str perm snap (reached ops) = Some (s', log, rz) ->
    visit_order k perm snap = Some order ->
    NoDup log /\
    (forall a, In a log <->
               exists s1, turn_state (exN scs) sc order (push_frame (reached ops)) a = Some s1 /\ alive s1 a = true) /\
    (forall a, In a log -> In a snap /\ a < next_id (reached ops)).
Proof.
  intros H scs ops r snap is_str perm sc s' log rz order Hl Hr Ho.
  rewrite (source_is_activation k f H) in Hr. repeat split.
  - eapply (reached_once (exN scs)); eassumption.
  - apply (reached_exact (exN scs) ops k r perm sc snap s' log rz order Hl Hr Ho a).
  - apply (reached_exact (exN scs) ops k r perm sc snap s' log rz order Hl Hr Ho a).
  - apply (proj1 (reached_no_new (exN scs) (good_exN scs) ops k r perm sc snap s' log rz Hl Hr) a H0).
  - apply (proj1 (reached_no_new (exN scs) (good_exN scs) ops k r perm sc snap s' log rz Hl Hr) a H0).
Qed.

Lemma source_all_called k f :
  In (k, f) source_fns ->
  forall scs ops r snap is_str perm sc s' log rz order,
    lookup r (sets (reached ops)) = Some snap -> (forall a, In a snap -> In a (reg (reached ops))) ->
    run_fn (exN scs) sc f is_str perm snap (reached ops) = Some (s', log, rz) ->
    visit_order k perm snap = Some order ->
    (forall a, spares sc a) -> calm sc -> log = order /\ rz = false.
Proof.
  intros H scs ops r snap is_str perm sc s' log rz order Hl Hreg Hr Ho.
  rewrite (source_is_activation k f H) in Hr.
  apply (reached_all_called (exN scs) (good_exN scs) ops k r perm sc snap s' log rz order Hl Hreg Hr Ho).
Qed.

(* the registry statements in the order extracted from mesa/model.py are the model's create1 / deregister *)
Lemma source_registry :
  gen_agent_first_id = next_id init_st /\ gen_remove_suppresses_keyerror = true /\
  (forall a s, Inv s -> BT s -> dereg_run a gen_deregister_order s = deregister a s) /\
  (forall c keep s, Inv s -> create_stmts gen_register_order c keep s = create1 c keep s).
Proof. repeat split; [exact dereg_run_bridge|exact create_stmts_bridge]. Qed.

(* ------------------------------------------------------------------ GroupBy.do / map: the group loop *)
Lemma gvisit_bridge ex k sc inner inner_is_str :
  fn_ok k inner = true ->
  forall gs perms s,
    gvisit true (fun perm snap s' => run_fn ex sc inner inner_is_str perm snap s') gs perms s
    = visit_groups ex k sc gs perms s.
Proof.
  intros Hok. induction gs as [|[key g] gs IH]; intros perms s; [reflexivity|].
  cbn [gvisit visit_groups]. rewrite (run_fn_bridge ex k inner Hok).
  destruct (activate ex k (hd [] perms) sc (filter (alive s) g) s) as [[[s1 log1] rz1]|]; [|reflexivity].
  destruct rz1; [reflexivity|]. rewrite IH. reflexivity.
Qed.

Lemma gfn_ok_facts is_map gf :
  gfn_ok is_map gf = true ->
  forall is_str, al_src (pick gf is_str) = SrcGroups /\ al_guard (pick gf is_str) true = true.
Proof.
  unfold gfn_ok. rewrite !andb_true_iff. intros [[Ht Hf] _] is_str.
  assert (gloop_ok is_str (pick gf is_str) = true) as Hl by (destruct is_str; assumption).
  unfold gloop_ok in Hl. rewrite !andb_true_iff in Hl. destruct Hl as [[[[H1 H2] _] _] _].
  split; [destruct (al_src (pick gf is_str)); try discriminate; reflexivity|exact H2].
Qed.

(* the translated GroupBy.do / map, with `method` naming a translated AgentSet method, run on the model
   state, is the model's visit_groups *)
Lemma run_gfn_bridge ex k sc is_map gf inner :
  gfn_ok is_map gf = true -> fn_ok k inner = true ->
  forall is_str inner_is_str gs perms s,
    run_gfn ex sc gf is_str inner inner_is_str gs perms s = visit_groups ex k sc gs perms s.
Proof.
  intros Hg Hi is_str inner_is_str gs perms s. unfold run_gfn.
  destruct (gfn_ok_facts is_map gf Hg is_str) as [-> ->].
  apply gvisit_bridge. exact Hi.
Qed.

Lemma source_groupby_is_visit_groups k f :
  In (k, f) source_fns ->
  forall ex sc is_str inner_is_str gs perms s,
    run_gfn ex sc gen_groupby_do_fn is_str f inner_is_str gs perms s = visit_groups ex k sc gs perms s /\
    run_gfn ex sc gen_groupby_map_fn is_str f inner_is_str gs perms s = visit_groups ex k sc gs perms s.
Proof.
  intros H ex sc is_str inner_is_str gs perms s.
  pose proof source_groupby_ok as Hg. rewrite !andb_true_iff in Hg. destruct Hg as [[Hd Hm] _].
  split; [apply (run_gfn_bridge ex k sc false)|apply (run_gfn_bridge ex k sc true)];
    try assumption; apply source_fn_ok; exact H.
Qed.

(* ------------------------------------------------------------------ GroupBy.count / agg *)
Lemma run_gcomp_bridge c :
  (gcomp_ok false c = true -> forall f attr gs s, run_gcomp c f attr gs s = group_count gs s) /\
  (gcomp_ok true c = true -> forall f attr gs s, run_gcomp c f attr gs s = group_agg f attr gs s).
Proof.
  unfold gcomp_ok, run_gcomp, group_count, group_agg. split; intros H f attr gs s;
    apply andb_true_iff in H; destruct H as [H1 H2]; rewrite H1; destruct (gc_val c); try discriminate; reflexivity.
Qed.

Lemma source_count_agg f attr gs s :
  run_gcomp gen_groupby_count f attr gs s = group_count gs s /\
  run_gcomp gen_groupby_agg f attr gs s = group_agg f attr gs s.
Proof.
  split; [apply (proj1 (run_gcomp_bridge gen_groupby_count))|apply (proj2 (run_gcomp_bridge gen_groupby_agg))];
    vm_compute; reflexivity.
Qed.
