(* C19, third part: refinement of the operations of one side to an abstract machine over abs_side
   (the statement "a copy behaves like a freshly built space in the same state"). *)
From Coq Require Import ZArith List Bool Lia PeanoNat.
From Mesa Require Import Model.Copy Proofs.CopyProofs Proofs.CopyInvProofs.
Import ListNotations.
Open Scope Z_scope.

(* ------------------------------------------------------------------ the abstract machine *)
Record aside := { as_cells : list acell; as_names : list Z; as_grid : bool }.

Definition absf (h : heap) (sd : side) : aside :=
  {| as_cells := abs_side h sd; as_names := map fst (layers_of sd); as_grid := s_grid (sd_space sd) |}.

Definition ac_with_labels (l : list Z) (ac : acell) : acell :=
  {| ac_idx := ac_idx ac; ac_cap := ac_cap ac; ac_labels := l; ac_conns := ac_conns ac;
     ac_empty := ac_empty ac; ac_layers := ac_layers ac |}.

(* what  cell.<name> = v  (or a write into the layer at this cell) does to the cell's abstract state *)
Definition ac_write (name v : Z) (ac : acell) : acell :=
  {| ac_idx := ac_idx ac; ac_cap := ac_cap ac; ac_labels := ac_labels ac; ac_conns := ac_conns ac;
     ac_empty := if name =? EMPTY then Some v else ac_empty ac;
     ac_layers := map (fun t => if fst (fst t) =? name then (name, Some v, v) else t) (ac_layers ac) |}.

Fixpoint remove_firstZ (x : Z) (l : list Z) : list Z :=
  match l with
  | [] => []
  | y :: t => if x =? y then t else y :: remove_firstZ x t
  end.

Fixpoint a_loc (label : Z) (acs : list acell) : option nat :=
  match acs with
  | [] => None
  | ac :: t => if memz label (ac_labels ac) then Some O else option_map S (a_loc label t)
  end.

(* leave the current cell: Cell.remove_agent seen abstractly *)
Definition a_leave (label : Z) (acs : list acell) : list acell :=
  match a_loc label acs with
  | None => acs
  | Some i =>
      upd i (fun ac => let l := remove_firstZ label (ac_labels ac) in
                       ac_write EMPTY (b2z (Nat.eqb (length l) O)) (ac_with_labels l ac)) acs
  end.

(* Cell.add_agent seen abstractly *)
Definition a_enter (label : Z) (j : nat) (acs : list acell) : list acell * bool :=
  let ac := nth j acs {| ac_idx := O; ac_cap := 0; ac_labels := []; ac_conns := []; ac_empty := None; ac_layers := [] |} in
  let acs1 := upd j (ac_write EMPTY 0) acs in
  if negb (ac_cap ac =? 0) && (Z.of_nat (length (ac_labels ac)) >=? ac_cap ac) then (acs1, false)
  else (upd j (fun ac' => ac_with_labels (ac_labels ac' ++ [label]) ac') acs1, true).

Definition a_move (label : Z) (j : nat) (acs : list acell) : list acell * list Z :=
  if opt_nat_eqb (a_loc label acs) (Some j) then (acs, [-2])
  else let '(acs', ok) := a_enter label j (a_leave label acs) in
       (acs', if ok then [0] else [-1; E_FULL]).

(* ------------------------------------------------------------------ the static part of well-formedness *)
Record static (h : heap) (sd : side) : Prop := {
  st_cells_lt : forall c, In c (cells_of sd) -> (c < length (h_cells h))%nat;
  st_cells_nodup : NoDup (cells_of sd);
  st_layers_lt : forall nl, In nl (layers_of sd) -> (snd nl < length (h_layers h))%nat;
  st_names_nodup : NoDup (map fst (layers_of sd));
  st_cls : forall c, In c (cells_of sd) -> k_cls (getc h c) = s_klass (sd_space sd);
  st_descr : d_descr (getk h (s_klass (sd_space sd))) = layers_of sd;
  st_lname : forall nl, In nl (layers_of sd) -> l_name (getl h (snd nl)) = fst nl;
  st_idx : forall i, (i < length (cells_of sd))%nat -> k_idx (getc h (nth i (cells_of sd) O)) = i;
  st_dlen : forall nl, In nl (layers_of sd) -> length (l_data (getl h (snd nl))) = length (cells_of sd);
  st_nogrid : nogrid_ok sd;
  st_empty : has_empty sd
}.

Definition dacell : acell :=
  {| ac_idx := O; ac_cap := 0; ac_labels := []; ac_conns := []; ac_empty := None; ac_layers := [] |}.

Lemma abs_side_upd h h' sd i (G : acell -> acell) :
  (forall j, (j < length (cells_of sd))%nat ->
     abs_cell h' (sd_space sd) (nth j (cells_of sd) O)
     = if Nat.eqb i j then G (abs_cell h (sd_space sd) (nth j (cells_of sd) O))
       else abs_cell h (sd_space sd) (nth j (cells_of sd) O)) ->
  abs_side h' sd = upd i G (abs_side h sd).
Proof.
  intros H. unfold abs_side. fold (cells_of sd).
  apply nth_ext with (d := dacell) (d' := dacell).
  - rewrite upd_length, !map_length. reflexivity.
  - intros k Hk. rewrite map_length in Hk.
    rewrite (nth_map_d (abs_cell h' (sd_space sd)) (cells_of sd) k dacell O Hk).
    rewrite nth_upd_any, map_length. rewrite (nth_map_d (abs_cell h (sd_space sd)) (cells_of sd) k dacell O Hk).
    rewrite (H k Hk). pose proof Hk as Hk'. apply Nat.ltb_lt in Hk'. rewrite Hk', andb_true_r. reflexivity.
Qed.

Lemma static_cell_get h sd j nl : static h sd -> (j < length (cells_of sd))%nat -> In nl (layers_of sd) ->
  cell_get h (nth j (cells_of sd) O) (fst nl) = Some (nth j (l_data (getl h (snd nl))) NOATTR).
Proof.
  intros S Hj Hnl. unfold cell_get.
  rewrite (st_cls _ _ S) by (apply nth_In; exact Hj). rewrite (st_descr _ _ S), (st_idx _ _ S j Hj).
  rewrite (assoc_NoDup (fst nl) (layers_of sd) (snd nl)); [reflexivity|apply (st_names_nodup _ _ S)|].
  destruct nl; exact Hnl.
Qed.

Lemma static_cell_get_none h sd j name : static h sd -> (j < length (cells_of sd))%nat ->
  assoc name (layers_of sd) = None ->
  cell_get h (nth j (cells_of sd) O) name = assoc name (k_dict (getc h (nth j (cells_of sd) O))).
Proof.
  intros S Hj E. unfold cell_get.
  rewrite (st_cls _ _ S) by (apply nth_In; exact Hj). rewrite (st_descr _ _ S), E. reflexivity.
Qed.

Lemma layer_loc_name h sd n1 l1 n2 l2 : static h sd -> In (n1, l1) (layers_of sd) -> In (n2, l2) (layers_of sd) ->
  (l1 = l2 <-> n1 = n2).
Proof.
  intros S H1 H2. split; intros E; subst.
  - pose proof (st_lname _ _ S _ H1) as E1. pose proof (st_lname _ _ S _ H2) as E2. cbn [fst snd] in *. congruence.
  - pose proof (assoc_NoDup n2 _ l1 (st_names_nodup _ _ S) H1) as E1.
    pose proof (assoc_NoDup n2 _ l2 (st_names_nodup _ _ S) H2) as E2. congruence.
Qed.

Definition write_heap (h : heap) (l i : nat) (v : Z) : heap :=
  upd_layer h l (fun lo => set_data (upd i (fun _ => v) (l_data lo)) lo).

Lemma write_value h sd name l i v j nl : static h sd -> In (name, l) (layers_of sd) -> In nl (layers_of sd) ->
  (i < length (cells_of sd))%nat -> (j < length (cells_of sd))%nat ->
  nth j (l_data (getl (write_heap h l i v) (snd nl))) NOATTR
  = if (fst nl =? name) && Nat.eqb i j then v else nth j (l_data (getl h (snd nl))) NOATTR.
Proof.
  intros S Hl Hnl Hi Hj. destruct nl as [n' l']. cbn [fst snd]. unfold write_heap. rewrite getl_upd_layer.
  pose proof (st_layers_lt _ _ S _ Hnl) as Hlt. cbn [snd] in Hlt. apply Nat.ltb_lt in Hlt. rewrite Hlt, andb_true_r.
  destruct (Nat.eqb l l') eqn:El.
  - apply Nat.eqb_eq in El. subst l'. assert (En : n' = name) by (apply (layer_loc_name _ _ _ _ _ _ S Hnl Hl); reflexivity).
    subst n'. rewrite Z.eqb_refl. cbn [andb set_data l_data]. rewrite nth_upd_any.
    pose proof (st_dlen _ _ S _ Hl) as Hd. cbn [snd] in Hd. rewrite Hd.
    pose proof Hj as Hj'. apply Nat.ltb_lt in Hj'. rewrite Hj', andb_true_r. destruct (Nat.eqb i j); reflexivity.
  - destruct (n' =? name) eqn:En; [|reflexivity]. apply Z.eqb_eq in En. subst n'.
    apply Nat.eqb_neq in El. exfalso. apply El. apply (layer_loc_name _ _ _ _ _ _ S Hl Hnl). reflexivity.
Qed.

Lemma static_write h sd l i v : static h sd -> static (write_heap h l i v) sd.
Proof.
  intros S. constructor; try (exact (st_cells_lt _ _ S)); try (exact (st_cells_nodup _ _ S));
    try (exact (st_names_nodup _ _ S)); try (exact (st_cls _ _ S)); try (exact (st_descr _ _ S));
    try (exact (st_idx _ _ S)); try (exact (st_nogrid _ _ S)); try (exact (st_empty _ _ S)).
  - intros nl Hnl. unfold write_heap, upd_layer. cbn [h_layers]. rewrite upd_length. apply (st_layers_lt _ _ S nl Hnl).
  - intros nl Hnl. unfold write_heap. rewrite getl_upd_layer. destruct (_ && _); [cbn [set_data l_name]|];
      apply (st_lname _ _ S nl Hnl).
  - intros nl Hnl. unfold write_heap. rewrite getl_upd_layer. destruct (_ && _); [cbn [set_data l_data]; rewrite upd_length|];
      apply (st_dlen _ _ S nl Hnl).
Qed.

Lemma grid_of_layer sd nl : nogrid_ok sd -> In nl (layers_of sd) -> s_grid (sd_space sd) = true.
Proof.
  intros NG H. destruct (s_grid (sd_space sd)) eqn:G; [reflexivity|]. rewrite (NG G) in H. destruct H.
Qed.

Lemma assoc_Some_of_notNone {B : Type} k (L : list (Z * B)) : assoc k L <> None -> exists v, assoc k L = Some v.
Proof. destruct (assoc k L) as [v|]; [intros _; exists v; reflexivity|congruence]. Qed.

(* a write of v into layer `name` at cell i *)
Lemma abs_write h sd name l i v : static h sd -> In (name, l) (layers_of sd) -> (i < length (cells_of sd))%nat ->
  abs_side (write_heap h l i v) sd = upd i (ac_write name v) (abs_side h sd).
Proof.
  intros S Hl Hi. pose proof (static_write h sd l i v S) as S'.
  pose proof (grid_of_layer _ _ (st_nogrid _ _ S) Hl) as G.
  destruct (assoc_Some_of_notNone _ _ (st_empty _ _ S G)) as [le Ele]. apply assoc_In in Ele.
  apply abs_side_upd. intros j Hj.
  assert (Hcg : forall nl, In nl (layers_of sd) ->
            cell_get (write_heap h l i v) (nth j (cells_of sd) O) (fst nl)
            = if (fst nl =? name) && Nat.eqb i j then Some v else cell_get h (nth j (cells_of sd) O) (fst nl)).
  { intros nl Hnl. rewrite (static_cell_get _ _ j nl S' Hj Hnl), (static_cell_get _ _ j nl S Hj Hnl).
    rewrite (write_value h sd name l i v j nl S Hl Hnl Hi Hj). destruct (_ && _); reflexivity. }
  unfold abs_cell.
  change (getc (write_heap h l i v) (nth j (cells_of sd) O)) with (getc h (nth j (cells_of sd) O)).
  rewrite (st_idx _ _ S j Hj).
  pose proof (Hcg (EMPTY, le) Ele) as He. cbn [fst] in He. rewrite He.
  destruct (Nat.eqb i j) eqn:Eij.
  - unfold ac_write. cbn [ac_idx ac_cap ac_labels ac_conns ac_empty ac_layers]. f_equal.
    + rewrite Z.eqb_sym. rewrite andb_true_r. reflexivity.
    + rewrite map_map. apply map_ext_in. intros nl Hnl. fold (layers_of sd) in Hnl. cbn [fst snd].
      rewrite (Hcg nl Hnl), (write_value h sd name l i v j nl S Hl Hnl Hi Hj). rewrite ?Eij, ?andb_true_r.
      destruct (fst nl =? name) eqn:En; [apply Z.eqb_eq in En; rewrite En; reflexivity|reflexivity].
  - rewrite andb_false_r. f_equal. apply map_ext_in. intros nl Hnl. fold (layers_of sd) in Hnl.
    rewrite (Hcg nl Hnl), (write_value h sd name l i v j nl S Hl Hnl Hi Hj). rewrite ?Eij, ?andb_false_r. reflexivity.
Qed.

(* ------------------------------------------------------------------ the other primitives, abstractly *)
Lemma nth_cells_inj sd i j : NoDup (cells_of sd) -> (i < length (cells_of sd))%nat -> (j < length (cells_of sd))%nat ->
  Nat.eqb (nth i (cells_of sd) O) (nth j (cells_of sd) O) = Nat.eqb i j.
Proof.
  intros Hnd Hi Hj. destruct (Nat.eqb i j) eqn:E.
  - apply Nat.eqb_eq in E. subst. apply Nat.eqb_refl.
  - apply Nat.eqb_neq. intros Heq. apply Nat.eqb_neq in E. apply E.
    apply (proj1 (NoDup_nth (cells_of sd) O) Hnd i j Hi Hj Heq).
Qed.

Lemma getc_upd_cell_nth h sd i j f : static h sd -> (i < length (cells_of sd))%nat -> (j < length (cells_of sd))%nat ->
  getc (upd_cell h (nth i (cells_of sd) O) f) (nth j (cells_of sd) O)
  = if Nat.eqb i j then f (getc h (nth j (cells_of sd) O)) else getc h (nth j (cells_of sd) O).
Proof.
  intros S Hi Hj. rewrite getc_upd_cell. rewrite (nth_cells_inj sd i j (st_cells_nodup _ _ S) Hi Hj).
  pose proof (st_cells_lt _ _ S _ (nth_In _ O Hj)) as Hlt. apply Nat.ltb_lt in Hlt. rewrite Hlt, andb_true_r. reflexivity.
Qed.

(* an update of one cell object that keeps class, index, capacity, connections *)
Definition keeps_frame (f : cellobj -> cellobj) : Prop :=
  forall co, k_cls (f co) = k_cls co /\ k_idx (f co) = k_idx co /\ k_cap (f co) = k_cap co /\ k_conns (f co) = k_conns co.

Lemma static_upd_cell h sd c f : static h sd -> keeps_frame f -> static (upd_cell h c f) sd.
Proof.
  intros S Hf. constructor; try (exact (st_cells_nodup _ _ S)); try (exact (st_layers_lt _ _ S));
    try (exact (st_names_nodup _ _ S)); try (exact (st_descr _ _ S)); try (exact (st_lname _ _ S));
    try (exact (st_dlen _ _ S)); try (exact (st_nogrid _ _ S)); try (exact (st_empty _ _ S)).
  - intros x Hx. unfold upd_cell. cbn [h_cells]. rewrite upd_length. apply (st_cells_lt _ _ S x Hx).
  - intros x Hx. rewrite getc_upd_cell. destruct (_ && _); [rewrite (proj1 (Hf _))|]; apply (st_cls _ _ S x Hx).
  - intros i Hi. rewrite getc_upd_cell. destruct (_ && _); [rewrite (proj1 (proj2 (Hf _)))|]; apply (st_idx _ _ S i Hi).
Qed.

Lemma static_upd_agent h sd a f : static h sd -> static (upd_agent h a f) sd.
Proof. intros S. destruct S. constructor; assumption. Qed.

Lemma abs_upd_agent h sd a t : abs_side (upd_agent h a (set_acell t)) sd = abs_side h sd.
Proof.
  unfold abs_side. apply map_ext. intros c. unfold abs_cell.
  change (getc (upd_agent h a (set_acell t)) c) with (getc h c).
  change (cell_get (upd_agent h a (set_acell t)) c EMPTY) with (cell_get h c EMPTY).
  f_equal.
  - apply map_ext. intros x. rewrite geta_upd_agent. destruct (_ && _); reflexivity.
Qed.

Lemma assoc_set_same {B : Type} k (v : B) L : assoc k (assoc_set k v L) = Some v.
Proof.
  induction L as [|[k' v'] t IH]; simpl; [rewrite Z.eqb_refl; reflexivity|].
  destruct (k =? k') eqn:E; simpl; rewrite E; [reflexivity|exact IH].
Qed.

(* non-grid spaces: cell.empty = v lands in the instance __dict__ *)
Lemma abs_dict_write h sd i v : static h sd -> s_grid (sd_space sd) = false -> (i < length (cells_of sd))%nat ->
  abs_side (upd_cell h (nth i (cells_of sd) O) (fun co' => set_dict (assoc_set EMPTY v (k_dict co')) co')) sd
  = upd i (ac_write EMPTY v) (abs_side h sd).
Proof.
  intros S G Hi. pose proof (st_nogrid _ _ S G) as HL.
  set (f := fun co' => set_dict (assoc_set EMPTY v (k_dict co')) co').
  assert (S' : static (upd_cell h (nth i (cells_of sd) O) f) sd) by (apply static_upd_cell; [exact S|intros co; repeat split]).
  apply abs_side_upd. intros j Hj. unfold abs_cell.
  assert (En : assoc EMPTY (layers_of sd) = None) by (rewrite HL; reflexivity).
  rewrite (static_cell_get_none _ _ j EMPTY S' Hj En), (static_cell_get_none _ _ j EMPTY S Hj En).
  unfold layers_of in HL. rewrite HL. cbn [map].
  rewrite (getc_upd_cell_nth h sd i j f S Hi Hj). destruct (Nat.eqb i j).
  - unfold ac_write, f. cbn [set_dict k_idx k_cap k_agents k_conns k_dict ac_idx ac_cap ac_labels ac_conns ac_empty ac_layers map].
    rewrite assoc_set_same. reflexivity.
  - reflexivity.
Qed.

Lemma cell_set_empty_eq h sd i v : static h sd -> (i < length (cells_of sd))%nat ->
  (s_grid (sd_space sd) = true /\ exists le, In (EMPTY, le) (layers_of sd) /\
     cell_set h (nth i (cells_of sd) O) EMPTY v = write_heap h le i v)
  \/ (s_grid (sd_space sd) = false /\
      cell_set h (nth i (cells_of sd) O) EMPTY v
      = upd_cell h (nth i (cells_of sd) O) (fun co' => set_dict (assoc_set EMPTY v (k_dict co')) co')).
Proof.
  intros S Hi. unfold cell_set. rewrite (st_cls _ _ S) by (apply nth_In; exact Hi).
  rewrite (st_descr _ _ S), (st_idx _ _ S i Hi).
  destruct (s_grid (sd_space sd)) eqn:G.
  - left. split; [reflexivity|]. destruct (assoc_Some_of_notNone _ _ (st_empty _ _ S G)) as [le Ele].
    exists le. rewrite Ele. split; [apply assoc_In; exact Ele|reflexivity].
  - right. split; [reflexivity|]. rewrite (st_nogrid _ _ S G). reflexivity.
Qed.

Lemma abs_cell_set_empty h sd i v : static h sd -> (i < length (cells_of sd))%nat ->
  abs_side (cell_set h (nth i (cells_of sd) O) EMPTY v) sd = upd i (ac_write EMPTY v) (abs_side h sd)
  /\ static (cell_set h (nth i (cells_of sd) O) EMPTY v) sd.
Proof.
  intros S Hi. destruct (cell_set_empty_eq h sd i v S Hi) as [[G [le [Hle ->]]]|[G ->]].
  - split; [apply (abs_write h sd EMPTY le i v S Hle Hi)|apply static_write; exact S].
  - split; [apply (abs_dict_write h sd i v S G Hi)|apply static_upd_cell; [exact S|intros co; repeat split]].
Qed.

(* replacing the agent list of cell i *)
Lemma abs_set_agents h sd i (g : cellobj -> list nat) : static h sd -> (i < length (cells_of sd))%nat ->
  abs_side (upd_cell h (nth i (cells_of sd) O) (fun co => set_agents (g co) co)) sd
  = upd i (ac_with_labels (map (fun a => a_label (geta h a)) (g (getc h (nth i (cells_of sd) O))))) (abs_side h sd).
Proof.
  intros S Hi. set (f := fun co => set_agents (g co) co).
  apply abs_side_upd. intros j Hj. unfold abs_cell.
  assert (Hcg : forall name, cell_get (upd_cell h (nth i (cells_of sd) O) f) (nth j (cells_of sd) O) name
                             = cell_get h (nth j (cells_of sd) O) name).
  { intros name. unfold cell_get. rewrite (getc_upd_cell_nth h sd i j f S Hi Hj).
    destruct (Nat.eqb i j); reflexivity. }
  rewrite !Hcg. rewrite (getc_upd_cell_nth h sd i j f S Hi Hj).
  destruct (Nat.eqb i j) eqn:E.
  - apply Nat.eqb_eq in E. subst j. unfold ac_with_labels, f.
    cbn [set_agents k_idx k_cap k_agents k_conns ac_idx ac_cap ac_labels ac_conns ac_empty ac_layers].
    f_equal. apply map_ext_in. intros nl _. rewrite Hcg. reflexivity.
  - f_equal. apply map_ext_in. intros nl _. rewrite Hcg. reflexivity.
Qed.

(* ------------------------------------------------------------------ the second half of the representation invariant *)
Record wf2 (h : heap) (sd : side) : Prop := {
  w2_idx : forall i, (i < length (cells_of sd))%nat -> k_idx (getc h (nth i (cells_of sd) O)) = i;
  w2_dlen : forall nl, In nl (layers_of sd) -> length (l_data (getl h (snd nl))) = length (cells_of sd);
  w2_lab : forall la, In la (sd_tab sd) -> a_label (geta h (snd la)) = fst la;
  w2_nodup : NoDup (map fst (sd_tab sd))
}.

Lemma to_static h sd : side_ok h sd -> wf2 h sd -> static h sd.
Proof.
  intros [W [NG HE]] W2. constructor.
  - apply (wf_cells_lt _ _ W). - apply (wf_cells_nodup _ _ W). - apply (wf_layers_lt _ _ W).
  - apply (wf_names_nodup _ _ W). - apply (wf_cls _ _ W). - apply (wf_descr _ _ W). - apply (wf_lname _ _ W).
  - apply (w2_idx _ _ W2). - apply (w2_dlen _ _ W2). - exact NG. - exact HE.
Qed.

Definition lab (h : heap) (a : nat) : Z := a_label (geta h a).

Lemma tab_entry h sd a : wf2 h sd -> In a (FA sd) -> In (lab h a, a) (sd_tab sd).
Proof.
  intros W2 Ha. destruct (in_tab_agent _ _ Ha) as [[l x] [Hla E]]. cbn [snd] in E. subst x.
  pose proof (w2_lab _ _ W2 _ Hla) as El. cbn [fst snd] in El. unfold lab. rewrite El. exact Hla.
Qed.

Lemma lab_inj h sd x y : wf2 h sd -> In x (FA sd) -> In y (FA sd) -> lab h x = lab h y -> x = y.
Proof.
  intros W2 Hx Hy E. pose proof (tab_entry _ _ _ W2 Hx) as Ex. pose proof (tab_entry _ _ _ W2 Hy) as Ey.
  rewrite E in Ex.
  pose proof (assoc_NoDup _ _ _ (w2_nodup _ _ W2) Ex) as A1.
  pose proof (assoc_NoDup _ _ _ (w2_nodup _ _ W2) Ey) as A2. congruence.
Qed.

Lemma lab_remove_first h sd a l : wf2 h sd -> In a (FA sd) -> (forall x, In x l -> In x (FA sd)) ->
  map (lab h) (remove_first a l) = remove_firstZ (lab h a) (map (lab h) l).
Proof.
  intros W2 Ha. induction l as [|y t IH]; intros Hl; simpl; [reflexivity|].
  destruct (Nat.eqb a y) eqn:E.
  - apply Nat.eqb_eq in E. subst y. rewrite Z.eqb_refl. reflexivity.
  - destruct (lab h a =? lab h y) eqn:E2.
    + apply Z.eqb_eq in E2. apply (lab_inj _ _ _ _ W2 Ha (Hl y (or_introl eq_refl))) in E2.
      subst. rewrite Nat.eqb_refl in E. discriminate.
    + simpl. f_equal. apply IH. intros x Hx. apply Hl. right. exact Hx.
Qed.

Lemma a_loc_intro label acs i : (i < length acs)%nat ->
  memz label (ac_labels (nth i acs dacell)) = true ->
  (forall j, (j < length acs)%nat -> j <> i -> memz label (ac_labels (nth j acs dacell)) = false) ->
  a_loc label acs = Some i.
Proof.
  revert i; induction acs as [|ac t IH]; intros i Hi Hin Hout; simpl in *; [lia|].
  destruct i as [|i].
  - rewrite Hin. reflexivity.
  - assert (H0 : memz label (ac_labels ac) = false) by (apply (Hout O); lia). rewrite H0.
    rewrite (IH i); [reflexivity|lia|exact Hin|].
    intros j Hj Hne. apply (Hout (S j)); lia.
Qed.

Lemma a_loc_none label acs :
  (forall j, (j < length acs)%nat -> memz label (ac_labels (nth j acs dacell)) = false) -> a_loc label acs = None.
Proof.
  induction acs as [|ac t IH]; intros H; simpl; [reflexivity|].
  assert (H0 : memz label (ac_labels ac) = false) by (apply (H O); simpl; lia). rewrite H0.
  rewrite IH; [reflexivity|]. intros j Hj. apply (H (S j)). simpl. lia.
Qed.

Lemma abs_labels_nth h sd j : (j < length (cells_of sd))%nat ->
  ac_labels (nth j (abs_side h sd) dacell) = map (lab h) (k_agents (getc h (nth j (cells_of sd) O))).
Proof.
  intros Hj. unfold abs_side. fold (cells_of sd).
  rewrite (nth_map_d (abs_cell h (sd_space sd)) (cells_of sd) j dacell O Hj). reflexivity.
Qed.

Lemma abs_side_length h sd : length (abs_side h sd) = length (cells_of sd).
Proof. unfold abs_side. apply map_length. Qed.

Lemma memz_false x l : ~ In x l -> memz x l = false.
Proof. intros H. destruct (memz x l) eqn:E; [|reflexivity]. apply memz_In in E. contradiction. Qed.

(* where the abstract machine finds a label = where the program's agent for that label is *)
Lemma loc_agree h sd label : side_ok h sd -> wf2 h sd ->
  a_loc label (abs_side h sd)
  = match assoc label (sd_tab sd) with
    | Some a => match a_cell (geta h a) with Some c => index_of c (cells_of sd) | None => None end
    | None => None
    end.
Proof.
  intros OK W2. pose proof OK as [W _].
  assert (Hmem : forall j x, (j < length (cells_of sd))%nat -> In x (k_agents (getc h (nth j (cells_of sd) O))) ->
                 In x (FA sd)) by (intros j x Hj Hx; apply (wf_agents_tab _ _ W _ x (nth_In _ O Hj) Hx)).
  destruct (assoc label (sd_tab sd)) as [a|] eqn:Ea.
  - pose proof (assoc_In _ _ _ Ea) as Hla. assert (Ha : In a (FA sd)) by (unfold FA; apply in_map_iff; exists (label, a); auto).
    pose proof (w2_lab _ _ W2 _ Hla) as Elab. cbn [fst snd] in Elab.
    destruct (wf_tab _ _ W _ Hla) as [_ Hcell]. cbn [snd] in Hcell.
    destruct (a_cell (geta h a)) as [c|] eqn:Ec.
    + destruct (Hcell c eq_refl) as [Hc Hin]. destruct (In_nth _ _ O Hc) as [i [Hi Hnth]].
      rewrite <- Hnth. rewrite (index_of_nth_NoDup _ i (wf_cells_nodup _ _ W) Hi).
      apply a_loc_intro.
      * rewrite abs_side_length. exact Hi.
      * rewrite (abs_labels_nth h sd i Hi). apply memz_In. apply in_map_iff. exists a. split; [exact Elab|].
        rewrite Hnth. exact Hin.
      * intros j Hj Hne. rewrite abs_side_length in Hj. rewrite (abs_labels_nth h sd j Hj). apply memz_false.
        intros Hin'. apply in_map_iff in Hin'. destruct Hin' as [x [Ex Hx]].
        assert (x = a) by (apply (lab_inj h sd); [exact W2|apply (Hmem j x Hj Hx)|exact Ha|unfold lab in *; congruence]).
        subst x. pose proof (wf_mirror _ _ W _ a (nth_In _ O Hj) Hx) as Em. rewrite Ec in Em. inversion Em as [Ecc].
        apply Hne. apply (proj1 (NoDup_nth (cells_of sd) O) (wf_cells_nodup _ _ W) j i Hj Hi). congruence.
    + apply a_loc_none. intros j Hj. rewrite abs_side_length in Hj. rewrite (abs_labels_nth h sd j Hj). apply memz_false.
      intros Hin'. apply in_map_iff in Hin'. destruct Hin' as [x [Ex Hx]].
      assert (x = a) by (apply (lab_inj h sd); [exact W2|apply (Hmem j x Hj Hx)|exact Ha|unfold lab in *; congruence]).
      subst x. pose proof (wf_mirror _ _ W _ a (nth_In _ O Hj) Hx) as Em. congruence.
  - apply a_loc_none. intros j Hj. rewrite abs_side_length in Hj. rewrite (abs_labels_nth h sd j Hj). apply memz_false.
    intros Hin'. apply in_map_iff in Hin'. destruct Hin' as [x [Ex Hx]].
    pose proof (tab_entry _ _ _ W2 (Hmem j x Hj Hx)) as Hent. rewrite Ex in Hent.
    apply (assoc_None_notin _ _ Ea). apply in_map_iff. exists (label, x). split; [reflexivity|exact Hent].
Qed.

(* ------------------------------------------------------------------ leaving and entering a cell *)
Lemma upd_upd {A : Type} i (f g : A -> A) l : upd i g (upd i f l) = upd i (fun x => g (f x)) l.
Proof. revert i; induction l as [|x t IH]; intros [|i]; simpl; auto. rewrite IH. reflexivity. Qed.

Lemma upd_ext_nth {A : Type} i (f g : A -> A) l d : f (nth i l d) = g (nth i l d) -> upd i f l = upd i g l.
Proof.
  revert i; induction l as [|x t IH]; intros [|i] H; simpl in *; auto; [rewrite H; reflexivity|].
  rewrite (IH i H). reflexivity.
Qed.

Lemma keeps_set_agents (g : cellobj -> list nat) : keeps_frame (fun co => set_agents (g co) co).
Proof. intros co. repeat split. Qed.

Lemma tab_assoc h sd a : wf2 h sd -> In a (FA sd) -> assoc (lab h a) (sd_tab sd) = Some a.
Proof. intros W2 Ha. apply (assoc_NoDup _ _ _ (w2_nodup _ _ W2)). apply tab_entry; assumption. Qed.

Lemma abs_remove_agent h sd a i : side_ok h sd -> wf2 h sd -> In a (FA sd) -> (i < length (cells_of sd))%nat ->
  a_cell (geta h a) = Some (nth i (cells_of sd) O) ->
  abs_side (remove_agent h (nth i (cells_of sd) O) a) sd = a_leave (lab h a) (abs_side h sd)
  /\ static (remove_agent h (nth i (cells_of sd) O) a) sd.
Proof.
  intros OK W2 Ha Hi Ec. pose proof OK as [W _]. pose proof (to_static _ _ OK W2) as S.
  assert (Eloc : a_loc (lab h a) (abs_side h sd) = Some i).
  { rewrite (loc_agree h sd (lab h a) OK W2), (tab_assoc _ _ _ W2 Ha), Ec.
    apply index_of_nth_NoDup; [apply (wf_cells_nodup _ _ W)|exact Hi]. }
  unfold a_leave. rewrite Eloc. unfold remove_agent.
  set (H1 := upd_cell h (nth i (cells_of sd) O) (fun co => set_agents (remove_first a (k_agents co)) co)).
  assert (S1 : static H1 sd) by (apply static_upd_cell; [exact S|apply (keeps_set_agents (fun co => remove_first a (k_agents co)))]).
  destruct (abs_cell_set_empty H1 sd i (b2z (Nat.eqb (length (k_agents (getc H1 (nth i (cells_of sd) O)))) O)) S1 Hi) as [E1 S2].
  split; [|exact S2]. rewrite E1. unfold H1 at 2.
  rewrite (abs_set_agents h sd i (fun co => remove_first a (k_agents co)) S Hi). rewrite upd_upd.
  apply upd_ext_nth with (d := dacell). cbv beta zeta.
  rewrite (abs_labels_nth h sd i Hi).
  assert (EL : map (fun x => a_label (geta h x)) (remove_first a (k_agents (getc h (nth i (cells_of sd) O))))
               = remove_firstZ (lab h a) (map (lab h) (k_agents (getc h (nth i (cells_of sd) O))))).
  { apply (lab_remove_first h sd a _ W2 Ha). intros x Hx. apply (wf_agents_tab _ _ W _ x (nth_In _ O Hi) Hx). }
  rewrite EL.
  assert (Ev : length (k_agents (getc H1 (nth i (cells_of sd) O)))
               = length (remove_firstZ (lab h a) (map (lab h) (k_agents (getc h (nth i (cells_of sd) O)))))).
  { unfold H1. rewrite (getc_upd_cell_nth h sd i i _ S Hi Hi), Nat.eqb_refl. cbn [set_agents k_agents].
    rewrite <- EL, map_length. reflexivity. }
  rewrite Ev. reflexivity.
Qed.

Lemma abs_left_heap h sd a : side_ok h sd -> wf2 h sd -> In a (FA sd) ->
  abs_side (left_heap h a) sd = a_leave (lab h a) (abs_side h sd) /\ static (left_heap h a) sd.
Proof.
  intros OK W2 Ha. pose proof OK as [W _]. unfold left_heap.
  destruct (in_tab_agent _ _ Ha) as [la [Hla Ela]]. destruct (wf_tab _ _ W _ Hla) as [_ Hcell]. rewrite Ela in Hcell.
  destruct (a_cell (geta h a)) as [c|] eqn:Ec.
  - destruct (Hcell c eq_refl) as [Hc _]. destruct (In_nth _ _ O Hc) as [i [Hi Hnth]]. rewrite <- Hnth in *.
    apply abs_remove_agent; assumption.
  - split; [|apply to_static; assumption]. unfold a_leave.
    rewrite (loc_agree h sd (lab h a) OK W2), (tab_assoc _ _ _ W2 Ha), Ec. reflexivity.
Qed.

Lemma abs_nth h sd j : (j < length (cells_of sd))%nat ->
  nth j (abs_side h sd) dacell = abs_cell h (sd_space sd) (nth j (cells_of sd) O).
Proof. intros Hj. unfold abs_side. fold (cells_of sd). apply nth_map_d. exact Hj. Qed.

Lemma abs_add_agent h sd a j : static h sd -> (j < length (cells_of sd))%nat ->
  (abs_side (fst (add_agent h (nth j (cells_of sd) O) a)) sd, snd (add_agent h (nth j (cells_of sd) O) a))
  = a_enter (lab h a) j (abs_side h sd)
  /\ static (fst (add_agent h (nth j (cells_of sd) O) a)) sd.
Proof.
  intros S Hj. unfold add_agent, a_enter.
  destruct (abs_cell_set_empty h sd j 0 S Hj) as [E1 S1].
  set (h1 := cell_set h (nth j (cells_of sd) O) EMPTY 0) in *.
  change dacell with {| ac_idx := O; ac_cap := 0; ac_labels := []; ac_conns := []; ac_empty := None; ac_layers := [] |}.
  fold dacell. rewrite (abs_nth h sd j Hj). cbn [abs_cell ac_cap ac_labels]. rewrite map_length.
  rewrite (sh_cap _ _ (shape_cell_set h (nth j (cells_of sd) O) EMPTY 0)).
  destruct (negb (k_cap (getc h (nth j (cells_of sd) O)) =? 0) &&
            (Z.of_nat (length (k_agents (getc h (nth j (cells_of sd) O)))) >=? k_cap (getc h (nth j (cells_of sd) O))));
    cbn [fst snd].
  - split; [rewrite E1; reflexivity|exact S1].
  - split; [|apply static_upd_cell; [exact S1|apply (keeps_set_agents (fun co => k_agents co ++ [a]))]].
    rewrite (abs_set_agents h1 sd j (fun co => k_agents co ++ [a]) S1 Hj). rewrite <- E1. f_equal.
    apply upd_ext_nth with (d := dacell). rewrite (abs_nth h1 sd j Hj). cbn [abs_cell ac_labels].
    rewrite map_app. cbn [map]. unfold lab, h1. rewrite geta_cell_set. reflexivity.
Qed.

Lemma abs_do_move h sd a j : side_ok h sd -> wf2 h sd -> In a (FA sd) -> (j < length (cells_of sd))%nat ->
  (abs_side (fst (do_move h a (nth j (cells_of sd) O))) sd, snd (do_move h a (nth j (cells_of sd) O)))
  = a_move (lab h a) j (abs_side h sd)
  /\ static (fst (do_move h a (nth j (cells_of sd) O))) sd.
Proof.
  intros OK W2 Ha Hj. pose proof OK as [W _]. unfold do_move, a_move.
  assert (Eg : opt_nat_eqb (a_cell (geta h a)) (Some (nth j (cells_of sd) O))
               = opt_nat_eqb (a_loc (lab h a) (abs_side h sd)) (Some j)).
  { rewrite (loc_agree h sd (lab h a) OK W2), (tab_assoc _ _ _ W2 Ha).
    destruct (in_tab_agent _ _ Ha) as [la [Hla Ela]]. destruct (wf_tab _ _ W _ Hla) as [_ Hcell]. rewrite Ela in Hcell.
    destruct (a_cell (geta h a)) as [c|] eqn:Ec; [|reflexivity].
    destruct (Hcell c eq_refl) as [Hc _]. destruct (In_nth _ _ O Hc) as [i [Hi Hnth]]. rewrite <- Hnth.
    rewrite (index_of_nth_NoDup _ i (wf_cells_nodup _ _ W) Hi). cbn [opt_nat_eqb].
    apply (nth_cells_inj sd i j (wf_cells_nodup _ _ W) Hi Hj). }
  rewrite Eg. destruct (opt_nat_eqb (a_loc (lab h a) (abs_side h sd)) (Some j));
    [split; [reflexivity|apply to_static; assumption]|].
  rewrite set_cell_of_unfold. cbv zeta.
  destruct (abs_left_heap h sd a OK W2 Ha) as [EL SL].
  set (H2 := upd_agent (left_heap h a) a (set_acell (Some (nth j (cells_of sd) O)))).
  assert (S2 : static H2 sd) by (apply static_upd_agent; exact SL).
  assert (E2 : abs_side H2 sd = a_leave (lab h a) (abs_side h sd)) by (unfold H2; rewrite abs_upd_agent; exact EL).
  assert (Elab : lab H2 a = lab h a).
  { unfold lab, H2. rewrite geta_upd_agent. destruct (_ && _); cbn [set_acell a_label]; rewrite left_geta; reflexivity. }
  destruct (abs_add_agent H2 sd a j S2 Hj) as [EA SA]. rewrite Elab, E2 in EA.
  destruct (add_agent H2 (nth j (cells_of sd) O) a) as [h' ok]. cbn [fst snd] in EA, SA. rewrite <- EA.
  destruct ok; cbn [fst snd]; [split; [reflexivity|exact SA]|]. rewrite abs_upd_agent.
  split; [reflexivity|apply static_upd_agent; exact SA].
Qed.

(* ------------------------------------------------------------------ Fill *)
Definition fill_heap (h : heap) (l : nat) (v : Z) : heap :=
  upd_layer h l (fun lo => set_data (map (fun _ => v) (l_data lo)) lo).

Lemma static_fill h sd l v : static h sd -> static (fill_heap h l v) sd.
Proof.
  intros S. constructor; try (exact (st_cells_lt _ _ S)); try (exact (st_cells_nodup _ _ S));
    try (exact (st_names_nodup _ _ S)); try (exact (st_cls _ _ S)); try (exact (st_descr _ _ S));
    try (exact (st_idx _ _ S)); try (exact (st_nogrid _ _ S)); try (exact (st_empty _ _ S)).
  - intros nl Hnl. unfold fill_heap, upd_layer. cbn [h_layers]. rewrite upd_length. apply (st_layers_lt _ _ S nl Hnl).
  - intros nl Hnl. unfold fill_heap. rewrite getl_upd_layer. destruct (_ && _); [cbn [set_data l_name]|];
      apply (st_lname _ _ S nl Hnl).
  - intros nl Hnl. unfold fill_heap. rewrite getl_upd_layer. destruct (_ && _); [cbn [set_data l_data]; rewrite map_length|];
      apply (st_dlen _ _ S nl Hnl).
Qed.

Lemma fill_value h sd name l v j nl : static h sd -> In (name, l) (layers_of sd) -> In nl (layers_of sd) ->
  (j < length (cells_of sd))%nat ->
  nth j (l_data (getl (fill_heap h l v) (snd nl))) NOATTR
  = if fst nl =? name then v else nth j (l_data (getl h (snd nl))) NOATTR.
Proof.
  intros S Hl Hnl Hj. destruct nl as [n' l']. cbn [fst snd]. unfold fill_heap. rewrite getl_upd_layer.
  pose proof (st_layers_lt _ _ S _ Hnl) as Hlt. cbn [snd] in Hlt. apply Nat.ltb_lt in Hlt. rewrite Hlt, andb_true_r.
  destruct (Nat.eqb l l') eqn:El.
  - apply Nat.eqb_eq in El. subst l'. assert (En : n' = name) by (apply (layer_loc_name _ _ _ _ _ _ S Hnl Hl); reflexivity).
    subst n'. rewrite Z.eqb_refl. cbn [set_data l_data].
    pose proof (st_dlen _ _ S _ Hl) as Hd. cbn [snd] in Hd.
    rewrite (nth_map_d (fun _ : Z => v) (l_data (getl h l)) j NOATTR 0) by (rewrite Hd; exact Hj). reflexivity.
  - destruct (n' =? name) eqn:En; [|reflexivity]. apply Z.eqb_eq in En. subst n'.
    apply Nat.eqb_neq in El. exfalso. apply El. apply (layer_loc_name _ _ _ _ _ _ S Hl Hnl). reflexivity.
Qed.

Lemma abs_fill h sd name l v : static h sd -> In (name, l) (layers_of sd) ->
  abs_side (fill_heap h l v) sd = map (ac_write name v) (abs_side h sd).
Proof.
  intros S Hl. pose proof (static_fill h sd l v S) as S'.
  pose proof (grid_of_layer _ _ (st_nogrid _ _ S) Hl) as G.
  destruct (assoc_Some_of_notNone _ _ (st_empty _ _ S G)) as [le Ele]. apply assoc_In in Ele.
  unfold abs_side. fold (cells_of sd). rewrite map_map.
  apply nth_ext with (d := dacell) (d' := dacell); [rewrite !map_length; reflexivity|].
  intros j Hj. rewrite map_length in Hj.
  rewrite (nth_map_d (abs_cell (fill_heap h l v) (sd_space sd)) (cells_of sd) j dacell O Hj).
  rewrite (nth_map_d (fun x => ac_write name v (abs_cell h (sd_space sd) x)) (cells_of sd) j dacell O Hj).
  assert (Hcg : forall nl, In nl (layers_of sd) ->
            cell_get (fill_heap h l v) (nth j (cells_of sd) O) (fst nl)
            = if fst nl =? name then Some v else cell_get h (nth j (cells_of sd) O) (fst nl)).
  { intros nl Hnl. rewrite (static_cell_get _ _ j nl S' Hj Hnl), (static_cell_get _ _ j nl S Hj Hnl).
    rewrite (fill_value h sd name l v j nl S Hl Hnl Hj). destruct (_ =? _); reflexivity. }
  unfold abs_cell.
  change (getc (fill_heap h l v) (nth j (cells_of sd) O)) with (getc h (nth j (cells_of sd) O)).
  rewrite (st_idx _ _ S j Hj).
  pose proof (Hcg (EMPTY, le) Ele) as He. cbn [fst] in He. rewrite He.
  unfold ac_write. cbn [ac_idx ac_cap ac_labels ac_conns ac_empty ac_layers].
  f_equal; try (rewrite Z.eqb_sym; reflexivity).
  rewrite map_map. apply map_ext_in. intros nl Hnl. fold (layers_of sd) in Hnl. cbn [fst snd].
  rewrite (Hcg nl Hnl), (fill_value h sd name l v j nl S Hl Hnl Hj).
  destruct (fst nl =? name) eqn:En; [apply Z.eqb_eq in En; rewrite En; reflexivity|reflexivity].
Qed.

(* ------------------------------------------------------------------ the abstract step *)
Definition with_cells (s : aside) (acs : list acell) : aside :=
  {| as_cells := acs; as_names := as_names s; as_grid := as_grid s |}.

Definition a_range (ci : Z) (acs : list acell) : option nat :=
  if ci <? 0 then None else if Nat.ltb (Z.to_nat ci) (length acs) then Some (Z.to_nat ci) else None.

Definition ac_add_layer (name dflt : Z) (ac : acell) : acell :=
  {| ac_idx := ac_idx ac; ac_cap := ac_cap ac; ac_labels := ac_labels ac; ac_conns := ac_conns ac;
     ac_empty := ac_empty ac; ac_layers := ac_layers ac ++ [(name, Some dflt, dflt)] |}.

Definition ac_del_layer (name : Z) (ac : acell) : acell :=
  {| ac_idx := ac_idx ac; ac_cap := ac_cap ac; ac_labels := ac_labels ac; ac_conns := ac_conns ac;
     ac_empty := ac_empty ac; ac_layers := filter (fun t => negb (name =? fst (fst t))) (ac_layers ac) |}.

Definition astep (s : aside) (o : op) : aside * list Z :=
  let acs := as_cells s in
  match o with
  | Move _ label ci =>
      match a_range ci acs with
      | None => (s, NOOP)
      | Some j => let '(acs', r) := a_move label j acs in (with_cells s acs', r)
      end
  | Leave _ label =>
      match a_loc label acs with
      | None => (s, NOOP)
      | Some _ => (with_cells s (a_leave label acs), [0])
      end
  | RelMove _ label key =>
      match a_loc label acs with
      | None => (s, NOOP)
      | Some i =>
          match assoc key (ac_conns (nth i acs dacell)) with
          | None => (s, [-1; E_NODIR])
          | Some z => let '(acs', r) := a_move label (Z.to_nat z) acs in (with_cells s acs', r)
          end
      end
  | SetAttr _ ci name v | SetLayer _ name ci v =>
      if negb (as_grid s) then (s, NOOP) else
      match a_range ci acs with
      | None => (s, NOOP)
      | Some j => if memz name (as_names s) then (with_cells s (upd j (ac_write name v) acs), [0]) else (s, NOOP)
      end
  | Fill _ name v =>
      if negb (as_grid s) then (s, NOOP) else
      if memz name (as_names s) then (with_cells s (map (ac_write name v) acs), [0]) else (s, NOOP)
  | AddLayer _ name dflt =>
      if negb (as_grid s) then (s, NOOP) else
      if memz name (as_names s) then (s, [-1; E_EXISTS])
      else ({| as_cells := map (ac_add_layer name dflt) acs; as_names := as_names s ++ [name]; as_grid := as_grid s |}, [0])
  | DelLayer _ name =>
      if negb (as_grid s) then (s, NOOP) else
      if name =? EMPTY then (s, NOOP) else
      if memz name (as_names s)
      then ({| as_cells := map (ac_del_layer name) acs;
               as_names := filter (fun k => negb (name =? k)) (as_names s); as_grid := as_grid s |}, [0])
      else (s, [-1; E_MISSING])
  | _ => (s, NOOP)
  end.

(* ------------------------------------------------------------------ refinement of one step *)
Lemma assoc_map_val {B C : Type} key (g : B -> C) (L : list (Z * B)) :
  assoc key (map (fun kt => (fst kt, g (snd kt))) L) = option_map g (assoc key L).
Proof. induction L as [|[k v] t IH]; simpl; [reflexivity|]. destruct (key =? k); [reflexivity|exact IH]. Qed.

Lemma assoc_memz {B : Type} name (L : list (Z * B)) :
  memz name (map fst L) = match assoc name L with Some _ => true | None => false end.
Proof. induction L as [|[k v] t IH]; simpl; [reflexivity|]. destruct (name =? k); [reflexivity|exact IH]. Qed.

Lemma a_range_spec ci (cells : list nat) (acs : list acell) : length acs = length cells ->
  match a_range ci acs with
  | Some j => 0 <= ci /\ j = Z.to_nat ci /\ (j < length cells)%nat /\
              (ci <? 0) = false /\ nth_error cells (Z.to_nat ci) = Some (nth j cells O)
  | None => (ci <? 0) = true \/ ((ci <? 0) = false /\ nth_error cells (Z.to_nat ci) = None)
  end.
Proof.
  intros Hlen. unfold a_range. destruct (ci <? 0) eqn:E; [left; reflexivity|].
  rewrite Hlen. destruct (Nat.ltb (Z.to_nat ci) (length cells)) eqn:L.
  - apply Nat.ltb_lt in L. apply Z.ltb_ge in E. repeat split; try assumption; try reflexivity.
    apply nth_error_nth'. exact L.
  - right. split; [reflexivity|]. apply nth_error_None. apply Nat.ltb_ge in L. exact L.
Qed.

Lemma wf2_intro h sd : static h sd -> (forall la, In la (sd_tab sd) -> a_label (geta h (snd la)) = fst la) ->
  NoDup (map fst (sd_tab sd)) -> wf2 h sd.
Proof. intros S H1 H2. constructor; [apply (st_idx _ _ S)|apply (st_dlen _ _ S)|exact H1|exact H2]. Qed.

Lemma absf_same_space h h' sp tab tab' acs :
  abs_side h' {| sd_space := sp; sd_tab := tab' |} = acs ->
  absf h' {| sd_space := sp; sd_tab := tab' |} = with_cells (absf h {| sd_space := sp; sd_tab := tab |}) acs.
Proof. intros E. unfold absf, with_cells. cbn [as_names as_grid sd_space layers_of]. rewrite E. reflexivity. Qed.

(* find_or_create, seen by the second invariant and by the abstraction *)
Lemma foc_wf2 h sp tab label h1 a tab1 :
  side_ok h {| sd_space := sp; sd_tab := tab |} -> wf2 h {| sd_space := sp; sd_tab := tab |} ->
  find_or_create h tab label = (h1, a, tab1) ->
  wf2 h1 {| sd_space := sp; sd_tab := tab1 |} /\ lab h1 a = label /\
  abs_side h1 {| sd_space := sp; sd_tab := tab1 |} = abs_side h {| sd_space := sp; sd_tab := tab |}.
Proof.
  intros OK W2 E. pose proof OK as [W _]. unfold find_or_create in E.
  destruct (assoc label tab) as [a0|] eqn:Ea; inversion E; subst; clear E.
  - split; [exact W2|]. split; [|reflexivity].
    apply (w2_lab _ _ W2 (label, a)). cbn [sd_tab]. apply assoc_In. exact Ea.
  - set (h1 := alloc_agent h {| a_label := label; a_cell := None |}).
    assert (Hold : forall x, (x < length (h_agents h))%nat -> geta h1 x = geta h x)
      by (intros x Hx; unfold geta, h1, alloc_agent; cbn [h_agents]; apply app_nth1; exact Hx).
    assert (Hnew : geta h1 (length (h_agents h)) = {| a_label := label; a_cell := None |}).
    { unfold geta, h1, alloc_agent. cbn [h_agents]. rewrite app_nth2 by lia. rewrite Nat.sub_diag. reflexivity. }
    split; [|split].
    + constructor; try (exact (w2_idx _ _ W2)); try (exact (w2_dlen _ _ W2)).
      * intros la Hla. cbn [sd_tab] in Hla. apply in_app_or in Hla. destruct Hla as [Hla|[<-|[]]].
        -- rewrite Hold by (apply (wf_tab _ _ W la Hla)). apply (w2_lab _ _ W2 la Hla).
        -- cbn [fst snd]. rewrite Hnew. reflexivity.
      * cbn [sd_tab]. rewrite map_app. apply NoDup_app_iff. repeat split.
        -- apply (w2_nodup _ _ W2).
        -- constructor; [intros []|constructor].
        -- intros x Hx [<-|[]]. exact (assoc_None_notin _ _ Ea Hx).
    + unfold lab. rewrite Hnew. reflexivity.
    + change (abs_side h1 {| sd_space := sp; sd_tab := tab ++ [(label, length (h_agents h))] |})
        with (abs_side h1 {| sd_space := sp; sd_tab := tab |}).
      apply (agree_abs _ _ _ W). apply frame_nil_agree; [exact W|apply alloc_agent_frame].
Qed.

Lemma move_refine h sp tab label j h1 a tab1 :
  let sd := {| sd_space := sp; sd_tab := tab |} in
  let sd1 := {| sd_space := sp; sd_tab := tab1 |} in
  side_ok h sd -> wf2 h sd -> (j < length (s_cells sp))%nat ->
  find_or_create h tab label = (h1, a, tab1) ->
  (abs_side (fst (do_move h1 a (nth j (s_cells sp) O))) sd1, snd (do_move h1 a (nth j (s_cells sp) O)))
  = a_move label j (abs_side h sd)
  /\ wf2 (fst (do_move h1 a (nth j (s_cells sp) O))) sd1.
Proof.
  intros sd sd1 OK W2 Hj Ef.
  destruct (foc_post _ _ _ _ _ _ _ OK Ef) as [OK1 [Ha _]].
  destruct (foc_wf2 _ _ _ _ _ _ _ OK W2 Ef) as [W21 [El Ea]].
  destruct (abs_do_move h1 sd1 a j OK1 W21 Ha Hj) as [E S]. fold sd1 in Ea. rewrite El, Ea in E.
  split; [exact E|]. apply (wf2_intro _ _ S).
  - intros la Hla. rewrite (sh_label _ _ (do_move_shape h1 a (nth j (s_cells sp) O))). apply (w2_lab _ _ W21 la Hla).
  - apply (w2_nodup _ _ W21).
Qed.

Definition layer_op (o : op) : bool := match o with AddLayer _ _ _ | DelLayer _ _ => true | _ => false end.

Lemma layer_ops_wf2 h sd o h' sd' r : side_ok h sd -> wf2 h sd -> layer_op o = true ->
  step_side h sd o = (h', sd', r) -> wf2 h' sd'.
Proof.
  intros OK W2 R E.
  destruct sd as [sp tab]. pose proof OK as [W _].
  destruct o; try discriminate; cbn [step_side sd_space sd_tab] in E.
  - (* AddLayer *)
    destruct (s_grid sp); cbn [negb] in E; [|inversion E; subst; exact W2].
    destruct (assoc name (s_layers sp)) as [l0|] eqn:El; [inversion E; subst; exact W2|].
    inversion E; subst h' sd' r. clear E. constructor.
    + exact (w2_idx _ _ W2).
    + intros nl Hnl. unfold layers_of in Hnl. cbn [sd_space set_layers s_layers] in Hnl.
      unfold cells_of. cbn [sd_space set_layers s_cells].
      apply in_app_or in Hnl. destruct Hnl as [Hnl|[<-|[]]].
      * unfold getl, upd_class, alloc_layer. cbn [h_layers].
        rewrite app_nth1 by (apply (wf_layers_lt _ _ W nl Hnl)). apply (w2_dlen _ _ W2 nl Hnl).
      * cbn [snd]. unfold getl, upd_class, alloc_layer. cbn [h_layers]. rewrite app_nth2 by lia.
        rewrite Nat.sub_diag. cbn [nth l_data]. apply map_length.
    + exact (w2_lab _ _ W2).
    + exact (w2_nodup _ _ W2).
  - (* DelLayer *)
    destruct (s_grid sp); cbn [negb] in E; [|inversion E; subst; exact W2].
    destruct (name =? EMPTY); [inversion E; subst; exact W2|].
    destruct (assoc name (s_layers sp)) as [l0|] eqn:El; [|inversion E; subst; exact W2].
    inversion E; subst h' sd' r. clear E. constructor.
    + exact (w2_idx _ _ W2).
    + intros nl Hnl. unfold layers_of in Hnl. cbn [sd_space set_layers s_layers] in Hnl.
      apply assoc_del_In in Hnl. exact (w2_dlen _ _ W2 nl Hnl).
    + exact (w2_lab _ _ W2).
    + exact (w2_nodup _ _ W2).
Qed.


Lemma filter_map_comm {A B : Type} (q : B -> bool) (f : A -> B) (l : list A) :
  filter q (map f l) = map f (filter (fun x => q (f x)) l).
Proof. induction l as [|x t IH]; simpl; [reflexivity|]. destruct (q (f x)); simpl; rewrite IH; reflexivity. Qed.

Lemma abs_addlayer h sp tab name dflt :
  let sd := {| sd_space := sp; sd_tab := tab |} in
  let l := length (h_layers h) in
  let h2 := upd_class (alloc_layer h {| l_name := name; l_data := map (fun _ => dflt) (s_cells sp) |}) (s_klass sp)
                      (fun k => {| d_descr := assoc_set name l (d_descr k) |}) in
  let sd2 := {| sd_space := set_layers (s_layers sp ++ [(name, l)]) sp; sd_tab := tab |} in
  static h sd -> static h2 sd2 -> s_grid sp = true ->
  abs_side h2 sd2 = map (ac_add_layer name dflt) (abs_side h sd).
Proof.
  intros sd l h2 sd2 S S2 G.
  destruct (assoc_Some_of_notNone _ _ (st_empty _ _ S G)) as [le Ele]. apply assoc_In in Ele.
  assert (Hold : forall nl, In nl (layers_of sd) -> getl h2 (snd nl) = getl h (snd nl)).
  { intros nl Hnl. unfold getl, h2, upd_class, alloc_layer. cbn [h_layers]. apply app_nth1. apply (st_layers_lt _ _ S nl Hnl). }
  assert (Hnew : getl h2 l = {| l_name := name; l_data := map (fun _ => dflt) (s_cells sp) |}).
  { unfold getl, h2, upd_class, alloc_layer. cbn [h_layers]. rewrite app_nth2 by (unfold l; lia).
    unfold l. rewrite Nat.sub_diag. reflexivity. }
  assert (Hin2 : forall nl, In nl (layers_of sd) -> In nl (layers_of sd2))
    by (intros nl Hnl; unfold layers_of, sd2; cbn [sd_space set_layers s_layers]; apply in_or_app; left; exact Hnl).
  assert (Hnew2 : In (name, l) (layers_of sd2))
    by (unfold layers_of, sd2; cbn [sd_space set_layers s_layers]; apply in_or_app; right; left; reflexivity).
  unfold abs_side. change (s_cells (sd_space sd2)) with (cells_of sd). fold (cells_of sd). rewrite map_map.
  apply nth_ext with (d := dacell) (d' := dacell); [rewrite !map_length; reflexivity|].
  intros j Hj. rewrite map_length in Hj.
  rewrite (nth_map_d (abs_cell h2 (sd_space sd2)) (cells_of sd) j dacell O Hj).
  rewrite (nth_map_d (fun x => ac_add_layer name dflt (abs_cell h (sd_space sd) x)) (cells_of sd) j dacell O Hj).
  assert (Hj2 : (j < length (cells_of sd2))%nat) by exact Hj.
  assert (Hcg : forall nl, In nl (layers_of sd) ->
            cell_get h2 (nth j (cells_of sd) O) (fst nl) = cell_get h (nth j (cells_of sd) O) (fst nl)).
  { intros nl Hnl. pose proof (static_cell_get h2 sd2 j nl S2 Hj2 (Hin2 nl Hnl)) as E2.
    change (cells_of sd2) with (cells_of sd) in E2. rewrite E2, (static_cell_get h sd j nl S Hj Hnl), (Hold nl Hnl).
    reflexivity. }
  unfold abs_cell, ac_add_layer. cbn [ac_idx ac_cap ac_labels ac_conns ac_empty ac_layers].
  change (getc h2 (nth j (cells_of sd) O)) with (getc h (nth j (cells_of sd) O)).
  pose proof (Hcg (EMPTY, le) Ele) as He. cbn [fst] in He. rewrite He.
  f_equal.
  change (s_layers (sd_space sd2)) with (s_layers sp ++ [(name, l)]). rewrite map_app. f_equal.
  - apply map_ext_in. intros nl Hnl. rewrite (Hcg nl Hnl), (Hold nl Hnl). reflexivity.
  - cbn [map fst snd]. pose proof (static_cell_get h2 sd2 j (name, l) S2 Hj2 Hnew2) as E2.
    change (cells_of sd2) with (cells_of sd) in E2. cbn [fst snd] in E2. rewrite E2, Hnew. cbn [l_data].
    rewrite (st_idx _ _ S j Hj).
    rewrite (nth_map_d (fun _ : nat => dflt) (s_cells sp) j NOATTR O Hj). reflexivity.
Qed.

Lemma abs_dellayer h sp tab name :
  let sd := {| sd_space := sp; sd_tab := tab |} in
  let h1 := upd_class h (s_klass sp) (fun k => {| d_descr := assoc_del name (d_descr k) |}) in
  let sd1 := {| sd_space := set_layers (assoc_del name (s_layers sp)) sp; sd_tab := tab |} in
  static h sd -> static h1 sd1 -> s_grid sp = true -> name <> EMPTY ->
  abs_side h1 sd1 = map (ac_del_layer name) (abs_side h sd).
Proof.
  intros sd h1 sd1 S S1 G Hne.
  destruct (assoc_Some_of_notNone _ _ (st_empty _ _ S G)) as [le Ele]. apply assoc_In in Ele.
  assert (Hin1 : forall nl, In nl (layers_of sd1) -> In nl (layers_of sd))
    by (intros nl Hnl; unfold layers_of, sd1 in Hnl; cbn [sd_space set_layers s_layers] in Hnl; apply assoc_del_In in Hnl; exact Hnl).
  assert (Hle1 : In (EMPTY, le) (layers_of sd1)).
  { unfold layers_of, sd1. cbn [sd_space set_layers s_layers]. unfold assoc_del. apply filter_In. split; [exact Ele|].
    cbn [fst]. apply negb_true_iff. apply Z.eqb_neq. exact Hne. }
  unfold abs_side. change (s_cells (sd_space sd1)) with (cells_of sd). fold (cells_of sd). rewrite map_map.
  apply nth_ext with (d := dacell) (d' := dacell); [rewrite !map_length; reflexivity|].
  intros j Hj. rewrite map_length in Hj.
  rewrite (nth_map_d (abs_cell h1 (sd_space sd1)) (cells_of sd) j dacell O Hj).
  rewrite (nth_map_d (fun x => ac_del_layer name (abs_cell h (sd_space sd) x)) (cells_of sd) j dacell O Hj).
  assert (Hj1 : (j < length (cells_of sd1))%nat) by exact Hj.
  assert (Hcg : forall nl, In nl (layers_of sd1) ->
            cell_get h1 (nth j (cells_of sd) O) (fst nl) = cell_get h (nth j (cells_of sd) O) (fst nl)).
  { intros nl Hnl. pose proof (static_cell_get h1 sd1 j nl S1 Hj1 Hnl) as E1.
    change (cells_of sd1) with (cells_of sd) in E1. rewrite E1, (static_cell_get h sd j nl S Hj (Hin1 nl Hnl)). reflexivity. }
  unfold abs_cell, ac_del_layer. cbn [ac_idx ac_cap ac_labels ac_conns ac_empty ac_layers].
  change (getc h1 (nth j (cells_of sd) O)) with (getc h (nth j (cells_of sd) O)).
  pose proof (Hcg (EMPTY, le) Hle1) as He. cbn [fst] in He. rewrite He.
  f_equal.
  rewrite filter_map_comm. cbn [fst].
  change (s_layers (sd_space sd1)) with (assoc_del name (s_layers sp)). unfold assoc_del.
  apply map_ext_in. intros nl Hnl. rewrite Hcg; [reflexivity|]. exact Hnl.
Qed.

Theorem refine_step h sd o h' sd' r :
  side_ok h sd -> wf2 h sd -> step_side h sd o = (h', sd', r) ->
  (absf h' sd', r) = astep (absf h sd) o /\ wf2 h' sd'.
Proof.
  intros OK W2 E.
  assert (Hlayer : layer_op o = true -> wf2 h' sd' /\ side_ok h' sd').
  { intros Hl. split; [apply (layer_ops_wf2 h sd o h' sd' r OK W2 Hl E)|apply (step_side_ok h sd o h' sd' r OK E)]. }
  destruct sd as [sp tab]. pose proof OK as [W [NG HE]].
  pose proof (to_static _ _ OK W2) as S.
  set (sd := {| sd_space := sp; sd_tab := tab |}) in *.
  assert (Hlen : length (abs_side h sd) = length (s_cells sp)) by apply abs_side_length.
  assert (Noop : forall x : list Z, (absf h sd, x) = (absf h sd, x) /\ wf2 h sd) by (intros; split; [reflexivity|exact W2]).
  destruct o; cbn [step_side sd_space sd_tab sd] in E; unfold astep; cbn [absf as_cells as_names as_grid];
    try (inversion E; subst; apply Noop).
  - (* Move *)
    pose proof (a_range_spec cell (s_cells sp) (abs_side h sd) Hlen) as R.
    destruct (a_range cell (abs_side h sd)) as [j|].
    + destruct R as [_ [_ [Hj [E0 En]]]]. rewrite E0, En in E.
      destruct (find_or_create h tab label) as [[h1 a] tab1] eqn:Ef.
      destruct (move_refine h sp tab label j h1 a tab1 OK W2 Hj Ef) as [Em W2'].
      destruct (do_move h1 a (nth j (s_cells sp) O)) as [h2 res]. cbn [fst snd] in *. inversion E; subst.
      split; [|exact W2']. change (abs_side h {| sd_space := sp; sd_tab := tab |}) with (abs_side h sd) in Em.
      rewrite <- Em. first [reflexivity|f_equal; apply (absf_same_space h h' sp tab tab1); reflexivity].
    + destruct R as [E0|[E0 En]]; rewrite E0 in E; [|rewrite En in E]; inversion E; subst; apply Noop.
  - (* Leave *)
    rewrite (loc_agree h sd label OK W2). cbn [sd_tab sd].
    destruct (assoc label tab) as [a|] eqn:Ea; [|inversion E; subst; apply Noop].
    pose proof (assoc_in_FA sp tab label a Ea) as Ha. fold sd in Ha.
    assert (El : lab h a = label) by (apply (w2_lab _ _ W2 (label, a)); apply assoc_In; exact Ea).
    destruct (a_cell (geta h a)) as [c|] eqn:Ec; [|inversion E; subst; apply Noop].
    destruct (in_tab_agent _ _ Ha) as [la [Hla Ela]]. destruct (wf_tab _ _ W _ Hla) as [_ Hcell]. rewrite Ela in Hcell.
    destruct (Hcell c Ec) as [Hc _]. destruct (index_of_In _ _ Hc) as [i Ei]. fold (cells_of sd). rewrite Ei.
    inversion E; subst h' sd' r. clear E.
    destruct (abs_left_heap h sd a OK W2 Ha) as [EL SL]. rewrite El in EL.
    fold (left_heap h a).
    split.
    + f_equal. apply (absf_same_space h _ sp tab tab). fold sd. rewrite abs_upd_agent. exact EL.
    + apply wf2_intro; [apply static_upd_agent; exact SL| |apply (w2_nodup _ _ W2)].
      intros la' Hla'. rewrite geta_upd_agent. destruct (_ && _); cbn [set_acell a_label]; rewrite left_geta;
        apply (w2_lab _ _ W2 la' Hla').
  - (* RelMove *)
    rewrite (loc_agree h sd label OK W2). cbn [sd_tab sd].
    destruct (assoc label tab) as [a|] eqn:Ea; [|inversion E; subst; apply Noop].
    pose proof (assoc_in_FA sp tab label a Ea) as Ha. fold sd in Ha.
    assert (El : lab h a = label) by (apply (w2_lab _ _ W2 (label, a)); apply assoc_In; exact Ea).
    destruct (a_cell (geta h a)) as [cur|] eqn:Ec; [|inversion E; subst; apply Noop].
    destruct (in_tab_agent _ _ Ha) as [la [Hla Ela]]. destruct (wf_tab _ _ W _ Hla) as [_ Hcell]. rewrite Ela in Hcell.
    destruct (Hcell cur Ec) as [Hcur _]. destruct (In_nth _ _ O Hcur) as [i [Hi Hnth]]. fold (cells_of sd).
    rewrite <- Hnth. rewrite (index_of_nth_NoDup _ i (wf_cells_nodup _ _ W) Hi).
    rewrite (abs_nth h sd i Hi). cbn [abs_cell ac_conns]. rewrite assoc_map_val. rewrite Hnth.
    destruct (assoc key (k_conns (getc h cur))) as [c|] eqn:Ek; cbn [option_map]; [|inversion E; subst; apply Noop].
    pose proof (conn_target_in _ _ _ _ _ W Hcur Ek) as Hc. destruct (In_nth _ _ O Hc) as [t [Ht Htn]].
    assert (Eidx : Z.to_nat (idx_code (s_cells (sd_space sd)) c) = t).
    { unfold idx_code. rewrite <- Htn. change (s_cells (sd_space sd)) with (cells_of sd).
      rewrite (index_of_nth_NoDup _ t (wf_cells_nodup _ _ W) Ht). apply Nat2Z.id. }
    rewrite Eidx. rewrite <- Htn in E.
    destruct (abs_do_move h sd a t OK W2 Ha Ht) as [Em Sm]. rewrite El in Em.
    destruct (do_move h a (nth t (cells_of sd) O)) as [h2 res] eqn:Ed. cbn [fst snd] in *.
    inversion E; subst h' sd' r.
    split.
    + rewrite <- Em. first [reflexivity|f_equal; apply (absf_same_space h h2 sp tab tab); reflexivity].
    + apply (wf2_intro _ _ Sm); [|apply (w2_nodup _ _ W2)].
      intros la' Hla'. pose proof (do_move_shape h a (nth t (cells_of sd) O)) as Sh. rewrite Ed in Sh. cbn [fst] in Sh.
      rewrite (sh_label _ _ Sh). apply (w2_lab _ _ W2 la' Hla').
  - (* SetAttr *)
    change (s_grid (sd_space sd)) with (s_grid sp).
    destruct (s_grid sp) eqn:G; cbn [negb orb] in *; [|inversion E; subst; apply Noop].
    pose proof (a_range_spec cell (s_cells sp) (abs_side h sd) Hlen) as R.
    destruct (a_range cell (abs_side h sd)) as [j|].
    + destruct R as [_ [_ [Hj [E0 En]]]]. rewrite E0, En in E. unfold layers_of. cbn [sd sd_space]. rewrite assoc_memz.
      destruct (assoc name (s_layers sp)) as [l|] eqn:El; [|inversion E; subst; apply Noop].
      inversion E; subst h' sd' r. clear E.
      pose proof (assoc_In _ _ _ El) as Hl.
      pose proof (wf_attr_write h sd (nth j (s_cells sp) O) (name, l) v W (nth_In _ O Hj) Hl) as Ew.
      cbn [fst snd] in Ew. rewrite Ew.
      assert (Ei : k_idx (getc h (nth j (s_cells sp) O)) = j) by (apply (w2_idx _ _ W2 j Hj)).
      rewrite Ei. fold (write_heap h l j v).
      split.
      * f_equal. apply (absf_same_space h _ sp tab tab). apply (abs_write h sd name l j v S Hl Hj).
      * apply wf2_intro; [apply static_write; exact S|exact (w2_lab _ _ W2)|exact (w2_nodup _ _ W2)].
    + destruct R as [E0|[E0 En]]; rewrite E0 in E; [|rewrite En in E]; inversion E; subst; apply Noop.
  - (* SetLayer *)
    change (s_grid (sd_space sd)) with (s_grid sp).
    destruct (s_grid sp) eqn:G; cbn [negb orb] in *; [|inversion E; subst; apply Noop].
    pose proof (a_range_spec cell (s_cells sp) (abs_side h sd) Hlen) as R.
    destruct (a_range cell (abs_side h sd)) as [j|].
    + destruct R as [_ [_ [Hj [E0 En]]]]. rewrite E0, En in E. unfold layers_of. cbn [sd sd_space]. rewrite assoc_memz.
      destruct (assoc name (s_layers sp)) as [l|] eqn:El; [|inversion E; subst; apply Noop].
      inversion E; subst h' sd' r. clear E.
      pose proof (assoc_In _ _ _ El) as Hl.
      assert (Ei : k_idx (getc h (nth j (s_cells sp) O)) = j) by (apply (w2_idx _ _ W2 j Hj)).
      rewrite Ei. fold (write_heap h l j v).
      split.
      * f_equal. apply (absf_same_space h _ sp tab tab). apply (abs_write h sd name l j v S Hl Hj).
      * apply wf2_intro; [apply static_write; exact S|exact (w2_lab _ _ W2)|exact (w2_nodup _ _ W2)].
    + destruct R as [E0|[E0 En]]; rewrite E0 in E; [|rewrite En in E]; inversion E; subst; apply Noop.
  - (* Fill *)
    change (s_grid (sd_space sd)) with (s_grid sp).
    destruct (s_grid sp) eqn:G; cbn [negb] in *; [|inversion E; subst; apply Noop].
    unfold layers_of. cbn [sd sd_space]. rewrite assoc_memz.
    destruct (assoc name (s_layers sp)) as [l|] eqn:El; [|inversion E; subst; apply Noop].
    inversion E; subst h' sd' r. clear E. pose proof (assoc_In _ _ _ El) as Hl. fold (fill_heap h l v).
    split.
    + f_equal. apply (absf_same_space h _ sp tab tab). apply (abs_fill h sd name l v S Hl).
    + apply wf2_intro; [apply static_fill; exact S|exact (w2_lab _ _ W2)|exact (w2_nodup _ _ W2)].
  - (* AddLayer *)
    destruct (Hlayer eq_refl) as [W2' OK'].
    change (s_grid (sd_space sd)) with (s_grid sp).
    destruct (s_grid sp) eqn:G; cbn [negb] in *; [|inversion E; subst; apply Noop].
    unfold layers_of. cbn [sd sd_space]. rewrite assoc_memz.
    destruct (assoc name (s_layers sp)) as [l0|] eqn:El; [inversion E; subst; apply Noop|].
    inversion E; subst h' sd' r. clear E. split; [|exact W2'].
    pose proof (abs_addlayer h sp tab name dflt S (to_static _ _ OK' W2') G) as Ea. cbv zeta in Ea.
    f_equal. unfold absf. cbn [sd_space set_layers s_layers s_grid layers_of]. rewrite Ea, map_app, G. reflexivity.
  - (* DelLayer *)
    destruct (Hlayer eq_refl) as [W2' OK'].
    change (s_grid (sd_space sd)) with (s_grid sp).
    destruct (s_grid sp) eqn:G; cbn [negb] in *; [|inversion E; subst; apply Noop].
    destruct (name =? EMPTY) eqn:En; [inversion E; subst; apply Noop|].
    unfold layers_of. cbn [sd sd_space]. rewrite assoc_memz.
    destruct (assoc name (s_layers sp)) as [l0|] eqn:El; [|inversion E; subst; apply Noop].
    inversion E; subst h' sd' r. clear E. split; [|exact W2'].
    apply Z.eqb_neq in En.
    pose proof (abs_dellayer h sp tab name S (to_static _ _ OK' W2') G En) as Ea. cbv zeta in Ea.
    f_equal. unfold absf. cbn [sd_space set_layers s_layers s_grid layers_of]. rewrite Ea, assoc_del_names, G. reflexivity.
Qed.

(* ------------------------------------------------------------------ histories of one side *)
Fixpoint run_side (h : heap) (sd : side) (ops : list op) : list (aside * list Z) :=
  match ops with
  | [] => []
  | o :: t => let '(h', sd', r) := step_side h sd o in (absf h' sd', r) :: run_side h' sd' t
  end.

Fixpoint arun (s : aside) (ops : list op) : list (aside * list Z) :=
  match ops with
  | [] => []
  | o :: t => let '(s', r) := astep s o in (s', r) :: arun s' t
  end.

(* refinement: what a side shows along a history is what the abstract machine computes from its abstract state *)
Theorem refine_run h sd ops : side_ok h sd -> wf2 h sd ->
  run_side h sd ops = arun (absf h sd) ops.
Proof.
  revert h sd; induction ops as [|o t IH]; intros h sd OK W2; simpl; [reflexivity|].
  destruct (step_side h sd o) as [[h' sd'] r] eqn:E.
  destruct (refine_step h sd o h' sd' r OK W2 E) as [Er W2'].
  destruct (step_side_ok h sd o h' sd' r OK E) as [OK' _].
  rewrite <- Er. f_equal. apply IH; assumption.
Qed.

(* C19_behaves_fresh: two sides - in whatever heaps - with the same abstract state show the same along every history *)
Theorem behaves_fresh h1 sd1 h2 sd2 ops :
  side_ok h1 sd1 -> wf2 h1 sd1 -> side_ok h2 sd2 -> wf2 h2 sd2 ->
  absf h1 sd1 = absf h2 sd2 ->
  run_side h1 sd1 ops = run_side h2 sd2 ops.
Proof.
  intros OK1 W1 OK2 W2 E. rewrite (refine_run _ _ _ OK1 W1), (refine_run _ _ _ OK2 W2), E. reflexivity.
Qed.

(* the copy starts in the abstract state of its source ... *)
Lemma copy_absf h sd : wf_side h sd -> absf (copy_heap h sd) (copy_side h sd) = absf h sd.
Proof.
  intros W. unfold absf. rewrite (copy_faithful h sd W), copy_side_layers, copy_side_grid.
  rewrite map_fst_combine by (unfold cs_locs; rewrite map_length, seq_length; reflexivity). reflexivity.
Qed.

Lemma NoDup_map_inj_in {A B : Type} (f : A -> B) (l : list A) :
  NoDup l -> (forall x y, In x l -> In y l -> f x = f y -> x = y) -> NoDup (map f l).
Proof.
  induction l as [|x t IH]; intros Hnd Hinj; simpl; [constructor|]. inversion Hnd as [|? ? Hnin Hnd']; subst.
  constructor.
  - intros Hin. apply in_map_iff in Hin. destruct Hin as [y [Ey Hy]].
    assert (y = x) by (apply Hinj; [right; exact Hy|left; reflexivity|exact Ey]). subst. exact (Hnin Hy).
  - apply IH; [exact Hnd'|]. intros a b Ha Hb. apply Hinj; right; assumption.
Qed.

(* ... and satisfies the second invariant *)
Lemma copy_wf2 h sd : side_ok h sd -> wf2 h sd -> wf2 (copy_heap h sd) (copy_side h sd).
Proof.
  intros OK W2. pose proof OK as [W _]. constructor.
  - intros i Hi. rewrite copy_side_cells in *. rewrite seq_length in Hi. rewrite seq_nth by exact Hi.
    rewrite copy_getc_new by exact Hi. cbn [copy_cell k_idx snd]. apply (w2_idx _ _ W2 i Hi).
  - intros nl Hnl. rewrite copy_side_layers in Hnl. rewrite copy_side_cells, seq_length.
    assert (Hlen : length (map fst (layers_of sd)) = length (cs_locs h sd))
      by (unfold cs_locs; rewrite map_length, seq_length; reflexivity).
    destruct (in_combine_nth _ _ _ 0 O Hlen Hnl) as [p [Hp ->]]. rewrite map_length in Hp. cbn [snd].
    unfold cs_locs. rewrite seq_nth by exact Hp. rewrite copy_getl_new by exact Hp.
    apply (w2_dlen _ _ W2). apply nth_In. exact Hp.
  - intros la Hla. rewrite copy_side_tab in Hla.
    assert (Hlen : length (map a_label (cs_newagents h sd)) = length (seq (length (h_agents h)) (length (cs_agents h sd))))
      by (rewrite map_length, cs_newagents_length, seq_length; reflexivity).
    destruct (in_combine_nth _ _ _ 0 O Hlen Hla) as [j [Hj ->]]. rewrite map_length, cs_newagents_length in Hj.
    cbn [fst snd]. rewrite seq_nth by exact Hj. rewrite copy_geta_new by exact Hj.
    rewrite (nth_map_d a_label (cs_newagents h sd) j 0 dagent) by (rewrite cs_newagents_length; exact Hj).
    unfold cs_newagents. rewrite (nth_map_d (copy_agent h (length (h_cells h)) (cells_of sd)) (cs_agents h sd) j dagent O Hj).
    reflexivity.
  - rewrite copy_side_tab.
    rewrite map_fst_combine by (rewrite map_length, cs_newagents_length, seq_length; reflexivity).
    unfold cs_newagents. rewrite map_map. cbn [copy_agent a_label].
    apply NoDup_map_inj_in; [apply (wf_agents_nodup _ _ W)|].
    intros x y Hx Hy E. destruct (cs_agents_inv _ _ _ Hx) as [cx [Hcx Hxx]]. destruct (cs_agents_inv _ _ _ Hy) as [cy [Hcy Hyy]].
    apply (lab_inj h sd x y W2); [apply (wf_agents_tab _ _ W cx x Hcx Hxx)|apply (wf_agents_tab _ _ W cy y Hcy Hyy)|exact E].
Qed.

(* hence: the copy and its source, each continued on its own, show the same under the same operations *)
Theorem copy_behaves_like_source h sd ops : side_ok h sd -> wf2 h sd ->
  run_side (copy_heap h sd) (copy_side h sd) ops = run_side h sd ops.
Proof.
  intros OK W2. pose proof OK as [W [NG HE]].
  apply behaves_fresh; try assumption.
  - split; [apply copy_wf; assumption|]. split; [apply copy_nogrid_ok; exact NG|apply copy_has_empty; exact HE].
  - apply copy_wf2; assumption.
  - apply copy_absf. exact W.
Qed.

(* ------------------------------------------------------------------ the second invariant along all histories *)
Lemma agree_wf2 h h' sd : wf2 h sd -> agree h h' sd -> wf2 h' sd.
Proof.
  intros W2 A. constructor.
  - intros i Hi. rewrite (ag_c _ _ _ A) by (apply nth_In; exact Hi). apply (w2_idx _ _ W2 i Hi).
  - intros nl Hnl. rewrite (ag_l _ _ _ A nl Hnl). apply (w2_dlen _ _ W2 nl Hnl).
  - intros la Hla. rewrite (ag_a _ _ _ A) by (apply in_map; exact Hla). apply (w2_lab _ _ W2 la Hla).
  - apply (w2_nodup _ _ W2).
Qed.

Lemma step_side_wf2 h sd o h' sd' r : side_ok h sd -> wf2 h sd -> step_side h sd o = (h', sd', r) -> wf2 h' sd'.
Proof. intros OK W2 E. apply (refine_step h sd o h' sd' r OK W2 E). Qed.

Definition Inv2 (st : state) : Prop :=
  forall i sd, nth_error (st_sides st) i = Some sd -> wf2 (st_heap st) sd.

Lemma grow_only_inv2 st h' : Inv st -> Inv2 st -> frame [] [] [] None (st_heap st) h' ->
  forall i sd, nth_error (st_sides st) i = Some sd -> wf2 h' sd.
Proof.
  intros I I2 F i sd Hi. apply (agree_wf2 _ _ _ (I2 i sd Hi)).
  apply frame_nil_agree; [apply (inv_ok _ I i sd Hi)|exact F].
Qed.

Theorem step_inv2 st o : Inv st -> Inv2 st -> Inv2 (fst (step st o)).
Proof.
  intros I I2. unfold step.
  destruct o; cbv beta iota delta [is_set_op op_side];
    try (destruct (nth_side (st_sides st) s) as [sdi|] eqn:En; [|exact I2];
         destruct (step_side (st_heap st) sdi _) as [[h' sd'] res] eqn:E; cbn [fst];
         apply nth_side_Some in En;
         intros k sdk Hk; cbn [with_side st_heap st_sides] in *; unfold put_side in Hk; rewrite nth_error_upd in Hk;
         destruct (Nat.eqb (Z.to_nat s) k) eqn:Eik;
         [apply Nat.eqb_eq in Eik; subst k; rewrite En in Hk; cbn [option_map] in Hk; inversion Hk; subst;
          apply (step_side_wf2 _ _ _ _ _ _ (inv_ok _ I _ _ En) (I2 _ _ En) E)
         |apply Nat.eqb_neq in Eik;
          destruct (step_side_ok _ _ _ _ _ _ (inv_ok _ I _ _ En) E) as [_ [_ [Hag _]]];
          apply (agree_wf2 _ _ _ (I2 k sdk Hk));
          apply (Hag sdk (proj1 (inv_ok _ I k sdk Hk))); apply (inv_sep _ I _ _ _ _ Eik En Hk)]);
    try (destruct (nth_side (st_sets st) s) as [ss|] eqn:En; [|exact I2];
         destruct (step_set (st_heap st) ss _) as [[h' ss'] res] eqn:E; cbn [fst with_set];
         intros k sdk Hk; cbn [st_heap st_sides] in *;
         apply (grow_only_inv2 st h' I I2 (proj1 (step_set_fp _ _ _ _ _ _ E)) k sdk Hk)).
  - (* Copy *)
    destruct (nth_side (st_sides st) src) as [sd|] eqn:En; [|exact I2].
    destruct (Nat.leb MAX_SIDES (length (st_sides st))); [exact I2|]. apply nth_side_Some in En.
    pose proof (copy_wf2 (st_heap st) sd (inv_ok _ I _ _ En) (I2 _ _ En)) as Wn.
    pose proof (copy_frame (st_heap st) sd) as F. unfold copy_heap, copy_side in *.
    destruct (copy_space (st_heap st) sd) as [h' sd']. cbn [fst snd st_heap st_sides] in *.
    intros k sdk Hk. cbn [st_heap st_sides] in *.
    destruct (nth_error_snoc _ _ _ _ Hk) as [[_ Hk']|[_ ->]]; [|exact Wn].
    apply (grow_only_inv2 st h' I I2 F k sdk Hk').
  - (* SCopy *)
    destruct (nth_side (st_sets st) src) as [ss|] eqn:En; [|exact I2].
    destruct (Nat.leb MAX_SIDES (length (st_sets st))); [exact I2|].
    pose proof (copy_set_frame (st_heap st) ss) as F. unfold copy_set_heap in F.
    destruct (copy_set (st_heap st) ss) as [h' ss']. cbn [fst st_heap st_sides] in *.
    intros k sdk Hk. cbn [st_heap st_sides] in *. apply (grow_only_inv2 st h' I I2 F k sdk Hk).
Qed.

Lemma init_wf2 c : good_case c -> c_space c = true -> Inv2 (init_state c).
Proof.
  intros GC Hs. unfold init_state. rewrite Hs.
  assert (W2 : wf2 (fst (init_space c)) (snd (init_space c))).
  { constructor.
    - intros i Hi. rewrite init_cells in *. rewrite seq_length in Hi. rewrite seq_nth by exact Hi. cbn [Nat.add].
      rewrite init_getc by exact Hi. reflexivity.
    - intros nl Hnl. rewrite init_layers in Hnl. rewrite init_cells, seq_length.
      assert (Hlen : length (map fst (i_specs c)) = length (seq 0 (length (i_specs c))))
        by (rewrite map_length, seq_length; reflexivity).
      destruct (in_combine_nth _ _ _ 0 O Hlen Hnl) as [p [Hp ->]]. rewrite map_length in Hp. cbn [snd].
      rewrite seq_nth by exact Hp. cbn [Nat.add]. unfold getl, init_space. cbn [fst h_layers]. fold (i_specs c).
      rewrite (nth_map_d (fun nd : Z * Z => {| l_name := fst nd; l_data := map (fun _ => snd nd) (c_caps c) |})
                         (i_specs c) p dlayer (0, 0) Hp).
      cbn [l_data]. apply map_length.
    - intros la [].
    - constructor. }
  destruct (init_space c) as [h sd]. cbn [fst snd] in W2.
  intros [|i] sd0 H; simpl in H; [inversion H; subst; exact W2|destruct i; discriminate].
Qed.

Lemma init_wf2_any c : good_case c -> Inv2 (init_state c).
Proof.
  intros GC. destruct (c_space c) eqn:Hs; [apply init_wf2; assumption|].
  unfold init_state. rewrite Hs. unfold init_set. intros [|i] sd H; simpl in H; try discriminate; destruct i; discriminate.
Qed.

Theorem reachable_inv2 c ops : good_case c ->
  Inv (run_states (init_state c) ops) /\ Inv2 (run_states (init_state c) ops).
Proof.
  intros GC. pose proof (init_inv c GC) as I. pose proof (init_wf2_any c GC) as I2.
  generalize dependent (init_state c). induction ops as [|o t IH]; intros st I I2; simpl; [split; assumption|].
  apply IH; [apply step_inv; exact I|apply step_inv2; assumption].
Qed.

(* ------------------------------------------------------------------ interleaved histories *)
Definition afinal (s : aside) (ops : list op) : aside := fold_left (fun s o => fst (astep s o)) ops s.

Lemma touches_side o j : touches o j = true -> is_set_op o = false /\ op_side o = Z.of_nat j.
Proof.
  unfold touches. intros H. apply andb_true_iff in H. destruct H as [H1 H2].
  split; [apply negb_true_iff; exact H1|apply Z.eqb_eq; exact H2].
Qed.

Lemma nth_side_of_nat {A : Type} (l : list A) j : nth_side l (Z.of_nat j) = nth_error l j.
Proof.
  unfold nth_side. destruct (Z.of_nat j <? 0) eqn:E; [apply Z.ltb_lt in E; lia|]. rewrite Nat2Z.id. reflexivity.
Qed.

(* one step of the whole system, seen from side j *)
Lemma step_seen_from st o j sd : Inv st -> Inv2 st -> nth_error (st_sides st) j = Some sd ->
  exists sd', nth_error (st_sides (fst (step st o))) j = Some sd' /\
              absf (st_heap (fst (step st o))) sd'
              = if touches o j then fst (astep (absf (st_heap st) sd) o) else absf (st_heap st) sd.
Proof.
  intros I I2 Hj. destruct (touches o j) eqn:Ht.
  - destruct (touches_side o j Ht) as [Hs Ho].
    assert (Hstep : step st o =
                    let '(h', sd', res) := step_side (st_heap st) sd o in (with_side st h' (Z.of_nat j) sd', res)).
    { unfold step. destruct o; cbn [is_set_op op_side] in *; try discriminate; try (exfalso; lia); subst;
        rewrite nth_side_of_nat, Hj; reflexivity. }
    rewrite Hstep. destruct (step_side (st_heap st) sd o) as [[h' sd'] res] eqn:E. cbn [fst with_side st_sides st_heap].
    exists sd'. split.
    + unfold put_side. rewrite Nat2Z.id, nth_error_upd, Nat.eqb_refl, Hj. reflexivity.
    + destruct (refine_step _ _ _ _ _ _ (inv_ok _ I j sd Hj) (I2 j sd Hj) E) as [Er _].
      rewrite <- Er. reflexivity.
  - destruct (step_independent st o j sd I Hj Ht) as [Hj' Ea]. exists sd. split; [exact Hj'|].
    unfold absf. rewrite Ea. reflexivity.
Qed.

(* whatever happens on the other sides (copies included), the abstract state of side j is the abstract machine run on
   exactly the operations addressed to side j *)
Theorem side_history st ops j sd : Inv st -> Inv2 st -> nth_error (st_sides st) j = Some sd ->
  exists sd', nth_error (st_sides (run_states st ops)) j = Some sd' /\
              absf (st_heap (run_states st ops)) sd'
              = afinal (absf (st_heap st) sd) (filter (fun o => touches o j) ops).
Proof.
  revert st sd; induction ops as [|o t IH]; intros st sd I I2 Hj; simpl.
  - exists sd. split; [exact Hj|reflexivity].
  - destruct (step_seen_from st o j sd I I2 Hj) as [sd1 [Hj1 E1]].
    destruct (IH (fst (step st o)) sd1 (step_inv st o I) (step_inv2 st o I I2) Hj1) as [sd' [Hj' E']].
    exists sd'. split; [exact Hj'|]. rewrite E', E1. destruct (touches o j); reflexivity.
Qed.
