(* C18 "continue" for the legacy grids: the observation determines behaviour.
   Two states with the same cell contents, positions and mask (the lazily built empties set may
   be built in one and not in the other) answer every call alike and stay related; hence after
   a rejected call every continuation of the history is observed exactly as if the call had
   never been made. *)
From Coq Require Import ZArith List Bool Lia.
From Mesa Require Import Common.ListX Model.LegacyGrid Proofs.LegacyGridProofs.
Import ListNotations.
Open Scope Z_scope.

Definition sim (s t : state) : Prop :=
  (forall p, grid s p = grid t p) /\ (forall a, pos s a = pos t a) /\ (forall p, mask s p = mask t p).

Lemma sim_refl s : sim s s.
Proof. repeat split. Qed.

Lemma sim_build c s : sim s (build_empties c s).
Proof.
  unfold sim. rewrite build_empties_grid, build_empties_pos, build_empties_mask. repeat split.
Qed.

Lemma sim_sym s t : sim s t -> sim t s.
Proof. intros (H1 & H2 & H3). repeat split; intros; symmetry; auto. Qed.

Lemma sim_trans s t u : sim s t -> sim t u -> sim s u.
Proof.
  intros (H1 & H2 & H3) (G1 & G2 & G3). repeat split; intros.
  - rewrite H1. apply G1.
  - rewrite H2. apply G2.
  - rewrite H3. apply G3.
Qed.

Lemma upd_c_ext {A} (f g : coord -> A) p v : (forall q, f q = g q) -> forall q, upd_c f p v q = upd_c g p v q.
Proof. intros H q. unfold upd_c. destruct (coord_eqb q p); [reflexivity|apply H]. Qed.

Lemma upd_a_ext {A} (f g : agent -> A) a v : (forall b, f b = g b) -> forall b, upd_a f a v b = upd_a g a v b.
Proof. intros H b. unfold upd_a. destruct (b =? a); [reflexivity|apply H]. Qed.

Lemma place_sim c s t a p s' t' r r' :
  sim s t -> place c s a p = (s', r) -> place c t a p = (t', r') -> r = r' /\ sim s' t'.
Proof.
  intros (Hg & Hp & Hm). unfold place, place_multi, place_single, is_cell_empty.
  rewrite (Hg p), (Hp a).
  destruct (c_multi c).
  - destruct (is_none (pos t a) || negb (zmemb a (grid t p))); intros H1 H2; inversion H1; inversion H2; subst;
      (split; [reflexivity|]); [|repeat split; assumption].
    split; [|split]; cbn.
    + intros q. unfold upd_c. destruct (coord_eqb q p); [reflexivity|apply Hg].
    + apply upd_a_ext. exact Hp.
    + apply upd_c_ext. exact Hm.
  - destruct (is_nil (grid t p)); intros H1 H2; inversion H1; inversion H2; subst;
      (split; [reflexivity|]); [|repeat split; assumption].
    split; [|split]; cbn.
    + apply upd_c_ext. exact Hg.
    + apply upd_a_ext. exact Hp.
    + apply upd_c_ext. exact Hm.
Qed.

Lemma remove_sim c s t a s' t' r r' :
  sim s t -> remove c s a = (s', r) -> remove c t a = (t', r') -> r = r' /\ sim s' t'.
Proof.
  intros (Hg & Hp & Hm). unfold remove, remove_multi, remove_single.
  rewrite (Hp a). destruct (c_multi c).
  - destruct (pos t a) as [p|]; [|intros H1 H2; inversion H1; inversion H2; subst; split; [reflexivity|repeat split; assumption]].
    rewrite (Hg p). destruct (zmemb a (grid t p));
      intros H1 H2; inversion H1; inversion H2; subst; (split; [reflexivity|]); [|repeat split; assumption].
    split; [|split]; cbn.
    + apply upd_c_ext. exact Hg.
    + apply upd_a_ext. exact Hp.
    + intros q. destruct (is_nil (remove_first a (grid t p))); [apply upd_c_ext; exact Hm|apply Hm].
  - destruct (pos t a) as [p|]; intros H1 H2; inversion H1; inversion H2; subst; (split; [reflexivity|]);
      [|repeat split; assumption].
    split; [|split]; cbn.
    + apply upd_c_ext. exact Hg.
    + apply upd_a_ext. exact Hp.
    + apply upd_c_ext. exact Hm.
Qed.

(* "related computations": same result, related states *)
Definition rel (x y : state * res) : Prop := snd x = snd y /\ sim (fst x) (fst y).

Lemma rel_bind x y f g :
  rel x y -> (forall s t, sim s t -> rel (f s) (g t)) -> rel (bind x f) (bind y g).
Proof.
  destruct x as [s r], y as [t r']. intros [Hr Hs] Hfg. cbn [fst snd] in *. subst r'.
  unfold bind. destruct r; try (split; [reflexivity|exact Hs]). apply Hfg. exact Hs.
Qed.

Lemma place_rel c s t a p : sim s t -> rel (place c s a p) (place c t a p).
Proof.
  intros H. destruct (place c s a p) as [s' r] eqn:E1, (place c t a p) as [t' r'] eqn:E2.
  exact (place_sim c s t a p s' t' r r' H E1 E2).
Qed.

Lemma remove_rel c s t a : sim s t -> rel (remove c s a) (remove c t a).
Proof.
  intros H. destruct (remove c s a) as [s' r] eqn:E1, (remove c t a) as [t' r'] eqn:E2.
  exact (remove_sim c s t a s' t' r r' H E1 E2).
Qed.

Lemma rel_same s t r : sim s t -> rel (s, r) (t, r).
Proof. intros H. split; [reflexivity|exact H]. Qed.

Lemma grid_move_rel c s t a p : sim s t -> rel (grid_move_agent c s a p) (grid_move_agent c t a p).
Proof.
  intros H. unfold grid_move_agent. destruct (torus_adj c p) as [p'|]; [|apply rel_same; exact H].
  apply rel_bind; [apply remove_rel; exact H|]. intros s1 t1 H1. apply place_rel. exact H1.
Qed.

Lemma move_rel c s t a p : sim s t -> rel (move_agent c s a p) (move_agent c t a p).
Proof.
  intros H. unfold move_agent. destruct (c_multi c); [apply grid_move_rel; exact H|].
  destruct (torus_adj c p) as [p'|]; [|apply rel_same; exact H].
  assert (blocked s a p' = blocked t a p') as -> by (unfold blocked; destruct H as (Hg & _); rewrite (Hg p'); reflexivity).
  destruct (blocked t a p'); [apply rel_same; exact H|apply grid_move_rel; exact H].
Qed.

Lemma swap_rel c s t a b : sim s t -> rel (swap_pos c s a b) (swap_pos c t a b).
Proof.
  intros H. unfold swap_pos. destruct H as (Hg & Hp & Hm). rewrite (Hp a), (Hp b).
  assert (sim s t) as H by (repeat split; assumption).
  destruct (pos t a) as [pa|]; [|apply rel_same; exact H].
  destruct (pos t b) as [pb|]; [|apply rel_same; exact H].
  destruct (coord_eqb pa pb); [apply rel_same; exact H|].
  apply rel_bind; [apply remove_rel; exact H|]. intros s1 t1 H1.
  apply rel_bind; [apply remove_rel; exact H1|]. intros s2 t2 H2.
  apply rel_bind; [apply place_rel; exact H2|]. intros s3 t3 H3.
  apply place_rel. exact H3.
Qed.

(* the emptiness bookkeeping of two related states satisfying the invariant agrees as a set *)
Lemma empties_agree c s t :
  Agree c s -> Agree c t -> sim s t -> built s = true -> built t = true ->
  forall p, In p (empties s) <-> In p (empties t).
Proof.
  intros Ha Hb (Hg & _) Bs Bt p. rewrite (ag_emp c s Ha Bs), (ag_emp c t Hb Bt), (Hg p). tauto.
Qed.

Lemma nonempty_iff {A} (l l' : list A) :
  (forall x, In x l <-> In x l') -> (Z.of_nat (length l) =? 0) = (Z.of_nat (length l') =? 0).
Proof.
  intros H. destruct l as [|x u], l' as [|y v]; try reflexivity.
  - exfalso. apply (H y). left. reflexivity.
  - exfalso. apply (H x). left. reflexivity.
Qed.

Lemma move_to_empty_rel c s t a smp out :
  Agree c s -> Agree c t -> sim s t ->
  rel (move_to_empty c s a smp out) (move_to_empty c t a smp out).
Proof.
  intros Ha Hb H. unfold move_to_empty.
  pose proof (build_empties_agree c s Ha) as Ha0. pose proof (build_empties_agree c t Hb) as Hb0.
  assert (sim (build_empties c s) (build_empties c t)) as H0.
  { apply (sim_trans _ s); [apply sim_sym, sim_build|]. apply (sim_trans _ t); [exact H|apply sim_build]. }
  pose proof (empties_agree c _ _ Ha0 Hb0 H0 (build_empties_built c s) (build_empties_built c t)) as He.
  set (s0 := build_empties c s) in *. set (t0 := build_empties c t) in *.
  rewrite (nonempty_iff _ _ He).
  destruct (Z.of_nat (length (empties t0)) =? 0); [apply rel_same; exact H0|].
  assert ((if smp then negb (out_of_bounds c out) && is_cell_empty s0 out else memb coord_eqb out (empties s0))
          = (if smp then negb (out_of_bounds c out) && is_cell_empty t0 out else memb coord_eqb out (empties t0))) as ->.
  { destruct smp.
    - unfold is_cell_empty. destruct H0 as (Hg & _). rewrite (Hg out). reflexivity.
    - destruct (memb coord_eqb out (empties s0)) eqn:E1, (memb coord_eqb out (empties t0)) eqn:E2; try reflexivity.
      + apply cmemb_In, He, cmemb_In in E1. congruence.
      + apply cmemb_In, He, cmemb_In in E2. congruence. }
  match goal with |- rel (if ?L then _ else _) _ => destruct L end; [|apply rel_same; exact H0].
  apply rel_bind; [apply remove_rel; exact H0|]. intros s1 t1 H1. apply place_rel. exact H1.
Qed.

Lemma move_one_of_rel c s t a cells sl he out :
  sim s t -> rel (move_agent_to_one_of c s a cells sl he out) (move_agent_to_one_of c t a cells sl he out).
Proof.
  intros H. unfold move_agent_to_one_of. destruct cells as [|c0 ct].
  - destruct he; apply rel_same; exact H.
  - destruct sl.
    + destruct (memb coord_eqb out (c0 :: ct)); [apply move_rel; exact H|apply rel_same; exact H].
    + destruct H as (Hg & Hp & Hm). rewrite (Hp a).
      assert (sim s t) as H by (repeat split; assumption).
      destruct (pos t a) as [cur|]; [|apply rel_same; exact H].
      match goal with |- rel (if ?L then _ else _) _ => destruct L end; [apply move_rel; exact H|apply rel_same; exact H].
    + apply rel_same; exact H.
Qed.

Lemma view_empties_sim c s t : Agree c s -> Agree c t -> sim s t -> view_empties c s = view_empties c t.
Proof.
  intros Ha Hb (Hg & _). rewrite (view_empties_exact c s Ha), (view_empties_exact c t Hb).
  apply filter_ext. intros p. unfold is_cell_empty. rewrite (Hg p). reflexivity.
Qed.

Lemma view_mask_sim c s t : sim s t -> view_mask c s = view_mask c t.
Proof. intros (_ & _ & Hm). unfold view_mask. apply map_ext. exact Hm. Qed.

Lemma existsb_ext_pt {A} (f g : A -> bool) l : (forall x, f x = g x) -> existsb f l = existsb g l.
Proof. intros H. induction l as [|x u IH]; cbn [existsb]; [reflexivity|]. rewrite H, IH. reflexivity. Qed.

Lemma view_exists_sim c s t : Agree c s -> Agree c t -> sim s t -> view_exists c s = view_exists c t.
Proof.
  intros Ha Hb (Hg & _). rewrite (view_exists_exact c s Ha), (view_exists_exact c t Hb).
  apply existsb_ext_pt. intros p. unfold is_cell_empty. rewrite (Hg p). reflexivity.
Qed.

Lemma obs_state_sim c n s t : Agree c s -> Agree c t -> sim s t -> obs_state c n s = obs_state c n t.
Proof.
  intros Ha Hb H. unfold obs_state.
  rewrite (view_empties_sim c s t Ha Hb H), (view_mask_sim c s t H).
  destruct H as (Hg & Hp & _).
  f_equal; [apply map_ext; intros a; unfold obs_pos; rewrite (Hp a); reflexivity|].
  f_equal. f_equal. apply flat_map_ext. intros p. rewrite (Hg p). reflexivity.
Qed.

Lemma view_list_sim c s t l : sim s t -> view_list c s l = view_list c t l.
Proof.
  intros (Hg & _). induction l as [|p u IH]; cbn [view_list]; [reflexivity|].
  destruct (torus_adj c p) as [p'|]; [|reflexivity]. rewrite IH, (Hg p'). reflexivity.
Qed.

Lemma view_form_sim c s t f : sim s t -> view_form c s f = view_form c t f.
Proof.
  intros H. pose proof H as (Hg & _). destruct f; cbn [view_form].
  - unfold view_col. destruct ((- c_w c <=? x) && (x <? c_w c)); [|reflexivity].
    f_equal. f_equal. apply map_ext. intros y. apply Hg.
  - destruct l; [reflexivity|]. rewrite (view_list_sim c s t _ H). reflexivity.
  - unfold view_slice_y. destruct (torus_adj c (x, 0)); [|reflexivity]. f_equal. f_equal. apply map_ext. intros y. apply Hg.
  - unfold view_slice_x. destruct (torus_adj c (0, y)); [|reflexivity]. f_equal. f_equal. apply map_ext. intros x. apply Hg.
  - unfold view_slice_xy. f_equal. f_equal. apply flat_map_ext. intros x. apply map_ext. intros y. apply Hg.
  - unfold view_cell_list.
    assert (flat_map (grid s) l = flat_map (grid t) l) as -> by (apply flat_map_ext; exact Hg). reflexivity.
  - reflexivity.
  - reflexivity.
Qed.

(* every operation: related states give the same result and related states *)
Lemma step_rel c s t o :
  Agree c s -> Agree c t -> sim s t -> rel (step c s o) (step c t o).
Proof.
  intros Ha Hb H. pose proof H as (Hg & Hp & Hm).
  assert (forall a, placed s a = placed t a) as Hpl by (intros a; unfold placed; rewrite (Hp a); reflexivity).
  destruct o; cbn [step]; try rewrite (Hpl a).
  - destruct (placed t a || out_of_bounds c p); [apply rel_same; exact H|apply place_rel; exact H].
  - destruct (placed t a); [apply remove_rel; exact H|apply rel_same; exact H].
  - destruct (placed t a); [apply move_rel; exact H|apply rel_same; exact H].
  - apply swap_rel; exact H.
  - destruct (placed t a); [apply move_to_empty_rel; assumption|apply rel_same; exact H].
  - destruct (placed t a); [apply move_one_of_rel; exact H|apply rel_same; exact H].
  - assert (sim (build_empties c s) (build_empties c t)) as H0.
    { apply (sim_trans _ s); [apply sim_sym, sim_build|]. apply (sim_trans _ t); [exact H|apply sim_build]. }
    split; [|exact H0]. cbn [snd]. f_equal. f_equal.
    apply view_empties_sim; [apply build_empties_agree; exact Ha|apply build_empties_agree; exact Hb|exact H0].
  - split; [|exact H]. cbn [snd]. rewrite (view_mask_sim c s t H). reflexivity.
  - destruct (out_of_bounds c p); [apply rel_same; exact H|].
    split; [|exact H]. cbn [snd]. unfold is_cell_empty. rewrite (Hg p). reflexivity.
  - split; cbn [fst snd].
    + rewrite (view_exists_sim c s t Ha Hb H). reflexivity.
    + apply (sim_trans _ s); [apply sim_sym, sim_build|]. apply (sim_trans _ t); [exact H|apply sim_build].
  - unfold view_index. destruct (torus_adj c p) as [p'|]; [|apply rel_same; exact H].
    rewrite (Hg p'). apply rel_same. exact H.
  - split; [|exact H]. cbn [snd]. unfold view_iter. f_equal. f_equal. apply map_ext. exact Hg.
  - split; [|exact H]. cbn [snd]. unfold view_coord_iter. f_equal. rewrite !flat_map_concat_map, !map_map.
    f_equal. apply map_ext. intros p. cbn [fst snd]. rewrite (Hg p). reflexivity.
  - split; [|exact H]. cbn [snd]. unfold view_agents.
    assert (flat_map (grid s) (all_cells c) = flat_map (grid t) (all_cells c)) as -> by (apply flat_map_ext; exact Hg).
    reflexivity.
  - split; [|exact H]. cbn [snd]. apply view_form_sim. exact H.
  - apply rel_same. exact H.
Qed.

(* obs_determines: related states produce the same observation stream for every continuation *)
Lemma run_obs_sim c n ops : wf c -> forall s t,
  Agree c s -> Agree c t -> sim s t -> run_obs c n s ops = run_obs c n t ops.
Proof.
  intros Hwf. induction ops as [|o u IH]; intros s t Ha Hb H; cbn [run_obs]; [reflexivity|].
  pose proof (step_rel c s t o Ha Hb H) as [Hr Hs].
  destruct (step c s o) as [s' r] eqn:E1. destruct (step c t o) as [t' r'] eqn:E2. cbn [fst snd] in *. subst r'.
  destruct (step_sound c s o s' r Hwf Ha E1) as [Ha' _]. destruct (step_sound c t o t' r Hwf Hb E2) as [Hb' _].
  rewrite (obs_state_sim c n s' t' Ha' Hb' Hs). f_equal. apply IH; assumption.
Qed.

(* C18_continue for the legacy grids: after a call that raised, every continuation of the
   history is observed exactly as if the call had not been made *)
Lemma C18_legacygrid_atomic_continue c n s o s' e rest :
  wf c -> Agree c s -> step c s o = (s', Err e) -> run_obs c n s' rest = run_obs c n s rest.
Proof.
  intros Hwf Ha Hst. destruct (step_sound c s o s' (Err e) Hwf Ha Hst) as [Ha' H].
  destruct (H I) as [->| ->]; [reflexivity|].
  apply run_obs_sim; [exact Hwf|exact Ha'|exact Ha|apply sim_sym, sim_build].
Qed.

(* reading empties (which switches the lazy set on) at an arbitrary point never changes what any
   later call returns or shows: the "whether or not empties was ever read before" clause *)
Lemma empties_read_is_transparent c n s rest :
  wf c -> Agree c s -> run_obs c n (build_empties c s) rest = run_obs c n s rest.
Proof.
  intros Hwf Ha. apply run_obs_sim; [exact Hwf|apply build_empties_agree; exact Ha|exact Ha|apply sim_sym, sim_build].
Qed.

Lemma empties_read_transparent_history c n ops rest :
  wf c -> let s := run c init ops in
  run_obs c n (fst (step c s ReadEmpties)) rest = run_obs c n s rest /\
  run_obs c n (fst (step c s ExistsEmpty)) rest = run_obs c n s rest.
Proof.
  intros Hwf s. cbn [step fst].
  split; exact (empties_read_is_transparent c n s rest Hwf (agree_history c ops Hwf)).
Qed.

Lemma toroidal_distance_least n d :
  0 < n -> (forall k, axis_dist true n d <= Z.abs (d + k * n)) /\
           (exists k, axis_dist true n d = Z.abs (d + k * n)).
Proof. intros Hn. split; [intros k; exact (axis_dist_least n d k Hn)|exact (axis_dist_attained n d Hn)]. Qed.

(* ------------------------------------------------------------------ the same for the grid with its layers *)
Lemma lstep_rel c k s t L o :
  Agree c s -> Agree c t -> sim s t ->
  snd (lstep c k (s, L) o) = snd (lstep c k (t, L) o) /\
  sim (fst (fst (lstep c k (s, L) o))) (fst (fst (lstep c k (t, L) o))) /\
  snd (fst (lstep c k (s, L) o)) = snd (fst (lstep c k (t, L) o)).
Proof.
  intros Ha Hb H. destruct (is_layer_op o) eqn:El.
  - destruct o; try discriminate. destruct l; cbn [lstep];
      match goal with |- context [if ?b then _ else _] => destruct b end; cbn [fst snd];
      (split; [reflexivity|split; [exact H|reflexivity]]).
  - rewrite !(lstep_grid_op c k _ L o El). cbn [fst snd].
    pose proof (step_rel c s t o Ha Hb H) as [Hr Hs]. split; [exact Hr|]. split; [exact Hs|reflexivity].
Qed.

Lemma lrun_obs_sim c n k ops : wf c -> forall s t L,
  Agree c s -> Agree c t -> sim s t -> lrun_obs c n k (s, L) ops = lrun_obs c n k (t, L) ops.
Proof.
  intros Hwf. induction ops as [|o u IH]; intros s t L Ha Hb H; cbn [lrun_obs]; [reflexivity|].
  pose proof (lstep_rel c k s t L o Ha Hb H) as (Hr & Hs & HL).
  pose proof (lstep_grid c k s L o) as Gs. pose proof (lstep_grid c k t L o) as Gt.
  destruct (lstep c k (s, L) o) as [[s' L1] r] eqn:E1. destruct (lstep c k (t, L) o) as [[t' L2] r'] eqn:E2.
  cbn [fst snd] in *. subst r' L2.
  assert (Ha' : Agree c s') by (rewrite Gs; apply step_agree; assumption).
  assert (Hb' : Agree c t') by (rewrite Gt; apply step_agree; assumption).
  rewrite (obs_state_sim c n s' t' Ha' Hb' Hs). f_equal. apply IH; assumption.
Qed.

(* C18 "continue" and the transparency of reading empties, for the stream run_case produces *)
Lemma C18_legacygrid_atomic_continue_layered c n k s L o s' e rest :
  wf c -> Agree c s -> step c s o = (s', Err e) ->
  lrun_obs c n k (s', L) rest = lrun_obs c n k (s, L) rest.
Proof.
  intros Hwf Ha Hst. destruct (step_sound c s o s' (Err e) Hwf Ha Hst) as [Ha' H].
  destruct (H I) as [->| ->]; [reflexivity|].
  apply lrun_obs_sim; [exact Hwf|exact Ha'|exact Ha|apply sim_sym, sim_build].
Qed.

Lemma empties_read_transparent_layered c n k ops rest :
  wf c -> let sl := lrun c k (init, linit) ops in
  lrun_obs c n k (fst (lstep c k sl ReadEmpties)) rest = lrun_obs c n k sl rest /\
  lrun_obs c n k (fst (lstep c k sl ExistsEmpty)) rest = lrun_obs c n k sl rest.
Proof.
  intros Hwf sl. pose proof (agree_layered_history c k ops Hwf) as Ha. fold sl in Ha.
  destruct sl as [s L]. cbn [fst] in Ha. cbn [lstep step fst snd].
  split; (apply lrun_obs_sim; [exact Hwf|apply build_empties_agree; exact Ha|exact Ha|apply sim_sym, sim_build]).
Qed.
