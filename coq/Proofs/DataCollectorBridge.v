(* Bridge between the code-level T1 translation of mesa/datacollection.py (Generated.Tables: gen_add_row_reject,
   gen_add_row_cells, gen_type_choice, gen_dispatch, gen_collect_skeleton_ok - regenerated from the working tree by
   harness/tables/datacollect_batch_code.py on every run) and the hand-written model Model/DataCollector.v.
   The proofs case-split both sides, so harmless rewrites of the conditions keep checking. *)
From Coq Require Import ZArith List Bool Lia ZifyBool.
From Mesa Require Import Common.ListX Generated.Tables Model.DataCollector Proofs.DataCollectorProofs.
Import ListNotations.
Open Scope Z_scope.

Lemma existsb_ext' {A : Type} (f g : A -> bool) l : (forall a, f a = g a) -> existsb f l = existsb g l.
Proof. intros H. induction l as [|a l IH]; simpl; [reflexivity|]. rewrite H, IH. reflexivity. Qed.

(* ---- dict membership / lookup of the translation = those of the model ---- *)
Lemma amem_t_memk {V : Type} k (l : list (Z * V)) : amem k l = t_memk k l.
Proof.
  unfold amem, t_memk. induction l as [|[k' v] t IH]; simpl; [reflexivity|].
  rewrite (Z.eqb_sym k' k). destruct (k =? k'); [reflexivity|exact IH].
Qed.

Lemma row_cell_mem r c : t_memk c r = true -> row_cell r c = t_get c r None.
Proof.
  unfold row_cell, t_memk, t_get. induction r as [|[k v] t IH]; simpl; [discriminate|].
  rewrite (Z.eqb_sym k c). destruct (c =? k); simpl; [reflexivity|exact IH].
Qed.
Lemma row_cell_notmem r c : t_memk c r = false -> row_cell r c = None.
Proof.
  unfold row_cell, t_memk. induction r as [|[k v] t IH]; simpl; [reflexivity|].
  rewrite (Z.eqb_sym k c). destruct (c =? k); simpl; [discriminate|exact IH].
Qed.

(* ---- add_table_row ---- *)
Lemma cells_bridge cols r : map (row_cell r) cols = gen_add_row_cells cols r.
Proof.
  unfold gen_add_row_cells. apply map_ext. intros c. cbv beta.
  destruct (@t_memk (option Z) c r) eqn:E; cbn [negb];
    [rewrite (row_cell_mem r c E)|rewrite (row_cell_notmem r c E)]; reflexivity.
Qed.

Lemma reject_bridge ign (cols : list (Z * list cellv)) r :
  negb ign && existsb (fun c => negb (amem (fst c) r)) cols = gen_add_row_reject ign (map fst cols) r.
Proof.
  assert (existsb (fun c : Z * list cellv => negb (amem (fst c) r)) cols
          = existsb (fun c => negb (@t_memk (option Z) c r)) (map fst cols)) as ->.
  { induction cols as [|c t IH]; simpl; [reflexivity|]. rewrite amem_t_memk, IH. reflexivity. }
  unfold gen_add_row_reject.
  repeat match goal with
         | |- context [existsb ?f (map fst cols)] =>
             lazymatch f with
             | (fun c => negb (@t_memk (option Z) c r)) => fail
             | _ => rewrite (existsb_ext' f (fun c => negb (@t_memk (option Z) c r)))
                 by (intros c; destruct (@t_memk (option Z) c r); reflexivity)
             end
         end.
  destruct ign; destruct (existsb (fun c => negb (@t_memk (option Z) c r)) (map fst cols)); reflexivity.
Qed.

(* add_table_row written with the translated pieces only *)
Definition gen_add_row (d : dc) (t : Z) (r : list (Z * cellv)) (ign : bool) : dc * result unit :=
  match aget t (d_tables d) with
  | None => (d, Err E_EXC)
  | Some cols =>
      if gen_add_row_reject ign (map fst cols) r then (d, Err E_EXC)
      else (with_tables d (aset t (map (fun cv => (fst (fst cv), snd (fst cv) ++ [snd cv]))
                                       (combine cols (gen_add_row_cells (map fst cols) r))) (d_tables d)), Ok tt)
  end.

Lemma append_cells r (cols : list (Z * list cellv)) :
  map (fun c => (fst c, snd c ++ [row_cell r (fst c)])) cols
  = map (fun cv => (fst (fst cv), snd (fst cv) ++ [snd cv])) (combine cols (map (row_cell r) (map fst cols))).
Proof. induction cols as [|c t IH]; simpl; [reflexivity|]. rewrite IH. reflexivity. Qed.

Lemma add_row_bridge d t r ign : add_row d t r ign = gen_add_row d t r ign.
Proof.
  unfold add_row, gen_add_row. destruct (aget t (d_tables d)) as [cols|]; [|reflexivity].
  rewrite reject_bridge. rewrite append_cells, cells_bridge. reflexivity.
Qed.

(* the C18 statement about the translated code *)
Lemma gen_add_row_atomic d t r ign d' e : gen_add_row d t r ign = (d', Err e) -> d' = d.
Proof. rewrite <- add_row_bridge. apply add_row_atomic. Qed.

(* an accepted row extends every column of its table by exactly one cell, computed by the translated code *)
Lemma gen_add_row_aligned d t r ign d' cols :
  gen_add_row d t r ign = (d', Ok tt) -> aget t (d_tables d) = Some cols ->
  exists cols', aget t (d_tables d') = Some cols' /\ map fst cols' = map fst cols /\
                map (fun c => length (snd c)) cols' = map (fun c => S (length (snd c))) cols.
Proof.
  rewrite <- add_row_bridge. unfold add_row. intros H Ht. rewrite Ht in H.
  destruct (negb ign && existsb (fun c => negb (amem (fst c) r)) cols); [discriminate|].
  inversion H. subst. simpl. rewrite aget_aset_same. eexists. split; [reflexivity|].
  split; rewrite map_map; simpl; [reflexivity|].
  apply map_ext. intros c. rewrite app_length. simpl. lia.
Qed.

(* ---- _record_agenttype: which agents ---- *)
Lemma type_agents_bridge w t in_types :
  let direct := filter (fun a => a_cls a =? t) (w_agents w) in
  (negb (is_nil direct) = true -> in_types = true) ->
  type_agents w t =
  (if gen_type_choice in_types (negb (is_nil direct)) (is_agent_class t) =? 0 then Ok direct
   else if gen_type_choice in_types (negb (is_nil direct)) (is_agent_class t) =? 1
        then Ok (filter (fun a => is_sub (a_cls a) t) (w_agents w))
        else Err E_VALUE).
Proof.
  intros direct Hin. unfold type_agents. fold direct. unfold gen_type_choice.
  destruct direct as [|x rest] eqn:Ed; simpl in Hin |- *.
  - destruct in_types; destruct (is_agent_class t); reflexivity.
  - rewrite (Hin eq_refl). destruct (is_agent_class t); reflexivity.
Qed.

(* ---- collect: the dispatch chain over the reporter's Python type ---- *)
Definition rep_is_fun (r : mrep) : bool := match r with MRFun _ _ => true | _ => false end.   (* LambdaType | partial *)
Definition rep_is_str (r : mrep) : bool := match r with MRAttr _ => true | _ => false end.
Definition rep_is_list (r : mrep) : bool := match r with MRArgs _ _ => true | _ => false end.
(* what the model evaluates for each form, numbered as in gen_dispatch *)
Definition eval_by_code (w : world) (code : Z) (r : mrep) : result snap :=
  match r with
  | MRFun _ f => if code =? 1 then eval_mfun w f else Err 99
  | MRAttr n => if code =? 2 then Ok (match aget n (w_attrs w) with Some v => read w v | None => SNone end) else Err 99
  | MRArgs g args => if code =? 3 then Ok (eval_gfun g args) else Err 99
  | MRMethod f => if code =? 4 then eval_mfun w f else Err 99
  end.

Lemma dispatch_bridge w r :
  eval_mrep w r = eval_by_code w (gen_dispatch (rep_is_fun r) (rep_is_str r) (rep_is_list r)) r.
Proof. destruct r; reflexivity. Qed.
