(* Lemmas about Model/PropLayer.v: the table invariant (grid dict = descriptors = _mesa_properties,
   every attached layer exists with the grid's shape), the two views agree, writes and bulk
   operations are read back pointwise, rejected calls change nothing, select_cells is exact,
   the emptiness layer / mask equals actual emptiness. *)
From Coq Require Import ZArith List Bool Lia.
From Mesa Require Import Common.ListX Generated.Tables Model.PropLayer.
Import ListNotations.
Open Scope Z_scope.

Ltac case_all :=
  repeat match goal with
         | |- context [match ?x with _ => _ end] => destruct x eqn:?; simpl
         | |- context [if ?x then _ else _] => destruct x eqn:?; simpl
         end.

(* ---------- coordinates ---------- *)
Lemma coord_eqb_eq a b : coord_eqb a b = true <-> a = b.
Proof.
  revert b. induction a as [|x a IH]; intros [|y b]; simpl; try (split; congruence).
  rewrite andb_true_iff, Z.eqb_eq, IH. split; [intros [-> ->]; reflexivity|].
  intros H; inversion H; auto.
Qed.
Lemma coord_eqb_refl a : coord_eqb a a = true.
Proof. apply coord_eqb_eq. reflexivity. Qed.

Lemma valid_norm dims c : valid_coord dims c = true -> norm_coord dims c = Some c.
Proof.
  revert c. induction dims as [|d t IH]; intros [|x c]; simpl; try discriminate; [reflexivity|].
  rewrite !andb_true_iff. intros [[H1 H2] H3]. unfold norm_ix.
  rewrite H1, H2. simpl. rewrite (IH c H3). reflexivity.
Qed.

Lemma valid_in_all_coords dims c : valid_coord dims c = true <-> In c (all_coords dims).
Proof.
  revert c. induction dims as [|d t IH]; intros c; simpl.
  - destruct c; split; try discriminate; auto. intros [H|[]]; discriminate.
  - rewrite in_flat_map. split.
    + destruct c as [|x c]; [discriminate|]. rewrite !andb_true_iff. intros [[H1 H2] H3].
      exists x. split; [apply zrange_In; lia|]. apply in_map. apply IH. exact H3.
    + intros [x [Hx Hc]]. apply zrange_In in Hx. apply in_map_iff in Hc.
      destruct Hc as [c' [<- Hc']]. apply IH in Hc'. rewrite Hc'.
      rewrite !andb_true_iff. repeat split; lia.
Qed.

Lemma norm_valid dims c c' : norm_coord dims c = Some c' -> valid_coord dims c' = true.
Proof.
  revert c c'. induction dims as [|d t IH]; intros [|x c] c'; simpl; try discriminate.
  - intros [= <-]. reflexivity.
  - destruct (norm_ix d x) as [x'|] eqn:Ex; [|discriminate].
    destruct (norm_coord t c) as [r|] eqn:Er; [|discriminate].
    intros [= <-]. simpl. rewrite (IH _ _ Er). unfold norm_ix in Ex.
    destruct ((0 <=? x) && (x <? d)) eqn:E1.
    + inversion Ex; subst. rewrite E1. reflexivity.
    + destruct ((- d <=? x) && (x <? 0)) eqn:E2; [|discriminate]. inversion Ex; subst.
      rewrite andb_true_iff in E2. rewrite !andb_true_iff. repeat split; lia.
Qed.

(* ---------- arrays ---------- *)
Lemma akeys_full dims v : akeys (full dims v) = all_coords dims.
Proof. unfold akeys, full. rewrite map_map. simpl. apply map_id. Qed.
Lemma akeys_aset a c v : akeys (aset a c v) = akeys a.
Proof.
  unfold akeys, aset. rewrite map_map. apply map_ext. intros [k x]. simpl.
  destruct (coord_eqb k c); reflexivity.
Qed.
Lemma akeys_pointwise (g : coord * Z -> Z) a :
  akeys (map (fun kx => (fst kx, g kx)) a) = akeys a.
Proof. unfold akeys. rewrite map_map. reflexivity. Qed.
Lemma akeys_cond_map (P : Z -> bool) (g : Z -> Z) a :
  akeys (map (fun kx : coord * Z => if P (snd kx) then (fst kx, g (snd kx)) else kx) a) = akeys a.
Proof.
  unfold akeys. rewrite map_map. apply map_ext. intros [k x]. simpl. destruct (P x); reflexivity.
Qed.
Lemma akeys_afill a vals : length vals = length a -> akeys (afill a vals) = akeys a.
Proof.
  unfold akeys, afill. revert vals. induction a as [|[k x] a IH]; intros [|v vals] H; simpl in *;
    try discriminate; [reflexivity|]. f_equal. apply IH. lia.
Qed.

Lemma aget_in_keys a c : In c (akeys a) -> exists x, aget a c = Some x.
Proof.
  induction a as [|[k x] a IH]; simpl; [intros []|].
  intros [->|H].
  - rewrite coord_eqb_refl. eauto.
  - destruct (coord_eqb k c); eauto.
Qed.

Lemma aget_aset a c v c' :
  aget (aset a c v) c' =
  if coord_eqb c c' then match aget a c' with Some _ => Some v | None => None end else aget a c'.
Proof.
  induction a as [|[k x] a IH]; simpl.
  - destruct (coord_eqb c c'); reflexivity.
  - destruct (coord_eqb k c) eqn:Ekc; simpl.
    + apply coord_eqb_eq in Ekc. subst k.
      destruct (coord_eqb c c') eqn:Ecc; [reflexivity|]. exact IH.
    + destruct (coord_eqb k c') eqn:Ekc'.
      * apply coord_eqb_eq in Ekc'. subst k.
        destruct (coord_eqb c c') eqn:Ecc; [|reflexivity].
        apply coord_eqb_eq in Ecc. subst c'. rewrite coord_eqb_refl in Ekc. discriminate.
      * exact IH.
Qed.

Lemma aget_cond_map (P : Z -> bool) (g : Z -> Z) a c :
  aget (map (fun kx : coord * Z => if P (snd kx) then (fst kx, g (snd kx)) else kx) a) c =
  option_map (fun x => if P x then g x else x) (aget a c).
Proof.
  induction a as [|[k x] a IH]; simpl; [reflexivity|].
  destruct (P x) eqn:EP; simpl; destruct (coord_eqb k c); simpl; rewrite ?EP; auto.
Qed.
Lemma aget_amap f a c : aget (amap f a) c = option_map f (aget a c).
Proof.
  unfold amap. induction a as [|[k x] a IH]; simpl; [reflexivity|].
  destruct (coord_eqb k c); simpl; auto.
Qed.

(* ---------- association lists ---------- *)
Lemma assoc_app k l l' :
  assoc k (l ++ l') = match assoc k l with Some v => Some v | None => assoc k l' end.
Proof.
  induction l as [|[k' v] l IH]; simpl; [reflexivity|]. destruct (k =? k'); auto.
Qed.
Lemma assoc_del_same k l : assoc k (assoc_del k l) = None.
Proof.
  unfold assoc_del. induction l as [|[k' v] l IH]; simpl; [reflexivity|].
  destruct (k =? k') eqn:E; simpl; [exact IH|]. rewrite E. exact IH.
Qed.
Lemma assoc_del_other k k' l : k' <> k -> assoc k' (assoc_del k l) = assoc k' l.
Proof.
  intros Hn. unfold assoc_del. induction l as [|[k2 v] l IH]; simpl; [reflexivity|].
  destruct (k =? k2) eqn:E; simpl.
  - apply Z.eqb_eq in E. subst k2. destruct (k' =? k) eqn:E2; [apply Z.eqb_eq in E2; contradiction|exact IH].
  - destruct (k' =? k2); [reflexivity|exact IH].
Qed.
Lemma assoc_in_keys k l : zmem k (map fst l) = true <-> assoc k l <> None.
Proof.
  unfold zmem. induction l as [|[k' v] l IH]; simpl; [split; [discriminate|congruence]|].
  destruct (k =? k'); simpl; [split; [discriminate|reflexivity]|exact IH].
Qed.
Lemma map_fst_assoc_del k l : map fst (assoc_del k l) = zdel k (map fst l).
Proof.
  unfold assoc_del, zdel. induction l as [|[k' v] l IH]; simpl; [reflexivity|].
  destruct (k =? k'); simpl; [exact IH|f_equal; exact IH].
Qed.

(* ---------- the heap ---------- *)
Lemma nth_error_upd_same {A} (l : list A) n v x :
  nth_error l n = Some x -> nth_error (upd_nth l n v) n = Some v.
Proof.
  revert n. induction l as [|y l IH]; intros [|n]; simpl; try discriminate; [reflexivity|]. apply IH.
Qed.
Lemma nth_error_upd_other {A} (l : list A) n m v :
  n <> m -> nth_error (upd_nth l n v) m = nth_error l m.
Proof.
  revert n m. induction l as [|y l IH]; intros [|n] [|m] H; simpl; try reflexivity; try contradiction.
  apply IH. congruence.
Qed.
Lemma length_upd_nth {A} (l : list A) n v : length (upd_nth l n v) = length l.
Proof. revert n. induction l as [|y l IH]; intros [|n]; simpl; auto. Qed.

Definition with_data (L : layer) (d : arr) : layer :=
  {| l_name := l_name L; l_dt := l_dt L; l_dims := l_dims L; l_data := d |}.

Lemma get_obj_nonneg st id L : get_obj st id = Some L -> 0 <= id.
Proof. unfold get_obj. destruct (id <? 0) eqn:E; [discriminate|]. lia. Qed.

Lemma get_obj_set_data st id L d id' :
  get_obj st id = Some L ->
  get_obj (set_data st id L d) id' = if id' =? id then Some (with_data L d) else get_obj st id'.
Proof.
  intros H. pose proof (get_obj_nonneg _ _ _ H) as Hn. unfold get_obj in *. simpl.
  destruct (id <? 0) eqn:E0; [discriminate|].
  destruct (id' <? 0) eqn:E1.
  - destruct (id' =? id) eqn:E2; [lia|reflexivity].
  - destruct (id' =? id) eqn:E2.
    + apply Z.eqb_eq in E2. subst id'. eapply nth_error_upd_same. exact H.
    + apply nth_error_upd_other. lia.
Qed.

Lemma get_obj_app st objs' id L :
  get_obj st id = Some L -> get_obj (set_objs st (s_objs st ++ objs')) id = Some L.
Proof.
  unfold get_obj. simpl. destruct (id <? 0); [discriminate|]. intros H.
  rewrite nth_error_app1; [exact H|]. apply nth_error_Some. congruence.
Qed.
Lemma get_obj_new st L : get_obj (set_objs st (s_objs st ++ [L])) (Z.of_nat (length (s_objs st))) = Some L.
Proof.
  unfold get_obj. simpl. destruct (Z.of_nat (length (s_objs st)) <? 0) eqn:E; [apply Z.ltb_lt in E; lia|].
  rewrite Nat2Z.id. rewrite nth_error_app2 by lia. rewrite Nat.sub_diag. reflexivity.
Qed.
Lemma get_obj_app_inv st L0 id L :
  get_obj (set_objs st (s_objs st ++ [L0])) id = Some L ->
  get_obj st id = Some L \/ (id = Z.of_nat (length (s_objs st)) /\ L = L0).
Proof.
  unfold get_obj. simpl. destruct (id <? 0) eqn:E; [discriminate|]. apply Z.ltb_ge in E. intros H.
  destruct (Nat.lt_ge_cases (Z.to_nat id) (length (s_objs st))) as [Hlt|Hge].
  - rewrite nth_error_app1 in H by exact Hlt. left. exact H.
  - rewrite nth_error_app2 in H by exact Hge.
    destruct (Z.to_nat id - length (s_objs st))%nat as [|k] eqn:Ek; simpl in H.
    + right. split; [lia|congruence].
    + destruct k; discriminate.
Qed.

(* ---------- the invariant ---------- *)
Record inv (st : state) : Prop := {
  inv_descr : s_discrete st = true -> s_descr st = s_grid st;
  inv_props : s_discrete st = true -> s_props st = map fst (s_grid st);
  inv_attached : forall n id, assoc n (s_grid st) = Some id ->
                   exists L, get_obj st id = Some L /\ l_dims L = s_dims st;
  inv_keys : forall id L, get_obj st id = Some L -> akeys (l_data L) = all_coords (l_dims L)
}.

Lemma inv_init d multi cap dims : inv (init d multi cap dims).
Proof.
  destruct d; constructor; simpl; try reflexivity; try discriminate.
  - intros n id. destruct (n =? EMPTY); [|discriminate]. intros [= <-].
    eexists. split; reflexivity.
  - intros id L. unfold get_obj. simpl. destruct (id <? 0); [discriminate|].
    destruct (Z.to_nat id) as [|[|k]]; simpl; try discriminate. intros [= <-]. apply akeys_full.
  - intros id L. unfold get_obj. simpl. destruct (id <? 0); [discriminate|].
    destruct (Z.to_nat id); discriminate.
Qed.

(* replacing the array of one object by one with the same keys *)
Lemma inv_set_data st id L d :
  inv st -> get_obj st id = Some L -> akeys d = akeys (l_data L) -> inv (set_data st id L d).
Proof.
  intros [I1 I2 I3 I4] HL Hk. constructor; simpl; auto.
  - intros n id' Hn. destruct (I3 _ _ Hn) as [L' [H1 H2]].
    rewrite (get_obj_set_data st id L d id' HL).
    destruct (id' =? id) eqn:E.
    + apply Z.eqb_eq in E. subst id'. rewrite HL in H1. inversion H1; subst L'.
      eexists. split; [reflexivity|exact H2].
    + eauto.
  - intros id' L'. rewrite (get_obj_set_data st id L d id' HL).
    destruct (id' =? id); [|apply I4].
    intros [= <-]. simpl. rewrite Hk. apply (I4 _ _ HL).
Qed.

Lemma inv_cell_setattr st c n v : inv st -> inv (cell_setattr st c n v).
Proof.
  intros I. unfold cell_setattr.
  destruct (assoc n (s_descr st)) as [id|]; [|exact I].
  destruct (get_obj st id) as [L|] eqn:EL; [|exact I].
  destruct (norm_coord (l_dims L) c) as [c'|]; [|exact I].
  apply inv_set_data; auto. apply akeys_aset.
Qed.

Lemma inv_set_agents st em ag : inv st -> inv (set_agents st em ag).
Proof. intros [I1 I2 I3 I4]. constructor; simpl; auto. Qed.

Lemma inv_new_obj st L :
  inv st -> akeys (l_data L) = all_coords (l_dims L) -> inv (set_objs st (s_objs st ++ [L])).
Proof.
  intros [I1 I2 I3 I4] HK. constructor; simpl; auto.
  - intros n id Hn. destruct (I3 _ _ Hn) as [L' [H1 H2]]. exists L'. split; [|exact H2].
    apply get_obj_app. exact H1.
  - intros id L' H. apply get_obj_app_inv in H. destruct H as [H|[_ ->]]; [eapply I4; eauto|exact HK].
Qed.

Lemma add_layer_inv st id L st' r :
  inv st ->
  add_layer st id L = (st', r) ->
  (r <> ROk [] -> st' = st) /\
  (r = ROk [] -> s_grid st' = s_grid st ++ [(l_name L, id)] /\ s_objs st' = s_objs st /\
                 dims_eqb (l_dims L) (s_dims st) = true /\ assoc (l_name L) (s_grid st) = None /\
                 s_dims st' = s_dims st /\ s_discrete st' = s_discrete st /\
                 (s_discrete st = true -> s_descr st' = s_descr st ++ [(l_name L, id)] /\
                                         s_props st' = s_props st ++ [l_name L]) /\
                 s_agents st' = s_agents st /\ s_emask st' = s_emask st).
Proof.
  intros I. unfold add_layer.
  destruct (s_discrete st) eqn:Ed.
  - destruct (dims_eqb (l_dims L) (s_dims st)) eqn:E1; simpl.
    2:{ intros [= <- <-]. split; [reflexivity|discriminate]. }
    destruct (assoc (l_name L) (s_grid st)) eqn:E2.
    { intros [= <- <-]. split; [reflexivity|discriminate]. }
    destruct (is_cell_attr (l_name L) || match assoc (l_name L) (s_descr st) with Some _ => true | None => false end) eqn:E3.
    { intros [= <- <-]. split; [reflexivity|discriminate]. }
    intros [= <- <-]. split; [congruence|]. intros _. simpl.
    assert (zmem (l_name L) (s_props st) = false) as Hm.
    { rewrite (inv_props _ I Ed). destruct (zmem (l_name L) (map fst (s_grid st))) eqn:Ez; [|reflexivity].
      apply assoc_in_keys in Ez. congruence. }
    rewrite Hm. repeat split; auto.
  - destruct (assoc (l_name L) (s_grid st)) eqn:E2.
    { intros [= <- <-]. split; [reflexivity|discriminate]. }
    destruct (dims_eqb (l_dims L) (s_dims st)) eqn:E1; simpl.
    2:{ intros [= <- <-]. split; [reflexivity|discriminate]. }
    intros [= <- <-]. split; [congruence|]. intros _. simpl. repeat split; auto; discriminate.
Qed.

Lemma inv_transfer st st' :
  inv st ->
  s_dims st' = s_dims st -> s_discrete st' = s_discrete st ->
  (forall x L, get_obj st' x = Some L ->
     get_obj st x = Some L \/ akeys (l_data L) = all_coords (l_dims L)) ->
  (s_discrete st = true -> s_descr st' = s_grid st' /\ s_props st' = map fst (s_grid st')) ->
  (forall n id, assoc n (s_grid st') = Some id ->
     exists L, get_obj st' id = Some L /\ l_dims L = s_dims st) ->
  inv st'.
Proof.
  intros [I1 I2 I3 I4] Hd Hdi Hobj Htab Hatt. constructor.
  - rewrite Hdi. intros H. apply (Htab H).
  - rewrite Hdi. intros H. apply (Htab H).
  - intros n id H. rewrite Hd. apply (Hatt _ _ H).
  - intros x L H. destruct (Hobj _ _ H) as [H'|H']; [eapply I4; eauto|exact H'].
Qed.

Lemma get_obj_same_objs st st' x : s_objs st' = s_objs st -> get_obj st' x = get_obj st x.
Proof. unfold get_obj. intros ->. reflexivity. Qed.

Lemma inv_add_ok st id L st' :
  inv st -> get_obj st id = Some L -> add_layer st id L = (st', ROk []) -> inv st'.
Proof.
  intros I HL HA. destruct (add_layer_inv _ _ _ _ _ I HA) as [_ H]. specialize (H eq_refl).
  destruct H as [Hg [Ho [Hdm [Hnone [Hd [Hdi [Htab [_ _]]]]]]]].
  apply (inv_transfer st st' I Hd Hdi).
  - intros x L' H. left. rewrite (get_obj_same_objs st st' x Ho) in H. exact H.
  - intros Hdisc. destruct (Htab Hdisc) as [T1 T2]. rewrite T1, T2, Hg.
    rewrite (inv_descr _ I Hdisc), (inv_props _ I Hdisc), map_app. auto.
  - intros n id'. rewrite Hg, assoc_app. destruct (assoc n (s_grid st)) as [i|] eqn:En.
    + intros [= <-]. destruct (inv_attached _ I _ _ En) as [L' [H1 H2]]. exists L'.
      rewrite (get_obj_same_objs st st' i Ho). auto.
    + simpl. destruct (n =? l_name L); [|discriminate]. intros [= <-]. exists L.
      rewrite (get_obj_same_objs st st' id Ho). split; [exact HL|].
      apply coord_eqb_eq. exact Hdm.
Qed.

Lemma remove_layer_spec st n st' r :
  inv st -> remove_layer st n = (st', r) ->
  (assoc n (s_grid st) = None /\ st' = st /\ exists k, r = RErr k) \/
  (exists id, assoc n (s_grid st) = Some id /\ r = ROk [] /\
     st' = set_tables st (assoc_del n (s_grid st))
             (if s_discrete st then assoc_del n (s_descr st) else s_descr st)
             (if s_discrete st then zdel n (s_props st) else s_props st)).
Proof.
  intros I. unfold remove_layer. destruct (s_discrete st) eqn:Ed.
  - destruct (assoc n (s_grid st)) as [id|] eqn:En.
    + simpl. rewrite (inv_descr _ I Ed), En.
      assert (zmem n (s_props st) = true) as Hm.
      { rewrite (inv_props _ I Ed). apply assoc_in_keys. congruence. }
      rewrite Hm. intros [= <- <-]. right. exists id. auto.
    + intros [= <- <-]. left. eauto.
  - destruct (assoc n (s_grid st)) as [id|] eqn:En.
    + intros [= <- <-]. right. exists id. auto.
    + intros [= <- <-]. left. eauto.
Qed.

Lemma inv_remove st n : inv st -> inv (fst (remove_layer st n)).
Proof.
  intros I. destruct (remove_layer st n) as [st' r] eqn:ER.
  destruct (remove_layer_spec _ _ _ _ I ER) as [[_ [-> _]]|[id [En [_ ->]]]]; [exact I|].
  simpl. apply (inv_transfer st _ I); simpl; auto.
  - intros Hd. rewrite Hd. rewrite (inv_descr _ I Hd), (inv_props _ I Hd).
    split; [reflexivity|]. symmetry. apply map_fst_assoc_del.
  - intros n' id'. destruct (Z.eq_dec n' n) as [->|Hne].
    + rewrite assoc_del_same. discriminate.
    + rewrite (assoc_del_other n n' _ Hne). intros H.
      destruct (inv_attached _ I _ _ H) as [L [H1 H2]]. exists L. auto.
Qed.

Lemma inv_cell_remove st a c : inv st -> inv (cell_remove_agent st a c).
Proof. intros I. unfold cell_remove_agent. apply inv_cell_setattr. apply inv_set_agents. exact I. Qed.
Lemma inv_cell_add st a c : inv st -> inv (fst (cell_add_agent st a c)).
Proof.
  intros I. unfold cell_add_agent. destruct (cell_full st c); simpl.
  - apply inv_cell_setattr. exact I.
  - apply inv_set_agents. apply inv_cell_setattr. exact I.
Qed.
Lemma inv_leg_remove st a c : inv st -> inv (leg_remove st a c).
Proof. intros I. unfold leg_remove. apply inv_set_agents. exact I. Qed.
Lemma inv_leg_place st a c : inv st -> inv (leg_place st a c).
Proof. intros I. unfold leg_place. apply inv_set_agents. exact I. Qed.
Lemma inv_do_move st a c0 c : inv st -> inv (fst (do_move st a c0 c)).
Proof.
  intros I. unfold do_move. destruct (s_discrete st).
  - destruct (coord_eqb c c0); [exact I|].
    pose proof (inv_cell_add st a c I) as H. destruct (cell_add_agent st a c) as [st1 [|]]; simpl in *.
    + apply inv_cell_remove. exact H.
    + exact H.
  - destruct (negb (s_multi st) && occupied (drop_agent (s_agents st) a) c); simpl; [exact I|].
    apply inv_leg_place. apply inv_leg_remove. exact I.
Qed.

Lemma step_inv st o : inv st -> inv (fst (step st o)).
Proof.
  intros I. destruct o; simpl.
  - (* NewLayer *) apply inv_new_obj; [exact I|]. simpl. apply akeys_full.
  - (* Create *)
    destruct (s_discrete st) eqn:Ed; [|exact I].
    destruct (add_layer st (Z.of_nat (length (s_objs st))) (mk_layer n dt (s_dims st) v)) as [st1 r] eqn:EA.
    destruct (add_layer_inv _ _ _ _ _ I EA) as [Hne Heq].
    destruct r as [p|k|]; simpl; [|exact I|].
    + destruct p as [|z p].
      * specialize (Heq eq_refl).
        destruct Heq as [Hg [Ho [Hdm [Hnone [Hd [Hdi [Htab [_ _]]]]]]]].
        apply (inv_transfer st _ I); simpl; auto.
        -- intros x L H. apply get_obj_app_inv in H. destruct H as [H|[_ ->]].
           ++ left. rewrite (get_obj_same_objs st st1 x Ho) in H. exact H.
           ++ right. simpl. apply akeys_full.
        -- intros Hdisc. destruct (Htab Hdisc) as [T1 T2]. rewrite T1, T2, Hg.
           rewrite (inv_descr _ I Hdisc), (inv_props _ I Hdisc), map_app. auto.
        -- intros n' id'. rewrite Hg, assoc_app. destruct (assoc n' (s_grid st)) as [i|] eqn:En.
           ++ intros [= <-]. destruct (inv_attached _ I _ _ En) as [L' [H1 H2]]. exists L'.
              split; [|exact H2]. apply get_obj_app. rewrite (get_obj_same_objs st st1 i Ho). exact H1.
           ++ simpl. destruct (n' =? n); [|discriminate]. intros [= <-]. eexists.
              rewrite <- Ho. split; [apply get_obj_new|reflexivity].
      * assert (st1 = st) as -> by (apply Hne; discriminate).
        apply inv_new_obj; [exact I|]. simpl. apply akeys_full.
    + assert (st1 = st) as -> by (apply Hne; discriminate).
      apply inv_new_obj; [exact I|]. simpl. apply akeys_full.
  - (* AddLayer *)
    destruct (get_obj st h) as [L|] eqn:EL; [|exact I].
    destruct (add_layer st h L) as [st1 r] eqn:EA. simpl.
    destruct (add_layer_inv _ _ _ _ _ I EA) as [Hne Heq].
    destruct r as [[|z p]|k|]; try (assert (st1 = st) as -> by (apply Hne; discriminate); exact I).
    eapply inv_add_ok; eauto.
  - (* RemoveLayer *) apply inv_remove. exact I.
  - (* CellWrite *)
    destruct (s_discrete st && valid_coord (s_dims st) c); [|exact I].
    destruct (assoc n (s_descr st)); [|exact I]. simpl. apply inv_cell_setattr. exact I.
  - (* LayerWrite *)
    destruct (resolve st r) as [id|]; [|exact I].
    destruct (get_obj st id) as [L|] eqn:EL; [|exact I].
    destruct (norm_coord (l_dims L) c); [|exact I]. simpl.
    apply inv_set_data; auto. apply akeys_aset.
  - (* SetCells *)
    destruct (resolve st r) as [id|]; [|exact I].
    destruct (get_obj st id) as [L|] eqn:EL; [|exact I]. simpl.
    apply inv_set_data; auto. unfold amap. apply akeys_pointwise with (g := fun kx => if eval_ocond cd (snd kx) then v else snd kx).
  - (* SetArray *)
    destruct (resolve st r) as [id|]; [|exact I].
    destruct (get_obj st id) as [L|] eqn:EL; [|exact I].
    destruct (Nat.eqb (length vals) (length (l_data L))) eqn:El; [|exact I]. simpl.
    apply inv_set_data; auto. apply akeys_afill. apply Nat.eqb_eq. exact El.
  - (* ModifyCells *)
    destruct (resolve st r) as [id|]; [|exact I].
    destruct (get_obj st id) as [L|] eqn:EL; [|exact I].
    destruct (modify_cells L fm f hasval cd) as [d|] eqn:EM; [|exact I]. simpl.
    apply inv_set_data; auto.
    unfold modify_cells in EM.
    destruct fm, hasval; try discriminate; inversion EM; subst d;
      apply (akeys_cond_map (eval_ocond cd) (apply_fop f)).
  - (* ModifyCell *)
    destruct (s_discrete st); [exact I|].
    destruct (resolve st r) as [id|]; [|exact I].
    destruct (get_obj st id) as [L|] eqn:EL; [|exact I].
    destruct (norm_coord (l_dims L) c); [|exact I].
    destruct fm, hasval; simpl; try exact I; apply inv_set_data; auto; apply akeys_aset.
  - (* Select *)
    destruct (select_mask st conds exts masks only_empty); exact I.
  - (* Place *)
    destruct (valid_coord (s_dims st) c); [|exact I].
    destruct (agent_cell (s_agents st) a); [exact I|].
    destruct (s_discrete st).
    { pose proof (inv_cell_add st a c I) as H. destruct (cell_add_agent st a c) as [st1 [|]]; exact H. }
    destruct (s_multi st); [apply inv_leg_place; exact I|].
    destruct (occupied (s_agents st) c); [exact I|]. apply inv_leg_place. exact I.
  - (* Move *)
    destruct (valid_coord (s_dims st) c); [|exact I].
    destruct (agent_cell (s_agents st) a); [|exact I]. apply inv_do_move. exact I.
  - (* MoveRel *)
    destruct (s_discrete st) eqn:Ed; [|exact I].
    destruct (agent_cell (s_agents st) a) as [c0|]; [|exact I].
    destruct (move_target (s_dims st) c0 dir geom torus); [|exact I].
    apply inv_do_move. exact I.
  - (* Remove *)
    destruct (agent_cell (s_agents st) a); [|exact I].
    destruct (s_discrete st); [apply inv_cell_remove; exact I|]. apply inv_leg_remove. exact I.
  - exact I.
  - (* NbhdMask *) case_all; exact I.
  - (* Aggregate *) case_all; exact I.
  - exact I.
  - case_all; exact I.
Qed.

Lemma run_state_inv st ops : inv st -> inv (run_state st ops).
Proof.
  revert st. induction ops as [|o t IH]; intros st I; simpl; [exact I|].
  apply IH. apply step_inv. exact I.
Qed.

(* ---------- C11_one_value: the two views ---------- *)
Lemma one_value_inv st c n :
  inv st -> s_discrete st = true -> cell_read st c n = layer_read st n c.
Proof. intros I Hd. unfold cell_read, layer_read. rewrite (inv_descr _ I Hd). reflexivity. Qed.


Definition frame (st st' : state) : Prop :=
  s_discrete st' = s_discrete st /\ s_dims st' = s_dims st /\ s_multi st' = s_multi st /\ s_cap st' = s_cap st.
Ltac fr := unfold frame; repeat split; simpl; congruence.
Lemma frame_refl st : frame st st. Proof. fr. Qed.
Lemma frame_trans a b c : frame a b -> frame b c -> frame a c.
Proof. intros [H1 [H2 [H3 H4]]] [H5 [H6 [H7 H8]]]. fr. Qed.
Lemma frame_cell_setattr st c n v : frame st (cell_setattr st c n v).
Proof. unfold cell_setattr. case_all; fr. Qed.
Lemma frame_add st id L : frame st (fst (add_layer st id L)).
Proof. unfold add_layer. case_all; fr. Qed.
Lemma frame_remove st n : frame st (fst (remove_layer st n)).
Proof. unfold remove_layer. case_all; fr. Qed.
Lemma frame_set_agents st em ag : frame st (set_agents st em ag).
Proof. fr. Qed.
Lemma frame_cell_remove st a c : frame st (cell_remove_agent st a c).
Proof. unfold cell_remove_agent. eapply frame_trans; [apply frame_set_agents|apply frame_cell_setattr]. Qed.
Lemma frame_cell_add st a c : frame st (fst (cell_add_agent st a c)).
Proof.
  unfold cell_add_agent. destruct (cell_full st c); simpl.
  - apply frame_cell_setattr.
  - eapply frame_trans; [apply frame_cell_setattr|apply frame_set_agents].
Qed.
Lemma frame_do_move st a c0 c : frame st (fst (do_move st a c0 c)).
Proof.
  unfold do_move. destruct (s_discrete st).
  - destruct (coord_eqb c c0); [apply frame_refl|].
    pose proof (frame_cell_add st a c) as H. destruct (cell_add_agent st a c) as [st1 [|]]; simpl in *.
    + eapply frame_trans; [exact H|apply frame_cell_remove].
    + exact H.
  - destruct (negb (s_multi st) && occupied (drop_agent (s_agents st) a) c); simpl; [apply frame_refl|].
    unfold leg_place, leg_remove. eapply frame_trans; apply frame_set_agents.
Qed.

Lemma step_frame st o : frame st (fst (step st o)).
Proof.
  destruct o; simpl.
  - fr.
  - destruct (s_discrete st) eqn:Ed; [|apply frame_refl].
    pose proof (frame_add st (Z.of_nat (length (s_objs st))) (mk_layer n dt (s_dims st) v)) as H.
    destruct (add_layer st _ _) as [st1 r]. simpl in H.
    destruct r; simpl; try apply frame_refl; destruct H as [H1 [H2 [H3 H4]]]; fr.
  - destruct (get_obj st h); [apply frame_add|apply frame_refl].
  - apply frame_remove.
  - destruct (s_discrete st && valid_coord (s_dims st) c); [|apply frame_refl].
    destruct (assoc n (s_descr st)); [apply frame_cell_setattr|apply frame_refl].
  - case_all; fr.
  - case_all; fr.
  - case_all; fr.
  - destruct (resolve st r); [|apply frame_refl]. destruct (get_obj st z); [|apply frame_refl].
    destruct (modify_cells l fm f hasval cd); simpl; fr.
  - case_all; fr.
  - destruct (select_mask st conds exts masks only_empty); simpl; fr.
  - destruct (valid_coord (s_dims st) c); [|apply frame_refl].
    destruct (agent_cell (s_agents st) a); [apply frame_refl|].
    destruct (s_discrete st) eqn:Ed.
    + pose proof (frame_cell_add st a c) as H. destruct (cell_add_agent st a c) as [st1 [|]]; exact H.
    + destruct (s_multi st); [unfold leg_place; apply frame_set_agents|].
      destruct (occupied (s_agents st) c); simpl; [apply frame_refl|unfold leg_place; apply frame_set_agents].
  - destruct (valid_coord (s_dims st) c); [|apply frame_refl].
    destruct (agent_cell (s_agents st) a) as [c0|]; [|apply frame_refl]. apply frame_do_move.
  - destruct (s_discrete st) eqn:Ed; [|apply frame_refl].
    destruct (agent_cell (s_agents st) a) as [c0|]; [|apply frame_refl].
    destruct (move_target (s_dims st) c0 dir geom torus); [|apply frame_refl].
    apply frame_do_move.
  - destruct (agent_cell (s_agents st) a) as [c0|]; [|apply frame_refl].
    destruct (s_discrete st) eqn:Ed; simpl; [apply frame_cell_remove|unfold leg_remove; apply frame_set_agents].
  - apply frame_refl.
  - case_all; apply frame_refl.
  - case_all; apply frame_refl.
  - apply frame_refl.
  - case_all; apply frame_refl.
Qed.

Lemma run_state_frame st ops : frame st (run_state st ops).
Proof.
  revert st. induction ops as [|o t IH]; intros st; simpl; [apply frame_refl|].
  eapply frame_trans; [apply step_frame|apply IH].
Qed.

Lemma one_value multi cap dims ops c n :
  let st := run_state (init true multi cap dims) ops in cell_read st c n = layer_read st n c.
Proof.
  intros st. apply one_value_inv.
  - apply run_state_inv. apply inv_init.
  - destruct (run_state_frame (init true multi cap dims) ops) as [H _]. exact H.
Qed.

(* ---------- C18: a rejected call leaves the state as it was ---------- *)
Lemma cell_full_nocap st c : s_cap st = 0 -> cell_full st c = false.
Proof. intros H. unfold cell_full. rewrite H. reflexivity. Qed.

Lemma move_target_valid dims c0 dir geom torus c :
  move_target dims c0 dir geom torus = Some c -> valid_coord dims c = true.
Proof.
  unfold move_target. destruct (Nat.eqb (length dir) (length c0) && dir_ok geom c0 dir && valid_coord dims _) eqn:E; [|discriminate].
  intros [= <-]. apply andb_true_iff in E. apply E.
Qed.

(* "Cell is full" executes `self.empty = False` before it raises; everything else that is
   rejected has not touched the state.  full_noop st: that one statement changes nothing in st. *)
Definition full_noop (st : state) : Prop :=
  forall c, valid_coord (s_dims st) c = true -> cell_full st c = true -> cell_setattr st c EMPTY 0 = st.
Lemma full_noop_nocap st : s_cap st = 0 -> full_noop st.
Proof. intros H c _ Hf. rewrite (cell_full_nocap st c H) in Hf. discriminate. Qed.

Lemma add_err_unchanged st a c st' :
  full_noop st -> valid_coord (s_dims st) c = true -> cell_add_agent st a c = (st', false) -> st' = st.
Proof.
  intros Hn Hc. unfold cell_add_agent. destruct (cell_full st c) eqn:Ef; intros H; inversion H.
  apply Hn; assumption.
Qed.

Lemma do_move_err_unchanged st a c0 c st' k :
  (s_discrete st = true -> full_noop st) -> valid_coord (s_dims st) c = true ->
  do_move st a c0 c = (st', RErr k) -> st' = st.
Proof.
  intros Hn Hc. unfold do_move. destruct (s_discrete st) eqn:Ed.
  - destruct (coord_eqb c c0); [intros H; inversion H|].
    destruct (cell_add_agent st a c) as [st1 [|]] eqn:EA; intros H; inversion H; subst.
    eapply add_err_unchanged; eauto.
  - destruct (negb (s_multi st) && occupied (drop_agent (s_agents st) a) c); intros H; inversion H; reflexivity.
Qed.

Lemma step_err_unchanged st o st' k :
  inv st -> (s_discrete st = true -> full_noop st) -> step st o = (st', RErr k) -> st' = st.
Proof.
  intros I Hc. destruct o; simpl.
  - intros H; inversion H.
  - destruct (s_discrete st); [|intros H; inversion H].
    destruct (add_layer st _ _) as [st1 r]. destruct r; intros H; inversion H; reflexivity.
  - destruct (get_obj st h) as [L|]; [|intros H; inversion H].
    intros H. destruct (add_layer_inv _ _ _ _ _ I H) as [Hne _]. apply Hne. discriminate.
  - intros H. destruct (remove_layer_spec _ _ _ _ I H) as [[_ [-> _]]|[id [_ [Hr _]]]]; [reflexivity|discriminate].
  - case_all; intros H; inversion H.
  - case_all; intros H; inversion H; reflexivity.
  - case_all; intros H; inversion H.
  - case_all; intros H; inversion H; reflexivity.
  - destruct (resolve st r) as [id|]; [|intros H; inversion H].
    destruct (get_obj st id) as [L|]; [|intros H; inversion H].
    destruct (modify_cells L fm f hasval cd); intros H; inversion H; reflexivity.
  - case_all; intros H; inversion H; reflexivity.
  - destruct (select_mask st conds exts masks only_empty); intros H; inversion H; reflexivity.
  - destruct (valid_coord (s_dims st) c) eqn:Hv; [|intros H; inversion H].
    destruct (agent_cell (s_agents st) a); [intros H; inversion H|].
    destruct (s_discrete st) eqn:Ed.
    + destruct (cell_add_agent st a c) as [st1 [|]] eqn:EA; intros H; inversion H; subst.
      eapply add_err_unchanged; eauto.
    + case_all; intros H; inversion H; reflexivity.
  - destruct (valid_coord (s_dims st) c) eqn:Hv; [|intros H; inversion H].
    destruct (agent_cell (s_agents st) a); [|intros H; inversion H]. apply do_move_err_unchanged; assumption.
  - destruct (s_discrete st) eqn:Ed; [|intros H; inversion H].
    destruct (agent_cell (s_agents st) a) as [c0|]; [|intros H; inversion H].
    destruct (move_target (s_dims st) c0 dir geom torus) as [c|] eqn:Eg;
      [|intros H; inversion H; reflexivity].
    apply move_target_valid in Eg.
    apply do_move_err_unchanged; [rewrite Ed; exact Hc|exact Eg].
  - case_all; intros H; inversion H.
  - intros H; inversion H.
  - case_all; intros H; inversion H; reflexivity.
  - case_all; intros H; inversion H; reflexivity.
  - intros H; inversion H.
  - case_all; intros H; inversion H.
Qed.

(* reachable states *)
Definition reachable (st : state) : Prop :=
  exists d multi cap dims ops, st = run_state (init d multi cap dims) ops.
Lemma reachable_inv st : reachable st -> inv st.
Proof. intros [d [multi [cap [dims [ops ->]]]]]. apply run_state_inv. apply inv_init. Qed.

Lemma atomic_reachable st o st' k :
  reachable st -> (s_discrete st = true -> s_cap st = 0) -> step st o = (st', RErr k) -> st' = st.
Proof.
  intros R Hc. apply step_err_unchanged; [apply reachable_inv; exact R|].
  intros Hd. apply full_noop_nocap. exact (Hc Hd).
Qed.

(* ... hence the rest of the history cannot tell that the call was ever made *)
Lemma atomic_continue st o st' k ops :
  reachable st -> (s_discrete st = true -> s_cap st = 0) -> step st o = (st', RErr k) ->
  run_ops st' ops = run_ops st ops.
Proof. intros R Hc H. rewrite (atomic_reachable _ _ _ _ R Hc H). reflexivity. Qed.

(* ---------- writes are read back through both views ---------- *)
Lemma layer_get_with_data L d c :
  layer_get (with_data L d) c = match norm_coord (l_dims L) c with Some c' => aget d c' | None => None end.
Proof. reflexivity. Qed.

Lemma norm_idem dims c c' : norm_coord dims c = Some c' -> norm_coord dims c' = Some c'.
Proof. intros H. apply valid_norm. eapply norm_valid. exact H. Qed.

(* the generic write: object id gets value v at the (normalised) coordinate c0 *)
Lemma write_spec st id L c0 v n c :
  inv st -> assoc n (s_grid st) = Some id -> get_obj st id = Some L ->
  valid_coord (l_dims L) c0 = true ->
  layer_read (set_data st id L (aset (l_data L) c0 v)) n c =
  match norm_coord (l_dims L) c with
  | Some c' => if coord_eqb c0 c' then Some v else layer_read st n c
  | None => None
  end.
Proof.
  intros I Hn HL Hv. unfold layer_read. simpl. rewrite Hn.
  rewrite (get_obj_set_data st id L _ id HL), Z.eqb_refl, HL.
  rewrite layer_get_with_data. unfold layer_get.
  destruct (norm_coord (l_dims L) c) as [c'|] eqn:Ec; [|reflexivity].
  rewrite aget_aset. destruct (coord_eqb c0 c') eqn:E; [|reflexivity].
  apply coord_eqb_eq in E. subst c'.
  destruct (aget_in_keys (l_data L) c0) as [x Hx]; [|rewrite Hx; reflexivity].
  rewrite (inv_keys _ I _ _ HL). apply valid_in_all_coords. exact Hv.
Qed.

Lemma cell_write_read st c n v st' :
  inv st -> step st (CellWrite c n v) = (st', ROk []) ->
  layer_read st' n c = Some v /\ cell_read st' c n = Some v /\
  (forall c', valid_coord (s_dims st) c' = true -> c' <> c -> layer_read st' n c' = layer_read st n c').
Proof.
  intros I. simpl.
  destruct (s_discrete st && valid_coord (s_dims st) c) eqn:E; [|intros H; inversion H].
  apply andb_true_iff in E. destruct E as [Hd Hv].
  destruct (assoc n (s_descr st)) as [id|] eqn:En; [|intros H; inversion H].
  intros H. inversion H; subst st'. clear H.
  assert (inv (cell_setattr st c n v)) as I' by (apply inv_cell_setattr; exact I).
  assert (s_discrete (cell_setattr st c n v) = true) as Hd'.
  { destruct (frame_cell_setattr st c n v) as [F _]. congruence. }
  rewrite (one_value_inv _ c n I' Hd').
  unfold cell_setattr in *. rewrite En in *. rewrite (inv_descr _ I Hd) in En.
  destruct (inv_attached _ I _ _ En) as [L [HL Hdims]]. rewrite HL in *.
  rewrite Hdims in *. rewrite (valid_norm _ _ Hv) in *.
  assert (valid_coord (l_dims L) c = true) as Hv' by (rewrite Hdims; exact Hv).
  pose proof (fun c' => write_spec st id L c v n c' I En HL Hv') as W.
  rewrite Hdims in W.
  split; [|split].
  - rewrite W, (valid_norm _ _ Hv), coord_eqb_refl. reflexivity.
  - rewrite W, (valid_norm _ _ Hv), coord_eqb_refl. reflexivity.
  - intros c' Hc' Hne. rewrite W, (valid_norm _ _ Hc').
    destruct (coord_eqb c c') eqn:E; [|reflexivity]. apply coord_eqb_eq in E. congruence.
Qed.

Lemma layer_write_read st c n v st' :
  inv st -> s_discrete st = true -> step st (LayerWrite (ByName n) c v) = (st', ROk []) ->
  cell_read st' c n = Some v /\ layer_read st' n c = Some v.
Proof.
  intros I Hd H.
  assert (inv st') as I' by (pose proof (step_inv st (LayerWrite (ByName n) c v) I) as X; rewrite H in X; exact X).
  assert (s_discrete st' = true) as Hd'.
  { destruct (step_frame st (LayerWrite (ByName n) c v)) as [F _]. rewrite H in F. simpl in F. congruence. }
  rewrite (one_value_inv _ c n I' Hd'). cut (layer_read st' n c = Some v); [auto|].
  simpl in H. destruct (assoc n (s_grid st)) as [id|] eqn:En; [|inversion H].
  destruct (get_obj st id) as [L|] eqn:HL; [|inversion H].
  destruct (norm_coord (l_dims L) c) as [c0|] eqn:Ec; [|inversion H].
  inversion H; subst st'.
  rewrite (write_spec st id L c0 v n c I En HL (norm_valid _ _ _ Ec)), Ec, coord_eqb_refl. reflexivity.
Qed.

(* ---------- bulk operations, pointwise ---------- *)
Lemma bulk_spec st id L n (P : Z -> bool) (g : Z -> Z) c :
  assoc n (s_grid st) = Some id -> get_obj st id = Some L ->
  layer_read (set_data st id L
     (map (fun kx : coord * Z => if P (snd kx) then (fst kx, g (snd kx)) else kx) (l_data L))) n c =
  option_map (fun x => if P x then g x else x) (layer_read st n c).
Proof.
  intros Hn HL. unfold layer_read. simpl. rewrite Hn.
  rewrite (get_obj_set_data st id L _ id HL), Z.eqb_refl, HL, layer_get_with_data.
  unfold layer_get. destruct (norm_coord (l_dims L) c); [|reflexivity]. apply aget_cond_map.
Qed.

Lemma amap_as_cond (f : Z -> Z) (P : Z -> bool) v (a : arr) :
  amap (fun x => if P x then v else x) a =
  map (fun kx : coord * Z => if P (snd kx) then (fst kx, (fun _ => v) (snd kx)) else kx) a.
Proof. unfold amap. apply map_ext. intros [k x]. simpl. destruct (P x); reflexivity. Qed.

Lemma set_cells_spec st n v cd st' c :
  inv st -> step st (SetCells (ByName n) v cd) = (st', ROk []) ->
  layer_read st' n c = option_map (fun x => if eval_ocond cd x then v else x) (layer_read st n c) /\
  (s_discrete st = true -> cell_read st' c n = layer_read st' n c).
Proof.
  intros I H.
  assert (inv st') as I' by (pose proof (step_inv st (SetCells (ByName n) v cd) I) as X; rewrite H in X; exact X).
  split.
  - simpl in H. destruct (assoc n (s_grid st)) as [id|] eqn:En; [|inversion H].
    destruct (get_obj st id) as [L|] eqn:HL; [|inversion H]. inversion H; subst st'.
    rewrite (amap_as_cond (fun x => x)). apply (bulk_spec st id L n (eval_ocond cd) (fun _ => v) c En HL).
  - intros Hd. apply one_value_inv; [exact I'|].
    destruct (step_frame st (SetCells (ByName n) v cd)) as [F _]. rewrite H in F. simpl in F. congruence.
Qed.

Lemma modify_cells_spec st n fm f hasval cd st' c :
  inv st -> step st (ModifyCells (ByName n) fm f hasval cd) = (st', ROk []) ->
  layer_read st' n c =
    option_map (fun x => if eval_ocond cd x then apply_fop f x else x) (layer_read st n c) /\
  (s_discrete st = true -> cell_read st' c n = layer_read st' n c).
Proof.
  intros I H.
  assert (inv st') as I' by (pose proof (step_inv st (ModifyCells (ByName n) fm f hasval cd) I) as X; rewrite H in X; exact X).
  split.
  - simpl in H. destruct (assoc n (s_grid st)) as [id|] eqn:En; [|inversion H].
    destruct (get_obj st id) as [L|] eqn:HL; [|inversion H].
    destruct (modify_cells L fm f hasval cd) as [d|] eqn:EM; [|inversion H]. inversion H; subst st'.
    assert (d = map (fun kx : coord * Z => if eval_ocond cd (snd kx) then (fst kx, apply_fop f (snd kx)) else kx) (l_data L)) as ->.
    { unfold modify_cells in EM. destruct fm, hasval; try discriminate; inversion EM; reflexivity. }
    apply (bulk_spec st id L n (eval_ocond cd) (apply_fop f) c En HL).
  - intros Hd. apply one_value_inv; [exact I'|].
    destruct (step_frame st (ModifyCells (ByName n) fm f hasval cd)) as [F _]. rewrite H in F. simpl in F. congruence.
Qed.

(* ---------- select_cells ---------- *)
(* the pipeline in the order the statement needs: masks, only_empty, conditions, then the
   extreme values among the cells that passed all of those *)
Definition select_mask_fixed (st : state) (conds : list (Z * cond)) (exts : list (Z * Z))
           (masks : list (list bool)) (only_empty : bool) : bmask + Z :=
  let m0 := map (fun c => (c, true)) (all_coords (s_dims st)) in
  let m1 := apply_masks (s_dims st) m0 masks in
  match (if only_empty then
           match empty_view st with
           | Some e => Some (mask_and m1 (fun c => nz (aget0 e c)))
           | None => None
           end
         else Some m1) with
  | None => inr E_KEY
  | Some m2 =>
      match apply_conds st m2 conds with
      | None => inr E_KEY
      | Some m3 => apply_exts st m3 exts
      end
  end.

Definition EXPECTED_ORDER : list sel_stage := [SMasks; SEmpty; SConds; SExts].
(* T1: both implementations have the stages in that order in the CURRENT source *)
Lemma source_select_order :
  gen_select_order_discrete = EXPECTED_ORDER /\ gen_select_order_legacy = EXPECTED_ORDER.
Proof. split; reflexivity. Qed.

Lemma select_mask_eq st conds exts masks oe :
  select_mask st conds exts masks oe = select_mask_fixed st conds exts masks oe.
Proof.
  unfold select_mask, select_mask_fixed. destruct source_select_order as [-> ->].
  assert ((if s_discrete st then EXPECTED_ORDER else EXPECTED_ORDER) = EXPECTED_ORDER) as -> by (destruct (s_discrete st); reflexivity).
  unfold EXPECTED_ORDER. simpl. destruct oe.
  - destruct (empty_view st); [|reflexivity]. destruct (apply_conds st _ conds); [|reflexivity].
    destruct (apply_exts st b exts); reflexivity.
  - destruct (apply_conds st _ conds); [|reflexivity]. destruct (apply_exts st b exts); reflexivity.
Qed.
Definition fmask (F : coord -> bool) (l : list coord) : bmask := map (fun c => (c, F c)) l.

Lemma mask_and_fmask F f l : mask_and (fmask F l) f = fmask (fun c => F c && f c) l.
Proof. unfold mask_and, fmask. rewrite map_map. reflexivity. Qed.
Lemma mask_list_fmask F l : mask_list (fmask F l) = filter F l.
Proof.
  unfold mask_list, fmask. induction l as [|c l IH]; simpl; [reflexivity|].
  destruct (F c); simpl; rewrite IH; reflexivity.
Qed.
Lemma candidates_fmask F l d : candidates (fmask F l) d = map (aget0 d) (filter F l).
Proof.
  unfold candidates, fmask. induction l as [|c l IH]; simpl; [reflexivity|].
  destruct (F c); simpl; rewrite IH; reflexivity.
Qed.
Lemma keys_fmask F l : map fst (fmask F l) = l.
Proof. unfold fmask. rewrite map_map. simpl. apply map_id. Qed.
Lemma fmask_ext F G l : (forall c, In c l -> F c = G c) -> fmask F l = fmask G l.
Proof. intros H. unfold fmask. apply map_ext_in. intros c Hc. rewrite (H c Hc). reflexivity. Qed.

Lemma fold_max_spec t x :
  x <= fold_left Z.max t x /\ (forall y, In y t -> y <= fold_left Z.max t x) /\
  In (fold_left Z.max t x) (x :: t).
Proof.
  revert x. induction t as [|a t IH]; intros x; simpl.
  - split; [lia|]. split; [intros y []|left; reflexivity].
  - destruct (IH (Z.max x a)) as [H1 [H2 H3]]. split; [lia|]. split.
    + intros y [<-|Hy]; [lia|apply H2; exact Hy].
    + destruct H3 as [H3|H3]; [|right; right; exact H3].
      rewrite <- H3. destruct (Z.max_spec x a) as [[_ E]|[_ E]]; rewrite E; [right; left|left]; reflexivity.
Qed.
Lemma fold_min_spec t x :
  fold_left Z.min t x <= x /\ (forall y, In y t -> fold_left Z.min t x <= y) /\
  In (fold_left Z.min t x) (x :: t).
Proof.
  revert x. induction t as [|a t IH]; intros x; simpl.
  - split; [lia|]. split; [intros y []|left; reflexivity].
  - destruct (IH (Z.min x a)) as [H1 [H2 H3]]. split; [lia|]. split.
    + intros y [<-|Hy]; [lia|apply H2; exact Hy].
    + destruct H3 as [H3|H3]; [|right; right; exact H3].
      rewrite <- H3. destruct (Z.min_spec x a) as [[_ E]|[_ E]]; rewrite E; [left|right; left]; reflexivity.
Qed.
Lemma zmaxl_spec l t : zmaxl l = Some t -> In t l /\ forall y, In y l -> y <= t.
Proof.
  destruct l as [|x l]; [discriminate|]. simpl. intros [= <-].
  destruct (fold_max_spec l x) as [H1 [H2 H3]]. split; [exact H3|].
  intros y [<-|Hy]; auto.
Qed.
Lemma zminl_spec l t : zminl l = Some t -> In t l /\ forall y, In y l -> t <= y.
Proof.
  destruct l as [|x l]; [discriminate|]. simpl. intros [= <-].
  destruct (fold_min_spec l x) as [H1 [H2 H3]]. split; [exact H3|].
  intros y [<-|Hy]; auto.
Qed.

Section Select.
  Variable st : state.
  Let coords := all_coords (s_dims st).

  (* c is at least as extreme as c' *)
  Definition better (mode : Z) (d : arr) (c' c : coord) : Prop :=
    if mode =? HIGHEST then aget0 d c' <= aget0 d c else aget0 d c <= aget0 d c'.

  (* the criteria in dictionary order: each one keeps, among the cells that passed everything
     before it, those whose value is the maximum / minimum over exactly those cells *)
  Fixpoint passes_exts (P : coord -> Prop) (exts : list (Z * Z)) (c : coord) : Prop :=
    match exts with
    | [] => P c
    | (n, mode) :: t =>
        passes_exts (fun c => P c /\ exists d, grid_data st n = Some d /\
                                forall c', In c' coords -> P c' -> better mode d c' c) t c
    end.

  Definition passes_base (masks : list (list bool)) (oe : bool) (conds : list (Z * cond)) (c : coord) : Prop :=
    (forall um, In um masks -> mget (user_mask (s_dims st) um) c = true) /\
    (oe = true -> exists e, empty_view st = Some e /\ nz (aget0 e c) = true) /\
    (forall n cd, In (n, cd) conds -> exists d, grid_data st n = Some d /\ eval_cond cd (aget0 d c) = true).

  Lemma ext_step_ok F P d mode n :
    (forall c, In c coords -> (F c = true <-> P c)) ->
    grid_data st n = Some d ->
    (mode =? HIGHEST) || (mode =? LOWEST) = true ->
    exists F', ext_step (fmask F coords) d mode = fmask F' coords /\
      forall c, In c coords ->
        (F' c = true <-> (P c /\ exists d, grid_data st n = Some d /\
                                forall c', In c' coords -> P c' -> better mode d c' c)).
  Proof.
    intros HFP Hd Hmode. unfold ext_step. rewrite candidates_fmask.
    set (l := map (aget0 d) (filter F coords)).
    assert (forall c, In c coords -> F c = true -> In (aget0 d c) l) as Hin.
    { intros c Hc HF. unfold l. apply in_map. apply filter_In. auto. }
    assert (forall y, In y l -> exists c0, In c0 coords /\ F c0 = true /\ y = aget0 d c0) as Hout.
    { intros y Hy. unfold l in Hy. apply in_map_iff in Hy. destruct Hy as [c0 [<- H0]].
      apply filter_In in H0. exists c0. tauto. }
    destruct (mode =? HIGHEST) eqn:Em.
    - destruct (zmaxl l) as [t|] eqn:Et.
      + destruct (zmaxl_spec _ _ Et) as [Ht1 Ht2]. rewrite mask_and_fmask. eexists. split; [reflexivity|].
        intros c Hc. simpl. rewrite andb_true_iff, Z.eqb_eq, (HFP c Hc). split.
        * intros [HP Hv]. split; [exact HP|]. exists d. split; [exact Hd|].
          intros c' Hc' HP'. unfold better. rewrite Em. rewrite Hv. apply Ht2. apply Hin; [exact Hc'|].
          apply HFP; assumption.
        * intros [HP [d' [Hd' Hb]]]. split; [exact HP|]. rewrite Hd in Hd'. inversion Hd'; subst d'.
          destruct (Hout _ Ht1) as [c0 [Hc0 [HF0 ->]]].
          assert (aget0 d c0 <= aget0 d c) as A.
          { specialize (Hb c0 Hc0 (proj1 (HFP c0 Hc0) HF0)). unfold better in Hb. rewrite Em in Hb. exact Hb. }
          assert (aget0 d c <= aget0 d c0) as B.
          { apply Ht2. apply Hin; [exact Hc|]. apply HFP; assumption. }
          lia.
      + rewrite mask_and_fmask. eexists. split; [reflexivity|].
        intros c Hc. simpl. rewrite andb_false_r. split; [discriminate|].
        intros [HP _]. exfalso. apply (HFP c Hc) in HP.
        pose proof (Hin c Hc HP) as X. destruct l; [destruct X|discriminate].
    - destruct (zminl l) as [t|] eqn:Et.
      + destruct (zminl_spec _ _ Et) as [Ht1 Ht2]. rewrite mask_and_fmask. eexists. split; [reflexivity|].
        intros c Hc. simpl. rewrite andb_true_iff, Z.eqb_eq, (HFP c Hc). split.
        * intros [HP Hv]. split; [exact HP|]. exists d. split; [exact Hd|].
          intros c' Hc' HP'. unfold better. rewrite Em. rewrite Hv. apply Ht2. apply Hin; [exact Hc'|].
          apply HFP; assumption.
        * intros [HP [d' [Hd' Hb]]]. split; [exact HP|]. rewrite Hd in Hd'. inversion Hd'; subst d'.
          destruct (Hout _ Ht1) as [c0 [Hc0 [HF0 ->]]].
          assert (aget0 d c <= aget0 d c0) as A.
          { specialize (Hb c0 Hc0 (proj1 (HFP c0 Hc0) HF0)). unfold better in Hb. rewrite Em in Hb. exact Hb. }
          assert (aget0 d c0 <= aget0 d c) as B.
          { apply Ht2. apply Hin; [exact Hc|]. apply HFP; assumption. }
          lia.
      + rewrite mask_and_fmask. eexists. split; [reflexivity|].
        intros c Hc. simpl. rewrite andb_false_r. split; [discriminate|].
        intros [HP _]. exfalso. apply (HFP c Hc) in HP.
        pose proof (Hin c Hc HP) as X. destruct l; [destruct X|discriminate].
  Qed.

  Lemma apply_exts_cons n mode t m m' :
    apply_exts st m ((n, mode) :: t) = inl m' ->
    exists d, grid_data st n = Some d /\ (mode =? HIGHEST) || (mode =? LOWEST) = true /\
              apply_exts st (ext_step m d mode) t = inl m'.
  Proof.
    simpl. destruct (grid_data st n) as [d|]; [|discriminate].
    destruct ((mode =? HIGHEST) || (mode =? LOWEST)); [|discriminate]. eauto.
  Qed.

  Lemma exts_ok exts : forall F P m',
    (forall c, In c coords -> (F c = true <-> P c)) ->
    apply_exts st (fmask F coords) exts = inl m' ->
    exists F', m' = fmask F' coords /\ forall c, In c coords -> (F' c = true <-> passes_exts P exts c).
  Proof.
    induction exts as [|[n mode] t IH]; intros F P m' HFP H.
    - simpl in H. inversion H; subst m'. exists F. split; [reflexivity|exact HFP].
    - apply apply_exts_cons in H. destruct H as [d [Ed [Em H]]].
      destruct (ext_step_ok F P d mode n HFP Ed Em) as [F1 [E1 H1]]. rewrite E1 in H.
      simpl. eapply IH; [exact H1|exact H].
  Qed.

  Lemma masks_ok masks : forall F,
    exists F', apply_masks (s_dims st) (fmask F coords) masks = fmask F' coords /\
      forall c, F' c = true <-> (F c = true /\ forall um, In um masks -> mget (user_mask (s_dims st) um) c = true).
  Proof.
    induction masks as [|um t IH]; intros F; simpl.
    - exists F. split; [reflexivity|]. intros c. split; [intros H; split; [exact H|intros ? []]|tauto].
    - rewrite mask_and_fmask. destruct (IH (fun c => F c && mget (user_mask (s_dims st) um) c)) as [F' [E H]].
      exists F'. split; [exact E|]. intros c. rewrite H, andb_true_iff. split.
      + intros [[H1 H2] H3]. split; [exact H1|]. intros um' [<-|Hin]; auto.
      + intros [H1 H2]. split; [split; [exact H1|apply H2; left; reflexivity]|]. intros um' Hin. apply H2. right. exact Hin.
  Qed.

  Lemma conds_ok conds : forall F m',
    apply_conds st (fmask F coords) conds = Some m' ->
    exists F', m' = fmask F' coords /\
      forall c, F' c = true <->
        (F c = true /\ forall n cd, In (n, cd) conds ->
                         exists d, grid_data st n = Some d /\ eval_cond cd (aget0 d c) = true).
  Proof.
    induction conds as [|[n cd] t IH]; intros F m'; simpl.
    - intros [= <-]. exists F. split; [reflexivity|]. intros c. split; [intros H; split; [exact H|intros ? ? []]|tauto].
    - destruct (grid_data st n) as [d|] eqn:Ed; [|discriminate]. rewrite mask_and_fmask.
      intros H. destruct (IH _ _ H) as [F' [E HF']]. exists F'. split; [exact E|].
      intros c. rewrite HF', andb_true_iff. split.
      + intros [[H1 H2] H3]. split; [exact H1|]. intros n' cd' [Heq|Hin]; [|apply H3; exact Hin].
        inversion Heq; subst. exists d. auto.
      + intros [H1 H2]. split; [split; [exact H1|]|].
        * destruct (H2 n cd (or_introl eq_refl)) as [d' [Hd' He]]. rewrite Ed in Hd'. inversion Hd'; subst. exact He.
        * intros n' cd' Hin. apply H2. right. exact Hin.
  Qed.

  Lemma select_exact conds exts masks oe m :
    select_mask st conds exts masks oe = inl m ->
    map fst m = coords /\
    forall c, In c (mask_list m) <->
              (In c coords /\ passes_exts (passes_base masks oe conds) exts c).
  Proof.
    rewrite select_mask_eq. unfold select_mask_fixed. fold coords. change (map (fun c => (c, true)) coords) with (fmask (fun _ => true) coords).
    destruct (masks_ok masks (fun _ => true)) as [F1 [E1 H1]]. fold coords in E1. rewrite E1.
    set (F2 := fun c => F1 c && (if oe then match empty_view st with Some e => nz (aget0 e c) | None => false end else true)).
    assert (forall X, match (if oe then match empty_view st with
                                  | Some e => Some (mask_and (fmask F1 coords) (fun c => nz (aget0 e c)))
                                  | None => None end
                       else Some (fmask F1 coords)) with
            | None => inr E_KEY
            | Some m2 => X m2 end = inl m ->
            (oe = true -> exists e, empty_view st = Some e) /\ X (fmask F2 coords) = inl m) as Hoe.
    { intros X. destruct oe.
      - destruct (empty_view st) as [e|]; [|discriminate]. rewrite mask_and_fmask. intros H. split; [eauto|exact H].
      - intros H. split; [discriminate|]. rewrite <- H. f_equal. apply fmask_ext. intros c _. unfold F2. apply andb_true_r. }
    intros H. apply Hoe in H. destruct H as [Hev H].
    destruct (apply_conds st (fmask F2 coords) conds) as [m3|] eqn:E3; [|discriminate].
    destruct (conds_ok _ _ _ E3) as [F3 [-> H3]].
    assert (forall c, In c coords -> (F3 c = true <-> passes_base masks oe conds c)) as HB.
    { intros c _. rewrite H3. unfold F2, passes_base. rewrite andb_true_iff, H1. split.
      - intros [[[_ Hm] Ho] Hc]. split; [exact Hm|]. split; [|exact Hc].
        intros ->. destruct (empty_view st) as [e|]; [eauto|discriminate].
      - intros [Hm [Ho Hc]]. split; [split; [split; [reflexivity|exact Hm]|]|exact Hc].
        destruct oe; [|reflexivity]. destruct (Ho eq_refl) as [e [-> He]]. exact He. }
    destruct (exts_ok exts F3 _ m HB H) as [F4 [-> H4]].
    split; [apply keys_fmask|].
    intros c. rewrite mask_list_fmask, filter_In. split.
    - intros [Hc HF]. split; [exact Hc|]. apply H4; assumption.
    - intros [Hc HP]. split; [exact Hc|]. apply H4; assumption.
  Qed.
End Select.

(* list form and mask form of one answer describe the same cells, the list in row-major order *)
Lemma list_mask_same (m : bmask) :
  mask_list m = map fst (filter (fun kb => snd kb) m) /\
  (forall c, In c (mask_list m) <-> In (c, true) m).
Proof.
  split.
  - unfold mask_list. induction m as [|[k b] m IH]; simpl; [reflexivity|].
    destruct b; simpl; rewrite IH; reflexivity.
  - intros c. unfold mask_list. rewrite in_flat_map. split.
    + intros [[k b] [Hin H]]. simpl in H. destruct b; [|destruct H]. destruct H as [<-|[]]. exact Hin.
    + intros H. exists (c, true). split; [exact H|left; reflexivity].
Qed.
