(* Second part of the lemmas about Model/CellSpace.v:
   step_eqv / run_ops_eqv      operations only read the state pointwise, hence a rejected call (which leaves every
                               component pointwise unchanged) is invisible to the rest of the history (C18 "continue")
   astate / astep              the abstract specification: a partial map agent -> cell with occupancy COUNTED over the
                               agents (the shadow dictionary the Python oracle uses)
   sim_step / refinement       the model refines that specification: same result for every operation of every history,
                               and a cell's list is a permutation of the agents the specification puts there *)
From Coq Require Import ZArith List Bool Lia Permutation.
From Mesa Require Import Common.ListX Generated.Tables Model.CellSpace Proofs.CellSpaceProofs.
Import ListNotations.
Open Scope Z_scope.


(* ---------------------------------------------------------------- operations respect pointwise equality *)
Lemma eqv_sym s s' : eqv s s' -> eqv s' s.
Proof. intros [H1 [H2 [H3 H4]]]. repeat split; intros; symmetry; auto. Qed.

Lemma eqv_trans s1 s2 s3 : eqv s1 s2 -> eqv s2 s3 -> eqv s1 s3.
Proof.
  intros [H1 [H2 [H3 H4]]] [G1 [G2 [G3 G4]]].
  unfold eqv. repeat split; intros; etransitivity; eauto.
Qed.

Lemma eqv_set_content s1 s2 c l : eqv s1 s2 -> eqv (set_content s1 c l) (set_content s2 c l).
Proof.
  intros [H1 [H2 [H3 H4]]]. unfold eqv. simpl. repeat split; auto.
  intros x. unfold upd. destruct (x =? c); auto.
Qed.

Lemma eqv_set_flag s1 s2 c b : eqv s1 s2 -> eqv (set_flag s1 c b) (set_flag s2 c b).
Proof.
  intros [H1 [H2 [H3 H4]]]. unfold eqv. simpl. repeat split; auto.
  intros x. unfold upd. destruct (x =? c); auto.
Qed.

Lemma eqv_set_ptr s1 s2 a p : eqv s1 s2 -> eqv (set_ptr s1 a p) (set_ptr s2 a p).
Proof.
  intros [H1 [H2 [H3 H4]]]. unfold eqv. simpl. repeat split; auto.
  intros x. unfold upd. destruct (x =? a); auto.
Qed.

Lemma eqv_set_reg s1 s2 a b : eqv s1 s2 -> eqv (set_reg s1 a b) (set_reg s2 a b).
Proof.
  intros [H1 [H2 [H3 H4]]]. unfold eqv. simpl. repeat split; auto.
  intros x. unfold upd. destruct (x =? a); auto.
Qed.

Definition res_eqv {R : Type} (x y : state * R) : Prop := eqv (fst x) (fst y) /\ snd x = snd y.

Lemma add_agent_eqv e s1 s2 c a : eqv s1 s2 -> res_eqv (add_agent e s1 c a) (add_agent e s2 c a).
Proof.
  intros H. pose proof H as [Hc _]. unfold add_agent, rejects. rewrite <- (Hc c).
  destruct (match e_cap e c with Some k => _ | None => false end); split; simpl; try reflexivity.
  - apply eqv_set_flag. exact H.
  - apply eqv_set_content, eqv_set_flag. exact H.
Qed.

Lemma remove_agent_eqv s1 s2 c a : eqv s1 s2 -> res_eqv (remove_agent s1 c a) (remove_agent s2 c a).
Proof.
  intros H. pose proof H as [Hc _]. unfold remove_agent. rewrite <- (Hc c).
  destruct (memz a (content s1 c)); split; simpl; try reflexivity; [|exact H].
  apply eqv_set_flag, eqv_set_content. exact H.
Qed.

Lemma set_cell_eqv e s1 s2 a tgt : eqv s1 s2 -> res_eqv (set_cell e s1 a tgt) (set_cell e s2 a tgt).
Proof.
  intros H. pose proof H as [_ [_ [Hp _]]]. unfold set_cell. rewrite <- (Hp a).
  destruct (opt_eqb (ptr s1 a) tgt); [split; [exact H|reflexivity]|].
  assert (res_eqv (match tgt with Some c => add_agent e s1 c a | None => (s1, None) end)
                  (match tgt with Some c => add_agent e s2 c a | None => (s2, None) end)) as H1.
  { destruct tgt as [c|]; [apply add_agent_eqv; exact H|split; [exact H|reflexivity]]. }
  destruct (match tgt with Some c => add_agent e s1 c a | None => (s1, None) end) as [t1 r1].
  destruct (match tgt with Some c => add_agent e s2 c a | None => (s2, None) end) as [t2 r2].
  destruct H1 as [Ht Hr]. simpl in Ht, Hr. subst r2.
  destruct r1 as [er|]; [split; [exact Ht|reflexivity]|].
  assert (res_eqv (match ptr s1 a with Some c0 => remove_agent t1 c0 a | None => (t1, None) end)
                  (match ptr s1 a with Some c0 => remove_agent t2 c0 a | None => (t2, None) end)) as H2.
  { destruct (ptr s1 a) as [c0|]; [apply remove_agent_eqv; exact Ht|split; [exact Ht|reflexivity]]. }
  destruct (match ptr s1 a with Some c0 => remove_agent t1 c0 a | None => (t1, None) end) as [u1 q1].
  destruct (match ptr s1 a with Some c0 => remove_agent t2 c0 a | None => (t2, None) end) as [u2 q2].
  destruct H2 as [Hu Hq]. simpl in Hu, Hq. subst q2.
  destruct q1 as [er|]; split; simpl; try reflexivity; [exact Hu|].
  apply eqv_set_ptr. exact Hu.
Qed.

Lemma fixed_set_eqv e s1 s2 a tgt : eqv s1 s2 -> res_eqv (fixed_set e s1 a tgt) (fixed_set e s2 a tgt).
Proof.
  intros H. pose proof H as [_ [_ [Hp _]]]. unfold fixed_set. rewrite <- (Hp a).
  destruct (ptr s1 a); [split; [exact H|reflexivity]|].
  destruct tgt as [c|]; [|split; [exact H|reflexivity]].
  pose proof (add_agent_eqv e s1 s2 c a H) as H1.
  destruct (add_agent e s1 c a) as [t1 r1]. destruct (add_agent e s2 c a) as [t2 r2].
  destruct H1 as [Ht Hr]. simpl in Ht, Hr. subst r2.
  destruct r1; split; simpl; try reflexivity; [exact Ht|]. apply eqv_set_ptr. exact Ht.
Qed.

Lemma assign_eqv e s1 s2 a tgt : eqv s1 s2 -> res_eqv (assign e s1 a tgt) (assign e s2 a tgt).
Proof.
  intros H. unfold assign. destruct (e_kind e a); [apply set_cell_eqv|apply fixed_set_eqv|apply set_cell_eqv]; exact H.
Qed.

Lemma res_eqv_same {R : Type} s1 s2 (r : R) : eqv s1 s2 -> res_eqv (s1, r) (s2, r).
Proof. intros H. split; [exact H|reflexivity]. Qed.

Lemma move_relative_eqv e s1 s2 a d : eqv s1 s2 -> res_eqv (move_relative e s1 a d) (move_relative e s2 a d).
Proof.
  intros H. pose proof H as [_ [_ [Hp _]]]. unfold move_relative. rewrite <- (Hp a).
  destruct (ptr s1 a) as [c0|]; [|apply res_eqv_same; exact H].
  destruct (e_conn e c0 d); [apply set_cell_eqv|apply res_eqv_same]; exact H.
Qed.

Lemma move2d_eqv e s1 s2 a name k : eqv s1 s2 -> res_eqv (move2d e s1 a name k) (move2d e s2 a name k).
Proof.
  intros H. pose proof H as [_ [_ [Hp _]]]. unfold move2d. rewrite <- (Hp a).
  destruct (lookup_dir (e_dirs e) (lower name)); [|apply res_eqv_same; exact H].
  destruct (k <=? 0); [apply set_cell_eqv; exact H|].
  destruct (ptr s1 a) as [c0|]; [|apply res_eqv_same; exact H].
  destruct (walk e l (Z.to_nat k) c0); [apply set_cell_eqv|apply res_eqv_same]; exact H.
Qed.

Lemma remove_eqv e s1 s2 a : eqv s1 s2 -> res_eqv (remove e s1 a) (remove e s2 a).
Proof.
  intros H. pose proof H as [_ [_ [Hp _]]]. unfold remove. rewrite <- (Hp a).
  pose proof (eqv_set_reg s1 s2 a false H) as H0.
  destruct (e_kind e a); [apply set_cell_eqv; exact H0| |apply set_cell_eqv; exact H0].
  destruct (ptr s1 a) as [c|]; [|apply res_eqv_same; exact H0].
  assert (content s2 c = content s1 c) as -> by (symmetry; apply H).
  destruct (memz a (content s1 c)); [|apply res_eqv_same; exact H0].
  pose proof (remove_agent_eqv _ _ c a H0) as H1.
  destruct (remove_agent (set_reg s1 a false) c a) as [t1 r1].
  destruct (remove_agent (set_reg s2 a false) c a) as [t2 r2].
  destruct H1 as [Ht Hr]. simpl in Ht, Hr. subst r2.
  destruct r1; apply res_eqv_same; exact Ht.
Qed.

Lemma remove_list_eqv e l : forall s1 s2, eqv s1 s2 -> res_eqv (remove_list e s1 l) (remove_list e s2 l).
Proof.
  induction l as [|a t IH]; intros s1 s2 H; simpl; [apply res_eqv_same; exact H|].
  pose proof (remove_eqv e s1 s2 a H) as H1.
  destruct (remove e s1 a) as [t1 r1]. destruct (remove e s2 a) as [t2 r2].
  destruct H1 as [Ht Hr]. simpl in Ht, Hr. subst r2.
  destruct r1; try (apply res_eqv_same; exact Ht). apply IH. exact Ht.
Qed.

Lemma random_empty_eqv e s1 s2 tr out : eqv s1 s2 -> random_empty e s1 tr out = random_empty e s2 tr out.
Proof.
  intros H. unfold random_empty. rewrite <- (eqv_empties e s1 s2 H).
  destruct (empties e s1); [reflexivity|].
  destruct out as [c|]; [|reflexivity]. rewrite <- (eqv_is_empty s1 s2 c H). reflexivity.
Qed.

Lemma step_eqv e s1 s2 o : eqv s1 s2 -> res_eqv (step e s1 o) (step e s2 o).
Proof.
  intros H. destruct o as [a tgt|a c|a d|a name k|a| |tr out|a tr out]; simpl.
  - destruct (in_agents e a && _); [apply assign_eqv|apply res_eqv_same]; exact H.
  - destruct (in_agents e a && in_cells e c && negb (is_fixed (e_kind e a))); [apply set_cell_eqv|apply res_eqv_same]; exact H.
  - destruct (in_agents e a && negb (is_fixed (e_kind e a))); [apply move_relative_eqv|apply res_eqv_same]; exact H.
  - destruct (in_agents e a && is_grid2d (e_kind e a)); [apply move2d_eqv|apply res_eqv_same]; exact H.
  - destruct (in_agents e a); [apply remove_eqv|apply res_eqv_same]; exact H.
  - assert (filter (reg s2) (agents_dom e) = filter (reg s1) (agents_dom e)) as ->.
    { apply filter_ext. intros a. symmetry. apply H. }
    apply remove_list_eqv. exact H.
  - rewrite <- (random_empty_eqv e s1 s2 tr out H). apply res_eqv_same. exact H.
  - destruct (in_agents e a); [|apply res_eqv_same; exact H].
    rewrite <- (random_empty_eqv e s1 s2 tr out H).
    destruct (random_empty e s1 tr out) as [[c|] r]; [apply assign_eqv|apply res_eqv_same]; exact H.
Qed.

Lemma run_ops_eqv e ops : forall s1 s2, eqv s1 s2 -> run_ops e s1 ops = run_ops e s2 ops.
Proof.
  induction ops as [|o t IH]; intros s1 s2 H; simpl; [reflexivity|].
  pose proof (step_eqv e s1 s2 o H) as [Hs Hr].
  destruct (step e s1 o) as [t1 r1]. destruct (step e s2 o) as [t2 r2]. simpl in Hs, Hr. subst r2.
  unfold obs. rewrite (view_eqv e t1 t2 Hs). f_equal. apply IH. exact Hs.
Qed.

(* a rejected call is invisible to the rest of the history *)
Theorem rejected_then_continue e s o s' k rest :
  caps_ok e -> Inv e s -> step e s o = (s', Err k) -> run_ops e s' rest = run_ops e s rest.
Proof.
  intros Hc HI H. apply run_ops_eqv. apply eqv_sym. eapply step_err_eqv; eassumption.
Qed.

Lemma exec_eqv e ops : forall s1 s2, eqv s1 s2 -> eqv (exec e s1 ops) (exec e s2 ops).
Proof.
  induction ops as [|o t IH]; intros s1 s2 H; simpl; [exact H|].
  apply IH. apply step_eqv. exact H.
Qed.



(* ---------------------------------------------------------------- the abstract specification:
   a partial map agent -> cell (the "shadow dictionary"), registration, and one bit for a removed
   FixedAgent whose pointer is left behind; occupancy of a cell is COUNTED over the agents *)
Record astate := { a_loc : Z -> option Z; a_reg : Z -> bool; a_dang : Z -> bool }.
Definition ainit : astate := {| a_loc := fun _ => None; a_reg := fun _ => true; a_dang := fun _ => false |}.

Definition occupies (t : astate) (a c : Z) : bool := opt_eqb (a_loc t a) (Some c) && negb (a_dang t a).
Definition occupants (e : env) (t : astate) (c : Z) : list Z := filter (fun a => occupies t a c) (agents_dom e).
Definition a_rejects (e : env) (t : astate) (c : Z) : bool :=
  match e_cap e c with Some k => negb (k =? 0) && (zlen (occupants e t c) >=? k) | None => false end.
Definition a_set_loc (t : astate) (a : Z) (p : option Z) : astate :=
  {| a_loc := upd (a_loc t) a p; a_reg := a_reg t; a_dang := a_dang t |}.
Definition a_set_reg (t : astate) (a : Z) (b : bool) : astate :=
  {| a_loc := a_loc t; a_reg := upd (a_reg t) a b; a_dang := a_dang t |}.
Definition a_set_dang (t : astate) (a : Z) (b : bool) : astate :=
  {| a_loc := a_loc t; a_reg := a_reg t; a_dang := upd (a_dang t) a b |}.

Definition a_place (e : env) (t : astate) (a : Z) (tgt : option Z) : astate * result :=
  match tgt with
  | Some c => if a_rejects e t c then (t, Err E_FULL) else (a_set_loc t a tgt, Ok [])
  | None => (a_set_loc t a None, Ok [])
  end.

Definition a_set_cell (e : env) (t : astate) (a : Z) (tgt : option Z) : astate * result :=
  if opt_eqb (a_loc t a) tgt then (t, Ok []) else a_place e t a tgt.

Definition a_fixed_set (e : env) (t : astate) (a : Z) (tgt : option Z) : astate * result :=
  match a_loc t a with
  | Some _ => (t, Err E_FIXED)
  | None => match tgt with None => (t, Err E_ATTR) | Some c => a_place e t a (Some c) end
  end.

Definition a_assign (e : env) (t : astate) (a : Z) (tgt : option Z) : astate * result :=
  match e_kind e a with KFixed => a_fixed_set e t a tgt | _ => a_set_cell e t a tgt end.

Definition a_move_relative (e : env) (t : astate) (a : Z) (d : list Z) : astate * result :=
  match a_loc t a with
  | None => (t, Err E_ATTR)
  | Some c0 => match e_conn e c0 d with Some c1 => a_set_cell e t a (Some c1) | None => (t, Err E_NODIR) end
  end.

Definition a_move2d (e : env) (t : astate) (a : Z) (name : list Z) (k : Z) : astate * result :=
  match lookup_dir (e_dirs e) (lower name) with
  | None => (t, Err E_BADDIR)
  | Some v =>
      if k <=? 0 then (t, Ok [])
      else match a_loc t a with
           | None => (t, Err E_ATTR)
           | Some c0 => match walk e v (Z.to_nat k) c0 with
                        | Some c1 => a_set_cell e t a (Some c1)
                        | None => (t, Err E_NODIR)
                        end
           end
  end.

Definition a_remove (e : env) (t : astate) (a : Z) : astate * result :=
  let t0 := a_set_reg t a false in
  match e_kind e a with
  | KFixed =>
      match a_loc t a with
      | None => (t0, Ok [])
      | Some _ => if a_dang t a then (t0, Ok []) else (a_set_dang t0 a true, Ok [])   (* a second remove() is a no-op *)
      end
  | _ => (a_set_loc t0 a None, Ok [])
  end.

Fixpoint a_remove_list (e : env) (t : astate) (l : list Z) : astate * result :=
  match l with
  | [] => (t, Ok [])
  | a :: r =>
      let '(t1, res) := a_remove e t a in
      match res with Ok _ => a_remove_list e t1 r | _ => (t1, res) end
  end.

Definition a_is_empty (e : env) (t : astate) (c : Z) : bool := is_nil (occupants e t c).
Definition a_empties (e : env) (t : astate) : list Z := filter (a_is_empty e t) (cells_dom e).

Definition a_random_empty (e : env) (t : astate) (try_random : bool) (outcome : option Z) : option Z * result :=
  match a_empties e t with
  | [] => (None, Err (if e_grid e && try_random then E_LOOP else E_NOEMPTY))
  | _ => match outcome with
         | Some c => if in_cells e c && a_is_empty e t c then (Some c, Ok [c]) else (None, Illegal)
         | None => (None, Illegal)
         end
  end.

Definition astep (e : env) (t : astate) (o : op) : astate * result :=
  match o with
  | SetCell a tgt =>
      if in_agents e a && match tgt with Some c => in_cells e c | None => true end
      then a_assign e t a tgt else (t, NotApplicable)
  | MoveTo a c =>
      if in_agents e a && in_cells e c && negb (is_fixed (e_kind e a))
      then a_set_cell e t a (Some c) else (t, NotApplicable)
  | MoveRel a d =>
      if in_agents e a && negb (is_fixed (e_kind e a)) then a_move_relative e t a d else (t, NotApplicable)
  | Move2D a name k =>
      if in_agents e a && is_grid2d (e_kind e a) then a_move2d e t a name k else (t, NotApplicable)
  | Remove a => if in_agents e a then a_remove e t a else (t, NotApplicable)
  | RemoveAll => a_remove_list e t (filter (a_reg t) (agents_dom e))
  | RandomEmpty tr out => (t, snd (a_random_empty e t tr out))
  | PlaceRandomEmpty a tr out =>
      if in_agents e a then
        match a_random_empty e t tr out with
        | (Some c, _) => a_assign e t a (Some c)
        | (None, r) => (t, r)
        end
      else (t, NotApplicable)
  end.

Fixpoint aexec (e : env) (t : astate) (ops : list op) : astate :=
  match ops with [] => t | o :: r => aexec e (fst (astep e t o)) r end.
Fixpoint aresults (e : env) (t : astate) (ops : list op) : list result :=
  match ops with [] => [] | o :: r => snd (astep e t o) :: aresults e (fst (astep e t o)) r end.
Fixpoint results_of (e : env) (s : state) (ops : list op) : list result :=
  match ops with [] => [] | o :: r => snd (step e s o) :: results_of e (fst (step e s o)) r end.

(* ---------------------------------------------------------------- the refinement relation *)
Section Refine.
Variable e : env.
Hypothesis Hcaps : caps_ok e.

Record R (s : state) (t : astate) : Prop := {
  r_inv : Inv e s;
  r_ptr : forall a, ptr s a = a_loc t a;
  r_reg : forall a, reg s a = a_reg t a;
  r_in : forall a c, In a (content s c) <-> occupies t a c = true /\ in_agents e a = true;
  r_dang_fixed : forall a, a_dang t a = true -> e_kind e a = KFixed;
  r_dang_loc : forall a, a_dang t a = true -> a_loc t a <> None
}.

Lemma R_init : R init ainit.
Proof.
  constructor; simpl; try reflexivity; try discriminate.
  - apply init_inv.
  - intros a c. unfold occupies. simpl. split; [tauto|intros [H _]; discriminate].
Qed.

Lemma in_agents_dom a : In a (agents_dom e) <-> in_agents e a = true.
Proof. unfold agents_dom, in_agents. rewrite zrange_In. lia. Qed.

Lemma occupants_In t a c : In a (occupants e t c) <-> occupies t a c = true /\ in_agents e a = true.
Proof. unfold occupants. rewrite filter_In, in_agents_dom. tauto. Qed.

Lemma R_len s t c : R s t -> zlen (content s c) = zlen (occupants e t c).
Proof.
  intros HR. unfold zlen. f_equal. apply Permutation_length. apply NoDup_Permutation.
  - apply (inv_nodup e s (r_inv s t HR)).
  - unfold occupants. apply NoDup_filter. apply zrange_NoDup.
  - intros a. rewrite occupants_In. apply (r_in s t HR).
Qed.

Lemma R_rejects s t c : R s t -> rejects e s c = a_rejects e t c.
Proof. intros HR. unfold rejects, a_rejects. rewrite (R_len s t c HR). reflexivity. Qed.

Lemma R_is_empty s t c : R s t -> is_empty s c = a_is_empty e t c.
Proof.
  intros HR. unfold is_empty, a_is_empty. pose proof (R_len s t c HR) as H. unfold zlen in H.
  destruct (content s c), (occupants e t c); simpl in *; try reflexivity; lia.
Qed.

Lemma R_empties s t : R s t -> empties e s = a_empties e t.
Proof. intros HR. unfold empties, a_empties. apply filter_ext. intros c. apply R_is_empty. exact HR. Qed.

Lemma R_random_empty s t tr out : R s t -> random_empty e s tr out = a_random_empty e t tr out.
Proof.
  intros HR. unfold random_empty, a_random_empty. rewrite <- (R_empties s t HR).
  destruct (empties e s); [reflexivity|]. destruct out as [c|]; [|reflexivity].
  rewrite <- (R_is_empty s t c HR). reflexivity.
Qed.

(* membership after a successful move *)
Lemma move_In s a tgt :
  Inv e s -> ptr s a <> tgt -> (forall c0, ptr s a = Some c0 -> In a (content s c0)) ->
  forall a' x, In a' (content (set_ptr (leave (enter s tgt a) (ptr s a) a) a tgt) x) <->
               (a' = a /\ tgt = Some x) \/ (a' <> a /\ In a' (content s x)).
Proof.
  intros HI Hne Hl a' x.
  assert (Hin : forall y, In a (content s y) <-> ptr s a = Some y).
  { intros y. split; [apply (inv_listed e s HI)|apply Hl]. }
  cbn [set_ptr content]. rewrite leave_content.
  destruct (ptr s a) as [c0|] eqn:Ep.
  - destruct (Z.eqb_spec x c0) as [->|Hx].
    + rewrite (enter_old_content s a tgt c0 Ep); [|rewrite Ep; exact Hne].
      rewrite (remove_first_In_iff _ _ _ (inv_nodup e s HI c0)). split.
      * intros [H1 H2]. right. tauto.
      * intros [[-> H]|[H1 H2]]; [congruence|tauto].
    + rewrite enter_content. destruct tgt as [c|].
      * destruct (Z.eqb_spec x c) as [->|Hxc].
        -- rewrite in_app_iff. simpl. split.
           ++ intros [H|[H|[]]]; [|left; split; congruence].
              right. split; [|exact H]. intros ->. apply Hin in H. congruence.
           ++ intros [[-> _]|[H1 H2]]; [right; left; reflexivity|left; exact H2].
        -- split.
           ++ intros H. right. split; [|exact H]. intros ->. apply Hin in H. congruence.
           ++ intros [[_ H]|[_ H]]; [congruence|exact H].
      * split.
        -- intros H. right. split; [|exact H]. intros ->. apply Hin in H. congruence.
        -- intros [[_ H]|[_ H]]; [congruence|exact H].
  - rewrite enter_content. destruct tgt as [c|]; [|congruence].
    destruct (Z.eqb_spec x c) as [->|Hxc].
    + rewrite in_app_iff. simpl. split.
      * intros [H|[H|[]]]; [|left; split; congruence].
        right. split; [|exact H]. intros ->. apply Hin in H. congruence.
      * intros [[-> _]|[H1 H2]]; [right; left; reflexivity|left; exact H2].
    + split.
      * intros H. right. split; [|exact H]. intros ->. apply Hin in H. congruence.
      * intros [[_ H]|[_ H]]; [congruence|exact H].
Qed.

Lemma opt_eqb_refl x : opt_eqb x x = true.
Proof. apply opt_eqb_true. reflexivity. Qed.

(* R after a successful move of an agent that is not dangling *)
Lemma R_move s t a tgt :
  R s t -> in_agents e a = true -> a_dang t a = false ->
  ptr s a <> tgt -> no_reject e s tgt ->
  (forall c0, ptr s a = Some c0 -> In a (content s c0)) ->
  R (set_ptr (leave (enter s tgt a) (ptr s a) a) a tgt) (a_set_loc t a tgt).
Proof.
  intros HR Ha Hd Hne Hnr Hl. pose proof (r_inv s t HR) as HI.
  constructor.
  - apply move_inv; assumption.
  - intros a'. cbn [set_ptr ptr a_set_loc a_loc]. rewrite leave_ptr, enter_ptr.
    unfold upd. destruct (a' =? a); [reflexivity|apply (r_ptr s t HR)].
  - intros a'. cbn [set_ptr reg a_set_loc a_reg]. rewrite leave_reg, enter_reg. apply (r_reg s t HR).
  - intros a' x. rewrite (move_In s a tgt HI Hne Hl a' x).
    unfold occupies. cbn [a_set_loc a_loc a_dang]. unfold upd.
    destruct (Z.eqb_spec a' a) as [->|Hna].
    + rewrite Hd. simpl. rewrite andb_true_r, opt_eqb_true. split.
      * intros [[_ H]|[H _]]; [tauto|congruence].
      * intros [H _]. left. tauto.
    + rewrite (r_in s t HR a' x). unfold occupies. split.
      * intros [[H _]|[_ H]]; [congruence|exact H].
      * intros H. right. tauto.
  - apply (r_dang_fixed s t HR).
  - intros a' Hda. cbn [a_set_loc a_loc a_dang] in *. unfold upd.
    destruct (Z.eqb_spec a' a) as [->|Hna]; [congruence|apply (r_dang_loc s t HR); exact Hda].
Qed.

Lemma R_set_flag s t c : R s t -> content s c <> [] -> R (set_flag s c false) t.
Proof.
  intros HR Hne. constructor; simpl; try apply HR.
  apply set_flag_false_inv; [apply HR|exact Hne].
Qed.

Definition sim (x : state * result) (y : astate * result) : Prop := R (fst x) (fst y) /\ snd x = snd y.

Lemma not_dang_of_nonfixed s t a : R s t -> e_kind e a <> KFixed -> a_dang t a = false.
Proof.
  intros HR Hk. destruct (a_dang t a) eqn:E; [|reflexivity].
  apply (r_dang_fixed s t HR) in E. contradiction.
Qed.

Lemma sim_set_cell s t a tgt :
  R s t -> in_agents e a = true -> e_kind e a <> KFixed ->
  sim (set_cell e s a tgt) (a_set_cell e t a tgt).
Proof.
  intros HR Ha Hk. pose proof (r_inv s t HR) as HI.
  pose proof (listed_of_nonfixed e s a HI Hk) as Hl.
  destruct (set_cell e s a tgt) as [s' r] eqn:E. apply set_cell_cases in E.
  unfold a_set_cell, a_place. rewrite <- (r_ptr s t HR a).
  destruct E as [[Hp [-> ->]]|[[Hne [c [-> [Hr [-> ->]]]]]|[[Hne [Hnr [c0 [Hp [Hni _]]]]]|[Hne [Hnr [_ [-> ->]]]]]]].
  - apply opt_eqb_true in Hp. rewrite Hp. split; [exact HR|reflexivity].
  - apply opt_eqb_false in Hne. rewrite Hne. rewrite <- (R_rejects s t c HR), Hr.
    split; simpl; [|reflexivity]. apply R_set_flag; [exact HR|]. apply (rejects_nonempty e Hcaps). exact Hr.
  - exfalso. apply Hni. rewrite (enter_old_content s a tgt c0 Hp Hne). apply Hl. exact Hp.
  - pose proof Hne as Hne'. apply opt_eqb_false in Hne'. rewrite Hne'.
    assert (R (set_ptr (leave (enter s tgt a) (ptr s a) a) a tgt) (a_set_loc t a tgt)) as HR'.
    { apply R_move; try assumption. eapply not_dang_of_nonfixed; eassumption. }
    destruct tgt as [c|].
    + rewrite <- (R_rejects s t c HR), (Hnr c eq_refl). split; [exact HR'|reflexivity].
    + split; [exact HR'|reflexivity].
Qed.

Lemma sim_fixed_set s t a tgt :
  R s t -> in_agents e a = true -> sim (fixed_set e s a tgt) (a_fixed_set e t a tgt).
Proof.
  intros HR Ha. pose proof (r_inv s t HR) as HI.
  unfold fixed_set, a_fixed_set, a_place. rewrite <- (r_ptr s t HR a).
  destruct (ptr s a) as [c0|] eqn:Ep; [split; [exact HR|reflexivity]|].
  destruct tgt as [c|]; [|split; [exact HR|reflexivity]].
  unfold add_agent. rewrite <- (R_rejects s t c HR).
  destruct (rejects e s c) eqn:Er.
  - split; simpl; [|reflexivity]. apply R_set_flag; [exact HR|]. apply (rejects_nonempty e Hcaps). exact Er.
  - split; simpl; [|reflexivity].
    change (set_content (set_flag s c false) c (content s c ++ [a])) with (leave (enter s (Some c) a) None a).
    rewrite <- Ep. apply R_move; try assumption.
    + destruct (a_dang t a) eqn:Ed; [|reflexivity].
      apply (r_dang_loc s t HR) in Ed. rewrite <- (r_ptr s t HR a) in Ed. contradiction.
    + congruence.
    + intros c' Hc'. inversion Hc'; subst. exact Er.
    + intros c1 Hc1. congruence.
Qed.

Lemma sim_assign s t a tgt :
  R s t -> in_agents e a = true -> sim (assign e s a tgt) (a_assign e t a tgt).
Proof.
  intros HR Ha. unfold assign, a_assign. destruct (e_kind e a) eqn:Ek.
  - apply sim_set_cell; [exact HR|exact Ha|congruence].
  - apply sim_fixed_set; assumption.
  - apply sim_set_cell; [exact HR|exact Ha|congruence].
Qed.

Lemma sim_same s t r : R s t -> sim (s, r) (t, r).
Proof. intros H. split; [exact H|reflexivity]. Qed.

Lemma R_set_reg_false s t a : R s t -> R (set_reg s a false) (a_set_reg t a false).
Proof.
  intros HR. constructor; simpl; try apply HR.
  - apply set_reg_false_inv. apply HR.
  - intros a'. unfold upd. destruct (a' =? a); [reflexivity|apply (r_reg s t HR)].
Qed.

Lemma sim_remove s t a : R s t -> in_agents e a = true -> sim (remove e s a) (a_remove e t a).
Proof.
  intros HR Ha. pose proof (R_set_reg_false s t a HR) as HR0. pose proof (r_inv s t HR) as HI.
  unfold remove, a_remove.
  assert (Hset : e_kind e a <> KFixed ->
                 sim (set_cell e (set_reg s a false) a None) (a_set_loc (a_set_reg t a false) a None, Ok [])).
  { intros Hk. pose proof (sim_set_cell _ _ a None HR0 Ha Hk) as [H1 H2].
    unfold a_set_cell, a_place in *. cbn [a_set_reg a_loc] in *.
    destruct (opt_eqb (a_loc t a) None) eqn:Eo; simpl in *.
    - split; [|exact H2]. apply opt_eqb_true in Eo.
      destruct H1 as [h1 h2 h3 h4 h5 h6]. constructor; try assumption.
      + intros a'. rewrite h2. simpl. unfold upd. destruct (Z.eqb_spec a' a) as [->|]; [exact Eo|reflexivity].
      + intros a' c. rewrite h4. unfold occupies. simpl. unfold upd.
        destruct (Z.eqb_spec a' a) as [->|]; [rewrite Eo|]; reflexivity.
      + intros a' Hd. simpl. unfold upd. destruct (Z.eqb_spec a' a) as [->|]; [|apply h6; exact Hd].
        exfalso. apply (h6 a Hd). exact Eo.
    - split; assumption. }
  destruct (e_kind e a) eqn:Ek.
  - apply Hset. congruence.
  - rewrite <- (r_ptr s t HR a). destruct (ptr s a) as [c|] eqn:Ep; [|apply sim_same; exact HR0].
    unfold remove_agent. cbn [set_reg content].
    assert (memz a (content s c) = negb (a_dang t a)) as Hm.
    { destruct (memz a (content s c)) eqn:Em.
      - apply memz_In in Em. apply (r_in s t HR) in Em. destruct Em as [Ho _].
        unfold occupies in Ho. apply andb_true_iff in Ho. symmetry. tauto.
      - apply memz_false in Em. destruct (a_dang t a) eqn:Ed; [reflexivity|]. exfalso. apply Em.
        apply (r_in s t HR). split; [|exact Ha]. unfold occupies.
        rewrite <- (r_ptr s t HR a), Ep, Ed. simpl. rewrite Z.eqb_refl. reflexivity. }
    rewrite Hm. destruct (a_dang t a) eqn:Ed; simpl.
    + apply sim_same. exact HR0.
    + split; simpl; [|reflexivity].
      assert (In a (content s c)) as Hin by (apply memz_In; rewrite Hm; reflexivity).
      change (R (leave (set_reg s a false) (Some c) a) (a_set_dang (a_set_reg t a false) a true)).
      constructor.
      * apply leave_fixed_inv; try assumption.
        -- apply set_reg_false_inv. exact HI.
        -- simpl. apply upd_same.
      * intros a'. rewrite leave_ptr. simpl. apply (r_ptr s t HR).
      * intros a'. rewrite leave_reg. simpl. unfold upd. destruct (a' =? a); [reflexivity|apply (r_reg s t HR)].
      * intros a' x. rewrite leave_content. cbn [set_reg content].
        unfold occupies. cbn [a_set_dang a_set_reg a_loc a_dang]. unfold upd.
        destruct (Z.eqb_spec a' a) as [->|Hna].
        -- rewrite andb_false_r. split; [|intros [H _]; discriminate].
           destruct (Z.eqb_spec x c) as [->|Hx].
           ++ intros H. apply (remove_first_In_iff _ _ _ (inv_nodup e s HI c)) in H. tauto.
           ++ intros H. apply (inv_listed e s HI) in H. congruence.
        -- destruct (Z.eqb_spec x c) as [->|Hx].
           ++ rewrite (remove_first_In_iff _ _ _ (inv_nodup e s HI c)), (r_in s t HR a' c). unfold occupies. tauto.
           ++ apply (r_in s t HR a' x).
      * intros a'. simpl. unfold upd. destruct (Z.eqb_spec a' a) as [->|]; [intros _; exact Ek|apply (r_dang_fixed s t HR)].
      * intros a'. simpl. unfold upd. destruct (Z.eqb_spec a' a) as [->|]; [|apply (r_dang_loc s t HR)].
        intros _. rewrite <- (r_ptr s t HR a), Ep. discriminate.
  - apply Hset. congruence.
Qed.

Lemma sim_move_relative s t a d :
  R s t -> in_agents e a = true -> e_kind e a <> KFixed ->
  sim (move_relative e s a d) (a_move_relative e t a d).
Proof.
  intros HR Ha Hk. unfold move_relative, a_move_relative. rewrite <- (r_ptr s t HR a).
  destruct (ptr s a) as [c0|]; [|apply sim_same; exact HR].
  destruct (e_conn e c0 d); [apply sim_set_cell; assumption|apply sim_same; exact HR].
Qed.

Lemma sim_move2d s t a name k :
  R s t -> in_agents e a = true -> e_kind e a <> KFixed ->
  sim (move2d e s a name k) (a_move2d e t a name k).
Proof.
  intros HR Ha Hk. unfold move2d, a_move2d. rewrite <- (r_ptr s t HR a).
  destruct (lookup_dir (e_dirs e) (lower name)); [|apply sim_same; exact HR].
  destruct (k <=? 0).
  - unfold set_cell. rewrite opt_eqb_refl. apply sim_same. exact HR.
  - destruct (ptr s a) as [c0|]; [|apply sim_same; exact HR].
    destruct (walk e l (Z.to_nat k) c0); [apply sim_set_cell; assumption|apply sim_same; exact HR].
Qed.

Lemma sim_remove_list l : forall s t,
  R s t -> (forall a, In a l -> in_agents e a = true) -> sim (remove_list e s l) (a_remove_list e t l).
Proof.
  induction l as [|a r IH]; intros s t HR Hl; simpl; [apply sim_same; exact HR|].
  pose proof (sim_remove s t a HR (Hl a (or_introl eq_refl))) as H1.
  destruct (remove e s a) as [s1 r1]. destruct (a_remove e t a) as [t1 q1].
  destruct H1 as [H1 H2]. simpl in H1, H2. subst q1.
  destruct r1; try (apply sim_same; exact H1).
  apply IH; [exact H1|]. intros a' Hin. apply Hl. right. exact Hin.
Qed.

Theorem sim_step s t o : R s t -> sim (step e s o) (astep e t o).
Proof.
  intros HR. destruct o as [a tgt|a c|a d|a name k|a| |tr out|a tr out]; simpl.
  - destruct (in_agents e a) eqn:Ha; simpl; [|apply sim_same; exact HR].
    destruct (match tgt with Some c => in_cells e c | None => true end); [apply sim_assign; assumption|apply sim_same; exact HR].
  - destruct (in_agents e a) eqn:Ha; simpl; [|apply sim_same; exact HR].
    destruct (in_cells e c); simpl; [|apply sim_same; exact HR].
    destruct (is_fixed (e_kind e a)) eqn:Ef; simpl; [apply sim_same; exact HR|].
    apply sim_set_cell; [exact HR|exact Ha|apply is_fixed_false; exact Ef].
  - destruct (in_agents e a) eqn:Ha; simpl; [|apply sim_same; exact HR].
    destruct (is_fixed (e_kind e a)) eqn:Ef; simpl; [apply sim_same; exact HR|].
    apply sim_move_relative; [exact HR|exact Ha|apply is_fixed_false; exact Ef].
  - destruct (in_agents e a) eqn:Ha; simpl; [|apply sim_same; exact HR].
    destruct (is_grid2d (e_kind e a)) eqn:Eg; simpl; [|apply sim_same; exact HR].
    apply sim_move2d; [exact HR|exact Ha|apply is_grid2d_true; exact Eg].
  - destruct (in_agents e a) eqn:Ha; [apply sim_remove; assumption|apply sim_same; exact HR].
  - assert (filter (a_reg t) (agents_dom e) = filter (reg s) (agents_dom e)) as ->.
    { apply filter_ext. intros a. symmetry. apply (r_reg s t HR). }
    apply sim_remove_list; [exact HR|]. intros a Hin. apply filter_In in Hin. apply in_agents_dom. tauto.
  - rewrite <- (R_random_empty s t tr out HR). apply sim_same. exact HR.
  - destruct (in_agents e a) eqn:Ha; [|apply sim_same; exact HR].
    rewrite <- (R_random_empty s t tr out HR).
    destruct (random_empty e s tr out) as [[c|] r]; [apply sim_assign; assumption|apply sim_same; exact HR].
Qed.

Theorem refinement ops : forall s t, R s t ->
  R (exec e s ops) (aexec e t ops) /\ results_of e s ops = aresults e t ops.
Proof.
  induction ops as [|o r IH]; intros s t HR; simpl; [split; [exact HR|reflexivity]|].
  pose proof (sim_step s t o HR) as [H1 H2].
  destruct (IH _ _ H1) as [H3 H4]. split; [exact H3|]. rewrite H2, H4. reflexivity.
Qed.

End Refine.

(* the model refines the counting specification: same results for every history, the same pointers and
   registration, and a cell lists exactly the agents the specification counts for it *)
Theorem refines_spec e ops : caps_ok e ->
  let s := exec e init ops in let t := aexec e ainit ops in
  results_of e init ops = aresults e ainit ops /\
  (forall a, ptr s a = a_loc t a) /\ (forall a, reg s a = a_reg t a) /\
  (forall c, Permutation (content s c) (occupants e t c)) /\
  (forall c, zlen (content s c) = zlen (occupants e t c)).
Proof.
  intros Hc s t. destruct (refinement e Hc ops init ainit (R_init e)) as [HR Hres].
  fold s t in HR. split; [exact Hres|].
  split; [apply (r_ptr e s t HR)|]. split; [apply (r_reg e s t HR)|].
  split.
  - intros c. apply NoDup_Permutation.
    + apply (inv_nodup e s (r_inv e s t HR)).
    + unfold occupants. apply NoDup_filter. apply zrange_NoDup.
    + intros a. rewrite occupants_In. apply (r_in e s t HR).
  - intros c. apply R_len; assumption.
Qed.

(* ---------------------------------------------------------------- the direction table (T1) *)
Lemma zlist_eqb_eq a : forall b, zlist_eqb a b = true <-> a = b.
Proof.
  induction a as [|x a IH]; intros [|y b]; simpl; try (split; congruence).
  rewrite andb_true_iff, Z.eqb_eq, IH. split; [intros [-> ->]; reflexivity|intros H; inversion H; auto].
Qed.

Fixpoint keys_distinct (tbl : list (list Z * list Z)) : bool :=
  match tbl with
  | [] => true
  | (k, _) :: t => negb (existsb (fun p => zlist_eqb (fst p) k) t) && keys_distinct t
  end.

(* a king's move on the (row, column) grid *)
Definition vec_ok (v : list Z) : bool :=
  match v with
  | [a; b] => (Z.abs a <=? 1) && (Z.abs b <=? 1) && negb ((a =? 0) && (b =? 0))
  | _ => false
  end.

Definition dirmap_ok (tbl : list (list Z * list Z)) : bool :=
  forallb (fun p => zlist_eqb (lower (fst p)) (fst p) && vec_ok (snd p)) tbl && keys_distinct tbl.

Lemma lookup_dir_In tbl : forall k v,
  keys_distinct tbl = true -> In (k, v) tbl -> lookup_dir tbl k = Some v.
Proof.
  induction tbl as [|[k0 v0] t IH]; intros k v Hd Hin; simpl in *; [destruct Hin|].
  apply andb_true_iff in Hd. destruct Hd as [Hn Hd]. apply negb_true_iff in Hn.
  destruct Hin as [H|H].
  - inversion H; subst. assert (zlist_eqb k k = true) as -> by (apply zlist_eqb_eq; reflexivity). reflexivity.
  - destruct (zlist_eqb k0 k) eqn:E.
    + apply zlist_eqb_eq in E. subst k0. exfalso.
      assert (existsb (fun p => zlist_eqb (fst p) k) t = true) as Hex.
      { apply existsb_exists. exists (k, v). split; [exact H|]. simpl. apply zlist_eqb_eq. reflexivity. }
      congruence.
    + apply IH; assumption.
Qed.

(* every entry of a well-formed table is found under its own name, whatever the ASCII case of the argument *)
Lemma dirmap_case_insensitive tbl name k v :
  dirmap_ok tbl = true -> In (k, v) tbl -> lower name = k ->
  lookup_dir tbl (lower name) = Some v /\ vec_ok v = true.
Proof.
  intros Hok Hin Hl. unfold dirmap_ok in Hok. apply andb_true_iff in Hok. destruct Hok as [Hall Hd].
  rewrite Hl. split; [apply lookup_dir_In; assumption|].
  rewrite forallb_forall in Hall. specialize (Hall (k, v) Hin). simpl in Hall.
  apply andb_true_iff in Hall. tauto.
Qed.

(* a name that is not in the table is rejected before anything moves *)
Lemma move2d_bad_name e s a name k :
  lookup_dir (e_dirs e) (lower name) = None -> move2d e s a name k = (s, Err E_BADDIR).
Proof. intros H. unfold move2d. rewrite H. reflexivity. Qed.

(* ---------------------------------------------------------------- every rejection is justified *)
Lemma rejects_true_full e s c :
  caps_ok e -> rejects e s c = true ->
  exists k, e_cap e c = Some k /\ 0 < k /\ zlen (content s c) >= k.
Proof.
  intros Hc H. unfold rejects in H. destruct (e_cap e c) as [k|] eqn:Ec; [|discriminate].
  rewrite andb_true_iff, negb_true_iff, Z.eqb_neq in H. destruct H as [Hk Hl].
  exists k. pose proof (Hc c k Ec). repeat split; lia.
Qed.

Definition full_for (e : env) (s : state) (tgt : option Z) : Prop :=
  exists c k, tgt = Some c /\ e_cap e c = Some k /\ 0 < k /\ zlen (content s c) = k /\ is_full e s c = true.

Lemma rejects_full_for e s c : caps_ok e -> Inv e s -> rejects e s c = true -> full_for e s (Some c).
Proof.
  intros Hc HI H. destruct (rejects_true_full e s c Hc H) as [k [Ec [Hk Hl]]].
  pose proof (inv_cap e s HI c k Ec Hk) as Hle.
  exists c, k. repeat split; try assumption; [lia|].
  unfold is_full. rewrite Ec. apply Z.eqb_eq. lia.
Qed.

Lemma set_cell_err_justified e s a tgt s' k :
  caps_ok e -> Inv e s -> (forall c0, ptr s a = Some c0 -> In a (content s c0)) ->
  set_cell e s a tgt = (s', Err k) -> k = E_FULL /\ ptr s a <> tgt /\ full_for e s tgt.
Proof.
  intros Hc HI Hl H. apply set_cell_cases in H.
  destruct H as [[_ [_ Hr]]|[[Hne [c [-> [Hr [_ Hk]]]]]|[[Hne [Hnr [c0 [Hp [Hni _]]]]]|[_ [_ [_ [_ Hr]]]]]]];
    try discriminate.
  - injection Hk as <-. split; [reflexivity|]. split; [exact Hne|]. apply rejects_full_for; assumption.
  - exfalso. apply Hni. rewrite (enter_old_content s a tgt c0 Hp Hne). apply Hl. exact Hp.
Qed.

(* agent.cell = tgt is rejected only (a) because the target is exactly full and the agent is not in it,
   (b) because a FixedAgent already has a cell, (c) FixedAgent.cell = None *)
Lemma assign_err_justified e s a tgt s' k :
  caps_ok e -> Inv e s -> assign e s a tgt = (s', Err k) ->
  (k = E_FULL /\ ptr s a <> tgt /\ full_for e s tgt)
  \/ (k = E_FIXED /\ e_kind e a = KFixed /\ ptr s a <> None)
  \/ (k = E_ATTR /\ e_kind e a = KFixed /\ ptr s a = None /\ tgt = None).
Proof.
  intros Hc HI H. unfold assign in H.
  assert (Hset : e_kind e a <> KFixed -> set_cell e s a tgt = (s', Err k) ->
                 k = E_FULL /\ ptr s a <> tgt /\ full_for e s tgt).
  { intros Hk. apply set_cell_err_justified; try assumption. apply (listed_of_nonfixed e); assumption. }
  destruct (e_kind e a) eqn:Ek.
  - left. apply Hset; [congruence|exact H].
  - unfold fixed_set in H. destruct (ptr s a) as [c0|] eqn:Ep.
    + injection H as _ <-. right. left. repeat split; congruence.
    + destruct tgt as [c|].
      * unfold add_agent in H. destruct (rejects e s c) eqn:Er; [|discriminate].
        injection H as _ <-. left. split; [reflexivity|]. split; [discriminate|].
        apply rejects_full_for; assumption.
      * injection H as _ <-. right. right. repeat split; reflexivity.
  - left. apply Hset; [congruence|exact H].
Qed.

Lemma rejection_justified_all e ops a tgt s' k :
  caps_ok e -> let s := exec e init ops in
  step e s (SetCell a tgt) = (s', Err k) ->
  (k = E_FULL /\ ptr s a <> tgt /\ full_for e s tgt)
  \/ (k = E_FIXED /\ e_kind e a = KFixed /\ ptr s a <> None)
  \/ (k = E_ATTR /\ e_kind e a = KFixed /\ ptr s a = None /\ tgt = None).
Proof.
  intros Hc s H. simpl in H.
  destruct (in_agents e a && match tgt with Some c => in_cells e c | None => true end); [|discriminate].
  eapply assign_err_justified; [exact Hc|apply reach_inv; exact Hc|exact H].
Qed.

(* moves: the only other reasons are a missing cell in that direction / no current cell / an unknown name *)
Lemma move_rejection_justified_all e ops o s' k :
  caps_ok e -> let s := exec e init ops in
  (exists a c, o = MoveTo a c) \/ (exists a d, o = MoveRel a d) \/ (exists a name n, o = Move2D a name n) ->
  step e s o = (s', Err k) ->
  (k = E_FULL /\ exists c, full_for e s (Some c)) \/ k = E_NODIR \/ k = E_ATTR \/ k = E_BADDIR.
Proof.
  intros Hc s Ho H. pose proof (reach_inv e ops Hc) as HI. fold s in HI.
  assert (Hset : forall a c, e_kind e a <> KFixed -> set_cell e s a (Some c) = (s', Err k) ->
                 (k = E_FULL /\ exists c, full_for e s (Some c)) \/ k = E_NODIR \/ k = E_ATTR \/ k = E_BADDIR).
  { intros a c Hk H'. left.
    destruct (set_cell_err_justified e s a (Some c) s' k Hc HI (listed_of_nonfixed e s a HI Hk) H') as [-> [_ Hf]].
    split; [reflexivity|]. exists c. exact Hf. }
  destruct Ho as [[a [c ->]]|[[a [d ->]]|[a [name [n ->]]]]]; simpl in H.
  - destruct (in_agents e a && in_cells e c && negb (is_fixed (e_kind e a))) eqn:G; [|discriminate].
    rewrite !andb_true_iff, negb_true_iff in G. destruct G as [_ Gk].
    eapply Hset; [apply is_fixed_false; exact Gk|exact H].
  - destruct (in_agents e a && negb (is_fixed (e_kind e a))) eqn:G; [|discriminate].
    rewrite andb_true_iff, negb_true_iff in G. destruct G as [_ Gk]. apply is_fixed_false in Gk.
    unfold move_relative in H.
    destruct (ptr s a) as [c0|]; [|injection H as _ <-; tauto].
    destruct (e_conn e c0 d) as [c1|]; [|injection H as _ <-; tauto].
    eapply Hset; eassumption.
  - destruct (in_agents e a && is_grid2d (e_kind e a)) eqn:G; [|discriminate].
    rewrite andb_true_iff in G. destruct G as [_ Gk]. apply is_grid2d_true in Gk.
    unfold move2d in H.
    destruct (lookup_dir (e_dirs e) (lower name)); [|injection H as _ <-; tauto].
    destruct (n <=? 0).
    + unfold set_cell in H. rewrite (proj2 (opt_eqb_true _ _) eq_refl) in H. discriminate.
    + destruct (ptr s a) as [c0|]; [|injection H as _ <-; tauto].
      destruct (walk e l (Z.to_nat n) c0) as [c1|]; [|injection H as _ <-; tauto].
      eapply Hset; eassumption.
Qed.

(* only agents of the history ever appear in a cell *)
Lemma listed_known e ops a c : caps_ok e -> In a (content (exec e init ops) c) -> in_agents e a = true.
Proof.
  intros Hc Hin. destruct (refinement e Hc ops init ainit (R_init e)) as [HR _].
  apply (r_in e _ _ HR) in Hin. tauto.
Qed.

(* ---------------------------------------------------------------- run_case is covered by the theorems *)
Definition cap_nonneg (c : option Z) : bool := match c with Some k => 0 <=? k | None => true end.
Definition case_ok (c : case) : bool := forallb cap_nonneg (c_caps c).

Lemma case_caps_ok c : case_ok c = true -> caps_ok (env_of_case c).
Proof.
  intros H i k. unfold env_of_case. cbn [e_cap].
  destruct ((0 <=? i) && (i <? c_ncells c)); [|discriminate].
  intros Hn. unfold case_ok in H. rewrite forallb_forall in H.
  destruct (nth_in_or_default (Z.to_nat i) (c_caps c) None) as [Hin|Hd].
  - specialize (H _ Hin). rewrite Hn in H. simpl in H. lia.
  - rewrite Hd in Hn. discriminate.
Qed.

(* the successive (state, result) pairs of a history *)
Fixpoint trace (e : env) (s : state) (ops : list op) : list (state * result) :=
  match ops with
  | [] => []
  | o :: t => step e s o :: trace e (fst (step e s o)) t
  end.

Lemma run_ops_trace e ops : forall s,
  run_ops e s ops = map (fun sr => obs e (fst sr) (snd sr)) (trace e s ops).
Proof.
  induction ops as [|o t IH]; intros s; simpl; [reflexivity|].
  destruct (step e s o) as [s' r]. simpl. rewrite IH. reflexivity.
Qed.

Lemma trace_inv e ops : caps_ok e -> forall s, Inv e s -> Forall (fun sr => Inv e (fst sr)) (trace e s ops).
Proof.
  intros Hc. induction ops as [|o t IH]; intros s HI; simpl; constructor.
  - destruct (step e s o) as [s' r] eqn:E. simpl. eapply step_inv; eassumption.
  - apply IH. destruct (step e s o) as [s' r] eqn:E. simpl. eapply step_inv; eassumption.
Qed.

(* every observation run_case prints (the thing the correspondence compares with the implementation) is the
   observation of a state satisfying the invariant *)
Lemma run_case_covered c :
  case_ok c = true ->
  let e := env_of_case c in
  caps_ok e /\
  run_case c = map (fun sr => obs e (fst sr) (snd sr)) (trace e init (c_ops c)) /\
  Forall (fun sr => Inv e (fst sr)) (trace e init (c_ops c)).
Proof.
  intros H e. pose proof (case_caps_ok c H) as Hc. split; [exact Hc|]. split.
  - unfold run_case. apply run_ops_trace.
  - apply trace_inv; [exact Hc|apply init_inv].
Qed.

(* ---------------------------------------------------------------- the C18 lemmas under the names Properties/C18.v re-exports *)
Lemma C18_cellspace_atomic_obs e s o s' k :
  caps_ok e -> Inv e s -> step e s o = (s', Err k) -> obs e s' (Err k) = obs e s (Err k).
Proof. intros Hc HI H. unfold obs. f_equal. eapply step_err_view; eassumption. Qed.

Lemma C18_cellspace_atomic_reachable e ops o s' k :
  caps_ok e -> step e (exec e init ops) o = (s', Err k) ->
  view e s' = view e (exec e init ops) /\ eqv (exec e init ops) s'.
Proof. apply atomic_all. Qed.

Lemma C18_cellspace_atomic_rest_of_history e s o s' k rest :
  caps_ok e -> Inv e s -> step e s o = (s', Err k) -> run_ops e s' rest = run_ops e s rest.
Proof. apply rejected_then_continue. Qed.
