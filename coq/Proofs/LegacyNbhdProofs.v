(* Lemmas about Model/LegacyNbhd.v: the neighbourhood is exactly the ball of the grid metric,
   the fast path agrees with the border path, no duplicates, and the cache is transparent. *)
From Coq Require Import ZArith List Bool Lia.
From Mesa Require Import Common.ListX Generated.Tables Model.LegacyNbhd.
Import ListNotations.
Open Scope Z_scope.

Lemma coord_eqb_spec a b : coord_eqb a b = true <-> a = b.
Proof.
  destruct a as [a1 a2], b as [b1 b2]. unfold coord_eqb. simpl.
  rewrite andb_true_iff, !Z.eqb_eq. split; [intros [-> ->]; reflexivity|].
  intros H; inversion H; auto.
Qed.

(* ---------- one axis ---------- *)
Definition wrap1 (torus : bool) (n x d : Z) : Z := if torus then (x + d) mod n else x + d.
Definition adist (torus : bool) (n a b : Z) : Z :=
  if torus then Z.min ((a - b) mod n) ((b - a) mod n) else Z.abs (a - b).

Lemma adist_le torus n x d c :
  0 < n -> c = wrap1 torus n x d -> adist torus n c x <= Z.abs d.
Proof.
  intros Hn ->. unfold adist, wrap1. destruct torus; [|lia].
  rewrite Zminus_mod_idemp_l, Zminus_mod_idemp_r.
  replace (x + d - x) with d by lia. replace (x - (x + d)) with (- d) by lia.
  destruct (Z_le_gt_dec 0 d) as [Hd|Hd].
  - pose proof (Z.mod_le d n Hd Hn). lia.
  - assert (0 <= - d) as Hd' by lia. pose proof (Z.mod_le (- d) n Hd' Hn). lia.
Qed.

Lemma adist_witness torus n x c :
  0 < n -> 0 <= c < n ->
  exists d, Z.abs d = adist torus n c x /\ wrap1 torus n x d = c.
Proof.
  intros Hn Hc. unfold adist, wrap1. destruct torus.
  - pose proof (Z.mod_pos_bound (c - x) n Hn) as H1.
    pose proof (Z.mod_pos_bound (x - c) n Hn) as H2.
    destruct (Z_le_gt_dec ((c - x) mod n) ((x - c) mod n)) as [Hle|Hgt].
    + exists ((c - x) mod n). split; [lia|].
      rewrite Zplus_mod_idemp_r. replace (x + (c - x)) with c by lia.
      apply Z.mod_small. lia.
    + exists (- ((x - c) mod n)). split; [lia|].
      replace (x + - ((x - c) mod n)) with (x - (x - c) mod n) by lia.
      rewrite Zminus_mod_idemp_r. replace (x - (x - c)) with c by lia.
      apply Z.mod_small. lia.
  - exists (c - x). split; lia.
Qed.

(* ---------- the grid metric of the statement ---------- *)
Definition dist (g : grid) (moore : bool) (a b : coord) : Z :=
  let dx := adist (g_torus g) (g_w g) (fst a) (fst b) in
  let dy := adist (g_torus g) (g_h g) (snd a) (snd b) in
  if moore then Z.max dx dy else dx + dy.

Lemma oob_false g p :
  out_of_bounds g p = false <-> 0 <= fst p < g_w g /\ 0 <= snd p < g_h g.
Proof. unfold out_of_bounds. rewrite !orb_false_iff. lia. Qed.

Lemma in_nb_slow g q c :
  In c (nb_slow g q) <->
  exists dx dy, - q_r q <= dx <= q_r q /\ - q_r q <= dy <= q_r q /\
    (q_moore q = false -> Z.abs dx + Z.abs dy <= q_r q) /\
    c = (wrap1 (g_torus g) (g_w g) (fst (q_pos q)) dx, wrap1 (g_torus g) (g_h g) (snd (q_pos q)) dy) /\
    out_of_bounds g c = false.
Proof.
  unfold nb_slow. destruct (q_pos q) as [x y] eqn:Epos. cbn [fst snd].
  rewrite in_flat_map. split.
  - intros [dx [Hdx H]]. rewrite in_flat_map in H. destruct H as [dy [Hdy H]].
    apply zrange_In in Hdx. apply zrange_In in Hdy.
    exists dx, dy.
    destruct (negb (q_moore q) && (Z.abs dx + Z.abs dy >? q_r q)) eqn:Eg; [destruct H|].
    fold (wrap1 (g_torus g) (g_w g) x dx) in H. fold (wrap1 (g_torus g) (g_h g) y dy) in H.
    destruct (out_of_bounds g _) eqn:Eo; [destruct H|].
    destruct H as [H|[]]. subst c.
    repeat split; try lia; [|exact Eo].
    intros Hm. rewrite Hm in Eg. simpl in Eg. lia.
  - intros [dx [dy [Hdx [Hdy [Hvn [Hc Ho]]]]]].
    exists dx. split; [apply zrange_In; lia|].
    rewrite in_flat_map. exists dy. split; [apply zrange_In; lia|].
    assert (negb (q_moore q) && (Z.abs dx + Z.abs dy >? q_r q) = false) as ->.
    { destruct (q_moore q); [reflexivity|]. simpl. specialize (Hvn eq_refl). lia. }
    fold (wrap1 (g_torus g) (g_w g) x dx). fold (wrap1 (g_torus g) (g_h g) y dy).
    rewrite <- Hc, Ho. left. reflexivity.
Qed.

Lemma in_nb_fast q c :
  In c (nb_fast q) <->
  fst (q_pos q) - q_r q <= fst c <= fst (q_pos q) + q_r q /\
  snd (q_pos q) - q_r q <= snd c <= snd (q_pos q) + q_r q /\
  (q_moore q = false -> Z.abs (fst c - fst (q_pos q)) + Z.abs (snd c - snd (q_pos q)) <= q_r q).
Proof.
  unfold nb_fast. destruct (q_pos q) as [x y]. cbn [fst snd].
  rewrite in_flat_map. split.
  - intros [nx [Hnx H]]. rewrite in_flat_map in H. destruct H as [ny [Hny H]].
    apply zrange_In in Hnx. apply zrange_In in Hny.
    destruct (negb (q_moore q) && _) eqn:Eg; [destruct H|].
    destruct H as [H|[]]. subst c. cbn [fst snd]. repeat split; try lia.
    intros Hm. rewrite Hm in Eg. simpl in Eg. lia.
  - intros [Hx [Hy Hvn]]. destruct c as [cx cy]. cbn [fst snd] in *.
    exists cx. split; [apply zrange_In; lia|].
    rewrite in_flat_map. exists cy. split; [apply zrange_In; lia|].
    assert (negb (q_moore q) && (Z.abs (cx - x) + Z.abs (cy - y) >? q_r q) = false) as ->.
    { destruct (q_moore q); [reflexivity|]. simpl. specialize (Hvn eq_refl). lia. }
    left. reflexivity.
Qed.

(* the interior fast path returns the same cells as the border path whenever its guard holds *)
Lemma fast_eq_slow g q c :
  0 <= q_r q -> fast_guard g q = true -> (In c (nb_fast q) <-> In c (nb_slow g q)).
Proof.
  intros Hr Hg. unfold fast_guard in Hg. destruct (q_pos q) as [x y] eqn:Epos.
  rewrite !andb_true_iff in Hg. destruct Hg as [[[G1 G2] G3] G4].
  rewrite in_nb_fast, in_nb_slow, Epos. cbn [fst snd].
  assert (forall n v d, 0 <= v + d < n -> wrap1 (g_torus g) n v d = v + d) as Hw.
  { intros n v d Hb. unfold wrap1. destruct (g_torus g); [apply Z.mod_small; lia|reflexivity]. }
  split.
  - intros [Hx [Hy Hvn]]. exists (fst c - x), (snd c - y).
    rewrite !Hw by lia. repeat split; try lia.
    + intros Hm. specialize (Hvn Hm). lia.
    + destruct c as [cx cy]; cbn [fst snd]. f_equal; lia.
    + apply oob_false. lia.
  - intros [dx [dy [Hdx [Hdy [Hvn [Hc Ho]]]]]].
    rewrite !Hw in Hc by lia. subst c. cbn [fst snd]. repeat split; try lia.
    intros Hm. specialize (Hvn Hm). lia.
Qed.

Lemma in_slow_ball g q c :
  0 < g_w g -> 0 < g_h g -> 0 <= q_r q ->
  (In c (nb_slow g q) <->
   out_of_bounds g c = false /\ dist g (q_moore q) c (q_pos q) <= q_r q).
Proof.
  intros Hw Hh Hr. rewrite in_nb_slow. unfold dist. split.
  - intros [dx [dy [Hdx [Hdy [Hvn [Hc Ho]]]]]]. split; [exact Ho|].
    subst c. cbn [fst snd].
    pose proof (adist_le (g_torus g) (g_w g) (fst (q_pos q)) dx _ Hw eq_refl) as Hx.
    pose proof (adist_le (g_torus g) (g_h g) (snd (q_pos q)) dy _ Hh eq_refl) as Hy.
    destruct (q_moore q); [lia|]. specialize (Hvn eq_refl). lia.
  - intros [Ho Hd]. pose proof Ho as Ho'. apply oob_false in Ho'. destruct Ho' as [Hcx Hcy].
    destruct (adist_witness (g_torus g) (g_w g) (fst (q_pos q)) (fst c) Hw Hcx) as [dx [Hdx Hwx]].
    destruct (adist_witness (g_torus g) (g_h g) (snd (q_pos q)) (snd c) Hh Hcy) as [dy [Hdy Hwy]].
    exists dx, dy. rewrite Hwx, Hwy.
    assert (0 <= adist (g_torus g) (g_w g) (fst c) (fst (q_pos q))) by lia.
    assert (0 <= adist (g_torus g) (g_h g) (snd c) (snd (q_pos q))) by lia.
    destruct (q_moore q).
    + repeat split; try lia; try (intros; discriminate); [destruct c; reflexivity | exact Ho].
    + repeat split; try lia; [destruct c; reflexivity | exact Ho].
Qed.

Lemma cells_exact g q c :
  0 < g_w g -> 0 < g_h g -> 0 <= q_r q ->
  (In c (compute_nbhd g q) <->
   out_of_bounds g c = false /\ dist g (q_moore q) c (q_pos q) <= q_r q /\
   (c <> q_pos q \/ q_ic q = true)).
Proof.
  intros Hw Hh Hr. unfold compute_nbhd.
  assert (In c (if fast_guard g q then nb_fast q else nb_slow g q) <->
          out_of_bounds g c = false /\ dist g (q_moore q) c (q_pos q) <= q_r q) as Hraw.
  { destruct (fast_guard g q) eqn:Eg.
    - rewrite (fast_eq_slow g q c Hr Eg). apply in_slow_ball; assumption.
    - apply in_slow_ball; assumption. }
  destruct (q_ic q).
  - rewrite (dedup_first_In coord_eqb coord_eqb_spec). rewrite Hraw. tauto.
  - rewrite (remove_key_In coord_eqb coord_eqb_spec).
    rewrite (dedup_first_In coord_eqb coord_eqb_spec). rewrite Hraw.
    split; [intros [[H1 H2] H3]; tauto|]. intros [H1 [H2 [H3|H3]]]; [tauto|discriminate].
Qed.

Lemma nbhd_nodup g q : NoDup (compute_nbhd g q).
Proof.
  unfold compute_nbhd. destruct (q_ic q).
  - apply (dedup_first_NoDup coord_eqb coord_eqb_spec).
  - apply remove_key_NoDup. apply (dedup_first_NoDup coord_eqb coord_eqb_spec).
Qed.

(* ---------- cache transparency ---------- *)
Definition field_eqb (a b : nb_field) : bool :=
  match a, b with
  | FPos, FPos | FMoore, FMoore | FCenter, FCenter | FRadius, FRadius => true
  | _, _ => false
  end.
Definition key_complete (fields : list nb_field) : bool :=
  forallb (fun f => existsb (field_eqb f) fields) [FPos; FMoore; FCenter; FRadius].

Lemma zlist_eqb_eq a b : zlist_eqb a b = true <-> a = b.
Proof.
  revert b. induction a as [|x a IH]; intros [|y b]; simpl; try (split; congruence).
  rewrite andb_true_iff, Z.eqb_eq, IH. split; [intros [-> ->]; reflexivity|].
  intros H; inversion H; auto.
Qed.

Lemma app_eq_len {A} (a a' b b' : list A) :
  length a = length a' -> a ++ b = a' ++ b' -> a = a' /\ b = b'.
Proof.
  revert a'. induction a as [|x a IH]; intros [|y a'] Hl H; simpl in *; try discriminate.
  - auto.
  - inversion H; subst. destruct (IH a') as [-> ->]; auto.
Qed.

Lemma field_val_len q q' f : length (field_val q f) = length (field_val q' f).
Proof. destruct f; reflexivity. Qed.

Lemma key_fields_eq fields q q' :
  key_of fields q = key_of fields q' -> forall f, In f fields -> field_val q f = field_val q' f.
Proof.
  unfold key_of. induction fields as [|f0 t IH]; simpl; intros H f Hin; [destruct Hin|].
  apply app_eq_len in H; [|apply field_val_len]. destruct H as [H1 H2].
  destruct Hin as [<-|Hin]; [exact H1|]. apply IH; assumption.
Qed.

Lemma field_in fields f : existsb (field_eqb f) fields = true -> In f fields.
Proof.
  rewrite existsb_exists. intros [g [Hg He]]. destruct f, g; simpl in He; try discriminate; exact Hg.
Qed.

Lemma key_injective fields q q' :
  key_complete fields = true -> key_of fields q = key_of fields q' -> q = q'.
Proof.
  unfold key_complete. simpl. rewrite !andb_true_iff.
  intros [H1 [H2 [H3 [H4 _]]]] Hk.
  pose proof (key_fields_eq fields q q' Hk) as Hf.
  pose proof (Hf FPos (field_in _ _ H1)) as E1.
  pose proof (Hf FMoore (field_in _ _ H2)) as E2.
  pose proof (Hf FCenter (field_in _ _ H3)) as E3.
  pose proof (Hf FRadius (field_in _ _ H4)) as E4.
  destruct q as [[x y] m c r], q' as [[x' y'] m' c' r']. simpl in *.
  inversion E1; inversion E4; subst.
  destruct m, m', c, c'; try discriminate; reflexivity.
Qed.

(* every cache entry was computed for an in-bounds query and equals the direct computation *)
Definition cache_ok (fields : list nb_field) (g : grid) (c : cache) : Prop :=
  forall k v, cache_get k c = Some v ->
    exists q, key_of fields q = k /\ out_of_bounds g (q_pos q) = false /\ v = compute_nbhd g q.

Definition spec_answer (g : grid) (q : query) : result (list coord) :=
  if out_of_bounds g (q_pos q) then Err E_OUT_OF_BOUNDS else Ok (compute_nbhd g q).

Lemma get_neighborhood_transparent fields g c q :
  key_complete fields = true -> cache_ok fields g c ->
  snd (get_neighborhood fields g c q) = spec_answer g q /\
  cache_ok fields g (fst (get_neighborhood fields g c q)).
Proof.
  intros Hk Hc. unfold get_neighborhood, spec_answer.
  destruct (cache_get (key_of fields q) c) as [v|] eqn:Eg.
  - destruct (Hc _ _ Eg) as [q' [Hq' [Ho ->]]].
    apply (key_injective fields) in Hq'; [|exact Hk]. subst q'.
    rewrite Ho. simpl. split; [reflexivity|exact Hc].
  - destruct (out_of_bounds g (q_pos q)) eqn:Eo; simpl; [split; [reflexivity|exact Hc]|].
    split; [reflexivity|].
    intros k v. simpl. destruct (zlist_eqb k (key_of fields q)) eqn:Ek.
    + apply zlist_eqb_eq in Ek. intros [= <-]. exists q. auto.
    + apply Hc.
Qed.

Lemma cache_ok_nil fields g : cache_ok fields g [].
Proof. intros k v H. discriminate. Qed.

(* histories of queries: every answer is the direct computation, whatever was asked before *)
Fixpoint answers (fields : list nb_field) (g : grid) (c : cache) (qs : list query)
  : list (result (list coord)) :=
  match qs with
  | [] => []
  | q :: t => let '(c', r) := get_neighborhood fields g c q in r :: answers fields g c' t
  end.

Lemma answers_history_independent fields g qs :
  key_complete fields = true ->
  answers fields g [] qs = map (spec_answer g) qs.
Proof.
  intros Hk. generalize (cache_ok_nil fields g). generalize (@nil (list Z * list coord)) as c.
  induction qs as [|q t IH]; intros c Hc; simpl; [reflexivity|].
  destruct (get_neighborhood_transparent fields g c q Hk Hc) as [H1 H2].
  destruct (get_neighborhood fields g c q) as [c' r]. simpl in *. subst r.
  f_equal. apply IH. exact H2.
Qed.

(* agents: get_neighbors / get_cell_list_contents are the occupants of exactly those cells *)
Lemma agents_in_spec cs cells a :
  In a (agents_in cs cells) <-> exists p, In p cells /\ In a (cell_agents cs p).
Proof. unfold agents_in. apply in_flat_map. Qed.
