(* The indexing / iteration forms of the legacy grids (grid[x], grid[x, y], grid[(x1, y1), ...], the three slice
   forms, coord_iter, get/iter_cell_list_contents incl. the bare-tuple form): after every history each of them shows
   the contents of the cells it names, and those are the agents whose pos is that cell. *)
From Coq Require Import ZArith List Bool Lia.
From Mesa Require Import Common.ListX Model.LegacyGrid Proofs.LegacyGridProofs.
Import ListNotations.
Open Scope Z_scope.

Lemma pyslice_full n : pyslice n None None = zrange 0 (n - 1).
Proof. reflexivity. Qed.

Lemma slice_bound_range n d b : 0 <= n -> 0 <= d <= n -> 0 <= slice_bound n d b <= n.
Proof. intros Hn Hd. unfold slice_bound. destruct b as [k|]; [|exact Hd]. cbv zeta. destruct (k <? 0); lia. Qed.

(* a slice only ever selects valid indices, the ones Python's lo:hi selects:
   bounds below 0 count from the end, then both are clamped to [0, n] *)
Lemma pyslice_In n lo hi i :
  0 <= n ->
  (In i (pyslice n lo hi) <-> slice_bound n 0 lo <= i < slice_bound n n hi) /\
  (In i (pyslice n lo hi) -> 0 <= i < n).
Proof.
  intros Hn. unfold pyslice. rewrite zrange_In.
  pose proof (slice_bound_range n 0 lo Hn ltac:(lia)). pose proof (slice_bound_range n n hi Hn ltac:(lia)).
  split; [lia|lia].
Qed.

Lemma map_flat_map_cells {B} (f : coord -> B) w h :
  flat_map (fun x => map (fun y => f (x, y)) (zrange 0 (h - 1))) (zrange 0 (w - 1)) =
  map f (flat_map (fun x => map (fun y => (x, y)) (zrange 0 (h - 1))) (zrange 0 (w - 1))).
Proof.
  induction (zrange 0 (w - 1)) as [|x t IH]; cbn [flat_map map]; [reflexivity|].
  rewrite map_app, IH, map_map. reflexivity.
Qed.

Lemma view_list_spec c s l r :
  view_list c s l = Some r <->
  exists l', map (torus_adj c) l = map Some l' /\ r = map (grid s) l'.
Proof.
  revert r. induction l as [|p t IH]; intros r; cbn [view_list map].
  - split.
    + intros H. inversion H. exists []. split; reflexivity.
    + intros [l' [H1 H2]]. destruct l'; [subst; reflexivity|discriminate].
  - destruct (torus_adj c p) as [p'|].
    + destruct (view_list c s t) as [rt|].
      * split.
        -- intros H. inversion H. subst r. destruct (proj1 (IH rt) eq_refl) as [l' [H1 H2]].
           exists (p' :: l'). cbn [map]. rewrite H1, H2. split; reflexivity.
        -- intros [l' [H1 H2]]. destruct l' as [|q l']; [discriminate|]. cbn [map] in H1. inversion H1. subst q.
           assert (Some rt = Some (map (grid s) l')) as E by (apply IH; exists l'; split; [assumption|reflexivity]).
           inversion E. subst. reflexivity.
      * split; [discriminate|]. intros [l' [H1 H2]]. destruct l' as [|q l']; [discriminate|]. cbn [map] in H1. inversion H1.
        assert (None = Some (map (grid s) l')) as E by (apply IH; exists l'; split; [assumption|reflexivity]). discriminate.
    + split; [discriminate|]. intros [l' [H1 _]]. destruct l'; discriminate.
Qed.

Lemma view_list_torus c s l :
  wf c -> c_torus c = true ->
  view_list c s l = Some (map (fun p => grid s (fst p mod c_w c, snd p mod c_h c)) l).
Proof.
  intros Hwf Ht. induction l as [|p t IH]; cbn [view_list map]; [reflexivity|].
  rewrite (torus_adj_torus c p Hwf Ht), IH. reflexivity.
Qed.

Lemma index_forms_history c ops :
  wf c -> let s := run c init ops in
  (* whichever form shows the cell p: it lists exactly the agents whose pos is p *)
  (forall a p, In a (grid s p) <-> pos s a = Some p) /\
  (* grid[x]: Python list indexing, valid for -w <= x < w, no torus adjustment *)
  (forall x, 0 <= x < c_w c ->
     view_col c s x = Some (map (fun y => grid s (x, y)) (zrange 0 (c_h c - 1))) /\
     view_col c s (x - c_w c) = view_col c s x) /\
  (forall x, x < - c_w c \/ c_w c <= x -> view_col c s x = None) /\
  (* grid[x][y] is grid[x, y] for in-grid coordinates *)
  (forall p, out_of_bounds c p = false -> view_index c s p = Some (grid s p)) /\
  (* grid[(x1, y1), ...]: every coordinate through torus_adj, in order; rejected iff one of them is *)
  (forall l r, view_list c s l = Some r <-> exists l', map (torus_adj c) l = map Some l' /\ r = map (grid s) l') /\
  (c_torus c = true -> forall l, view_list c s l = Some (map (fun p => grid s (fst p mod c_w c, snd p mod c_h c)) l)) /\
  (* the slice forms over the whole axis are the column, the row and the iteration *)
  (forall x, 0 <= x < c_w c -> view_slice_y c s x None None = view_col c s x) /\
  (forall y, 0 <= y < c_h c -> view_slice_x c s None None y = Some (map (fun x => grid s (x, y)) (zrange 0 (c_w c - 1)))) /\
  view_slice_xy c s None None None None = view_iter c s /\
  map fst (view_coord_iter c s) = view_iter c s /\
  (* partial slices show cells of valid indices only *)
  (forall lo hi i, In i (pyslice (c_w c) lo hi) -> 0 <= i < c_w c) /\
  (forall lo hi i, In i (pyslice (c_h c) lo hi) -> 0 <= i < c_h c) /\
  (* get / iter_cell_list_contents: the agents of the listed cells; a bare tuple is the list of that one cell *)
  (forall a l, In a (view_cell_list s l) <-> exists p, In p l /\ pos s a = Some p) /\
  (forall p, view_form c s (FCellList [p] true) = view_form c s (FCellList [p] false)).
Proof.
  intros Hwf s. pose proof (run_agree c ops Hwf) as Ha. fold s in Ha. destruct Hwf as [Hw Hh].
  split. { intros a p. symmetry. apply (ag_pos c s Ha). }
  split.
  { intros x Hx. unfold view_col.
    assert ((- c_w c <=? x) && (x <? c_w c) = true) as -> by (apply andb_true_iff; split; [apply Z.leb_le|apply Z.ltb_lt]; lia).
    assert ((- c_w c <=? x - c_w c) && (x - c_w c <? c_w c) = true) as -> by (apply andb_true_iff; split; [apply Z.leb_le|apply Z.ltb_lt]; lia).
    rewrite (Z.mod_small x (c_w c)) by lia.
    replace (x - c_w c) with (x + (-1) * c_w c) by lia. rewrite Z.mod_add by lia. rewrite (Z.mod_small x (c_w c)) by lia.
    split; reflexivity. }
  split.
  { intros x Hx. unfold view_col.
    assert ((- c_w c <=? x) && (x <? c_w c) = false) as -> by (apply andb_false_iff; destruct Hx; [left; apply Z.leb_gt|right; apply Z.ltb_ge]; lia).
    reflexivity. }
  split. { intros p Hp. unfold view_index. rewrite (torus_adj_inb c p Hp). reflexivity. }
  split; [apply view_list_spec|].
  split. { intros Ht l. apply view_list_torus; [split; assumption|exact Ht]. }
  split.
  { intros x Hx. unfold view_slice_y, view_col.
    assert (out_of_bounds c (x, 0) = false) as Ho by (apply oob_false_iff; cbn [fst snd]; lia).
    rewrite (torus_adj_inb c (x, 0) Ho). cbn [fst].
    assert ((- c_w c <=? x) && (x <? c_w c) = true) as -> by (apply andb_true_iff; split; [apply Z.leb_le|apply Z.ltb_lt]; lia).
    rewrite (Z.mod_small x (c_w c)) by lia. reflexivity. }
  split.
  { intros y Hy. unfold view_slice_x.
    assert (out_of_bounds c (0, y) = false) as Ho by (apply oob_false_iff; cbn [fst snd]; lia).
    rewrite (torus_adj_inb c (0, y) Ho). reflexivity. }
  split. { unfold view_slice_xy, view_iter, all_cells. rewrite !pyslice_full. apply map_flat_map_cells. }
  split. { unfold view_coord_iter, view_iter. rewrite map_map. reflexivity. }
  split. { intros lo hi i. apply pyslice_In. lia. }
  split. { intros lo hi i. apply pyslice_In. lia. }
  split.
  { intros a l. unfold view_cell_list. rewrite in_flat_map. split.
    - intros [p [Hp Hin]]. exists p. split; [exact Hp|apply (ag_pos c s Ha); exact Hin].
    - intros [p [Hp Hpos]]. exists p. split; [exact Hp|apply (ag_pos c s Ha); exact Hpos]. }
  intros p. cbn [view_form length]. rewrite !andb_true_r. cbn. rewrite andb_true_r. reflexivity.
Qed.

(* _HexGrid.torus_adj_2d (the unconditional wrap the hex neighbourhoods use) and the public torus_adj *)
Lemma hex_torus_adj_2d c p :
  wf c ->
  out_of_bounds c (torus_adj_2d c p) = false /\
  (c_torus c = true -> torus_adj c p = Some (torus_adj_2d c p)) /\
  (out_of_bounds c p = false -> torus_adj_2d c p = p /\ torus_adj c p = Some p) /\
  torus_adj_2d c (torus_adj_2d c p) = torus_adj_2d c p /\
  (forall q, torus_adj c p = Some q -> torus_adj_2d c p = q).
Proof.
  intros Hwf. pose proof Hwf as [Hw Hh]. unfold torus_adj_2d.
  pose proof (Z.mod_pos_bound (fst p) (c_w c) Hw) as Bx. pose proof (Z.mod_pos_bound (snd p) (c_h c) Hh) as By.
  split; [apply oob_false_iff; cbn [fst snd]; lia|].
  split; [intros Ht; apply torus_adj_torus; assumption|].
  split.
  { intros Hin. pose proof Hin as Hin'. apply oob_false_iff in Hin'. rewrite !Z.mod_small by lia.
    split; [destruct p; reflexivity|apply torus_adj_inb; exact Hin]. }
  split; [cbn [fst snd]; rewrite !Z.mod_mod by lia; reflexivity|].
  intros q Hq. unfold torus_adj in Hq. destruct (out_of_bounds c p) eqn:Ho; cbn [negb] in Hq.
  - destruct (c_torus c); cbn [negb] in Hq; [inversion Hq; reflexivity|discriminate].
  - inversion Hq. subst q. apply oob_false_iff in Ho. rewrite !Z.mod_small by lia. destruct p; reflexivity.
Qed.
