(* Lemmas for C17 over Model/Computed.v. *)
From Coq Require Import ZArith List Bool PeanoNat Lia.
From Mesa Require Import Model.Computed.
Import ListNotations.
Open Scope Z_scope.

(* ------------------------------------------------------------------ small facts *)
Lemma src_eqb_eq : forall a b, src_eqb a b = true <-> a = b.
Proof.
  intros [o n|k] [o' n'|k']; simpl; split; intro H; try discriminate.
  - apply andb_true_iff in H. destruct H as [H1 H2]. apply Z.eqb_eq in H1. apply Z.eqb_eq in H2. congruence.
  - inversion H; subst. rewrite !Z.eqb_refl. reflexivity.
  - apply Nat.eqb_eq in H. congruence.
  - inversion H; subst. apply Nat.eqb_refl.
Qed.

Lemma src_eqb_refl : forall a, src_eqb a a = true.
Proof. intro a. apply src_eqb_eq. reflexivity. Qed.

Lemma src_eqb_neq : forall a b, src_eqb a b = false <-> a <> b.
Proof.
  intros a b. split; intro H.
  - intro E. apply src_eqb_eq in E. congruence.
  - destruct (src_eqb a b) eqn:E; auto. apply src_eqb_eq in E. contradiction.
Qed.

Lemma updn_same : forall A (f : nat -> A) k v, updn f k v k = v.
Proof. intros. unfold updn. rewrite Nat.eqb_refl. reflexivity. Qed.
Lemma updn_other : forall A (f : nat -> A) k v i, i <> k -> updn f k v i = f i.
Proof. intros. unfold updn. destruct (Nat.eqb i k) eqn:E; auto. apply Nat.eqb_eq in E. contradiction. Qed.

Lemma upds_same : forall f s v, upds f s v s = v.
Proof. intros. unfold upds. rewrite src_eqb_refl. reflexivity. Qed.
Lemma upds_other : forall f s v s', s' <> s -> upds f s v s' = f s'.
Proof. intros. unfold upds. destruct (src_eqb s' s) eqn:E; auto. apply src_eqb_eq in E. contradiction. Qed.

Lemma in_remove_nat : forall j l i, In i (remove_nat j l) <-> In i l /\ i <> j.
Proof.
  intros. unfold remove_nat. rewrite filter_In. split; intros [H1 H2]; split; auto.
  - intro E. subst. rewrite Nat.eqb_refl in H2. discriminate.
  - destruct (Nat.eqb i j) eqn:E; auto. apply Nat.eqb_eq in E. contradiction.
Qed.

(* ------------------------------------------------------------------ the parents dictionary *)
Lemma in_flat : forall (P : pdict) p, In p (flat P) <-> exists o l, In (o, l) P /\ In p l.
Proof.
  intros. unfold flat. rewrite in_flat_map. split.
  - intros [[o l] [H1 H2]]. exists o, l. auto.
  - intros [o [l [H1 H2]]]. exists (o, l). auto.
Qed.

(* membership in iadd, weak and strong forms that we actually need *)
Lemma in_iadd_inv : forall l s v p, In p (iadd l s v) -> p = (s, v) \/ In p l.
Proof.
  induction l as [|[s' v'] t IH]; simpl; intros s v p H.
  - destruct H as [H|[]]. auto.
  - destruct (src_eqb s s') eqn:E.
    + apply src_eqb_eq in E. subst s'. destruct H as [H|H]; auto.
    + destruct H as [H|H]; auto. apply IH in H. destruct H; auto.
Qed.

Lemma in_iadd_new : forall l s v, In (s, v) (iadd l s v).
Proof.
  induction l as [|[s' v'] t IH]; simpl; intros s v; auto.
  destruct (src_eqb s s') eqn:E.
  - apply src_eqb_eq in E. subst. left. reflexivity.
  - right. apply IH.
Qed.

(* an old pair survives unless it is overwritten with a different value *)
Lemma in_iadd_old : forall l s v s0 v0, In (s0, v0) l -> (s0 = s -> v0 = v) -> In (s0, v0) (iadd l s v).
Proof.
  induction l as [|[s' v'] t IH]; simpl; intros s v s0 v0 H Hk; [contradiction|].
  destruct (src_eqb s s') eqn:E.
  - apply src_eqb_eq in E. subst s'. destruct H as [H|H].
    + inversion H; subst. left. rewrite (Hk eq_refl). reflexivity.
    + right. exact H.
  - destruct H as [H|H].
    + left. exact H.
    + right. apply IH; auto.
Qed.

Lemma in_padd_inv : forall P o s v o' l, In (o', l) (padd P o s v) ->
  (o' = o /\ forall p, In p l -> p = (s, v) \/ exists l0, In (o, l0) P /\ In p l0) \/ In (o', l) P.
Proof.
  induction P as [|[o1 l1] t IH]; simpl; intros o s v o' l H.
  - destruct H as [H|[]]. inversion H; subst. left. split; auto. intros p [Hp|[]]. auto.
  - destruct (o =? o1) eqn:E.
    + apply Z.eqb_eq in E. subst o1. destruct H as [H|H].
      * inversion H; subst. left. split; auto. intros p Hp. apply in_iadd_inv in Hp.
        destruct Hp; auto. right. exists l1. auto.
      * right. right. exact H.
    + destruct H as [H|H].
      * right. left. exact H.
      * apply IH in H. destruct H as [[H1 H2]|H].
        -- left. split; auto. intros p Hp. destruct (H2 p Hp) as [|[l0 [Ha Hb]]]; auto.
           right. exists l0. auto.
        -- right. right. exact H.
Qed.

Lemma in_flat_padd_inv : forall P o s v p, In p (flat (padd P o s v)) -> p = (s, v) \/ In p (flat P).
Proof.
  intros P o s v p H. apply in_flat in H. destruct H as [o' [l [H1 H2]]].
  apply in_padd_inv in H1. destruct H1 as [[_ H1]|H1].
  - destruct (H1 p H2) as [|[l0 [Ha Hb]]]; auto. right. apply in_flat. exists o, l0. auto.
  - right. apply in_flat. exists o', l. auto.
Qed.

Lemma in_flat_padd_new : forall P o s v, In (s, v) (flat (padd P o s v)).
Proof.
  induction P as [|[o1 l1] t IH]; simpl; intros o s v.
  - left. reflexivity.
  - destruct (o =? o1) eqn:E; unfold flat; simpl; apply in_or_app.
    + left. apply in_iadd_new.
    + right. apply IH.
Qed.

Lemma in_flat_padd_old : forall P o s v s0 v0, In (s0, v0) (flat P) -> (s0 = s -> v0 = v) ->
  In (s0, v0) (flat (padd P o s v)).
Proof.
  induction P as [|[o1 l1] t IH]; simpl; intros o s v s0 v0 H Hk; [contradiction|].
  unfold flat in H. simpl in H. apply in_app_or in H.
  destruct (o =? o1) eqn:E; unfold flat; simpl; apply in_or_app.
  - destruct H as [H|H]; [left; apply in_iadd_old; auto | right; exact H].
  - destruct H as [H|H]; [left; exact H | right; apply IH; auto].
Qed.

(* every entry sits under the key of its owner *)
Definition owner_keyed (ow : src -> Z) (P : pdict) : Prop :=
  forall o l, In (o, l) P -> forall p, In p l -> ow (fst p) = o.

Lemma padd_owner_keyed : forall ow P s v, owner_keyed ow P -> owner_keyed ow (padd P (ow s) s v).
Proof.
  intros ow P s v H o l Hin p Hp. apply in_padd_inv in Hin. destruct Hin as [[E Hin]|Hin].
  - subst o. destruct (Hin p Hp) as [Hq|[l0 [Ha Hb]]].
    + subst p. reflexivity.
    + eapply H; eauto.
  - eapply H; eauto.
Qed.

(* ================================================================== *)
Section P.
  Variable prog : list cdef.
  Notation n := (ncomp prog).
  Notation cown := (cowner prog).
  Notation ownof := (owner_of prog).

  (* ---------------------------------------------------------------- denotation: what the function of
     computed k returns if evaluated right now, on store sto with live owners al *)
  Fixpoint pev (den : nat -> Z) (al : Z -> bool) (sto : Z -> Z -> Z) (j : nat) (e : expr) : Z :=
    match e with
    | Const z => z
    | Obs o nm => if al o then sto o nm else 0
    | Comp k => if (k <? j)%nat && al (cown k) then den k else 0
    | Add a b => pev den al sto j a + pev den al sto j b
    | If c a b => if pev den al sto j c =? 0 then pev den al sto j b else pev den al sto j a
    end.

  Fixpoint denf (f : nat) (al : Z -> bool) (sto : Z -> Z -> Z) (k : nat) : Z :=
    match f with
    | O => 0
    | S f' => pev (denf f' al sto) al sto k (d_expr (cdef_at prog k))
    end.

  Definition den (al : Z -> bool) (sto : Z -> Z -> Z) (k : nat) : Z := denf (S k) al sto k.

  Lemma pev_ext : forall d1 d2 al sto j e, (forall i, (i < j)%nat -> d1 i = d2 i) ->
    pev d1 al sto j e = pev d2 al sto j e.
  Proof.
    intros d1 d2 al sto j e H. induction e; simpl; auto.
    - destruct (k <? j)%nat eqn:E; simpl; auto. apply Nat.ltb_lt in E. destruct (al (cown k)); auto.
    - rewrite IHe1, IHe2. reflexivity.
    - rewrite IHe1, IHe2, IHe3. reflexivity.
  Qed.

  Lemma denf_irrel : forall f f' al sto k, (k < f)%nat -> (k < f')%nat -> denf f al sto k = denf f' al sto k.
  Proof.
    induction f as [|f IH]; intros f' al sto k H1 H2; [lia|].
    destruct f' as [|f']; [lia|]. simpl. apply pev_ext. intros i Hi. apply IH; lia.
  Qed.

  Lemma den_unfold : forall al sto k,
    den al sto k = pev (den al sto) al sto k (d_expr (cdef_at prog k)).
  Proof.
    intros. unfold den at 1. simpl. apply pev_ext. intros i Hi. unfold den. apply denf_irrel; lia.
  Qed.

  Definition dsrc (al : Z -> bool) (sto : Z -> Z -> Z) (s : src) : Z :=
    match s with SObs o nm => sto o nm | SComp k => den al sto k end.
  Definition D (st : state) (k : nat) : Z := den (alive st) (store st) k.
  Definition Dsrc (st : state) (s : src) : Z := dsrc (alive st) (store st) s.

  (* the reads a function performs, in order, with the values read *)
  Fixpoint preads (dn : nat -> Z) (al : Z -> bool) (sto : Z -> Z -> Z) (j : nat) (e : expr) : list (src * Z) :=
    match e with
    | Const _ => []
    | Obs o nm => if al o then [(SObs o nm, sto o nm)] else []
    | Comp k => if (k <? j)%nat && al (cown k) then [(SComp k, dn k)] else []
    | Add a b => preads dn al sto j a ++ preads dn al sto j b
    | If c a b => preads dn al sto j c ++
                  (if pev dn al sto j c =? 0 then preads dn al sto j b else preads dn al sto j a)
    end.
  Definition reads_of (al : Z -> bool) (sto : Z -> Z -> Z) (j : nat) : list (src * Z) :=
    preads (den al sto) al sto j (d_expr (cdef_at prog j)).

  (* the values read determine the result and the reads themselves *)
  Lemma preads_det : forall al sto0 sto' j e,
    (forall s x, In (s, x) (preads (den al sto0) al sto0 j e) -> dsrc al sto' s = x) ->
    pev (den al sto') al sto' j e = pev (den al sto0) al sto0 j e /\
    preads (den al sto') al sto' j e = preads (den al sto0) al sto0 j e.
  Proof.
    intros al sto0 sto' j. induction e as [z|o nm|k|a IHa b IHb|c IHc a IHa b IHb]; simpl; intros H.
    - auto.
    - destruct (al o) eqn:E; auto. specialize (H (SObs o nm) (sto0 o nm) (or_introl eq_refl)). simpl in H.
      rewrite H. auto.
    - destruct ((k <? j)%nat && al (cown k)) eqn:E; auto.
      specialize (H (SComp k) (den al sto0 k) (or_introl eq_refl)). simpl in H. rewrite H. auto.
    - destruct IHa as [A1 A2]; [intros; apply H; apply in_or_app; auto|].
      destruct IHb as [B1 B2]; [intros; apply H; apply in_or_app; auto|].
      rewrite A1, A2, B1, B2. auto.
    - destruct IHc as [C1 C2]; [intros; apply H; apply in_or_app; auto|].
      rewrite C1, C2. destruct (pev (den al sto0) al sto0 j c =? 0).
      + destruct IHb as [B1 B2]; [intros; apply H; apply in_or_app; auto|]. rewrite B1, B2. auto.
      + destruct IHa as [A1 A2]; [intros; apply H; apply in_or_app; auto|]. rewrite A1, A2. auto.
  Qed.

  (* the remembered (source, value) pairs are exactly the reads of an evaluation on some store sto0
     (the store of the last evaluation), with the values read, and v is its result *)
  Definition RD (al : Z -> bool) (j : nat) (P : pdict) (v : Z) : Prop :=
    exists sto0, (forall p, In p (flat P) <-> In p (reads_of al sto0 j)) /\ v = den al sto0 j.

  (* hence they determine the value: on every store on which the remembered sources have the
     remembered values, the function returns v (and performs the same reads) *)
  Lemma RD_det : forall al j P v, RD al j P v ->
    forall sto', (forall s x, In (s, x) (flat P) -> dsrc al sto' s = x) ->
    den al sto' j = v /\ (forall p, In p (flat P) <-> In p (reads_of al sto' j)).
  Proof.
    intros al j P v [sto0 [Hp Hv]] sto' H.
    destruct (preads_det al sto0 sto' j (d_expr (cdef_at prog j))) as [E1 E2].
    { intros s x Hin. apply H. apply Hp. exact Hin. }
    split.
    - rewrite den_unfold, E1, Hv, den_unfold. reflexivity.
    - intro p. unfold reads_of. rewrite E2. apply Hp.
  Qed.

  (* ---------------------------------------------------------------- the invariant *)
  Record G (st : state) : Prop := {
    g_alive : forall o, alive st o = true;
    g_subs_valid : forall s d, In d (subs st s) -> (d < n)%nat;
    g_subs_up : forall c d, In d (subs st (SComp c)) -> (c < d)%nat;
    g_par_down : forall j k x, In (SComp k, x) (flat (parents st j)) -> (k < j)%nat;
    g_par_owner : forall j, owner_keyed ownof (parents st j);
    g_subs_par : forall s d, In d (subs st s) -> exists x, In (s, x) (flat (parents st d));
    g_par_sub : forall j s x, In (s, x) (flat (parents st j)) -> In j (subs st s);
    g_clean_valid : forall j, dirty st j = false -> (j < n)%nat;
    g_clean_first : forall j, dirty st j = false -> first st j = false;
    g_clean_val : forall j s x, dirty st j = false -> In (s, x) (flat (parents st j)) -> Dsrc st s = x;
    g_clean_par : forall j k x, dirty st j = false -> In (SComp k, x) (flat (parents st j)) -> dirty st k = false
  }.

  Definition RDs (m : nat) (st : state) : Prop :=
    forall j, (j < m)%nat -> first st j = false -> RD (alive st) j (parents st j) (value st j).

  (* what an evaluation of computeds below b leaves alone *)
  Definition same_hi (b : nat) (st st' : state) : Prop :=
    store st' = store st /\ alive st' = alive st /\
    (forall i, (b <= i)%nat -> dirty st' i = dirty st i /\ first st' i = first st i /\ value st' i = value st i /\
                               count st' i = count st i /\ parents st' i = parents st i) /\
    (forall s i, (b <= i)%nat -> (In i (subs st' s) <-> In i (subs st s))) /\
    (forall i, dirty st' i = true -> dirty st i = true).

  Lemma same_hi_refl : forall b st, same_hi b st st.
  Proof. intros. unfold same_hi. repeat split; auto. Qed.

  Lemma same_hi_trans : forall b st1 st2 st3, same_hi b st1 st2 -> same_hi b st2 st3 -> same_hi b st1 st3.
  Proof.
    intros b st1 st2 st3 (A1 & A2 & A3 & A4 & A5) (B1 & B2 & B3 & B4 & B5). unfold same_hi.
    split; [congruence|]. split; [congruence|]. split; [|split].
    - intros i Hi. destruct (A3 i Hi) as (a1 & a2 & a3 & a4 & a5). destruct (B3 i Hi) as (b1 & b2 & b3 & b4 & b5).
      repeat split; congruence.
    - intros s i Hi. rewrite (B4 s i Hi). apply A4. exact Hi.
    - intros i H. apply A5. apply B5. exact H.
  Qed.

  Lemma same_hi_mono : forall b b' st st', (b <= b')%nat -> same_hi b st st' -> same_hi b' st st'.
  Proof.
    intros b b' st st' Hb (A1 & A2 & A3 & A4 & A5). unfold same_hi.
    split; auto. split; auto. split; [|split]; auto.
    - intros i Hi. apply A3. lia.
    - intros s i Hi. apply A4. lia.
  Qed.

  (* ---------------------------------------------------------------- the dirty cascade *)
  (* st' differs from st only by more dirty flags *)
  Definition only_dirty (st st' : state) : Prop :=
    store st' = store st /\ alive st' = alive st /\ first st' = first st /\ value st' = value st /\
    count st' = count st /\ parents st' = parents st /\ subs st' = subs st /\ ps st' = ps st /\
    (forall i, dirty st i = true -> dirty st' i = true) /\
    (forall i, dirty st' i = true -> dirty st i = true \/ (i < n)%nat).

  Definition closed (st st' : state) : Prop :=
    forall b, dirty st b = false -> dirty st' b = true ->
    forall d, In d (subs st (SComp b)) -> dirty st' d = true.

  Lemma only_dirty_refl : forall st, only_dirty st st.
  Proof. intros. unfold only_dirty. repeat split; auto. Qed.

  Lemma only_dirty_trans : forall a b c, only_dirty a b -> only_dirty b c -> only_dirty a c.
  Proof.
    intros a b c (A1 & A2 & A3 & A4 & A5 & A6 & A7 & A8 & A9 & A10) (B1 & B2 & B3 & B4 & B5 & B6 & B7 & B8 & B9 & B10).
    unfold only_dirty. repeat split; try congruence; auto.
    intros i H. destruct (B10 i H); auto.
  Qed.

  Lemma closed_trans : forall a b c, only_dirty a b -> only_dirty b c -> closed a b -> closed b c -> closed a c.
  Proof.
    intros a b c Hab Hbc C1 C2 x Hx1 Hx2 d Hd.
    destruct Hab as (_ & _ & _ & _ & _ & _ & As & _ & A9 & _).
    destruct Hbc as (_ & _ & _ & _ & _ & _ & Bs & _ & B9 & _).
    destruct (dirty b x) eqn:E.
    - apply B9. eapply C1; eauto.
    - eapply C2; eauto. rewrite As. exact Hd.
  Qed.

  Definition sd_ok (f : nat) : Prop :=
    forall st c, (forall o, alive st o = true) ->
      (forall c d, In d (subs st (SComp c)) -> (c < d < n)%nat) ->
      (n <= f + c)%nat ->
      let st' := set_dirty prog f st c in
      only_dirty st st' /\ ((c < n)%nat -> dirty st' c = true) /\ closed st st'.

  Lemma sd_fold : forall f, sd_ok f -> forall l st,
    (forall o, alive st o = true) ->
    (forall c d, In d (subs st (SComp c)) -> (c < d < n)%nat) ->
    (forall d, In d l -> (n <= f + d)%nat) ->
    let st' := fold_left (set_dirty prog f) l st in
    only_dirty st st' /\ (forall d, In d l -> (d < n)%nat -> dirty st' d = true) /\ closed st st'.
  Proof.
    intros f Hf. induction l as [|d l IH]; intros st Hal Hup Hl; simpl.
    - split; [apply only_dirty_refl|]. split; [intros d []|]. intros b H1 H2. congruence.
    - destruct (Hf st d Hal Hup (Hl d (or_introl eq_refl))) as (O1 & D1 & C1).
      set (st1 := set_dirty prog f st d) in *.
      assert (Hal1 : forall o, alive st1 o = true).
      { destruct O1 as (_ & E & _). rewrite E. exact Hal. }
      assert (Hup1 : forall c d, In d (subs st1 (SComp c)) -> (c < d < n)%nat).
      { destruct O1 as (_ & _ & _ & _ & _ & _ & E & _). rewrite E. exact Hup. }
      destruct (IH st1 Hal1 Hup1 (fun x Hx => Hl x (or_intror Hx))) as (O2 & D2 & C2).
      split; [eapply only_dirty_trans; eauto|]. split.
      + intros x [Hx|Hx] Hn.
        * subst x. destruct O2 as (_ & _ & _ & _ & _ & _ & _ & _ & M & _). apply M. apply D1. exact Hn.
        * apply D2; auto.
      + eapply closed_trans; eauto.
  Qed.

  Lemma sd_all : forall f, sd_ok f.
  Proof.
    induction f as [|f IH]; intros st c Hal Hup Hn; simpl.
    - split; [apply only_dirty_refl|]. split; [intro; lia|]. intros b H1 H2. congruence.
    - destruct (c <? n)%nat eqn:Ec; simpl.
      2:{ apply Nat.ltb_ge in Ec. split; [apply only_dirty_refl|]. split; [intro; lia|]. intros b H1 H2. congruence. }
      apply Nat.ltb_lt in Ec. rewrite Hal. simpl.
      destruct (dirty st c) eqn:Ed.
      + split; [apply only_dirty_refl|]. split; [auto|]. intros b H1 H2. congruence.
      + set (st1 := upd_dirty st (updn (dirty st) c true)).
        assert (O1 : only_dirty st st1).
        { unfold only_dirty, st1. simpl. repeat split; auto.
          - intros i H. unfold updn. destruct (Nat.eqb i c); auto.
          - intros i H. unfold updn in H. destruct (Nat.eqb i c) eqn:E; auto. apply Nat.eqb_eq in E. subst. auto. }
        destruct (sd_fold f IH (subs st (SComp c)) st1) as (O2 & D2 & C2).
        { exact Hal. } { exact Hup. } { intros d Hd. apply Hup in Hd. lia. }
        split; [eapply only_dirty_trans; eauto|]. split.
        * intros _. destruct O2 as (_ & _ & _ & _ & _ & _ & _ & _ & M & _). apply M. unfold st1. simpl. apply updn_same.
        * intros b Hb1 Hb2 d Hd.
          destruct (Nat.eq_dec b c) as [->|Hne].
          -- apply D2; auto. apply Hup in Hd. lia.
          -- destruct O1 as (_ & _ & _ & _ & _ & _ & Es & _).
             apply (C2 b); auto.
             unfold st1. simpl. rewrite updn_other; auto.
  Qed.

  (* ---------------------------------------------------------------- notifications that change nothing *)
  Lemma set_dirty_dirty : forall f st c, dirty st c = true -> set_dirty prog f st c = st.
  Proof.
    intros [|f] st c H; simpl; auto.
    destruct (negb (c <? n)%nat); auto. destruct (negb (alive st (cown c))); auto. rewrite H. reflexivity.
  Qed.

  Lemma fold_sd_id : forall f l st, (forall d, In d l -> dirty st d = true) -> fold_left (set_dirty prog f) l st = st.
  Proof.
    induction l as [|d l IH]; intros st H; simpl; auto.
    rewrite set_dirty_dirty by (apply H; left; reflexivity). apply IH. intros x Hx. apply H. right. exact Hx.
  Qed.

  Lemma notify_id : forall st s, (forall d, In d (subs st s) -> dirty st d = true) -> notify prog st s = st.
  Proof. intros. unfold notify. apply fold_sd_id. assumption. Qed.

  (* a notification touches nothing but dirty flags *)
  Definition nodirty_eq (st st' : state) : Prop :=
    store st' = store st /\ alive st' = alive st /\ first st' = first st /\ value st' = value st /\
    count st' = count st /\ parents st' = parents st /\ subs st' = subs st /\ ps st' = ps st.

  Lemma sd_frame : forall f st c, nodirty_eq st (set_dirty prog f st c).
  Proof.
    assert (R : forall st, nodirty_eq st st) by (intro; unfold nodirty_eq; repeat split; auto).
    assert (T : forall a b c, nodirty_eq a b -> nodirty_eq b c -> nodirty_eq a c).
    { intros a b c (A1 & A2 & A3 & A4 & A5 & A6 & A7 & A8) (B1 & B2 & B3 & B4 & B5 & B6 & B7 & B8).
      unfold nodirty_eq. repeat split; congruence. }
    induction f as [|f IH]; intros st c; simpl; auto.
    destruct (negb (c <? n)%nat); auto. destruct (negb (alive st (cown c))); auto.
    destruct (dirty st c); auto.
    assert (H : forall l s, nodirty_eq s (fold_left (set_dirty prog f) l s)).
    { induction l as [|d l IHl]; intros s; simpl; auto. eapply T; [apply IH|apply IHl]. }
    eapply T; [|apply H]. unfold nodirty_eq. repeat split; auto.
  Qed.

  Lemma notify_frame : forall st s, nodirty_eq st (notify prog st s).
  Proof.
    intros st s. unfold notify. generalize (subs st s). intro l. revert st.
    induction l as [|d l IH]; intros st; simpl.
    - unfold nodirty_eq. repeat split; auto.
    - destruct (sd_frame n st d) as (A1 & A2 & A3 & A4 & A5 & A6 & A7 & A8).
      destruct (IH (set_dirty prog n st d)) as (B1 & B2 & B3 & B4 & B5 & B6 & B7 & B8).
      unfold nodirty_eq. repeat split; congruence.
  Qed.

  Lemma G_ps : forall st l, G st -> G (upd_ps st l).
  Proof. intros st l []. constructor; simpl; auto. Qed.

  Lemma D_same : forall st st', store st' = store st -> alive st' = alive st -> forall k, D st' k = D st k.
  Proof. intros st st' H1 H2 k. unfold D. rewrite H1, H2. reflexivity. Qed.
  Lemma Dsrc_same : forall st st', store st' = store st -> alive st' = alive st -> forall s, Dsrc st' s = Dsrc st s.
  Proof. intros st st' H1 H2 s. unfold Dsrc. rewrite H1, H2. reflexivity. Qed.

  (* ---------------------------------------------------------------- _add_parent keeps the invariant *)
  Lemma G_add_parent : forall st j s v, G st -> dirty st j = true -> (j < n)%nat ->
    (forall k, s = SComp k -> (k < j)%nat) -> G (add_parent prog st j s v).
  Proof.
    intros st j s v HG Hd Hj Hk. destruct HG.
    assert (Ep : forall i, parents (add_parent prog st j s v) i =
                           if Nat.eqb i j then padd (parents st j) (ownof s) s v else parents st i).
    { intro i. reflexivity. }
    assert (Es : forall s', subs (add_parent prog st j s v) s' =
                            if src_eqb s' s then subs st s ++ [j] else subs st s').
    { intro s'. reflexivity. }
    constructor.
    - exact g_alive0.
    - intros s' d H. rewrite Es in H. destruct (src_eqb s' s) eqn:E.
      + apply in_app_or in H. destruct H as [H|[H|[]]]; [eauto|subst; auto].
      + eauto.
    - intros c d H. rewrite Es in H. destruct (src_eqb (SComp c) s) eqn:E.
      + apply src_eqb_eq in E. apply in_app_or in H. destruct H as [H|[H|[]]].
        * subst s. eauto.
        * subst d. apply Hk. auto.
      + eauto.
    - intros i k x H. rewrite Ep in H. destruct (Nat.eqb i j) eqn:E.
      + apply Nat.eqb_eq in E. subst i. apply in_flat_padd_inv in H. destruct H as [H|H].
        * inversion H. apply Hk. auto.
        * eauto.
      + eauto.
    - intros i. rewrite Ep. destruct (Nat.eqb i j) eqn:E; [|apply g_par_owner0].
      apply padd_owner_keyed. apply g_par_owner0.
    - intros s' d H. rewrite Es in H. rewrite Ep.
      destruct (src_eqb s' s) eqn:E.
      + apply src_eqb_eq in E. subst s'. apply in_app_or in H. destruct H as [H|[H|[]]].
        * destruct (g_subs_par0 s d H) as [x Hx]. destruct (Nat.eqb d j) eqn:E2.
          -- exists v. apply in_flat_padd_new.
          -- exists x. exact Hx.
        * subst d. rewrite Nat.eqb_refl. exists v. apply in_flat_padd_new.
      + destruct (g_subs_par0 s' d H) as [x Hx]. destruct (Nat.eqb d j) eqn:E2.
        * apply Nat.eqb_eq in E2. subst d. exists x. apply in_flat_padd_old; auto.
          intro E3. subst s'. rewrite src_eqb_refl in E. discriminate.
        * exists x. exact Hx.
    - intros i s' x H. rewrite Ep in H. rewrite Es.
      destruct (Nat.eqb i j) eqn:E.
      + apply Nat.eqb_eq in E. subst i. apply in_flat_padd_inv in H. destruct H as [H|H].
        * inversion H. subst. rewrite src_eqb_refl. apply in_or_app. right. left. reflexivity.
        * apply g_par_sub0 in H. destruct (src_eqb s' s) eqn:E2; auto.
          apply src_eqb_eq in E2. subst s'. apply in_or_app. left. exact H.
      + apply g_par_sub0 in H. destruct (src_eqb s' s) eqn:E2; auto.
        apply src_eqb_eq in E2. subst s'. apply in_or_app. left. exact H.
    - exact g_clean_valid0.
    - exact g_clean_first0.
    - intros i s' x Hc H. rewrite Ep in H. destruct (Nat.eqb i j) eqn:E.
      + apply Nat.eqb_eq in E. subst i. simpl in Hc. congruence.
      + exact (g_clean_val0 i s' x Hc H).
    - intros i k x Hc H. rewrite Ep in H. destruct (Nat.eqb i j) eqn:E.
      + apply Nat.eqb_eq in E. subst i. simpl in Hc. congruence.
      + exact (g_clean_par0 i k x Hc H).
  Qed.

  Lemma same_hi_add_parent : forall st j s v, same_hi (S j) st (add_parent prog st j s v).
  Proof.
    intros. unfold same_hi. split; [reflexivity|]. split; [reflexivity|]. split; [|split].
    - intros i Hi. repeat split; auto. simpl. rewrite updn_other; auto. lia.
    - intros s' i Hi. simpl. unfold upds. destruct (src_eqb s' s) eqn:E; [|tauto].
      apply src_eqb_eq in E. subst s'. rewrite in_app_iff. simpl. split; [intros [H|[H|[]]]; auto; lia | auto].
    - auto.
  Qed.

  (* ---------------------------------------------------------------- Computed.__call__ *)
  Definition Kinv (j : nat) (st : state) : Prop :=
    forall s x, In (s, x) (flat (parents st j)) -> Dsrc st s = x /\ (forall k, s = SComp k -> dirty st k = false).

  Definition call_ok (f : nat) : Prop :=
    forall st j m, (j < f)%nat -> (j < n)%nat -> (j < m)%nat -> G st -> RDs m st ->
      let '(st', v) := callf prog f st j in
      G st' /\ RDs m st' /\ v = D st j /\ dirty st' j = false /\ value st' j = v /\
      same_hi (S j) st st' /\ (dirty st j = false -> v = value st j /\ first st j = false).

  Section Step.
    Variable f : nat.
    Hypothesis IHf : call_ok f.

    (* when a Computable's value changed, everything subscribed to it is dirty already *)
    Lemma subs_dirty_after : forall st st1 k, G st -> G st1 -> same_hi (S k) st st1 -> dirty st k = true ->
      forall d, In d (subs st1 (SComp k)) -> dirty st1 d = true.
    Proof.
      intros st st1 k HG HG1 HS Hd d Hin.
      assert (Hkd : (k < d)%nat) by (eapply g_subs_up; eauto).
      destruct HS as (_ & _ & A3 & A4 & _).
      apply A4 in Hin; [|lia]. destruct (A3 d ltac:(lia)) as (E & _). rewrite E.
      destruct (dirty st d) eqn:Edd; auto.
      destruct (g_subs_par _ HG _ _ Hin) as [x Hx].
      rewrite (g_clean_par _ HG d k x Edd Hx) in Hd. discriminate.
    Qed.

    Lemma rc_ok : forall st k m, (k < f)%nat -> (k < n)%nat -> (k < m)%nat -> G st -> RDs m st ->
      let '(st', v) := read_comp prog (callf prog f) None st k in
      G st' /\ RDs m st' /\ v = D st k /\ dirty st' k = false /\ value st' k = v /\ same_hi (S k) st st'.
    Proof.
      intros st k m Hkf Hkn Hkm HG HR. unfold read_comp.
      pose proof (IHf st k m Hkf Hkn Hkm HG HR) as H.
      destruct (callf prog f st k) as [st1 v]. destruct H as (G1 & R1 & Ev & Dk & Vk & HS & Hc).
      assert (En : (if first st k || negb (v =? value st k) then notify prog st1 (SComp k) else st1) = st1).
      { destruct (first st k || negb (v =? value st k)) eqn:E; auto.
        assert (Hdk : dirty st k = true).
        { destruct (dirty st k) eqn:Ed; auto. destruct (Hc eq_refl) as [Hv Hf]. rewrite <- Hv in E.
          rewrite Hf, Z.eqb_refl in E. discriminate. }
        apply notify_id. eapply (subs_dirty_after st st1 k); eauto. }
      rewrite En. auto 10.
    Qed.

    Lemma cmp_ok : forall j m l st, (j <= f)%nat -> (j <= n)%nat -> (j <= m)%nat -> G st -> RDs m st ->
      (forall k x, In (SComp k, x) l -> (k < j)%nat) ->
      let '(st', ch) := cmp_items prog (callf prog f) l st in
      G st' /\ RDs m st' /\ same_hi j st st' /\
      (ch = false -> forall s x, In (s, x) l -> Dsrc st s = x /\ (forall k, s = SComp k -> dirty st' k = false)) /\
      (ch = true -> exists s x, In (s, x) l /\ Dsrc st s <> x).
    Proof.
      intros j m. induction l as [|[s old] t IH]; intros st Hjf Hjn Hjm HG HR Hl; simpl.
      - split; auto. split; auto. split; [apply same_hi_refl|]. split; [intros _ s x []|discriminate].
      - destruct s as [o nm|k].
        + destruct (store st o nm =? old) eqn:E.
          * specialize (IH st Hjf Hjn Hjm HG HR (fun k x H => Hl k x (or_intror H))).
            destruct (cmp_items prog (callf prog f) t st) as [st' ch].
            destruct IH as (G1 & R1 & S1 & C1 & C2). split; auto. split; auto. split; auto. split.
            -- intros Hch s x [H|H].
               ++ inversion H; subst. split; [apply Z.eqb_eq; exact E|intros k Hk; discriminate].
               ++ apply C1; auto.
            -- intros Hch. destruct (C2 Hch) as [s [x [H1 H2]]]. exists s, x. split; [right; exact H1|exact H2].
          * split; auto. split; auto. split; [apply same_hi_refl|]. split; [discriminate|].
            intros _. exists (SObs o nm), old. split; [left; reflexivity|]. apply Z.eqb_neq. exact E.
        + assert (Hkj : (k < j)%nat) by (eapply Hl; left; reflexivity).
          pose proof (rc_ok st k m ltac:(lia) ltac:(lia) ltac:(lia) HG HR) as H.
          destruct (read_comp prog (callf prog f) None st k) as [st1 v].
          destruct H as (G1 & R1 & Ev & Dk & Vk & HS).
          assert (HS' : same_hi j st st1) by (eapply same_hi_mono; [|exact HS]; lia).
          destruct (v =? old) eqn:E.
          * specialize (IH st1 Hjf Hjn Hjm G1 R1 (fun k x H => Hl k x (or_intror H))).
            destruct (cmp_items prog (callf prog f) t st1) as [st' ch].
            destruct IH as (G2 & R2 & S2 & C1 & C2).
            destruct HS as (Es & Ea & _).
            split; auto. split; auto. split; [eapply same_hi_trans; eauto|]. split.
            -- intros Hch s x [H|H].
               ++ inversion H; subst. split; [simpl; apply Z.eqb_eq in E; unfold D in E; congruence|].
                  intros k' Hk'. inversion Hk'; subst k'.
                  destruct S2 as (_ & _ & _ & _ & N). destruct (dirty st' k) eqn:Ed; auto.
                  apply N in Ed. congruence.
               ++ destruct (C1 Hch s x H) as [Hv Hd]. split; auto. rewrite <- Hv. symmetry. apply Dsrc_same; auto.
            -- intros Hch. destruct (C2 Hch) as [s [x [H1 H2]]]. exists s, x. split; [right; exact H1|].
               rewrite <- (Dsrc_same st st1 Es Ea). exact H2.
          * split; auto. split; auto. split; auto. split; [discriminate|].
            intros _. exists (SComp k), old. split; [left; reflexivity|]. simpl. apply Z.eqb_neq in E.
            unfold D in Ev. congruence.
    Qed.

    Lemma RDs_ext : forall m st st', alive st' = alive st ->
      (forall i, (i < m)%nat -> first st' i = first st i /\ parents st' i = parents st i /\ value st' i = value st i) ->
      RDs m st -> RDs m st'.
    Proof.
      intros m st st' Ea H HR i Hi Hf. destruct (H i Hi) as (E1 & E2 & E3).
      rewrite Ea, E2, E3. apply HR; auto. congruence.
    Qed.

    Lemma ap_RDs : forall st j s v, RDs j st -> RDs j (add_parent prog st j s v).
    Proof.
      intros st j s v HR. eapply RDs_ext; [| |exact HR]; [reflexivity|].
      intros i Hi. simpl. rewrite updn_other by lia. auto.
    Qed.

    Lemma ap_Kinv : forall st j s v, Kinv j st -> Dsrc st s = v -> (forall k, s = SComp k -> dirty st k = false) ->
      Kinv j (add_parent prog st j s v).
    Proof.
      intros st j s v HK Hv Hd s' x H. simpl in H. rewrite updn_same in H.
      apply in_flat_padd_inv in H. destruct H as [H|H].
      - inversion H; subst. split; auto.
      - apply HK in H. exact H.
    Qed.

    Lemma ap_mono : forall st j s v, Kinv j st -> Dsrc st s = v ->
      forall p, In p (flat (parents st j)) -> In p (flat (parents (add_parent prog st j s v) j)).
    Proof.
      intros st j s v HK Hv [s0 v0] H. simpl. rewrite updn_same. apply in_flat_padd_old; auto.
      intro E. subst s0. destruct (HK _ _ H) as [H1 _]. congruence.
    Qed.

    Lemma ev_ok : forall j, (j <= f)%nat -> (j < n)%nat -> forall e st,
      G st -> RDs j st -> dirty st j = true -> Kinv j st ->
      let '(st', v) := ev prog (callf prog f) j e st in
      G st' /\ RDs j st' /\ Kinv j st' /\ v = pev (D st) (alive st) (store st) j e /\
      (forall p, In p (flat (parents st j)) -> In p (flat (parents st' j))) /\
      (forall sto', (forall s x, In (s, x) (flat (parents st' j)) -> dsrc (alive st) sto' s = x) ->
                    pev (den (alive st) sto') (alive st) sto' j e = v) /\
      same_hi (S j) st st' /\
      dirty st' j = true /\ first st' j = first st j /\ value st' j = value st j /\ count st' j = count st j.
    Proof.
      intros j Hjf Hjn. induction e as [z|o nm|k|a IHa b IHb|c IHc a IHa b IHb]; intros st HG HR Hd HK.
      - simpl. split; auto. split; auto. split; auto. split; auto. split; auto. split; auto.
        split; [apply same_hi_refl|]. auto.
      - simpl. rewrite (g_alive _ HG o).
        set (v := store st o nm).
        assert (Hv : Dsrc st (SObs o nm) = v) by reflexivity.
        assert (Hk : forall k, SObs o nm = SComp k -> (k < j)%nat) by (intros k Hk; discriminate).
        assert (Hk' : forall k, SObs o nm = SComp k -> dirty st k = false) by (intros k Hk'; discriminate).
        pose proof (G_add_parent st j (SObs o nm) v HG Hd Hjn Hk) as G1.
        split; [apply G_ps; exact G1|]. split; [apply (ap_RDs st j (SObs o nm) v HR)|].
        split; [apply (ap_Kinv st j (SObs o nm) v HK Hv Hk')|]. split; [reflexivity|].
        split; [apply (ap_mono st j (SObs o nm) v HK Hv)|]. split.
        + intros sto' H. specialize (H (SObs o nm) v). simpl in H. apply H.
          rewrite updn_same. apply in_flat_padd_new.
        + split; [apply (same_hi_add_parent st j (SObs o nm) v)|]. simpl. auto.
      - simpl. destruct ((k <? j)%nat && alive st (cown k)) eqn:Ec.
        2:{ split; auto. split; auto. split; auto. split; auto. split; auto. split; auto.
            split; [apply same_hi_refl|]. auto. }
        apply andb_true_iff in Ec. destruct Ec as [Ekj Eal]. apply Nat.ltb_lt in Ekj.
        unfold read_comp.
        pose proof (IHf st k j ltac:(lia) ltac:(lia) Ekj HG HR) as H.
        destruct (callf prog f st k) as [st1 v]. destruct H as (G1 & R1 & Ev & Dk & Vk & HS & Hc).
        assert (Es : store st1 = store st) by apply HS.
        assert (Ea : alive st1 = alive st) by apply HS.
        assert (Hd1 : dirty st1 j = true).
        { destruct HS as (_ & _ & A3 & _). destruct (A3 j ltac:(lia)) as (E & _). congruence. }
        assert (HK1 : Kinv j st1).
        { intros s x H. destruct HS as (_ & _ & A3 & _ & N). destruct (A3 j ltac:(lia)) as (_ & _ & _ & _ & E).
          rewrite E in H. destruct (HK s x H) as [H1 H2]. split.
          - rewrite <- H1. apply Dsrc_same; auto.
          - intros k' Hk'. specialize (H2 k' Hk'). destruct (dirty st1 k') eqn:Ed; auto. apply N in Ed. congruence. }
        assert (Hv : Dsrc st1 (SComp k) = v).
        { rewrite (Dsrc_same st st1 Es Ea). simpl. symmetry. exact Ev. }
        assert (Hk : forall k', SComp k = SComp k' -> (k' < j)%nat) by (intros k' Hk; inversion Hk; subst; exact Ekj).
        assert (Hk' : forall k', SComp k = SComp k' -> dirty st1 k' = false) by (intros k' Hk'; inversion Hk'; subst; exact Dk).
        pose proof (G_add_parent st1 j (SComp k) v G1 Hd1 Hjn Hk) as G2.
        set (st2 := add_parent prog st1 j (SComp k) v) in *.
        assert (En : (if first st k || negb (v =? value st k) then notify prog st2 (SComp k) else st2) = st2).
        { destruct (first st k || negb (v =? value st k)) eqn:E; auto.
          assert (Hdk : dirty st k = true).
          { destruct (dirty st k) eqn:Ed; auto. destruct (Hc eq_refl) as [Hv' Hf]. rewrite <- Hv' in E.
            rewrite Hf, Z.eqb_refl in E. discriminate. }
          apply notify_id. intros d Hin. unfold st2 in Hin. simpl in Hin. rewrite upds_same in Hin.
          apply in_app_or in Hin. destruct Hin as [Hin|[Hin|[]]].
          - change (dirty st2 d) with (dirty st1 d). eapply (subs_dirty_after st st1 k); eauto.
          - subst d. exact Hd1. }
        rewrite En.
        assert (HS2 : same_hi (S j) st st2).
        { eapply same_hi_trans; [eapply same_hi_mono; [|exact HS]; lia|]. apply same_hi_add_parent. }
        split; [exact G2|]. split; [apply (ap_RDs st1 j (SComp k) v R1)|].
        split; [apply (ap_Kinv st1 j (SComp k) v HK1 Hv Hk')|].
        split; [exact Ev|].
        split.
        { intros p Hp. apply (ap_mono st1 j (SComp k) v HK1 Hv).
          destruct HS as (_ & _ & A3 & _). destruct (A3 j ltac:(lia)) as (_ & _ & _ & _ & E). rewrite E. exact Hp. }
        split.
        { intros sto' H. specialize (H (SComp k) v). simpl in H.
          apply H. rewrite updn_same. apply in_flat_padd_new. }
        split; [exact HS2|].
        destruct HS as (_ & _ & A3 & _). destruct (A3 j ltac:(lia)) as (E1 & E2 & E3 & E4 & E5).
        unfold st2. simpl. auto.
      - simpl. specialize (IHa st HG HR Hd HK).
        destruct (ev prog (callf prog f) j a st) as [st1 va].
        destruct IHa as (G1 & R1 & K1 & V1 & M1 & Det1 & S1 & D1 & F1 & Va1 & C1).
        assert (Es : store st1 = store st) by apply S1.
        assert (Ea : alive st1 = alive st) by apply S1.
        specialize (IHb st1 G1 R1 D1 K1).
        destruct (ev prog (callf prog f) j b st1) as [st2 vb].
        destruct IHb as (G2 & R2 & K2 & V2 & M2 & Det2 & S2 & D2 & F2 & Va2 & C2).
        split; auto. split; auto. split; auto.
        split; [unfold D in *; rewrite Es, Ea in V2; congruence|].
        split; [auto|]. split.
        + intros sto' H. rewrite Ea in Det2. rewrite (Det1 sto'), (Det2 sto'); auto.
        + split; [eapply same_hi_trans; eauto|]. repeat split; congruence.
      - simpl. specialize (IHc st HG HR Hd HK).
        destruct (ev prog (callf prog f) j c st) as [st1 vc].
        destruct IHc as (G1 & R1 & K1 & V1 & M1 & Det1 & S1 & D1 & F1 & Va1 & C1).
        assert (Es : store st1 = store st) by apply S1.
        assert (Ea : alive st1 = alive st) by apply S1.
        destruct (vc =? 0) eqn:Ez.
        + specialize (IHb st1 G1 R1 D1 K1).
          destruct (ev prog (callf prog f) j b st1) as [st2 vb].
          destruct IHb as (G2 & R2 & K2 & V2 & M2 & Det2 & S2 & D2 & F2 & Va2 & C2).
          split; auto. split; auto. split; auto.
          split; [rewrite <- V1, Ez; unfold D in *; rewrite Es, Ea in V2; congruence|].
          split; [auto|]. split.
          * intros sto' H. rewrite Ea in Det2. rewrite (Det1 sto'), Ez; auto.
          * split; [eapply same_hi_trans; eauto|]. repeat split; congruence.
        + specialize (IHa st1 G1 R1 D1 K1).
          destruct (ev prog (callf prog f) j a st1) as [st2 vb].
          destruct IHa as (G2 & R2 & K2 & V2 & M2 & Det2 & S2 & D2 & F2 & Va2 & C2).
          split; auto. split; auto. split; auto.
          split; [rewrite <- V1, Ez; unfold D in *; rewrite Es, Ea in V2; congruence|].
          split; [auto|]. split.
          * intros sto' H. rewrite Ea in Det2. rewrite (Det1 sto'), Ez; auto.
          * split; [eapply same_hi_trans; eauto|]. repeat split; congruence.
    Qed.

    (* what the evaluation adds to Computed.parents is exactly what the function reads *)
    Lemma ev_reads : forall j, (j <= f)%nat -> (j < n)%nat -> forall e st,
      G st -> RDs j st -> dirty st j = true -> Kinv j st ->
      let '(st', v) := ev prog (callf prog f) j e st in
      (forall p, In p (flat (parents st' j)) ->
                 In p (flat (parents st j)) \/ In p (preads (D st) (alive st) (store st) j e)) /\
      (forall p, In p (preads (D st) (alive st) (store st) j e) -> In p (flat (parents st' j))).
    Proof.
      intros j Hjf Hjn. induction e as [z|o nm|k|a IHa b IHb|c IHc a IHa b IHb]; intros st HG HR Hd HK.
      - simpl. split; [auto|intros p []].
      - simpl. rewrite (g_alive _ HG o). simpl. rewrite updn_same. split.
        + intros p H. apply in_flat_padd_inv in H. destruct H as [H|H]; [right; left; auto|left; exact H].
        + intros p [H|[]]. subst p. apply in_flat_padd_new.
      - simpl. destruct ((k <? j)%nat && alive st (cown k)) eqn:Ec; [|split; [auto|intros p []]].
        apply andb_true_iff in Ec. destruct Ec as [Ekj Eal]. apply Nat.ltb_lt in Ekj.
        unfold read_comp.
        pose proof (IHf st k j ltac:(lia) ltac:(lia) Ekj HG HR) as H.
        destruct (callf prog f st k) as [st1 v]. destruct H as (G1 & R1 & Ev & Dk & Vk & HS & Hc).
        assert (Ep : parents st1 j = parents st j).
        { destruct HS as (_ & _ & A3 & _). apply A3. lia. }
        set (st2 := add_parent prog st1 j (SComp k) v).
        assert (E3 : parents (if first st k || negb (v =? value st k) then notify prog st2 (SComp k) else st2) j
                     = padd (parents st j) (cown k) (SComp k) v).
        { assert (E2 : parents st2 j = padd (parents st j) (cown k) (SComp k) v).
          { unfold st2. simpl. rewrite updn_same, Ep. reflexivity. }
          destruct (first st k || negb (v =? value st k)); auto.
          destruct (notify_frame st2 (SComp k)) as (_ & _ & _ & _ & _ & E & _). rewrite E. exact E2. }
        rewrite E3. split.
        + intros p H. apply in_flat_padd_inv in H. destruct H as [H|H]; [right; left; congruence|left; exact H].
        + intros p [H|[]]. subst p. rewrite <- Ev. apply in_flat_padd_new.
      - simpl. pose proof (ev_ok j Hjf Hjn a st HG HR Hd HK) as Ha. specialize (IHa st HG HR Hd HK).
        destruct (ev prog (callf prog f) j a st) as [st1 va].
        destruct Ha as (G1 & R1 & K1 & V1 & M1 & Det1 & S1 & D1 & _).
        assert (Es : store st1 = store st) by apply S1.
        assert (Ea : alive st1 = alive st) by apply S1.
        pose proof (ev_ok j Hjf Hjn b st1 G1 R1 D1 K1) as Hb. specialize (IHb st1 G1 R1 D1 K1).
        destruct (ev prog (callf prog f) j b st1) as [st2 vb].
        destruct Hb as (_ & _ & _ & _ & M2 & _).
        unfold D in IHb. rewrite Es, Ea in IHb. fold (D st) in IHb.
        destruct IHa as [A1 A2]. destruct IHb as [B1 B2]. split.
        + intros p H. apply B1 in H. destruct H as [H|H].
          * apply A1 in H. destruct H; auto. right. apply in_or_app. auto.
          * right. apply in_or_app. auto.
        + intros p H. apply in_app_or in H. destruct H as [H|H]; auto.
      - simpl. pose proof (ev_ok j Hjf Hjn c st HG HR Hd HK) as Hc. specialize (IHc st HG HR Hd HK).
        destruct (ev prog (callf prog f) j c st) as [st1 vc].
        destruct Hc as (G1 & R1 & K1 & V1 & M1 & Det1 & S1 & D1 & _).
        assert (Es : store st1 = store st) by apply S1.
        assert (Ea : alive st1 = alive st) by apply S1.
        rewrite <- V1. destruct IHc as [C1 C2].
        destruct (vc =? 0).
        + pose proof (ev_ok j Hjf Hjn b st1 G1 R1 D1 K1) as Hb. specialize (IHb st1 G1 R1 D1 K1).
          destruct (ev prog (callf prog f) j b st1) as [st2 vb].
          destruct Hb as (_ & _ & _ & _ & M2 & _).
          unfold D in IHb. rewrite Es, Ea in IHb. fold (D st) in IHb. destruct IHb as [B1 B2]. split.
          * intros p H. apply B1 in H. destruct H as [H|H].
            -- apply C1 in H. destruct H; auto. right. apply in_or_app. auto.
            -- right. apply in_or_app. auto.
          * intros p H. apply in_app_or in H. destruct H as [H|H]; auto.
        + pose proof (ev_ok j Hjf Hjn a st1 G1 R1 D1 K1) as Hb. specialize (IHa st1 G1 R1 D1 K1).
          destruct (ev prog (callf prog f) j a st1) as [st2 vb].
          destruct Hb as (_ & _ & _ & _ & M2 & _).
          unfold D in IHa. rewrite Es, Ea in IHa. fold (D st) in IHa. destruct IHa as [B1 B2]. split.
          * intros p H. apply B1 in H. destruct H as [H|H].
            -- apply C1 in H. destruct H; auto. right. apply in_or_app. auto.
            -- right. apply in_or_app. auto.
          * intros p H. apply in_app_or in H. destruct H as [H|H]; auto.
    Qed.

    Lemma G_remove_parents : forall st j, G st -> dirty st j = true -> G (remove_parents prog st j).
    Proof.
      intros st j HG Hd. destruct HG.
      assert (Ep : forall i, parents (remove_parents prog st j) i = if Nat.eqb i j then [] else parents st i).
      { intro i. reflexivity. }
      assert (Es : forall s, subs (remove_parents prog st j) s =
                             if existsb (Z.eqb (ownof s)) (map fst (parents st j))
                             then remove_nat j (subs st s) else subs st s).
      { intro s. reflexivity. }
      assert (Hsub : forall s d, In d (subs (remove_parents prog st j) s) -> In d (subs st s) /\ d <> j).
      { intros s d H. rewrite Es in H. destruct (existsb (Z.eqb (ownof s)) (map fst (parents st j))) eqn:E.
        - apply in_remove_nat in H. exact H.
        - split; auto. intro Ej. subst d. destruct (g_subs_par0 s j H) as [x Hx].
          apply in_flat in Hx. destruct Hx as [o [l [H1 H2]]].
          assert (existsb (Z.eqb (ownof s)) (map fst (parents st j)) = true).
          { apply existsb_exists. exists o. split.
            - apply in_map_iff. exists (o, l). auto.
            - apply Z.eqb_eq. apply (g_par_owner0 j o l H1 (s, x) H2). }
          congruence. }
      constructor.
      - exact g_alive0.
      - intros s d H. apply Hsub in H. destruct H. eauto.
      - intros c d H. apply Hsub in H. destruct H. eauto.
      - intros i k x H. rewrite Ep in H. destruct (Nat.eqb i j); [destruct H|eauto].
      - intros i. rewrite Ep. destruct (Nat.eqb i j); [|apply g_par_owner0]. intros o l [].
      - intros s d H. apply Hsub in H. destruct H as [H Hne]. rewrite Ep.
        destruct (Nat.eqb d j) eqn:E; [apply Nat.eqb_eq in E; contradiction|]. eauto.
      - intros i s x H. rewrite Ep in H. destruct (Nat.eqb i j) eqn:E; [destruct H|].
        apply g_par_sub0 in H. rewrite Es. destruct (existsb (Z.eqb (ownof s)) (map fst (parents st j))); auto.
        apply in_remove_nat. split; auto. intro. subst. rewrite Nat.eqb_refl in E. discriminate.
      - exact g_clean_valid0.
      - exact g_clean_first0.
      - intros i s x Hc H. rewrite Ep in H. destruct (Nat.eqb i j) eqn:E; [destruct H|].
        exact (g_clean_val0 i s x Hc H).
      - intros i k x Hc H. rewrite Ep in H. destruct (Nat.eqb i j) eqn:E; [destruct H|].
        exact (g_clean_par0 i k x Hc H).
    Qed.

    Lemma same_hi_remove_parents : forall st j, same_hi (S j) st (remove_parents prog st j).
    Proof.
      intros. unfold same_hi. split; [reflexivity|]. split; [reflexivity|]. split; [|split].
      - intros i Hi. repeat split; auto. simpl. rewrite updn_other; auto. lia.
      - intros s i Hi. simpl. destruct (existsb (Z.eqb (ownof s)) (map fst (parents st j))); [|tauto].
        rewrite in_remove_nat. split; [tauto|]. intro. split; auto. lia.
      - auto.
    Qed.

    Definition RDx (m j : nat) (st : state) : Prop :=
      forall i, (i < m)%nat -> i <> j -> first st i = false -> RD (alive st) i (parents st i) (value st i).

    Lemma rebuild_ok : forall j m st1, (j <= f)%nat -> (j < n)%nat -> (j < m)%nat ->
      G st1 -> RDx m j st1 -> dirty st1 j = true -> first st1 j = false ->
      let '(stb, v) := ev prog (callf prog f) j (d_expr (cdef_at prog j)) (remove_parents prog st1 j) in
      let st2 := upd_count (upd_value stb (updn (value stb) j v)) (updn (count stb) j (count stb j + 1)) in
      let st3 := upd_dirty st2 (updn (dirty st2) j false) in
      G st3 /\ RDs m st3 /\ v = D st1 j /\ dirty st3 j = false /\ value st3 j = v /\ same_hi (S j) st1 st3.
    Proof.
      intros j m st1 Hjf Hjn Hjm HG HR Hd Hf.
      set (sta := remove_parents prog st1 j).
      assert (Ga : G sta) by (apply G_remove_parents; auto).
      assert (Ra : RDs j sta).
      { intros i Hi Hfi. unfold sta in *. simpl in *. rewrite updn_other by lia. apply HR; auto; lia. }
      assert (Ka : Kinv j sta).
      { intros s x H. unfold sta in H. simpl in H. rewrite updn_same in H. destruct H. }
      assert (Sa : same_hi (S j) st1 sta) by apply same_hi_remove_parents.
      pose proof (ev_ok j Hjf Hjn (d_expr (cdef_at prog j)) sta Ga Ra Hd Ka) as H.
      pose proof (ev_reads j Hjf Hjn (d_expr (cdef_at prog j)) sta Ga Ra Hd Ka) as Hrd.
      destruct (ev prog (callf prog f) j (d_expr (cdef_at prog j)) sta) as [stb v].
      destruct Hrd as [Rd1 Rd2].
      destruct H as (Gb & Rb & Kb & Vb & Mb & Detb & Sb & Db & Fb & Valb & Cb).
      assert (Sab : same_hi (S j) st1 stb) by (eapply same_hi_trans; eauto).
      assert (Esb : store stb = store st1) by apply Sab.
      assert (Eab : alive stb = alive st1) by apply Sab.
      cbv zeta.
      set (st3 := upd_dirty _ _).
      assert (Ed3 : forall i, dirty st3 i = if Nat.eqb i j then false else dirty stb i) by (intro; reflexivity).
      assert (Ev3 : forall i, value st3 i = if Nat.eqb i j then v else value stb i) by (intro; reflexivity).
      split.
      { destruct Gb. constructor; try assumption.
        - intros i Hc. rewrite Ed3 in Hc. destruct (Nat.eqb i j) eqn:E; [apply Nat.eqb_eq in E; subst; auto|auto].
        - intros i Hc. rewrite Ed3 in Hc.
          destruct (Nat.eqb i j) eqn:E; [apply Nat.eqb_eq in E; subst|exact (g_clean_first0 i Hc)].
          change (first stb j = false). rewrite Fb. exact Hf.
        - intros i s x Hc H. rewrite Ed3 in Hc. change (In (s, x) (flat (parents stb i))) in H.
          change (Dsrc stb s = x).
          destruct (Nat.eqb i j) eqn:E; [apply Nat.eqb_eq in E; subst|eauto]. apply Kb. exact H.
        - intros i k x Hc H. rewrite Ed3 in Hc. change (In (SComp k, x) (flat (parents stb i))) in H.
          rewrite Ed3. destruct (Nat.eqb k j) eqn:E2; auto.
          destruct (Nat.eqb i j) eqn:E; [apply Nat.eqb_eq in E; subst|eauto].
          destruct (Kb _ _ H) as [_ Hk]. apply Hk. reflexivity. }
      split.
      { intros i Hi Hfi. change (first stb i = false) in Hfi.
        change (RD (alive stb) i (parents stb i) (value st3 i)). rewrite Ev3.
        destruct (Nat.eqb i j) eqn:E.
        - apply Nat.eqb_eq in E. subst i. exists (store st1). rewrite Eab. split.
          + intro p. unfold reads_of. split; intro Hp.
            * destruct (Rd1 p Hp) as [Hq|Hq]; [|exact Hq].
              unfold sta in Hq. simpl in Hq. rewrite updn_same in Hq. destruct Hq.
            * apply Rd2. exact Hp.
          + rewrite Vb. rewrite den_unfold. reflexivity.
        - apply Nat.eqb_neq in E. destruct (Nat.lt_ge_cases i j) as [Hlt|Hge].
          + apply Rb; auto.
          + destruct Sab as (_ & _ & A3 & _). destruct (A3 i ltac:(lia)) as (_ & E2 & E3 & _ & E5).
            rewrite Eab, E3, E5. apply HR; auto. congruence. }
      split.
      { rewrite Vb. unfold D. rewrite den_unfold. reflexivity. }
      split; [rewrite Ed3, Nat.eqb_refl; reflexivity|].
      split; [rewrite Ev3, Nat.eqb_refl; reflexivity|].
      destruct Sab as (A1 & A2 & A3 & A4 & A5). unfold same_hi.
      split; [exact A1|]. split; [exact A2|]. split; [|split].
      - intros i Hi. destruct (A3 i Hi) as (a1 & a2 & a3 & a4 & a5).
        assert (Nat.eqb i j = false) by (apply Nat.eqb_neq; lia).
        rewrite Ed3, Ev3, H. repeat split; auto.
        change (count st3 i) with (updn (count stb) j (count stb j + 1) i). rewrite updn_other by lia. exact a4.
      - intros s i Hi. apply (A4 s i Hi).
      - intros i H. rewrite Ed3 in H. destruct (Nat.eqb i j); [discriminate|]. apply A5. exact H.
    Qed.

    Lemma call_step : call_ok (S f).
    Proof.
      intros st j m Hjf Hjn Hjm HG HR. simpl.
      destruct (dirty st j) eqn:Ed; simpl.
      2:{ split; auto. split; auto. split.
          { symmetry. apply (RD_det _ _ _ _ (HR j Hjm (g_clean_first _ HG j Ed)) (store st)).
            intros s x H. exact (g_clean_val _ HG j s x Ed H). }
          split; auto. split; auto. split; [apply same_hi_refl|]. intros _. split; auto.
          eapply g_clean_first; eauto. }
      destruct (first st j) eqn:Ef.
      - set (st1 := upd_first st (updn (first st) j false)).
        assert (G1 : G st1).
        { destruct HG. constructor; try assumption.
          intros i Hc. change (updn (first st) j false i = false). unfold updn.
          destruct (Nat.eqb i j); auto. }
        assert (R1 : RDx m j st1).
        { intros i Hi Hne Hfi. unfold st1 in *. simpl in *. rewrite updn_other in Hfi by auto. apply HR; auto. }
        pose proof (rebuild_ok j m st1 ltac:(lia) Hjn Hjm G1 R1 Ed (updn_same _ _ _ _)) as H.
        destruct (ev prog (callf prog f) j (d_expr (cdef_at prog j)) (remove_parents prog st1 j)) as [stb v].
        cbv zeta in H. destruct H as (G3 & R3 & V3 & D3 & Val3 & S3).
        split; [exact G3|]. split; [exact R3|]. split; [exact (eq_trans Val3 V3)|]. split; [exact D3|]. split; [reflexivity|].
        split; [|intro; discriminate].
        eapply same_hi_trans; [|exact S3].
        unfold same_hi, st1. split; [reflexivity|]. split; [reflexivity|]. split; [|split]; auto.
        + intros i Hi. simpl. rewrite updn_other by lia. auto.
        + tauto.
      - pose proof (cmp_ok j m (flat (parents st j)) st ltac:(lia) ltac:(lia) ltac:(lia) HG HR
                      (fun k x H => g_par_down _ HG j k x H)) as H.
        destruct (cmp_items prog (callf prog f) (flat (parents st j)) st) as [st1 ch].
        destruct H as (G1 & R1 & S1 & C1 & C2).
        assert (Ej : dirty st1 j = dirty st j /\ first st1 j = first st j /\ value st1 j = value st j /\
                     count st1 j = count st j /\ parents st1 j = parents st j).
        { destruct S1 as (_ & _ & A3 & _). apply A3. lia. }
        destruct Ej as (E1 & E2 & E3 & E4 & E5).
        destruct ch.
        + assert (R1x : RDx m j st1) by (intros i Hi _ Hfi; apply R1; auto).
          pose proof (rebuild_ok j m st1 ltac:(lia) Hjn Hjm G1 R1x ltac:(congruence) ltac:(congruence)) as H.
          destruct (ev prog (callf prog f) j (d_expr (cdef_at prog j)) (remove_parents prog st1 j)) as [stb v].
          cbv zeta in H. destruct H as (G3 & R3 & V3 & D3 & Val3 & S3).
          split; [exact G3|]. split; [exact R3|].
          split; [transitivity v; [exact Val3|]; rewrite V3; apply D_same; apply S1|]. split; [exact D3|]. split; [reflexivity|].
          split; [|intro; discriminate].
          eapply same_hi_trans; [eapply same_hi_mono; [|exact S1]; lia|exact S3].
        + specialize (C1 eq_refl).
          set (st3 := upd_dirty st1 (updn (dirty st1) j false)).
          assert (Ed3 : forall i, dirty st3 i = if Nat.eqb i j then false else dirty st1 i) by (intro; reflexivity).
          assert (Es1 : store st1 = store st) by apply S1.
          assert (Ea1 : alive st1 = alive st) by apply S1.
          split.
          { destruct G1. constructor; try assumption.
            - intros i Hc. rewrite Ed3 in Hc. destruct (Nat.eqb i j) eqn:E; [apply Nat.eqb_eq in E; subst; auto|auto].
            - intros i Hc. rewrite Ed3 in Hc.
              destruct (Nat.eqb i j) eqn:E; [apply Nat.eqb_eq in E; subst|exact (g_clean_first0 i Hc)].
              change (first st1 j = false). congruence.
            - intros i s x Hc H. rewrite Ed3 in Hc. change (In (s, x) (flat (parents st1 i))) in H.
              change (Dsrc st1 s = x).
              destruct (Nat.eqb i j) eqn:E; [apply Nat.eqb_eq in E; subst|eauto].
              rewrite E5 in H. rewrite (Dsrc_same st st1 Es1 Ea1). apply C1. exact H.
            - intros i k x Hc H. rewrite Ed3 in Hc. change (In (SComp k, x) (flat (parents st1 i))) in H.
              rewrite Ed3. destruct (Nat.eqb k j) eqn:E0; auto.
              destruct (Nat.eqb i j) eqn:E; [apply Nat.eqb_eq in E; subst|eauto].
              rewrite E5 in H. destruct (C1 _ _ H) as [_ Hk]. apply Hk. reflexivity. }
          split; [eapply RDs_ext; [| |exact R1]; [reflexivity|]; intros; auto|].
          assert (Hv : value st1 j = D st j).
          { rewrite E3. symmetry. apply (RD_det _ _ _ _ (HR j Hjm Ef) (store st)). intros s x H. apply C1. exact H. }
          split; [exact Hv|]. split; [rewrite Ed3, Nat.eqb_refl; reflexivity|]. split; [reflexivity|].
          split; [|intro; discriminate].
          eapply same_hi_trans; [eapply same_hi_mono; [|exact S1]; lia|].
          unfold same_hi. split; [reflexivity|]. split; [reflexivity|]. split; [|split].
          * intros i Hi. rewrite Ed3. assert (Nat.eqb i j = false) by (apply Nat.eqb_neq; lia). rewrite H. auto.
          * tauto.
          * intros i H. rewrite Ed3 in H. destruct (Nat.eqb i j); [discriminate|exact H].
    Qed.
  End Step.

  Lemma call_all : forall f, call_ok f.
  Proof.
    induction f as [|f IH].
    - intros st j m H. lia.
    - apply call_step. exact IH.
  Qed.

  (* ---------------------------------------------------------------- which functions run during a read *)
  Definition just (st : state) (i : nat) : Prop :=
    first st i = true \/ exists s x, In (s, x) (flat (parents st i)) /\ Dsrc st s <> x.

  (* what happened to computed i between st and st': nothing but (possibly) being found unchanged, or
     exactly one run of its function, justified in st, leaving the reads of that run as parents *)
  Definition Q (st st' : state) (i : nat) : Prop :=
    (count st' i = count st i /\ parents st' i = parents st i /\ first st' i = first st i /\ value st' i = value st i)
    \/
    (count st' i = count st i + 1 /\ dirty st i = true /\ dirty st' i = false /\ just st i /\
     (forall p, In p (flat (parents st' i)) <-> In p (reads_of (alive st) (store st) i))).

  Lemma Q_refl : forall st i, Q st st i.
  Proof. intros. left. auto. Qed.

  Lemma Q_trans : forall a b c i, Q a b i -> Q b c i -> store b = store a -> alive b = alive a ->
    (dirty b i = true -> dirty a i = true) -> (dirty c i = true -> dirty b i = true) -> Q a c i.
  Proof.
    intros a b c i [(A1 & A2 & A3 & A4)|(A1 & A2 & A3 & A4 & A5)] [(B1 & B2 & B3 & B4)|(B1 & B2 & B3 & B4 & B5)] Es Ea N1 N2.
    - left. repeat split; congruence.
    - right. split; [congruence|]. split; [auto|]. split; [auto|]. split.
      + destruct B4 as [H|[s [x [H1 H2]]]]; [left; congruence|right].
        exists s, x. split; [congruence|]. unfold Dsrc in *. rewrite <- Es, <- Ea. exact H2.
      + rewrite <- Es, <- Ea. exact B5.
    - right. split; [congruence|]. split; [auto|]. split.
      + destruct (dirty c i) eqn:E; auto. rewrite (N2 eq_refl) in A3. discriminate.
      + split; auto. rewrite B2. exact A5.
    - congruence.
  Qed.

  Lemma Q_same_hi : forall b st st' i, same_hi b st st' -> (b <= i)%nat -> Q st st' i.
  Proof. intros b st st' i (_ & _ & A3 & _) Hi. destruct (A3 i Hi) as (a1 & a2 & a3 & a4 & a5). left. auto. Qed.

  Definition call_q (f : nat) : Prop :=
    forall st j m, (j < f)%nat -> (j < n)%nat -> (j < m)%nat -> G st -> RDs m st ->
      forall i, Q st (fst (callf prog f st j)) i.

  Section StepQ.
    Variable f : nat.
    Hypothesis IHq : call_q f.

    (* Computable.__get__ = Computed.__call__ here: the change notification finds everybody dirty *)
    Lemma rc_eq : forall st k m, (k < f)%nat -> (k < n)%nat -> (k < m)%nat -> G st -> RDs m st ->
      read_comp prog (callf prog f) None st k = callf prog f st k.
    Proof.
      intros st k m Hkf Hkn Hkm HG HR. unfold read_comp.
      pose proof (call_all f st k m Hkf Hkn Hkm HG HR) as H.
      destruct (callf prog f st k) as [st1 v]. destruct H as (G1 & R1 & Ev & Dk & Vk & HS & Hc).
      destruct (first st k || negb (v =? value st k)) eqn:E; auto.
      assert (Hdk : dirty st k = true).
      { destruct (dirty st k) eqn:Ed; auto. destruct (Hc eq_refl) as [Hv Hf]. rewrite <- Hv in E.
        rewrite Hf, Z.eqb_refl in E. discriminate. }
      rewrite notify_id; auto. eapply (subs_dirty_after st st1 k); eauto.
    Qed.

    Lemma rc_some_eq : forall st k j, (k < j)%nat -> (j <= f)%nat -> (j < n)%nat -> G st -> RDs j st -> dirty st j = true ->
      read_comp prog (callf prog f) (Some j) st k =
      (add_parent prog (fst (callf prog f st k)) j (SComp k) (snd (callf prog f st k)), snd (callf prog f st k)).
    Proof.
      intros st k j Hkj Hjf Hjn HG HR Hd. unfold read_comp.
      pose proof (call_all f st k j ltac:(lia) ltac:(lia) Hkj HG HR) as H.
      destruct (callf prog f st k) as [st1 v]. destruct H as (G1 & R1 & Ev & Dk & Vk & HS & Hc). simpl.
      destruct (first st k || negb (v =? value st k)) eqn:E; auto.
      assert (Hdk : dirty st k = true).
      { destruct (dirty st k) eqn:Ed; auto. destruct (Hc eq_refl) as [Hv Hf]. rewrite <- Hv in E.
        rewrite Hf, Z.eqb_refl in E. discriminate. }
      assert (Hd1 : dirty st1 j = true).
      { destruct HS as (_ & _ & A3 & _). destruct (A3 j ltac:(lia)) as (E1 & _). congruence. }
      rewrite notify_id; auto. intros d Hin. simpl in Hin. rewrite upds_same in Hin.
      apply in_app_or in Hin. destruct Hin as [Hin|[Hin|[]]].
      - change (dirty st1 d = true). eapply (subs_dirty_after st st1 k); eauto.
      - subst d. exact Hd1.
    Qed.

    Lemma cmp_q : forall j m l st, (j <= f)%nat -> (j < n)%nat -> (j <= m)%nat -> G st -> RDs m st ->
      (forall k x, In (SComp k, x) l -> (k < j)%nat) ->
      forall i, Q st (fst (cmp_items prog (callf prog f) l st)) i.
    Proof.
      intros j m. induction l as [|[s old] t IH]; intros st Hjf Hjn Hjm HG HR Hl i; simpl.
      - apply Q_refl.
      - destruct s as [o nm|k].
        + destruct (store st o nm =? old); [|apply Q_refl].
          apply IH; auto. intros k x H. apply (Hl k x). right. exact H.
        + assert (Hkj : (k < j)%nat) by (eapply Hl; left; reflexivity).
          rewrite (rc_eq st k m ltac:(lia) ltac:(lia) ltac:(lia) HG HR).
          pose proof (call_all f st k m ltac:(lia) ltac:(lia) ltac:(lia) HG HR) as H.
          pose proof (IHq st k m ltac:(lia) ltac:(lia) ltac:(lia) HG HR i) as Hq.
          destruct (callf prog f st k) as [st1 v]. destruct H as (G1 & R1 & Ev & Dk & Vk & HS & Hc). simpl in Hq.
          destruct (v =? old); [|exact Hq].
          pose proof (cmp_ok f (call_all f) j m t st1 Hjf ltac:(lia) Hjm G1 R1 (fun k x H => Hl k x (or_intror H))) as Hc2.
          specialize (IH st1 Hjf Hjn Hjm G1 R1 (fun k x H => Hl k x (or_intror H)) i).
          destruct (cmp_items prog (callf prog f) t st1) as [st2 ch]. simpl in *.
          destruct Hc2 as (_ & _ & S2 & _).
          eapply Q_trans; [exact Hq|exact IH|apply HS|apply HS|apply HS|apply S2].
    Qed.

    Lemma ev_q : forall j, (j <= f)%nat -> (j < n)%nat -> forall e st,
      G st -> RDs j st -> dirty st j = true -> Kinv j st ->
      forall i, i <> j -> Q st (fst (ev prog (callf prog f) j e st)) i.
    Proof.
      intros j Hjf Hjn. induction e as [z|o nm|k|a IHa b IHb|c IHc a IHa b IHb]; intros st HG HR Hd HK i Hi.
      - apply Q_refl.
      - simpl. destruct (alive st o); [|apply Q_refl]. left. simpl. rewrite updn_other by auto. auto.
      - simpl. destruct ((k <? j)%nat && alive st (cown k)) eqn:Ec; [|apply Q_refl].
        apply andb_true_iff in Ec. destruct Ec as [Ekj _]. apply Nat.ltb_lt in Ekj.
        rewrite (rc_some_eq st k j Ekj Hjf Hjn HG HR Hd).
        pose proof (call_all f st k j ltac:(lia) ltac:(lia) Ekj HG HR) as H.
        pose proof (IHq st k j ltac:(lia) ltac:(lia) Ekj HG HR i) as Hq.
        destruct (callf prog f st k) as [st1 v]. destruct H as (G1 & R1 & Ev & Dk & Vk & HS & Hc). simpl in *.
        eapply Q_trans; [exact Hq| |apply HS|apply HS|apply HS|auto].
        left. simpl. rewrite updn_other by auto. auto.
      - simpl. pose proof (ev_ok f (call_all f) j Hjf Hjn a st HG HR Hd HK) as Ha. specialize (IHa st HG HR Hd HK i Hi).
        destruct (ev prog (callf prog f) j a st) as [st1 va].
        destruct Ha as (G1 & R1 & K1 & V1 & M1 & Det1 & S1 & D1 & _).
        pose proof (ev_ok f (call_all f) j Hjf Hjn b st1 G1 R1 D1 K1) as Hb. specialize (IHb st1 G1 R1 D1 K1 i Hi).
        destruct (ev prog (callf prog f) j b st1) as [st2 vb].
        destruct Hb as (_ & _ & _ & _ & _ & _ & S2 & _). simpl in *.
        eapply Q_trans; [exact IHa|exact IHb|apply S1|apply S1|apply S1|apply S2].
      - simpl. pose proof (ev_ok f (call_all f) j Hjf Hjn c st HG HR Hd HK) as Hc. specialize (IHc st HG HR Hd HK i Hi).
        destruct (ev prog (callf prog f) j c st) as [st1 vc].
        destruct Hc as (G1 & R1 & K1 & V1 & M1 & Det1 & S1 & D1 & _). simpl in IHc.
        destruct (vc =? 0).
        + pose proof (ev_ok f (call_all f) j Hjf Hjn b st1 G1 R1 D1 K1) as Hb. specialize (IHb st1 G1 R1 D1 K1 i Hi).
          destruct (ev prog (callf prog f) j b st1) as [st2 vb].
          destruct Hb as (_ & _ & _ & _ & _ & _ & S2 & _). simpl in *.
          eapply Q_trans; [exact IHc|exact IHb|apply S1|apply S1|apply S1|apply S2].
        + pose proof (ev_ok f (call_all f) j Hjf Hjn a st1 G1 R1 D1 K1) as Hb. specialize (IHa st1 G1 R1 D1 K1 i Hi).
          destruct (ev prog (callf prog f) j a st1) as [st2 vb].
          destruct Hb as (_ & _ & _ & _ & _ & _ & S2 & _). simpl in *.
          eapply Q_trans; [exact IHc|exact IHa|apply S1|apply S1|apply S1|apply S2].
    Qed.

    (* the rebuilding branch of __call__, from a state st1 in which j is dirty and not first *)
    Lemma rebuild_q : forall j st1, (j <= f)%nat -> (j < n)%nat -> G st1 -> RDs j st1 -> dirty st1 j = true ->
      let '(stb, v) := ev prog (callf prog f) j (d_expr (cdef_at prog j)) (remove_parents prog st1 j) in
      (forall i, i <> j -> Q st1 stb i) /\ count stb j = count st1 j /\
      (forall p, In p (flat (parents stb j)) <-> In p (reads_of (alive st1) (store st1) j)) /\
      (forall i, dirty stb i = true -> dirty st1 i = true).
    Proof.
      intros j st1 Hjf Hjn HG HR Hd.
      set (sta := remove_parents prog st1 j).
      assert (Ga : G sta) by (apply G_remove_parents; auto).
      assert (Ra : RDs j sta).
      { intros i Hi Hfi. unfold sta in *. simpl in *. rewrite updn_other by lia. apply HR; auto. }
      assert (Ka : Kinv j sta).
      { intros s x H. unfold sta in H. simpl in H. rewrite updn_same in H. destruct H. }
      pose proof (ev_ok f (call_all f) j Hjf Hjn (d_expr (cdef_at prog j)) sta Ga Ra Hd Ka) as H.
      pose proof (ev_reads f (call_all f) j Hjf Hjn (d_expr (cdef_at prog j)) sta Ga Ra Hd Ka) as Hrd.
      pose proof (ev_q j Hjf Hjn (d_expr (cdef_at prog j)) sta Ga Ra Hd Ka) as Hq.
      destruct (ev prog (callf prog f) j (d_expr (cdef_at prog j)) sta) as [stb v].
      destruct H as (Gb & Rb & Kb & Vb & Mb & Detb & Sb & Db & Fb & Valb & Cb). destruct Hrd as [Rd1 Rd2]. simpl in Hq.
      split; [|split; [exact Cb|split]].
      - intros i Hi. eapply Q_trans; [|exact (Hq i Hi)|reflexivity|reflexivity|auto|apply Sb].
        left. unfold sta. simpl. rewrite updn_other by auto. auto.
      - intro p. unfold reads_of. split; intro Hp.
        + destruct (Rd1 p Hp) as [Hx|Hx]; [|exact Hx]. unfold sta in Hx. simpl in Hx. rewrite updn_same in Hx. destruct Hx.
        + apply Rd2. exact Hp.
      - intros i Hdi. destruct Sb as (_ & _ & _ & _ & N). apply N in Hdi. exact Hdi.
    Qed.

    Lemma call_q_step : call_q (S f).
    Proof.
      intros st j m Hjf Hjn Hjm HG HR i. simpl.
      destruct (dirty st j) eqn:Ed; simpl; [|apply Q_refl].
      destruct (first st j) eqn:Ef.
      - set (st1 := upd_first st (updn (first st) j false)).
        assert (G1 : G st1).
        { destruct HG. constructor; try assumption.
          intros i0 Hc. change (updn (first st) j false i0 = false). unfold updn. destruct (Nat.eqb i0 j); auto. }
        assert (R1 : RDs j st1).
        { intros i0 Hi Hfi. unfold st1 in *. simpl in *. rewrite updn_other in Hfi by lia. apply HR; auto; lia. }
        pose proof (rebuild_q j st1 ltac:(lia) Hjn G1 R1 Ed) as H.
        destruct (ev prog (callf prog f) j (d_expr (cdef_at prog j)) (remove_parents prog st1 j)) as [stb v].
        destruct H as (Hq & Hc & Hp & Hn). simpl.
        destruct (Nat.eq_dec i j) as [->|Hne].
        + right. simpl. rewrite !updn_same. split; [rewrite Hc; reflexivity|]. split; [exact Ed|]. split; [reflexivity|].
          split; [left; exact Ef|exact Hp].
        + specialize (Hq i Hne). destruct Hq as [(q1 & q2 & q3 & q4)|(q1 & q2 & q3 & q4 & q5)].
          * left. simpl. rewrite !updn_other by auto. unfold st1 in *. simpl in *. rewrite updn_other in q3 by auto. auto.
          * right. simpl. rewrite !updn_other by auto. split; [exact q1|]. split; [exact q2|]. split; [exact q3|]. split; [|exact q5].
            destruct q4 as [q4|q4]; [left|right; exact q4]. unfold st1 in q4. simpl in q4. rewrite updn_other in q4 by auto. exact q4.
      - pose proof (cmp_ok f (call_all f) j m (flat (parents st j)) st ltac:(lia) ltac:(lia) ltac:(lia) HG HR
                      (fun k x H => g_par_down _ HG j k x H)) as H.
        pose proof (cmp_q j m (flat (parents st j)) st ltac:(lia) Hjn ltac:(lia) HG HR
                      (fun k x H => g_par_down _ HG j k x H)) as Hq1.
        destruct (cmp_items prog (callf prog f) (flat (parents st j)) st) as [st1 ch]. simpl in Hq1.
        destruct H as (G1 & R1 & S1 & C1 & C2).
        assert (Ej : dirty st1 j = dirty st j /\ first st1 j = first st j /\ value st1 j = value st j /\
                     count st1 j = count st j /\ parents st1 j = parents st j).
        { destruct S1 as (_ & _ & A3 & _). apply A3. lia. }
        destruct Ej as (E1 & E2 & E3 & E4 & E5).
        assert (Es : store st1 = store st) by apply S1.
        assert (Ea : alive st1 = alive st) by apply S1.
        destruct ch.
        + assert (R1j : RDs j st1) by (intros i0 Hi Hfi; apply R1; auto; lia).
          pose proof (rebuild_q j st1 ltac:(lia) Hjn G1 R1j ltac:(congruence)) as H.
          destruct (ev prog (callf prog f) j (d_expr (cdef_at prog j)) (remove_parents prog st1 j)) as [stb v].
          destruct H as (Hq & Hc & Hp & Hn). simpl.
          destruct (Nat.eq_dec i j) as [->|Hne].
          * right. simpl. rewrite !updn_same. split; [rewrite Hc, E4; reflexivity|]. split; [exact Ed|]. split; [reflexivity|].
            split; [right; destruct (C2 eq_refl) as [s [x [H1 H2]]]; exists s, x; auto|].
            rewrite <- Es, <- Ea. exact Hp.
          * eapply Q_trans; [exact (Hq1 i)| |exact Es|exact Ea|apply S1|].
            -- specialize (Hq i Hne). destruct Hq as [(q1 & q2 & q3 & q4)|(q1 & q2 & q3 & q4 & q5)].
               ++ left. simpl. rewrite !updn_other by auto. auto.
               ++ right. simpl. rewrite !updn_other by auto. auto.
            -- simpl. rewrite updn_other by auto. apply Hn.
        + simpl. destruct (Nat.eq_dec i j) as [->|Hne].
          * left. simpl. auto.
          * eapply Q_trans; [exact (Hq1 i)| |exact Es|exact Ea|apply S1|].
            -- left. simpl. auto.
            -- simpl. rewrite updn_other by auto. auto.
    Qed.
  End StepQ.

  Lemma call_q_all : forall f, call_q f.
  Proof.
    induction f as [|f IH].
    - intros st j m H. lia.
    - apply call_q_step. exact IH.
  Qed.

  (* ---------------------------------------------------------------- top level *)
  Definition Inv (st : state) : Prop := G st /\ RDs n st.

  Lemma read_top_ok : forall st k, Inv st -> (k < n)%nat ->
    let '(st', v) := read_top prog st k in
    Inv st' /\ v = D st k /\ store st' = store st /\ alive st' = alive st.
  Proof.
    intros st k [HG HR] Hk. unfold read_top.
    pose proof (rc_ok n (call_all n) st k n Hk Hk Hk HG HR) as H.
    destruct (read_comp prog (callf prog n) None st k) as [st' v].
    destruct H as (G1 & R1 & Ev & _ & _ & HS). split; [split; auto|]. split; auto. split; apply HS.
  Qed.

  Lemma G_only_dirty : forall st st1, G st -> only_dirty st st1 -> closed st st1 -> G st1.
  Proof.
    intros st st1 HG (E1 & E2 & E3 & E4 & E5 & E6 & E7 & E8 & M & _) HC. destruct HG.
    assert (Hcl : forall i, dirty st1 i = false -> dirty st i = false).
    { intros i H. destruct (dirty st i) eqn:E; auto. apply M in E. congruence. }
    constructor; try rewrite E2; try rewrite E6; try rewrite E7; try rewrite E3; auto.
    - intros i s x Hc H. unfold Dsrc. rewrite E1, E2. exact (g_clean_val0 i s x (Hcl i Hc) H).
    - intros i k x Hc H. pose proof (g_clean_par0 i k x (Hcl i Hc) H) as Hk.
      destruct (dirty st1 k) eqn:Ek; auto.
      rewrite (HC k Hk Ek i (g_par_sub0 i _ x H)) in Hc. discriminate.
  Qed.

  Lemma notify_ok : forall st s, G st ->
    let st1 := notify prog st s in
    G st1 /\ only_dirty st st1 /\ (forall d, In d (subs st s) -> dirty st1 d = true).
  Proof.
    intros st s HG. unfold notify.
    destruct (sd_fold n (sd_all n) (subs st s) st (g_alive _ HG)) as (O & Dd & C).
    { intros c d H. split; [eapply g_subs_up; eauto|eapply g_subs_valid; eauto]. }
    { intros d _. lia. }
    split; [eapply G_only_dirty; eauto|]. split; auto.
    intros d H. apply Dd; auto. eapply g_subs_valid; eauto.
  Qed.

  Lemma store_ok : forall st1 o nm v, G st1 -> RDs n st1 ->
    (forall d, In d (subs st1 (SObs o nm)) -> dirty st1 d = true) ->
    let st2 := upd_store st1 (fun o' n' => if (o' =? o) && (n' =? nm) then v else store st1 o' n') in
    G st2 /\ RDs n st2.
  Proof.
    intros st1 o nm v HG HR Hd st2.
    assert (HP : forall j, dirty st1 j = false -> forall s x, In (s, x) (flat (parents st1 j)) -> Dsrc st2 s = x).
    { intro j. induction j as [j IH] using lt_wf_ind. intros Hc s x H.
      destruct s as [o' nm'|k].
      - unfold Dsrc, st2. simpl.
        destruct ((o' =? o) && (nm' =? nm)) eqn:E.
        + apply andb_true_iff in E. destruct E as [E1 E2]. apply Z.eqb_eq in E1. apply Z.eqb_eq in E2. subst.
          rewrite (Hd j (g_par_sub _ HG j _ x H)) in Hc. discriminate.
        + exact (g_clean_val _ HG j _ x Hc H).
      - assert (Hkj : (k < j)%nat) by (eapply g_par_down; eauto).
        assert (Hck : dirty st1 k = false) by (eapply g_clean_par; eauto).
        assert (Hkn : (k < n)%nat) by (eapply g_clean_valid; eauto).
        assert (Hfk : first st1 k = false) by (eapply g_clean_first; eauto).
        pose proof (HR k Hkn Hfk) as HRk.
        assert (H2 : den (alive st1) (store st2) k = value st1 k).
        { apply (RD_det _ _ _ _ HRk). intros s' x' H'. exact (IH k Hkj Hck s' x' H'). }
        assert (H1 : den (alive st1) (store st1) k = value st1 k).
        { apply (RD_det _ _ _ _ HRk). intros s' x' H'. exact (g_clean_val _ HG k s' x' Hck H'). }
        pose proof (g_clean_val _ HG j _ x Hc H) as H3. simpl in H3. unfold Dsrc. simpl.
        transitivity (value st1 k); [exact H2|congruence]. }
    split.
    - destruct HG. constructor; auto. intros j s x Hc H. exact (HP j Hc s x H).
    - intros j Hj Hf. exact (HR j Hj Hf).
  Qed.

  Lemma set_ok : forall b st o nm v st', Inv st -> set_obs prog b st o nm v = Some st' ->
    Inv st' /\ alive st' = alive st /\
    (forall o' n', store st' o' n' = if (o' =? o) && (n' =? nm) then v else store st o' n').
  Proof.
    intros b st o nm v st' [HG HR] H. unfold set_obs in H.
    destruct (b && ps_mem o nm (ps st)); [discriminate|].
    destruct (notify_ok st (SObs o nm) HG) as (G1 & O1 & D1).
    set (st1 := notify prog st (SObs o nm)) in *.
    assert (R1 : RDs n st1).
    { destruct O1 as (_ & E2 & E3 & E4 & _ & E6 & _). intros j Hj Hf. rewrite E2, E4, E6. apply HR; auto. congruence. }
    assert (Es : subs st1 = subs st) by apply O1.
    destruct (store_ok st1 o nm v G1 R1) as (G2 & R2).
    { intros d Hd. apply D1. rewrite <- Es. exact Hd. }
    assert (Est : store st1 = store st) by apply O1.
    assert (Eal : alive st1 = alive st) by apply O1.
    destruct b; inversion H; subst st'; simpl.
    - split; [split; auto|]. split; auto. intros. rewrite Est. reflexivity.
    - split; [split; [apply G_ps; exact G2|exact R2]|]. split; auto. intros. rewrite Est. reflexivity.
  Qed.

  Lemma run_acts_ok : forall acts st, Inv st -> Inv (fst (run_acts prog acts st)).
  Proof.
    induction acts as [|a t IH]; intros st HI; simpl; auto.
    destruct a as [o nm|k|o nm v].
    - destruct (alive st o); apply IH; auto. destruct HI as [HG HR]. split; [apply G_ps; auto|exact HR].
    - destruct ((k <? n)%nat && alive st (cown k)) eqn:E; [|apply IH; auto].
      apply andb_true_iff in E. destruct E as [E _]. apply Nat.ltb_lt in E.
      pose proof (read_top_ok st k HI E) as H. destruct (read_top prog st k) as [st' v]. simpl.
      apply IH. apply H.
    - destruct (alive st o); [|apply IH; auto].
      destruct (set_obs prog true st o nm v) as [st1|] eqn:E; simpl; auto.
      apply IH. eapply set_ok; eauto.
  Qed.

  Definition is_kill (x : op) : bool := match x with Kill _ => true | _ => false end.
  Definition no_kill (ops : list op) : bool := forallb (fun x => negb (is_kill x)) ops.

  Variable nobs : list nat.

  (* the throw-away Computed's parents: what run_acts_p adds, and that it is run_acts otherwise *)
  Lemma run_acts_p_eq : forall acts st tp,
    fst (fst (run_acts_p prog acts st tp)) = fst (run_acts prog acts st) /\
    snd (fst (run_acts_p prog acts st tp)) = snd (run_acts prog acts st).
  Proof.
    induction acts as [|a t IH]; intros st tp; simpl; auto.
    destruct a as [o nm|k|o nm v].
    - destruct (alive st o); apply IH.
    - destruct ((k <? n)%nat && alive st (cown k)); [|apply IH].
      destruct (read_top prog st k) as [st1 v]. apply IH.
    - destruct (alive st o); [|apply IH]. destruct (set_obs prog true st o nm v); [apply IH|auto].
  Qed.

  Lemma run_acts_p_valid : forall acts st tp,
    (forall k x, In (SComp k, x) (flat tp) -> (k < n)%nat) ->
    forall k x, In (SComp k, x) (flat (snd (run_acts_p prog acts st tp))) -> (k < n)%nat.
  Proof.
    induction acts as [|a t IH]; intros st tp H; simpl; auto.
    destruct a as [o nm|k0|o nm v].
    - destruct (alive st o); apply IH; auto. intros k x Hin. apply in_flat_padd_inv in Hin.
      destruct Hin as [Hin|Hin]; [discriminate|eauto].
    - destruct ((k0 <? n)%nat && alive st (cown k0)) eqn:E; [|apply IH; auto].
      apply andb_true_iff in E. destruct E as [E _]. apply Nat.ltb_lt in E.
      destruct (read_top prog st k0) as [st1 v]. apply IH. intros k x Hin. apply in_flat_padd_inv in Hin.
      destruct Hin as [Hin|Hin]; [inversion Hin; subst; exact E|eauto].
    - destruct (alive st o); [|apply IH; auto]. destruct (set_obs prog true st o nm v); [apply IH; auto|exact H].
  Qed.

  Lemma cmp_top_ok : forall l st, Inv st -> (forall k x, In (SComp k, x) l -> (k < n)%nat) ->
    let '(st', ch) := cmp_items prog (callf prog n) l st in
    Inv st' /\ store st' = store st /\ alive st' = alive st /\
    (ch = false -> forall s x, In (s, x) l -> Dsrc st s = x) /\
    (ch = true -> exists s x, In (s, x) l /\ Dsrc st s <> x).
  Proof.
    intros l st [HG HR] Hl.
    pose proof (cmp_ok n (call_all n) n n l st ltac:(lia) ltac:(lia) ltac:(lia) HG HR Hl) as H.
    destruct (cmp_items prog (callf prog n) l st) as [st' ch]. destruct H as (G1 & R1 & S1 & C1 & C2).
    split; [split; auto|]. split; [apply S1|]. split; [apply S1|]. split; auto.
    intros Hc s x Hin. apply (C1 Hc s x Hin).
  Qed.

  Lemma reread_ok : forall acts tp st, Inv st -> (forall k x, In (SComp k, x) (flat tp) -> (k < n)%nat) ->
    Inv (fst (reread_rejected prog acts tp st)).
  Proof.
    intros acts tp st HI Hv. unfold reread_rejected.
    pose proof (cmp_top_ok (flat tp) st HI Hv) as H.
    destruct (cmp_items prog (callf prog n) (flat tp) st) as [st2 ch]. destruct H as (I2 & _).
    destruct ch; [|exact I2].
    pose proof (run_acts_ok acts st2 I2) as H. destruct (run_acts prog acts st2) as [st3 ok]. exact H.
  Qed.

  (* a Computed whose installation was rejected stays installed; reading it while none of the values it read
     before the rejection has changed returns its cached _value - None - instead of raising again *)
  Lemma rejected_then_read_none : forall acts tp st, Inv st ->
    (forall k x, In (SComp k, x) (flat tp) -> (k < n)%nat) ->
    (forall s x, In (s, x) (flat tp) -> Dsrc st s = x) ->
    snd (reread_rejected prog acts tp st) = 2.
  Proof.
    intros acts tp st HI Hv Hp. unfold reread_rejected.
    pose proof (cmp_top_ok (flat tp) st HI Hv) as H.
    destruct (cmp_items prog (callf prog n) (flat tp) st) as [st2 ch]. destruct H as (_ & _ & _ & _ & C2).
    destruct ch; [|reflexivity]. destruct (C2 eq_refl) as [s [x [H1 H2]]]. exfalso. apply H2. apply Hp. exact H1.
  Qed.

  Lemma step_ok : forall st x, Inv st -> is_kill x = false -> Inv (fst (step prog nobs st x)).
  Proof.
    intros st x HI Hk. destruct x as [o nm v|k|o|acts|acts]; try discriminate; unfold step.
    - destruct (alive st o); auto. destruct (set_obs prog false st o nm v) as [st1|] eqn:E; auto.
      cbn [fst]. eapply set_ok; eauto.
    - destruct ((k <? n)%nat && alive st (cown k)) eqn:E; auto.
      apply andb_true_iff in E. destruct E as [E _]. apply Nat.ltb_lt in E.
      pose proof (read_top_ok st k HI E) as H. destruct (read_top prog st k) as [st' v]. simpl. apply H.
    - pose proof (run_acts_ok acts st HI) as H. destruct (run_acts prog acts st) as [st1 ok]. exact H.
    - pose proof (run_acts_ok acts st HI) as H. destruct (run_acts_p_eq acts st []) as [E1 _].
      pose proof (run_acts_p_valid acts st [] (fun k x (Hin : In (SComp k, x) (flat [])) => match Hin with end)) as Hv.
      destruct (run_acts_p prog acts st []) as [[st1 ok] tp]. cbn [fst snd] in *. rewrite <- E1 in H.
      destruct ok; [exact H|].
      pose proof (reread_ok acts tp st1 H Hv) as H2. destruct (reread_rejected prog acts tp st1) as [st2 r]. exact H2.
  Qed.

  Lemma final_snoc' : forall pre st x,
    final prog nobs st (pre ++ [x]) = fst (step prog nobs (final prog nobs st pre) x).
  Proof. induction pre as [|y t IH]; intros st x; simpl; auto. Qed.

  Lemma final_ok : forall ops st, Inv st -> no_kill ops = true -> Inv (final prog nobs st ops).
  Proof.
    induction ops as [|x t IH]; intros st HI Hn; simpl; auto.
    simpl in Hn. apply andb_true_iff in Hn. destruct Hn as [H1 H2].
    apply IH; auto. apply step_ok; auto. destruct (is_kill x); auto; discriminate.
  Qed.

  Lemma init_ok : forall init, Inv (init_state init).
  Proof.
    intro init. split.
    - constructor; simpl; try discriminate; try contradiction; auto.
      + intros j o l [].
    - intros j Hj Hf. simpl in Hf. discriminate.
  Qed.

  Lemma install_ok : forall st, Inv st -> Inv (install prog st).
  Proof.
    intros st HI. unfold install.
    assert (H : forall l st, Inv st -> (forall k, In k l -> (k < n)%nat) ->
                Inv (fold_left (fun s k => fst (read_top prog s k)) l st)).
    { induction l as [|k l IH]; intros s Hs Hl; simpl; auto.
      apply IH; [|intros; apply Hl; right; auto].
      pose proof (read_top_ok s k Hs (Hl k (or_introl eq_refl))) as H. destruct (read_top prog s k). apply H. }
    apply H; auto. intros k Hk. apply in_seq in Hk. unfold ncomp. lia.
  Qed.

  Lemma reach_ok : forall init ops, no_kill ops = true -> Inv (final prog nobs (install prog (init_state init)) ops).
  Proof. intros. apply final_ok; auto. apply install_ok. apply init_ok. Qed.

  (* parents = the reads of the last evaluation, with the values read; subscribed to each *)
  Lemma parents_are_last_reads : forall init ops k, no_kill ops = true -> (k < n)%nat ->
    let st := final prog nobs (install prog (init_state init)) ops in
    first st k = false ->
    (exists sto0, (forall p, In p (flat (parents st k)) <-> In p (reads_of (alive st) sto0 k)) /\
                  value st k = den (alive st) sto0 k) /\
    (forall s x, In (s, x) (flat (parents st k)) -> In k (subs st s)) /\
    (dirty st k = false ->
       (forall p, In p (flat (parents st k)) <-> In p (reads_of (alive st) (store st) k)) /\
       value st k = den (alive st) (store st) k).
  Proof.
    intros init ops k Hn Hk st Hf. destruct (reach_ok init ops Hn) as [HG HR]. fold st in HG, HR.
    split; [exact (HR k Hk Hf)|]. split; [intros s x H; exact (g_par_sub _ HG k s x H)|].
    intros Hc. destruct (RD_det _ _ _ _ (HR k Hk Hf) (store st)) as [H1 H2].
    { intros s x H. exact (g_clean_val _ HG k s x Hc H). }
    split; auto.
  Qed.

  Lemma read_top_q : forall st j, Inv st -> (j < n)%nat -> forall i, Q st (fst (read_top prog st j)) i.
  Proof.
    intros st j [HG HR] Hj i. unfold read_top. rewrite (rc_eq n st j n Hj Hj Hj HG HR).
    apply (call_q_all n st j n Hj Hj Hj HG HR).
  Qed.

  (* whole histories: reading ANY computed j (k itself, or something that reads k through a chain) runs
     the function of k at most once, and only if it never ran or a value it read last time differs now;
     the parents it is left with are the reads of that run on the current store *)
  Lemma runs_only_when_changed : forall init ops j k, no_kill ops = true -> (j < n)%nat ->
    let st := final prog nobs (install prog (init_state init)) ops in
    let st' := fst (read_top prog st j) in
    count st' k = count st k \/
    (count st' k = count st k + 1 /\
     (first st k = true \/ exists s x, In (s, x) (flat (parents st k)) /\ dsrc (alive st) (store st) s <> x) /\
     (forall p, In p (flat (parents st' k)) <-> In p (reads_of (alive st) (store st) k))).
  Proof.
    intros init ops j k Hn Hj st st'.
    destruct (read_top_q st j (reach_ok init ops Hn) Hj k) as [(q1 & _)|(q1 & _ & _ & q4 & q5)]; [left; exact q1|].
    right. split; [exact q1|]. split; [exact q4|exact q5].
  Qed.

  Lemma no_spurious_history : forall init ops j k, no_kill ops = true -> (j < n)%nat ->
    let st := final prog nobs (install prog (init_state init)) ops in
    first st k = false ->
    (forall s x, In (s, x) (flat (parents st k)) -> dsrc (alive st) (store st) s = x) ->
    count (fst (read_top prog st j)) k = count st k.
  Proof.
    intros init ops j k Hn Hj st Hf Hp.
    destruct (runs_only_when_changed init ops j k Hn Hj) as [H|(_ & [H|[s [x [H1 H2]]]] & _)]; auto.
    - fold st in H. congruence.
    - exfalso. apply H2. apply Hp. exact H1.
  Qed.

  (* an assignment never runs a function (evaluation is lazy) *)
  Lemma set_obs_count : forall b st o nm v st', set_obs prog b st o nm v = Some st' -> count st' = count st.
  Proof.
    intros b st o nm v st' H. unfold set_obs in H. destruct (b && ps_mem o nm (ps st)); [discriminate|].
    destruct (notify_frame st (SObs o nm)) as (_ & _ & _ & _ & E & _).
    destruct b; inversion H; subst st'; simpl; exact E.
  Qed.

  (* a read served from cache changes nothing, in particular not PROCESSING_SIGNALS *)
  Lemma read_cached_noop : forall st k, (k < n)%nat -> dirty st k = false -> first st k = false ->
    read_top prog st k = (st, value st k).
  Proof.
    intros st k Hk Hd Hf. unfold read_top, read_comp. unfold ncomp in *. destruct (length prog) as [|m]; [lia|].
    simpl. rewrite Hd. simpl. rewrite Hf, Z.eqb_refl. reflexivity.
  Qed.

  (* ---------------------------------------------------------------- owner collection *)
  (* the liveness map after collecting owner o *)
  Definition al_kill (al : Z -> bool) (o : Z) : Z -> bool := fun o' => if o' =? o then false else al o'.

  (* an evaluation none of whose reads is on owner o, and whose Computable reads are unaffected,
     gives the same result after o is collected *)
  Lemma pev_kill : forall al sto o j e,
    (forall s x, In (s, x) (preads (den al sto) al sto j e) -> ownof s <> o /\ dsrc (al_kill al o) sto s = x) ->
    pev (den (al_kill al o) sto) (al_kill al o) sto j e = pev (den al sto) al sto j e.
  Proof.
    intros al sto o j. induction e as [z|o' nm|k|a IHa b IHb|c IHc a IHa b IHb]; simpl; intros H; auto.
    - unfold al_kill at 1. destruct (al o') eqn:E.
      + destruct (H (SObs o' nm) (sto o' nm) (or_introl eq_refl)) as [Hne _]. simpl in Hne.
        destruct (o' =? o) eqn:E2; [apply Z.eqb_eq in E2; contradiction|reflexivity].
      + destruct (o' =? o); reflexivity.
    - unfold al_kill at 1. destruct (k <? j)%nat eqn:E1; simpl in *; [|reflexivity].
      destruct (al (cown k)) eqn:E2.
      + destruct (H (SComp k) (den al sto k) (or_introl eq_refl)) as [Hne Hv]. simpl in Hne, Hv.
        destruct (cown k =? o) eqn:E3; [apply Z.eqb_eq in E3; contradiction|exact Hv].
      + destruct (cown k =? o); reflexivity.
    - rewrite IHa, IHb; auto; intros; apply H; apply in_or_app; auto.
    - rewrite IHc by (intros; apply H; apply in_or_app; auto).
      destruct (pev (den al sto) al sto j c =? 0).
      + apply IHb. intros. apply H. apply in_or_app. auto.
      + apply IHa. intros. apply H. apply in_or_app. auto.
  Qed.

  (* "the last evaluation of k read nothing of owner o, directly or through the Computables it read" *)
  Fixpoint indepf (f : nat) (st : state) (o : Z) (k : nat) : bool :=
    match f with
    | O => false
    | S f' => forallb (fun p => negb (ownof (fst p) =? o) &&
                                match fst p with SComp k' => indepf f' st o k' | SObs _ _ => true end)
                      (flat (parents st k))
    end.

  Lemma den_kill_indep : forall st o, Inv st -> forall f k, (k < f)%nat -> (k < n)%nat ->
    dirty st k = false -> indepf f st o k = true ->
    den (al_kill (alive st) o) (store st) k = den (alive st) (store st) k.
  Proof.
    intros st o [HG HR]. induction f as [|f IH]; intros k Hkf Hkn Hd Hi; [lia|].
    simpl in Hi. rewrite forallb_forall in Hi.
    pose proof (g_clean_first _ HG k Hd) as Hf.
    destruct (RD_det _ _ _ _ (HR k Hkn Hf) (store st)) as [H1 H2].
    { intros s x H. exact (g_clean_val _ HG k s x Hd H). }
    rewrite (den_unfold (al_kill (alive st) o)), (den_unfold (alive st)).
    apply pev_kill. intros s x Hin. apply H2 in Hin.
    specialize (Hi (s, x) Hin). simpl in Hi. apply andb_true_iff in Hi. destruct Hi as [Hi1 Hi2].
    split.
    - apply negb_true_iff in Hi1. apply Z.eqb_neq. exact Hi1.
    - pose proof (g_clean_val _ HG k s x Hd Hin) as Hv. destruct s as [o' nm|k']; [exact Hv|].
      simpl. simpl in Hv. rewrite <- Hv. apply IH; auto.
      + pose proof (g_par_down _ HG k k' x Hin). lia.
      + pose proof (g_par_down _ HG k k' x Hin). lia.
      + exact (g_clean_par _ HG k k' x Hd Hin).
  Qed.

  (* collecting an owner does not make a clean Computed stale unless its last evaluation read that owner
     (directly or through the chain): right after the collection it still returns what its function
     returns on the current store with the current live owners *)
  Lemma never_stale_after_kill : forall init pre o k, no_kill pre = true -> (k < n)%nat ->
    let st := final prog nobs (install prog (init_state init)) pre in
    let st' := final prog nobs (install prog (init_state init)) (pre ++ [Kill o]) in
    cown k <> o -> dirty st k = false -> indepf n st o k = true ->
    alive st' (cown k) = true /\
    snd (read_top prog st' k) = den (alive st') (store st') k.
  Proof.
    intros init pre o k Hn Hk st st' Hne Hd Hi.
    pose proof (reach_ok init pre Hn) as HI. fold st in HI.
    assert (Est : st' = fst (step prog nobs st (Kill o))) by (unfold st'; rewrite final_snoc'; reflexivity).
    unfold step in Est. rewrite (g_alive _ (proj1 HI) o) in Est. cbn [fst] in Est.
    assert (Ea : alive st' = al_kill (alive st) o) by (rewrite Est; reflexivity).
    assert (Es : store st' = store st) by (rewrite Est; reflexivity).
    assert (Ed : dirty st' k = false) by (rewrite Est; exact Hd).
    assert (Ef : first st' k = false) by (rewrite Est; simpl; exact (g_clean_first _ (proj1 HI) k Hd)).
    assert (Ev : value st' k = value st k) by (rewrite Est; reflexivity).
    split.
    - rewrite Ea. unfold al_kill. destruct (cown k =? o) eqn:E; [apply Z.eqb_eq in E; contradiction|].
      apply (g_alive _ (proj1 HI)).
    - rewrite (read_cached_noop st' k Hk Ed Ef). simpl. rewrite Ev, Ea, Es.
      rewrite (den_kill_indep st o HI n k Hk Hk Hd Hi).
      destruct HI as [HG HR]. symmetry.
      apply (RD_det _ _ _ _ (HR k Hk (g_clean_first _ HG k Hd)) (store st)).
      intros s x H. exact (g_clean_val _ HG k s x Hd H).
  Qed.

  (* never stale: after any history of assignments, reads and writer Computeds, reading computed k
     returns what its function returns on the current store *)
  Lemma never_stale : forall init ops k, no_kill ops = true -> (k < n)%nat ->
    let st := final prog nobs (install prog (init_state init)) ops in
    snd (read_top prog st k) = den (alive st) (store st) k.
  Proof.
    intros init ops k Hn Hk st.
    assert (HI : Inv st) by (apply final_ok; auto; apply install_ok; apply init_ok).
    pose proof (read_top_ok st k HI Hk) as H. destruct (read_top prog st k) as [st' v]. simpl. apply H.
  Qed.

  (* ... also through chains and inside every evaluation: whenever the invariant holds, an evaluation
     returns the denotation *)
  Lemma never_stale_state : forall st k, Inv st -> (k < n)%nat -> snd (read_top prog st k) = D st k.
  Proof.
    intros st k HI Hk. pose proof (read_top_ok st k HI Hk) as H. destruct (read_top prog st k). simpl. apply H.
  Qed.

  (* no spurious recomputation: if every value remembered from the last evaluation is the current
     value of its source, the function is not run *)
  Lemma no_spurious_call : forall f st j, (j < f)%nat -> (j < n)%nat -> Inv st -> first st j = false ->
    (forall s x, In (s, x) (flat (parents st j)) -> Dsrc st s = x) ->
    count (fst (callf prog f st j)) j = count st j.
  Proof.
    intros f st j Hjf Hjn [HG HR] Hf Hp. destruct f as [|f]; [lia|]. simpl.
    destruct (dirty st j) eqn:Ed; simpl; auto. rewrite Hf.
    pose proof (cmp_ok f (call_all f) j n (flat (parents st j)) st ltac:(lia) ltac:(lia) ltac:(lia) HG HR
                  (fun k x H => g_par_down _ HG j k x H)) as H.
    destruct (cmp_items prog (callf prog f) (flat (parents st j)) st) as [st1 ch].
    destruct H as (G1 & R1 & S1 & C1 & C2).
    destruct ch.
    - destruct (C2 eq_refl) as [s [x [H1 H2]]]. exfalso. apply H2. apply Hp. exact H1.
    - simpl. destruct S1 as (_ & _ & A3 & _). apply A3. lia.
  Qed.

  Lemma no_spurious : forall init ops k, no_kill ops = true -> (k < n)%nat ->
    let st := final prog nobs (install prog (init_state init)) ops in
    first st k = false ->
    (forall s x, In (s, x) (flat (parents st k)) -> dsrc (alive st) (store st) s = x) ->
    count (fst (read_top prog st k)) k = count st k.
  Proof.
    intros init ops k Hn Hk st Hf Hp.
    assert (HI : Inv st) by (apply final_ok; auto; apply install_ok; apply init_ok).
    unfold read_top, read_comp.
    pose proof (no_spurious_call n st k Hk Hk HI Hf Hp) as H.
    pose proof (call_all n st k n Hk Hk Hk (proj1 HI) (proj2 HI)) as H2.
    destruct (callf prog n st k) as [st1 v]. simpl in H.
    destruct H2 as (G1 & R1 & Ev & Dk & Vk & HS & Hc).
    assert (En : (if first st k || negb (v =? value st k) then notify prog st1 (SComp k) else st1) = st1).
    { destruct (first st k || negb (v =? value st k)) eqn:E; auto.
      assert (Hdk : dirty st k = true).
      { destruct (dirty st k) eqn:Ed; auto. destruct (Hc eq_refl) as [Hv' Hf']. rewrite <- Hv' in E.
        rewrite Hf', Z.eqb_refl in E. discriminate. }
      apply notify_id. eapply (subs_dirty_after st st1 k); eauto. apply HI. }
    rewrite En. simpl. exact H.
  Qed.

  (* the converse: when the function is run, it is the first run or a remembered value differs *)
  Lemma recompute_justified : forall st k, Inv st -> (k < n)%nat ->
    count (fst (callf prog n st k)) k <> count st k ->
    first st k = true \/ exists s x, In (s, x) (flat (parents st k)) /\ Dsrc st s <> x.
  Proof.
    intros st k HI Hk Hc. destruct (first st k) eqn:Ef; auto. right.
    destruct (existsb (fun p => negb (Dsrc st (fst p) =? snd p)) (flat (parents st k))) eqn:E.
    - apply existsb_exists in E. destruct E as [[s x] [H1 H2]]. exists s, x. split; auto.
      simpl in H2. apply negb_true_iff in H2. apply Z.eqb_neq. exact H2.
    - exfalso. apply Hc. apply no_spurious_call; auto.
      intros s x H. destruct (Z.eq_dec (Dsrc st s) x) as [|Hne]; auto.
      assert (existsb (fun p => negb (Dsrc st (fst p) =? snd p)) (flat (parents st k)) = true).
      { apply existsb_exists. exists (s, x). split; auto. simpl. apply negb_true_iff. apply Z.eqb_neq. exact Hne. }
      congruence.
  Qed.
End P.

(* ================================================================== cycle detection *)
Section Cyc.
  Variable prog : list cdef.

  (* liveness unchanged, PROCESSING_SIGNALS only grows *)
  Definition pext (st st' : state) : Prop := alive st' = alive st /\ exists l, ps st' = l ++ ps st.

  Lemma pext_refl : forall st, pext st st.
  Proof. intro. split; auto. exists []. reflexivity. Qed.

  Lemma pext_trans : forall a b c, pext a b -> pext b c -> pext a c.
  Proof.
    intros a b c [A1 [l1 A2]] [B1 [l2 B2]]. split; [congruence|]. exists (l2 ++ l1). rewrite B2, A2, app_assoc. reflexivity.
  Qed.

  Lemma pext_same : forall st st', alive st' = alive st -> ps st' = ps st -> pext st st'.
  Proof. intros st st' H1 H2. split; auto. exists []. exact H2. Qed.

  Lemma sd_pext : forall f st c, alive (set_dirty prog f st c) = alive st /\ ps (set_dirty prog f st c) = ps st.
  Proof.
    induction f as [|f IH]; intros st c; simpl; auto.
    destruct (negb (c <? ncomp prog)%nat); auto. destruct (negb (alive st (cowner prog c))); auto.
    destruct (dirty st c); auto.
    assert (H : forall l s, alive (fold_left (set_dirty prog f) l s) = alive s /\ ps (fold_left (set_dirty prog f) l s) = ps s).
    { induction l as [|d l IHl]; intros s; simpl; auto.
      destruct (IHl (set_dirty prog f s d)) as [H1 H2]. destruct (IH s d) as [H3 H4]. split; congruence. }
    apply (H (subs st (SComp c)) (upd_dirty st (updn (dirty st) c true))).
  Qed.

  Lemma notify_pext : forall st s, pext st (notify prog st s).
  Proof.
    intros st s. unfold notify. generalize (subs st s) as l. intro l. revert st.
    induction l as [|d l IH]; intros st; simpl; [apply pext_refl|].
    eapply pext_trans; [|apply IH]. destruct (sd_pext (ncomp prog) st d). apply pext_same; auto.
  Qed.

  Section E.
    Variable call : state -> nat -> state * Z.
    Hypothesis Hcall : forall st k, pext st (fst (call st k)).

    Lemma rc_pext : forall cur st k, pext st (fst (read_comp prog call cur st k)).
    Proof.
      intros cur st k. unfold read_comp. pose proof (Hcall st k) as H. destruct (call st k) as [st1 v]. simpl in H.
      set (st2 := match cur with Some j => add_parent prog st1 j (SComp k) v | None => st1 end).
      assert (H2 : pext st1 st2) by (unfold st2; destruct cur; [apply pext_same; reflexivity|apply pext_refl]).
      destruct (first st k || negb (v =? value st k)); simpl.
      - eapply pext_trans; [exact H|]. eapply pext_trans; [exact H2|]. apply notify_pext.
      - eapply pext_trans; eauto.
    Qed.

    Lemma ev_pext : forall j e st, pext st (fst (ev prog call j e st)).
    Proof.
      intros j. induction e; intros st; simpl.
      - apply pext_refl.
      - destruct (alive st o); simpl; [|apply pext_refl]. split; [reflexivity|]. exists [(o, nm)]. reflexivity.
      - destruct ((k <? j)%nat && alive st (cowner prog k)); [apply rc_pext|apply pext_refl].
      - pose proof (IHe1 st) as H1. destruct (ev prog call j e1 st) as [st1 va]. simpl in H1.
        pose proof (IHe2 st1) as H2. destruct (ev prog call j e2 st1) as [st2 vb]. simpl in *.
        eapply pext_trans; eauto.
      - pose proof (IHe1 st) as H1. destruct (ev prog call j e1 st) as [st1 vc]. simpl in H1.
        destruct (vc =? 0); eapply pext_trans; eauto.
    Qed.

    Lemma cmp_pext : forall l st, pext st (fst (cmp_items prog call l st)).
    Proof.
      induction l as [|[s old] t IH]; intros st; simpl; [apply pext_refl|].
      destruct s as [o nm|k].
      - destruct (store st o nm =? old); [apply IH|apply pext_refl].
      - pose proof (rc_pext None st k) as H. destruct (read_comp prog call None st k) as [st1 v]. simpl in H.
        destruct (v =? old); simpl; auto. eapply pext_trans; eauto.
    Qed.
  End E.

  Lemma callf_pext : forall f st j, pext st (fst (callf prog f st j)).
  Proof.
    induction f as [|f IH]; intros st j; simpl; [apply pext_refl|].
    destruct (negb (dirty st j)); [apply pext_refl|].
    assert (H1 : pext st (fst (if first st j then (upd_first st (updn (first st) j false), true)
                               else cmp_items prog (callf prog f) (flat (parents st j)) st))).
    { destruct (first st j); simpl; [apply pext_same; reflexivity|apply cmp_pext; exact IH]. }
    destruct (if first st j then (upd_first st (updn (first st) j false), true)
              else cmp_items prog (callf prog f) (flat (parents st j)) st) as [st1 ch]. simpl in H1.
    destruct ch; simpl.
    - pose proof (ev_pext (callf prog f) IH j (d_expr (cdef_at prog j)) (remove_parents prog st1 j)) as H2.
      destruct (ev prog (callf prog f) j (d_expr (cdef_at prog j)) (remove_parents prog st1 j)) as [stb v]. simpl in *.
      eapply pext_trans; [exact H1|]. eapply pext_trans; [|apply pext_same; [|reflexivity]; reflexivity].
      eapply pext_trans; [|exact H2]. apply pext_same; reflexivity.
    - eapply pext_trans; [exact H1|]. apply pext_same; reflexivity.
  Qed.

  Lemma read_top_pext : forall st k, pext st (fst (read_top prog st k)).
  Proof. intros. unfold read_top. apply rc_pext. intros. apply callf_pext. Qed.

  Lemma set_inside_pext : forall st o nm v st1, set_obs prog true st o nm v = Some st1 -> pext st st1.
  Proof.
    intros st o nm v st1 H. unfold set_obs in H. destruct (true && ps_mem o nm (ps st)); [discriminate|].
    inversion H; subst. simpl. pose proof (notify_pext st (SObs o nm)) as [H1 H2]. split; auto.
  Qed.

  Lemma ps_mem_pext : forall st st' o nm, pext st st' -> ps_mem o nm (ps st) = true -> ps_mem o nm (ps st') = true.
  Proof.
    intros st st' o nm [_ [l E]] H. unfold ps_mem in *. rewrite E, existsb_app, H. apply orb_true_r.
  Qed.

  (* once an observable is in the read set, any later assignment to it by the function is rejected *)
  Lemma reject_after_read : forall o nm v acts st, alive st o = true -> ps_mem o nm (ps st) = true ->
    In (AWrite o nm v) acts -> snd (run_acts prog acts st) = false.
  Proof.
    intros o nm v. induction acts as [|a t IH]; intros st Hal Hps Hin; [destruct Hin|].
    assert (Hnext : forall st', pext st st' -> In (AWrite o nm v) t -> snd (run_acts prog t st') = false).
    { intros st' Hp Ht. apply IH; auto.
      - destruct Hp as [E _]. rewrite E. exact Hal.
      - eapply ps_mem_pext; eauto. }
    simpl. destruct a as [o' nm'|k|o' nm' v'].
    - destruct Hin as [Hin|Hin]; [discriminate|].
      destruct (alive st o'); apply Hnext; auto; try apply pext_refl.
      split; [reflexivity|]. exists [(o', nm')]. reflexivity.
    - destruct Hin as [Hin|Hin]; [discriminate|].
      destruct ((k <? ncomp prog)%nat && alive st (cowner prog k)); apply Hnext; auto; try apply pext_refl.
      apply read_top_pext.
    - destruct Hin as [Hin|Hin].
      + inversion Hin; subst. rewrite Hal. unfold set_obs. rewrite Hps. reflexivity.
      + destruct (alive st o'); [|apply Hnext; auto; apply pext_refl].
        destruct (set_obs prog true st o' nm' v') as [st1|] eqn:E; auto.
        apply Hnext; auto. eapply set_inside_pext; eauto.
  Qed.

  Lemma cycle_rejected : forall o nm v pre mid post st, alive st o = true ->
    snd (run_acts prog (pre ++ ARead o nm :: mid ++ AWrite o nm v :: post) st) = false.
  Proof.
    intros o nm v. induction pre as [|a t IH]; intros mid post st Hal.
    - simpl. rewrite Hal. apply (reject_after_read o nm v); auto.
      + simpl. unfold ps_mem. simpl. rewrite !Z.eqb_refl. reflexivity.
      + apply in_or_app. right. left. reflexivity.
    - simpl. destruct a as [o' nm'|k|o' nm' v'].
      + destruct (alive st o'); apply IH; auto.
      + destruct ((k <? ncomp prog)%nat && alive st (cowner prog k)); [|apply IH; auto].
        apply IH. destruct (read_top_pext st k) as [E _]. rewrite E. exact Hal.
      + destruct (alive st o'); [|apply IH; auto].
        destruct (set_obs prog true st o' nm' v') as [st1|] eqn:E; auto.
        apply IH. destruct (set_inside_pext _ _ _ _ _ E) as [E2 _]. rewrite E2. exact Hal.
  Qed.

  (* exactly what the code rejects: an assignment from inside a function is refused iff the
     observable is in PROCESSING_SIGNALS at that moment *)
  Lemma write_rejected_iff : forall st o nm v, alive st o = true ->
    (snd (run_acts prog [AWrite o nm v] st) = false <-> ps_mem o nm (ps st) = true).
  Proof.
    intros st o nm v Hal. simpl. rewrite Hal. unfold set_obs. simpl.
    destruct (ps_mem o nm (ps st)); simpl; split; intro; auto; discriminate.
  Qed.

  (* read a Computable, then assign: rejected iff evaluating the Computable put the observable into the
     read set - i.e. iff its function was actually RE-RUN and read it (or it was there before) *)
  Lemma read_comp_then_write : forall st k o nm v, (k < ncomp prog)%nat -> alive st (cowner prog k) = true ->
    alive st o = true ->
    snd (run_acts prog [AReadC k; AWrite o nm v] st) = negb (ps_mem o nm (ps (fst (read_top prog st k)))).
  Proof.
    intros st k o nm v Hk Hal Ho. simpl. apply Nat.ltb_lt in Hk. rewrite Hk, Hal. simpl.
    destruct (read_top_pext st k) as [Ea _]. rewrite Ea, Ho. unfold set_obs. simpl.
    destruct (ps_mem o nm (ps (fst (read_top prog st k)))); reflexivity.
  Qed.

  (* ... so a transitive cycle through a Computable that is served from cache is ACCEPTED, whatever
     that Computable depends on *)
  Lemma cycle_through_cache_accepted : forall st k o nm v, (k < ncomp prog)%nat -> alive st (cowner prog k) = true ->
    alive st o = true -> dirty st k = false -> first st k = false -> ps_mem o nm (ps st) = false ->
    snd (run_acts prog [AReadC k; AWrite o nm v] st) = true.
  Proof.
    intros st k o nm v Hk Hal Ho Hd Hf Hps. rewrite read_comp_then_write by auto.
    rewrite (read_cached_noop prog st k Hk Hd Hf). simpl. rewrite Hps. reflexivity.
  Qed.

  (* the read set outlives the evaluation that filled it: only a top-level assignment empties it *)
  Lemma assign_clears_read_set : forall st o nm v st', set_obs prog false st o nm v = Some st' -> ps st' = [].
  Proof. intros st o nm v st' H. unfold set_obs in H. simpl in H. inversion H. reflexivity. Qed.

  Lemma read_keeps_read_set : forall st k o nm, ps_mem o nm (ps st) = true ->
    ps_mem o nm (ps (fst (read_top prog st k))) = true.
  Proof. intros. eapply ps_mem_pext; [apply read_top_pext|assumption]. Qed.

  (* so a function that reads NOTHING and assigns x is rejected when some earlier evaluation read x and no
     top-level assignment happened since ("false rejection"), and accepted right after an assignment *)
  Lemma false_rejection : forall st o nm v, alive st o = true -> ps_mem o nm (ps st) = true ->
    snd (run_acts prog [AWrite o nm v] st) = false.
  Proof. intros. apply write_rejected_iff; auto. Qed.

  Lemma no_rejection_on_empty_read_set : forall st o nm v, alive st o = true -> ps st = [] ->
    snd (run_acts prog [AWrite o nm v] st) = true.
  Proof. intros st o nm v Hal Hps. simpl. rewrite Hal. unfold set_obs. rewrite Hps. reflexivity. Qed.

  (* a rejected assignment leaves the store alone (the ValueError is raised before notify/store) *)
  Lemma rejected_write_atomic : forall st o nm v, set_obs prog true st o nm v = None -> ps_mem o nm (ps st) = true.
  Proof.
    intros st o nm v H. unfold set_obs in H. destruct (ps_mem o nm (ps st)); auto. simpl in H. discriminate.
  Qed.
End Cyc.

Lemma final_snoc : forall prog nobs pre st x,
  final prog nobs st (pre ++ [x]) = fst (step prog nobs (final prog nobs st pre) x).
Proof.
  intros prog nobs. induction pre as [|y t IH]; intros st x; simpl; auto.
Qed.

Lemma store_after_assign : forall prog nobs init pre o nm v,
  no_kill pre = true ->
  let st := final prog nobs (install prog (init_state init)) pre in
  let st' := final prog nobs (install prog (init_state init)) (pre ++ [Assign o nm v]) in
  forall o' n', store st' o' n' = if (o' =? o) && (n' =? nm) then v else store st o' n'.
Proof.
  intros prog nobs init pre o nm v Hn st st' o' n'.
  assert (HI : Inv prog st) by (apply final_ok; auto; apply install_ok; apply init_ok).
  unfold st'. rewrite final_snoc. fold st. unfold step.
  rewrite (g_alive _ _ (proj1 HI) o).
  destruct (set_obs prog false st o nm v) as [st1|] eqn:E.
  - simpl. destruct (set_ok prog false st o nm v st1 HI E) as (_ & _ & H). apply H.
  - unfold set_obs in E. simpl in E. discriminate.
Qed.

Lemma never_stale_case : forall (c : case) (pre : list op) (k : nat),
  no_kill pre = true -> (k < length (c_comps c))%nat ->
  let st := final (c_comps c) (map (@length Z) (c_init c)) (start c) pre in
  snd (read_top (c_comps c) st k) = den (c_comps c) (alive st) (store st) k.
Proof. intros c pre k. exact (never_stale (c_comps c) (map (@length Z) (c_init c)) (c_init c) pre k). Qed.

Lemma chain_read : forall (c : case) (pre : list op) (k : nat),
  no_kill pre = true -> (k < length (c_comps c))%nat ->
  let prog := c_comps c in
  let st := final prog (map (@length Z) (c_init c)) (start c) pre in
  let ev := den prog (alive st) (store st) in
  snd (read_top prog st k) = pev prog ev (alive st) (store st) k (d_expr (cdef_at prog k)) /\
  (forall k', ev k' = pev prog ev (alive st) (store st) k' (d_expr (cdef_at prog k'))).
Proof.
  intros c pre k Hn Hk prog st ev. split.
  - unfold ev. rewrite <- den_unfold. exact (never_stale_case c pre k Hn Hk).
  - intro k'. exact (den_unfold prog (alive st) (store st) k').
Qed.
