From Coq Require Import ZArith List Bool PeanoNat Lia.
From Mesa Require Import Model.Computed.
Import ListNotations.
Open Scope Z_scope.
