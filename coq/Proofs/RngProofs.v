(* Lemmas about Model/Rng.v *)
From Coq Require Import ZArith List Bool Lia Permutation.
From Mesa Require Import Common.ListX Generated.Tables Model.Rng.
Import ListNotations.
Open Scope Z_scope.

(* ================================================================== (b) generator propagation *)
Definition seeded_space (w : world) : Prop := w_sgen w = MODEL_GEN.

(* the documented unseeded fall-backs are the only leaves with another generator: an AgentSet the program itself
   builds with random=None, and the .agents of an EMPTY legacy space *)
Fixpoint wf_term (w : world) (d : term) : Prop :=
  match d with
  | TAgents | TByType _ | TSpaceAgents => True
  | TSelect d _ _ | TSelectAll d | TShuffle d _ | TSort d _ | TGroup d _ | TCopy d => wf_term w d
  | TNew _ seeded => seeded = true
  | TLegacyAgents => legacy_agents w <> []
  | TXAgents s =>           (* exactly the EMPTY legacy space is excluded; a space with a generator must have the model's *)
      match znth (w_xspaces w) s with
      | Some x => if xs_legacy x then xs_members x <> [] else xs_gen x = MODEL_GEN
      | None => True
      end
  end.

Fixpoint wf_cterm (d : cterm) : Prop :=
  match d with
  | CAll | CEmpties | CNbhd _ _ => True
  | CSelect d _ _ => wf_cterm d
  | CNew _ seeded => seeded = true
  end.

Lemma gen_propagates w d c :
  seeded_space w -> wf_term w d -> eval w d = Ok c -> gen c = MODEL_GEN.
Proof.
  intros Hs. revert c. induction d; intros c0 Hwf He; cbn [eval wf_term] in *.
  - inversion He; reflexivity.
  - destruct (filter _ _); inversion He; reflexivity.
  - destruct (eval w d) as [c1|e] eqn:E1; [|discriminate]. inversion He; subst; cbn. apply IHd; auto.
  - apply IHd; auto.
  - destruct (eval w d) as [c1|e] eqn:E1; [|discriminate].
    destruct (shuffle_apply _ _); inversion He; subst; cbn. apply IHd; auto.
  - destruct (eval w d) as [c1|e] eqn:E1; [|discriminate]. inversion He; subst; cbn. apply IHd; auto.
  - destruct (eval w d) as [c1|e] eqn:E1; [|discriminate].
    destruct (filter _ _); inversion He; subst; cbn. apply IHd; auto.
  - apply IHd; auto.
  - destruct (eval w d) as [c1|e] eqn:E1; [|discriminate]. inversion He; subst; cbn. reflexivity.
  - inversion He; subst; cbn. exact Hs.
  - destruct (legacy_agents w) eqn:El; [congruence|]. inversion He; reflexivity.
  - destruct (znth (w_xspaces w) s) as [x|]; [|discriminate]. inversion He; subst; cbn.
    unfold xs_agents_gen, legacy_fallback. destruct (xs_legacy x); [|exact Hwf].
    destruct (xs_members x); [congruence|reflexivity].
Qed.

Lemma cgen_propagates w d c :
  seeded_space w -> wf_cterm d -> ceval w d = Ok c -> gen c = MODEL_GEN.
Proof.
  intros Hs. revert c. induction d; intros c0 Hwf He; cbn [ceval wf_cterm] in *.
  - inversion He; subst; exact Hs.
  - inversion He; subst; exact Hs.
  - destruct (zassoc _ _); inversion He; subst; exact Hs.
  - destruct (ceval w d) as [c1|e] eqn:E1; [|discriminate].
    destruct only_empty, at_most; inversion He; subst; cbn; apply IHd; auto.
  - destruct (ceval w d) as [c1|e] eqn:E1; [|discriminate]. inversion He; subst; cbn. reflexivity.
Qed.

(* sharpness: the observable does tell an unseeded collection apart *)
Lemma unseeded_is_visible w d c :
  eval w (TNew d false) = Ok c -> gen c = OTHER_GEN.
Proof. cbn. destruct (eval w d); intros H; inversion H; reflexivity. Qed.

Lemma unseeded_space_is_visible w d c :
  w_sgen w = OTHER_GEN -> ceval w d = Ok c -> (forall d' b, d <> CNew d' b) ->
  match d with CSelect _ _ _ => True | _ => gen c = OTHER_GEN end.
Proof.
  intros Hs He Hn. destruct d; cbn in *; auto.
  - inversion He; subst; exact Hs.
  - inversion He; subst; exact Hs.
  - destruct (zassoc _ _); inversion He; subst; exact Hs.
  - exfalso. eapply Hn. reflexivity.
Qed.

(* ---- over histories: no operation changes which generator the space carries, so no observation of a
        well-formed derivation ever shows a foreign generator *)
Definition wf_op (w : world) (o : op) : Prop :=
  match o with
  | Derive d | ShuffleDo d _ => wf_term w d
  | DeriveC d | RandomCell d _ | RandomAgent d _ => wf_cterm d
  | XCreate s _ =>           (* the experimental ContinuousSpace was built with random=model.random *)
      match znth (w_xspaces w) s with
      | Some x => if xs_legacy x then True else xs_gen x = MODEL_GEN
      | None => True
      end
  | _ => True
  end.

Fixpoint run_wf (srt : bool) (w : world) (ops : list op) : Prop :=
  match ops with
  | [] => True
  | o :: t => wf_op w o /\ run_wf srt (fst (step srt w o)) t
  end.

Definition no_foreign_gen (ob : list Z) : Prop := hd 0 ob <> OTHER_GEN.

Ltac break_match :=
  match goal with |- context [match ?x with _ => _ end] => destruct x eqn:? end.

Lemma step_sgen srt w o : w_sgen (fst (step srt w o)) = w_sgen w.
Proof. destruct o; cbn [step]; repeat break_match; reflexivity. Qed.

Lemma obs_err_head k : 0 < k -> hd 0 (obs_err k) <> OTHER_GEN.
Proof.
  intros Hk. unfold obs_err, OTHER_GEN. destruct (k =? E_NOEMPTY); [cbn; lia|].
  destruct (k =? E_EMPTYSEQ); cbn; lia.
Qed.

Lemma shuffle_err_pos {A : Type} (l : list A) idxs e : shuffle_apply l idxs = Err e -> 0 < e.
Proof. unfold shuffle_apply. destruct (is_index_perm _ _); intros H; inversion H. unfold E_ILLEGAL; lia. Qed.

Lemma choice_err_pos {A : Type} (l : list A) k e : choice_from l k = Err e -> 0 < e.
Proof.
  unfold choice_from. destruct l; [intros H; inversion H; unfold E_EMPTYSEQ; lia|].
  destruct (znth _ _); intros H; inversion H. unfold E_ILLEGAL; lia.
Qed.

Lemma try_random_err_pos w tape e : try_random w tape = Err e -> 0 < e.
Proof.
  induction tape as [|c t IH]; cbn; [intros H; inversion H; unfold E_ILLEGAL; lia|].
  destruct (negb _); [intros H; inversion H; unfold E_ILLEGAL; lia|].
  destruct (cell_empty w c); [destruct t; intros H; inversion H; unfold E_ILLEGAL; lia|exact IH].
Qed.

Lemma one_of_err_pos cur ps closest idxs k e : one_of_choice cur ps closest idxs k = Err e -> 0 < e.
Proof.
  unfold one_of_choice. destruct closest.
  - destruct (shuffle_apply ps idxs) eqn:E; [|intros H; inversion H; subst; eapply shuffle_err_pos; exact E].
    destruct (znth _ _); intros H; inversion H. unfold E_ILLEGAL; lia.
  - destruct (znth _ _); intros H; inversion H. unfold E_ILLEGAL; lia.
Qed.

Lemma eval_err_pos w d e : eval w d = Err e -> 0 < e.
Proof.
  revert e. induction d; intros e E; cbn [eval] in E.
  - discriminate.
  - destruct (filter _ _); inversion E. unfold E_NOSUCH; lia.
  - destruct (eval w d); [discriminate|]. inversion E; subst. auto.
  - auto.
  - destruct (eval w d); [|inversion E; subst; auto].
    unfold shuffle_apply in E. destruct (is_index_perm _ _); inversion E. unfold E_ILLEGAL; lia.
  - destruct (eval w d); [discriminate|]. inversion E; subst. auto.
  - destruct (eval w d); [|inversion E; subst; auto].
    destruct (filter _ _); inversion E. unfold E_NOSUCH; lia.
  - auto.
  - destruct (eval w d); [discriminate|]. inversion E; subst. auto.
  - discriminate.
  - destruct (legacy_agents w); discriminate.
  - destruct (znth _ _); inversion E. unfold E_NOSUCH; lia.
Qed.

Lemma ceval_err_pos w d e : ceval w d = Err e -> 0 < e.
Proof.
  revert e. induction d; intros e E; cbn [ceval] in E; try discriminate.
  - destruct (zassoc _ _); inversion E. unfold E_NOSUCH; lia.
  - destruct (ceval w d); [destruct only_empty, at_most; discriminate|]. inversion E; subst. auto.
  - destruct (ceval w d); [discriminate|]. inversion E; subst. auto.
Qed.

Lemma ins_by_length b x l : length (ins_by b x l) = S (length l).
Proof. induction l as [|y t IH]; cbn; [reflexivity|]. destruct (b x y); cbn; [reflexivity|]. rewrite IH. reflexivity. Qed.

Lemma sort_by_length b l : length (sort_by b l) = length l.
Proof. induction l as [|x t IH]; cbn; [reflexivity|]. rewrite ins_by_length. unfold sort_by in IH. rewrite IH. reflexivity. Qed.

Lemma xs_members_nonempty x : xs_items x <> [] -> xs_members x <> [].
Proof.
  intros H Hm. apply H. unfold xs_members in Hm. apply (f_equal (@length Z)) in Hm.
  destruct (xs_keyed x); [rewrite sort_by_length in Hm|]; rewrite map_length in Hm; destruct (xs_items x); (reflexivity || discriminate).
Qed.

Lemma step_no_foreign srt w o :
  seeded_space w -> wf_op w o -> no_foreign_gen (snd (step srt w o)).
Proof.
  intros Hs Hwf. unfold no_foreign_gen.
  assert (HE2 : hd 0 (obs_err E_NOSUCH) <> OTHER_GEN) by (apply obs_err_head; unfold E_NOSUCH; lia).
  assert (HE3 : hd 0 (obs_err E_ILLEGAL) <> OTHER_GEN) by (apply obs_err_head; unfold E_ILLEGAL; lia).
  destruct o; cbn [step snd wf_op] in *.
  - destruct (eval w d) as [c|e] eqn:E; cbn [obs_res].
    + cbn. rewrite (gen_propagates w d c Hs Hwf E). discriminate.
    + apply obs_err_head. eapply eval_err_pos. exact E.
  - destruct (ceval w d) as [c|e] eqn:E; cbn [obs_res].
    + cbn. rewrite (cgen_propagates w d c Hs Hwf E). discriminate.
    + apply obs_err_head. eapply ceval_err_pos. exact E.
  - cbn. discriminate.
  - destruct (find_agent _ _); cbn; [discriminate|exact HE2].
  - destruct (znth _ _); cbn; [rewrite Hs; discriminate|exact HE3].
  - destruct (find_agent _ _); [|exact HE2]. destruct (lpos_of _ _); [exact HE2|].
    destruct (_ && _); cbn; [discriminate|exact HE2].
  - destruct (lpos_of _ _); cbn; [discriminate|exact HE2].
  - destruct (in_any_xspace _ _); [exact HE2|]. destruct (find_agent _ _); [|exact HE2].
    destruct (choose_empty _ _ _ _ _) as [p|e] eqn:E; cbn [snd]; [cbn; discriminate|].
    apply obs_err_head.
    unfold choose_empty in E.
    destruct (_ =? 0); [inversion E; unfold E_NOEMPTY; lia|].
    destruct (_ >? _).
    + clear -E. induction tape as [|q t IH]; cbn in E; [inversion E; unfold E_ILLEGAL; lia|].
      destruct (negb _); [inversion E; unfold E_ILLEGAL; lia|].
      destruct (l_is_empty w q); [destruct t; inversion E; unfold E_ILLEGAL; lia|auto].
    + destruct (negb _); [inversion E; unfold E_ILLEGAL; lia|].
      destruct (znth _ _); inversion E; unfold E_ILLEGAL; lia.
  - destruct (eval w d) as [c|e] eqn:E; [|apply obs_err_head; eapply eval_err_pos; exact E].
    destruct (shuffle_apply _ _) eqn:E2; [|apply obs_err_head; eapply shuffle_err_pos; exact E2].
    cbn. rewrite (gen_propagates w d c Hs Hwf E). discriminate.
  - destruct (ceval w d) as [c|e] eqn:E; [|apply obs_err_head; eapply ceval_err_pos; exact E].
    destruct (choice_from _ _) eqn:E2; [|apply obs_err_head; eapply choice_err_pos; exact E2].
    cbn. rewrite (cgen_propagates w d c Hs Hwf E). discriminate.
  - destruct (ceval w d) as [c|e] eqn:E; [|apply obs_err_head; eapply ceval_err_pos; exact E].
    destruct (choice_from _ _) eqn:E2; [|apply obs_err_head; eapply choice_err_pos; exact E2].
    cbn. rewrite (cgen_propagates w d c Hs Hwf E). discriminate.
  - destruct (try_random _ _) eqn:E; [|apply obs_err_head; eapply try_random_err_pos; exact E].
    cbn. rewrite Hs. discriminate.
  - destruct (lpos_of _ _); [|exact HE2]. destruct (filter _ ps); [cbn; discriminate|].
    destruct (one_of_choice _ _ _ _ _) eqn:E; [cbn; discriminate|].
    apply obs_err_head. eapply one_of_err_pos. exact E.
  - cbn. discriminate.
  - destruct (find_agent _ _); [|exact HE2]. destruct (znth _ _) as [x|]; [|exact HE2].
    destruct (_ && _) eqn:Ec; [|exact HE2]. cbn [snd hd].
    apply andb_true_iff in Ec. destruct Ec as [Ec _]. apply andb_true_iff in Ec. destruct Ec as [Ec _].
    apply andb_true_iff in Ec. destruct Ec as [Ec _].
    unfold xs_agents_gen. cbn [xs_set_items xs_legacy]. rewrite Ec.
    assert (xs_members (xs_set_items x (xs_items x ++ [(k, a)])) <> []) as Hne.
    { apply xs_members_nonempty. cbn [xs_set_items xs_items]. destruct (xs_items x); discriminate. }
    destruct (xs_members _); [congruence|cbn; discriminate].
  - destruct (znth _ _) as [x|]; [|exact HE2]. destruct (_ && _); [cbn; discriminate|exact HE2].
  - destruct (znth _ _) as [x|] eqn:Ez; [|exact HE2]. destruct (xs_legacy x) eqn:El; cbn [negb]; [exact HE2|].
    cbn [snd hd]. unfold xs_agents_gen. cbn [xs_set_items xs_legacy xs_gen]. rewrite El.
    try rewrite Ez in Hwf. try rewrite El in Hwf. rewrite Hwf. discriminate.
Qed.

Lemma history_no_foreign srt ops : forall w,
  seeded_space w -> run_wf srt w ops -> Forall no_foreign_gen (run_ops srt w ops).
Proof.
  induction ops as [|o t IH]; intros w Hs Hwf; cbn [run_ops]; [constructor|].
  destruct Hwf as [Ho Ht].
  pose proof (step_no_foreign srt w o Hs Ho) as H1.
  pose proof (step_sgen srt w o) as H2.
  destruct (step srt w o) as [w' ob] eqn:E. cbn [fst snd] in *.
  constructor; [exact H1|]. apply IH; [|exact Ht]. unfold seeded_space in *. congruence.
Qed.

(* ================================================================== (a) hash-order independence *)
Lemma coord_eqb_spec a b : coord_eqb a b = true <-> a = b.
Proof.
  destruct a as [a1 a2], b as [b1 b2]. unfold coord_eqb. cbn.
  rewrite andb_true_iff, !Z.eqb_eq. split; [intros [-> ->]; reflexivity|].
  intros H; inversion H; auto.
Qed.

Lemma coord_leb_total a b : coord_leb a b = true \/ coord_leb b a = true.
Proof.
  destruct a as [a1 a2], b as [b1 b2]. unfold coord_leb. cbn.
  destruct (Z.ltb_spec a1 b1), (Z.ltb_spec b1 a1), (Z.eqb_spec a1 b1), (Z.eqb_spec b1 a1),
    (Z.leb_spec a2 b2), (Z.leb_spec b2 a2); cbn; auto; lia.
Qed.

Lemma coord_leb_antisym a b : coord_leb a b = true -> coord_leb b a = true -> a = b.
Proof.
  destruct a as [a1 a2], b as [b1 b2]. unfold coord_leb. cbn.
  destruct (Z.ltb_spec a1 b1), (Z.ltb_spec b1 a1), (Z.eqb_spec a1 b1), (Z.eqb_spec b1 a1),
    (Z.leb_spec a2 b2), (Z.leb_spec b2 a2); cbn; intros; try discriminate; try lia; f_equal; lia.
Qed.

Lemma coord_leb_trans a b c : coord_leb a b = true -> coord_leb b c = true -> coord_leb a c = true.
Proof.
  destruct a as [a1 a2], b as [b1 b2], c as [c1 c2]. unfold coord_leb. cbn.
  rewrite !orb_true_iff, !andb_true_iff, !Z.ltb_lt, !Z.eqb_eq, !Z.leb_le. lia.
Qed.

Fixpoint csorted (l : list coord) : Prop :=
  match l with
  | [] => True
  | x :: t => (forall y, In y t -> coord_leb x y = true) /\ csorted t
  end.

Lemma cins_perm x l : Permutation (x :: l) (cins x l).
Proof.
  induction l as [|y t IH]; cbn; [reflexivity|].
  destruct (coord_leb x y); [reflexivity|]. rewrite perm_swap. constructor. exact IH.
Qed.

Lemma csort_perm l : Permutation l (csort l).
Proof.
  induction l as [|x t IH]; cbn; [constructor|]. rewrite <- cins_perm. constructor. exact IH.
Qed.

Lemma cins_sorted x l : csorted l -> csorted (cins x l).
Proof.
  induction l as [|y t IH]; cbn; intros Hs.
  - split; [intros y []|exact I].
  - destruct Hs as [Hy Ht]. destruct (coord_leb x y) eqn:E.
    + cbn. split; [|split; assumption].
      intros z [<-|Hz]; [exact E|]. eapply coord_leb_trans; [exact E|]. apply Hy. exact Hz.
    + cbn. split; [|apply IH; exact Ht].
      intros z Hz. apply (Permutation_in _ (Permutation_sym (cins_perm x t))) in Hz.
      destruct Hz as [<-|Hz]; [|apply Hy; exact Hz].
      destruct (coord_leb_total x y) as [H|H]; congruence.
Qed.

Lemma csort_sorted l : csorted (csort l).
Proof. induction l as [|x t IH]; cbn; [exact I|]. apply cins_sorted. exact IH. Qed.

Lemma csorted_perm_eq l : forall l', csorted l -> csorted l' -> Permutation l l' -> l = l'.
Proof.
  induction l as [|x t IH]; intros l' Hs Hs' Hp.
  - apply Permutation_nil in Hp. subst. reflexivity.
  - destruct l' as [|y t']; [apply Permutation_sym, Permutation_nil in Hp; discriminate|].
    destruct Hs as [Hx Ht], Hs' as [Hy Ht'].
    assert (x = y) as ->.
    { assert (In x (y :: t')) as Hin by (eapply Permutation_in; [exact Hp|left; reflexivity]).
      assert (In y (x :: t)) as Hin' by (eapply Permutation_in; [apply Permutation_sym; exact Hp|left; reflexivity]).
      destruct Hin as [->|Hin]; [reflexivity|]. destruct Hin' as [->|Hin']; [reflexivity|].
      apply coord_leb_antisym; [apply Hx; exact Hin'|apply Hy; exact Hin]. }
    f_equal. apply IH; try assumption. eapply Permutation_cons_inv. exact Hp.
Qed.

Lemma csort_perm_invariant l l' : Permutation l l' -> csort l = csort l'.
Proof.
  intros Hp. apply csorted_perm_eq; try apply csort_sorted.
  rewrite <- (csort_perm l), <- (csort_perm l'). exact Hp.
Qed.

Lemma clist_eqb_eq a : forall b, clist_eqb a b = true <-> a = b.
Proof.
  induction a as [|x t IH]; intros [|y t']; cbn; split; intros H; try reflexivity; try discriminate.
  - apply andb_true_iff in H. destruct H as [H1 H2]. apply coord_eqb_spec in H1. apply IH in H2. congruence.
  - inversion H; subst. apply andb_true_iff. split; [apply coord_eqb_spec; reflexivity|apply IH; reflexivity].
Qed.

Lemma choose_empty_perm_invariant w pi pi' k tape :
  Permutation pi pi' -> choose_empty true w pi k tape = choose_empty true w pi' k tape.
Proof.
  intros Hp. unfold choose_empty, legal_order, choice_arg.
  rewrite (csort_perm_invariant pi pi' Hp). reflexivity.
Qed.

Lemma move_to_empty_perm_invariant w a pi pi' k tape :
  Permutation pi pi' ->
  step true w (MoveToEmpty a pi k tape) = step true w (MoveToEmpty a pi' k tape).
Proof.
  intros Hp. cbn [step]. rewrite (choose_empty_perm_invariant w pi pi' k tape Hp). reflexivity.
Qed.

Lemma nth_opt_In {A : Type} (l : list A) : forall n x, nth_opt l n = Some x -> In x l.
Proof.
  induction l as [|y t IH]; intros [|n] x H; cbn in *; try discriminate.
  - inversion H. left; reflexivity.
  - right. eapply IH. exact H.
Qed.

Lemma znth_In {A : Type} (l : list A) k x : znth l k = Some x -> In x l.
Proof. unfold znth. destruct (k <? 0); [discriminate|]. apply nth_opt_In. Qed.

Lemma in_legacy_cells w p : In p (legacy_cells w) <-> l_in_grid w p = true.
Proof.
  unfold legacy_cells, l_in_grid. rewrite in_flat_map. destruct p as [x y]. cbn [fst snd].
  rewrite !andb_true_iff, !Z.leb_le, !Z.ltb_lt. split.
  - intros [x' [Hx Hy]]. apply zrange_In in Hx. apply in_map_iff in Hy. destruct Hy as [y' [He Hy]].
    apply zrange_In in Hy. inversion He; subst. lia.
  - intros H. exists x. split; [apply zrange_In; lia|]. apply in_map_iff. exists y. split; [reflexivity|].
    apply zrange_In. lia.
Qed.

Lemma reject_loop_ok w tape p :
  reject_loop w tape = Ok p -> l_in_grid w p = true /\ l_is_empty w p = true.
Proof.
  induction tape as [|q t IH]; cbn; [discriminate|].
  destruct (l_in_grid w q) eqn:Eg; cbn; [|discriminate].
  destruct (l_is_empty w q) eqn:Ee; [|exact IH].
  destruct t; [|discriminate]. intros H; inversion H; subst. auto.
Qed.

(* whichever branch, whichever iteration order: the destination is one of the empty cells *)
Lemma choose_empty_sound srt w pi k tape p :
  choose_empty srt w pi k tape = Ok p -> In p (l_empties w).
Proof.
  unfold choose_empty, l_empties at 2.
  destruct (_ =? 0); [discriminate|]. destruct (_ >? _).
  - intros H. apply reject_loop_ok in H. destruct H as [Hg He].
    apply filter_In. split; [apply in_legacy_cells; exact Hg|exact He].
  - destruct (legal_order w pi) eqn:El; cbn; [|discriminate].
    destruct (znth _ _) as [q|] eqn:En; [|discriminate]. intros H; inversion H; subst q.
    apply znth_In in En. unfold legal_order in El. apply clist_eqb_eq in El.
    assert (In p pi) as Hin.
    { unfold choice_arg in En. destruct srt; [|exact En].
      eapply Permutation_in; [apply Permutation_sym, csort_perm|exact En]. }
    eapply Permutation_in; [apply Permutation_sym, csort_perm|].
    fold (l_empties w). rewrite <- El. eapply Permutation_in; [apply csort_perm|exact Hin].
Qed.

(* without `sorted` the same generator outcome lands on different cells for two iteration orders of one set *)
Lemma unsorted_choice_depends_on_order :
  exists w a pi pi' k, Permutation pi pi' /\
    snd (step false w (MoveToEmpty a pi k [])) <> snd (step false w (MoveToEmpty a pi' k [])).
Proof.
  exists {| w_agents := [{| a_id := 1; a_cls := 0; a_key := 0 |}]; w_next := 2; w_sgen := 0; w_cells := [];
            w_conn := []; w_lw := 2; w_lh := 1; w_lgrid := []; w_cutoff := 10; w_xspaces := [] |}.
  exists 1, [(0, 0); (1, 0)], [(1, 0); (0, 0)], 0. split; [apply perm_swap|].
  vm_compute. discriminate.
Qed.

(* ================================================================== (c) shuffles are functions of (order, outcome) *)
Lemma zmem_In x l : zmem x l = true <-> In x l.
Proof.
  unfold zmem. rewrite existsb_exists. split.
  - intros [y [Hy He]]. apply Z.eqb_eq in He. subst. exact Hy.
  - intros H. exists x. split; [exact H|apply Z.eqb_refl].
Qed.

Lemma index_perm_spec n idxs :
  is_index_perm n idxs = true -> Permutation (map Z.of_nat (seq 0 n)) idxs.
Proof.
  unfold is_index_perm. rewrite andb_true_iff, Nat.eqb_eq, forallb_forall. intros [Hl Hin].
  apply NoDup_Permutation_bis.
  - apply FinFun.Injective_map_NoDup; [intros a b; apply Nat2Z.inj|apply seq_NoDup].
  - rewrite map_length, seq_length. lia.
  - intros z Hz. apply in_map_iff in Hz. destruct Hz as [i [<- Hi]]. apply zmem_In. apply Hin. exact Hi.
Qed.

Lemma znth_of_nat {A : Type} (l : list A) i : znth l (Z.of_nat i) = nth_opt l i.
Proof. unfold znth. destruct (Z.ltb_spec (Z.of_nat i) 0); [lia|]. rewrite Nat2Z.id. reflexivity. Qed.

Lemma pick_all_seq {A : Type} (l : list A) : forall pre,
  flat_map (fun i => match znth (pre ++ l) i with Some x => [x] | None => [] end)
           (map Z.of_nat (seq (length pre) (length l))) = l.
Proof.
  induction l as [|x t IH]; intros pre; cbn [length seq map flat_map]; [reflexivity|].
  rewrite znth_of_nat.
  assert (nth_opt (pre ++ x :: t) (length pre) = Some x) as ->.
  { clear. induction pre; cbn; auto. }
  cbn. f_equal.
  specialize (IH (pre ++ [x])). rewrite <- app_assoc in IH. cbn in IH.
  rewrite app_length in IH. cbn in IH. rewrite Nat.add_1_r in IH. exact IH.
Qed.

Lemma shuffle_is_permutation {A : Type} (l : list A) idxs l' :
  shuffle_apply l idxs = Ok l' -> Permutation l l'.
Proof.
  unfold shuffle_apply. destruct (is_index_perm _ _) eqn:E; [|discriminate].
  intros H; inversion H; subst. apply index_perm_spec in E.
  unfold pick_all. rewrite <- (Permutation_flat_map _ E).
  pose proof (pick_all_seq l []) as H0. cbn [app length] in H0. rewrite H0. reflexivity.
Qed.

Definition members_of (r : result coll) : option (list Z) :=
  match r with Ok c => Some (members c) | Err _ => None end.

(* the shuffled order depends on nothing but the members in their current order and the generator's outcome:
   two worlds, two derivations, same member sequence => same shuffled sequence *)
Lemma shuffle_function_of_order w w' d d' idxs c c' :
  eval w d = Ok c -> eval w' d' = Ok c' -> members c = members c' ->
  members_of (eval w (TShuffle d idxs)) = members_of (eval w' (TShuffle d' idxs)).
Proof.
  intros E E' Hm. cbn [eval]. rewrite E, E', Hm.
  destruct (shuffle_apply (members c') idxs); reflexivity.
Qed.

Lemma shuffle_members_permutation w d idxs c c' :
  eval w d = Ok c -> eval w (TShuffle d idxs) = Ok c' -> Permutation (members c) (members c') /\ gen c' = gen c.
Proof.
  intros E. cbn [eval]. rewrite E. destruct (shuffle_apply _ _) eqn:Es; [|discriminate].
  intros H; inversion H; subst; cbn. split; [|reflexivity]. eapply shuffle_is_permutation. exact Es.
Qed.

(* ================================================================== registry order = creation order *)
Fixpoint incr_in (lo hi : Z) (l : list Z) : Prop :=
  match l with
  | [] => True
  | x :: t => lo <= x < hi /\ incr_in (x + 1) hi t
  end.

Definition reg_ok (w : world) : Prop := incr_in 1 (w_next w) (all_ids w).

Lemma incr_in_weaken lo lo' hi hi' l : lo' <= lo -> hi <= hi' -> incr_in lo hi l -> incr_in lo' hi' l.
Proof.
  revert lo lo'. induction l as [|x t IH]; intros lo lo' H1 H2; cbn; [auto|].
  intros [Hx Ht]. split; [lia|]. eapply IH; [| |exact Ht]; lia.
Qed.

Lemma incr_in_app lo mid hi l l' :
  lo <= mid -> incr_in lo mid l -> incr_in mid hi l' -> mid <= hi -> incr_in lo hi (l ++ l').
Proof.
  revert lo. induction l as [|x t IH]; intros lo Hlo; cbn.
  - intros _ H Hm. eapply incr_in_weaken; [exact Hlo| |exact H]. lia.
  - intros [Hx Ht] H Hm. split; [lia|]. apply IH; try assumption. lia.
Qed.

Lemma incr_in_filter f lo hi l : incr_in lo hi l -> incr_in lo hi (filter f l).
Proof.
  revert lo. induction l as [|x t IH]; intros lo; cbn; [auto|].
  intros [Hx Ht]. destruct (f x); cbn.
  - split; [exact Hx|]. apply IH. exact Ht.
  - eapply incr_in_weaken; [| |apply IH; exact Ht]; lia.
Qed.

Lemma mk_agents_ids c keys : forall next,
  incr_in next (next + Z.of_nat (length keys)) (map a_id (mk_agents c next keys)).
Proof.
  induction keys as [|k t IH]; intros next; cbn [mk_agents map length incr_in a_id]; [exact I|].
  split; [lia|]. replace (next + Z.of_nat (S (length t))) with (next + 1 + Z.of_nat (length t)) by lia.
  apply IH.
Qed.

Lemma map_filter_ids (a : Z) (l : list agent) :
  map a_id (filter (fun b => negb (a_id b =? a)) l) = filter (fun i => negb (i =? a)) (map a_id l).
Proof.
  induction l as [|b t IH]; cbn; [reflexivity|]. destruct (negb (a_id b =? a)); cbn; rewrite IH; reflexivity.
Qed.

Lemma step_reg_ok srt w o : 1 <= w_next w -> reg_ok w -> reg_ok (fst (step srt w o)) /\ 1 <= w_next (fst (step srt w o)).
Proof.
  intros Hn Hr. unfold reg_ok in *. destruct o; cbn [step fst]; auto.
  - unfold all_ids. cbn. rewrite map_app. split; [|lia].
    eapply incr_in_app; [exact Hn|exact Hr|apply mk_agents_ids|lia].
  - destruct (find_agent _ _); cbn; [|auto]. unfold all_ids. cbn. rewrite map_filter_ids.
    split; [apply incr_in_filter; exact Hr|exact Hn].
  - destruct (znth _ _); cbn; auto.
  - destruct (find_agent _ _); [|auto]. destruct (lpos_of _ _); [auto|]. destruct (_ && _); cbn; auto.
  - destruct (lpos_of _ _); cbn; auto.
  - destruct (in_any_xspace _ _); [auto|]. destruct (find_agent _ _); [|auto]. destruct (choose_empty _ _ _ _ _); cbn; auto.
  - destruct (eval w d); [|auto]. destruct (shuffle_apply _ _); cbn; auto.
  - destruct (ceval w d); [|auto]. destruct (choice_from _ _); cbn; auto.
  - destruct (ceval w d); [|auto]. destruct (choice_from _ _); cbn; auto.
  - destruct (try_random _ _); cbn; auto.
  - destruct (lpos_of _ _); [|auto]. destruct (filter _ ps); [auto|].
    destruct (one_of_choice _ _ _ _ _); cbn; auto.
  - destruct (find_agent _ _); [|auto]. destruct (znth _ _); [|auto]. destruct (_ && _); cbn; auto.
  - destruct (znth _ _); [|auto]. destruct (_ && _); cbn; auto.
  - destruct (znth _ _); [|auto]. destruct (negb _); [|auto]. unfold all_ids. cbn. rewrite map_app. split; [|lia].
    eapply incr_in_app; [exact Hn|exact Hr| |lia]. cbn. split; [lia|exact I].
Qed.

(* re-seeding changes no collection: whatever was derivable before a reset evaluates to the same collection, with
   the same generator, after it - at any later point of a history that contains only resets in between *)
Lemma reset_is_transparent srt w : step srt w Reset = (w, [MODEL_GEN; w_sgen w]).
Proof. reflexivity. Qed.

Lemma resets_preserve_derivations srt n w d :
  eval (final srt w (repeat Reset n)) d = eval w d /\ final srt w (repeat Reset n) = w.
Proof. induction n as [|n IH]; cbn; [split; reflexivity|]. exact IH. Qed.

Lemma registry_order_is_creation_order srt ops : forall w,
  1 <= w_next w -> reg_ok w -> reg_ok (final srt w ops).
Proof.
  induction ops as [|o t IH]; intros w Hn Hr; cbn [final]; [exact Hr|].
  destruct (step_reg_ok srt w o Hn Hr) as [H1 H2]. apply IH; assumption.
Qed.

Lemma incr_in_lt lo hi l : incr_in lo hi l ->
  forall i j x y, (i < j)%nat -> nth_opt l i = Some x -> nth_opt l j = Some y -> x < y.
Proof.
  revert lo. induction l as [|z t IH]; intros lo H i j x y Hij Hi Hj; [destruct i; discriminate|].
  destruct H as [Hz Ht]. destruct j as [|j]; [lia|]. cbn in Hj. destruct i as [|i]; cbn in Hi.
  - inversion Hi; subst z. clear -Ht Hj. revert x Ht j Hj. induction t as [|u t IH]; intros x Ht j Hj; [destruct j; discriminate|].
    destruct Ht as [Hu Ht]. destruct j; cbn in Hj; [inversion Hj; subst; lia|].
    assert (u < y) by (eapply IH; eauto). lia.
  - eapply IH; [exact Ht| |exact Hi|exact Hj]. lia.
Qed.

(* ================================================================== DiscreteSpace.select_random_empty_cell *)
Lemma select_random_empty_sound srt w k c :
  snd (step srt w (SelectRandomEmpty k)) = [w_sgen w; c] ->
  In c (map fst (w_cells w)) /\ cell_empty w c = true.
Proof.
  cbn [step]. destruct (znth _ _) as [c'|] eqn:E; cbn.
  - intros H; inversion H; subst. apply znth_In in E. apply filter_In in E. exact E.
  - vm_compute. discriminate.
Qed.

Lemma try_random_sound w tape c :
  try_random w tape = Ok c -> In c (map fst (w_cells w)) /\ cell_empty w c = true.
Proof.
  induction tape as [|x t IH]; cbn; [discriminate|].
  destruct (zmem x (map fst (w_cells w))) eqn:Em; cbn; [|discriminate].
  destruct (cell_empty w x) eqn:Ee; [|exact IH].
  destruct t; [|discriminate]. intros H; inversion H; subst. split; [apply zmem_In; exact Em|exact Ee].
Qed.

(* every choice is an element of the sequence it was drawn from, at the index the generator produced *)
Lemma choice_from_sound {A : Type} (l : list A) k x : choice_from l k = Ok x -> In x l.
Proof.
  unfold choice_from. destruct l; [discriminate|]. destruct (znth _ _) eqn:E; [|discriminate].
  intros H; inversion H; subst. eapply znth_In. exact E.
Qed.

(* ---- move_agent_to_one_of(selection="closest"): whatever the shuffle did, the candidates are exactly nearest *)
Lemma closest_scan_spec cur l : forall best acc,
  (match best with None => acc = [] | Some m => forall p, In p acc -> dist2 p cur = m end) ->
  forall p, In p (closest_scan cur l best acc) ->
    (In p acc \/ In p l) /\ (forall q, In q l -> dist2 p cur <= dist2 q cur) /\
    (match best with Some m => dist2 p cur <= m | None => True end).
Proof.
  induction l as [|x t IH]; intros best acc Hinv p Hp; cbn [closest_scan] in Hp.
  - split; [left; exact Hp|]. split; [intros q []|]. destruct best; [|exact I]. rewrite (Hinv p Hp). lia.
  - destruct best as [m|].
    + destruct (Z.ltb_spec (dist2 x cur) m) as [Hlt|Hge].
      * apply IH in Hp; [|cbn; intros q [<-|[]]; reflexivity].
        destruct Hp as [Hin [Hmin Hle]]. split; [|split].
        -- right. destruct Hin as [[<-|[]]|Hin]; [left; reflexivity|right; exact Hin].
        -- intros q [<-|Hq]; [exact Hle|apply Hmin; exact Hq].
        -- lia.
      * destruct (Z.eqb_spec (dist2 x cur) m) as [Heq|Hne].
        -- apply IH in Hp; [|intros q Hq; apply in_app_or in Hq; destruct Hq as [Hq|[<-|[]]]; [apply Hinv; exact Hq|exact Heq]].
           destruct Hp as [Hin [Hmin Hle]]. split; [|split].
           ++ destruct Hin as [Hin|Hin]; [|right; right; exact Hin].
              apply in_app_or in Hin. destruct Hin as [Hin|[<-|[]]]; [left; exact Hin|right; left; reflexivity].
           ++ intros q [<-|Hq]; [lia|apply Hmin; exact Hq].
           ++ exact Hle.
        -- apply IH in Hp; [|exact Hinv].
           destruct Hp as [Hin [Hmin Hle]]. split; [|split].
           ++ destruct Hin as [Hin|Hin]; [left; exact Hin|right; right; exact Hin].
           ++ intros q [<-|Hq]; [lia|apply Hmin; exact Hq].
           ++ exact Hle.
    + apply IH in Hp; [|cbn; intros q [<-|[]]; reflexivity].
      destruct Hp as [Hin [Hmin Hle]]. split; [|split; [|exact I]].
      * right. destruct Hin as [[<-|[]]|Hin]; [left; reflexivity|right; exact Hin].
      * intros q [<-|Hq]; [exact Hle|apply Hmin; exact Hq].
Qed.

Lemma one_of_choice_sound cur ps closest idxs k p :
  one_of_choice cur ps closest idxs k = Ok p ->
  In p ps /\ (closest = true -> forall q, In q ps -> dist2 p cur <= dist2 q cur).
Proof.
  unfold one_of_choice. destruct closest.
  - destruct (shuffle_apply ps idxs) as [l|] eqn:Es; [|discriminate].
    destruct (znth _ _) as [x|] eqn:En; [|discriminate]. intros H; inversion H; subst x.
    apply znth_In in En. apply closest_scan_spec in En; [|reflexivity].
    destruct En as [Hin [Hmin _]]. pose proof (shuffle_is_permutation ps idxs l Es) as Hperm.
    split.
    + destruct Hin as [[]|Hin]. eapply Permutation_in; [apply Permutation_sym; exact Hperm|exact Hin].
    + intros _ q Hq. apply Hmin. eapply Permutation_in; [exact Hperm|exact Hq].
  - destruct (znth _ _) as [x|] eqn:En; [|discriminate]. intros H; inversion H; subst x.
    split; [eapply znth_In; exact En|discriminate].
Qed.

(* ================================================================== exact characterisation of the carried generator *)
(* the specification: walk down the receiver spine to the first constructor that fixes the generator *)
Fixpoint gen_spec (w : world) (d : term) : genid :=
  match d with
  | TAgents | TByType _ => MODEL_GEN
  | TSelect d _ _ | TSelectAll d | TShuffle d _ | TSort d _ | TGroup d _ | TCopy d => gen_spec w d
  | TNew _ seeded => if seeded then MODEL_GEN else OTHER_GEN
  | TSpaceAgents => w_sgen w
  | TLegacyAgents => match legacy_agents w with [] => OTHER_GEN | _ => MODEL_GEN end
  | TXAgents s => match znth (w_xspaces w) s with
                  | Some x => if xs_legacy x then legacy_fallback (xs_members x) else xs_gen x
                  | None => OTHER_GEN
                  end
  end.

Fixpoint cgen_spec (w : world) (d : cterm) : genid :=
  match d with
  | CAll | CEmpties | CNbhd _ _ => w_sgen w
  | CSelect d _ _ => cgen_spec w d
  | CNew _ seeded => if seeded then MODEL_GEN else OTHER_GEN
  end.

Lemma gen_refines_spec w d c : eval w d = Ok c -> gen c = gen_spec w d.
Proof.
  revert c. induction d; intros c0 He; cbn [eval gen_spec] in *.
  - inversion He; reflexivity.
  - destruct (filter _ _); inversion He; reflexivity.
  - destruct (eval w d) as [c1|e]; [|discriminate]. inversion He; subst; cbn. auto.
  - auto.
  - destruct (eval w d) as [c1|e]; [|discriminate].
    destruct (shuffle_apply _ _); inversion He; subst; cbn. auto.
  - destruct (eval w d) as [c1|e]; [|discriminate]. inversion He; subst; cbn. auto.
  - destruct (eval w d) as [c1|e]; [|discriminate].
    destruct (filter _ _); inversion He; subst; cbn. auto.
  - auto.
  - destruct (eval w d) as [c1|e]; [|discriminate]. inversion He; subst; cbn. reflexivity.
  - inversion He; reflexivity.
  - destruct (legacy_agents w); inversion He; reflexivity.
  - destruct (znth _ _); inversion He; reflexivity.
Qed.

(* the documented first-agent fall-back as a function of its own: it yields the model's generator exactly when the
   legacy space holds an agent *)
Lemma legacy_fallback_spec l : legacy_fallback l = MODEL_GEN <-> l <> [].
Proof. destruct l; cbn; unfold OTHER_GEN, MODEL_GEN; split; intros H; try congruence; discriminate. Qed.

Lemma xagents_gen_spec w s x :
  znth (w_xspaces w) s = Some x ->
  eval w (TXAgents s) = Ok {| members := xs_members x; gen := xs_agents_gen x |} /\
  (xs_legacy x = true -> (xs_agents_gen x = MODEL_GEN <-> xs_members x <> [])) /\
  (xs_legacy x = false -> xs_agents_gen x = xs_gen x).
Proof.
  intros H. cbn [eval]. rewrite H. split; [reflexivity|]. unfold xs_agents_gen. split; intros ->.
  - apply legacy_fallback_spec.
  - reflexivity.
Qed.

Lemma cgen_refines_spec w d c : ceval w d = Ok c -> gen c = cgen_spec w d.
Proof.
  revert c. induction d; intros c0 He; cbn [ceval cgen_spec] in *.
  - inversion He; reflexivity.
  - inversion He; reflexivity.
  - destruct (zassoc _ _); inversion He; reflexivity.
  - destruct (ceval w d) as [c1|e]; [|discriminate].
    destruct only_empty, at_most; inversion He; subst; cbn; auto.
  - destruct (ceval w d) as [c1|e]; [|discriminate]. inversion He; subst; cbn. reflexivity.
Qed.

(* ================================================================== whole histories under re-ordered sets *)
(* two histories that differ only in the order in which each move_to_empty saw the set of empties *)
Inductive op_perm : op -> op -> Prop :=
| op_perm_mte a pi pi' k tape : Permutation pi pi' -> op_perm (MoveToEmpty a pi k tape) (MoveToEmpty a pi' k tape)
| op_perm_refl o : op_perm o o.

Lemma history_perm_invariant ops ops' : Forall2 op_perm ops ops' ->
  forall w, run_ops true w ops = run_ops true w ops' /\ final true w ops = final true w ops'.
Proof.
  induction 1 as [|o o' t t' Ho Ht IH]; intros w; cbn [run_ops final]; [split; reflexivity|].
  assert (step true w o = step true w o') as Hs.
  { destruct Ho as [a pi pi' k tape Hp|o]; [apply move_to_empty_perm_invariant; exact Hp|reflexivity]. }
  rewrite Hs. destruct (step true w o') as [w' ob]. cbn [fst]. destruct (IH w') as [H1 H2].
  split; [f_equal; exact H1|exact H2].
Qed.
