(* C15: cutting a run of the simulator into pieces (run_until / run_for / run_next_event) that stay
   below a horizon T, followed by run_until(T), is the same as run_until(T) in one piece. *)
From Coq Require Import ZArith List Bool Lia Sorted.
From Mesa Require Import Generated.Tables Model.Devs Model.DevsSpec Proofs.DevsProofs.
Import ListNotations. Open Scope Z_scope.

(* ---------- record equalities ---------- *)
Lemma set_time_set_time : forall st t t', set_time (set_time st t) t' = set_time st t'.
Proof. destruct st; reflexivity. Qed.

Lemma set_events_set_events : forall st l l', set_events (set_events st l) l' = set_events st l'.
Proof. destruct st; reflexivity. Qed.

Lemma chunk_rec_empty : forall st t1 t2,
  set_time (set_events (set_time (set_events st []) t1) []) t2 = set_time (set_events st []) t2.
Proof. destruct st; reflexivity. Qed.

Lemma chunk_rec_stop_events : forall st rest t1 l,
  set_events (set_events (set_time (set_events st rest) t1) l) rest = set_time (set_events st rest) t1.
Proof. destruct st; reflexivity. Qed.

Lemma chunk_rec_stop_stop : forall st rest t1 t2 l l',
  set_events (set_time (set_events (set_events (set_time (set_events st rest) t1) l) rest) t2) l' =
  set_events (set_time (set_events st rest) t2) l'.
Proof. destruct st; reflexivity. Qed.

Lemma chunk_rec_next_empty : forall st t2,
  set_time (set_events (set_events st []) []) t2 = set_time (set_events st []) t2.
Proof. destruct st; reflexivity. Qed.

Lemma s_events_stop : forall st rest t1 l,
  s_events (set_events (set_time (set_events st rest) t1) l) = l.
Proof. reflexivity. Qed.

(* ---------- exec_event does not look at the clock it starts from ---------- *)
Lemma exec_event_set_time : forall cfg st e t, exec_event cfg (set_time st t) e = exec_event cfg st e.
Proof. intros cfg st e t. unfold exec_event. rewrite set_time_set_time. reflexivity. Qed.

Lemma pop_event_live_head : forall e rest, e_cancelled e = false -> pop_event (e :: rest) = Some (e, rest).
Proof. intros e rest H. cbn [pop_event]. rewrite H. reflexivity. Qed.

(* ---------- loop fusion ---------- *)
Lemma run_loop_chunk : forall cfg n1 t1 st st1 l1 n2 t2 st2 l2, inv st -> t1 <= t2 ->
  run_loop cfg n1 t1 st = (st1, l1, true) -> run_loop cfg n2 t2 st1 = (st2, l2, true) ->
  run_loop cfg (n1 + n2) t2 st = (st2, l1 ++ l2, true).
Proof.
  intros cfg n1. induction n1 as [|n IH]; intros t1 st st1 l1 n2 t2 st2 l2 Hi Ht H1 H2.
  - cbn [run_loop] in H1. inversion H1.
  - cbn [run_loop] in H1. cbn [Nat.add run_loop].
    destruct (pop_event (s_events st)) as [[e rest]|] eqn:Hp.
    + destruct (Z.leb_spec (e_time e) t1) as [Hle|Hgt].
      * (* e runs in the first chunk *)
        destruct (exec_event cfg (set_events st rest) e) as [sa la] eqn:He.
        destruct (has_raise la) eqn:Hra; [inversion H1|].
        destruct (run_loop cfg n t1 sa) as [[sb lb] okb] eqn:Hr.
        inversion H1; subst sb l1 okb.
        assert (Hia : inv sa) by (eapply inv_exec_event; eassumption).
        rewrite (IH _ _ _ _ _ _ _ _ Hia Ht Hr H2).
        destruct (Z.leb_spec (e_time e) t2); [|lia].
        rewrite app_assoc. reflexivity.
      * (* the first chunk stops before e *)
        inversion H1; subst st1 l1. clear H1.
        destruct (inv_stop _ _ _ t1 Hi Hp Hgt) as [_ [Hins _]].
        destruct (pop_event_some _ _ _ Hp) as [Hc _].
        destruct n2 as [|m]; [cbn [run_loop] in H2; inversion H2|].
        cbn [run_loop] in H2. rewrite s_events_stop in H2.
        rewrite Hins in H2 at 1. rewrite (pop_event_live_head _ _ Hc) in H2.
        destruct (Z.leb_spec (e_time e) t2) as [Hle2|Hgt2].
        -- rewrite chunk_rec_stop_events, exec_event_set_time in H2.
           destruct (exec_event cfg (set_events st rest) e) as [sa la] eqn:He.
           destruct (has_raise la) eqn:Hra; [inversion H2|].
           destruct (run_loop cfg m t2 sa) as [[sb lb] okb] eqn:Hr.
           inversion H2; subst sb l2 okb.
           rewrite (run_loop_fuel_mono _ _ _ _ _ _ Hr (n + S m)%nat) by lia.
           reflexivity.
        -- rewrite chunk_rec_stop_stop in H2. inversion H2; subst. reflexivity.
    + inversion H1; subst st1 l1. clear H1.
      destruct n2 as [|m]; [cbn [run_loop] in H2; inversion H2|].
      cbn [run_loop] in H2.
      change (s_events (set_time (set_events st []) t1)) with (@nil event) in H2.
      cbn [pop_event] in H2. rewrite chunk_rec_empty in H2.
      inversion H2; subst. reflexivity.
Qed.

Lemma run_next_chunk : forall cfg st st1 l1 n2 t2 st2 l2, inv st ->
  run_next cfg st = (st1, l1) -> has_raise l1 = false ->
  (forall e rest, pop_event (s_events st) = Some (e, rest) -> e_time e <= t2) ->
  run_loop cfg n2 t2 st1 = (st2, l2, true) ->
  run_loop cfg (S n2) t2 st = (st2, l1 ++ l2, true).
Proof.
  intros cfg st st1 l1 n2 t2 st2 l2 Hi H1 Hnr Hw H2. unfold run_next in H1. cbn [run_loop].
  destruct (pop_event (s_events st)) as [[e rest]|] eqn:Hp.
  - specialize (Hw _ _ eq_refl). destruct (Z.leb_spec (e_time e) t2); [|lia].
    rewrite H1, Hnr, H2. reflexivity.
  - inversion H1; subst st1 l1. clear H1.
    destruct n2 as [|m]; [cbn [run_loop] in H2; inversion H2|].
    cbn [run_loop] in H2.
    change (s_events (set_events st [])) with (@nil event) in H2.
    cbn [pop_event] in H2. rewrite chunk_rec_next_empty in H2.
    inversion H2; subst. reflexivity.
Qed.

Lemma inv_run_piece : forall cfg fuel st p st' l ok, inv st -> run_piece cfg fuel st p = (st', l, ok) -> inv st'.
Proof.
  intros cfg fuel st p st' l ok Hi H. destruct p as [t|d|]; cbn [run_piece] in H.
  - eapply inv_run_loop; eassumption.
  - eapply inv_run_loop; eassumption.
  - destruct (run_next cfg st) as [s l0] eqn:E. inversion H; subst.
    eapply inv_run_next; eassumption.
Qed.

(* ---------- the partition theorem ---------- *)
Theorem chunking : forall cfg fuel ps st T st1 l1 st2 l2, inv st -> within cfg fuel st T ps ->
  run_pieces cfg fuel st ps = (st1, l1, true) -> run_loop cfg fuel T st1 = (st2, l2, true) ->
  exists n, run_loop cfg n T st = (st2, l1 ++ l2, true).
Proof.
  intros cfg fuel ps. induction ps as [|p r IH]; intros st T st1 l1 st2 l2 Hi Hw H1 H2.
  - cbn [run_pieces] in H1. inversion H1; subst. exists fuel. exact H2.
  - cbn [run_pieces] in H1. cbn [within] in Hw. destruct Hw as [Hp Hw].
    destruct (run_piece cfg fuel st p) as [[sa la] oka] eqn:Ep.
    destruct (run_pieces cfg fuel sa r) as [[sb lb] okb] eqn:Er.
    cbn [fst] in Hw.
    inversion H1 as [[Hs Hl Hok]]. subst sb l1.
    apply andb_true_iff in Hok. destruct Hok as [-> ->].
    assert (Hia : inv sa) by (eapply inv_run_piece; eassumption).
    destruct (IH _ _ _ _ _ _ Hia Hw Er H2) as [n Hn].
    rewrite <- app_assoc.
    destruct p as [t|d|]; cbn [run_piece piece_within] in Ep, Hp.
    + exists (fuel + n)%nat. eapply run_loop_chunk; eassumption.
    + exists (fuel + n)%nat. eapply run_loop_chunk; eassumption.
    + destruct (run_next cfg st) as [s l0] eqn:En. injection Ep as Hs' Hl' Hn'; subst s l0.
      apply negb_true_iff in Hn'.
      exists (S n). eapply run_next_chunk; eassumption.
Qed.

Corollary chunking_two : forall cfg fuel st t1 t2 st1 l1 st2 l2, inv st -> t1 <= t2 ->
  run_loop cfg fuel t1 st = (st1, l1, true) -> run_loop cfg fuel t2 st1 = (st2, l2, true) ->
  exists n, run_loop cfg n t2 st = (st2, l1 ++ l2, true).
Proof.
  intros cfg fuel st t1 t2 st1 l1 st2 l2 Hi Ht H1 H2.
  exists (fuel + fuel)%nat. eapply run_loop_chunk; eassumption.
Qed.

Lemma run_loop_deterministic : forall cfg n m t st a b,
  run_loop cfg n t st = (fst a, snd a, true) -> run_loop cfg m t st = (fst b, snd b, true) -> a = b.
Proof.
  intros cfg n m t st [sa la] [sb lb] Ha Hb. cbn [fst snd] in *.
  pose proof (run_loop_fuel_mono _ _ _ _ _ _ Ha (Nat.max n m) (Nat.le_max_l n m)) as Ha'.
  pose proof (run_loop_fuel_mono _ _ _ _ _ _ Hb (Nat.max n m) (Nat.le_max_r n m)) as Hb'.
  rewrite Ha' in Hb'. inversion Hb'; subst. reflexivity.
Qed.
