From Coq Require Import ZArith List Bool Lia.
From Mesa Require Import Model.Copy.
Import ListNotations.
Open Scope Z_scope.
Lemma stub_true : True. Proof. exact I. Qed.
