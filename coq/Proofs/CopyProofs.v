(* Lemmas about Model/Copy.v (C19). *)
From Coq Require Import ZArith List Bool Lia PeanoNat.
From Mesa Require Import Model.Copy.
Import ListNotations.
Open Scope Z_scope.

(* ------------------------------------------------------------------ list machinery *)
Lemma upd_length {A : Type} n (f : A -> A) l : length (upd n f l) = length l.
Proof. revert n; induction l as [|x t IH]; intros [|n]; simpl; auto. Qed.

Lemma nth_upd_same {A : Type} n (f : A -> A) l d :
  (n < length l)%nat -> nth n (upd n f l) d = f (nth n l d).
Proof.
  revert n; induction l as [|x t IH]; intros [|n] H; simpl in *; try lia; auto.
  apply IH; lia.
Qed.

Lemma nth_upd_other {A : Type} n m (f : A -> A) l d : n <> m -> nth m (upd n f l) d = nth m l d.
Proof.
  revert n m; induction l as [|x t IH]; intros [|n] [|m] H; simpl; auto; try congruence.
Qed.

Lemma index_of_Some x l i : index_of x l = Some i -> (i < length l)%nat /\ nth i l O = x.
Proof.
  revert i; induction l as [|y t IH]; simpl; intros i H; [discriminate|].
  destruct (Nat.eqb x y) eqn:E.
  - inversion H; subst. apply Nat.eqb_eq in E. split; [lia|auto].
  - destruct (index_of x t) as [j|] eqn:E2; simpl in H; [|discriminate].
    inversion H; subst. destruct (IH j eq_refl) as [H1 H2]. split; [lia|exact H2].
Qed.

Lemma index_of_In x l : In x l -> exists i, index_of x l = Some i.
Proof.
  induction l as [|y t IH]; simpl; intros H; [contradiction|].
  destruct (Nat.eqb x y) eqn:E; [eexists; reflexivity|].
  destruct H as [H|H]; [subst; rewrite Nat.eqb_refl in E; discriminate|].
  destruct (IH H) as [i Hi]. rewrite Hi. eexists; reflexivity.
Qed.

Lemma index_of_nth_NoDup l i : NoDup l -> (i < length l)%nat -> index_of (nth i l O) l = Some i.
Proof.
  revert i; induction l as [|y t IH]; intros i Hnd Hi; simpl in *; [lia|].
  inversion Hnd as [|? ? Hnin Hnd']; subst.
  destruct i as [|i].
  - rewrite Nat.eqb_refl. reflexivity.
  - destruct (Nat.eqb (nth i t O) y) eqn:E.
    + apply Nat.eqb_eq in E. exfalso. apply Hnin. rewrite <- E. apply nth_In. lia.
    + rewrite IH by (auto; lia). reflexivity.
Qed.

Lemma index_of_seq b n j : (j < n)%nat -> index_of (b + j)%nat (seq b n) = Some j.
Proof.
  intros H. rewrite <- (@seq_nth n b j O H) at 1.
  apply index_of_nth_NoDup; [apply seq_NoDup|rewrite seq_length; exact H].
Qed.

Lemma memn_In x l : memn x l = true <-> In x l.
Proof.
  unfold memn. rewrite existsb_exists. split.
  - intros [y [Hy He]]. apply Nat.eqb_eq in He. subst. exact Hy.
  - intros H. exists x. split; [exact H|apply Nat.eqb_refl].
Qed.

Lemma disj_spec l1 l2 : disj l1 l2 = true <-> (forall x, In x l1 -> ~ In x l2).
Proof.
  unfold disj. rewrite forallb_forall. split; intros H x Hx.
  - specialize (H x Hx). intros Hin. apply memn_In in Hin. rewrite Hin in H. discriminate.
  - destruct (memn x l2) eqn:E; [|reflexivity]. apply memn_In in E. exfalso. exact (H x Hx E).
Qed.

Lemma map_seq_nth {A B : Type} (f : nat -> B) (g : A -> B) (l : list A) b d :
  (forall i, (i < length l)%nat -> f (b + i)%nat = g (nth i l d)) -> map f (seq b (length l)) = map g l.
Proof.
  revert b; induction l as [|x t IH]; intros b H; simpl; [reflexivity|].
  f_equal.
  - specialize (H O). simpl in H. rewrite Nat.add_0_r in H. apply H. lia.
  - apply IH. intros i Hi. specialize (H (S i)). simpl in H. rewrite Nat.add_succ_r in H. apply H. lia.
Qed.

Lemma nth_map_combine_seq {A B : Type} (F : nat * A -> B) (l : list A) i dB dA :
  (i < length l)%nat -> nth i (map F (combine (seq 0 (length l)) l)) dB = F (i, nth i l dA).
Proof.
  intros H.
  rewrite nth_indep with (d' := F (O, dA)) by (rewrite map_length, combine_length, seq_length; lia).
  rewrite map_nth. rewrite combine_nth by (rewrite seq_length; reflexivity).
  rewrite seq_nth by exact H. reflexivity.
Qed.

Lemma map_combine_seq {B : Type} (L : list (Z * nat)) (g' g : Z * nat -> B) b :
  (forall p, (p < length L)%nat -> g' (fst (nth p L (0, O)), (b + p)%nat) = g (nth p L (0, O))) ->
  map g' (combine (map fst L) (seq b (length L))) = map g L.
Proof.
  revert b; induction L as [|x t IH]; intros b H; simpl; [reflexivity|].
  f_equal.
  - specialize (H O). simpl in H. rewrite Nat.add_0_r in H. apply H. lia.
  - apply IH. intros p Hp. specialize (H (S p)). simpl in H. rewrite Nat.add_succ_r in H. apply H. lia.
Qed.

(* looking a name up in a layer dict and in its copy: same position *)
Lemma assoc_copy (L : list (Z * nat)) b name :
  match assoc name L, assoc name (combine (map fst L) (seq b (length L))) with
  | Some l, Some l' => exists p, l' = (b + p)%nat /\ (p < length L)%nat /\ nth p L (0, O) = (name, l)
  | None, None => True
  | _, _ => False
  end.
Proof.
  revert b; induction L as [|[k v] t IH]; intros b; simpl; [exact I|].
  destruct (name =? k) eqn:E.
  - apply Z.eqb_eq in E. subst. exists O. rewrite Nat.add_0_r. repeat split. lia.
  - specialize (IH (S b)).
    destruct (assoc name t) as [l|]; destruct (assoc name (combine (map fst t) (seq (S b) (length t)))) as [l'|];
      try exact IH.
    destruct IH as [p [H1 [H2 H3]]]. exists (S p). repeat split; [lia|lia|exact H3].
Qed.

Lemma assoc_In {B : Type} name (L : list (Z * B)) v : assoc name L = Some v -> In (name, v) L.
Proof.
  induction L as [|[k w] t IH]; simpl; [discriminate|].
  destruct (name =? k) eqn:E; intros H.
  - apply Z.eqb_eq in E. inversion H; subst. left; reflexivity.
  - right. apply IH. exact H.
Qed.

Lemma assoc_NoDup {B : Type} name (L : list (Z * B)) v :
  NoDup (map fst L) -> In (name, v) L -> assoc name L = Some v.
Proof.
  induction L as [|[k w] t IH]; simpl; intros Hnd H; [contradiction|].
  inversion Hnd as [|? ? Hnin Hnd']; subst.
  destruct H as [H|H].
  - inversion H; subst. rewrite Z.eqb_refl. reflexivity.
  - destruct (name =? k) eqn:E.
    + apply Z.eqb_eq in E. subst. exfalso. apply Hnin. apply in_map_iff. exists (k, v). split; auto.
    + apply IH; assumption.
Qed.

(* ------------------------------------------------------------------ well-formed sides *)
Definition cells_of (sd : side) : list nat := s_cells (sd_space sd).
Definition layers_of (sd : side) : list (Z * nat) := s_layers (sd_space sd).

Record wf_side (h : heap) (sd : side) : Prop := {
  wf_cells_lt : forall c, In c (cells_of sd) -> (c < length (h_cells h))%nat;
  wf_cells_nodup : NoDup (cells_of sd);
  wf_layers_lt : forall nl, In nl (layers_of sd) -> (snd nl < length (h_layers h))%nat;
  wf_names_nodup : NoDup (map fst (layers_of sd));
  wf_cls : forall c, In c (cells_of sd) -> k_cls (getc h c) = s_klass (sd_space sd);
  wf_descr : d_descr (getk h (s_klass (sd_space sd))) = layers_of sd;
  wf_lname : forall nl, In nl (layers_of sd) -> l_name (getl h (snd nl)) = fst nl;
  wf_agents_lt : forall c a, In c (cells_of sd) -> In a (k_agents (getc h c)) -> (a < length (h_agents h))%nat;
  wf_mirror : forall c a, In c (cells_of sd) -> In a (k_agents (getc h c)) -> a_cell (geta h a) = Some c;
  wf_cell_agents_nodup : forall c, In c (cells_of sd) -> NoDup (k_agents (getc h c));
  wf_conns : forall i, (i < length (cells_of sd))%nat ->
             k_conns (getc h (nth i (cells_of sd) O))
             = map (fun kj => (fst kj, nth (snd kj) (cells_of sd) O)) (nth i (s_geom (sd_space sd)) []);
  wf_geom : forall i kj, In kj (nth i (s_geom (sd_space sd)) []) -> (snd kj < length (cells_of sd))%nat;
  wf_dict : s_grid (sd_space sd) = true -> forall c, In c (cells_of sd) -> k_dict (getc h c) = [];
  wf_klass_lt : (s_klass (sd_space sd) < length (h_classes h))%nat;
  wf_tab : forall la, In la (sd_tab sd) ->
           (snd la < length (h_agents h))%nat /\
           (forall c, a_cell (geta h (snd la)) = Some c -> In c (cells_of sd) /\ In (snd la) (k_agents (getc h c)));
  wf_agents_tab : forall c a, In c (cells_of sd) -> In a (k_agents (getc h c)) -> In a (map snd (sd_tab sd))
}.

Lemma NoDup_app_iff {A : Type} (l1 l2 : list A) :
  NoDup (l1 ++ l2) <-> NoDup l1 /\ NoDup l2 /\ (forall x, In x l1 -> ~ In x l2).
Proof.
  induction l1 as [|x t IH]; simpl.
  - split; [intros H; repeat split; [constructor|exact H|intros ? []]|intros [_ [H _]]; exact H].
  - split.
    + intros H. inversion H as [|? ? Hnin Hnd]; subst. apply IH in Hnd. destruct Hnd as [H1 [H2 H3]].
      repeat split.
      * constructor; [intros Hin; apply Hnin; apply in_or_app; left; exact Hin|exact H1].
      * exact H2.
      * intros y [Hy|Hy]; [subst; intros Hin; apply Hnin; apply in_or_app; right; exact Hin|apply H3; exact Hy].
    + intros [H1 [H2 H3]]. inversion H1 as [|? ? Hnin Hnd]; subst. constructor.
      * intros Hin. apply in_app_or in Hin. destruct Hin as [Hin|Hin]; [exact (Hnin Hin)|].
        apply (H3 x); [left; reflexivity|exact Hin].
      * apply IH. repeat split; [exact Hnd|exact H2|intros y Hy; apply H3; right; exact Hy].
Qed.

Lemma NoDup_flat_map_intro {A B : Type} (f : A -> list B) (l : list A) :
  NoDup l -> (forall c, In c l -> NoDup (f c)) ->
  (forall c1 c2 x, In c1 l -> In c2 l -> In x (f c1) -> In x (f c2) -> c1 = c2) ->
  NoDup (flat_map f l).
Proof.
  induction l as [|c t IH]; intros Hnd Hpart Hsep; simpl; [constructor|].
  inversion Hnd as [|? ? Hnin Hnd']; subst.
  apply NoDup_app_iff. repeat split.
  - apply Hpart. left; reflexivity.
  - apply IH; [exact Hnd'|intros; apply Hpart; right; assumption|].
    intros c1 c2 x H1 H2. apply Hsep; right; assumption.
  - intros x Hx Hin. apply in_flat_map in Hin. destruct Hin as [c2 [Hc2 Hx2]].
    assert (c = c2) by (apply (Hsep c c2 x); [left; reflexivity|right; exact Hc2|exact Hx|exact Hx2]).
    subst. exact (Hnin Hc2).
Qed.

Lemma NoDup_flat_map_part {A B : Type} (f : A -> list B) (l : list A) c :
  NoDup (flat_map f l) -> In c l -> NoDup (f c).
Proof.
  induction l as [|y t IH]; simpl; intros Hnd Hin; [contradiction|].
  apply NoDup_app_iff in Hnd. destruct Hnd as [H1 [H2 _]].
  destruct Hin as [->|Hin]; [exact H1|apply IH; assumption].
Qed.

Lemma wf_agents_nodup h sd : wf_side h sd -> NoDup (agents_of h (cells_of sd)).
Proof.
  intros W. unfold agents_of. apply NoDup_flat_map_intro.
  - apply (wf_cells_nodup _ _ W).
  - apply (wf_cell_agents_nodup _ _ W).
  - intros c1 c2 x H1 H2 Hx1 Hx2.
    pose proof (wf_mirror _ _ W _ _ H1 Hx1) as E1. pose proof (wf_mirror _ _ W _ _ H2 Hx2) as E2.
    rewrite E1 in E2. inversion E2. reflexivity.
Qed.

(* ------------------------------------------------------------------ the pieces of copy_space *)
Definition cs_agents (h : heap) (sd : side) : list nat := agents_of h (cells_of sd).
Definition cs_klass (h : heap) (sd : side) : nat :=
  if s_grid (sd_space sd) then length (h_classes h) else s_klass (sd_space sd).
Definition cs_layers (h : heap) (sd : side) : list layerobj := map (fun nl => getl h (snd nl)) (layers_of sd).
Definition cs_locs (h : heap) (sd : side) : list nat := seq (length (h_layers h)) (length (layers_of sd)).
Definition cs_cells (h : heap) (sd : side) : list cellobj :=
  map (copy_cell h (sd_space sd) (length (h_cells h)) (length (h_agents h)) (cs_agents h sd) (cs_klass h sd))
      (combine (seq 0 (length (cells_of sd))) (cells_of sd)).
Definition cs_newagents (h : heap) (sd : side) : list agentobj :=
  map (copy_agent h (length (h_cells h)) (cells_of sd)) (cs_agents h sd).
Definition cs_class (h : heap) (sd : side) : classobj :=
  {| d_descr := combine (map l_name (cs_layers h sd)) (cs_locs h sd) |}.

Definition copy_heap (h : heap) (sd : side) : heap := fst (copy_space h sd).
Definition copy_side (h : heap) (sd : side) : side := snd (copy_space h sd).

Lemma copy_heap_cells h sd : h_cells (copy_heap h sd) = h_cells h ++ cs_cells h sd.
Proof. reflexivity. Qed.
Lemma copy_heap_agents h sd : h_agents (copy_heap h sd) = h_agents h ++ cs_newagents h sd.
Proof. reflexivity. Qed.
Lemma copy_heap_layers h sd : h_layers (copy_heap h sd) = h_layers h ++ cs_layers h sd.
Proof. reflexivity. Qed.
Lemma copy_heap_classes h sd :
  h_classes (copy_heap h sd) = if s_grid (sd_space sd) then h_classes h ++ [cs_class h sd] else h_classes h.
Proof. reflexivity. Qed.
Lemma copy_side_cells h sd : cells_of (copy_side h sd) = seq (length (h_cells h)) (length (cells_of sd)).
Proof. reflexivity. Qed.
Lemma copy_side_layers h sd : layers_of (copy_side h sd) = combine (map fst (layers_of sd)) (cs_locs h sd).
Proof. reflexivity. Qed.
Lemma copy_side_klass h sd : s_klass (sd_space (copy_side h sd)) = cs_klass h sd.
Proof. reflexivity. Qed.
Lemma copy_side_grid h sd : s_grid (sd_space (copy_side h sd)) = s_grid (sd_space sd).
Proof. reflexivity. Qed.
Lemma copy_side_geom h sd : s_geom (sd_space (copy_side h sd)) = s_geom (sd_space sd).
Proof. reflexivity. Qed.
Lemma copy_side_tab h sd :
  sd_tab (copy_side h sd)
  = combine (map a_label (cs_newagents h sd)) (seq (length (h_agents h)) (length (cs_agents h sd))).
Proof. reflexivity. Qed.

(* old locations are untouched *)
Lemma copy_getc_old h sd c : (c < length (h_cells h))%nat -> getc (copy_heap h sd) c = getc h c.
Proof. intros H. unfold getc. rewrite copy_heap_cells. apply app_nth1. exact H. Qed.
Lemma copy_geta_old h sd a : (a < length (h_agents h))%nat -> geta (copy_heap h sd) a = geta h a.
Proof. intros H. unfold geta. rewrite copy_heap_agents. apply app_nth1. exact H. Qed.
Lemma copy_getl_old h sd l : (l < length (h_layers h))%nat -> getl (copy_heap h sd) l = getl h l.
Proof. intros H. unfold getl. rewrite copy_heap_layers. apply app_nth1. exact H. Qed.
Lemma copy_getk_old h sd k : (k < length (h_classes h))%nat -> getk (copy_heap h sd) k = getk h k.
Proof.
  intros H. unfold getk. rewrite copy_heap_classes.
  destruct (s_grid (sd_space sd)); [apply app_nth1; exact H|reflexivity].
Qed.

(* new locations hold the copies *)
Lemma copy_getc_new h sd i : (i < length (cells_of sd))%nat ->
  getc (copy_heap h sd) (length (h_cells h) + i)
  = copy_cell h (sd_space sd) (length (h_cells h)) (length (h_agents h)) (cs_agents h sd) (cs_klass h sd)
              (i, nth i (cells_of sd) O).
Proof.
  intros H. unfold getc. rewrite copy_heap_cells, app_nth2_plus. unfold cs_cells.
  apply nth_map_combine_seq. exact H.
Qed.

Lemma copy_geta_new h sd j : (j < length (cs_agents h sd))%nat ->
  geta (copy_heap h sd) (length (h_agents h) + j)
  = copy_agent h (length (h_cells h)) (cells_of sd) (nth j (cs_agents h sd) O).
Proof.
  intros H. unfold geta. rewrite copy_heap_agents, app_nth2_plus. unfold cs_newagents.
  rewrite nth_indep with (d' := copy_agent h (length (h_cells h)) (cells_of sd) O) by (rewrite map_length; exact H).
  apply map_nth.
Qed.

Lemma copy_getl_new h sd p : (p < length (layers_of sd))%nat ->
  getl (copy_heap h sd) (length (h_layers h) + p) = getl h (snd (nth p (layers_of sd) (0, O))).
Proof.
  intros H. unfold getl at 1. rewrite copy_heap_layers, app_nth2_plus. unfold cs_layers.
  rewrite nth_indep with (d' := getl h (snd (0, O))) by (rewrite map_length; exact H).
  exact (map_nth (fun nl : Z * nat => getl h (snd nl)) (layers_of sd) (0, O) p).
Qed.

Lemma copy_getk_new h sd : s_grid (sd_space sd) = true ->
  getk (copy_heap h sd) (length (h_classes h)) = cs_class h sd.
Proof.
  intros H. unfold getk. rewrite copy_heap_classes, H.
  rewrite app_nth2 by lia. rewrite Nat.sub_diag. reflexivity.
Qed.

Lemma cs_layer_names h sd : wf_side h sd -> map l_name (cs_layers h sd) = map fst (layers_of sd).
Proof.
  intros W. unfold cs_layers. rewrite map_map. apply map_ext_in. intros nl Hnl. apply (wf_lname _ _ W). exact Hnl.
Qed.

Lemma in_cs_agents h sd c a : In c (cells_of sd) -> In a (k_agents (getc h c)) -> In a (cs_agents h sd).
Proof. intros Hc Ha. unfold cs_agents, agents_of. apply in_flat_map. exists c. split; assumption. Qed.

Lemma cs_agents_inv h sd a : In a (cs_agents h sd) -> exists c, In c (cells_of sd) /\ In a (k_agents (getc h c)).
Proof. unfold cs_agents, agents_of. intros H. apply in_flat_map in H. exact H. Qed.

(* the translated agent carries the same label *)
Lemma copy_label h sd a : In a (cs_agents h sd) ->
  a_label (geta (copy_heap h sd) (tr_agent (length (h_agents h)) (cs_agents h sd) a)) = a_label (geta h a).
Proof.
  intros Ha. destruct (index_of_In _ _ Ha) as [j Hj]. unfold tr_agent. rewrite Hj.
  destruct (index_of_Some _ _ _ Hj) as [Hlt Hnth].
  rewrite copy_geta_new by exact Hlt. rewrite Hnth. reflexivity.
Qed.

(* attribute reads on the i-th cell of the copy give what the i-th cell of the source gives *)
Lemma copy_cell_get h sd i name : wf_side h sd -> (i < length (cells_of sd))%nat ->
  cell_get (copy_heap h sd) (length (h_cells h) + i) name = cell_get h (nth i (cells_of sd) O) name.
Proof.
  intros W Hi.
  assert (Hin : In (nth i (cells_of sd) O) (cells_of sd)) by (apply nth_In; exact Hi).
  unfold cell_get. rewrite copy_getc_new by exact Hi. cbn [copy_cell k_cls k_idx k_dict snd fst].
  rewrite (wf_cls _ _ W _ Hin), (wf_descr _ _ W).
  unfold cs_klass. destruct (s_grid (sd_space sd)) eqn:G.
  - rewrite copy_getk_new by exact G. unfold cs_class. cbn [d_descr].
    rewrite (cs_layer_names _ _ W). unfold cs_locs.
    pose proof (assoc_copy (layers_of sd) (length (h_layers h)) name) as AC.
    destruct (assoc name (layers_of sd)) as [l|];
      destruct (assoc name (combine (map fst (layers_of sd)) (seq (length (h_layers h)) (length (layers_of sd))))) as [l'|];
      try contradiction.
    + destruct AC as [p [-> [Hp Hnth]]]. rewrite copy_getl_new by exact Hp. rewrite Hnth. reflexivity.
    + rewrite (wf_dict _ _ W G _ Hin). reflexivity.
  - rewrite copy_getk_old by (apply (wf_klass_lt _ _ W)). rewrite (wf_descr _ _ W).
    destruct (assoc name (layers_of sd)) as [l|] eqn:E; [|reflexivity].
    rewrite copy_getl_old; [reflexivity|]. apply (wf_layers_lt _ _ W (name, l)). apply assoc_In. exact E.
Qed.

Lemma copy_abs_cell h sd i : wf_side h sd -> (i < length (cells_of sd))%nat ->
  abs_cell (copy_heap h sd) (sd_space (copy_side h sd)) (length (h_cells h) + i)
  = abs_cell h (sd_space sd) (nth i (cells_of sd) O).
Proof.
  intros W Hi.
  assert (Hin : In (nth i (cells_of sd) O) (cells_of sd)) by (apply nth_In; exact Hi).
  unfold abs_cell.
  rewrite !copy_cell_get by assumption.
  rewrite copy_getc_new by exact Hi. cbn [copy_cell k_cls k_idx k_cap k_agents k_conns k_dict snd fst].
  f_equal.
  - (* labels *)
    rewrite map_map. apply map_ext_in. intros a Ha. apply copy_label. eapply in_cs_agents; eassumption.
  - (* connections *)
    fold (cells_of (copy_side h sd)). rewrite copy_side_cells.
    fold (cells_of sd). rewrite (wf_conns _ _ W i Hi). rewrite !map_map.
    apply map_ext_in. intros kj Hkj. cbn [fst snd].
    pose proof (wf_geom _ _ W i kj Hkj) as Hlt.
    unfold idx_code. rewrite index_of_seq by exact Hlt.
    rewrite index_of_nth_NoDup by (try apply (wf_cells_nodup _ _ W); exact Hlt). reflexivity.
  - (* layer triples *)
    fold (layers_of (copy_side h sd)). rewrite copy_side_layers. fold (layers_of sd). unfold cs_locs.
    apply map_combine_seq. intros p Hp. cbn [fst snd].
    rewrite copy_cell_get by assumption. rewrite copy_getl_new by exact Hp. reflexivity.
Qed.

(* C19_faithful *)
Theorem copy_faithful h sd : wf_side h sd -> abs_side (copy_heap h sd) (copy_side h sd) = abs_side h sd.
Proof.
  intros W. unfold abs_side. fold (cells_of (copy_side h sd)). rewrite copy_side_cells. fold (cells_of sd).
  apply map_seq_nth with (d := O). intros i Hi. apply copy_abs_cell; assumption.
Qed.

(* ------------------------------------------------------------------ attribute wiring (any well-formed side) *)
Lemma wf_attr_read h sd c nl : wf_side h sd -> In c (cells_of sd) -> In nl (layers_of sd) ->
  cell_get h c (fst nl) = Some (nth (k_idx (getc h c)) (l_data (getl h (snd nl))) NOATTR).
Proof.
  intros W Hc Hl. unfold cell_get. rewrite (wf_cls _ _ W _ Hc), (wf_descr _ _ W).
  rewrite (assoc_NoDup (fst nl) (layers_of sd) (snd nl)); [reflexivity|apply (wf_names_nodup _ _ W)|].
  destruct nl; exact Hl.
Qed.

Lemma wf_attr_write h sd c nl v : wf_side h sd -> In c (cells_of sd) -> In nl (layers_of sd) ->
  cell_set h c (fst nl) v
  = upd_layer h (snd nl) (fun lo => set_data (upd (k_idx (getc h c)) (fun _ => v) (l_data lo)) lo).
Proof.
  intros W Hc Hl. unfold cell_set. rewrite (wf_cls _ _ W _ Hc), (wf_descr _ _ W).
  rewrite (assoc_NoDup (fst nl) (layers_of sd) (snd nl)); [reflexivity|apply (wf_names_nodup _ _ W)|].
  destruct nl; exact Hl.
Qed.

(* ------------------------------------------------------------------ more list machinery *)
Lemma map_fst_combine {A B : Type} (l : list A) (l' : list B) :
  length l = length l' -> map fst (combine l l') = l.
Proof.
  revert l'; induction l as [|x t IH]; intros [|y t'] H; simpl in *; try discriminate; auto.
  f_equal. apply IH. lia.
Qed.

Lemma map_snd_combine {A B : Type} (l : list A) (l' : list B) :
  length l = length l' -> map snd (combine l l') = l'.
Proof.
  revert l'; induction l as [|x t IH]; intros [|y t'] H; simpl in *; try discriminate; auto.
  f_equal. apply IH. lia.
Qed.

Lemma flat_map_seq_nth {A B : Type} (f : nat -> list B) (g : A -> list B) (l : list A) b d :
  (forall i, (i < length l)%nat -> f (b + i)%nat = g (nth i l d)) -> flat_map f (seq b (length l)) = flat_map g l.
Proof.
  revert b; induction l as [|x t IH]; intros b H; simpl; [reflexivity|].
  f_equal.
  - specialize (H O). simpl in H. rewrite Nat.add_0_r in H. apply H. lia.
  - apply IH. intros i Hi. specialize (H (S i)). simpl in H. rewrite Nat.add_succ_r in H. apply H. lia.
Qed.

Lemma flat_map_map_comm {A B C : Type} (f : A -> list B) (g : B -> C) (l : list A) :
  flat_map (fun x => map g (f x)) l = map g (flat_map f l).
Proof. induction l as [|x t IH]; simpl; [reflexivity|]. rewrite map_app, IH. reflexivity. Qed.

Lemma in_combine_nth {A B : Type} (l : list A) (l' : list B) (p : A * B) dA dB :
  length l = length l' -> In p (combine l l') ->
  exists i, (i < length l)%nat /\ p = (nth i l dA, nth i l' dB).
Proof.
  intros Hlen Hin. destruct (In_nth _ _ (dA, dB) Hin) as [i [Hi Hnth]].
  rewrite combine_length, <- Hlen, Nat.min_id in Hi.
  exists i. split; [exact Hi|]. rewrite <- Hnth. apply combine_nth. exact Hlen.
Qed.

Lemma tr_agent_nth nA agents j : NoDup agents -> (j < length agents)%nat ->
  tr_agent nA agents (nth j agents O) = (nA + j)%nat.
Proof. intros Hnd Hj. unfold tr_agent. rewrite index_of_nth_NoDup by assumption. reflexivity. Qed.

Lemma tr_agents_seq nA agents : NoDup agents -> map (tr_agent nA agents) agents = seq nA (length agents).
Proof.
  intros Hnd. symmetry. rewrite <- (map_id (seq nA (length agents))).
  apply map_seq_nth with (d := O). intros i Hi. rewrite tr_agent_nth by assumption. reflexivity.
Qed.

Lemma tr_cell_nth nC cells i : NoDup cells -> (i < length cells)%nat ->
  tr_cell nC cells (nth i cells O) = Some (nC + i)%nat.
Proof. intros Hnd Hi. unfold tr_cell. rewrite index_of_nth_NoDup by assumption. reflexivity. Qed.

(* ------------------------------------------------------------------ the copy is well formed and made of fresh locations *)
Definition nogrid_ok (sd : side) : Prop := s_grid (sd_space sd) = false -> layers_of sd = [].

Lemma cs_cells_length h sd : length (cs_cells h sd) = length (cells_of sd).
Proof. unfold cs_cells. rewrite map_length, combine_length, seq_length. apply Nat.min_id. Qed.
Lemma cs_newagents_length h sd : length (cs_newagents h sd) = length (cs_agents h sd).
Proof. unfold cs_newagents. apply map_length. Qed.
Lemma cs_layers_length h sd : length (cs_layers h sd) = length (layers_of sd).
Proof. unfold cs_layers. apply map_length. Qed.

Lemma copy_agents_of h sd : wf_side h sd ->
  agents_of (copy_heap h sd) (cells_of (copy_side h sd)) = seq (length (h_agents h)) (length (cs_agents h sd)).
Proof.
  intros W. rewrite copy_side_cells. unfold agents_of at 1.
  rewrite flat_map_seq_nth with (g := fun c => map (tr_agent (length (h_agents h)) (cs_agents h sd)) (k_agents (getc h c))) (d := O).
  - rewrite flat_map_map_comm. apply tr_agents_seq. apply (wf_agents_nodup _ _ W).
  - intros i Hi. rewrite copy_getc_new by exact Hi. reflexivity.
Qed.

Lemma copy_in_cells h sd c : In c (cells_of (copy_side h sd)) ->
  exists i, (i < length (cells_of sd))%nat /\ c = (length (h_cells h) + i)%nat.
Proof.
  rewrite copy_side_cells. intros H. apply in_seq in H. exists (c - length (h_cells h))%nat. lia.
Qed.

Lemma copy_wf h sd : wf_side h sd -> nogrid_ok sd -> wf_side (copy_heap h sd) (copy_side h sd).
Proof.
  intros W NG.
  pose proof (wf_cells_nodup _ _ W) as Hnd.
  pose proof (wf_agents_nodup _ _ W) as Hnda.
  assert (Hloclen : length (map fst (layers_of sd)) = length (cs_locs h sd))
    by (unfold cs_locs; rewrite map_length, seq_length; reflexivity).
  constructor.
  - (* cells_lt *) intros c Hc. destruct (copy_in_cells _ _ _ Hc) as [i [Hi ->]].
    rewrite copy_heap_cells, app_length, cs_cells_length. lia.
  - rewrite copy_side_cells. apply seq_NoDup.
  - (* layers_lt *) intros [n0 l0] Hnl. rewrite copy_side_layers in Hnl. apply in_combine_r in Hnl. cbn [snd].
    unfold cs_locs in Hnl. apply in_seq in Hnl. rewrite copy_heap_layers, app_length, cs_layers_length. lia.
  - rewrite copy_side_layers. rewrite map_fst_combine by exact Hloclen. apply (wf_names_nodup _ _ W).
  - (* cls *) intros c Hc. destruct (copy_in_cells _ _ _ Hc) as [i [Hi ->]].
    rewrite copy_getc_new by exact Hi. rewrite copy_side_klass. reflexivity.
  - (* descr *) rewrite copy_side_klass, copy_side_layers. unfold cs_klass.
    destruct (s_grid (sd_space sd)) eqn:G.
    + rewrite copy_getk_new by exact G. unfold cs_class. cbn [d_descr]. rewrite (cs_layer_names _ _ W). reflexivity.
    + rewrite copy_getk_old by (apply (wf_klass_lt _ _ W)). rewrite (wf_descr _ _ W). rewrite (NG G). reflexivity.
  - (* lname *) intros nl Hnl. rewrite copy_side_layers in Hnl.
    destruct (in_combine_nth _ _ _ 0 O Hloclen Hnl) as [p [Hp ->]]. rewrite map_length in Hp. cbn [fst snd].
    unfold cs_locs. rewrite seq_nth by exact Hp. rewrite copy_getl_new by exact Hp.
    rewrite (wf_lname _ _ W) by (apply nth_In; exact Hp).
    rewrite nth_indep with (d' := fst (0, O)) by (rewrite map_length; exact Hp).
    symmetry. apply map_nth.
  - (* agents_lt *) intros c a Hc Ha. destruct (copy_in_cells _ _ _ Hc) as [i [Hi ->]].
    rewrite copy_getc_new in Ha by exact Hi. cbn [copy_cell k_agents snd] in Ha.
    apply in_map_iff in Ha. destruct Ha as [a0 [<- Ha0]].
    assert (Hin0 : In a0 (cs_agents h sd)) by (eapply in_cs_agents; [apply nth_In; exact Hi|exact Ha0]).
    destruct (index_of_In _ _ Hin0) as [j Hj]. unfold tr_agent. rewrite Hj.
    destruct (index_of_Some _ _ _ Hj) as [Hlt _].
    rewrite copy_heap_agents, app_length, cs_newagents_length. lia.
  - (* mirror *) intros c a Hc Ha. destruct (copy_in_cells _ _ _ Hc) as [i [Hi ->]].
    rewrite copy_getc_new in Ha by exact Hi. cbn [copy_cell k_agents snd] in Ha.
    apply in_map_iff in Ha. destruct Ha as [a0 [<- Ha0]].
    assert (Hci : In (nth i (cells_of sd) O) (cells_of sd)) by (apply nth_In; exact Hi).
    assert (Hin0 : In a0 (cs_agents h sd)) by (eapply in_cs_agents; eassumption).
    destruct (index_of_In _ _ Hin0) as [j Hj]. unfold tr_agent. rewrite Hj.
    destruct (index_of_Some _ _ _ Hj) as [Hlt Hnth].
    rewrite copy_geta_new by exact Hlt. rewrite Hnth. unfold copy_agent. cbn [a_cell].
    rewrite (wf_mirror _ _ W _ _ Hci Ha0). apply tr_cell_nth; assumption.
  - (* cell_agents_nodup *) intros c Hc.
    apply (NoDup_flat_map_part (fun c => k_agents (getc (copy_heap h sd) c)) (cells_of (copy_side h sd))); [|exact Hc].
    fold (agents_of (copy_heap h sd) (cells_of (copy_side h sd))). rewrite (copy_agents_of _ _ W). apply seq_NoDup.
  - (* conns *) intros i Hi. rewrite copy_side_cells in *. rewrite seq_length in Hi.
    rewrite seq_nth by exact Hi. rewrite copy_getc_new by exact Hi. cbn [copy_cell k_conns fst snd].
    rewrite copy_side_geom. apply map_ext_in. intros kj Hkj.
    rewrite seq_nth by (apply (wf_geom _ _ W i kj Hkj)). reflexivity.
  - (* geom *) intros i kj Hkj. rewrite copy_side_geom in Hkj. rewrite copy_side_cells, seq_length.
    apply (wf_geom _ _ W i kj Hkj).
  - (* dict *) intros G c Hc. rewrite copy_side_grid in G. destruct (copy_in_cells _ _ _ Hc) as [i [Hi ->]].
    rewrite copy_getc_new by exact Hi. cbn [copy_cell k_dict]. rewrite G. reflexivity.
  - (* klass_lt *) rewrite copy_side_klass, copy_heap_classes. unfold cs_klass.
    destruct (s_grid (sd_space sd)); [rewrite app_length; simpl; lia|apply (wf_klass_lt _ _ W)].
  - (* tab *) intros la Hla. rewrite copy_side_tab in Hla.
    assert (Hlen : length (map a_label (cs_newagents h sd)) = length (seq (length (h_agents h)) (length (cs_agents h sd))))
      by (rewrite map_length, cs_newagents_length, seq_length; reflexivity).
    destruct (in_combine_nth _ _ _ 0 O Hlen Hla) as [j [Hj ->]].
    rewrite map_length, cs_newagents_length in Hj. cbn [snd]. rewrite seq_nth by exact Hj.
    split; [rewrite copy_heap_agents, app_length, cs_newagents_length; lia|].
    intros c Hcell. rewrite copy_geta_new in Hcell by exact Hj. unfold copy_agent in Hcell. cbn [a_cell] in Hcell.
    set (a0 := nth j (cs_agents h sd) O) in *.
    assert (Hin0 : In a0 (cs_agents h sd)) by (apply nth_In; exact Hj).
    destruct (cs_agents_inv _ _ _ Hin0) as [c0 [Hc0 Ha0]].
    rewrite (wf_mirror _ _ W _ _ Hc0 Ha0) in Hcell.
    destruct (In_nth _ _ O Hc0) as [i [Hi Hnth]]. rewrite <- Hnth in Hcell.
    rewrite tr_cell_nth in Hcell by assumption. inversion Hcell; subst c.
    split.
    + rewrite copy_side_cells. apply in_seq. lia.
    + rewrite copy_getc_new by exact Hi. cbn [copy_cell k_agents snd]. rewrite Hnth.
      apply in_map_iff. exists a0. split; [|exact Ha0]. unfold a0. apply tr_agent_nth; assumption.
  - (* agents_tab *) intros c a Hc Ha. destruct (copy_in_cells _ _ _ Hc) as [i [Hi ->]].
    rewrite copy_getc_new in Ha by exact Hi. cbn [copy_cell k_agents snd] in Ha.
    apply in_map_iff in Ha. destruct Ha as [a0 [<- Ha0]].
    assert (Hin0 : In a0 (cs_agents h sd)) by (eapply in_cs_agents; [apply nth_In; exact Hi|exact Ha0]).
    destruct (index_of_In _ _ Hin0) as [j Hj]. unfold tr_agent. rewrite Hj.
    destruct (index_of_Some _ _ _ Hj) as [Hlt _].
    rewrite copy_side_tab.
    rewrite map_snd_combine by (rewrite map_length, cs_newagents_length, seq_length; reflexivity).
    apply in_seq. lia.
Qed.

Lemma copy_nogrid_ok h sd : nogrid_ok sd -> nogrid_ok (copy_side h sd).
Proof. unfold nogrid_ok. rewrite copy_side_grid, copy_side_layers. intros H G. rewrite (H G). reflexivity. Qed.

(* C19_attrs_wired: on every cell of the copy every layer attribute reads, and writes, the copy's own (fresh) layer *)
Theorem copy_attrs_wired h sd c nl v : wf_side h sd -> nogrid_ok sd ->
  In c (cells_of (copy_side h sd)) -> In nl (layers_of (copy_side h sd)) ->
  let h' := copy_heap h sd in
  (length (h_layers h) <= snd nl)%nat /\
  cell_get h' c (fst nl) = Some (nth (k_idx (getc h' c)) (l_data (getl h' (snd nl))) NOATTR) /\
  cell_set h' c (fst nl) v
  = upd_layer h' (snd nl) (fun lo => set_data (upd (k_idx (getc h' c)) (fun _ => v) (l_data lo)) lo).
Proof.
  intros W NG Hc Hl h'. pose proof (copy_wf _ _ W NG) as W'. split; [|split].
  - destruct nl as [n0 l0]. rewrite copy_side_layers in Hl. apply in_combine_r in Hl. unfold cs_locs in Hl.
    apply in_seq in Hl. cbn [snd]. lia.
  - apply (wf_attr_read _ _ _ _ W' Hc Hl).
  - apply (wf_attr_write _ _ _ _ _ W' Hc Hl).
Qed.

(* every location the copy is made of is fresh *)
Theorem copy_fresh h sd : wf_side h sd ->
  (forall c, In c (fp_cells (copy_side h sd)) -> (length (h_cells h) <= c)%nat) /\
  (forall a, In a (fp_agents (copy_heap h sd) (copy_side h sd)) -> (length (h_agents h) <= a)%nat) /\
  (forall l, In l (fp_layers (copy_side h sd)) -> (length (h_layers h) <= l)%nat) /\
  (forall k, In k (fp_classes (copy_side h sd)) -> (length (h_classes h) <= k)%nat).
Proof.
  intros W. repeat split.
  - intros c Hc. unfold fp_cells in Hc. fold (cells_of (copy_side h sd)) in Hc.
    rewrite copy_side_cells in Hc. apply in_seq in Hc. lia.
  - intros a Ha. unfold fp_agents in Ha. fold (cells_of (copy_side h sd)) in Ha.
    rewrite (copy_agents_of _ _ W) in Ha. rewrite copy_side_tab in Ha.
    rewrite map_snd_combine in Ha by (rewrite map_length, cs_newagents_length, seq_length; reflexivity).
    apply in_app_or in Ha. destruct Ha as [Ha|Ha]; apply in_seq in Ha; lia.
  - intros l Hl. unfold fp_layers in Hl. fold (layers_of (copy_side h sd)) in Hl. rewrite copy_side_layers in Hl.
    rewrite map_snd_combine in Hl by (unfold cs_locs; rewrite map_length, seq_length; reflexivity).
    unfold cs_locs in Hl. apply in_seq in Hl. lia.
  - intros k Hk. unfold fp_classes in Hk. rewrite copy_side_grid, copy_side_klass in Hk. unfold cs_klass in Hk.
    destruct (s_grid (sd_space sd)); [|contradiction]. destruct Hk as [<-|[]]. lia.
Qed.

(* the copy is wired: agents point to the copy's own cells *)
Lemma wf_wired h sd : wf_side h sd -> wiredb h sd = true.
Proof.
  intros W. unfold wiredb. fold (cells_of sd). apply andb_true_iff. split.
  - apply forallb_forall. intros c Hc. apply forallb_forall. intros a Ha.
    rewrite (wf_mirror _ _ W _ _ Hc Ha). simpl. apply Nat.eqb_refl.
  - apply forallb_forall. intros la Hla. destruct (wf_tab _ _ W la Hla) as [_ H].
    destruct (a_cell (geta h (snd la))) as [c|] eqn:E; [|reflexivity].
    destruct (H c eq_refl) as [H1 H2]. apply andb_true_iff. split; apply memn_In; assumption.
Qed.
