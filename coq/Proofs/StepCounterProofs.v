(* Lemmas about Model/StepCounter.v: one call = one increment, made before any user code; the user bodies
   run are exactly the super chain; run_model; instances never influence each other. *)
From Coq Require Import ZArith List Bool Lia.
From Mesa Require Import Model.StepCounter.
Import ListNotations.
Open Scope Z_scope.

(* ---------- the specification side ---------- *)
(* the levels whose bodies a call must run: the first definer, then each definer reached by super().step() *)
Fixpoint super_chain (h : hierarchy) (idx : Z) : list Z :=
  match h with
  | [] => []
  | l :: t =>
      if l_def l then idx :: (if l_super l then super_chain t (idx + 1) else [])
      else super_chain t (idx + 1)
  end.

Lemma super_chain_ge h : forall idx x, In x (super_chain h idx) -> idx <= x.
Proof.
  induction h as [|l t IH]; intros idx x H; simpl in H; [destruct H|].
  destruct (l_def l).
  - destruct H as [<-|H]; [lia|]. destruct (l_super l); [|destruct H]. apply IH in H. lia.
  - apply IH in H. lia.
Qed.

Lemma super_chain_NoDup h : forall idx, NoDup (super_chain h idx).
Proof.
  induction h as [|l t IH]; intros idx; simpl; [constructor|].
  destruct (l_def l); [|apply IH].
  constructor.
  - destruct (l_super l); [|intros []]. intros H. apply super_chain_ge in H. lia.
  - destruct (l_super l); [apply IH|constructor].
Qed.

Definition rec_free (h : hierarchy) : bool :=
  forallb (fun l => match l_rec l with None => true | Some _ => false end) h.

(* ---------- one call along the hierarchy ---------- *)
Definition res_state (x : mstate * list event * status) : mstate := fst (fst x).
Definition res_events (x : mstate * list event * status) : list event := snd (fst x).
Definition res_status (x : mstate * list event * status) : status := snd x.

Lemma chain_steps rec h : forall idx mid st args, rec_free h = true ->
  steps (res_state (call_chain rec h idx mid st args)) = steps st.
Proof.
  unfold res_state. induction h as [|l t IH]; intros idx mid st args Hrf; simpl.
  - destruct args; reflexivity.
  - simpl in Hrf. apply andb_true_iff in Hrf. destruct Hrf as [Hl Hrf].
    destruct (l_rec l); [discriminate|]. cbn [opt_is app].
    destruct (l_def l); [|apply IH; exact Hrf].
    destruct (arity_ok l args); [|reflexivity].
    destruct (opt_is (l_raise l) (fun k => steps st =? k)); [reflexivity|].
    destruct (l_super l).
    + specialize (IH (idx + 1) mid st (if l_fwd l then args else []) Hrf).
      destruct (call_chain rec t (idx + 1) mid st (if l_fwd l then args else [])) as [[st1 evs] r].
      cbn [fst] in IH. destruct r; cbn [fst]; try exact IH.
      destruct (opt_is (l_stop l) (fun k => steps st1 >=? k)); cbn [clear_running steps]; exact IH.
    + cbn [fst]. destruct (opt_is (l_stop l) (fun k => steps st >=? k)); reflexivity.
Qed.

(* whatever happens, every body that runs sees the counter value the chain was entered with, belongs to this
   instance, and got the caller's arguments or none *)
Lemma chain_events rec h : forall idx mid st args, rec_free h = true ->
  Forall (fun e => e_seen e = steps st /\ e_inst e = mid /\ idx <= e_lvl e)
         (res_events (call_chain rec h idx mid st args)).
Proof.
  unfold res_events. induction h as [|l t IH]; intros idx mid st args Hrf; simpl.
  - destruct args; constructor.
  - simpl in Hrf. apply andb_true_iff in Hrf. destruct Hrf as [Hl Hrf].
    destruct (l_rec l); [discriminate|]. cbn [opt_is app].
    destruct (l_def l).
    2:{ eapply Forall_impl; [|apply IH; exact Hrf]. intros e [H1 [H2 H3]]. repeat split; auto. lia. }
    destruct (arity_ok l args); [|constructor].
    destruct (opt_is (l_raise l) (fun k => steps st =? k)).
    { constructor; [|constructor]. simpl. repeat split; lia. }
    destruct (l_super l).
    + specialize (IH (idx + 1) mid st (if l_fwd l then args else []) Hrf).
      destruct (call_chain rec t (idx + 1) mid st (if l_fwd l then args else [])) as [[st1 evs] r].
      cbn [fst snd] in IH.
      assert (Forall (fun e => e_seen e = steps st /\ e_inst e = mid /\ idx <= e_lvl e) evs) as IH'.
      { eapply Forall_impl; [|exact IH]. intros e [H1 [H2 H3]]. repeat split; auto. lia. }
      destruct r; cbn [fst snd]; (constructor; [simpl; repeat split; lia|exact IH']).
    + cbn [fst snd]. constructor; [simpl; repeat split; lia|constructor].
Qed.

(* the bodies run are a prefix of the super chain - all of it when the call returns normally *)
Lemma chain_levels rec h : forall idx mid st args, rec_free h = true ->
  exists rest, super_chain h idx = map e_lvl (res_events (call_chain rec h idx mid st args)) ++ rest /\
               (res_status (call_chain rec h idx mid st args) = Ok -> rest = []).
Proof.
  unfold res_events, res_status. induction h as [|l t IH]; intros idx mid st args Hrf; simpl.
  - exists []. destruct args; split; reflexivity.
  - simpl in Hrf. apply andb_true_iff in Hrf. destruct Hrf as [Hl Hrf].
    destruct (l_rec l); [discriminate|]. cbn [opt_is app].
    destruct (l_def l); [|apply IH; exact Hrf].
    destruct (arity_ok l args).
    2:{ eexists. split; [reflexivity|]. simpl. discriminate. }
    destruct (opt_is (l_raise l) (fun k => steps st =? k)).
    { eexists. split; [reflexivity|]. simpl. discriminate. }
    destruct (l_super l).
    + destruct (IH (idx + 1) mid st (if l_fwd l then args else []) Hrf) as [rest [H1 H2]].
      destruct (call_chain rec t (idx + 1) mid st (if l_fwd l then args else [])) as [[st1 evs] r].
      cbn [fst snd] in H1, H2. exists rest.
      destruct r; cbn [fst snd map app]; (split; [rewrite H1; reflexivity|]); try discriminate. exact H2.
    + cbn [fst snd map app]. exists []. split; reflexivity.
Qed.

(* the first body that runs is the one the MRO resolves, and it receives the caller's arguments unchanged *)
Lemma chain_head rec h : forall idx mid st args i l,
  resolve h idx = Some (i, l) ->
  if arity_ok l args then
    exists e rest, res_events (call_chain rec h idx mid st args) = e :: rest /\
      e_lvl e = i /\ e_args e = args /\ e_seen e = steps st /\ e_run e = running st /\ e_inst e = mid
  else res_events (call_chain rec h idx mid st args) = [] /\ res_status (call_chain rec h idx mid st args) = ErrType
       /\ res_state (call_chain rec h idx mid st args) = st.
Proof.
  unfold res_events, res_status, res_state.
  induction h as [|l0 t IH]; intros idx mid st args i l Hr; simpl in Hr; [discriminate|].
  simpl. destruct (l_def l0).
  - inversion Hr; subst i l. destruct (arity_ok l0 args); [|auto].
    destruct (opt_is (l_raise l0) (fun k => steps st =? k)).
    { eexists. eexists. split; [reflexivity|]. simpl. auto. }
    destruct (if opt_is (l_rec l0) (fun k => steps st <? k) then rec st else (st, [], Ok)) as [[st0 evr] rr].
    destruct rr; try (cbn [fst snd]; eexists; eexists; (split; [reflexivity|]); simpl; auto).
    destruct (if l_super l0 then call_chain rec t (idx + 1) mid st0 (if l_fwd l0 then args else []) else (st0, [], Ok))
      as [[st1 evs] r].
    destruct r; cbn [fst snd]; eexists; eexists; (split; [reflexivity|]); simpl; auto.
  - apply IH. exact Hr.
Qed.

(* no definer at all: Model.step runs, nothing is logged, arguments are refused *)
Lemma chain_unresolved rec h : forall idx mid st args,
  resolve h idx = None ->
  call_chain rec h idx mid st args = (st, [], match args with [] => Ok | _ => ErrType end).
Proof.
  induction h as [|l t IH]; intros idx mid st args Hr; simpl in *.
  - destruct args; reflexivity.
  - destruct (l_def l); [discriminate|]. apply IH. exact Hr.
Qed.

Lemma chain_args rec h : forall idx mid st args, rec_free h = true ->
  Forall (fun e => e_args e = args \/ e_args e = []) (res_events (call_chain rec h idx mid st args)).
Proof.
  unfold res_events. induction h as [|l t IH]; intros idx mid st args Hrf; simpl.
  - destruct args; constructor.
  - simpl in Hrf. apply andb_true_iff in Hrf. destruct Hrf as [Hl Hrf].
    destruct (l_rec l); [discriminate|]. cbn [opt_is app].
    destruct (l_def l); [|apply IH; exact Hrf].
    destruct (arity_ok l args); [|constructor].
    destruct (opt_is (l_raise l) (fun k => steps st =? k)).
    { constructor; [left; reflexivity|constructor]. }
    destruct (l_super l).
    + specialize (IH (idx + 1) mid st (if l_fwd l then args else []) Hrf).
      destruct (call_chain rec t (idx + 1) mid st (if l_fwd l then args else [])) as [[st1 evs] r].
      cbn [fst snd] in IH.
      assert (Forall (fun e => e_args e = args \/ e_args e = []) evs) as IH'.
      { eapply Forall_impl; [|exact IH]. intros e [H|H]; [|right; exact H].
        destruct (l_fwd l); [left|right]; exact H. }
      destruct r; cbn [fst snd]; (constructor; [left; reflexivity|exact IH']).
    + cbn [fst snd]. constructor; [left; reflexivity|constructor].
Qed.

(* ---------- Model._wrapped_step ---------- *)
Lemma wrapped_step_unfold h mid st args :
  wrapped_step h mid st args =
  call_chain (fun s => wrapped (pred CALL_FUEL) h mid s []) h 0 mid (incr st) args.
Proof. reflexivity. Qed.

Lemma wrapped_exactly_one h mid st args : rec_free h = true ->
  steps (res_state (wrapped_step h mid st args)) = steps st + 1.
Proof. intros Hrf. rewrite wrapped_step_unfold, chain_steps by exact Hrf. reflexivity. Qed.

Lemma wrapped_before_user h mid st args : rec_free h = true ->
  Forall (fun e => e_seen e = steps st + 1 /\ e_inst e = mid) (res_events (wrapped_step h mid st args)).
Proof.
  intros Hrf. rewrite wrapped_step_unfold. eapply Forall_impl; [|apply chain_events; exact Hrf].
  intros e [H1 [H2 _]]. split; assumption.
Qed.

Lemma wrapped_levels h mid st args : rec_free h = true ->
  exists rest, super_chain h 0 = map e_lvl (res_events (wrapped_step h mid st args)) ++ rest /\
               (res_status (wrapped_step h mid st args) = Ok -> rest = []).
Proof. intros Hrf. rewrite wrapped_step_unfold. apply chain_levels. exact Hrf. Qed.

Lemma NoDup_app_l {A : Type} (l r : list A) : NoDup (l ++ r) -> NoDup l.
Proof.
  induction l as [|x t IH]; intros H; [constructor|]. simpl in H. inversion H as [|y s Hy Hs]; subst.
  constructor; [|apply IH; exact Hs]. intros Hin. apply Hy. apply in_or_app. left. exact Hin.
Qed.

Lemma wrapped_each_once h mid st args : rec_free h = true ->
  NoDup (map e_lvl (res_events (wrapped_step h mid st args))).
Proof.
  intros Hrf. destruct (wrapped_levels h mid st args Hrf) as [rest [H _]].
  pose proof (super_chain_NoDup h 0) as Hn. rewrite H in Hn. eapply NoDup_app_l. exact Hn.
Qed.

Lemma wrapped_args h mid st args i l :
  resolve h 0 = Some (i, l) -> arity_ok l args = true ->
  exists e rest, res_events (wrapped_step h mid st args) = e :: rest /\
    e_lvl e = i /\ e_args e = args /\ e_seen e = steps st + 1 /\ e_run e = running st.
Proof.
  intros Hr Ha. rewrite wrapped_step_unfold.
  pose proof (chain_head (fun s => wrapped (pred CALL_FUEL) h mid s []) h 0 mid (incr st) args i l Hr) as H.
  rewrite Ha in H. destruct H as [e [rest [H1 [H2 [H3 [H4 [H5 _]]]]]]]. exists e, rest. auto.
Qed.

(* a call that Python's call protocol rejects still counts: incremented, no user code run *)
Lemma wrapped_rejected h mid st args i l :
  resolve h 0 = Some (i, l) -> arity_ok l args = false ->
  wrapped_step h mid st args = ({| steps := steps st + 1; running := running st |}, [], ErrType).
Proof.
  intros Hr Ha. rewrite wrapped_step_unfold.
  pose proof (chain_head (fun s => wrapped (pred CALL_FUEL) h mid s []) h 0 mid (incr st) args i l Hr) as H.
  rewrite Ha in H. destruct H as [H1 [H2 H3]].
  destruct (call_chain (fun s => wrapped (pred CALL_FUEL) h mid s []) h 0 mid (incr st) args) as [[s e] r].
  unfold res_events, res_status, res_state in *. cbn [fst snd] in *. subst. reflexivity.
Qed.

(* step not overridden anywhere: the call does nothing but count *)
Lemma wrapped_not_overridden h mid st :
  resolve h 0 = None ->
  wrapped_step h mid st [] = ({| steps := steps st + 1; running := running st |}, [], Ok).
Proof. intros Hr. rewrite wrapped_step_unfold. rewrite (chain_unresolved _ h 0 mid _ [] Hr). reflexivity. Qed.

(* ---------- Model.run_model ---------- *)
(* n consecutive successful no-argument calls, each started while running was true *)
Inductive steps_while_running (h : hierarchy) (mid : Z) : mstate -> nat -> mstate -> Prop :=
| swr_done st : steps_while_running h mid st 0 st
| swr_step st st1 ev st2 n :
    running st = true -> wrapped_step h mid st [] = (st1, ev, Ok) ->
    steps_while_running h mid st1 n st2 -> steps_while_running h mid st (S n) st2.

Lemma swr_steps h mid st n st' : rec_free h = true ->
  steps_while_running h mid st n st' -> steps st' = steps st + Z.of_nat n.
Proof.
  intros Hrf H. induction H as [st|st st1 ev st2 n Hr Hw _ IH]; [simpl; lia|].
  pose proof (wrapped_exactly_one h mid st [] Hrf) as H1. rewrite Hw in H1. unfold res_state in H1. cbn [fst] in H1.
  lia.
Qed.

Lemma run_model_ok h mid fuel : rec_free h = true -> forall st st' evs,
  run_model fuel h mid st = (st', evs, Ok) ->
  running st' = false /\
  exists n, (n <= fuel)%nat /\ steps_while_running h mid st n st' /\ steps st' = steps st + Z.of_nat n.
Proof.
  intros Hrf. induction fuel as [|f IH]; intros st st' evs H; simpl in H.
  - destruct (running st) eqn:Er; [discriminate|]. inversion H; subst.
    split; [exact Er|]. exists 0%nat. split; [lia|]. split; [apply swr_done|simpl; lia].
  - destruct (running st) eqn:Er.
    + destruct (wrapped_step h mid st []) as [[st1 ev1] r] eqn:Ew.
      destruct r; try discriminate.
      destruct (run_model f h mid st1) as [[st2 ev2] r2] eqn:Erm. inversion H; subst.
      destruct (IH st1 st' ev2 Erm) as [H1 [n [Hn [Hs He]]]].
      split; [exact H1|]. exists (S n). split; [lia|].
      assert (steps_while_running h mid st (S n) st') as Hs' by (eapply swr_step; eassumption).
      split; [exact Hs'|]. eapply swr_steps; [exact Hrf|exact Hs'].
    + inversion H; subst. split; [exact Er|]. exists 0%nat. split; [lia|]. split; [apply swr_done|simpl; lia].
Qed.

Lemma run_model_not_running h mid fuel st : running st = false -> run_model fuel h mid st = (st, [], Ok).
Proof. intros H. destruct fuel; simpl; rewrite H; reflexivity. Qed.

(* a loop ended by an exception made n complete calls and one that raised; that one counts too *)
Lemma run_model_err h mid fuel : rec_free h = true -> forall st st' evs r,
  run_model fuel h mid st = (st', evs, r) -> r = ErrType \/ r = ErrBoom ->
  exists n st1 ev, steps_while_running h mid st n st1 /\ running st1 = true /\
                   wrapped_step h mid st1 [] = (st', ev, r) /\ steps st' = steps st + Z.of_nat n + 1.
Proof.
  intros Hrf. induction fuel as [|f IH]; intros st st' evs r H Hr; simpl in H.
  - destruct (running st); inversion H; subst; destruct Hr; discriminate.
  - destruct (running st) eqn:Er.
    2:{ inversion H; subst; destruct Hr; discriminate. }
    destruct (wrapped_step h mid st []) as [[st1 ev1] r1] eqn:Ew.
    pose proof (wrapped_exactly_one h mid st [] Hrf) as H1. rewrite Ew in H1. unfold res_state in H1. cbn [fst] in H1.
    destruct r1.
    + destruct (run_model f h mid st1) as [[st2 ev2] r2] eqn:Erm. inversion H; subst.
      destruct (IH st1 st' ev2 r Erm Hr) as [n [sta [ev [Hs [Hra [Hw He]]]]]].
      exists (S n), sta, ev. split; [eapply swr_step; eassumption|]. split; [exact Hra|]. split; [exact Hw|]. lia.
    + inversion H; subst. exists 0%nat, st, evs. split; [apply swr_done|]. split; [exact Er|]. split; [exact Ew|]. simpl. lia.
    + inversion H; subst. exists 0%nat, st, evs. split; [apply swr_done|]. split; [exact Er|]. split; [exact Ew|]. simpl. lia.
    + inversion H; subst. destruct Hr; discriminate.
Qed.

Lemma run_model_mono h mid fuel : rec_free h = true ->
  forall st, steps st <= steps (res_state (run_model fuel h mid st)).
Proof.
  intros Hrf. unfold res_state. induction fuel as [|f IH]; intros st; simpl.
  - destruct (running st); simpl; lia.
  - destruct (running st); [|simpl; lia].
    destruct (wrapped_step h mid st []) as [[st1 ev1] r] eqn:Ew.
    pose proof (wrapped_exactly_one h mid st [] Hrf) as H1. rewrite Ew in H1. unfold res_state in H1. cbn [fst] in H1.
    destruct r; cbn [fst]; try lia.
    specialize (IH st1). destruct (run_model f h mid st1) as [[st2 ev2] r2]. cbn [fst] in *. lia.
Qed.

(* every body run during run_model sees a counter value strictly above the start and at most the final one *)
Lemma run_model_events h mid fuel : rec_free h = true -> forall st,
  Forall (fun e => steps st < e_seen e <= steps (res_state (run_model fuel h mid st)) /\ e_inst e = mid)
         (res_events (run_model fuel h mid st)).
Proof.
  intros Hrf. unfold res_state, res_events. induction fuel as [|f IH]; intros st; simpl.
  - destruct (running st); constructor.
  - destruct (running st); [|constructor].
    destruct (wrapped_step h mid st []) as [[st1 ev1] r] eqn:Ew.
    pose proof (wrapped_exactly_one h mid st [] Hrf) as H1. rewrite Ew in H1. unfold res_state in H1. cbn [fst] in H1.
    pose proof (wrapped_before_user h mid st [] Hrf) as H2. rewrite Ew in H2. unfold res_events in H2. cbn [fst snd] in H2.
    destruct r; cbn [fst snd];
      try (eapply Forall_impl; [|exact H2]; intros e [Ha Hb]; split; [lia|exact Hb]).
    specialize (IH st1). destruct (run_model f h mid st1) as [[st2 ev2] r2] eqn:Erm. cbn [fst snd] in *.
    assert (steps st1 <= steps st2) as Hle.
    { pose proof (run_model_mono h mid f Hrf st1) as Hm. rewrite Erm in Hm. exact Hm. }
    apply Forall_app. split.
    + eapply Forall_impl; [|exact H2]. intros e [Ha Hb]. split; [lia|exact Hb].
    + eapply Forall_impl; [|exact IH]. intros e [Ha Hb]. split; [lia|exact Hb].
Qed.

(* ---------- several instances: each evolves as if it were alone ---------- *)
Lemma nth_error_upd_same {A : Type} (l : list A) n v x :
  nth_error l n = Some x -> nth_error (upd n v l) n = Some v.
Proof.
  revert n. induction l as [|y t IH]; intros [|n] H; simpl in *; try discriminate; [reflexivity|].
  apply IH. exact H.
Qed.

Lemma nth_error_upd_other {A : Type} (l : list A) n n' v :
  n <> n' -> nth_error (upd n v l) n' = nth_error l n'.
Proof.
  revert n n'. induction l as [|y t IH]; intros [|n] [|n'] H; simpl; try reflexivity; try congruence.
  apply IH. congruence.
Qed.

Lemma znth_upd_same {A : Type} (l : list A) i v x : znth l i = Some x -> znth (upd (Z.to_nat i) v l) i = Some v.
Proof. unfold znth. destruct (i <? 0); [discriminate|]. apply nth_error_upd_same. Qed.

Lemma znth_upd_other {A : Type} (l : list A) i j v x :
  znth l i = Some x -> j <> i -> znth (upd (Z.to_nat i) v l) j = znth l j.
Proof.
  unfold znth. destruct (i <? 0) eqn:Ei; [discriminate|]. intros _ Hne.
  destruct (j <? 0) eqn:Ej; [reflexivity|]. apply nth_error_upd_other. lia.
Qed.

Lemma znth_app_old {A : Type} (l : list A) x j y : znth l j = Some y -> znth (l ++ [x]) j = Some y.
Proof.
  unfold znth. destruct (j <? 0); [discriminate|]. intros H.
  rewrite nth_error_app1; [exact H|]. apply nth_error_Some. congruence.
Qed.

(* what an operation does to instance i (of class hierarchy h), were it alone *)
Definition aimed_at (i : Z) (o : op) : bool :=
  match o with
  | Step j _ | RunModel j _ | SetRunning j _ => j =? i
  | NewInstance _ | Clone _ => false
  end.
Definition inst_step (h : hierarchy) (i : Z) (st : mstate) (o : op) : mstate :=
  match o with
  | Step _ args => res_state (wrapped_step h i st args)
  | RunModel _ fuel => match resolve h 0 with None => st | Some _ => res_state (run_model fuel h i st) end
  | SetRunning _ b => {| steps := steps st; running := b |}
  | NewInstance _ | Clone _ => st
  end.

Lemma class_of_set_same w i st c x h :
  class_of w i = Some (x, h) -> i_cls x = c ->
  class_of (set_inst w i st c) i = Some ({| i_cls := c; i_st := st |}, h).
Proof.
  unfold class_of, set_inst. cbn [w_insts w_classes].
  destruct (znth (w_insts w) i) as [x0|] eqn:E; [|discriminate].
  destruct (znth (w_classes w) (i_cls x0)) as [h0|] eqn:Ec; [|discriminate].
  intros H Hc. inversion H; subst. rewrite (znth_upd_same _ _ _ _ E). cbn [i_cls]. rewrite Ec. reflexivity.
Qed.

Lemma class_of_set_other w i j st c x h :
  class_of w i = Some (x, h) -> j <> i -> class_of (set_inst w i st c) j = class_of w j.
Proof.
  unfold class_of, set_inst. cbn [w_insts w_classes].
  destruct (znth (w_insts w) i) as [x0|] eqn:E; [|discriminate]. intros _ Hne.
  rewrite (znth_upd_other _ _ _ _ _ E Hne). reflexivity.
Qed.

Lemma step_one w o i x h :
  class_of w i = Some (x, h) ->
  class_of (fst (step w o)) i =
  Some (if aimed_at i o then {| i_cls := i_cls x; i_st := inst_step h i (i_st x) o |} else x, h).
Proof.
  intros Hc. unfold step. destruct (step_op w o) as [w' r] eqn:Es. cbn [fst].
  assert (w' = fst (step_op w o)) as -> by (rewrite Es; reflexivity). clear Es r.
  destruct o as [c|j args|j fuel|j b|j]; simpl.
  - destruct (znth (w_classes w) c); [|exact Hc].
    destruct (negb _); [exact Hc|]. cbn [fst].
    unfold class_of in *. cbn [w_insts w_classes].
    destruct (znth (w_insts w) i) as [x0|] eqn:E; [|discriminate].
    rewrite (znth_app_old _ _ _ _ E). exact Hc.
  - destruct (Z.eq_dec j i) as [->|Hne].
    + rewrite Z.eqb_refl, Hc. cbn [fst]. eapply class_of_set_same; [exact Hc|reflexivity].
    + assert (j =? i = false) as -> by (apply Z.eqb_neq; exact Hne).
      destruct (class_of w j) as [[xj hj]|] eqn:Ej; [|exact Hc]. cbn [fst].
      rewrite (class_of_set_other _ _ _ _ _ _ _ Ej); [exact Hc|congruence].
  - destruct (Z.eq_dec j i) as [->|Hne].
    + rewrite Z.eqb_refl, Hc. destruct (resolve h 0); [|destruct x; exact Hc]. cbn [fst].
      eapply class_of_set_same; [exact Hc|reflexivity].
    + assert (j =? i = false) as -> by (apply Z.eqb_neq; exact Hne).
      destruct (class_of w j) as [[xj hj]|] eqn:Ej; [|exact Hc].
      destruct (resolve hj 0); [|exact Hc]. cbn [fst].
      rewrite (class_of_set_other _ _ _ _ _ _ _ Ej); [exact Hc|congruence].
  - destruct (Z.eq_dec j i) as [->|Hne].
    + rewrite Z.eqb_refl, Hc. cbn [fst]. eapply class_of_set_same; [exact Hc|reflexivity].
    + assert (j =? i = false) as -> by (apply Z.eqb_neq; exact Hne).
      destruct (class_of w j) as [[xj hj]|] eqn:Ej; [|exact Hc]. cbn [fst].
      rewrite (class_of_set_other _ _ _ _ _ _ _ Ej); [exact Hc|congruence].
  - destruct (class_of w j) as [[xj hj]|]; [|exact Hc]. cbn [fst].
    unfold class_of in *. cbn [w_insts w_classes].
    destruct (znth (w_insts w) i) as [x0|] eqn:E; [|discriminate].
    rewrite (znth_app_old _ _ _ _ E). exact Hc.
Qed.



(* the state of instance i after an interleaved history = its state after its own operations alone *)
Theorem projection ops : forall w i x h,
  class_of w i = Some (x, h) ->
  class_of (final w ops) i =
  Some ({| i_cls := i_cls x; i_st := fold_left (inst_step h i) (filter (aimed_at i) ops) (i_st x) |}, h).
Proof.
  unfold final. induction ops as [|o t IH]; intros w i x h Hc; simpl.
  - destruct x. exact Hc.
  - pose proof (step_one w o i x h Hc) as H1.
    rewrite (IH _ i _ h H1). destruct (aimed_at i o); reflexivity.
Qed.

(* an operation aimed elsewhere leaves the instance exactly as it was *)
Lemma independent w o i x h :
  class_of w i = Some (x, h) -> aimed_at i o = false -> class_of (fst (step w o)) i = Some (x, h).
Proof. intros Hc Ha. rewrite (step_one w o i x h Hc), Ha. reflexivity. Qed.

(* a pickle round trip / deepcopy yields a new instance of the same class with the same counter and flag; from
   there on it is an instance like any other (projection, exactly-one, ... apply to it) *)
Lemma clone_spec w i x h :
  class_of w i = Some (x, h) ->
  class_of (fst (step w (Clone i))) (zlen (w_insts w)) = Some ({| i_cls := i_cls x; i_st := i_st x |}, h) /\
  class_of (fst (step w (Clone i))) i = Some (x, h).
Proof.
  intros Hc. split; [|apply independent; [exact Hc|reflexivity]].
  unfold step. simpl. rewrite Hc. cbn [fst]. unfold class_of in *. cbn [w_insts w_classes].
  destruct (znth (w_insts w) i) as [x0|] eqn:E; [|discriminate].
  destruct (znth (w_classes w) (i_cls x0)) as [h0|] eqn:Ec; [|discriminate]. inversion Hc; subst.
  assert (znth (w_insts w ++ [{| i_cls := i_cls x; i_st := i_st x |}]) (zlen (w_insts w)) =
          Some {| i_cls := i_cls x; i_st := i_st x |}) as ->.
  { unfold znth, zlen. assert (Z.of_nat (length (w_insts w)) <? 0 = false) as -> by (apply Z.ltb_ge; lia).
    rewrite Nat2Z.id, nth_error_app2 by lia. rewrite Nat.sub_diag. reflexivity. }
  cbn [i_cls]. rewrite Ec. reflexivity.
Qed.

(* counting: without run_model in the history, steps = number of step calls aimed at the instance, whatever
   their arguments and outcomes *)
Definition is_step_at (i : Z) (o : op) : bool := match o with Step j _ => j =? i | _ => false end.
Definition is_run (o : op) : bool := match o with RunModel _ _ => true | _ => false end.

Lemma fold_count h i ops : rec_free h = true -> forall st,
  forallb (fun o => negb (is_run o)) ops = true ->
  steps (fold_left (inst_step h i) (filter (aimed_at i) ops) st) =
  steps st + Z.of_nat (length (filter (is_step_at i) ops)).
Proof.
  intros Hrf. induction ops as [|o t IH]; intros st Hn; simpl; [lia|].
  simpl in Hn. apply andb_true_iff in Hn. destruct Hn as [Ho Ht].
  destruct o as [c|j args|j fuel|j b|j]; simpl in *; try discriminate.
  - apply IH. exact Ht.
  - destruct (j =? i); simpl.
    + rewrite IH by exact Ht. rewrite wrapped_exactly_one by exact Hrf. lia.
    + apply IH. exact Ht.
  - destruct (j =? i); simpl; rewrite IH by exact Ht; simpl; lia.
  - apply IH. exact Ht.
Qed.

Theorem steps_count_calls ops w i x h :
  class_of w i = Some (x, h) -> rec_free h = true -> forallb (fun o => negb (is_run o)) ops = true ->
  exists x', class_of (final w ops) i = Some (x', h) /\
             steps (i_st x') = steps (i_st x) + Z.of_nat (length (filter (is_step_at i) ops)).
Proof.
  intros Hc Hrf Hn. eexists. split; [apply projection; exact Hc|]. cbn [i_st]. apply fold_count; assumption.
Qed.

(* ====================================================================================== *)
(* Recursive self.step() inside user code: every nested call goes through the wrapper and  *)
(* counts exactly once, before the user code of that call runs.                            *)
(* ====================================================================================== *)
Definition zrange (lo hi : Z) : list Z :=
  map (fun i => lo + Z.of_nat i) (seq 0 (Z.to_nat (hi - lo + 1))).

Lemma zrange_empty lo : zrange (lo + 1) lo = [].
Proof. unfold zrange. replace (Z.to_nat (lo - (lo + 1) + 1)) with 0%nat by lia. reflexivity. Qed.

Lemma zrange_cons lo hi : lo <= hi -> lo :: zrange (lo + 1) hi = zrange lo hi.
Proof.
  intros H. unfold zrange. replace (Z.to_nat (hi - lo + 1)) with (S (Z.to_nat (hi - (lo + 1) + 1))) by lia.
  simpl. f_equal; [lia|]. rewrite <- seq_shift, map_map. apply map_ext. intros a. lia.
Qed.

Lemma zrange_app lo mid hi : lo <= mid + 1 -> mid <= hi -> zrange lo mid ++ zrange (mid + 1) hi = zrange lo hi.
Proof.
  intros H1 H2. unfold zrange.
  replace (Z.to_nat (hi - lo + 1)) with (Z.to_nat (mid - lo + 1) + Z.to_nat (hi - (mid + 1) + 1))%nat by lia.
  rewrite seq_app, map_app. f_equal.
  set (a := Z.to_nat (mid - lo + 1)). set (n := Z.to_nat (hi - (mid + 1) + 1)).
  assert (forall k s, map (fun i => mid + 1 + Z.of_nat i) (seq s k) =
                      map (fun i => lo + Z.of_nat i) (seq (s + a) k)) as Hs.
  { induction k as [|k IH]; intros s; simpl; [reflexivity|]. f_equal; [unfold a; lia|]. apply (IH (S s)). }
  exact (Hs n 0%nat).
Qed.

(* the values of self.steps seen by the bodies of level i, in execution order *)
Definition tops (i : Z) (evs : list event) : list Z := map e_seen (filter (fun e => e_lvl e =? i) evs).

Lemma tops_app i a b : tops i (a ++ b) = tops i a ++ tops i b.
Proof. unfold tops. rewrite filter_app, map_app. reflexivity. Qed.

(* "between counter value s0 and the end, the level-i bodies saw s0+1, s0+2, ..., final value - each once" *)
Definition counted (i : Z) (s0 : Z) (x : mstate * list event * status) : Prop :=
  res_status x <> OutOfFuel ->
  tops i (res_events x) = zrange (s0 + 1) (steps (res_state x)) /\ s0 <= steps (res_state x).

Lemma resolve_ge h : forall idx i l, resolve h idx = Some (i, l) -> idx <= i.
Proof.
  induction h as [|l0 t IH]; intros idx i l H; simpl in H; [discriminate|].
  destruct (l_def l0); [inversion H; lia|]. apply IH in H. lia.
Qed.

Ltac fin_empty := intros _; rewrite zrange_empty; split; [reflexivity|lia].

Section Recursion.
  Variables (rec : mstate -> mstate * list event * status) (i : Z).
  Hypothesis Hrec : forall st, counted i (steps st) (rec st).

  (* a part of the chain strictly below level i: its own bodies are not level-i bodies; nested calls are counted *)
  Lemma chain_counted_below h : forall idx mid st args, i < idx ->
    counted i (steps st) (call_chain rec h idx mid st args).
  Proof.
    unfold counted, res_status, res_events, res_state.
    induction h as [|l t IH]; intros idx mid st args Hlt; simpl.
    - destruct args; cbn [fst snd]; fin_empty.
    - destruct (l_def l); [|apply IH; lia].
      destruct (arity_ok l args); [|cbn [fst snd]; fin_empty].
      assert (idx =? i = false) as Eni by (apply Z.eqb_neq; lia).
      destruct (opt_is (l_raise l) (fun k => steps st =? k)).
      { cbn [fst snd]. intros _. unfold tops. simpl. rewrite Eni. simpl. rewrite zrange_empty. split; [reflexivity|lia]. }
      assert (counted i (steps st) (if opt_is (l_rec l) (fun k => steps st <? k) then rec st else (st, [], Ok))) as Hr.
      { destruct (opt_is (l_rec l) (fun k => steps st <? k)); [apply Hrec|].
        unfold counted, res_status, res_events, res_state. cbn [fst snd]. fin_empty. }
      destruct (if opt_is (l_rec l) (fun k => steps st <? k) then rec st else (st, [], Ok)) as [[st0 evr] rr].
      unfold counted, res_status, res_events, res_state in Hr. cbn [fst snd] in Hr.
      assert (forall evs', tops i ({| e_inst := mid; e_lvl := idx; e_seen := steps st; e_run := running st; e_args := args |} :: evs') = tops i evs') as Hskip.
      { intros evs'. unfold tops. simpl. rewrite Eni. reflexivity. }
      destruct rr; cbn [fst snd]; try (intros Hs; rewrite Hskip; apply Hr; exact Hs).
      destruct Hr as [Hr1 Hr2]; [discriminate|].
      assert (counted i (steps st0)
                (if l_super l then call_chain rec t (idx + 1) mid st0 (if l_fwd l then args else []) else (st0, [], Ok))) as Hsup.
      { destruct (l_super l); [unfold counted, res_status, res_events, res_state; intros Hs; apply IH; [lia|exact Hs]|].
        unfold counted, res_status, res_events, res_state. cbn [fst snd]. fin_empty. }
      destruct (if l_super l then call_chain rec t (idx + 1) mid st0 (if l_fwd l then args else []) else (st0, [], Ok))
        as [[st1 evs] r].
      unfold counted, res_status, res_events, res_state in Hsup. cbn [fst snd] in Hsup.
      assert (r <> OutOfFuel -> tops i ({| e_inst := mid; e_lvl := idx; e_seen := steps st; e_run := running st; e_args := args |} :: evr ++ evs)
                                = zrange (steps st + 1) (steps st1) /\ steps st <= steps st1) as Hall.
      { intros Hs. destruct (Hsup Hs) as [H1 H2]. rewrite Hskip, tops_app, Hr1, H1. split; [apply zrange_app; lia|lia]. }
      destruct r; cbn [fst snd]; intros Hs; try (apply Hall; exact Hs).
      destruct (opt_is (l_stop l) (fun k => steps st1 >=? k)); cbn [clear_running steps]; apply Hall; discriminate.
  Qed.

  (* from the class the MRO resolves (a variadic definer at level i): its own body is the first level-i body *)
  Lemma chain_counted_resolved h : forall idx mid st args l,
    resolve h idx = Some (i, l) -> arity_ok l args = true ->
    counted i (steps st - 1) (call_chain rec h idx mid st args).
  Proof.
    unfold counted, res_status, res_events, res_state.
    induction h as [|l0 t IH]; intros idx mid st args l Hres Har; simpl in Hres; [discriminate|]. simpl.
    destruct (l_def l0); [|eapply IH; eassumption].
    inversion Hres; subst idx l0. rewrite Har.
    replace (steps st - 1 + 1) with (steps st) by lia.
    assert (forall evs', tops i ({| e_inst := mid; e_lvl := i; e_seen := steps st; e_run := running st; e_args := args |} :: evs') = steps st :: tops i evs') as Htop.
    { intros evs'. unfold tops. simpl. rewrite Z.eqb_refl. reflexivity. }
    destruct (opt_is (l_raise l) (fun k => steps st =? k)).
    { cbn [fst snd]. intros _. rewrite Htop. unfold tops at 1. simpl. rewrite <- (zrange_cons (steps st) (steps st)) by lia.
      rewrite zrange_empty. split; [reflexivity|lia]. }
    assert (counted i (steps st) (if opt_is (l_rec l) (fun k => steps st <? k) then rec st else (st, [], Ok))) as Hr.
    { destruct (opt_is (l_rec l) (fun k => steps st <? k)); [apply Hrec|].
      unfold counted, res_status, res_events, res_state. cbn [fst snd]. fin_empty. }
    destruct (if opt_is (l_rec l) (fun k => steps st <? k) then rec st else (st, [], Ok)) as [[st0 evr] rr].
    unfold counted, res_status, res_events, res_state in Hr. cbn [fst snd] in Hr.
    assert (rr <> OutOfFuel -> tops i ({| e_inst := mid; e_lvl := i; e_seen := steps st; e_run := running st; e_args := args |} :: evr)
                               = zrange (steps st) (steps st0) /\ steps st - 1 <= steps st0) as Hpart.
    { intros Hs. destruct (Hr Hs) as [H1 H2]. rewrite Htop, H1. split; [apply zrange_cons; lia|lia]. }
    destruct rr; cbn [fst snd]; try (intros Hs; apply Hpart; exact Hs).
    destruct Hr as [Hr1 Hr2]; [discriminate|].
    assert (counted i (steps st0)
              (if l_super l then call_chain rec t (i + 1) mid st0 (if l_fwd l then args else []) else (st0, [], Ok))) as Hsup.
    { destruct (l_super l); [apply chain_counted_below; lia|].
      unfold counted, res_status, res_events, res_state. cbn [fst snd]. fin_empty. }
    destruct (if l_super l then call_chain rec t (i + 1) mid st0 (if l_fwd l then args else []) else (st0, [], Ok))
      as [[st1 evs] r].
    unfold counted, res_status, res_events, res_state in Hsup. cbn [fst snd] in Hsup.
    assert (r <> OutOfFuel -> tops i ({| e_inst := mid; e_lvl := i; e_seen := steps st; e_run := running st; e_args := args |} :: evr ++ evs)
                              = zrange (steps st) (steps st1) /\ steps st - 1 <= steps st1) as Hall.
    { intros Hs. destruct (Hsup Hs) as [H1 H2]. rewrite Htop, tops_app, Hr1, H1.
      rewrite (zrange_app (steps st + 1) (steps st0) (steps st1)) by lia. split; [apply zrange_cons; lia|lia]. }
    destruct r; cbn [fst snd]; intros Hs; try (apply Hall; exact Hs).
    destruct (opt_is (l_stop l) (fun k => steps st1 >=? k)); cbn [clear_running steps]; apply Hall; discriminate.
  Qed.
End Recursion.

(* one call of instance.step( *args), nested self.step() calls to any depth included: the bodies of the resolved
   (variadic) user step saw steps+1, steps+2, ..., final steps - so every call, outer or nested, was counted
   exactly once and before its user code ran, and the counter advanced by exactly the number of calls *)
Lemma arity_neg_ok l args : l_arity l < 0 -> arity_ok l args = true.
Proof. intros H. unfold arity_ok. apply orb_true_iff. left. apply Z.ltb_lt. exact H. Qed.

(* the resolved step accepts a call without arguments (variadic, or no parameters): nested self.step() calls run
   the user step again *)
Theorem wrapped_counted fuel : forall h mid i l, resolve h 0 = Some (i, l) -> arity_ok l [] = true ->
  forall st args, arity_ok l args = true -> counted i (steps st) (wrapped fuel h mid st args).
Proof.
  induction fuel as [|f IH]; intros h mid i l Hres Hnil st args Har.
  - unfold counted, res_status. simpl. intros H. exfalso. apply H. reflexivity.
  - simpl. pose proof (chain_counted_resolved (fun s => wrapped f h mid s []) i
                         (fun s => IH h mid i l Hres Hnil s [] Hnil) h 0 mid (incr st) args l Hres Har) as H.
    replace (steps (incr st) - 1) with (steps st) in H by (simpl; lia). exact H.
Qed.

(* the resolved step has parameters: a nested self.step() is counted, rejected by the call protocol before any user
   code, and the TypeError unwinds the whole outer call *)
Section Rejecting.
  Variable rec : mstate -> mstate * list event * status.
  Hypothesis Hrej : forall s, rec s = (incr s, [], ErrType).

  Lemma chain_rejecting h : forall idx mid st args,
    let x := call_chain rec h idx mid st args in
    Forall (fun e => e_seen e = steps st /\ e_inst e = mid) (res_events x) /\
    (steps (res_state x) = steps st \/ (steps (res_state x) = steps st + 1 /\ res_status x = ErrType)).
  Proof.
    unfold res_events, res_state, res_status. induction h as [|l t IH]; intros idx mid st args; simpl.
    - destruct args; cbn [fst snd]; split; [constructor|left; reflexivity|constructor|left; reflexivity].
    - destruct (l_def l); [|apply IH].
      destruct (arity_ok l args); [|cbn [fst snd]; split; [constructor|left; reflexivity]].
      destruct (opt_is (l_raise l) (fun k => steps st =? k)).
      { cbn [fst snd]. split; [constructor; [simpl; auto|constructor]|left; reflexivity]. }
      destruct (opt_is (l_rec l) (fun k => steps st <? k)).
      + rewrite Hrej. cbn [fst snd]. split; [constructor; [simpl; auto|constructor]|right; simpl; split; [lia|reflexivity]].
      + destruct (l_super l).
        * specialize (IH (idx + 1) mid st (if l_fwd l then args else [])).
          destruct (call_chain rec t (idx + 1) mid st (if l_fwd l then args else [])) as [[st1 evs] r].
          cbn [fst snd] in IH. destruct IH as [IH1 IH2].
          destruct r; cbn [fst snd app]; (split; [constructor; [simpl; auto|exact IH1]|]);
            try (destruct IH2 as [IH2|[IH2 IH3]]; [left; exact IH2|discriminate IH3 || (right; split; [exact IH2|reflexivity])]).
          destruct IH2 as [IH2|[_ IH3]]; [|discriminate].
          left. destruct (opt_is (l_stop l) (fun k => steps st1 >=? k)); cbn [clear_running steps]; exact IH2.
        * cbn [fst snd app]. split; [constructor; [simpl; auto|constructor]|].
          left. destruct (opt_is (l_stop l) (fun k => steps st >=? k)); reflexivity.
  Qed.
End Rejecting.

Theorem wrapped_step_fixed_arity h mid i l st args :
  resolve h 0 = Some (i, l) -> arity_ok l [] = false ->
  let x := wrapped_step h mid st args in
  Forall (fun e => e_seen e = steps st + 1 /\ e_inst e = mid) (res_events x) /\
  (steps (res_state x) = steps st + 1 \/ (steps (res_state x) = steps st + 2 /\ res_status x = ErrType)).
Proof.
  intros Hres Hrej x.
  assert (forall s, wrapped (pred CALL_FUEL) h mid s [] = (incr s, [], ErrType)) as Hr.
  { intros s. change (wrapped (pred CALL_FUEL) h mid s []) with
      (call_chain (fun s' => wrapped (pred (pred CALL_FUEL)) h mid s' []) h 0 mid (incr s) []).
    pose proof (chain_head (fun s' => wrapped (pred (pred CALL_FUEL)) h mid s' []) h 0 mid (incr s) [] i l Hres) as H.
    rewrite Hrej in H. destruct H as [H1 [H2 H3]].
    destruct (call_chain (fun s' => wrapped (pred (pred CALL_FUEL)) h mid s' []) h 0 mid (incr s) []) as [[s1 e] r].
    unfold res_events, res_status, res_state in *. cbn [fst snd] in *. subst. reflexivity. }
  unfold x. rewrite wrapped_step_unfold.
  pose proof (chain_rejecting _ Hr h 0 mid (incr st) args) as [H1 H2]. cbn [incr steps] in H1, H2.
  split; [exact H1|]. destruct H2 as [H2|[H2 H3]]; [left; exact H2|right; split; [lia|exact H3]].
Qed.

Corollary wrapped_step_counted_gen h mid i l st args :
  resolve h 0 = Some (i, l) -> arity_ok l [] = true -> arity_ok l args = true ->
  res_status (wrapped_step h mid st args) <> OutOfFuel ->
  tops i (res_events (wrapped_step h mid st args)) = zrange (steps st + 1) (steps (res_state (wrapped_step h mid st args))) /\
  steps st + 1 <= steps (res_state (wrapped_step h mid st args)) /\
  steps (res_state (wrapped_step h mid st args)) = steps st + Z.of_nat (length (tops i (res_events (wrapped_step h mid st args)))).
Proof.
  intros Hres Hnil Ea Hs.
  destruct (wrapped_counted CALL_FUEL h mid i l Hres Hnil st args Ea Hs) as [H1 H2].
  fold (wrapped_step h mid st args) in H1, H2.
  assert (steps st + 1 <= steps (res_state (wrapped_step h mid st args))) as H3.
  { pose proof (chain_head (fun s => wrapped (pred CALL_FUEL) h mid s []) h 0 mid (incr st) args i l Hres) as Hh.
    rewrite Ea in Hh. destruct Hh as [e [rest [He [Hl [_ [Hseen _]]]]]].
    rewrite <- wrapped_step_unfold in He.
    destruct (Z_le_gt_dec (steps st + 1) (steps (res_state (wrapped_step h mid st args)))) as [Hle|Hgt]; [exact Hle|].
    exfalso. rewrite He in H1. unfold tops in H1. simpl in H1. rewrite Hl, Z.eqb_refl in H1. simpl in H1.
    unfold zrange in H1. replace (Z.to_nat (steps (res_state (wrapped_step h mid st args)) - (steps st + 1) + 1)) with 0%nat in H1 by lia.
    discriminate. }
  split; [exact H1|]. split; [exact H3|].
  rewrite H1. unfold zrange. rewrite map_length, seq_length. lia.
Qed.

Corollary wrapped_step_counted h mid i l st args :
  resolve h 0 = Some (i, l) -> l_arity l < 0 ->
  res_status (wrapped_step h mid st args) <> OutOfFuel ->
  tops i (res_events (wrapped_step h mid st args)) = zrange (steps st + 1) (steps (res_state (wrapped_step h mid st args))) /\
  steps st + 1 <= steps (res_state (wrapped_step h mid st args)) /\
  steps (res_state (wrapped_step h mid st args)) = steps st + Z.of_nat (length (tops i (res_events (wrapped_step h mid st args)))).
Proof.
  intros Hres Har. apply (wrapped_step_counted_gen h mid i l); [exact Hres|apply arity_neg_ok; exact Har|apply arity_neg_ok; exact Har].
Qed.
