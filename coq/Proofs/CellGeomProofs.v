(* Lemmas for C07 (Model/CellGeom.v). *)
From Coq Require Import ZArith List Bool Lia Permutation.
From Mesa Require Import Common.ListX Generated.Tables Model.CellGeom.
Import ListNotations.
Open Scope Z_scope.

(* ------------------------------------------------------------------ dict helpers *)
Lemma zeqb_spec : forall a b : Z, (a =? b) = true <-> a = b.
Proof. intros. apply Z.eqb_eq. Qed.

Lemma zmem_In x l : zmem x l = true <-> In x l.
Proof. apply (memb_In Z.eqb zeqb_spec). Qed.
Lemma zdedup_In l x : In x (zdedup l) <-> In x l.
Proof. apply (dedup_first_In Z.eqb zeqb_spec). Qed.
Lemma zdedup_NoDup l : NoDup (zdedup l).
Proof. apply (dedup_first_NoDup Z.eqb zeqb_spec). Qed.
Lemma zpop_In x l y : In y (zpop x l) <-> In y l /\ y <> x.
Proof. apply (remove_key_In Z.eqb zeqb_spec). Qed.
Lemma zpop_NoDup x l : NoDup l -> NoDup (zpop x l).
Proof. apply remove_key_NoDup. Qed.
Lemma zset_In x l y : In y (zset x l) <-> In y l \/ y = x.
Proof.
  unfold zset. destruct (zmem x l) eqn:E.
  - apply zmem_In in E. split; [tauto|]. intros [H| ->]; assumption.
  - rewrite in_app_iff. simpl. split; [intros [H|[H|[]]]; auto|]. intros [H|H]; auto.
Qed.
Lemma zset_NoDup x l : NoDup l -> NoDup (zset x l).
Proof.
  intros H. unfold zset. destruct (zmem x l) eqn:E; [exact H|].
  assert (~ In x l) as Hn by (rewrite <- zmem_In; congruence).
  clear E. induction l as [|y t IH]; simpl.
  - constructor; [intros []|constructor].
  - inversion H; subst. constructor.
    + rewrite in_app_iff. simpl. intros [H4|[H4|[]]]; [tauto|]. subst. apply Hn. left. reflexivity.
    + apply IH; [assumption|]. intros H4. apply Hn. right. exact H4.
Qed.

Lemma zl_eqb_eq a b : zl_eqb a b = true <-> a = b.
Proof.
  revert b. induction a as [|x a IH]; intros [|y b]; simpl; try (split; congruence).
  rewrite andb_true_iff, Z.eqb_eq, IH. split; [intros [-> ->]; reflexivity|].
  intros H; inversion H; auto.
Qed.

(* ================================================================== 1. neighbourhoods *)
Section NbhdProofs.
  Variable conn : cell -> list cell.

  (* d is reached from c by exactly n connection hops *)
  Inductive hops : nat -> cell -> cell -> Prop :=
  | hops_O c : hops 0 c c
  | hops_S n c m d : In m (conn c) -> hops n m d -> hops (S n) c d.

  (* ... by at most r hops *)
  Definition within (r : nat) (c d : cell) : Prop := exists k, (k <= r)%nat /\ hops k c d.

  Lemma hops_0_eq c d : hops 0 c d -> d = c.
  Proof. intros H. inversion H. reflexivity. Qed.

  Lemma hops_1 c d : hops 1 c d <-> In d (conn c).
  Proof.
    split.
    - intros H. inversion H as [|n' c' m0 d' Hin Hrest]; subst. apply hops_0_eq in Hrest. subst. assumption.
    - intros H. econstructor; [exact H|constructor].
  Qed.

  Definition raw (n : nat) (c : cell) : list cell :=
    match n with
    | O => zdedup (conn c)
    | S m => zdedup (flat_map (nbhd conn m true) (conn c))
    end.

  Lemma nbhd_unfold n ic c : nbhd conn n ic c = if ic then zset c (raw n c) else zpop c (raw n c).
  Proof. destruct n; reflexivity. Qed.

  Lemma raw_In n : forall c d, In d (raw n c) <-> exists k, (1 <= k <= S n)%nat /\ hops k c d.
  Proof.
    induction n as [|m IH]; intros c d.
    - simpl. rewrite zdedup_In, <- hops_1. split.
      + intros H. exists 1%nat. split; [lia|exact H].
      + intros [k [Hk H]]. replace k with 1%nat in H by lia. exact H.
    - cbn [raw]. rewrite zdedup_In, in_flat_map. split.
      + intros [nb [Hnb Hd]]. rewrite nbhd_unfold in Hd. apply zset_In in Hd.
        destruct Hd as [Hd| ->].
        * apply IH in Hd. destruct Hd as [k [Hk Hh]]. exists (S k). split; [lia|].
          econstructor; eassumption.
        * exists 1%nat. split; [lia|]. apply hops_1. exact Hnb.
      + intros [k [Hk Hh]]. destruct k as [|k]; [lia|].
        inversion Hh as [|n' c' m0 d' Hin Hrest]; subst. exists m0. split; [assumption|].
        rewrite nbhd_unfold. apply zset_In.
        destruct k as [|k].
        * right. apply hops_0_eq in Hrest. exact Hrest.
        * left. apply IH. exists (S k). split; [lia|exact Hrest].
  Qed.

  (* the main statement, radius = S n *)
  Lemma nbhd_is_ball n ic c d :
    In d (nbhd conn n ic c) <-> (d <> c /\ within (S n) c d) \/ (ic = true /\ d = c).
  Proof.
    rewrite nbhd_unfold. destruct ic.
    - rewrite zset_In, raw_In. split.
      + intros [[k [Hk Hh]]|H].
        * destruct (Z.eq_dec d c) as [E|E]; [right; auto|].
          left. split; [exact E|]. exists k. split; [lia|exact Hh].
        * right. auto.
      + intros [[Hne [k [Hk Hh]]]|[_ H]]; [|right; exact H].
        left. exists k. split; [|exact Hh]. destruct k; [|lia].
        apply hops_0_eq in Hh. contradiction.
    - rewrite zpop_In, raw_In. split.
      + intros [[k [Hk Hh]] Hne]. left. split; [exact Hne|]. exists k. split; [lia|exact Hh].
      + intros [[Hne [k [Hk Hh]]]|[H _]]; [|discriminate].
        split; [|exact Hne]. exists k. split; [|exact Hh]. destruct k; [|lia].
        apply hops_0_eq in Hh. contradiction.
  Qed.

  Lemma raw_NoDup n c : NoDup (raw n c).
  Proof. destruct n; apply zdedup_NoDup. Qed.

  Lemma nbhd_NoDup n ic c : NoDup (nbhd conn n ic c).
  Proof.
    rewrite nbhd_unfold. destruct ic; [apply zset_NoDup|apply zpop_NoDup]; apply raw_NoDup.
  Qed.

  Lemma center_rule n ic c : In c (nbhd conn n ic c) <-> ic = true.
  Proof.
    rewrite nbhd_is_ball. split.
    - intros [[H _]|[H _]]; [contradiction|exact H].
    - intros H. right. auto.
  Qed.

  Lemma within_mono r r' c d : (r <= r')%nat -> within r c d -> within r' c d.
  Proof. intros H [k [Hk Hh]]. exists k. split; [lia|exact Hh]. Qed.

  Lemma nbhd_mono n n' ic c d : (n <= n')%nat -> In d (nbhd conn n ic c) -> In d (nbhd conn n' ic c).
  Proof.
    intros H. rewrite !nbhd_is_ball. intros [[H1 H2]|H1]; [|right; exact H1].
    left. split; [exact H1|]. eapply within_mono; [|exact H2]. lia.
  Qed.

  (* symmetric connections give symmetric neighbourhoods *)
  Lemma hops_snoc n c m d : hops n c m -> In d (conn m) -> hops (S n) c d.
  Proof.
    intros H. revert d. induction H as [c|n c m' e Hin Hh IH]; intros d' Hd.
    - apply hops_1. exact Hd.
    - econstructor; [exact Hin|]. apply IH. exact Hd.
  Qed.

  Lemma hops_sym :
    (forall a b, In b (conn a) -> In a (conn b)) ->
    forall n c d, hops n c d -> hops n d c.
  Proof.
    intros Hs n c d H. induction H as [c|n c m d Hin Hh IH].
    - constructor.
    - eapply hops_snoc; [exact IH|]. apply Hs. exact Hin.
  Qed.

  Lemma nbhd_sym n ic c d :
    (forall a b, In b (conn a) -> In a (conn b)) ->
    In d (nbhd conn n ic c) -> In c (nbhd conn n ic d).
  Proof.
    intros Hs. rewrite !nbhd_is_ball. intros [[H1 [k [Hk Hh]]]|[H1 H2]].
    - left. split; [congruence|]. exists k. split; [exact Hk|]. apply hops_sym; assumption.
    - right. split; [exact H1|congruence].
  Qed.

  (* --- the unchanged source recursion: where it agrees, and the two corners where it does not --- *)
  Lemma nbhd_src_agrees :
    (forall a, conn a <> []) ->
    (forall a, ~ In a (conn a)) ->
    (forall a b, In b (conn a) -> In a (conn b)) ->
    forall n ic c d, In d (nbhd_src conn n ic c) <-> In d (nbhd conn n ic c).
  Proof.
    intros Hne Hns Hsym n. induction n as [|m IH]; intros ic c d.
    - cbn [nbhd_src nbhd]. destruct ic; [reflexivity|].
      rewrite zpop_In, !zdedup_In. split; [|intros [H _]; exact H].
      intros H. split; [exact H|]. intros ->. apply (Hns c). exact H.
    - cbn [nbhd_src nbhd].
      assert (forall x, In x (zdedup (flat_map (nbhd_src conn m true) (conn c))) <->
                        In x (zdedup (flat_map (nbhd conn m true) (conn c)))) as Hraw.
      { intros x. rewrite !zdedup_In, !in_flat_map. split; intros [nb [H1 H2]]; exists nb; split; auto; apply IH; exact H2. }
      destruct ic.
      + rewrite zset_In, Hraw. split; [tauto|]. intros [H| ->]; [exact H|].
        (* c is found back in a neighbour's ball: needs a neighbour and symmetry *)
        rewrite zdedup_In, in_flat_map.
        destruct (conn c) as [|nb t] eqn:E; [exfalso; apply (Hne c); exact E|].
        exists nb. split; [left; reflexivity|].
        assert (In nb (conn c)) as Hnb by (rewrite E; left; reflexivity).
        apply Hsym in Hnb.
        apply nbhd_is_ball. left. split.
        * intros ->. apply (Hns nb). exact Hnb.
        * exists 1%nat. split; [lia|]. apply hops_1. exact Hnb.
      + rewrite !zpop_In, Hraw. reflexivity.
  Qed.

  (* ---------------- memoisation ---------------- *)
  Variable pI pG : option (list cparam).
  Variable cprop : bool.

  Definition cparam_eqb (a b : cparam) : bool :=
    match a, b with
    | CSelf, CSelf | CRadius, CRadius | CCenter, CCenter => true
    | _, _ => false
    end.
  Definition key_complete (ps : list cparam) : bool :=
    forallb (fun p => existsb (cparam_eqb p) ps) [CSelf; CRadius; CCenter].
  Definition cfg_ok (cfg : option (list cparam)) : bool :=
    match cfg with None => true | Some ps => key_complete ps end.

  Hypothesis HI : cfg_ok pI = true.
  Hypothesis HG : cfg_ok pG = true.

  Lemma cparam_in ps p : existsb (cparam_eqb p) ps = true -> In p ps.
  Proof.
    rewrite existsb_exists. intros [g [Hg He]]. destruct p, g; simpl in He; try discriminate; exact Hg.
  Qed.

  Lemma map_eq_pointwise {A B} (f g : A -> B) l : map f l = map g l -> forall x, In x l -> f x = g x.
  Proof.
    induction l as [|a t IH]; simpl; intros H x Hx; [destruct Hx|].
    inversion H. destruct Hx as [<-|Hx]; [assumption|]. apply IH; assumption.
  Qed.

  Lemma key_inj ps fn form c r ic fn' form' c' r' ic' :
    key_complete ps = true ->
    key_of ps fn form c r ic = key_of ps fn' form' c' r' ic' ->
    c = c' /\ r = r' /\ ic = ic'.
  Proof.
    unfold key_complete, key_of. simpl. rewrite !andb_true_iff.
    intros [H1 [H2 [H3 _]]] Hk. inversion Hk as [[Hfn Hform Hm]].
    pose proof (map_eq_pointwise _ _ _ Hm) as Hp.
    pose proof (Hp CSelf (cparam_in _ _ H1)) as E1.
    pose proof (Hp CRadius (cparam_in _ _ H2)) as E2.
    pose proof (Hp CCenter (cparam_in _ _ H3)) as E3.
    simpl in E1, E2, E3. repeat split; try assumption.
    destruct ic, ic'; simpl in E3; try reflexivity; discriminate.
  Qed.

  Definition params_of (fn : Z) : option (list cparam) :=
    if fn =? FN_GET then pG else if fn =? FN_INNER then pI
    else if fn =? FN_PROP then full_key cprop else None.

  Lemma params_complete fn ps : params_of fn = Some ps -> key_complete ps = true.
  Proof.
    unfold params_of. destruct (fn =? FN_GET); [intros E; rewrite E in HG; exact HG|].
    destruct (fn =? FN_INNER); [intros E; rewrite E in HI; exact HI|].
    destruct (fn =? FN_PROP); [|discriminate].
    unfold full_key. destruct cprop; [|discriminate]. intros [= <-]. reflexivity.
  Qed.

  (* every cache entry holds the value a fresh evaluation gives for the arguments its key names *)
  Definition Inv (ch : cache) : Prop :=
    forall k v, cache_get k ch = Some v ->
      exists fn form c r ic ps,
        params_of fn = Some ps /\ k = key_of ps fn form c r ic /\ 1 <= r /\
        v = nbhd conn (Z.to_nat (r - 1)) ic c.

  Lemma Inv_nil : Inv [].
  Proof. intros k v H. discriminate. Qed.

  Lemma Inv_hit ch fn form c r ic ps v :
    Inv ch -> params_of fn = Some ps ->
    cache_get (key_of ps fn form c r ic) ch = Some v ->
    1 <= r /\ v = nbhd conn (Z.to_nat (r - 1)) ic c.
  Proof.
    intros Hinv Hps Hget. destruct (Hinv _ _ Hget) as [fn' [form' [c' [r' [ic' [ps' [Hps' [Hk [Hr Hv]]]]]]]]].
    assert (fn = fn') as <- by (unfold key_of in Hk; inversion Hk; reflexivity).
    rewrite Hps in Hps'. inversion Hps'; subst ps'.
    apply key_inj in Hk; [|eapply params_complete; exact Hps].
    destruct Hk as [-> [-> ->]]. auto.
  Qed.

  Lemma Inv_store ch fn form c r ic ps :
    Inv ch -> params_of fn = Some ps -> 1 <= r ->
    Inv ((key_of ps fn form c r ic, nbhd conn (Z.to_nat (r - 1)) ic c) :: ch).
  Proof.
    intros Hinv Hps Hr k v. simpl.
    destruct (zl_eqb k (key_of ps fn form c r ic)) eqn:E.
    - apply zl_eqb_eq in E. intros [= <-]. exists fn, form, c, r, ic, ps. auto.
    - apply Hinv.
  Qed.

  Lemma params_inner : params_of FN_INNER = pI.
  Proof. reflexivity. Qed.
  Lemma params_get : params_of FN_GET = pG.
  Proof. reflexivity. Qed.
  Lemma params_prop : params_of FN_PROP = full_key cprop.
  Proof. reflexivity. Qed.

  Lemma union_loop_ok (f : cell -> cache -> cache * list cell) (g : cell -> list cell) :
    (forall nb ch, Inv ch -> snd (f nb ch) = g nb /\ Inv (fst (f nb ch))) ->
    forall l ch acc, Inv ch ->
      snd (union_loop f l ch acc) = acc ++ flat_map g l /\ Inv (fst (union_loop f l ch acc)).
  Proof.
    intros Hf l. induction l as [|nb t IH]; intros ch acc Hinv; simpl.
    - rewrite app_nil_r. auto.
    - destruct (Hf nb ch Hinv) as [H1 H2].
      destruct (IH (fst (f nb ch)) (acc ++ snd (f nb ch)) H2) as [H3 H4].
      split; [|exact H4]. rewrite H3, H1, app_assoc. reflexivity.
  Qed.

  Lemma nb_memo_eq n form ic c ch :
    nb_memo conn pI n form ic c ch =
    match c_lookup pI FN_INNER form c (Z.of_nat n + 1) ic ch with
    | Some v => (ch, v)
    | None =>
        let res := match n with
                   | O => (ch, conn c)
                   | S m => union_loop (nb_memo conn pI m FORM_REC true) (conn c) ch []
                   end in
        let raw := zdedup (snd res) in
        let v := if ic then zset c raw else zpop c raw in
        (c_store pI FN_INNER form c (Z.of_nat n + 1) ic v (fst res), v)
    end.
  Proof. destruct n; reflexivity. Qed.

  Lemma lookup_hit cfg fn form c r ic ch v :
    params_of fn = cfg -> Inv ch -> c_lookup cfg fn form c r ic ch = Some v ->
    1 <= r /\ v = nbhd conn (Z.to_nat (r - 1)) ic c.
  Proof.
    intros Hp Hinv. unfold c_lookup. destruct cfg as [ps|]; [|discriminate].
    intros Hg. eapply Inv_hit; eassumption.
  Qed.

  Lemma store_inv cfg fn form c r ic ch :
    params_of fn = cfg -> Inv ch -> 1 <= r ->
    Inv (c_store cfg fn form c r ic (nbhd conn (Z.to_nat (r - 1)) ic c) ch).
  Proof.
    intros Hp Hinv Hr. unfold c_store. destruct cfg as [ps|]; [|exact Hinv].
    apply Inv_store; assumption.
  Qed.

  Lemma nb_memo_ok n : forall form ic c ch, Inv ch ->
    snd (nb_memo conn pI n form ic c ch) = nbhd conn n ic c /\ Inv (fst (nb_memo conn pI n form ic c ch)).
  Proof.
    induction n as [|m IH]; intros form ic c ch Hinv; rewrite nb_memo_eq.
    - destruct (c_lookup pI FN_INNER form c (Z.of_nat 0 + 1) ic ch) as [v|] eqn:Eg.
      + apply (lookup_hit pI FN_INNER) in Eg; [|exact params_inner|exact Hinv].
        destruct Eg as [_ ->]. cbn [fst snd]. auto.
      + cbn [fst snd]. split; [reflexivity|].
        apply (store_inv pI FN_INNER form c (Z.of_nat 0 + 1) ic ch params_inner Hinv). lia.
    - assert (Z.to_nat (Z.of_nat (S m) + 1 - 1) = S m) as En by lia.
      pose proof (union_loop_ok (nb_memo conn pI m FORM_REC true) (nbhd conn m true)
                    (fun nb ch' H => IH FORM_REC true nb ch' H) (conn c) ch [] Hinv) as [Hu1 Hu2].
      simpl app in Hu1.
      assert ((if ic then zset c (zdedup (snd (union_loop (nb_memo conn pI m FORM_REC true) (conn c) ch [])))
               else zpop c (zdedup (snd (union_loop (nb_memo conn pI m FORM_REC true) (conn c) ch []))))
              = nbhd conn (S m) ic c) as Hv.
      { rewrite Hu1. reflexivity. }
      destruct (c_lookup pI FN_INNER form c (Z.of_nat (S m) + 1) ic ch) as [v|] eqn:Eg.
      + apply (lookup_hit pI FN_INNER) in Eg; [|exact params_inner|exact Hinv].
        destruct Eg as [_ ->]. rewrite En. cbn [fst snd]. auto.
      + cbn zeta. cbn [fst snd]. rewrite Hv. split; [reflexivity|].
        rewrite <- En at 2.
        apply (store_inv pI FN_INNER form c (Z.of_nat (S m) + 1) ic _ params_inner Hu2). lia.
  Qed.

  (* what a fresh cell answers *)
  Definition spec_answer (r : Z) (ic : bool) (c : cell) : result (list cell) :=
    if r <? 1 then Err E_RADIUS else Ok (nbhd conn (Z.to_nat (r - 1)) ic c).

  Lemma get_neighborhood_ok form c r ic ch : Inv ch ->
    snd (get_neighborhood conn pI pG form c r ic ch) = spec_answer r ic c /\
    Inv (fst (get_neighborhood conn pI pG form c r ic ch)).
  Proof.
    intros Hinv. unfold get_neighborhood, spec_answer.
    destruct (nb_memo_ok (Z.to_nat (r - 1)) FORM_KW ic c ch Hinv) as [Hm1 Hm2].
    destruct (c_lookup pG FN_GET form c r ic ch) as [v|] eqn:Eg.
    - apply (lookup_hit pG FN_GET) in Eg; [|exact params_get|exact Hinv].
      destruct Eg as [Hr ->]. assert (r <? 1 = false) as -> by lia. cbn [fst snd]. auto.
    - destruct (r <? 1) eqn:Er; cbn zeta; cbn [fst snd]; [auto|].
      rewrite Hm1. split; [reflexivity|].
      apply (store_inv pG FN_GET form c r ic _ params_get Hm2). lia.
  Qed.

  Lemma neighborhood_prop_ok c ch : Inv ch ->
    snd (neighborhood_prop conn pI pG cprop c ch) = spec_answer 1 false c /\
    Inv (fst (neighborhood_prop conn pI pG cprop c ch)).
  Proof.
    intros Hinv. unfold neighborhood_prop.
    destruct (get_neighborhood_ok FORM_NOARGS c 1 false ch Hinv) as [Hg1 Hg2].
    destruct (c_lookup (full_key cprop) FN_PROP 0 c 1 false ch) as [v|] eqn:Eg.
    - apply (lookup_hit (full_key cprop) FN_PROP) in Eg; [|exact params_prop|exact Hinv].
      destruct Eg as [_ ->]. cbn [fst snd]. auto.
    - destruct (get_neighborhood conn pI pG FORM_NOARGS c 1 false ch) as [ch' [v|k]] eqn:E;
        cbn [fst snd] in *; rewrite Hg1; [|auto].
      split; [reflexivity|]. unfold spec_answer in Hg1. simpl in Hg1. inversion Hg1; subst v.
      apply (store_inv (full_key cprop) FN_PROP 0 c 1 false ch' params_prop Hg2). lia.
  Qed.
End NbhdProofs.

(* ------------------------------------------------------------------ histories *)
Section History.
  Variable pI pG : option (list cparam).
  Variable cprop : bool.
  Hypothesis HI : cfg_ok pI = true.
  Hypothesis HG : cfg_ok pG = true.
  Variable sp : space.

  (* the observation a FRESH space (no cache, same connection table) gives for one operation *)
  Definition spec_obs (t : option table) (o : op) : list Z :=
    match o with
    | Build _ => obs_conns (space_conns sp)
    | Nbhd _ c r ic =>
        match t with
        | None => [-2]
        | Some t => if cell_exists t c then obs_result (spec_answer (conn_of t) r ic c) else [-2]
        end
    | NbhdProp c =>
        match t with
        | None => [-2]
        | Some t => if cell_exists t c then obs_result (spec_answer (conn_of t) 1 false c) else [-2]
        end
    end.
  Definition next_tbl (t : option table) (o : op) : option table :=
    match o, t with Build tbl, None => Some tbl | _, _ => t end.
  Fixpoint spec_run (t : option table) (ops : list op) : list (list Z) :=
    match ops with
    | [] => []
    | o :: rest => spec_obs t o :: spec_run (next_tbl t o) rest
    end.

  Definition st_ok (st : state) : Prop :=
    match st_tbl st with
    | None => st_cache st = []
    | Some t => Inv (conn_of t) pI pG cprop (st_cache st)
    end.

  Lemma step_ok st o : st_ok st ->
    snd (step pI pG cprop sp st o) = spec_obs (st_tbl st) o /\
    st_tbl (fst (step pI pG cprop sp st o)) = next_tbl (st_tbl st) o /\
    st_ok (fst (step pI pG cprop sp st o)).
  Proof.
    intros Hok. destruct st as [t ch]. unfold st_ok in *. cbn [st_tbl st_cache] in *.
    destruct o as [tbl|form c r ic|c]; cbn [step spec_obs next_tbl st_tbl st_cache].
    - destruct t as [t|]; cbn [fst snd st_tbl st_cache]; repeat split; auto.
      subst ch. apply Inv_nil.
    - destruct t as [t|]; [|cbn [fst snd st_tbl st_cache]; auto].
      destruct (cell_exists t c); [|cbn [fst snd st_tbl st_cache]; auto].
      destruct (get_neighborhood_ok (conn_of t) pI pG cprop HI HG form c r ic ch Hok) as [H1 H2].
      cbn [fst snd st_tbl st_cache]. rewrite H1. auto.
    - destruct t as [t|]; [|cbn [fst snd st_tbl st_cache]; auto].
      destruct (cell_exists t c); [|cbn [fst snd st_tbl st_cache]; auto].
      destruct (neighborhood_prop_ok (conn_of t) pI pG cprop HI HG c ch Hok) as [H1 H2].
      cbn [fst snd st_tbl st_cache]. rewrite H1. auto.
  Qed.

  Lemma run_ops_ok ops : forall st, st_ok st ->
    run_ops pI pG cprop sp st ops = spec_run (st_tbl st) ops.
  Proof.
    induction ops as [|o rest IH]; intros st Hok; [reflexivity|].
    cbn [run_ops spec_run]. destruct (step_ok st o Hok) as [H1 [H2 H3]].
    rewrite H1, (IH _ H3), H2. reflexivity.
  Qed.

  Lemma run_ops_init ops : run_ops pI pG cprop sp init_state ops = spec_run None ops.
  Proof. apply (run_ops_ok ops init_state). reflexivity. Qed.
End History.

(* the unchanged source recursion in the two corners of DESIGN section 5, rows 5 and 6 *)
Lemma nbhd_src_refuted :
  (exists conn n c, In c (nbhd_src conn n false c)) /\
  (exists conn n c, ~ In c (nbhd_src conn n true c)).
Proof.
  split.
  - exists (fun _ => [0]), 0%nat, 0. vm_compute. left. reflexivity.
  - exists (fun _ => []), 1%nat, 0. vm_compute. intros [].
Qed.
