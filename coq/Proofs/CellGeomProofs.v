(* Lemmas for C07 (Model/CellGeom.v). *)
From Coq Require Import ZArith List Bool Lia Permutation ZifyBool.
From Mesa Require Import Common.ListX Generated.Tables Model.CellGeom.
Import ListNotations.
Open Scope Z_scope.

(* ------------------------------------------------------------------ dict helpers *)
Lemma zeqb_spec : forall a b : Z, (a =? b) = true <-> a = b.
Proof. intros. apply Z.eqb_eq. Qed.

Lemma zmem_In x l : zmem x l = true <-> In x l.
Proof. apply (memb_In Z.eqb zeqb_spec). Qed.
Lemma zdedup_In l x : In x (zdedup l) <-> In x l.
Proof. apply (dedup_first_In Z.eqb zeqb_spec). Qed.
Lemma zdedup_NoDup l : NoDup (zdedup l).
Proof. apply (dedup_first_NoDup Z.eqb zeqb_spec). Qed.
Lemma zpop_In x l y : In y (zpop x l) <-> In y l /\ y <> x.
Proof. apply (remove_key_In Z.eqb zeqb_spec). Qed.
Lemma zpop_NoDup x l : NoDup l -> NoDup (zpop x l).
Proof. apply remove_key_NoDup. Qed.
Lemma zset_In x l y : In y (zset x l) <-> In y l \/ y = x.
Proof.
  unfold zset. destruct (zmem x l) eqn:E.
  - apply zmem_In in E. split; [tauto|]. intros [H| ->]; assumption.
  - rewrite in_app_iff. simpl. split; [intros [H|[H|[]]]; auto|]. intros [H|H]; auto.
Qed.
Lemma zset_NoDup x l : NoDup l -> NoDup (zset x l).
Proof.
  intros H. unfold zset. destruct (zmem x l) eqn:E; [exact H|].
  assert (~ In x l) as Hn by (rewrite <- zmem_In; congruence).
  clear E. induction l as [|y t IH]; simpl.
  - constructor; [intros []|constructor].
  - inversion H; subst. constructor.
    + rewrite in_app_iff. simpl. intros [H4|[H4|[]]]; [tauto|]. subst. apply Hn. left. reflexivity.
    + apply IH; [assumption|]. intros H4. apply Hn. right. exact H4.
Qed.

Lemma zl_eqb_eq a b : zl_eqb a b = true <-> a = b.
Proof.
  revert b. induction a as [|x a IH]; intros [|y b]; simpl; try (split; congruence).
  rewrite andb_true_iff, Z.eqb_eq, IH. split; [intros [-> ->]; reflexivity|].
  intros H; inversion H; auto.
Qed.

(* ================================================================== 1. neighbourhoods *)
Section NbhdProofs.
  Variable conn : cell -> list cell.

  (* d is reached from c by exactly n connection hops *)
  Inductive hops : nat -> cell -> cell -> Prop :=
  | hops_O c : hops 0 c c
  | hops_S n c m d : In m (conn c) -> hops n m d -> hops (S n) c d.

  (* ... by at most r hops *)
  Definition within (r : nat) (c d : cell) : Prop := exists k, (k <= r)%nat /\ hops k c d.

  Lemma hops_0_eq c d : hops 0 c d -> d = c.
  Proof. intros H. inversion H. reflexivity. Qed.

  Lemma hops_1 c d : hops 1 c d <-> In d (conn c).
  Proof.
    split.
    - intros H. inversion H as [|n' c' m0 d' Hin Hrest]; subst. apply hops_0_eq in Hrest. subst. assumption.
    - intros H. econstructor; [exact H|constructor].
  Qed.

  Definition raw (n : nat) (c : cell) : list cell :=
    match n with
    | O => zdedup (conn c)
    | S m => zdedup (flat_map (nbhd conn m true) (conn c))
    end.

  Lemma nbhd_unfold n ic c : nbhd conn n ic c = if ic then zset c (raw n c) else zpop c (raw n c).
  Proof. destruct n; reflexivity. Qed.

  Lemma raw_In n : forall c d, In d (raw n c) <-> exists k, (1 <= k <= S n)%nat /\ hops k c d.
  Proof.
    induction n as [|m IH]; intros c d.
    - simpl. rewrite zdedup_In, <- hops_1. split.
      + intros H. exists 1%nat. split; [lia|exact H].
      + intros [k [Hk H]]. replace k with 1%nat in H by lia. exact H.
    - cbn [raw]. rewrite zdedup_In, in_flat_map. split.
      + intros [nb [Hnb Hd]]. rewrite nbhd_unfold in Hd. apply zset_In in Hd.
        destruct Hd as [Hd| ->].
        * apply IH in Hd. destruct Hd as [k [Hk Hh]]. exists (S k). split; [lia|].
          econstructor; eassumption.
        * exists 1%nat. split; [lia|]. apply hops_1. exact Hnb.
      + intros [k [Hk Hh]]. destruct k as [|k]; [lia|].
        inversion Hh as [|n' c' m0 d' Hin Hrest]; subst. exists m0. split; [assumption|].
        rewrite nbhd_unfold. apply zset_In.
        destruct k as [|k].
        * right. apply hops_0_eq in Hrest. exact Hrest.
        * left. apply IH. exists (S k). split; [lia|exact Hrest].
  Qed.

  (* the main statement, radius = S n *)
  Lemma nbhd_is_ball n ic c d :
    In d (nbhd conn n ic c) <-> (d <> c /\ within (S n) c d) \/ (ic = true /\ d = c).
  Proof.
    rewrite nbhd_unfold. destruct ic.
    - rewrite zset_In, raw_In. split.
      + intros [[k [Hk Hh]]|H].
        * destruct (Z.eq_dec d c) as [E|E]; [right; auto|].
          left. split; [exact E|]. exists k. split; [lia|exact Hh].
        * right. auto.
      + intros [[Hne [k [Hk Hh]]]|[_ H]]; [|right; exact H].
        left. exists k. split; [|exact Hh]. destruct k; [|lia].
        apply hops_0_eq in Hh. contradiction.
    - rewrite zpop_In, raw_In. split.
      + intros [[k [Hk Hh]] Hne]. left. split; [exact Hne|]. exists k. split; [lia|exact Hh].
      + intros [[Hne [k [Hk Hh]]]|[H _]]; [|discriminate].
        split; [|exact Hne]. exists k. split; [|exact Hh]. destruct k; [|lia].
        apply hops_0_eq in Hh. contradiction.
  Qed.

  Lemma raw_NoDup n c : NoDup (raw n c).
  Proof. destruct n; apply zdedup_NoDup. Qed.

  Lemma nbhd_NoDup n ic c : NoDup (nbhd conn n ic c).
  Proof.
    rewrite nbhd_unfold. destruct ic; [apply zset_NoDup|apply zpop_NoDup]; apply raw_NoDup.
  Qed.

  Lemma center_rule n ic c : In c (nbhd conn n ic c) <-> ic = true.
  Proof.
    rewrite nbhd_is_ball. split.
    - intros [[H _]|[H _]]; [contradiction|exact H].
    - intros H. right. auto.
  Qed.

  Lemma within_mono r r' c d : (r <= r')%nat -> within r c d -> within r' c d.
  Proof. intros H [k [Hk Hh]]. exists k. split; [lia|exact Hh]. Qed.

  Lemma nbhd_mono n n' ic c d : (n <= n')%nat -> In d (nbhd conn n ic c) -> In d (nbhd conn n' ic c).
  Proof.
    intros H. rewrite !nbhd_is_ball. intros [[H1 H2]|H1]; [|right; exact H1].
    left. split; [exact H1|]. eapply within_mono; [|exact H2]. lia.
  Qed.

  (* symmetric connections give symmetric neighbourhoods *)
  Lemma hops_snoc n c m d : hops n c m -> In d (conn m) -> hops (S n) c d.
  Proof.
    intros H. revert d. induction H as [c|n c m' e Hin Hh IH]; intros d' Hd.
    - apply hops_1. exact Hd.
    - econstructor; [exact Hin|]. apply IH. exact Hd.
  Qed.

  Lemma hops_sym :
    (forall a b, In b (conn a) -> In a (conn b)) ->
    forall n c d, hops n c d -> hops n d c.
  Proof.
    intros Hs n c d H. induction H as [c|n c m d Hin Hh IH].
    - constructor.
    - eapply hops_snoc; [exact IH|]. apply Hs. exact Hin.
  Qed.

  Lemma nbhd_sym n ic c d :
    (forall a b, In b (conn a) -> In a (conn b)) ->
    In d (nbhd conn n ic c) -> In c (nbhd conn n ic d).
  Proof.
    intros Hs. rewrite !nbhd_is_ball. intros [[H1 [k [Hk Hh]]]|[H1 H2]].
    - left. split; [congruence|]. exists k. split; [exact Hk|]. apply hops_sym; assumption.
    - right. split; [exact H1|congruence].
  Qed.

  (* --- the unchanged source recursion: where it agrees, and the two corners where it does not --- *)
  Lemma nbhd_src_agrees :
    (forall a, conn a <> []) ->
    (forall a, ~ In a (conn a)) ->
    (forall a b, In b (conn a) -> In a (conn b)) ->
    forall n ic c d, In d (nbhd_src conn n ic c) <-> In d (nbhd conn n ic c).
  Proof.
    intros Hne Hns Hsym n. induction n as [|m IH]; intros ic c d.
    - cbn [nbhd_src nbhd]. destruct ic; [reflexivity|].
      rewrite zpop_In, !zdedup_In. split; [|intros [H _]; exact H].
      intros H. split; [exact H|]. intros ->. apply (Hns c). exact H.
    - cbn [nbhd_src nbhd].
      assert (forall x, In x (zdedup (flat_map (nbhd_src conn m true) (conn c))) <->
                        In x (zdedup (flat_map (nbhd conn m true) (conn c)))) as Hraw.
      { intros x. rewrite !zdedup_In, !in_flat_map. split; intros [nb [H1 H2]]; exists nb; split; auto; apply IH; exact H2. }
      destruct ic.
      + rewrite zset_In, Hraw. split; [tauto|]. intros [H| ->]; [exact H|].
        (* c is found back in a neighbour's ball: needs a neighbour and symmetry *)
        rewrite zdedup_In, in_flat_map.
        destruct (conn c) as [|nb t] eqn:E; [exfalso; apply (Hne c); exact E|].
        exists nb. split; [left; reflexivity|].
        assert (In nb (conn c)) as Hnb by (rewrite E; left; reflexivity).
        apply Hsym in Hnb.
        apply nbhd_is_ball. left. split.
        * intros ->. apply (Hns nb). exact Hnb.
        * exists 1%nat. split; [lia|]. apply hops_1. exact Hnb.
      + rewrite !zpop_In, Hraw. reflexivity.
  Qed.

  (* ---------------- memoisation ---------------- *)
  Variable pI pG : option (list cparam).
  Variable cprop : bool.

  Definition cparam_eqb (a b : cparam) : bool :=
    match a, b with
    | CSelf, CSelf | CRadius, CRadius | CCenter, CCenter => true
    | _, _ => false
    end.
  Definition key_complete (ps : list cparam) : bool :=
    forallb (fun p => existsb (cparam_eqb p) ps) [CSelf; CRadius; CCenter].
  Definition cfg_ok (cfg : option (list cparam)) : bool :=
    match cfg with None => true | Some ps => key_complete ps end.

  Hypothesis HI : cfg_ok pI = true.
  Hypothesis HG : cfg_ok pG = true.

  Lemma cparam_in ps p : existsb (cparam_eqb p) ps = true -> In p ps.
  Proof.
    rewrite existsb_exists. intros [g [Hg He]]. destruct p, g; simpl in He; try discriminate; exact Hg.
  Qed.

  Lemma map_eq_pointwise {A B} (f g : A -> B) l : map f l = map g l -> forall x, In x l -> f x = g x.
  Proof.
    induction l as [|a t IH]; simpl; intros H x Hx; [destruct Hx|].
    inversion H. destruct Hx as [<-|Hx]; [assumption|]. apply IH; assumption.
  Qed.

  Lemma key_inj ps fn form c r ic fn' form' c' r' ic' :
    key_complete ps = true ->
    key_of ps fn form c r ic = key_of ps fn' form' c' r' ic' ->
    c = c' /\ r = r' /\ ic = ic'.
  Proof.
    unfold key_complete, key_of. simpl. rewrite !andb_true_iff.
    intros [H1 [H2 [H3 _]]] Hk. inversion Hk as [[Hfn Hform Hm]].
    pose proof (map_eq_pointwise _ _ _ Hm) as Hp.
    pose proof (Hp CSelf (cparam_in _ _ H1)) as E1.
    pose proof (Hp CRadius (cparam_in _ _ H2)) as E2.
    pose proof (Hp CCenter (cparam_in _ _ H3)) as E3.
    simpl in E1, E2, E3. repeat split; try assumption.
    destruct ic, ic'; simpl in E3; try reflexivity; discriminate.
  Qed.

  Definition params_of (fn : Z) : option (list cparam) :=
    if fn =? FN_GET then pG else if fn =? FN_INNER then pI
    else if fn =? FN_PROP then full_key cprop else None.

  Lemma params_complete fn ps : params_of fn = Some ps -> key_complete ps = true.
  Proof.
    unfold params_of. destruct (fn =? FN_GET); [intros E; rewrite E in HG; exact HG|].
    destruct (fn =? FN_INNER); [intros E; rewrite E in HI; exact HI|].
    destruct (fn =? FN_PROP); [|discriminate].
    unfold full_key. destruct cprop; [|discriminate]. intros [= <-]. reflexivity.
  Qed.

  (* every cache entry holds the value a fresh evaluation gives for the arguments its key names *)
  Definition Inv (ch : cache) : Prop :=
    forall k v, cache_get k ch = Some v ->
      exists fn form c r ic ps,
        params_of fn = Some ps /\ k = key_of ps fn form c r ic /\ 1 <= r /\
        v = nbhd conn (Z.to_nat (r - 1)) ic c.

  Lemma Inv_nil : Inv [].
  Proof. intros k v H. discriminate. Qed.

  Lemma Inv_hit ch fn form c r ic ps v :
    Inv ch -> params_of fn = Some ps ->
    cache_get (key_of ps fn form c r ic) ch = Some v ->
    1 <= r /\ v = nbhd conn (Z.to_nat (r - 1)) ic c.
  Proof.
    intros Hinv Hps Hget. destruct (Hinv _ _ Hget) as [fn' [form' [c' [r' [ic' [ps' [Hps' [Hk [Hr Hv]]]]]]]]].
    assert (fn = fn') as <- by (unfold key_of in Hk; inversion Hk; reflexivity).
    rewrite Hps in Hps'. inversion Hps'; subst ps'.
    apply key_inj in Hk; [|eapply params_complete; exact Hps].
    destruct Hk as [-> [-> ->]]. auto.
  Qed.

  Lemma Inv_store ch fn form c r ic ps :
    Inv ch -> params_of fn = Some ps -> 1 <= r ->
    Inv ((key_of ps fn form c r ic, nbhd conn (Z.to_nat (r - 1)) ic c) :: ch).
  Proof.
    intros Hinv Hps Hr k v. simpl.
    destruct (zl_eqb k (key_of ps fn form c r ic)) eqn:E.
    - apply zl_eqb_eq in E. intros [= <-]. exists fn, form, c, r, ic, ps. auto.
    - apply Hinv.
  Qed.

  Lemma params_inner : params_of FN_INNER = pI.
  Proof. reflexivity. Qed.
  Lemma params_get : params_of FN_GET = pG.
  Proof. reflexivity. Qed.
  Lemma params_prop : params_of FN_PROP = full_key cprop.
  Proof. reflexivity. Qed.

  Lemma union_loop_ok (f : cell -> cache -> cache * list cell) (g : cell -> list cell) :
    (forall nb ch, Inv ch -> snd (f nb ch) = g nb /\ Inv (fst (f nb ch))) ->
    forall l ch acc, Inv ch ->
      snd (union_loop f l ch acc) = acc ++ flat_map g l /\ Inv (fst (union_loop f l ch acc)).
  Proof.
    intros Hf l. induction l as [|nb t IH]; intros ch acc Hinv; simpl.
    - rewrite app_nil_r. auto.
    - destruct (Hf nb ch Hinv) as [H1 H2].
      destruct (IH (fst (f nb ch)) (acc ++ snd (f nb ch)) H2) as [H3 H4].
      split; [|exact H4]. rewrite H3, H1, app_assoc. reflexivity.
  Qed.

  Lemma nb_memo_eq n form ic c ch :
    nb_memo conn pI n form ic c ch =
    match c_lookup pI FN_INNER form c (Z.of_nat n + 1) ic ch with
    | Some v => (ch, v)
    | None =>
        let res := match n with
                   | O => (ch, conn c)
                   | S m => union_loop (nb_memo conn pI m FORM_REC true) (conn c) ch []
                   end in
        let raw := zdedup (snd res) in
        let v := if ic then zset c raw else zpop c raw in
        (c_store pI FN_INNER form c (Z.of_nat n + 1) ic v (fst res), v)
    end.
  Proof. destruct n; reflexivity. Qed.

  Lemma lookup_hit cfg fn form c r ic ch v :
    params_of fn = cfg -> Inv ch -> c_lookup cfg fn form c r ic ch = Some v ->
    1 <= r /\ v = nbhd conn (Z.to_nat (r - 1)) ic c.
  Proof.
    intros Hp Hinv. unfold c_lookup. destruct cfg as [ps|]; [|discriminate].
    intros Hg. eapply Inv_hit; eassumption.
  Qed.

  Lemma store_inv cfg fn form c r ic ch :
    params_of fn = cfg -> Inv ch -> 1 <= r ->
    Inv (c_store cfg fn form c r ic (nbhd conn (Z.to_nat (r - 1)) ic c) ch).
  Proof.
    intros Hp Hinv Hr. unfold c_store. destruct cfg as [ps|]; [|exact Hinv].
    apply Inv_store; assumption.
  Qed.

  Lemma nb_memo_ok n : forall form ic c ch, Inv ch ->
    snd (nb_memo conn pI n form ic c ch) = nbhd conn n ic c /\ Inv (fst (nb_memo conn pI n form ic c ch)).
  Proof.
    induction n as [|m IH]; intros form ic c ch Hinv; rewrite nb_memo_eq.
    - destruct (c_lookup pI FN_INNER form c (Z.of_nat 0 + 1) ic ch) as [v|] eqn:Eg.
      + apply (lookup_hit pI FN_INNER) in Eg; [|exact params_inner|exact Hinv].
        destruct Eg as [_ ->]. cbn [fst snd]. auto.
      + cbn [fst snd]. split; [reflexivity|].
        apply (store_inv pI FN_INNER form c (Z.of_nat 0 + 1) ic ch params_inner Hinv). lia.
    - assert (Z.to_nat (Z.of_nat (S m) + 1 - 1) = S m) as En by lia.
      pose proof (union_loop_ok (nb_memo conn pI m FORM_REC true) (nbhd conn m true)
                    (fun nb ch' H => IH FORM_REC true nb ch' H) (conn c) ch [] Hinv) as [Hu1 Hu2].
      simpl app in Hu1.
      assert ((if ic then zset c (zdedup (snd (union_loop (nb_memo conn pI m FORM_REC true) (conn c) ch [])))
               else zpop c (zdedup (snd (union_loop (nb_memo conn pI m FORM_REC true) (conn c) ch []))))
              = nbhd conn (S m) ic c) as Hv.
      { rewrite Hu1. reflexivity. }
      destruct (c_lookup pI FN_INNER form c (Z.of_nat (S m) + 1) ic ch) as [v|] eqn:Eg.
      + apply (lookup_hit pI FN_INNER) in Eg; [|exact params_inner|exact Hinv].
        destruct Eg as [_ ->]. rewrite En. cbn [fst snd]. auto.
      + cbn zeta. cbn [fst snd]. rewrite Hv. split; [reflexivity|].
        rewrite <- En at 2.
        apply (store_inv pI FN_INNER form c (Z.of_nat (S m) + 1) ic _ params_inner Hu2). lia.
  Qed.

  (* what a fresh cell answers *)
  Definition spec_answer (r : Z) (ic : bool) (c : cell) : result (list cell) :=
    if r <? 1 then Err E_RADIUS else Ok (nbhd conn (Z.to_nat (r - 1)) ic c).

  Lemma get_neighborhood_ok form c r ic ch : Inv ch ->
    snd (get_neighborhood conn pI pG form c r ic ch) = spec_answer r ic c /\
    Inv (fst (get_neighborhood conn pI pG form c r ic ch)).
  Proof.
    intros Hinv. unfold get_neighborhood, spec_answer.
    destruct (nb_memo_ok (Z.to_nat (r - 1)) FORM_KW ic c ch Hinv) as [Hm1 Hm2].
    destruct (c_lookup pG FN_GET form c r ic ch) as [v|] eqn:Eg.
    - apply (lookup_hit pG FN_GET) in Eg; [|exact params_get|exact Hinv].
      destruct Eg as [Hr ->]. assert (r <? 1 = false) as -> by lia. cbn [fst snd]. auto.
    - destruct (r <? 1) eqn:Er; cbn zeta; cbn [fst snd]; [auto|].
      rewrite Hm1. split; [reflexivity|].
      apply (store_inv pG FN_GET form c r ic _ params_get Hm2). lia.
  Qed.

  Lemma neighborhood_prop_ok c ch : Inv ch ->
    snd (neighborhood_prop conn pI pG cprop c ch) = spec_answer 1 false c /\
    Inv (fst (neighborhood_prop conn pI pG cprop c ch)).
  Proof.
    intros Hinv. unfold neighborhood_prop.
    destruct (get_neighborhood_ok FORM_NOARGS c 1 false ch Hinv) as [Hg1 Hg2].
    destruct (c_lookup (full_key cprop) FN_PROP 0 c 1 false ch) as [v|] eqn:Eg.
    - apply (lookup_hit (full_key cprop) FN_PROP) in Eg; [|exact params_prop|exact Hinv].
      destruct Eg as [_ ->]. cbn [fst snd]. auto.
    - destruct (get_neighborhood conn pI pG FORM_NOARGS c 1 false ch) as [ch' [v|k]] eqn:E;
        cbn [fst snd] in *; rewrite Hg1; [|auto].
      split; [reflexivity|]. unfold spec_answer in Hg1. simpl in Hg1. inversion Hg1; subst v.
      apply (store_inv (full_key cprop) FN_PROP 0 c 1 false ch' params_prop Hg2). lia.
  Qed.
End NbhdProofs.

(* ------------------------------------------------------------------ histories *)
Section History.
  Variable pI pG : option (list cparam).
  Variable cprop : bool.
  Hypothesis HI : cfg_ok pI = true.
  Hypothesis HG : cfg_ok pG = true.
  Variable sp : space.

  (* the observation a FRESH space (no cache, same connection table, same agents) gives for one operation *)
  Definition spec_obs (t : option table) (ag : placement) (o : op) : list Z :=
    match o with
    | Build _ => obs_conns (space_conns sp)
    | Nbhd _ c r ic =>
        match t with
        | None => [-2]
        | Some t => if cell_exists t c then obs_result (spec_answer (conn_of t) r ic c) else [-2]
        end
    | NbhdProp c =>
        match t with
        | None => [-2]
        | Some t => if cell_exists t c then obs_result (spec_answer (conn_of t) 1 false c) else [-2]
        end
    | Cert tris => obs_cert sp tris
    | Place a c =>
        match t with
        | None => [-2]
        | Some t => if cell_exists t c then obs_set (agents_at (place ag a c) c) else [-2]
        end
    | NbhdAgents _ c r ic =>
        match t with
        | None => [-2]
        | Some t => if cell_exists t c then obs_collection ag (spec_answer (conn_of t) r ic c) else [-2]
        end
    end.
  Definition next_tbl (t : option table) (o : op) : option table :=
    match o, t with Build tbl, None => Some tbl | _, _ => t end.
  Definition next_agents (t : option table) (ag : placement) (o : op) : placement :=
    match o, t with
    | Place a c, Some t => if cell_exists t c then place ag a c else ag
    | _, _ => ag
    end.
  Fixpoint spec_run (t : option table) (ag : placement) (ops : list op) : list (list Z) :=
    match ops with
    | [] => []
    | o :: rest => spec_obs t ag o :: spec_run (next_tbl t o) (next_agents t ag o) rest
    end.

  Definition st_ok (st : state) : Prop :=
    match st_tbl st with
    | None => st_cache st = []
    | Some t => Inv (conn_of t) pI pG cprop (st_cache st)
    end.

  Lemma step_ok st o : st_ok st ->
    snd (step pI pG cprop sp st o) = spec_obs (st_tbl st) (st_agents st) o /\
    st_tbl (fst (step pI pG cprop sp st o)) = next_tbl (st_tbl st) o /\
    st_agents (fst (step pI pG cprop sp st o)) = next_agents (st_tbl st) (st_agents st) o /\
    st_ok (fst (step pI pG cprop sp st o)).
  Proof.
    intros Hok. destruct st as [t ch ag]. unfold st_ok in *. cbn [st_tbl st_cache st_agents] in *.
    destruct o as [tbl|form c r ic|c|tris|a c|form c r ic];
      cbn [step spec_obs next_tbl next_agents st_tbl st_cache st_agents].
    - destruct t as [t|]; cbn [fst snd st_tbl st_cache st_agents]; repeat split; auto.
      subst ch. apply Inv_nil.
    - destruct t as [t|]; [|cbn [fst snd st_tbl st_cache st_agents]; auto].
      destruct (cell_exists t c); [|cbn [fst snd st_tbl st_cache st_agents]; auto].
      destruct (get_neighborhood_ok (conn_of t) pI pG cprop HI HG form c r ic ch Hok) as [H1 H2].
      cbn [fst snd st_tbl st_cache st_agents]. rewrite H1. auto.
    - destruct t as [t|]; [|cbn [fst snd st_tbl st_cache st_agents]; auto].
      destruct (cell_exists t c); [|cbn [fst snd st_tbl st_cache st_agents]; auto].
      destruct (neighborhood_prop_ok (conn_of t) pI pG cprop HI HG c ch Hok) as [H1 H2].
      cbn [fst snd st_tbl st_cache st_agents]. rewrite H1. auto.
    - cbn [fst snd st_tbl st_cache st_agents]. destruct t; auto.
    - destruct t as [t|]; [|cbn [fst snd st_tbl st_cache st_agents]; auto].
      destruct (cell_exists t c); cbn [fst snd st_tbl st_cache st_agents]; auto.
    - destruct t as [t|]; [|cbn [fst snd st_tbl st_cache st_agents]; auto].
      destruct (cell_exists t c); [|cbn [fst snd st_tbl st_cache st_agents]; auto].
      destruct (get_neighborhood_ok (conn_of t) pI pG cprop HI HG form c r ic ch Hok) as [H1 H2].
      cbn [fst snd st_tbl st_cache st_agents]. rewrite H1. auto.
  Qed.

  Lemma run_ops_ok ops : forall st, st_ok st ->
    run_ops pI pG cprop sp st ops = spec_run (st_tbl st) (st_agents st) ops.
  Proof.
    induction ops as [|o rest IH]; intros st Hok; [reflexivity|].
    cbn [run_ops spec_run]. destruct (step_ok st o Hok) as [H1 [H2 [H3 H4]]].
    rewrite H1, (IH _ H4), H2, H3. reflexivity.
  Qed.

  Lemma run_ops_init ops : run_ops pI pG cprop sp init_state ops = spec_run None [] ops.
  Proof. apply (run_ops_ok ops init_state). reflexivity. Qed.
End History.

(* CellCollection.agents of a neighbourhood: exactly the agents that are in its cells now *)
Lemma agents_at_In ag c a : In a (agents_at ag c) <-> In (a, c) ag.
Proof.
  unfold agents_at. rewrite in_map_iff. split.
  - intros [[a' c'] [E H]]. apply filter_In in H. destruct H as [H1 H2]. simpl in *. apply Z.eqb_eq in H2. subst. exact H1.
  - intros H. exists (a, c). split; [reflexivity|]. apply filter_In. split; [exact H|]. simpl. apply Z.eqb_refl.
Qed.

Lemma agents_in_spec ag cells a : In a (agents_in ag cells) <-> exists c, In c cells /\ In (a, c) ag.
Proof.
  unfold agents_in. rewrite in_flat_map. split; intros [c [H1 H2]]; exists c; split; auto; apply agents_at_In; exact H2.
Qed.

(* an agent is in exactly one cell: the one it entered last *)
Lemma place_In ag a c a' c' : In (a', c') (place ag a c) <-> (a' = a /\ c' = c) \/ (a' <> a /\ In (a', c') ag).
Proof.
  unfold place. rewrite in_app_iff, filter_In. simpl. rewrite negb_true_iff, Z.eqb_neq. split.
  - intros [[H1 H2]|[H|[]]]; [right; auto|]. inversion H; subst. left. auto.
  - intros [[-> ->]|[H1 H2]]; [right; left; reflexivity|left; auto].
Qed.

Definition single_valued (ag : placement) : Prop := forall a c c', In (a, c) ag -> In (a, c') ag -> c = c'.
Lemma place_single_valued ag a c : single_valued ag -> single_valued (place ag a c).
Proof.
  intros H x c1 c2 H1 H2. apply place_In in H1. apply place_In in H2.
  destruct H1 as [[E1 ->]|[N1 I1]], H2 as [[E2 ->]|[N2 I2]]; try congruence. eapply H; eassumption.
Qed.


(* the unchanged source recursion in the two corners of DESIGN section 5, rows 5 and 6 *)
Lemma nbhd_src_refuted :
  (exists conn n c, In c (nbhd_src conn n false c)) /\
  (exists conn n c, ~ In c (nbhd_src conn n true c)).
Proof.
  split.
  - exists (fun _ => [0]), 0%nat, 0. vm_compute. left. reflexivity.
  - exists (fun _ => []), 1%nat, 0. vm_compute. intros [].
Qed.

(* ================================================================== 2. grids: offsets *)
Definition norm_inf (d : coord) : Z := fold_right (fun x acc => Z.max (Z.abs x) acc) 0 d.
Definition norm_1 (d : coord) : Z := fold_right (fun x acc => Z.abs x + acc) 0 d.

Lemma nodup_app {A} (a b : list A) :
  NoDup a -> NoDup b -> (forall x, In x a -> ~ In x b) -> NoDup (a ++ b).
Proof.
  induction a as [|x a IH]; simpl; intros Ha Hb Hd; [exact Hb|].
  inversion Ha; subst. constructor.
  - rewrite in_app_iff. intros [H|H]; [contradiction|]. apply (Hd x); auto.
  - apply IH; auto.
Qed.

Lemma nodup_flat_map {A B} (f : A -> list B) l :
  NoDup l -> (forall x, In x l -> NoDup (f x)) ->
  (forall x y z, In x l -> In y l -> In z (f x) -> In z (f y) -> x = y) ->
  NoDup (flat_map f l).
Proof.
  induction l as [|a l IH]; simpl; intros Hnd Hf Hdis; [constructor|].
  inversion Hnd; subst. apply nodup_app.
  - apply Hf. left. reflexivity.
  - apply IH; auto. intros x y z Hx Hy. apply Hdis; auto.
  - intros z Hz Hz'. apply in_flat_map in Hz'. destruct Hz' as [y [Hy Hzy]].
    assert (a = y) by (apply (Hdis a y z); auto). subst. contradiction.
Qed.

Lemma nodup_map_cons (x : Z) (l : list coord) : NoDup l -> NoDup (map (cons x) l).
Proof.
  induction l as [|a l IH]; simpl; intros H; [constructor|]. inversion H; subst. constructor; [|auto].
  rewrite in_map_iff. intros [b [Hb Hin]]. inversion Hb; subst. contradiction.
Qed.

Lemma product_In l : forall d, In d (product_ l) <-> Forall2 (fun x xs => In x xs) d l.
Proof.
  induction l as [|h t IH]; intros d; simpl.
  - split; [intros [<-|[]]; constructor|]. intros H. inversion H. left. reflexivity.
  - rewrite in_flat_map. split.
    + intros [x [Hx Hd]]. apply in_map_iff in Hd. destruct Hd as [t' [<- Ht]].
      constructor; [exact Hx|]. apply IH. exact Ht.
    + intros H. inversion H as [|x xs d' l' Hx Hrest]; subst. exists x. split; [exact Hx|].
      apply in_map_iff. exists d'. split; [reflexivity|]. apply IH. exact Hrest.
Qed.

Lemma product_NoDup l : Forall (fun ax => NoDup ax) l -> NoDup (product_ l).
Proof.
  induction l as [|h t IH]; simpl; intros H.
  - constructor; [intros []|constructor].
  - inversion H; subst. apply nodup_flat_map; auto.
    + intros x _. apply nodup_map_cons. auto.
    + intros x y z _ _ Hx Hy. apply in_map_iff in Hx. apply in_map_iff in Hy.
      destruct Hx as [a [<- _]]. destruct Hy as [b [Hb _]]. inversion Hb. reflexivity.
Qed.

Lemma Forall2_repeat (s : list Z) n d :
  Forall2 (fun x xs => In x xs) d (repeat s n) <-> length d = n /\ Forall (fun x => In x s) d.
Proof.
  revert d. induction n as [|n IH]; intros d; simpl.
  - split.
    + intros H. inversion H. split; [reflexivity|constructor].
    + intros [H _]. destruct d; [constructor|discriminate].
  - split.
    + intros H. inversion H as [|x xs d' l' Hx Hrest]; subst. apply IH in Hrest. destruct Hrest as [H1 H2].
      simpl. split; [congruence|]. constructor; assumption.
    + intros [H1 H2]. destruct d as [|x d']; [discriminate|]. inversion H2; subst.
      constructor; [assumption|]. apply IH. split; [simpl in H1; congruence|assumption].
Qed.

Lemma remove_first_In x l y : NoDup l -> (In y (remove_first x l) <-> In y l /\ y <> x).
Proof.
  induction l as [|a l IH]; simpl; intros Hnd; [tauto|].
  inversion Hnd as [|a' l' Hnotin Hnd']; subst.
  destruct (zl_eqb x a) eqn:E.
  - apply zl_eqb_eq in E. subst a. split.
    + intros H. split; [right; exact H|]. intros ->. contradiction.
    + intros [[H|H] Hne]; [congruence|exact H].
  - assert (x <> a) as Hxa by (intros ->; rewrite (proj2 (zl_eqb_eq a a) eq_refl) in E; discriminate).
    simpl. rewrite IH by assumption. split.
    + intros [H|[Hy1 Hy2]]; [subst; split; [left; reflexivity|congruence]|tauto].
    + intros [[H|H] Hne]; [left; exact H|right; tauto].
Qed.

Lemma remove_first_NoDup x l : NoDup l -> NoDup (remove_first x l).
Proof.
  induction l as [|a l IH]; simpl; intros Hnd; [constructor|].
  inversion Hnd as [|a' l' Hnotin Hnd']; subst.
  destruct (zl_eqb x a); [assumption|]. constructor; [|auto].
  rewrite remove_first_In by assumption. tauto.
Qed.

Lemma in_unit3 x : In x [-1; 0; 1] <-> -1 <= x <= 1.
Proof. simpl. lia. Qed.

Lemma unit3_NoDup : NoDup [-1; 0; 1].
Proof. repeat constructor; simpl; intuition discriminate. Qed.

Lemma moore_offsets_In n d :
  In d (moore_offsets n) <-> length d = n /\ Forall (fun x => -1 <= x <= 1) d /\ d <> repeat 0 n.
Proof.
  unfold moore_offsets. rewrite remove_first_In.
  - rewrite product_In, Forall2_repeat. rewrite Forall_forall.
    setoid_rewrite in_unit3. rewrite <- Forall_forall. tauto.
  - apply product_NoDup. clear. induction n; simpl; constructor; [exact unit3_NoDup|assumption].
Qed.

Lemma moore_offsets_NoDup n : NoDup (moore_offsets n).
Proof.
  unfold moore_offsets. apply remove_first_NoDup. apply product_NoDup.
  induction n; simpl; constructor; [exact unit3_NoDup|assumption].
Qed.

Lemma norm_inf_nonneg d : 0 <= norm_inf d.
Proof. induction d; simpl; lia. Qed.

Lemma norm_inf_le1 d : norm_inf d <= 1 <-> Forall (fun x => -1 <= x <= 1) d.
Proof.
  induction d as [|x d IH]; simpl.
  - split; [constructor|lia].
  - pose proof (norm_inf_nonneg d). split.
    + intros Hm. constructor; [lia|]. apply IH. lia.
    + intros Hf. inversion Hf; subst. apply IH in H3. lia.
Qed.

Lemma norm_inf_zero d : norm_inf d = 0 <-> d = repeat 0 (length d).
Proof.
  induction d as [|x d IH]; simpl; [tauto|].
  pose proof (norm_inf_nonneg d). split.
  - intros Hm. assert (x = 0) by lia. assert (norm_inf d = 0) as Hd by lia.
    apply IH in Hd. congruence.
  - intros He. injection He as Hx Hd. apply IH in Hd. rewrite Hd, Hx. lia.
Qed.

(* the n-D Moore construction = the offsets of Chebyshev norm 1 *)
Lemma moore_offsets_spec n d : In d (moore_offsets n) <-> length d = n /\ norm_inf d = 1.
Proof.
  rewrite moore_offsets_In. pose proof (norm_inf_nonneg d) as Hnn.
  pose proof (norm_inf_le1 d) as Hle. pose proof (norm_inf_zero d) as Hz. split.
  - intros [Hl [Hf Hne]]. split; [exact Hl|]. apply Hle in Hf.
    assert (norm_inf d <> 0) by (intros E; apply Hz in E; rewrite Hl in E; contradiction). lia.
  - intros [Hl Hn]. split; [exact Hl|]. split; [apply Hle; lia|].
    intros E. rewrite <- Hl in E. apply Hz in E. lia.
Qed.

(* --- von Neumann --- *)
Lemma set_nth_length i v l : length (set_nth i v l) = length l.
Proof. revert i. induction l as [|x l IH]; intros [|i]; simpl; auto. Qed.

Lemma nth_set_nth_same i v l : (i < length l)%nat -> nth i (set_nth i v l) 0 = v.
Proof. revert i. induction l as [|x l IH]; intros [|i]; simpl; intros H; try lia; auto. apply IH. lia. Qed.

Lemma nth_set_nth_other i j v l : i <> j -> nth i (set_nth j v l) 0 = nth i l 0.
Proof.
  revert i j. induction l as [|x l IH]; intros [|i] [|j]; simpl; intros H; try congruence; auto.
Qed.

Lemma nth_zeros i n : nth i (repeat 0 n) 0 = 0.
Proof. revert i. induction n; intros [|i]; simpl; auto. Qed.

Lemma norm_1_nonneg d : 0 <= norm_1 d.
Proof. induction d; simpl; lia. Qed.

Lemma norm_1_zero d : norm_1 d = 0 <-> d = repeat 0 (length d).
Proof.
  induction d as [|x d IH]; simpl; [tauto|].
  pose proof (norm_1_nonneg d). split.
  - intros Hm. assert (x = 0) by lia. assert (norm_1 d = 0) as Hd by lia.
    apply IH in Hd. congruence.
  - intros He. injection He as Hx Hd. apply IH in Hd. rewrite Hd, Hx. lia.
Qed.

Lemma norm_1_zeros n : norm_1 (repeat 0 n) = 0.
Proof. induction n; simpl; lia. Qed.

Lemma norm_1_unit i v n : (i < n)%nat -> norm_1 (set_nth i v (repeat 0 n)) = Z.abs v.
Proof.
  revert i. induction n as [|n IH]; intros [|i] H; simpl; try lia.
  - rewrite norm_1_zeros. lia.
  - rewrite IH by lia. lia.
Qed.

Lemma norm_1_one_unit d :
  norm_1 d = 1 -> exists i v, (i < length d)%nat /\ (v = -1 \/ v = 1) /\ d = set_nth i v (repeat 0 (length d)).
Proof.
  induction d as [|x d IH]; simpl; intros H; [lia|].
  pose proof (norm_1_nonneg d) as Hnn.
  destruct (Z.eq_dec x 0) as [->|Hx].
  - destruct IH as [i [v [Hi [Hv Hd]]]]; [lia|].
    exists (S i), v. split; [lia|]. split; [exact Hv|]. simpl. congruence.
  - assert (norm_1 d = 0) as Hd by lia. apply norm_1_zero in Hd.
    exists 0%nat, x. split; [lia|]. split; [lia|]. simpl. congruence.
Qed.

Lemma vn_offsets_In n d :
  In d (vn_offsets n) <->
  exists i v, (i < n)%nat /\ (v = -1 \/ v = 1) /\ d = set_nth i v (repeat 0 n).
Proof.
  unfold vn_offsets. rewrite in_flat_map. split.
  - intros [i [Hi Hd]]. apply in_seq in Hi. simpl in Hd.
    destruct Hd as [<-|[<-|[]]]; [exists i, (-1)|exists i, 1]; (split; [lia|]); auto.
  - intros [i [v [Hi [Hv ->]]]]. exists i. split; [apply in_seq; lia|]. simpl.
    destruct Hv as [-> | ->]; auto.
Qed.

(* the n-D von Neumann construction = the offsets of Manhattan norm 1 *)
Lemma vn_offsets_spec n d : In d (vn_offsets n) <-> length d = n /\ norm_1 d = 1.
Proof.
  rewrite vn_offsets_In. split.
  - intros [i [v [Hi [Hv ->]]]]. rewrite set_nth_length, repeat_length. split; [reflexivity|].
    rewrite norm_1_unit by exact Hi. lia.
  - intros [Hl Hn]. apply norm_1_one_unit in Hn. rewrite Hl in Hn. exact Hn.
Qed.

Lemma vn_offsets_NoDup n : NoDup (vn_offsets n).
Proof.
  unfold vn_offsets. apply nodup_flat_map.
  - apply seq_NoDup.
  - intros i Hi. apply in_seq in Hi. simpl. constructor; [|constructor; [intros []|constructor]].
    simpl. intros [H|[]].
    assert (nth i (set_nth i 1 (repeat 0 n)) 0 = nth i (set_nth i (-1) (repeat 0 n)) 0) as E by (rewrite H; reflexivity).
    rewrite !nth_set_nth_same in E by (rewrite repeat_length; lia). discriminate.
  - intros i j z Hi Hj Hzi Hzj. apply in_seq in Hi. apply in_seq in Hj.
    destruct (Nat.eq_dec i j) as [E|E]; [exact E|exfalso].
    assert (nth i z 0 <> 0) as H1.
    { simpl in Hzi. destruct Hzi as [<-|[<-|[]]]; rewrite nth_set_nth_same by (rewrite repeat_length; lia); discriminate. }
    apply H1. simpl in Hzj. destruct Hzj as [<-|[<-|[]]]; rewrite nth_set_nth_other by exact E; apply nth_zeros.
Qed.

(* closed under negation *)
Lemma norm_inf_opp d : norm_inf (map Z.opp d) = norm_inf d.
Proof. induction d; simpl; [reflexivity|]. rewrite IHd. lia. Qed.
Lemma norm_1_opp d : norm_1 (map Z.opp d) = norm_1 d.
Proof. induction d; simpl; [reflexivity|]. rewrite IHd. lia. Qed.

Lemma moore_offsets_opp n d : In d (moore_offsets n) -> In (map Z.opp d) (moore_offsets n).
Proof. rewrite !moore_offsets_spec, map_length, norm_inf_opp. tauto. Qed.
Lemma vn_offsets_opp n d : In d (vn_offsets n) -> In (map Z.opp d) (vn_offsets n).
Proof. rewrite !vn_offsets_spec, map_length, norm_1_opp. tauto. Qed.

(* ================================================================== 2b. grids: connecting *)
Definition wrap (dims : list Z) (c : coord) : coord := zip_with Z.modulo c dims.
Definition vadd (c d : coord) : coord := zip_with Z.add c d.

(* every coordinate inside its axis *)
Lemma in_bounds_spec dims c : length c = length dims ->
  (in_bounds dims c = true <-> Forall2 (fun x n => 0 <= x < n) c dims).
Proof.
  revert dims. induction c as [|x c IH]; intros [|n dims] Hl; simpl in *; try discriminate.
  - split; [constructor|reflexivity].
  - unfold in_bounds in *. simpl. rewrite !andb_true_iff, IH by congruence. split.
    + intros [[H1 H2] H3]. constructor; [lia|exact H3].
    + intros H. inversion H; subst. split; [lia|assumption].
Qed.

(* connection under offset d: to c+d, wrapped on a torus, absent beyond the edge *)
Lemma connect_nd_spec torus dims c d c' :
  connect_nd torus dims c d = Some c' <->
  c' = (if torus then wrap dims (vadd c d) else vadd c d) /\ in_bounds dims c' = true.
Proof.
  unfold connect_nd, wrap, vadd. destruct torus.
  - destruct (in_bounds dims (zip_with Z.modulo (zip_with Z.add c d) dims)) eqn:E.
    + split; [intros [= <-]; auto|intros [-> _]; reflexivity].
    + split; [discriminate|intros [-> H]; congruence].
  - destruct (in_bounds dims (zip_with Z.add c d)) eqn:E.
    + split; [intros [= <-]; auto|intros [-> _]; reflexivity].
    + split; [discriminate|intros [-> H]; congruence].
Qed.

(* the 2-D helper is the n-D one on two axes *)
Lemma connect_2d_eq_nd torus h w i j di dj :
  connect_2d torus [h; w] [i; j] (di, dj) = connect_nd torus [h; w] [i; j] [di; dj].
Proof.
  unfold connect_2d, connect_nd, in_bounds. destruct torus; simpl;
    repeat match goal with |- context [?a <=? ?b] => destruct (a <=? b) end;
    repeat match goal with |- context [?a <? ?b] => destruct (a <? b) end; reflexivity.
Qed.

Lemma zip_length {A B C} (f : A -> B -> C) a b : length a = length b -> length (zip_with f a b) = length a.
Proof. revert b. induction a; intros [|y b]; simpl; intros H; try discriminate; auto. Qed.

Lemma back_torus c : forall d dims, length c = length d -> length c = length dims ->
  in_bounds dims c = true ->
  wrap dims (vadd (wrap dims (vadd c d)) (map Z.opp d)) = c.
Proof.
  unfold wrap, vadd, in_bounds.
  induction c as [|x c IH]; intros [|y d] [|n dims] H1 H2 Hb; simpl in *; try discriminate; [reflexivity|].
  rewrite !andb_true_iff in Hb. destruct Hb as [[Hb1 Hb2] Hb3]. f_equal.
  - rewrite Z.add_mod_idemp_l by lia. replace (x + y + - y) with x by lia. apply Z.mod_small. lia.
  - apply IH; auto.
Qed.

Lemma back_plain c : forall d, length c = length d -> vadd (vadd c d) (map Z.opp d) = c.
Proof.
  unfold vadd. induction c as [|x c IH]; intros [|y d] H; simpl in *; try discriminate; [reflexivity|].
  f_equal; [lia|auto].
Qed.

(* connection is symmetric: the target is connected back under the opposite offset, for every
   dimension vector (sizes 1 and 2 included), torus or not *)
Lemma connect_nd_symmetric torus dims c d c' :
  length c = length dims -> length d = length dims -> in_bounds dims c = true ->
  connect_nd torus dims c d = Some c' ->
  connect_nd torus dims c' (map Z.opp d) = Some c.
Proof.
  intros Hc Hd Hb H. apply connect_nd_spec in H. destruct H as [-> Hb']. apply connect_nd_spec.
  destruct torus.
  - split; [|exact Hb]. symmetry. apply back_torus; congruence.
  - split; [|exact Hb]. symmetry. apply back_plain. congruence.
Qed.

(* targets of connections are cells of the grid *)
Lemma connect_nd_in_bounds torus dims c d c' : connect_nd torus dims c d = Some c' -> in_bounds dims c' = true.
Proof. intros H. apply connect_nd_spec in H. tauto. Qed.

Lemma conns_nd_In torus dims offsets c d c' :
  In (d, c') (conns_nd torus dims offsets c) <-> In d offsets /\ connect_nd torus dims c d = Some c'.
Proof.
  unfold conns_nd. rewrite in_flat_map. split.
  - intros [d0 [Hd0 Hin]]. destruct (connect_nd torus dims c d0) as [n|] eqn:E; [|destruct Hin].
    destruct Hin as [[= <- <-]|[]]. auto.
  - intros [Hd Hc]. exists d. split; [exact Hd|]. rewrite Hc. left. reflexivity.
Qed.

(* no key is written twice: the keys of one cell's connections are distinct *)
Lemma conns_nd_keys_NoDup torus dims offsets c :
  NoDup offsets -> NoDup (map fst (conns_nd torus dims offsets c)).
Proof.
  unfold conns_nd. induction offsets as [|d t IH]; simpl; intros H; [constructor|].
  inversion H as [|d' t' Hnotin Hnd]; subst. rewrite map_app. apply nodup_app.
  - destruct (connect_nd torus dims c d); simpl; [constructor; [intros []|constructor]|constructor].
  - apply IH. exact Hnd.
  - intros k Hk Hk'. destruct (connect_nd torus dims c d); simpl in Hk; [|destruct Hk].
    destruct Hk as [<-|[]]. apply in_map_iff in Hk'. destruct Hk' as [[k' v] [Hk1 Hk2]]. simpl in Hk1. subst k'.
    apply in_flat_map in Hk2. destruct Hk2 as [d0 [Hd0 Hin]].
    destruct (connect_nd torus dims c d0); [|destruct Hin]. destruct Hin as [[= <- <-]|[]]. contradiction.
Qed.

(* --- finite tables checked on a small box --- *)
Definition pair_mem (p : Z * Z) (l : list (Z * Z)) : bool :=
  existsb (fun q => (fst p =? fst q) && (snd p =? snd q)) l.
Lemma pair_mem_In p l : pair_mem p l = true <-> In p l.
Proof.
  unfold pair_mem. rewrite existsb_exists. destruct p as [a b]. split.
  - intros [[a' b'] [Hin He]]. simpl in He. apply andb_true_iff in He. destruct He as [H1 H2].
    apply Z.eqb_eq in H1, H2. subst. exact Hin.
  - intros H. exists (a, b). split; [exact H|]. simpl. rewrite !Z.eqb_refl. reflexivity.
Qed.

Definition in_box (p : Z * Z) : bool := (Z.abs (fst p) <=? 2) && (Z.abs (snd p) <=? 2).
Definition box_check (tbl : list (Z * Z)) (P : Z -> Z -> bool) : bool :=
  forallb in_box tbl &&
  forallb (fun a => forallb (fun b => Bool.eqb (pair_mem (a, b) tbl) (P a b)) (zrange (-2) 2)) (zrange (-2) 2).

Lemma box_check_spec tbl P :
  box_check tbl P = true ->
  (forall a b, P a b = true -> Z.abs a <= 2 /\ Z.abs b <= 2) ->
  forall a b, In (a, b) tbl <-> P a b = true.
Proof.
  unfold box_check. rewrite andb_true_iff. intros [Hbox Hall] HP a b.
  rewrite forallb_forall in Hbox. rewrite forallb_forall in Hall.
  destruct (Z_le_dec (Z.abs a) 2) as [Ha|Ha]; [destruct (Z_le_dec (Z.abs b) 2) as [Hb|Hb]|].
  - assert (In a (zrange (-2) 2)) as Hia by (apply zrange_In; lia).
    assert (In b (zrange (-2) 2)) as Hib by (apply zrange_In; lia).
    specialize (Hall a Hia). rewrite forallb_forall in Hall. specialize (Hall b Hib).
    apply Bool.eqb_prop in Hall. rewrite <- pair_mem_In, Hall. tauto.
  - split.
    + intros Hin. apply Hbox in Hin. unfold in_box in Hin. simpl in Hin.
      apply andb_true_iff in Hin. destruct Hin as [_ Hin]. apply Z.leb_le in Hin. contradiction.
    + intros Hp. apply HP in Hp. tauto.
  - split.
    + intros Hin. apply Hbox in Hin. unfold in_box in Hin. simpl in Hin.
      apply andb_true_iff in Hin. destruct Hin as [Hin _]. apply Z.leb_le in Hin. contradiction.
    + intros Hp. apply HP in Hp. tauto.
Qed.

Definition pairs_nodup (l : list (Z * Z)) : bool :=
  (fix go (l : list (Z * Z)) : bool :=
     match l with [] => true | p :: t => negb (pair_mem p t) && go t end) l.
Lemma pairs_nodup_spec l : pairs_nodup l = true -> NoDup l.
Proof.
  induction l as [|p t IH]; simpl; intros H; [constructor|].
  apply andb_true_iff in H. destruct H as [H1 H2]. constructor; [|auto].
  rewrite <- pair_mem_In. destruct (pair_mem p t); [discriminate|congruence].
Qed.

Definition cheb2 (a b : Z) : bool := Z.max (Z.abs a) (Z.abs b) =? 1.
Definition manh2 (a b : Z) : bool := Z.abs a + Z.abs b =? 1.

Definition tables_2d_ok : bool :=
  box_check gen_moore_offsets_2d cheb2 && box_check gen_vn_offsets_2d manh2 &&
  pairs_nodup gen_moore_offsets_2d && pairs_nodup gen_vn_offsets_2d.

Lemma tables_2d_of_check : tables_2d_ok = true ->
  (forall a b, In (a, b) gen_moore_offsets_2d <-> Z.max (Z.abs a) (Z.abs b) = 1) /\
  (forall a b, In (a, b) gen_vn_offsets_2d <-> Z.abs a + Z.abs b = 1) /\
  NoDup gen_moore_offsets_2d /\ NoDup gen_vn_offsets_2d.
Proof.
  unfold tables_2d_ok. rewrite !andb_true_iff. intros [[[H1 H2] H3] H4].
  split; [|split; [|split]].
  - intros a b. rewrite (box_check_spec _ _ H1); [unfold cheb2; apply Z.eqb_eq|].
    unfold cheb2. intros x y H. apply Z.eqb_eq in H. lia.
  - intros a b. rewrite (box_check_spec _ _ H2); [unfold manh2; apply Z.eqb_eq|].
    unfold manh2. intros x y H. apply Z.eqb_eq in H. lia.
  - apply pairs_nodup_spec. exact H3.
  - apply pairs_nodup_spec. exact H4.
Qed.

(* ================================================================== 2c. hex *)
Lemma cube_dist_shift i j di dj :
  cube_dist i j (i + di) (j + dj) = cube_dist 0 (j mod 2) di (j mod 2 + dj).
Proof.
  unfold cube_dist, cube_q, cube_r.
  assert ((i + di - (j + dj + (j + dj) mod 2) / 2) - (i - (j + j mod 2) / 2)
          = (di - (j mod 2 + dj + (j mod 2 + dj) mod 2) / 2) - (0 - (j mod 2 + (j mod 2) mod 2) / 2)) as E.
  { Z.div_mod_to_equations. lia. }
  rewrite E. replace (j + dj - j) with (j mod 2 + dj - j mod 2) by lia. reflexivity.
Qed.

Lemma cube_dist_box p a b : 0 <= p <= 1 ->
  (cube_dist 0 p a (p + b) =? 1) = true -> Z.abs a <= 2 /\ Z.abs b <= 2.
Proof.
  intros Hp H. apply Z.eqb_eq in H. unfold cube_dist, cube_q, cube_r in H.
  Z.div_mod_to_equations. lia.
Qed.

Lemma cube_dist_sym i j i' j' : cube_dist i j i' j' = cube_dist i' j' i j.
Proof. unfold cube_dist. lia. Qed.

Definition hex_touch (p a b : Z) : bool := cube_dist 0 p a (p + b) =? 1.
(* both parity classes of the regenerated tables, checked on the box *)
Definition hex_tables_ok : bool :=
  box_check (hex_offsets [0; 0]) (hex_touch 0) && box_check (hex_offsets [0; 1]) (hex_touch 1).

(* the translated selector test depends on the parity only (whatever way the source writes it) *)
Lemma hex_select_parity p : gen_hex_select p = gen_hex_select (p mod 2).
Proof.
  unfold gen_hex_select.
  match goal with
  | |- ?l = ?r => destruct l eqn:E1; destruct r eqn:E2; try reflexivity; exfalso;
                  revert E1 E2; Z.div_mod_to_equations; lia
  end.
Qed.

Lemma hex_offsets_parity i j : hex_offsets [i; j] = hex_offsets [0; j mod 2].
Proof.
  unfold hex_offsets.
  change (nth (Z.to_nat gen_hex_parity_axis) [i; j] 0) with j.
  change (nth (Z.to_nat gen_hex_parity_axis) [0; j mod 2] 0) with (j mod 2).
  rewrite <- hex_select_parity. reflexivity.
Qed.

(* a hex cell (i, j), anywhere in Z^2, is connected under (di, dj) exactly to the cells whose
   hexagons touch it (cube distance 1) *)
Lemma hex_touching_of_tables : hex_tables_ok = true ->
  forall i j di dj, In (di, dj) (hex_offsets [i; j]) <-> cube_dist i j (i + di) (j + dj) = 1.
Proof.
  unfold hex_tables_ok. rewrite andb_true_iff. intros [H0 H1] i j di dj.
  rewrite hex_offsets_parity, cube_dist_shift.
  assert (j mod 2 = 0 \/ j mod 2 = 1) as [E|E] by (pose proof (Z.mod_pos_bound j 2); lia); rewrite E.
  - rewrite (box_check_spec _ _ H0); [unfold hex_touch; apply Z.eqb_eq|].
    intros a b. apply cube_dist_box. lia.
  - rewrite (box_check_spec _ _ H1); [unfold hex_touch; apply Z.eqb_eq|].
    intros a b. apply cube_dist_box. lia.
Qed.

(* touching is symmetric, so the tables are closed under "go back" *)
Lemma hex_offsets_back : hex_tables_ok = true ->
  forall i j di dj, In (di, dj) (hex_offsets [i; j]) -> In (- di, - dj) (hex_offsets [i + di; j + dj]).
Proof.
  intros Hok i j di dj H. apply (hex_touching_of_tables Hok) in H.
  apply (hex_touching_of_tables Hok). rewrite cube_dist_sym.
  replace (i + di + - di) with i by lia. replace (j + dj + - dj) with j by lia. exact H.
Qed.

Lemma mod_even_parity x w : 0 < w -> w mod 2 = 0 -> (x mod w) mod 2 = x mod 2.
Proof.
  intros Hw He. rewrite (Z.mod_eq x w) by lia.
  assert (exists q, w = 2 * q) as [q Ew] by (exists (w / 2); pose proof (Z.div_mod w 2); lia).
  generalize (x / w). intros y.
  replace (x - w * y) with (x + (- q * y) * 2) by (rewrite Ew; ring).
  apply Z.mod_add. lia.
Qed.

(* hex connections are symmetric on a plain grid and on a torus whose parity axis has even size *)
Lemma hex_symmetric : hex_tables_ok = true ->
  forall torus h w i j di dj c',
    0 < h -> 0 < w -> (torus = false \/ w mod 2 = 0) ->
    in_bounds [h; w] [i; j] = true ->
    In (di, dj) (hex_offsets [i; j]) ->
    connect_2d torus [h; w] [i; j] (di, dj) = Some c' ->
    In (- di, - dj) (hex_offsets c') /\ connect_2d torus [h; w] c' (- di, - dj) = Some [i; j].
Proof.
  intros Hok torus h w i j di dj c' Hh Hw Hev Hb Hin Hc.
  rewrite connect_2d_eq_nd in Hc.
  pose proof (connect_nd_symmetric torus [h; w] [i; j] [di; dj] c' eq_refl eq_refl Hb Hc) as Hback.
  apply connect_nd_spec in Hc. destruct Hc as [Hc' _].
  pose proof (hex_offsets_back Hok i j di dj Hin) as Hin'.
  destruct torus.
  - destruct Hev as [Hev|Hev]; [discriminate|].
    unfold wrap, vadd in Hc'. simpl in Hc'. subst c'. split.
    + rewrite hex_offsets_parity. rewrite hex_offsets_parity in Hin'.
      rewrite mod_even_parity by assumption. exact Hin'.
    + rewrite connect_2d_eq_nd. exact Hback.
  - unfold vadd in Hc'. simpl in Hc'. subst c'. split; [exact Hin'|].
    rewrite connect_2d_eq_nd. exact Hback.
Qed.

(* ================================================================== 3. network *)
Lemma net_adj_In edges u v : In v (net_adj edges u) <-> In (u, v) edges \/ In (v, u) edges.
Proof.
  unfold net_adj. rewrite zdedup_In, in_flat_map. split.
  - intros [[a b] [He Hv]]. simpl in Hv. destruct (a =? u) eqn:E1.
    + apply Z.eqb_eq in E1. destruct Hv as [<-|[]]. subst. left. exact He.
    + destruct (b =? u) eqn:E2; [|destruct Hv]. apply Z.eqb_eq in E2. destruct Hv as [<-|[]]. subst. right. exact He.
  - intros [H|H].
    + exists (u, v). split; [exact H|]. simpl. rewrite Z.eqb_refl. left. reflexivity.
    + exists (v, u). split; [exact H|]. simpl. destruct (v =? u) eqn:E.
      * apply Z.eqb_eq in E. left. symmetry. exact E.
      * rewrite Z.eqb_refl. left. reflexivity.
Qed.

Lemma net_adj_sym edges u v : In v (net_adj edges u) -> In u (net_adj edges v).
Proof. rewrite !net_adj_In. tauto. Qed.

Lemma net_adj_NoDup edges u : NoDup (net_adj edges u).
Proof. apply zdedup_NoDup. Qed.

(* ================================================================== 4. Delaunay edges *)
Lemma incircle_cyclic a b c p : incircle_det b c a p = incircle_det a b c p.
Proof. unfold incircle_det. ring. Qed.
Lemma orient_swap a b c : orient b a c = - orient a b c.
Proof. unfold orient. ring. Qed.

Lemma strictly_inside_swap a b c p : strictly_inside b a c p = strictly_inside a b c p.
Proof.
  unfold strictly_inside. rewrite (orient_swap a b c).
  destruct (orient a b c >? 0) eqn:E1; destruct (orient a b c <? 0) eqn:E2;
    destruct (- orient a b c >? 0) eqn:E3; destruct (- orient a b c <? 0) eqn:E4; try lia; try reflexivity.
  - rewrite incircle_cyclic. reflexivity.
  - rewrite (incircle_cyclic c b a p), (incircle_cyclic a c b p). reflexivity.
Qed.

Lemma forallb_ext' {A} (f g : A -> bool) l : (forall x, f x = g x) -> forallb f l = forallb g l.
Proof. intros H. induction l; simpl; [reflexivity|]. rewrite H, IHl. reflexivity. Qed.
Lemma existsb_ext' {A} (f g : A -> bool) l : (forall x, f x = g x) -> existsb f l = existsb g l.
Proof. intros H. induction l; simpl; [reflexivity|]. rewrite H, IHl. reflexivity. Qed.

Lemma empty_circle_swap pts a b c : empty_circle pts b a c = empty_circle pts a b c.
Proof.
  unfold empty_circle. rewrite orient_swap. f_equal.
  - destruct (orient a b c =? 0) eqn:E1; destruct (- orient a b c =? 0) eqn:E2; try reflexivity; lia.
  - apply forallb_ext'. intros p. rewrite strictly_inside_swap. reflexivity.
Qed.

Lemma empty_circle_spec pts a b c :
  empty_circle pts a b c = true <->
  orient a b c <> 0 /\ forall p, In p pts -> strictly_inside a b c p = false.
Proof.
  unfold empty_circle. rewrite andb_true_iff, forallb_forall, negb_true_iff, Z.eqb_neq.
  split; intros [H1 H2]; (split; [exact H1|]); intros p Hp; specialize (H2 p Hp);
    destruct (strictly_inside a b c p); simpl in *; congruence.
Qed.

Lemma delaunay_adj_sym pts i j : delaunay_adj pts i j = delaunay_adj pts j i.
Proof.
  unfold delaunay_adj. f_equal; [rewrite Z.eqb_sym; reflexivity|]. f_equal.
  apply existsb_ext'. intros k. rewrite empty_circle_swap.
  destruct (k =? i), (k =? j); reflexivity.
Qed.

Lemma delaunay_nbrs_In pts i j :
  In j (delaunay_nbrs pts i) <-> In j (idxs pts) /\ delaunay_adj pts i j = true.
Proof. unfold delaunay_nbrs. apply filter_In. Qed.

(* i ~ j iff they differ and (there are only two centroids or) a third centroid k spans with them a
   proper circle that has no centroid strictly inside *)
Lemma delaunay_adj_spec pts i j :
  delaunay_adj pts i j = true <->
  i <> j /\ (Z.of_nat (length pts) = 2 \/
             exists k, In k (idxs pts) /\ k <> i /\ k <> j /\
               let a := znth pts i (0, 0) in let b := znth pts j (0, 0) in let c := znth pts k (0, 0) in
               orient a b c <> 0 /\ forall p, In p pts -> strictly_inside a b c p = false).
Proof.
  unfold delaunay_adj. rewrite andb_true_iff, negb_true_iff, Z.eqb_neq, orb_true_iff, Z.eqb_eq, existsb_exists.
  split; intros [H1 [H2|[k Hk]]]; (split; [exact H1|]); auto; right; exists k.
  - destruct Hk as [Hk1 Hk2]. rewrite !andb_true_iff, !negb_true_iff, !Z.eqb_neq in Hk2.
    destruct Hk2 as [[Hk2 Hk3] Hk4]. apply empty_circle_spec in Hk4. auto.
  - destruct Hk as [Hk1 [Hk2 [Hk3 Hk4]]]. split; [exact Hk1|].
    rewrite !andb_true_iff, !negb_true_iff, !Z.eqb_neq. split; [auto|]. apply empty_circle_spec. exact Hk4.
Qed.

(* odd parity axis on a torus: cell (0,0) of the 3x3 hex torus reaches (1,2) under (1,-1), but no
   offset of (1,2) leads back *)
Lemma hex_odd_torus_asymmetric :
  exists c d c', In d (hex_offsets c) /\ connect_2d true [3; 3] c d = Some c' /\
    forall d', In d' (hex_offsets c') -> connect_2d true [3; 3] c' d' <> Some c.
Proof.
  exists [0; 0], (1, -1), [1; 2]. vm_compute. split; [auto 10|]. split; [reflexivity|].
  intros d' H. repeat (destruct H as [<-|H]; [discriminate|]). destruct H.
Qed.

(* ================================================================== 2d. the whole connection table of an orthogonal cell *)
Lemma conns_2d_In torus dims tbl c k c' :
  In (k, c') (conns_2d torus dims tbl c) <->
  exists a b, k = [a; b] /\ In (a, b) tbl /\ connect_2d torus dims c (a, b) = Some c'.
Proof.
  unfold conns_2d. rewrite in_flat_map. split.
  - intros [[a b] [Hd Hin]]. destruct (connect_2d torus dims c (a, b)) as [n|] eqn:E; [|destruct Hin].
    destruct Hin as [[= <- <-]|[]]. exists a, b. auto.
  - intros [a [b [-> [Hd Hc]]]]. exists (a, b). split; [exact Hd|]. rewrite Hc. left. reflexivity.
Qed.

Lemma len2 {A} (l : list A) : length l = 2%nat -> exists x y, l = [x; y].
Proof. destruct l as [|x [|y [|z t]]]; simpl; intros H; try discriminate. eauto. Qed.

Lemma zip_with_len2 {A B C} (f : A -> B -> C) a b : length a = length b -> length (zip_with f a b) = length b.
Proof. intros H. rewrite zip_length by exact H. exact H. Qed.

(* Moore / von Neumann grid of ANY dimension vector: the connections of cell c are exactly
   (d, c+d wrapped or plain) for the offsets d of Chebyshev / Manhattan norm 1 whose target lies in
   the grid - through the 2-D tables when there are two axes, the n-D construction otherwise *)
Lemma orth_conns_spec : tables_2d_ok = true ->
  forall moore torus dims c d c', length c = length dims ->
  (In (d, c') (orth_conns moore torus dims c) <->
   length d = length dims /\ (if moore then norm_inf d else norm_1 d) = 1 /\
   c' = (if torus then wrap dims (vadd c d) else vadd c d) /\ in_bounds dims c' = true).
Proof.
  intros Hok moore torus dims c d c' Hlen.
  destruct (tables_2d_of_check Hok) as [Hm [Hv _]].
  unfold orth_conns. destruct (length dims =? 2)%nat eqn:E2.
  - apply Nat.eqb_eq in E2. destruct (len2 dims E2) as [h [w ->]].
    rewrite E2 in Hlen. destruct (len2 c Hlen) as [i [j ->]].
    rewrite conns_2d_In. split.
    + intros [a [b [-> [Hin Hc]]]]. rewrite connect_2d_eq_nd in Hc. apply connect_nd_spec in Hc.
      split; [reflexivity|]. split; [|exact Hc].
      destruct moore; [apply Hm in Hin|apply Hv in Hin]; simpl; lia.
    + intros [Hl [Hn Hc]]. destruct (len2 d Hl) as [a [b ->]]. exists a, b. split; [reflexivity|].
      split; [|rewrite connect_2d_eq_nd; apply connect_nd_spec; exact Hc].
      destruct moore; [apply Hm|apply Hv]; simpl in Hn; lia.
  - rewrite conns_nd_In, connect_nd_spec.
    destruct moore; [rewrite moore_offsets_spec|rewrite vn_offsets_spec]; tauto.
Qed.

(* ================================================================== 2e. cell ids are positions in all_cells *)
Definition dims_prod (dims : list Z) : Z := fold_right Z.mul 1 dims.

Lemma flat_map_const_length {A B} (f : A -> list B) l L :
  (forall x, In x l -> length (f x) = L) -> length (flat_map f l) = (length l * L)%nat.
Proof.
  induction l as [|a l IH]; simpl; intros H; [reflexivity|].
  rewrite app_length, IH by auto. rewrite (H a) by auto. reflexivity.
Qed.

Lemma zrange_length lo hi : length (zrange lo hi) = Z.to_nat (hi - lo + 1).
Proof. unfold zrange. rewrite map_length, seq_length. reflexivity. Qed.

Lemma dims_prod_pos dims : Forall (fun d => 0 < d) dims -> 0 < dims_prod dims.
Proof. induction 1; simpl; lia. Qed.

Lemma all_coords_length dims : Forall (fun d => 0 < d) dims ->
  length (all_coords dims) = Z.to_nat (dims_prod dims).
Proof.
  unfold all_coords. induction 1 as [|d dims Hd Hf IH]; [reflexivity|].
  cbn [map product_ dims_prod fold_right].
  rewrite (flat_map_const_length _ _ (Z.to_nat (dims_prod dims))).
  - rewrite zrange_length. pose proof (dims_prod_pos dims Hf). unfold dims_prod in *. nia.
  - intros x _. rewrite map_length. exact IH.
Qed.

Lemma nth_error_blocks {A B} (f : A -> list B) L : forall l i j x,
  (forall y, In y l -> length (f y) = L) ->
  nth_error l i = Some x -> (j < L)%nat ->
  nth_error (flat_map f l) (i * L + j) = nth_error (f x) j.
Proof.
  induction l as [|a l IH]; intros [|i] j x Hlen Hn Hj; simpl in *; try discriminate.
  - inversion Hn; subst. rewrite nth_error_app1; [reflexivity|]. rewrite Hlen by auto. exact Hj.
  - rewrite nth_error_app2 by (rewrite Hlen by auto; lia).
    rewrite Hlen by auto. replace (L + i * L + j - L)%nat with (i * L + j)%nat by lia.
    apply IH; auto.
Qed.

Lemma zrange_nth d x : 0 <= x < d -> nth_error (zrange 0 (d - 1)) (Z.to_nat x) = Some x.
Proof.
  intros H. unfold zrange. rewrite nth_error_map.
  rewrite (nth_error_nth' _ 0%nat) by (rewrite seq_length; lia).
  rewrite seq_nth by lia. simpl. f_equal. lia.
Qed.

Lemma coord_id_acc dims : forall c acc, length c = length dims ->
  fold_left (fun a p => a * snd p + fst p) (combine c dims) acc = acc * dims_prod dims + coord_id dims c.
Proof.
  unfold coord_id. induction dims as [|d dims IH]; intros [|x c] acc Hl; simpl in *; try discriminate; [lia|].
  rewrite (IH c (acc * d + x)) by congruence. rewrite (IH c x) by congruence.
  fold (dims_prod dims). ring.
Qed.

Lemma coord_id_cons d dims x c : length c = length dims ->
  coord_id (d :: dims) (x :: c) = x * dims_prod dims + coord_id dims c.
Proof.
  intros Hl. unfold coord_id at 1. simpl. rewrite coord_id_acc by exact Hl. ring.
Qed.

(* the id of an in-grid coordinate is below the number of cells, and all_cells holds that coordinate there *)
Lemma coord_id_index dims : Forall (fun d => 0 < d) dims ->
  forall c, length c = length dims -> in_bounds dims c = true ->
  0 <= coord_id dims c < dims_prod dims /\
  nth_error (all_coords dims) (Z.to_nat (coord_id dims c)) = Some c.
Proof.
  induction 1 as [|d dims Hd Hf IH]; intros [|x c] Hl Hb; simpl in Hl; try discriminate.
  - split; [unfold coord_id; simpl; lia|reflexivity].
  - unfold in_bounds in Hb. simpl in Hb. rewrite !andb_true_iff in Hb. destruct Hb as [[Hb1 Hb2] Hb3].
    apply Z.leb_le in Hb1. apply Z.ltb_lt in Hb2.
    destruct (IH c) as [[Hi1 Hi2] Hnth]; [congruence|exact Hb3|].
    rewrite coord_id_cons by congruence. pose proof (dims_prod_pos dims Hf) as Hpos.
    split; [cbn [dims_prod fold_right]; fold (dims_prod dims); nia|].
    unfold all_coords. cbn [map product_]. fold (all_coords dims).
    replace (Z.to_nat (x * dims_prod dims + coord_id dims c))
      with (Z.to_nat x * Z.to_nat (dims_prod dims) + Z.to_nat (coord_id dims c))%nat by nia.
    rewrite (nth_error_blocks _ (Z.to_nat (dims_prod dims)) _ _ _ x).
    + rewrite nth_error_map. exact (f_equal (option_map (cons x)) Hnth).
    + intros y _. rewrite map_length. apply all_coords_length. exact Hf.
    + apply zrange_nth. lia.
    + lia.
Qed.

(* the whole connection table of a hex cell *)
Lemma hex_conns_spec : hex_tables_ok = true ->
  forall torus h w i j k c',
  (In (k, c') (hex_conns torus [h; w] [i; j]) <->
   exists di dj, k = [di; dj] /\ cube_dist i j (i + di) (j + dj) = 1 /\
     c' = (if torus then wrap [h; w] (vadd [i; j] [di; dj]) else vadd [i; j] [di; dj]) /\
     in_bounds [h; w] c' = true).
Proof.
  intros Hok torus h w i j k c'. unfold hex_conns. rewrite conns_2d_In. split.
  - intros [a [b [-> [Hin Hc]]]]. exists a, b. split; [reflexivity|].
    split; [apply (hex_touching_of_tables Hok); exact Hin|].
    rewrite connect_2d_eq_nd in Hc. apply connect_nd_spec in Hc. exact Hc.
  - intros [a [b [-> [Hd Hc]]]]. exists a, b. split; [reflexivity|].
    split; [apply (hex_touching_of_tables Hok); exact Hd|].
    rewrite connect_2d_eq_nd. apply connect_nd_spec. exact Hc.
Qed.

(* ================================================================== 4b. the in-circle test is geometric *)
(* circumcentre of a, b, c = (circ_nx, circ_ny) / (2 * orient a b c); distances below are scaled by (2 * orient)^2 *)
Definition sq (p : pt) : Z := fst p * fst p + snd p * snd p.
Definition circ_nx (a b c : pt) : Z := sq a * (snd b - snd c) + sq b * (snd c - snd a) + sq c * (snd a - snd b).
Definition circ_ny (a b c : pt) : Z := sq a * (fst c - fst b) + sq b * (fst a - fst c) + sq c * (fst b - fst a).
Definition sdist2 (a b c q : pt) : Z :=
  let o2 := 2 * orient a b c in
  (o2 * fst q - circ_nx a b c) * (o2 * fst q - circ_nx a b c) +
  (o2 * snd q - circ_ny a b c) * (o2 * snd q - circ_ny a b c).

Lemma circ_equidistant a b c : sdist2 a b c b = sdist2 a b c a /\ sdist2 a b c c = sdist2 a b c a.
Proof. unfold sdist2, circ_nx, circ_ny, orient, sq. split; ring. Qed.

Lemma incircle_identity a b c p :
  sdist2 a b c a - sdist2 a b c p = 4 * orient a b c * incircle_det a b c p.
Proof. unfold sdist2, circ_nx, circ_ny, orient, incircle_det, sq. ring. Qed.

Lemma incircle_swap a b c p : incircle_det a c b p = - incircle_det a b c p.
Proof. unfold incircle_det. ring. Qed.

(* strictly_inside a b c p  <->  p is strictly nearer to the circumcentre of a, b, c than a (b, c) is *)
Lemma strictly_inside_geometric a b c p : orient a b c <> 0 ->
  (strictly_inside a b c p = true <-> sdist2 a b c p < sdist2 a b c a).
Proof.
  intros Ho. pose proof (incircle_identity a b c p) as Hid. unfold strictly_inside.
  destruct (orient a b c >? 0) eqn:E1.
  - rewrite Z.gtb_lt. apply Z.gtb_lt in E1. split; intros H; nia.
  - destruct (orient a b c <? 0) eqn:E2; [|lia].
    rewrite Z.gtb_lt, incircle_swap. apply Z.ltb_lt in E2. split; intros H; nia.
Qed.

(* ================================================================== 2f. cell.connections is a dict: connect = d[key] = other *)
Fixpoint dict_set (k v : coord) (d : list (coord * coord)) : list (coord * coord) :=
  match d with
  | [] => [(k, v)]
  | (k', v') :: t => if zl_eqb k k' then (k, v) :: t else (k', v') :: dict_set k v t
  end.
(* for d_coord in offsets: ... cell.connect(self._cells[n_coord], d_coord), statement by statement *)
Definition conns_dict (torus : bool) (dims : list Z) (offsets : list coord) (c : coord) : list (coord * coord) :=
  fold_left (fun acc d => match connect_nd torus dims c d with Some n => dict_set d n acc | None => acc end) offsets [].

Lemma dict_set_fresh k v d : ~ In k (map fst d) -> dict_set k v d = d ++ [(k, v)].
Proof.
  induction d as [|[k' v'] t IH]; simpl; intros H; [reflexivity|].
  destruct (zl_eqb k k') eqn:E.
  - apply zl_eqb_eq in E. subst. exfalso. apply H. left. reflexivity.
  - rewrite IH; [reflexivity|]. intros Hin. apply H. right. exact Hin.
Qed.

Lemma conns_nd_keys torus dims offsets c k :
  In k (map fst (conns_nd torus dims offsets c)) -> In k offsets.
Proof.
  intros H. apply in_map_iff in H. destruct H as [[k' v] [Hk Hin]]. simpl in Hk. subst k'.
  apply conns_nd_In in Hin. tauto.
Qed.

Lemma conns_dict_acc torus dims c : forall offsets acc,
  NoDup offsets -> (forall k, In k (map fst acc) -> ~ In k offsets) ->
  fold_left (fun acc d => match connect_nd torus dims c d with Some n => dict_set d n acc | None => acc end) offsets acc
  = acc ++ conns_nd torus dims offsets c.
Proof.
  induction offsets as [|d t IH]; intros acc Hnd Hdis; simpl; [rewrite app_nil_r; reflexivity|].
  inversion Hnd as [|d' t' Hnotin Hnd']; subst.
  destruct (connect_nd torus dims c d) as [n|] eqn:E.
  - rewrite dict_set_fresh by (intros Hin; apply (Hdis d Hin); left; reflexivity).
    rewrite IH; [rewrite <- app_assoc; reflexivity|exact Hnd'|].
    intros k Hk. rewrite map_app, in_app_iff in Hk. destruct Hk as [Hk|[<-|[]]].
    + intros Hin. apply (Hdis k Hk). right. exact Hin.
    + exact Hnotin.
  - unfold conns_nd in IH. rewrite IH; [reflexivity|exact Hnd'|].
    intros k Hk Hin. apply (Hdis k Hk). right. exact Hin.
Qed.

(* because no offset occurs twice, the dict the source fills is the list the model uses *)
Lemma conns_dict_eq torus dims offsets c :
  NoDup offsets -> conns_dict torus dims offsets c = conns_nd torus dims offsets c.
Proof.
  intros H. unfold conns_dict. rewrite conns_dict_acc; [reflexivity|exact H|].
  intros k [].
Qed.

(* ================================================================== 5. orthogonal grids: r-hop ball = metric ball *)
(* hops over an arbitrary node type (coordinates here) *)
Inductive ghops {A : Type} (conn : A -> list A) : nat -> A -> A -> Prop :=
| ghops_O c : ghops conn 0 c c
| ghops_S n c m d : In m (conn c) -> ghops conn n m d -> ghops conn (S n) c d.

(* per-axis distance: toroidal on a torus, plain otherwise *)
Definition axis_dist (torus : bool) (n a b : Z) : Z :=
  if torus then Z.min ((a - b) mod n) ((b - a) mod n) else Z.abs (a - b).
Fixpoint dist_inf (torus : bool) (dims c d : list Z) : Z :=
  match dims, c, d with
  | n :: dims', a :: c', b :: d' => Z.max (axis_dist torus n a b) (dist_inf torus dims' c' d')
  | _, _, _ => 0
  end.
Fixpoint dist_1 (torus : bool) (dims c d : list Z) : Z :=
  match dims, c, d with
  | n :: dims', a :: c', b :: d' => axis_dist torus n a b + dist_1 torus dims' c' d'
  | _, _, _ => 0
  end.
(* Chebyshev (Moore) / Manhattan (von Neumann) distance of two cells *)
Definition gdist (moore torus : bool) (dims c d : list Z) : Z :=
  if moore then dist_inf torus dims c d else dist_1 torus dims c d.

Definition good (dims : list Z) (c : coord) : Prop := length c = length dims /\ in_bounds dims c = true.

Lemma good_cons n dims a c : good (n :: dims) (a :: c) <-> (0 <= a < n) /\ good dims c.
Proof.
  unfold good, in_bounds. simpl. rewrite !andb_true_iff, Z.leb_le, Z.ltb_lt. split.
  - intros [H1 [[H2 H3] H4]]. split; [lia|]. split; [congruence|exact H4].
  - intros [[H2 H3] [H1 H4]]. split; [congruence|]. auto.
Qed.

Lemma good_nil_l c : good [] c -> c = [].
Proof. intros [H _]. destruct c; [reflexivity|discriminate]. Qed.
Lemma good_cons_inv n dims c : good (n :: dims) c -> exists a c', c = a :: c' /\ (0 <= a < n) /\ good dims c'.
Proof.
  destruct c as [|a c']; [intros [H _]; discriminate|]. intros H. apply good_cons in H. eauto.
Qed.

Lemma mod_diff_nf n a b : 0 <= a < n -> 0 <= b < n ->
  (a - b) mod n = if a <? b then a - b + n else a - b.
Proof.
  intros Ha Hb. destruct (a <? b) eqn:E.
  - apply Z.ltb_lt in E. rewrite <- (Z_mod_plus_full (a - b) 1 n). rewrite Z.mod_small by lia. lia.
  - apply Z.ltb_ge in E. apply Z.mod_small. lia.
Qed.

Lemma axis_dist_nf torus n a b : 0 <= a < n -> 0 <= b < n ->
  axis_dist torus n a b = if torus then Z.min (Z.abs (a - b)) (n - Z.abs (a - b)) else Z.abs (a - b).
Proof.
  intros Ha Hb. unfold axis_dist. destruct torus; [|reflexivity].
  rewrite (mod_diff_nf n a b), (mod_diff_nf n b a) by assumption.
  destruct (a <? b) eqn:E1; destruct (b <? a) eqn:E2; lia.
Qed.

Definition axis_step (torus : bool) (n a e : Z) : Z := if torus then (a + e) mod n else a + e.

Lemma axis_step_nf n a e : 0 <= a < n -> -1 <= e <= 1 ->
  axis_step true n a e = if a + e <? 0 then a + e + n else if n <=? a + e then a + e - n else a + e.
Proof.
  intros Ha He. unfold axis_step. destruct (a + e <? 0) eqn:E1.
  - apply Z.ltb_lt in E1. rewrite <- (Z_mod_plus_full (a + e) 1 n). rewrite Z.mod_small by lia. lia.
  - apply Z.ltb_ge in E1. destruct (n <=? a + e) eqn:E2.
    + apply Z.leb_le in E2. rewrite <- (Z_mod_plus_full (a + e) (-1) n). rewrite Z.mod_small by lia. lia.
    + apply Z.leb_gt in E2. apply Z.mod_small. lia.
Qed.

(* one step changes the distance to b by at most |e| *)
Lemma axis_tri torus n a b e : 0 <= a < n -> 0 <= b < n -> -1 <= e <= 1 ->
  0 <= axis_step torus n a e < n ->
  axis_dist torus n a b <= axis_dist torus n (axis_step torus n a e) b + Z.abs e.
Proof.
  intros Ha Hb He Hs. rewrite !axis_dist_nf by assumption. destruct torus.
  - rewrite axis_step_nf in * by assumption.
    destruct (a + e <? 0) eqn:E1; [|destruct (n <=? a + e) eqn:E2]; lia.
  - unfold axis_step in *. lia.
Qed.

(* the offset that brings a one step nearer to b *)
Definition toward (torus : bool) (n a b : Z) : Z :=
  if a =? b then 0
  else if torus then (if (b - a) mod n <=? (a - b) mod n then 1 else -1)
       else (if a <? b then 1 else -1).

Lemma axis_step_cases n a e : 0 <= a < n -> -1 <= e <= 1 ->
  (axis_step true n a e = a + e /\ 0 <= a + e < n) \/
  (axis_step true n a e = a + e + n /\ a + e = -1) \/
  (axis_step true n a e = a + e - n /\ a + e = n).
Proof.
  intros Ha He. rewrite axis_step_nf by assumption.
  destruct (a + e <? 0) eqn:E1; [apply Z.ltb_lt in E1; right; left; lia|].
  apply Z.ltb_ge in E1. destruct (n <=? a + e) eqn:E2.
  - apply Z.leb_le in E2. right. right. lia.
  - apply Z.leb_gt in E2. left. lia.
Qed.

Lemma axis_toward torus n a b : 0 <= a < n -> 0 <= b < n ->
  let e := toward torus n a b in
  -1 <= e <= 1 /\ 0 <= axis_step torus n a e < n /\
  axis_dist torus n (axis_step torus n a e) b = Z.max 0 (axis_dist torus n a b - 1) /\
  Z.abs e = Z.min 1 (axis_dist torus n a b).
Proof.
  intros Ha Hb. cbv zeta. unfold toward. destruct (a =? b) eqn:Eab.
  - apply Z.eqb_eq in Eab. subst b.
    assert (axis_step torus n a 0 = a) as Hs.
    { unfold axis_step. destruct torus; [rewrite Z.add_0_r; apply Z.mod_small; lia|lia]. }
    rewrite Hs. rewrite !axis_dist_nf by assumption. destruct torus; lia.
  - apply Z.eqb_neq in Eab. destruct torus.
    + rewrite (mod_diff_nf n a b), (mod_diff_nf n b a) by assumption.
      set (e := if (if b <? a then b - a + n else b - a) <=? (if a <? b then a - b + n else a - b) then 1 else -1).
      assert ((e = 1 /\ (if b <? a then b - a + n else b - a) <= (if a <? b then a - b + n else a - b)) \/
              (e = -1 /\ (if b <? a then b - a + n else b - a) > (if a <? b then a - b + n else a - b))) as He.
      { unfold e. destruct ((if b <? a then b - a + n else b - a) <=? (if a <? b then a - b + n else a - b)) eqn:E3;
          [apply Z.leb_le in E3; left; auto|apply Z.leb_gt in E3; right; split; [reflexivity|lia]]. }
      clearbody e.
      assert (-1 <= e <= 1) as Hb1 by lia.
      destruct (axis_step_cases n a e Ha Hb1) as [[Hs Hr]|[[Hs Hr]|[Hs Hr]]]; rewrite Hs;
        (split; [lia|]); (split; [lia|]); rewrite !axis_dist_nf by lia;
        destruct (b <? a) eqn:E1; destruct (a <? b) eqn:E2; lia.
    + unfold axis_step. destruct (a <? b) eqn:E1; rewrite !axis_dist_nf by lia; lia.
Qed.

Definition stepped (torus : bool) (dims : list Z) (c e : coord) : coord :=
  if torus then wrap dims (vadd c e) else vadd c e.
Lemma stepped_cons torus n dims a c x e :
  stepped torus (n :: dims) (a :: c) (x :: e) = axis_step torus n a x :: stepped torus dims c e.
Proof. destruct torus; reflexivity. Qed.
Lemma stepped_nil torus c e : stepped torus [] c e = [] \/ True.
Proof. right. exact I. Qed.

Lemma axis_dist_nonneg torus n a b : 0 <= a < n -> 0 <= b < n -> 0 <= axis_dist torus n a b.
Proof. intros Ha Hb. rewrite axis_dist_nf by assumption. destruct torus; lia. Qed.

Lemma dists_nonneg torus dims : forall c d, good dims c -> good dims d ->
  0 <= dist_inf torus dims c d /\ 0 <= dist_1 torus dims c d.
Proof.
  induction dims as [|n dims IH]; intros c d Hc Hd.
  - simpl. lia.
  - apply good_cons_inv in Hc. destruct Hc as [a [c' [-> [Ha Hc]]]].
    apply good_cons_inv in Hd. destruct Hd as [b [d' [-> [Hb Hd]]]].
    simpl. destruct (IH c' d' Hc Hd). pose proof (axis_dist_nonneg torus n a b Ha Hb). lia.
Qed.

Lemma axis_dist_zero torus n a b : 0 <= a < n -> 0 <= b < n -> axis_dist torus n a b = 0 -> a = b.
Proof. intros Ha Hb. rewrite axis_dist_nf by assumption. destruct torus; lia. Qed.
Lemma axis_dist_refl torus n a : 0 <= a < n -> axis_dist torus n a a = 0.
Proof. intros Ha. rewrite axis_dist_nf by assumption. destruct torus; lia. Qed.

Lemma dist_zero_eq torus dims : forall c d, good dims c -> good dims d ->
  (dist_inf torus dims c d = 0 -> c = d) /\ (dist_1 torus dims c d = 0 -> c = d).
Proof.
  induction dims as [|n dims IH]; intros c d Hc Hd.
  - apply good_nil_l in Hc. apply good_nil_l in Hd. subst. auto.
  - apply good_cons_inv in Hc. destruct Hc as [a [c' [-> [Ha Hc]]]].
    apply good_cons_inv in Hd. destruct Hd as [b [d' [-> [Hb Hd]]]].
    simpl. destruct (IH c' d' Hc Hd) as [I1 I2]. destruct (dists_nonneg torus dims c' d' Hc Hd).
    pose proof (axis_dist_nonneg torus n a b Ha Hb).
    split; intros H2; (assert (axis_dist torus n a b = 0) as Hz by lia);
      apply axis_dist_zero in Hz; try assumption; subst b; f_equal; [apply I1|apply I2]; lia.
Qed.

Lemma dist_refl torus dims : forall c, good dims c -> dist_inf torus dims c c = 0 /\ dist_1 torus dims c c = 0.
Proof.
  induction dims as [|n dims IH]; intros c Hc; [simpl; auto|].
  apply good_cons_inv in Hc. destruct Hc as [a [c' [-> [Ha Hc]]]]. simpl.
  destruct (IH c' Hc) as [-> ->]. rewrite axis_dist_refl by assumption. lia.
Qed.

(* one connection step changes the distance to d by at most the norm of the offset *)
Lemma step_le torus dims : forall c e d,
  good dims c -> good dims d -> length e = length dims -> Forall (fun x => -1 <= x <= 1) e ->
  good dims (stepped torus dims c e) ->
  dist_inf torus dims c d <= dist_inf torus dims (stepped torus dims c e) d + norm_inf e /\
  dist_1 torus dims c d <= dist_1 torus dims (stepped torus dims c e) d + norm_1 e.
Proof.
  induction dims as [|n dims IH]; intros c e d Hc Hd He Hf Hs.
  - simpl. pose proof (norm_inf_nonneg e). pose proof (norm_1_nonneg e).
    destruct (stepped torus [] c e); simpl; lia.
  - apply good_cons_inv in Hc. destruct Hc as [a [c' [-> [Ha Hc]]]].
    apply good_cons_inv in Hd. destruct Hd as [b [d' [-> [Hb Hd]]]].
    destruct e as [|x e']; [discriminate|]. inversion Hf as [|x' e'' Hx Hf']; subst.
    rewrite stepped_cons in *. apply good_cons in Hs. destruct Hs as [Hs1 Hs2].
    simpl in He. destruct (IH c' e' d' Hc Hd ltac:(congruence) Hf' Hs2) as [I1 I2].
    pose proof (axis_tri torus n a b x Ha Hb Hx Hs1). simpl. lia.
Qed.

Lemma norm_1_bound e : norm_1 e <= 1 -> Forall (fun x => -1 <= x <= 1) e.
Proof.
  induction e as [|x e IH]; simpl; intros H; [constructor|].
  pose proof (norm_1_nonneg e). constructor; [lia|]. apply IH. lia.
Qed.

(* --- towards d: Moore moves every axis, von Neumann the first axis that differs --- *)
Fixpoint toward_all (torus : bool) (dims c d : list Z) : coord :=
  match dims, c, d with
  | n :: dims', a :: c', b :: d' => toward torus n a b :: toward_all torus dims' c' d'
  | _, _, _ => []
  end.
Fixpoint toward_first (torus : bool) (dims c d : list Z) : coord :=
  match dims, c, d with
  | n :: dims', a :: c', b :: d' =>
      if a =? b then 0 :: toward_first torus dims' c' d'
      else toward torus n a b :: repeat 0 (length dims')
  | _, _, _ => []
  end.

Lemma stepped_zeros torus dims : forall c, good dims c -> stepped torus dims c (repeat 0 (length dims)) = c.
Proof.
  induction dims as [|n dims IH]; intros c Hc.
  - apply good_nil_l in Hc. subst. destruct torus; reflexivity.
  - apply good_cons_inv in Hc. destruct Hc as [a [c' [-> [Ha Hc]]]]. simpl repeat.
    rewrite stepped_cons, IH by assumption. f_equal.
    unfold axis_step. destruct torus; [rewrite Z.add_0_r; apply Z.mod_small; lia|lia].
Qed.

Lemma norm_zeros n : norm_inf (repeat 0 n) = 0 /\ norm_1 (repeat 0 n) = 0.
Proof. induction n; simpl; [auto|]. destruct IHn as [-> ->]. lia. Qed.

Lemma toward_all_ok torus dims : forall c d, good dims c -> good dims d ->
  let e := toward_all torus dims c d in
  length e = length dims /\ Forall (fun x => -1 <= x <= 1) e /\ good dims (stepped torus dims c e) /\
  dist_inf torus dims (stepped torus dims c e) d = Z.max 0 (dist_inf torus dims c d - 1) /\
  norm_inf e = Z.min 1 (dist_inf torus dims c d).
Proof.
  induction dims as [|n dims IH]; intros c d Hc Hd.
  - apply good_nil_l in Hc. apply good_nil_l in Hd. subst. simpl.
    repeat split; try constructor; destruct torus; reflexivity.
  - apply good_cons_inv in Hc. destruct Hc as [a [c' [-> [Ha Hc]]]].
    apply good_cons_inv in Hd. destruct Hd as [b [d' [-> [Hb Hd]]]].
    cbv zeta. cbn [toward_all]. rewrite stepped_cons.
    destruct (IH c' d' Hc Hd) as [I1 [I2 [I3 [I4 I5]]]].
    destruct (axis_toward torus n a b Ha Hb) as [T1 [T2 [T3 T4]]].
    destruct (dists_nonneg torus dims c' d' Hc Hd) as [N1 _].
    pose proof (axis_dist_nonneg torus n a b Ha Hb) as N2.
    split; [simpl; congruence|]. split; [constructor; assumption|].
    split; [apply good_cons; auto|]. cbn [dist_inf norm_inf fold_right].
    fold (norm_inf (toward_all torus dims c' d')). rewrite T3, I4, I5, T4. lia.
Qed.

Lemma toward_first_ok torus dims : forall c d, good dims c -> good dims d ->
  let e := toward_first torus dims c d in
  length e = length dims /\ Forall (fun x => -1 <= x <= 1) e /\ good dims (stepped torus dims c e) /\
  dist_1 torus dims (stepped torus dims c e) d = Z.max 0 (dist_1 torus dims c d - 1) /\
  norm_1 e = Z.min 1 (dist_1 torus dims c d).
Proof.
  induction dims as [|n dims IH]; intros c d Hc Hd.
  - apply good_nil_l in Hc. apply good_nil_l in Hd. subst. simpl.
    repeat split; try constructor; destruct torus; reflexivity.
  - apply good_cons_inv in Hc. destruct Hc as [a [c' [-> [Ha Hc]]]].
    apply good_cons_inv in Hd. destruct Hd as [b [d' [-> [Hb Hd]]]].
    cbv zeta. cbn [toward_first].
    destruct (dists_nonneg torus dims c' d' Hc Hd) as [_ N1].
    pose proof (axis_dist_nonneg torus n a b Ha Hb) as N2.
    destruct (a =? b) eqn:Eab.
    + apply Z.eqb_eq in Eab. subst b. rewrite stepped_cons.
      destruct (IH c' d' Hc Hd) as [I1 [I2 [I3 [I4 I5]]]].
      assert (axis_step torus n a 0 = a) as Hs.
      { unfold axis_step. destruct torus; [rewrite Z.add_0_r; apply Z.mod_small; lia|lia]. }
      rewrite Hs. split; [simpl; congruence|]. split; [constructor; [lia|assumption]|].
      split; [apply good_cons; auto|]. cbn [dist_1 norm_1 fold_right].
      fold (norm_1 (toward_first torus dims c' d')). rewrite I4, I5, axis_dist_refl by assumption. lia.
    + rewrite stepped_cons, stepped_zeros by assumption.
      destruct (axis_toward torus n a b Ha Hb) as [T1 [T2 [T3 T4]]].
      split; [simpl; rewrite repeat_length; reflexivity|].
      split; [constructor; [assumption|]; apply Forall_forall; intros x Hx; apply repeat_spec in Hx; lia|].
      split; [apply good_cons; auto|]. cbn [dist_1 norm_1 fold_right].
      fold (norm_1 (repeat 0 (length dims))). rewrite (proj2 (norm_zeros (length dims))), T3, T4.
      apply Z.eqb_neq in Eab.
      assert (axis_dist torus n a b <> 0) by (intros Hz; apply axis_dist_zero in Hz; auto).
      lia.
Qed.

Definition conn_c (moore torus : bool) (dims : list Z) (c : coord) : list coord :=
  map snd (orth_conns moore torus dims c).
Definition gnorm (moore : bool) (e : coord) : Z := if moore then norm_inf e else norm_1 e.

Lemma stepped_length torus dims c e :
  length c = length dims -> length e = length dims -> length (stepped torus dims c e) = length dims.
Proof.
  intros Hc He. unfold stepped, wrap, vadd. destruct torus.
  - rewrite zip_length; rewrite zip_length; congruence.
  - rewrite zip_length; congruence.
Qed.

Lemma conn_c_spec : tables_2d_ok = true -> forall moore torus dims c m, good dims c ->
  (In m (conn_c moore torus dims c) <->
   exists e, length e = length dims /\ gnorm moore e = 1 /\ m = stepped torus dims c e /\ good dims m).
Proof.
  intros Hok moore torus dims c m [Hl Hb]. unfold conn_c. rewrite in_map_iff. split.
  - intros [[e m'] [Hm Hin]]. simpl in Hm. subst m'.
    apply (orth_conns_spec Hok moore torus dims c e m Hl) in Hin.
    destruct Hin as [H1 [H2 [H3 H4]]]. exists e. split; [exact H1|]. split; [destruct moore; exact H2|].
    split; [exact H3|]. split; [|exact H4]. rewrite H3. apply stepped_length; assumption.
  - intros [e [H1 [H2 [H3 [H4 H5]]]]]. exists (e, m). split; [reflexivity|].
    apply (orth_conns_spec Hok moore torus dims c e m Hl). split; [exact H1|].
    split; [destruct moore; exact H2|]. split; [exact H3|exact H5].
Qed.

Lemma gnorm_unit moore e : gnorm moore e = 1 -> Forall (fun x => -1 <= x <= 1) e.
Proof.
  destruct moore; simpl; intros H; [apply norm_inf_le1; lia|apply norm_1_bound; lia].
Qed.

(* r hops cannot reach beyond distance r, and stay inside the grid *)
Lemma ghops_dist : tables_2d_ok = true -> forall moore torus dims k c d,
  ghops (conn_c moore torus dims) k c d -> good dims c ->
  good dims d /\ gdist moore torus dims c d <= Z.of_nat k.
Proof.
  intros Hok moore torus dims k c d H. induction H as [c|k c m d Hin Hh IH]; intros Hc.
  - split; [exact Hc|]. destruct (dist_refl torus dims c Hc) as [R1 R2].
    unfold gdist. destruct moore; lia.
  - apply (conn_c_spec Hok) in Hin; [|exact Hc]. destruct Hin as [e [He [Hn [Hm Hg]]]].
    destruct (IH Hg) as [Hd Hk]. split; [exact Hd|]. subst m.
    destruct (step_le torus dims c e d Hc Hd He (gnorm_unit moore e Hn) Hg) as [S1 S2].
    unfold gdist, gnorm in *. destruct moore; lia.
Qed.

(* every in-grid cell at distance <= r is reached by <= r hops *)
Lemma dist_ghops : tables_2d_ok = true -> forall moore torus dims k c d,
  good dims c -> good dims d -> gdist moore torus dims c d <= Z.of_nat k ->
  exists j, (j <= k)%nat /\ ghops (conn_c moore torus dims) j c d.
Proof.
  intros Hok moore torus dims k. induction k as [|k IH]; intros c d Hc Hd Hdist.
  - assert (c = d) as ->.
    { destruct (dist_zero_eq torus dims c d Hc Hd) as [Z1 Z2]. destruct (dists_nonneg torus dims c d Hc Hd).
      unfold gdist in Hdist. destruct moore; [apply Z1|apply Z2]; lia. }
    exists 0%nat. split; [lia|constructor].
  - destruct (Z.eq_dec (gdist moore torus dims c d) 0) as [E0|E0].
    + assert (c = d) as ->.
      { destruct (dist_zero_eq torus dims c d Hc Hd) as [Z1 Z2]. unfold gdist in E0. destruct moore; auto. }
      exists 0%nat. split; [lia|constructor].
    + destruct (dists_nonneg torus dims c d Hc Hd) as [N1 N2].
      set (e := if moore then toward_all torus dims c d else toward_first torus dims c d).
      assert (length e = length dims /\ gnorm moore e = 1 /\ good dims (stepped torus dims c e) /\
              gdist moore torus dims (stepped torus dims c e) d = gdist moore torus dims c d - 1) as [E1 [E2 [E3 E4]]].
      { unfold e, gdist, gnorm in *. destruct moore.
        - destruct (toward_all_ok torus dims c d Hc Hd) as [T1 [T2 [T3 [T4 T5]]]]. repeat split; try assumption; try apply T3; lia.
        - destruct (toward_first_ok torus dims c d Hc Hd) as [T1 [T2 [T3 [T4 T5]]]]. repeat split; try assumption; try apply T3; lia. }
      destruct (IH (stepped torus dims c e) d E3 Hd ltac:(lia)) as [j [Hj Hh]].
      exists (S j). split; [lia|]. econstructor; [|exact Hh].
      apply (conn_c_spec Hok); [exact Hc|]. exists e. auto.
Qed.

(* --- from coordinates to the cell ids of the model's own connection table --- *)
Definition geom_table (sp : space) : table := map (map snd) (space_conns sp).
Definition id_conn (moore torus : bool) (dims : list Z) : cell -> list cell :=
  conn_of (geom_table (SOrth moore dims torus)).

Lemma id_conn_spec moore torus dims c : Forall (fun d => 0 < d) dims -> good dims c ->
  id_conn moore torus dims (coord_id dims c) = map (coord_id dims) (conn_c moore torus dims c).
Proof.
  intros Hpos [Hl Hb]. destruct (coord_id_index dims Hpos c Hl Hb) as [[Hi1 Hi2] Hnth].
  unfold id_conn, conn_of, znth, geom_table. cbn [space_conns].
  assert (coord_id dims c <? 0 = false) as -> by lia.
  erewrite nth_error_nth; [|rewrite !nth_error_map, Hnth; reflexivity].
  unfold enc_conns, conn_c. rewrite !map_map. reflexivity.
Qed.

Lemma coord_id_inj dims c d : Forall (fun x => 0 < x) dims -> good dims c -> good dims d ->
  coord_id dims c = coord_id dims d -> c = d.
Proof.
  intros Hpos [Hc1 Hc2] [Hd1 Hd2] E.
  destruct (coord_id_index dims Hpos c Hc1 Hc2) as [_ Hn1].
  destruct (coord_id_index dims Hpos d Hd1 Hd2) as [_ Hn2].
  rewrite E in Hn1. congruence.
Qed.

Lemma hops_id_to_c : tables_2d_ok = true -> forall moore torus dims, Forall (fun d => 0 < d) dims ->
  forall k x z, hops (id_conn moore torus dims) k x z ->
  forall c, good dims c -> x = coord_id dims c ->
  exists d, good dims d /\ z = coord_id dims d /\ ghops (conn_c moore torus dims) k c d.
Proof.
  intros Hok moore torus dims Hpos k x z H. induction H as [x|k x m z Hin Hh IH]; intros c Hc Hx.
  - exists c. split; [exact Hc|]. split; [exact Hx|constructor].
  - subst x. rewrite id_conn_spec in Hin by assumption. apply in_map_iff in Hin.
    destruct Hin as [m' [Hm Hin]].
    assert (good dims m') as Hg.
    { apply (conn_c_spec Hok) in Hin; [|exact Hc]. destruct Hin as [e [_ [_ [_ Hg]]]]. exact Hg. }
    destruct (IH m' Hg (eq_sym Hm)) as [d [Hd [Hz Hgh]]].
    exists d. split; [exact Hd|]. split; [exact Hz|]. econstructor; eassumption.
Qed.

Lemma ghops_to_id : tables_2d_ok = true -> forall moore torus dims, Forall (fun d => 0 < d) dims ->
  forall k c d, ghops (conn_c moore torus dims) k c d -> good dims c ->
  hops (id_conn moore torus dims) k (coord_id dims c) (coord_id dims d).
Proof.
  intros Hok moore torus dims Hpos k c d H. induction H as [c|k c m d Hin Hh IH]; intros Hc.
  - constructor.
  - assert (good dims m) as Hg.
    { apply (conn_c_spec Hok) in Hin; [|exact Hc]. destruct Hin as [e [_ [_ [_ Hg]]]]. exact Hg. }
    econstructor; [|apply IH; exact Hg].
    rewrite id_conn_spec by assumption. apply in_map. exact Hin.
Qed.

(* the model's neighbourhood function on the model's own table of a Moore / von Neumann grid:
   exactly the in-grid cells at Chebyshev / Manhattan distance 1..radius (+ the centre iff include_center) *)
Lemma nbhd_metric_ball : tables_2d_ok = true ->
  forall moore torus dims, Forall (fun d => 0 < d) dims ->
  forall c, good dims c -> forall n ic,
  (forall d, good dims d ->
     (In (coord_id dims d) (nbhd (id_conn moore torus dims) n ic (coord_id dims c)) <->
      (1 <= gdist moore torus dims c d <= Z.of_nat (S n)) \/ (ic = true /\ d = c))) /\
  (forall z, In z (nbhd (id_conn moore torus dims) n ic (coord_id dims c)) ->
     exists d, good dims d /\ z = coord_id dims d).
Proof.
  intros Hok moore torus dims Hpos c Hc n ic. split.
  - intros d Hd. rewrite nbhd_is_ball.
    assert (0 <= gdist moore torus dims c d) as Hnn
      by (destruct (dists_nonneg torus dims c d Hc Hd); unfold gdist; destruct moore; lia).
    assert (gdist moore torus dims c d = 0 <-> c = d) as Hz.
    { split.
      - destruct (dist_zero_eq torus dims c d Hc Hd). unfold gdist. destruct moore; auto.
      - intros <-. destruct (dist_refl torus dims c Hc). unfold gdist. destruct moore; auto. }
    split.
    + intros [[Hne [k [Hk Hh]]]|[Hic He]].
      * left. destruct (hops_id_to_c Hok moore torus dims Hpos k _ _ Hh c Hc eq_refl) as [d' [Hd' [Hz' Hgh]]].
        apply coord_id_inj in Hz'; try assumption. subst d'.
        destruct (ghops_dist Hok moore torus dims k c d Hgh Hc) as [_ Hdist].
        assert (gdist moore torus dims c d <> 0) by (intros E; apply Hz in E; subst d; apply Hne; reflexivity). lia.
      * right. split; [exact Hic|]. apply coord_id_inj in He; assumption.
    + intros [[H1 H2]|[Hic ->]]; [|right; auto].
      left. split.
      * intros E. apply coord_id_inj in E; try assumption. subst d. assert (gdist moore torus dims c c = 0) by (apply Hz; reflexivity). lia.
      * destruct (dist_ghops Hok moore torus dims (S n) c d Hc Hd H2) as [j [Hj Hgh]].
        exists j. split; [exact Hj|]. apply (ghops_to_id Hok); assumption.
  - intros z Hz. apply nbhd_is_ball in Hz. destruct Hz as [[_ [k [_ Hh]]]|[_ ->]].
    + destruct (hops_id_to_c Hok moore torus dims Hpos k _ _ Hh c Hc eq_refl) as [d [Hd [Hz _]]]. eauto.
    + eauto.
Qed.

(* the hop ball of the coordinate-level connection relation is the metric ball *)
Lemma ball_is_metric : tables_2d_ok = true -> forall moore torus dims r c d, good dims c ->
  ((exists k, (k <= r)%nat /\ ghops (conn_c moore torus dims) k c d) <->
   good dims d /\ gdist moore torus dims c d <= Z.of_nat r).
Proof.
  intros Hok moore torus dims r c d Hc. split.
  - intros [k [Hk Hh]]. destruct (ghops_dist Hok moore torus dims k c d Hh Hc). split; [assumption|lia].
  - intros [Hd Hdist]. apply (dist_ghops Hok); assumption.
Qed.

(* ================================================================== 6. Delaunay certificate (translation validation) *)
Lemma idxs_In {A} (l : list A) i : In i (idxs l) <-> 0 <= i < Z.of_nat (length l).
Proof. unfold idxs. rewrite zrange_In. lia. Qed.

Lemma in_range_In pts i : in_range pts i = true <-> In i (idxs pts).
Proof. unfold in_range. rewrite idxs_In, andb_true_iff, Z.leb_le, Z.ltb_lt. tauto. Qed.

Lemma tri_adj_spec tris i j :
  tri_adj tris i j = true <-> exists t z, In t tris /\ In (i, j, z) (perms3 t).
Proof.
  unfold tri_adj. rewrite existsb_exists. split.
  - intros [t [Ht Hp]]. apply existsb_exists in Hp. destruct Hp as [[[x y] z] [Hin He]].
    apply andb_true_iff in He. destruct He as [E1 E2]. apply Z.eqb_eq in E1, E2. subst. eauto.
  - intros [t [z [Ht Hp]]]. exists t. split; [exact Ht|]. apply existsb_exists.
    exists (i, j, z). split; [exact Hp|]. rewrite !Z.eqb_refl. reflexivity.
Qed.

(* a certified triangulation has exactly the edges the Delaunay specification names *)
Lemma cert_sound pts tris : delaunay_cert pts tris = true ->
  forall i j, In i (idxs pts) -> In j (idxs pts) ->
  (tri_adj tris i j = true <->
   i <> j /\ exists k, In k (idxs pts) /\ k <> i /\ k <> j /\
                       empty_circle pts (pnt pts i) (pnt pts j) (pnt pts k) = true).
Proof.
  unfold delaunay_cert. rewrite andb_true_iff. intros [Hs Hc] i j Hi Hj. split.
  - intros H. apply tri_adj_spec in H. destruct H as [t [z [Ht Hp]]].
    rewrite forallb_forall in Hs. specialize (Hs t Ht). rewrite forallb_forall in Hs.
    specialize (Hs _ Hp). unfold tri_ok in Hs.
    rewrite !andb_true_iff, !negb_true_iff, !Z.eqb_neq in Hs.
    destruct Hs as [[[[[[R1 R2] R3] D1] D2] D3] He].
    split; [exact D1|]. exists z. split; [apply in_range_In; exact R3|]. auto.
  - intros [Hne [k [Hk [Hki [Hkj He]]]]].
    rewrite forallb_forall in Hc. specialize (Hc i Hi). rewrite forallb_forall in Hc.
    specialize (Hc j Hj). rewrite forallb_forall in Hc. specialize (Hc k Hk).
    assert (negb (i =? j) && negb (k =? i) && negb (k =? j) &&
            empty_circle pts (pnt pts i) (pnt pts j) (pnt pts k) = true) as Hpre.
    { rewrite !andb_true_iff, !negb_true_iff, !Z.eqb_neq. auto. }
    rewrite Hpre in Hc. exact Hc.
Qed.

Lemma cert_delaunay pts tris : delaunay_cert pts tris = true -> Z.of_nat (length pts) <> 2 ->
  forall i j, In i (idxs pts) -> In j (idxs pts) -> tri_adj tris i j = delaunay_adj pts i j.
Proof.
  intros Hc Hn i j Hi Hj. pose proof (cert_sound pts tris Hc i j Hi Hj) as Hs.
  assert (delaunay_adj pts i j = true <->
          i <> j /\ exists k, In k (idxs pts) /\ k <> i /\ k <> j /\
                       empty_circle pts (pnt pts i) (pnt pts j) (pnt pts k) = true) as Hd.
  { unfold delaunay_adj, pnt. rewrite andb_true_iff, negb_true_iff, Z.eqb_neq, orb_true_iff, Z.eqb_eq, existsb_exists.
    split.
    - intros [H1 [H2|[k [Hk Hk2]]]]; [contradiction|]. split; [exact H1|]. exists k.
      rewrite !andb_true_iff, !negb_true_iff, !Z.eqb_neq in Hk2. tauto.
    - intros [H1 [k [Hk [H2 [H3 H4]]]]]. split; [exact H1|]. right. exists k. split; [exact Hk|].
      rewrite !andb_true_iff, !negb_true_iff, !Z.eqb_neq. tauto. }
  destruct (tri_adj tris i j), (delaunay_adj pts i j); try reflexivity.
  - symmetry. apply Hd. apply Hs. reflexivity.
  - apply Hs. apply Hd. reflexivity.
Qed.
