(* Bridge between the code-level T1 translation of mesa/agent.py:AgentSet (Generated.Tables: gen_select_fast,
   gen_select_limit, gen_select_keep, gen_select_loop, gen_select_count0, gen_*_inplace, gen_sort_reverse,
   gen_get_branch, gen_agentset_defaults, gen_*_ok - regenerated from the working tree by
   harness/tables/agentset_code.py on every run) and the hand-written model Model/AgentSet.v the C03 theorems
   are about.  The bridge lemmas are proved by case analysis on both sides (+ lia with ZifyBool), so a
   harmless rewrite of a translated condition keeps them checking, a semantic change does not. *)
From Coq Require Import ZArith List Bool Lia ZifyBool Permutation Sorted.
From Mesa Require Import Common.ListX Generated.Tables Model.AgentSet Proofs.AgentSetProofs.
Import ListNotations.
Open Scope Z_scope.

Definition is_none {A} (x : option A) : bool := match x with None => true | Some _ => false end.

(* ---------- at_most: int | float k/2^j | inf ---------- *)
Definition am_inf (am : atmost) : bool := match am with AInf => true | _ => false end.
Definition am_wf (am : atmost) : Prop :=
  match am with AFrac k j => 0 <= j /\ 0 <= k <= 2 ^ j | _ => True end.
(* at_most after the source's conversion statement (meaningless for inf) *)
Definition src_limit (am : atmost) (len : Z) : Z :=
  match am with
  | AInf => 0
  | AInt k => gen_select_limit false k 1 len k
  | AFrac k j => gen_select_limit true k (2 ^ j) len ((k + 2 ^ j - 1) / 2 ^ j)   (* a float > 1.0 stays: ceil *)
  end.

Lemma limit_bridge am len :
  limit am len = if am_inf am then None else Some (src_limit am len).
Proof.
  destruct am as [|k|k j]; simpl; [reflexivity| |].
  - unfold gen_select_limit.
    match goal with |- context [if ?c then _ else _] => destruct c eqn:E end; [exfalso; lia|reflexivity].
  - unfold gen_select_limit.
    destruct (k <=? 2 ^ j) eqn:E1;
      match goal with |- _ = Some (if ?c then _ else _) => destruct c eqn:E end; try reflexivity; exfalso; lia.
Qed.

(* ---------- the fast path ---------- *)
Lemma fast_bridge p am ty : is_fast p am ty = gen_select_fast (is_none p) (is_none ty) (am_inf am).
Proof. destruct p, ty, am; reflexivity. Qed.

(* ---------- the keep test of the generator ---------- *)
Definition filter_result (t : table) (p : option pred) (a : id) : option bool :=
  match p with None => Some true | Some q => eval_pred t q a end.
Definition type_result (t : table) (ty : option Z) (a : id) : bool :=
  match ty with None => true | Some c => isinstance t a c end.
Definition src_keep (t : table) (p : option pred) (ty : option Z) (a : id) : option bool :=
  match filter_result t p a with
  | None => None      (* filter_func(agent) raised *)
  | Some fr => Some (gen_select_keep (is_none p) (is_none ty) fr (type_result t ty a))
  end.

Lemma keep_bridge t p ty a : keep t p ty a = src_keep t p ty a.
Proof.
  unfold keep, src_keep, filter_result, type_result.
  destruct p as [q|]; [destruct (eval_pred t q a) as [[|]|]|]; destruct ty as [c|];
    try destruct (isinstance t a c); reflexivity.
Qed.

(* ---------- the counting loop ---------- *)
Definition lim_inf (lim : option Z) : bool := is_none lim.
Definition lim_val (lim : option Z) : Z := match lim with Some n => n | None => 0 end.

Lemma gen_loop_ext keepf keepf' inf am l : forall count,
  (forall a, keepf a = keepf' a) ->
  gen_select_loop keepf inf am count l = gen_select_loop keepf' inf am count l.
Proof.
  induction l as [|a rest IH]; intros count H; simpl; [reflexivity|].
  rewrite H. destruct (keepf' a) as [[|]|]; rewrite ?IH by exact H; reflexivity.
Qed.

Lemma loop_bridge t p ty lim l : forall count,
  select_loop t p ty lim count l = gen_select_loop (keep t p ty) (lim_inf lim) (lim_val lim) count l.
Proof.
  induction l as [|a rest IH]; intros count; [reflexivity|].
  cbn [select_loop gen_select_loop].
  assert (reached lim count =
          match gen_select_loop (fun _ => None) (lim_inf lim) (lim_val lim) count [a] with Some _ => true | None => false end) as Hb.
  { cbn [gen_select_loop]. unfold reached, lim_inf, lim_val, is_none.
    destruct lim as [n|].
    - match goal with |- context [if ?c then Some [] else _] => destruct c eqn:E end;
        destruct (count >=? n) eqn:E2; try reflexivity; exfalso; lia.
    - match goal with |- context [if ?c then Some [] else _] => destruct c eqn:E end; try reflexivity; exfalso; lia. }
  cbn [gen_select_loop] in Hb.
  rewrite Hb. match goal with |- context [if ?c then Some [] else None] => destruct c eqn:E end; cbv iota.
  - reflexivity.
  - destruct (keep t p ty a) as [[|]|]; [|apply IH|reflexivity].
    rewrite IH.
    match goal with |- context [gen_select_loop _ _ _ ?c rest] => replace c with (count + 1) by lia end.
    reflexivity.
Qed.

(* ---------- select, assembled from the translated pieces only ---------- *)
Definition gen_select_members (t : table) (p : option pred) (am : atmost) (ty : option Z) (m : list id)
  : option (list id) :=
  if gen_select_fast (is_none p) (is_none ty) (am_inf am) then Some m
  else gen_select_loop (src_keep t p ty) (am_inf am) (src_limit am (zlen m)) gen_select_count0 m.

Lemma select_bridge t p am ty m :
  select_members t p am ty m = gen_select_members t p am ty m.
Proof.
  unfold select_members, gen_select_members. rewrite <- fast_bridge.
  destruct (is_fast p am ty); [reflexivity|].
  rewrite loop_bridge, (limit_bridge am).
  replace gen_select_count0 with 0 by (vm_compute; reflexivity).
  rewrite (gen_loop_ext (keep t p ty) (src_keep t p ty)) by (intros a; apply keep_bridge).
  destruct am; reflexivity.
Qed.

Lemma select_spec_of_source t p am ty m r :
  gen_select_members t p am ty m = Some r ->
  r = take_lim (limit am (zlen m)) (filter (keepb t p ty) m).
Proof. intros H. rewrite <- select_bridge in H. apply select_spec. exact H. Qed.

Lemma select_error_of_source t p am ty m :
  (gen_select_members t p am ty m = None <->
   gen_select_fast (is_none p) (is_none ty) (am_inf am) = false /\
   exists pre a post, m = pre ++ a :: post /\ src_keep t p ty a = None /\
     (forall b, In b pre -> src_keep t p ty b <> None) /\
     reached (limit am (zlen m)) (zlen (filter (keepb t p ty) pre)) = false).
Proof.
  rewrite <- select_bridge, <- fast_bridge, select_none_iff.
  split; intros [Hf [pre [a [post [H1 [H2 [H3 H4]]]]]]]; (split; [exact Hf|]); exists pre, a, post;
    (split; [exact H1|]); (split; [|split; [|exact H4]]).
  - rewrite <- keep_bridge. exact H2.
  - intros b Hb. rewrite <- keep_bridge. apply H3. exact Hb.
  - rewrite keep_bridge. exact H2.
  - intros b Hb. rewrite keep_bridge. apply H3. exact Hb.
Qed.

(* ---------- sort: the reverse= argument of sorted() ---------- *)
Definition src_le (asc : bool) : Z -> Z -> bool :=
  if gen_sort_reverse asc then (fun a b => b <=? a) else Z.leb.

Lemma dir_le_bridge asc : dir_le asc = src_le asc.
Proof. destruct asc; reflexivity. Qed.

Definition gen_sort_members (t : table) (k : keyf) (asc : bool) (m : list id) : option (list id) :=
  match all_some (eval_key t k) m with
  | None => None
  | Some _ => Some (isort (src_le asc) (key_or0 t k) m)
  end.

Lemma sort_bridge t k asc m : sort_members t k asc m = gen_sort_members t k asc m.
Proof. unfold sort_members, gen_sort_members. rewrite dir_le_bridge. reflexivity. Qed.

Lemma sort_spec_of_source t k asc m r :
  gen_sort_members t k asc m = Some r ->
  let kf := key_or0 t k in
  Permutation m r /\ key_sorted asc kf r /\
  (forall v, filter (fun a => kf a =? v) r = filter (fun a => kf a =? v) m) /\
  (forall l', key_sorted asc kf l' ->
     (forall v, filter (fun a => kf a =? v) l' = filter (fun a => kf a =? v) m) -> l' = r).
Proof.
  intros H kf. rewrite <- sort_bridge in H. destruct (sort_spec _ _ _ _ _ H) as [H1 [H2 H3]].
  split; [exact H1|]. split; [exact H2|]. split; [exact H3|].
  intros l' Hs Hf. exact (sort_unique _ _ _ _ _ l' H Hs Hf).
Qed.

(* ---------- which form writes in place ---------- *)
Definition src_inplace (r : reorder) (inplace : bool) : bool :=
  match r with
  | RSelect p am ty => if gen_select_fast (is_none p) (is_none ty) (am_inf am)
                       then gen_select_fast_inplace inplace else gen_select_inplace inplace
  | RSort _ _ => gen_sort_inplace inplace
  | RSort2 _ _ _ => gen_sort_inplace inplace
  | RShuffle _ => gen_shuffle_inplace inplace
  end.

Lemma inplace_bridge r b : src_inplace r b = b.
Proof.
  destruct r as [p am ty| | |]; simpl; [destruct (gen_select_fast _ _ _)|..]; destruct b; reflexivity.
Qed.

Lemma step_reorder_of_source st s r inplace d m :
  members st s = Some m -> valid_slot d = true ->
  step st (mk_op s r inplace d) =
  match transform (st_tbl st) r m with
  | TOk x => (store st (if src_inplace r inplace then s else d) x, ROk [b2z (src_inplace r inplace)])
  | TErr => (st, RErr E_ATTR)
  | TIllegal => (st, RIllegal)
  end.
Proof. intros Hm Hd. rewrite inplace_bridge. apply step_reorder; assumption. Qed.

(* ---------- get: the handle_missing / single-name branches ---------- *)
Lemma get_branch_bridge mode (single : bool) :
  gen_get_branch mode single =
  if mode =? 0 then Some (if single then 0 else 1)
  else if mode =? 1 then Some (if single then 2 else 3) else None.
Proof.
  unfold gen_get_branch.
  destruct (mode =? 0) eqn:E0; destruct (mode =? 1) eqn:E1; destruct single;
    repeat match goal with |- context [if ?c then _ else _] => destruct c eqn:? end;
    try reflexivity; exfalso; lia.
Qed.

Lemma get_of_source st s (names : list Z) (single : bool) mode dflt m :
  members st s = Some m ->
  step st (Get s names single mode dflt) =
  match gen_get_branch mode single with
  | None => (st, RErr E_VALUE)                                  (* raise ValueError *)
  | Some tag =>
      let names' := if Z.even tag then firstn 1 names else names in     (* str form / list form *)
      match all_some (get_row (st_tbl st) names' (if tag <? 2 then 0 else 1) dflt) m with
      | Some rows => (st, ROk (zlen rows :: concat rows))
      | None => (st, RErr E_ATTR)
      end
  end.
Proof.
  intros Hm. rewrite get_branch_bridge.
  destruct (mode =? 0) eqn:E0; [|destruct (mode =? 1) eqn:E1].
  - apply Z.eqb_eq in E0. subst mode. rewrite (step_get _ _ _ _ 0 _ _ Hm) by (left; reflexivity).
    destruct single; reflexivity.
  - apply Z.eqb_eq in E1. subst mode. rewrite (step_get _ _ _ _ 1 _ _ Hm) by (right; reflexivity).
    destruct single; reflexivity.
  - unfold members in Hm. unfold step. cbv zeta. rewrite Hm, E0, E1. reflexivity.
Qed.

(* ---------- defaults of the signatures, residual glue ---------- *)
Lemma defaults_bridge : gen_agentset_defaults = (false, [false; false; false], 0, true, true, true).
Proof. reflexivity. Qed.

Lemma glue_ok : gen_select_skeleton_ok = true /\ gen_agentset_glue_ok = true.
Proof. split; reflexivity. Qed.

(* ---------- GroupBy.count / GroupBy.agg: the dict comprehensions, translated ---------- *)
Definition pairs_flat (l : list (Z * Z)) : list Z := flat_map (fun p => [fst p; snd p]) l.

Lemma count_bridge g :
  flat_map (fun e => [fst e; zlen (snd e)]) g = pairs_flat (gen_group_count g).
Proof.
  unfold pairs_flat, gen_group_count. induction g as [|[k v] rest IH]; [reflexivity|].
  cbn [flat_map map fst snd app]. rewrite IH. reflexivity.
Qed.

Definition attr_or0 (t : table) (n : Z) (a : id) : Z := match attr_of t a n with Some v => v | None => 0 end.
Definition agg_or0 (f : aggf) (vals : list Z) : Z := match agg_apply f vals with Some v => v | None => 0 end.

Lemma all_some_default {A} (f : A -> option Z) l r :
  all_some f l = Some r -> r = map (fun a => match f a with Some v => v | None => 0 end) l.
Proof.
  revert r. induction l as [|a t IH]; intros r H; simpl in H; [inversion H; reflexivity|].
  destruct (f a) eqn:Ea; [|discriminate]. destruct (all_some f t) eqn:Et; [|discriminate].
  inversion H. subst. simpl. rewrite Ea, <- (IH _ eq_refl). reflexivity.
Qed.

(* when GroupBy.agg returns, it returns what the translated comprehension computes *)
Lemma agg_bridge t n f g : forall r,
  group_agg t n f g = inl r -> r = pairs_flat (gen_group_agg (agg_or0 f) (attr_or0 t n) g).
Proof.
  unfold pairs_flat, gen_group_agg. induction g as [|[k mem] rest IH]; intros r H; simpl in H; [inversion H; reflexivity|].
  destruct (all_some (fun a => attr_of t a n) mem) as [vals|] eqn:Ev; [|discriminate].
  destruct (agg_apply f vals) as [v|] eqn:Ea; [|discriminate].
  destruct (group_agg t n f rest) as [r'|e] eqn:Er; [|discriminate].
  inversion H. subst r. cbn [flat_map map fst snd app]. rewrite <- (IH _ eq_refl).
  apply all_some_default in Ev.
  f_equal. f_equal. symmetry.
  transitivity (match agg_apply f vals with Some x => x | None => 0 end); [subst vals; reflexivity|rewrite Ea; reflexivity].
Qed.

Lemma step_group_count_of_source st s k m ks :
  members st s = Some m -> all_some (eval_key (st_tbl st) k) m = Some ks ->
  let g := groupby_members (key_or0 (st_tbl st) k) m in
  step st (GroupCount s k) = (st, ROk (zlen g :: pairs_flat (gen_group_count g))).
Proof. intros Hm Hk g. rewrite <- count_bridge. apply (step_group_count st s k m ks Hm Hk). Qed.

Lemma step_group_agg_of_source st s k n f m ks :
  members st s = Some m -> all_some (eval_key (st_tbl st) k) m = Some ks ->
  (forall a, In a m -> attr_of (st_tbl st) a n <> None) ->
  let g := groupby_members (key_or0 (st_tbl st) k) m in
  step st (GroupAgg s k n f) = (st, ROk (pairs_flat (gen_group_agg (agg_or0 f) (attr_or0 (st_tbl st) n) g))).
Proof.
  intros Hm Hk Hall g. destruct (step_group_agg st s k n f m ks Hm Hk) as [_ [_ Hok]].
  rewrite (Hok Hall). f_equal. f_equal. fold g.
  (* the model's value list is what group_agg returns *)
  assert (exists r, group_agg (st_tbl st) n f g = inl r) as [r Hr].
  { pose proof (Hok Hall) as Hs. unfold members in Hm. unfold step in Hs. cbv zeta in Hs. rewrite Hm, Hk in Hs. fold g in Hs.
    destruct (group_agg (st_tbl st) n f g) as [r|e]; [exists r; reflexivity|discriminate]. }
  rewrite <- (agg_bridge _ _ _ _ _ Hr). apply group_agg_ok in Hr. destruct Hr as [-> _]. reflexivity.
Qed.
