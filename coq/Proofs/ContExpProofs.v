From Coq Require Import ZArith List Bool Lia.
From Mesa Require Import Common.ListX Model.ContGeom Model.ContLegacy Model.ContExp.
Import ListNotations.
Open Scope Z_scope.
