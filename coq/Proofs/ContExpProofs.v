(* Lemmas about Model/ContExp.v (experimental ContinuousSpace / ContinuousSpaceAgent):
   - the representation invariant (n = len(active) <= capacity, no duplicates, _agent_to_index = position in
     active_agents) holds in every reachable state, whatever the initial capacity;
   - refinement: every history produces exactly the observations of the abstract specification
     `espec_step` over a map agent -> position (no array, no capacity, no index dictionary);
   - on the specification: position = last assignment (wrapped), agents = added and not removed,
     radius / k-nearest answers exact, rejected assignments change nothing. *)
From Coq Require Import ZArith List Bool Lia Permutation.
From Mesa Require Import Common.ListX Generated.Tables Model.ContGeom Model.ContLegacy Model.ContExp Proofs.ContGeomProofs.
Import ListNotations.
Open Scope Z_scope.

(* ---------------------------------------------------------------- abstract specification *)
Definition amap := list (Z * point).

Definition norm_pos (c : ecfg) (p : point) : result point :=
  if in_closed (ec_bounds c) p then Ok p
  else if ec_torus c then Ok (wrap (ec_bounds c) p) else Err E_OOB.

Definition espec_step (c : ecfg) (m : amap) (o : eop) : amap * option (result (list Z)) :=
  let bs := ec_bounds c in
  match o with
  | EAdd a p =>
      if negb (dim_ok bs p) || mem a (akeys m) || (negb (ec_torus c) && negb (in_closed bs p))
      then (m, None)
      else match norm_pos c p with
           | Ok p' => (m ++ [(a, p')], Some (Ok []))
           | Err k => (m, Some (Err k))
           end
  | ESet a p =>
      if negb (dim_ok bs p) || negb (mem a (akeys m)) then (m, None)
      else match norm_pos c p with
           | Ok p' => (aset a p' m, Some (Ok []))
           | Err k => (m, Some (Err k))
           end
  | ERemove a =>
      if negb (mem a (akeys m)) then (m, None) else (adel a m, Some (Ok []))
  | EClear => ([], Some (Ok []))
  | _ => (m, equery c m (fun a => aget a m) (fun a => aget a m) (length m) o)
  end.

Definition spec_view (m : amap) : list Z :=
  Z.of_nat (length m) :: Z.of_nat (length m)
  :: obs_rows_in_order (map (fun ap : Z * point => fst ap :: snd ap) m) ++ SEP :: akeys m.

Definition spec_obs (m : amap) (r : option (result (list Z))) : list Z :=
  match r with
  | None => obs_noop
  | Some (Err k) => obs_err k ++ SEP :: spec_view m
  | Some (Ok v) => v ++ SEP :: spec_view m
  end.

Fixpoint espec_run (c : ecfg) (m : amap) (ops : list eop) : list (list Z) :=
  match ops with
  | [] => []
  | o :: t => let '(m', r) := espec_step c m o in spec_obs m' r :: espec_run c m' t
  end.

Fixpoint espec_final (c : ecfg) (m : amap) (ops : list eop) : amap :=
  match ops with
  | [] => m
  | o :: t => espec_final c (fst (espec_step c m o)) t
  end.

(* ---------------------------------------------------------------- invariant and abstraction *)
Definition EInv (s : estate) : Prop :=
  e_n s = length (e_active s) /\ (e_n s <= length (e_store s))%nat /\ NoDup (e_active s) /\
  (forall a, aget a (e_a2i s) = index_of a (e_active s)).

(* ... and the model's registry lists exactly the agents of the space, in the same order (every agent of these
   histories is a ContinuousSpaceAgent of the one space: created = registered + added, removed = deregistered + removed) *)
Definition EInvM (s : estate) : Prop := EInv s /\ e_model s = e_active s.

Definition e_abs (s : estate) : amap := combine (e_active s) (e_rows s).

Lemma e_rows_length s : EInv s -> length (e_rows s) = length (e_active s).
Proof. intros [H1 [H2 _]]. unfold e_rows. rewrite firstn_length. lia. Qed.

Lemma e_abs_keys s : EInv s -> akeys (e_abs s) = e_active s.
Proof. intros H. unfold e_abs. apply akeys_combine. symmetry. apply e_rows_length. exact H. Qed.

Lemma e_abs_length s : EInv s -> length (e_abs s) = e_n s.
Proof.
  intros H. unfold e_abs. rewrite combine_length, (e_rows_length s H).
  destruct H as [H1 _]. lia.
Qed.

Lemma getpos_abs s a : EInv s -> e_getpos s a = aget a (e_abs s).
Proof.
  intros [H1 [H2 [H3 H4]]]. unfold e_getpos, get_position, e_abs.
  rewrite aget_combine, H4.
  destruct (mem a (e_active s)) eqn:E; [reflexivity|].
  assert (~ In a (e_active s)) as Hn by (rewrite <- mem_In; congruence).
  apply index_of_None in Hn. rewrite Hn. reflexivity.
Qed.

Lemma init_inv c : EInv (e_init c).
Proof.
  unfold EInv, e_init. cbn [e_n e_active e_store e_a2i length].
  split; [reflexivity|]. split; [lia|]. split; [constructor|]. intros a. reflexivity.
Qed.

Lemma init_invM c : EInvM (e_init c).
Proof. split; [apply init_inv|reflexivity]. Qed.

(* ---------------------------------------------------------------- list facts used below *)
Lemma firstn_exact {A : Type} (r1 r2 : list A) : firstn (length r1) (r1 ++ r2) = r1.
Proof. induction r1 as [|x t IH]; simpl; [destruct r2; reflexivity|]. rewrite IH. reflexivity. Qed.

Lemma firstn_past {A : Type} (r1 r2 : list A) k :
  firstn (length r1 + k) (r1 ++ r2) = r1 ++ firstn k r2.
Proof. induction r1 as [|x t IH]; simpl; [reflexivity|]. rewrite IH. reflexivity. Qed.

Lemma skipn_exact {A : Type} (r1 r2 : list A) : skipn (length r1) (r1 ++ r2) = r2.
Proof. induction r1 as [|x t IH]; simpl; [reflexivity|exact IH]. Qed.

Lemma firstn_app_le {A : Type} (l ext : list A) n : (n <= length l)%nat -> firstn n (l ++ ext) = firstn n l.
Proof.
  intros H. rewrite firstn_app. replace (n - length l)%nat with 0%nat by lia.
  simpl. apply app_nil_r.
Qed.

Lemma in_akeys_combine k (l : list Z) {B : Type} (r : list B) : In k (akeys (combine l r)) -> In k l.
Proof.
  unfold akeys. rewrite in_map_iff. intros [[k' v] [H1 H2]]. simpl in H1. subst k'.
  apply in_combine_l in H2. exact H2.
Qed.

Section AssocMore.
  Context {V : Type}.
  Implicit Types (m : list (Z * V)).

  Lemma aset_app_here k v x m1 m2 :
    ~ In k (akeys m1) -> aset k v (m1 ++ (k, x) :: m2) = m1 ++ (k, v) :: m2.
  Proof.
    induction m1 as [|[k' v'] t IH]; intros H; simpl.
    - rewrite Z.eqb_refl. reflexivity.
    - destruct (k =? k') eqn:E.
      + apply Z.eqb_eq in E. subst. exfalso. apply H. left. reflexivity.
      + rewrite IH; [reflexivity|]. intros H2. apply H. right. exact H2.
  Qed.

  Lemma adel_notin k m : ~ In k (akeys m) -> adel k m = m.
  Proof.
    induction m as [|[k' v'] t IH]; intros H; simpl; [reflexivity|].
    destruct (k =? k') eqn:E.
    - apply Z.eqb_eq in E. subst. exfalso. apply H. left. reflexivity.
    - rewrite IH; [reflexivity|]. intros H2. apply H. right. exact H2.
  Qed.

  Lemma adel_app k m1 m2 : adel k (m1 ++ m2) = adel k m1 ++ adel k m2.
  Proof.
    induction m1 as [|[k' v'] t IH]; simpl; [reflexivity|].
    destruct (k =? k'); simpl; rewrite IH; reflexivity.
  Qed.
End AssocMore.

Lemma NoDup_snoc (l : list Z) a : NoDup l -> ~ In a l -> NoDup (l ++ [a]).
Proof.
  intros H1 H2. apply (Permutation_NoDup (l := a :: l)).
  - apply Permutation_cons_append.
  - constructor; assumption.
Qed.

Lemma NoDup_split (l1 l2 : list Z) a :
  NoDup (l1 ++ a :: l2) -> ~ In a l1 /\ ~ In a l2 /\ NoDup (l1 ++ l2) /\ (forall b, In b l1 -> ~ In b l2).
Proof.
  intros H. pose proof (NoDup_remove_1 _ _ _ H) as H1. pose proof (NoDup_remove_2 _ _ _ H) as H2.
  repeat split.
  - intros Hin. apply H2. apply in_or_app. left. exact Hin.
  - intros Hin. apply H2. apply in_or_app. right. exact Hin.
  - exact H1.
  - intros b Hb1 Hb2. clear H H2. induction l1 as [|x t IH]; [destruct Hb1|].
    simpl in H1. inversion H1 as [|? ? Hx Hnd]. subst. destruct Hb1 as [->|Hb1].
    + apply Hx. apply in_or_app. right. exact Hb2.
    + apply IH; assumption.
Qed.

(* the re-indexing loop: every agent behind the removed one moves up by one *)
Lemma aget_dec_index m x b :
  aget b (dec_index m x) = if b =? x then option_map Nat.pred (aget x m) else aget b m.
Proof.
  unfold dec_index. destruct (aget x m) as [i|] eqn:E.
  - destruct (b =? x) eqn:Eb.
    + apply Z.eqb_eq in Eb. subst. rewrite aget_aset_same. reflexivity.
    + apply Z.eqb_neq in Eb. rewrite aget_aset_other by exact Eb. reflexivity.
  - destruct (b =? x) eqn:Eb; [|reflexivity].
    apply Z.eqb_eq in Eb. subst. rewrite E. reflexivity.
Qed.

Lemma aget_fold_dec t : forall m b, NoDup t ->
  aget b (fold_left dec_index t m) = if mem b t then option_map Nat.pred (aget b m) else aget b m.
Proof.
  induction t as [|x t IH]; intros m b Hnd; simpl; [reflexivity|].
  inversion Hnd as [|? ? Hx Hnd']. subst.
  rewrite IH by exact Hnd'. rewrite !aget_dec_index.
  destruct (b =? x) eqn:Eb.
  - apply Z.eqb_eq in Eb. subst b.
    assert (mem x t = false) as -> by (destruct (mem x t) eqn:E; [apply mem_In in E; contradiction|reflexivity]).
    simpl. reflexivity.
  - simpl. reflexivity.
Qed.

(* ---------------------------------------------------------------- the three mutators *)
Lemma add_agent_inv s a : EInv s -> ~ In a (e_active s) -> EInv (add_agent s a).
Proof.
  intros [H1 [H2 [H3 H4]]] Hn. unfold EInv, add_agent. cbn [e_n e_active e_store e_a2i].
  repeat split.
  - rewrite app_length. simpl. lia.
  - destruct (Nat.leb (length (e_store s)) (e_n s)) eqn:E.
    + rewrite app_length, repeat_length. unfold growth. lia.
    + apply Nat.leb_gt in E. lia.
  - apply NoDup_snoc; assumption.
  - intros b. destruct (Z.eq_dec b a) as [->|Hne].
    + rewrite aget_aset_same, index_of_app_r by exact Hn. simpl. rewrite Z.eqb_refl. simpl.
      f_equal. lia.
    + rewrite aget_aset_other by exact Hne. rewrite H4.
      destruct (in_dec Z.eq_dec b (e_active s)) as [Hin|Hnin].
      * rewrite index_of_app_l by exact Hin. reflexivity.
      * rewrite index_of_app_r by exact Hnin. simpl.
        destruct (b =? a) eqn:E; [apply Z.eqb_eq in E; contradiction|].
        simpl. apply index_of_None. exact Hnin.
Qed.

Lemma add_agent_rows s a : EInv s -> firstn (e_n s) (e_store (add_agent s a)) = e_rows s.
Proof.
  intros [H1 [H2 _]]. unfold add_agent, e_rows. cbn [e_store].
  destruct (Nat.leb (length (e_store s)) (e_n s)); [|reflexivity].
  apply firstn_app_le. exact H2.
Qed.

(* writing the row of an agent: only that agent's entry of the abstract map changes *)
Lemma set_row_inv s idx p : EInv s ->
  EInv {| e_store := list_set idx p (e_store s); e_n := e_n s; e_active := e_active s; e_a2i := e_a2i s; e_model := e_model s |}.
Proof.
  intros [H1 [H2 [H3 H4]]]. unfold EInv. cbn [e_n e_active e_store e_a2i].
  rewrite list_set_length. auto.
Qed.

Lemma set_row_abs s a idx p : EInv s -> index_of a (e_active s) = Some idx ->
  e_abs {| e_store := list_set idx p (e_store s); e_n := e_n s; e_active := e_active s; e_a2i := e_a2i s; e_model := e_model s |}
  = aset a p (e_abs s).
Proof.
  intros [H1 [H2 [H3 H4]]] Hi. unfold e_abs, e_rows. cbn [e_n e_active e_store].
  destruct (index_of_split _ _ _ Hi) as [l1 [l2 [Hl [Hlen Hnot]]]].
  assert (idx < length (e_store s))%nat as Hlt.
  { pose proof (index_of_lt _ _ _ Hi). lia. }
  destruct (split_at (e_store s) idx Hlt) as [r1 [x [r2 [Hr Hrl]]]].
  rewrite Hr, Hl in *. rewrite <- Hrl at 1. rewrite list_set_app.
  rewrite H1, app_length. cbn [length].
  replace (length l1 + S (length l2))%nat with (length r1 + S (length l2))%nat by lia.
  rewrite !firstn_past. cbn [firstn].
  rewrite !combine_app by lia. cbn [combine].
  apply eq_sym, aset_app_here.
  intros Hin. apply Hnot. eapply in_akeys_combine. exact Hin.
Qed.

Lemma remove_agent_ok s a idx : EInv s -> index_of a (e_active s) = Some idx ->
  exists s', remove_agent s a = Ok s' /\ EInv s' /\ e_abs s' = adel a (e_abs s).
Proof.
  intros Hinv Hi. pose proof Hinv as [H1 [H2 [H3 H4]]].
  unfold remove_agent. rewrite H4, Hi. eexists. split; [reflexivity|].
  destruct (index_of_split _ _ _ Hi) as [l1 [l2 [Hl [Hlen Hnot]]]].
  assert (idx < length (e_store s))%nat as Hlt.
  { pose proof (index_of_lt _ _ _ Hi). lia. }
  destruct (split_at (e_store s) idx Hlt) as [r1 [x [r2 [Hr Hrl]]]].
  rewrite Hl in H3. destruct (NoDup_split _ _ _ H3) as [Hn1 [Hn2 [Hnd Hdisj]]].
  assert (Hlen2 : (length l2 <= length r2)%nat).
  { rewrite Hr, Hl in *. rewrite !app_length in *. cbn [length] in *. lia. }
  assert (Hn : e_n s = (length r1 + S (length l2))%nat).
  { rewrite H1, Hl, app_length. cbn [length]. lia. }
  assert (Hact : remove_nth idx (e_active s) = l1 ++ l2).
  { rewrite Hl, <- Hlen. apply remove_nth_app. }
  assert (Hstore : firstn idx (e_store s) ++ firstn (e_n s - 1 - idx) (skipn (S idx) (e_store s))
                   ++ skipn (e_n s - 1) (e_store s)
                   = r1 ++ firstn (length l2) r2 ++ skipn (e_n s - 1) (e_store s)).
  { rewrite Hr. rewrite <- Hrl. rewrite firstn_exact.
    replace (S (length r1)) with (length (r1 ++ [x])) by (rewrite app_length; simpl; lia).
    replace (r1 ++ x :: r2) with ((r1 ++ [x]) ++ r2) by (rewrite <- app_assoc; reflexivity).
    rewrite skipn_exact. replace (e_n s - 1 - length r1)%nat with (length l2) by lia. reflexivity. }
  split; [|].
  - unfold EInv. cbn [e_n e_active e_store e_a2i]. rewrite Hact, Hstore.
    repeat split.
    + rewrite app_length. lia.
    + rewrite !app_length, firstn_length, skipn_length.
      rewrite Hr, app_length. cbn [length]. lia.
    + exact Hnd.
    + intros b. rewrite <- Hlen. rewrite skipn_exact.
      assert (NoDup l2) as Hnd2.
      { clear - Hnd. induction l1 as [|y t IH]; [exact Hnd|]. simpl in Hnd. inversion Hnd. auto. }
      rewrite aget_fold_dec by exact Hnd2.
      destruct (Z.eq_dec b a) as [->|Hne].
      * rewrite aget_adel_same.
        assert (mem a l2 = false) as -> by (destruct (mem a l2) eqn:E; [apply mem_In in E; contradiction|reflexivity]).
        symmetry. apply index_of_None. intros Hin. apply in_app_or in Hin. tauto.
      * rewrite aget_adel_other by exact Hne. rewrite H4, Hl.
        destruct (mem b l2) eqn:Em.
        -- apply mem_In in Em.
           assert (~ In b l1) as Hb1 by (intros Hb; exact (Hdisj b Hb Em)).
           rewrite !index_of_app_r by exact Hb1. cbn [index_of].
           destruct (b =? a) eqn:E; [apply Z.eqb_eq in E; contradiction|].
           destruct (index_of b l2) as [j|]; simpl; [|reflexivity].
           f_equal. lia.
        -- assert (~ In b l2) as Hb2 by (rewrite <- mem_In; congruence).
           destruct (in_dec Z.eq_dec b l1) as [Hb1|Hb1].
           ++ rewrite !index_of_app_l by exact Hb1. reflexivity.
           ++ rewrite !index_of_app_r by exact Hb1. cbn [index_of].
              destruct (b =? a) eqn:E; [apply Z.eqb_eq in E; contradiction|].
              apply index_of_None in Hb2. rewrite Hb2. reflexivity.
  - unfold e_abs, e_rows. cbn [e_n e_active e_store]. rewrite Hact, Hstore.
    replace (e_n s - 1)%nat with (length r1 + length l2)%nat at 1 by lia.
    rewrite firstn_past.
    assert (firstn (length l2) (firstn (length l2) r2 ++ skipn (e_n s - 1) (e_store s)) = firstn (length l2) r2) as ->.
    { replace (length l2) with (length (firstn (length l2) r2)) at 1 by (rewrite firstn_length; lia).
      apply firstn_exact. }
    rewrite Hl, Hr, Hn, firstn_past. cbn [firstn].
    rewrite !combine_app by lia. cbn [combine].
    rewrite adel_app. cbn [adel]. rewrite Z.eqb_refl.
    rewrite !adel_notin; [reflexivity| |].
    + intros Hin. apply Hn2. eapply in_akeys_combine. exact Hin.
    + intros Hin. apply Hn1. eapply in_akeys_combine. exact Hin.
Qed.

(* ---------------------------------------------------------------- one step simulates the specification *)
Lemma positions_of_ext g1 g2 l : (forall a, g1 a = g2 a) -> positions_of g1 l = positions_of g2 l.
Proof. intros H. induction l as [|a t IH]; simpl; [reflexivity|]. rewrite H, IH. reflexivity. Qed.

Lemma equery_ext c m g1 g2 h1 h2 n o :
  (forall a, g1 a = g2 a) -> (forall a, h1 a = h2 a) -> equery c m g1 h1 n o = equery c m g2 h2 n o.
Proof.
  intros H H'. destruct o; simpl; rewrite ?H, ?(positions_of_ext h1 h2 _ H'); reflexivity.
Qed.

Lemma getrow_abs s a : EInv s -> e_getrow s a = aget a (e_abs s).
Proof.
  intros Hinv. rewrite <- (getpos_abs s a Hinv). pose proof Hinv as [H1 [H2 [H3 H4]]].
  unfold e_getrow, e_getpos, get_position, e_rows.
  destruct (mem a (e_active s)); [|reflexivity].
  rewrite H4. destruct (index_of a (e_active s)) as [idx|] eqn:Hi; [|reflexivity].
  pose proof (index_of_lt _ _ _ Hi) as Hlt.
  rewrite <- (firstn_skipn (e_n s) (e_store s)) at 1.
  rewrite nth_error_app1 by (rewrite firstn_length; lia). reflexivity.
Qed.

Lemma mem_active_abs s a : EInv s -> mem a (akeys (e_abs s)) = mem a (e_active s).
Proof. intros H. rewrite e_abs_keys by exact H. reflexivity. Qed.

Lemma set_position_sim c s a p idx : EInv s -> index_of a (e_active s) = Some idx ->
  match norm_pos c p with
  | Ok p' => exists s', set_position c s a p = (s', Ok tt) /\ EInv s' /\ e_abs s' = aset a p' (e_abs s)
  | Err k => set_position c s a p = (s, Err k)
  end.
Proof.
  intros Hinv Hi. pose proof Hinv as [H1 [H2 [H3 H4]]].
  unfold set_position, norm_pos.
  destruct (in_closed (ec_bounds c) p); [|destruct (ec_torus c)]; try reflexivity;
    rewrite H4, Hi; rewrite (e_rows_length s Hinv);
    (assert (Nat.ltb idx (length (e_active s)) = true) as -> by (apply Nat.ltb_lt; eapply index_of_lt; exact Hi));
    eexists; (split; [reflexivity|]); (split; [apply set_row_inv; exact Hinv|apply set_row_abs; assumption]).
Qed.

Lemma akeys_nil_amap (m : amap) : akeys m = [] -> m = [].
Proof. destruct m; [reflexivity|discriminate]. Qed.

Lemma filter_filter_Z (f g : Z -> bool) (l : list Z) :
  filter f (filter g l) = filter (fun x => g x && f x) l.
Proof.
  induction l as [|x t IH]; [reflexivity|]. cbn [filter].
  destruct (g x); cbn [filter andb]; [destruct (f x); rewrite IH; reflexivity|exact IH].
Qed.

Lemma filter_not_mem (l l' : list Z) :
  (forall k, In k l' -> In k l) -> filter (fun k => negb (mem k l)) l' = [].
Proof.
  induction l' as [|x t IH]; intros H; [reflexivity|]. cbn [filter].
  assert (mem x l = true) as -> by (apply mem_In; apply H; left; reflexivity).
  cbn [negb]. apply IH. intros k Hk. apply H. right. exact Hk.
Qed.

Lemma set_position_frame c s a p s' r :
  set_position c s a p = (s', r) -> e_model s' = e_model s /\ e_active s' = e_active s.
Proof.
  unfold set_position.
  destruct (if in_closed (ec_bounds c) p then Ok p else if ec_torus c then Ok (wrap (ec_bounds c) p) else Err E_OOB);
    [|intros H; inversion H; auto].
  destruct (aget a (e_a2i s)); [|intros H; inversion H; auto].
  destruct (Nat.ltb _ _); intros H; inversion H; auto.
Qed.

Lemma register_inv s a : EInv s -> EInv (register s a).
Proof. intros H. exact H. Qed.

Lemma deregister_inv s a : EInv s -> EInv (deregister s a).
Proof. intros H. exact H. Qed.

Lemma remove_agent_model s a s' : remove_agent s a = Ok s' -> e_model s' = e_model s.
Proof. unfold remove_agent. destruct (aget a (e_a2i s)); intros H; inversion H. reflexivity. Qed.

Lemma filter_eqb_sym a (l : list Z) :
  filter (fun b => negb (b =? a)) l = filter (fun x => negb (a =? x)) l.
Proof. apply filter_ext. intros x. rewrite Z.eqb_sym. reflexivity. Qed.

(* ContinuousSpaceAgent.remove(): the agent leaves the model AND the space; nobody else is touched *)
Lemma agent_remove_ok s a : EInvM s -> In a (e_active s) ->
  exists s', agent_remove s a = (s', Ok tt) /\ EInvM s' /\ e_abs s' = adel a (e_abs s) /\
             e_active s' = filter (fun b => negb (b =? a)) (e_active s).
Proof.
  intros [Hinv Hmod] Hin.
  destruct (index_of a (e_active s)) as [idx|] eqn:Hi; [|apply index_of_None in Hi; contradiction].
  destruct (remove_agent_ok (deregister s a) a idx (deregister_inv s a Hinv) Hi) as [s' [Hr [Hinv' Habs']]].
  exists s'. unfold agent_remove. rewrite Hr.
  assert (Hact : e_active s' = filter (fun b => negb (b =? a)) (e_active s)).
  { rewrite <- (e_abs_keys s' Hinv'), Habs', akeys_adel.
    change (e_abs (deregister s a)) with (e_abs s). rewrite (e_abs_keys s Hinv). symmetry. apply filter_eqb_sym. }
  split; [reflexivity|]. split; [split; [exact Hinv'|]|split; [exact Habs'|exact Hact]].
  rewrite (remove_agent_model _ _ _ Hr), Hact. cbn [deregister e_model]. rewrite Hmod. reflexivity.
Qed.

Lemma fold_adel_keys (l : list Z) : forall (m : amap),
  akeys (fold_left (fun m a => adel a m) l m) = filter (fun k => negb (mem k l)) (akeys m).
Proof.
  induction l as [|a t IH]; intros m; cbn [fold_left].
  - cbn [mem existsb negb]. symmetry. clear. induction (akeys m) as [|x r IHr]; [reflexivity|].
    cbn [filter]. unfold mem. cbn [existsb negb]. rewrite IHr at 1. reflexivity.
  - rewrite IH, akeys_adel. rewrite filter_filter_Z. apply filter_ext. intros k.
    unfold mem. cbn [existsb]. rewrite negb_orb, (Z.eqb_sym k a). reflexivity.
Qed.

(* Model.remove_all_agents(): every agent of the snapshot is removed in turn; none is left in the space *)
Lemma remove_all_ok (l : list Z) : forall s, EInvM s -> NoDup l -> (forall a, In a l -> In a (e_active s)) ->
  exists s', remove_all s l = (s', Ok tt) /\ EInvM s' /\
             e_abs s' = fold_left (fun m a => adel a m) l (e_abs s).
Proof.
  induction l as [|a t IH]; intros s Hinv Hnd Hsub; cbn [remove_all fold_left].
  - exists s. auto.
  - inversion Hnd as [|? ? Ha Hnd']. subst.
    destruct (agent_remove_ok s a Hinv (Hsub a (or_introl eq_refl))) as [s1 [Hr [Hinv1 [Habs1 Hact1]]]].
    rewrite Hr.
    destruct (IH s1 Hinv1 Hnd') as [s' [Hr' [Hinv' Habs']]].
    { intros b Hb. rewrite Hact1. apply filter_In. split; [apply Hsub; right; exact Hb|].
      destruct (b =? a) eqn:E; [|reflexivity]. apply Z.eqb_eq in E. subst. contradiction. }
    exists s'. rewrite Hr', Habs', Habs1. auto.
Qed.

Lemma estep_sim c s o : EInvM s ->
  EInvM (fst (estep c s o)) /\
  espec_step c (e_abs s) o = (e_abs (fst (estep c s o)), snd (estep c s o)).
Proof.
  intros HinvM. pose proof HinvM as [Hinv Hmod].
  assert (Hq : forall o', equery c (combine (e_active s) (e_rows s)) (e_getpos s) (e_getrow s) (e_n s) o'
                          = equery c (e_abs s) (fun a => aget a (e_abs s)) (fun a => aget a (e_abs s))
                                   (length (e_abs s)) o').
  { intros o'. rewrite (e_abs_length s Hinv).
    apply equery_ext; intros a; [apply getpos_abs|apply getrow_abs]; exact Hinv. }
  destruct o as [a p|a p|a|q|q r|q k out|q|a r|a k out|a b|q l|q l|];
    try (cbn [estep espec_step fst snd]; rewrite Hq; split; [exact HinvM|reflexivity]).
  - (* EAdd *)
    cbn [estep espec_step]. rewrite (mem_active_abs s a Hinv).
    destruct (negb (dim_ok (ec_bounds c) p) || mem a (e_active s)
              || negb (ec_torus c) && negb (in_closed (ec_bounds c) p)) eqn:Eg;
      [split; [exact HinvM|reflexivity]|].
    apply orb_false_iff in Eg. destruct Eg as [Eg Eoob]. apply orb_false_iff in Eg. destruct Eg as [_ Em].
    assert (~ In a (e_active s)) as Hnin by (rewrite <- mem_In; congruence).
    (* Agent.__init__ registers with the model first; the space fields are untouched by that *)
    set (s0 := register s a).
    assert (Hinv0 : EInv s0) by exact (register_inv s a Hinv).
    assert (Hnin0 : ~ In a (e_active s0)) by exact Hnin.
    assert (Habs0 : e_abs s0 = e_abs s) by reflexivity.
    pose proof (add_agent_inv s0 a Hinv0 Hnin0) as Hinv1.
    assert (Hi : index_of a (e_active (add_agent s0 a)) = Some (e_n s0)).
    { destruct Hinv1 as [_ [_ [_ H4']]]. rewrite <- H4'. unfold add_agent. cbn [e_a2i]. apply aget_aset_same. }
    pose proof (set_position_sim c (add_agent s0 a) a p (e_n s0) Hinv1 Hi) as Hs.
    assert (Hn : exists p', norm_pos c p = Ok p').
    { unfold norm_pos. destruct (in_closed (ec_bounds c) p); [eauto|].
      destruct (ec_torus c); [eauto|]. simpl in Eoob. discriminate. }
    destruct Hn as [p' Hn]. rewrite Hn in *. destruct Hs as [s2 [Hs2 [Hinv2 Habs2]]].
    rewrite Hs2. cbn [fst snd].
    destruct (set_position_frame _ _ _ _ _ _ Hs2) as [Hm2 Ha2].
    split; [split; [exact Hinv2|]|].
    { rewrite Hm2, Ha2. unfold add_agent. cbn [e_model e_active]. unfold s0. cbn [register e_model e_active].
      rewrite Hmod. reflexivity. }
    rewrite Habs2, <- Habs0.
    assert (e_abs (add_agent s0 a) = e_abs s0 ++ combine [a] (firstn 1 (skipn (e_n s0) (e_store (add_agent s0 a))))) as Hab.
    { unfold e_abs at 1. unfold e_rows at 1.
      pose proof Hinv0 as [H1 [H2 _]]. pose proof Hinv1 as [H1' [H2' _]].
      change (e_n (add_agent s0 a)) with (S (e_n s0)) in *.
      change (e_active (add_agent s0 a)) with (e_active s0 ++ [a]).
      rewrite <- (firstn_skipn (e_n s0) (e_store (add_agent s0 a))) at 1.
      replace (S (e_n s0)) with (length (firstn (e_n s0) (e_store (add_agent s0 a))) + 1)%nat
        by (rewrite firstn_length; lia).
      rewrite firstn_past. rewrite combine_app by (rewrite firstn_length; lia).
      rewrite add_agent_rows by exact Hinv0. reflexivity. }
    rewrite Hab.
    pose proof Hinv1 as [H1' [H2' _]]. change (e_n (add_agent s0 a)) with (S (e_n s0)) in *.
    destruct (skipn (e_n s0) (e_store (add_agent s0 a))) as [|x rest] eqn:Esk.
    { exfalso. assert (length (skipn (e_n s0) (e_store (add_agent s0 a))) = 0%nat) as Hz by (rewrite Esk; reflexivity).
      rewrite skipn_length in Hz. lia. }
    cbn [firstn combine]. rewrite aset_app_here; [reflexivity|].
    rewrite (e_abs_keys s0 Hinv0). exact Hnin0.
  - (* ESet *)
    cbn [estep espec_step]. rewrite (mem_active_abs s a Hinv).
    destruct (negb (dim_ok (ec_bounds c) p) || negb (mem a (e_active s))) eqn:Eg;
      [split; [exact HinvM|reflexivity]|].
    apply orb_false_iff in Eg. destruct Eg as [_ Em]. apply negb_false_iff in Em. apply mem_In in Em.
    destruct (index_of a (e_active s)) as [idx|] eqn:Hi; [|apply index_of_None in Hi; contradiction].
    pose proof (set_position_sim c s a p idx Hinv Hi) as Hs.
    destruct (norm_pos c p) as [p'|k].
    + destruct Hs as [s2 [Hs2 [Hinv2 Habs2]]]. rewrite Hs2. cbn [fst snd]. rewrite Habs2.
      destruct (set_position_frame _ _ _ _ _ _ Hs2) as [Hm2 Ha2].
      split; [split; [exact Hinv2|rewrite Hm2, Ha2; exact Hmod]|reflexivity].
    + rewrite Hs. cbn [fst snd]. auto.
  - (* ERemove *)
    cbn [estep espec_step]. rewrite (mem_active_abs s a Hinv).
    destruct (mem a (e_active s)) eqn:Em; cbn [negb]; [|split; [exact HinvM|reflexivity]].
    apply mem_In in Em.
    destruct (agent_remove_ok s a HinvM Em) as [s' [Hr [Hinv' [Habs' _]]]].
    rewrite Hr. cbn [fst snd]. rewrite Habs'. auto.
  - (* EClear *)
    cbn [estep espec_step].
    destruct (remove_all_ok (e_model s) s HinvM) as [s' [Hr [Hinv' Habs']]].
    { rewrite Hmod. apply Hinv. }
    { intros b Hb. rewrite <- Hmod. exact Hb. }
    rewrite Hr. cbn [fst snd]. split; [exact Hinv'|].
    assert (e_abs s' = []) as ->; [|reflexivity].
    apply akeys_nil_amap. rewrite Habs', fold_adel_keys, Hmod, (e_abs_keys s Hinv).
    apply filter_not_mem. auto.
Qed.

(* the view of a state = the view of its abstract map *)
Lemma rows_of_map (m : amap) : NoDup (akeys m) ->
  map (fun a => a :: match aget a m with Some p => p | None => [-999999] end) (akeys m)
  = map (fun ap : Z * point => fst ap :: snd ap) m.
Proof.
  induction m as [|[k v] t IH]; intros Hnd; [reflexivity|].
  simpl in Hnd. inversion Hnd as [|? ? Hk Hnd']. subst.
  cbn [akeys map fst snd aget]. rewrite Z.eqb_refl. f_equal.
  rewrite <- IH by exact Hnd'. apply map_ext_in. intros a Ha.
  destruct (a =? k) eqn:E; [|reflexivity].
  apply Z.eqb_eq in E. subst. contradiction.
Qed.

Lemma view_abs s : EInvM s -> e_view s = spec_view (e_abs s).
Proof.
  intros [Hinv Hmod]. unfold e_view, spec_view.
  rewrite (e_rows_length s Hinv).
  assert (length (e_abs s) = length (e_active s)) as ->
    by (rewrite (e_abs_length s Hinv); apply Hinv).
  rewrite Hmod, (e_abs_keys s Hinv). do 2 f_equal. f_equal. unfold obs_rows_in_order. f_equal.
  rewrite <- rows_of_map by (rewrite (e_abs_keys s Hinv); apply Hinv).
  rewrite (e_abs_keys s Hinv). apply map_ext_in. intros a Ha.
  rewrite <- getpos_abs by exact Hinv. unfold e_getpos.
  apply mem_In in Ha. rewrite Ha. reflexivity.
Qed.

(* ---------------------------------------------------------------- refinement over whole histories *)
Lemma e_run_refines c ops : forall s, EInvM s -> e_run c s ops = espec_run c (e_abs s) ops.
Proof.
  induction ops as [|o t IH]; intros s Hinv; [reflexivity|].
  cbn [e_run espec_run]. destruct (estep_sim c s o Hinv) as [Hinv' Hsim].
  rewrite Hsim. destruct (estep c s o) as [s' r]. cbn [fst snd] in *.
  rewrite IH by exact Hinv'. f_equal.
  unfold e_obs, spec_obs. rewrite (view_abs s' Hinv'). reflexivity.
Qed.

Lemma e_final_refines c ops : forall s, EInvM s ->
  EInvM (e_final c s ops) /\ e_abs (e_final c s ops) = espec_final c (e_abs s) ops.
Proof.
  induction ops as [|o t IH]; intros s Hinv; [split; [exact Hinv|reflexivity]|].
  cbn [e_final espec_final]. destruct (estep_sim c s o Hinv) as [Hinv' Hsim].
  rewrite Hsim. cbn [fst]. apply IH. exact Hinv'.
Qed.

Lemma e_abs_init c : e_abs (e_init c) = [].
Proof. reflexivity. Qed.

(* C10_exp_refines *)
Theorem exp_refines c ops : e_run c (e_init c) ops = espec_run c [] ops.
Proof. rewrite (e_run_refines c ops (e_init c) (init_invM c)). reflexivity. Qed.

(* the invariant in every reachable state, for every initial capacity *)
Theorem exp_reachable_invM c ops : EInvM (e_final c (e_init c) ops).
Proof. apply e_final_refines. apply init_invM. Qed.

Theorem exp_reachable_inv c ops : EInv (e_final c (e_init c) ops).
Proof. apply exp_reachable_invM. Qed.

(* ---------------------------------------------------------------- what the specification says *)
(* the position of agent a after a history depends only on the operations that name a *)
Definition e_track (c : ecfg) (a : Z) (cur : option point) (o : eop) : option point :=
  let bs := ec_bounds c in
  match o with
  | EAdd b p =>
      if (b =? a) && dim_ok bs p && match cur with None => true | Some _ => false end
      then match norm_pos c p with Ok p' => Some p' | Err _ => cur end
      else cur
  | ESet b p =>
      if (b =? a) && dim_ok bs p && match cur with None => false | Some _ => true end
      then match norm_pos c p with Ok p' => Some p' | Err _ => cur end
      else cur
  | ERemove b => if b =? a then None else cur
  | EClear => None
  | _ => cur
  end.

Lemma aget_app_new (m : amap) b p a :
  aget a (m ++ [(b, p)]) = match aget a m with Some v => Some v | None => if a =? b then Some p else None end.
Proof.
  induction m as [|[k v] t IH]; simpl; [reflexivity|].
  destruct (a =? k); [reflexivity|exact IH].
Qed.

Lemma mem_keys_aget (m : amap) a : mem a (akeys m) = match aget a m with Some _ => true | None => false end.
Proof.
  destruct (aget a m) eqn:E.
  - apply mem_In. destruct (in_dec Z.eq_dec a (akeys m)) as [H|H]; [exact H|].
    apply aget_None_keys in H. congruence.
  - apply aget_None_keys in E. destruct (mem a (akeys m)) eqn:Em; [apply mem_In in Em; contradiction|reflexivity].
Qed.

Lemma espec_step_track c m o a :
  aget a (fst (espec_step c m o)) = e_track c a (aget a m) o.
Proof.
  destruct o as [b p|b p|b|q|q r|q k out|q|b r|b k out|b b'|q l|q l|]; cbn [espec_step e_track fst]; try reflexivity.
  - (* EAdd *)
    rewrite (mem_keys_aget m b).
    destruct (Z.eq_dec b a) as [->|Hne].
    + rewrite Z.eqb_refl. cbn [andb].
      destruct (dim_ok (ec_bounds c) p); cbn [negb orb andb]; [|reflexivity].
      destruct (aget a m) as [v|] eqn:Ea; cbn [orb fst]; [exact Ea|].
      unfold norm_pos.
      destruct (ec_torus c), (in_closed (ec_bounds c) p); cbn [negb andb fst];
        rewrite ?aget_app_new, ?Ea, ?Z.eqb_refl; reflexivity.
    + assert (b =? a = false) as -> by (apply Z.eqb_neq; exact Hne). cbn [andb].
      destruct (negb (dim_ok (ec_bounds c) p) || match aget b m with Some _ => true | None => false end
                || negb (ec_torus c) && negb (in_closed (ec_bounds c) p)); [reflexivity|].
      destruct (norm_pos c p); [|reflexivity]. cbn [fst]. rewrite aget_app_new.
      destruct (aget a m); [reflexivity|].
      assert (a =? b = false) as -> by (apply Z.eqb_neq; congruence). reflexivity.
  - (* ESet *)
    rewrite (mem_keys_aget m b).
    destruct (Z.eq_dec b a) as [->|Hne].
    + rewrite Z.eqb_refl. cbn [andb].
      destruct (dim_ok (ec_bounds c) p); cbn [negb orb andb]; [|reflexivity].
      destruct (aget a m) as [v|] eqn:Ea; cbn [negb orb]; [|cbn [fst]; exact Ea].
      destruct (norm_pos c p); cbn [fst]; [apply aget_aset_same|exact Ea].
    + assert (b =? a = false) as -> by (apply Z.eqb_neq; exact Hne). cbn [andb].
      destruct (negb (dim_ok (ec_bounds c) p) || negb match aget b m with Some _ => true | None => false end); [reflexivity|].
      destruct (norm_pos c p); [|reflexivity]. cbn [fst]. apply aget_aset_other. congruence.
  - (* ERemove *)
    rewrite (mem_keys_aget m b).
    destruct (Z.eq_dec b a) as [->|Hne].
    + rewrite Z.eqb_refl. destruct (aget a m) eqn:Ea; cbn [negb fst]; [apply aget_adel_same|exact Ea].
    + assert (b =? a = false) as -> by (apply Z.eqb_neq; exact Hne).
      destruct (aget b m); cbn [negb fst]; [|reflexivity]. apply aget_adel_other. congruence.
Qed.

Lemma espec_final_track c ops a : forall m,
  aget a (espec_final c m ops) = fold_left (e_track c a) ops (aget a m).
Proof.
  induction ops as [|o t IH]; intros m; [reflexivity|].
  cbn [espec_final fold_left]. rewrite IH, espec_step_track. reflexivity.
Qed.

(* C10_exp_position_last_assigned: through the array, the index dictionary, growth and compaction,
   an agent reports exactly what the history of operations naming it says *)
Theorem exp_position_last_assigned c ops a :
  e_getpos (e_final c (e_init c) ops) a = fold_left (e_track c a) ops None.
Proof.
  destruct (e_final_refines c ops (e_init c) (init_invM c)) as [[Hinv Hmod] Habs].
  rewrite (getpos_abs _ a Hinv), Habs. apply espec_final_track.
Qed.

(* C10_exp_agents_exact: space.agents = the agents added and not removed, without duplicates *)
Theorem exp_agents_exact c ops a :
  NoDup (e_active (e_final c (e_init c) ops)) /\
  (In a (e_active (e_final c (e_init c) ops)) <-> fold_left (e_track c a) ops None <> None).
Proof.
  destruct (e_final_refines c ops (e_init c) (init_invM c)) as [[Hinv Hmod] Habs].
  split; [apply Hinv|].
  rewrite <- (exp_position_last_assigned c ops a), (getpos_abs _ a Hinv).
  rewrite <- (e_abs_keys _ Hinv). split.
  - intros Hin Hnone. apply aget_None_keys in Hnone. contradiction.
  - intros Hne. destruct (in_dec Z.eq_dec a (akeys (e_abs (e_final c (e_init c) ops)))) as [H|H]; [exact H|].
    apply aget_None_keys in H. contradiction.
Qed.

(* the IndexError / KeyError paths of the implementation are unreachable *)
Theorem exp_no_internal_error c ops o s' e :
  estep c (e_final c (e_init c) ops) o = (s', Some (Err e)) -> e = E_OOB.
Proof.
  intros H. pose proof (exp_reachable_invM c ops) as Hinv.
  destruct (estep_sim c _ o Hinv) as [_ Hsim]. rewrite H in Hsim. cbn [fst snd] in Hsim.
  revert Hsim. generalize (e_abs (e_final c (e_init c) ops)) as m. intros m.
  destruct o as [b p|b p|b|q|q r|q k out|q|b r|b k out|b b'|q l|q l|]; cbn [espec_step].
  - destruct (_ || _ || _) eqn:Eg; [intros Hs; inversion Hs|].
    unfold norm_pos. destruct (in_closed (ec_bounds c) p); [intros Hs; inversion Hs|].
    destruct (ec_torus c); intros Hs; inversion Hs. reflexivity.
  - destruct (_ || _); [intros Hs; inversion Hs|].
    unfold norm_pos. destruct (in_closed (ec_bounds c) p); [intros Hs; inversion Hs|].
    destruct (ec_torus c); intros Hs; inversion Hs. reflexivity.
  - destruct (negb _); intros Hs; inversion Hs.
  - cbn [equery]. destruct (negb _); intros Hs; inversion Hs.
  - cbn [equery]. destruct (negb _); intros Hs; inversion Hs.
  - cbn [equery]. destruct (_ || _ || _); [intros Hs; inversion Hs|].
    destruct (knn_legal _ _ _); intros Hs; inversion Hs.
  - cbn [equery]. destruct (negb _); intros Hs; inversion Hs.
  - cbn [equery]. destruct (if r <? 0 then None else aget b m); intros Hs; inversion Hs.
  - cbn [equery]. destruct (aget b m); [|intros Hs; inversion Hs].
    destruct (_ || _); [intros Hs; inversion Hs|].
    destruct (knn_legal _ _ _); intros Hs; inversion Hs.
  - cbn [equery]. destruct (aget b m); [|intros Hs; inversion Hs].
    destruct (aget b' m); intros Hs; inversion Hs.
  - cbn [equery]. destruct (negb _); [intros Hs; inversion Hs|].
    destruct (positions_of _ l); intros Hs; inversion Hs.
  - cbn [equery]. destruct (negb _); [intros Hs; inversion Hs|].
    destruct (positions_of _ l); intros Hs; inversion Hs.
  - intros Hs; inversion Hs.
Qed.

(* C18_continuous_atomic_exp_position: a rejected call leaves the whole state unchanged *)
Theorem exp_atomic c ops o s' e :
  estep c (e_final c (e_init c) ops) o = (s', Some (Err e)) -> s' = e_final c (e_init c) ops.
Proof.
  intros H. pose proof (exp_reachable_invM c ops) as HinvM.
  destruct (estep_sim c _ o HinvM) as [_ Hsim]. rewrite H in Hsim. cbn [fst snd] in Hsim.
  revert H Hsim. generalize (e_abs (e_final c (e_init c) ops)) as m.
  generalize dependent (e_final c (e_init c) ops). intros s HinvM m.
  destruct o as [b p|b p|b|q|q r|q k out|q|b r|b k out|b b'|q l|q l|]; cbn [estep espec_step];
    try (intros H _; inversion H; reflexivity).
  - (* EAdd: never rejected *)
    intros _. destruct (_ || _ || _) eqn:Eg; [intros Hs; inversion Hs|].
    apply orb_false_iff in Eg. destruct Eg as [_ Eoob].
    unfold norm_pos. destruct (in_closed (ec_bounds c) p); [intros Hs; inversion Hs|].
    destruct (ec_torus c); [intros Hs; inversion Hs|]. simpl in Eoob. discriminate.
  - (* ESet: rejected before anything is written *)
    intros H _. revert H. destruct (_ || _) eqn:Eg; [intros H; inversion H|].
    unfold set_position.
    destruct (in_closed (ec_bounds c) p); [|destruct (ec_torus c)].
    + destruct (aget b (e_a2i s)); [|intros H; inversion H; reflexivity].
      destruct (Nat.ltb _ _); intros H; inversion H; reflexivity.
    + destruct (aget b (e_a2i s)); [|intros H; inversion H; reflexivity].
      destruct (Nat.ltb _ _); intros H; inversion H; reflexivity.
    + intros H; inversion H; reflexivity.
  - (* ERemove: never fails *)
    intros _. destruct (negb _); intros Hs; inversion Hs.
  - (* EClear: never fails *)
    intros _ Hs. inversion Hs.
Qed.

(* ---------------------------------------------------------------- query answers *)
Lemma distances_spec c (m : amap) q a d :
  In (a, d) (distances c m q) <-> exists p, In (a, p) m /\ d = dist2 (ec_torus c) (ec_bounds c) p q.
Proof.
  unfold distances. rewrite in_map_iff. split.
  - intros [[a' p] [H1 H2]]. simpl in H1. inversion H1. subst. exists p. auto.
  - intros [p [H1 H2]]. exists (a, p). simpl. subst. auto.
Qed.

(* C10_radius_exact *)
Theorem radius_exact c (m : amap) q r a d :
  In (a, d) (in_radius c m q r) <->
  exists p, In (a, p) m /\ d = dist2 (ec_torus c) (ec_bounds c) p q /\ 0 <= r /\ d <= r * r.
Proof.
  unfold in_radius. rewrite filter_In, distances_spec. cbn [snd].
  rewrite andb_true_iff, !Z.leb_le. split.
  - intros [[p [H1 H2]] [H3 H4]]. exists p. auto.
  - intros [p [H1 [H2 [H3 H4]]]]. split; [exists p; auto|auto].
Qed.

(* C10_knearest: every outcome the model accepts has k distinct agents of the space,
   none of them farther than an agent left out *)
Theorem knn_legal_sound ds k out :
  knn_legal ds k out = true ->
  length out = k /\ NoDup out /\ (forall a, In a out -> In a (akeys ds)) /\
  (forall a b d, In a out -> In (b, d) ds -> ~ In b out -> dist_of ds a <= d).
Proof.
  unfold knn_legal. rewrite !andb_true_iff. intros [[[H1 H2] H3] H4].
  apply Nat.eqb_eq in H1. apply negb_true_iff in H2. apply has_dup_false_NoDup in H2.
  rewrite forallb_forall in H3. rewrite forallb_forall in H4.
  repeat split; try assumption.
  - intros a Ha. apply mem_In. apply H3. exact Ha.
  - intros a b d Ha Hb Hnb. specialize (H4 a Ha). rewrite forallb_forall in H4.
    specialize (H4 (b, d) Hb). cbn [fst snd] in H4. apply orb_true_iff in H4.
    destruct H4 as [H4|H4]; [apply mem_In in H4; contradiction|apply Z.leb_le; exact H4].
Qed.

Lemma dist_of_spec c (m : amap) q a :
  NoDup (akeys m) -> forall p, In (a, p) m -> dist_of (distances c m q) a = dist2 (ec_torus c) (ec_bounds c) p q.
Proof.
  intros Hnd p Hin. unfold dist_of, distances.
  induction m as [|[k v] t IH]; [destruct Hin|].
  simpl in Hnd. inversion Hnd as [|? ? Hk Hnd']. subst.
  cbn [map aget fst snd]. destruct (a =? k) eqn:E.
  - apply Z.eqb_eq in E. subst k. destruct Hin as [Hin|Hin]; [inversion Hin; reflexivity|].
    exfalso. apply Hk. unfold akeys. apply in_map_iff. exists (a, p). auto.
  - destruct Hin as [Hin|Hin]; [inversion Hin; subst; rewrite Z.eqb_refl in E; discriminate|].
    apply IH; assumption.
Qed.

(* ---------------------------------------------------------------- bounds *)
Lemma norm_pos_in_bounds c p p' :
  bounds_ok (ec_bounds c) = true -> norm_pos c p = Ok p' -> in_closed (ec_bounds c) p' = true.
Proof.
  intros Hb. unfold norm_pos. destruct (in_closed (ec_bounds c) p) eqn:E.
  - intros H. inversion H. subst. exact E.
  - destruct (ec_torus c); intros H; inversion H. apply wrap_in_closed. exact Hb.
Qed.

Lemma e_track_in_bounds c a cur o :
  bounds_ok (ec_bounds c) = true ->
  (forall p, cur = Some p -> in_closed (ec_bounds c) p = true) ->
  forall p, e_track c a cur o = Some p -> in_closed (ec_bounds c) p = true.
Proof.
  intros Hb Hcur p. destruct o; cbn [e_track]; try (apply Hcur).
  - destruct (_ && _ && _); [|apply Hcur].
    destruct (norm_pos c p0) eqn:En; [|apply Hcur]. intros H. inversion H. subst.
    eapply norm_pos_in_bounds; eassumption.
  - destruct (_ && _ && _); [|apply Hcur].
    destruct (norm_pos c p0) eqn:En; [|apply Hcur]. intros H. inversion H. subst.
    eapply norm_pos_in_bounds; eassumption.
  - destruct (_ =? _); [discriminate|apply Hcur].
  - discriminate.
Qed.

(* C10_torus_in_bounds (experimental): every reported position lies inside the closed bounds *)
Theorem exp_positions_in_bounds c ops a p :
  bounds_ok (ec_bounds c) = true ->
  e_getpos (e_final c (e_init c) ops) a = Some p -> in_closed (ec_bounds c) p = true.
Proof.
  intros Hb. rewrite exp_position_last_assigned.
  assert (forall cur, (forall p, cur = Some p -> in_closed (ec_bounds c) p = true) ->
                      forall p, fold_left (e_track c a) ops cur = Some p -> in_closed (ec_bounds c) p = true) as H.
  { induction ops as [|o t IH]; intros cur Hcur p'; cbn [fold_left]; [apply Hcur|].
    apply IH. apply e_track_in_bounds; assumption. }
  apply H. intros p' Hp. discriminate.
Qed.

(* C10_bounded_reject (experimental): on a bounded space an assignment outside the bounds raises
   and nothing changes; on a torus every assignment of the right dimension to a present agent is accepted *)
Theorem exp_bounded_reject c s a p :
  ec_torus c = false -> in_closed (ec_bounds c) p = false ->
  estep c s (ESet a p) = (s, None) \/ estep c s (ESet a p) = (s, Some (Err E_OOB)).
Proof.
  intros Ht Hc. cbn [estep]. destruct (_ || _); [left; reflexivity|right].
  unfold set_position. rewrite Hc, Ht. reflexivity.
Qed.

Theorem exp_torus_accepts c ops a p :
  ec_torus c = true -> dim_ok (ec_bounds c) p = true -> In a (e_active (e_final c (e_init c) ops)) ->
  snd (estep c (e_final c (e_init c) ops) (ESet a p)) = Some (Ok []).
Proof.
  intros Ht Hd Hin. pose proof (exp_reachable_inv c ops) as Hinv.
  destruct (estep_sim c _ (ESet a p) (exp_reachable_invM c ops)) as [_ Hsim].
  cbn [espec_step] in Hsim. rewrite (mem_active_abs _ a Hinv), Hd in Hsim.
  apply mem_In in Hin. rewrite Hin in Hsim. cbn [negb orb] in Hsim.
  unfold norm_pos in Hsim. rewrite Ht in Hsim.
  destruct (in_closed (ec_bounds c) p); inversion Hsim as [[H0 H1]]; symmetry; exact H1.
Qed.



(* ---------------------------------------------------------------- end to end: answers in terms of the history *)
Lemma In_aget {V : Type} (m : list (Z * V)) a v : NoDup (akeys m) -> (In (a, v) m <-> aget a m = Some v).
Proof.
  intros Hnd. split; [|apply aget_In].
  induction m as [|[k w] t IH]; intros Hin; [destruct Hin|].
  simpl in Hnd. inversion Hnd as [|? ? Hk Hnd']. subst. simpl.
  destruct Hin as [Hin|Hin].
  - inversion Hin. subst. rewrite Z.eqb_refl. reflexivity.
  - destruct (a =? k) eqn:E.
    + apply Z.eqb_eq in E. subst. exfalso. apply Hk. unfold akeys. apply in_map_iff. exists (k, v). auto.
    + apply IH; assumption.
Qed.

Lemma reachable_abs c ops :
  let s := e_final c (e_init c) ops in
  NoDup (akeys (e_abs s)) /\ forall a p, In (a, p) (e_abs s) <-> fold_left (e_track c a) ops None = Some p.
Proof.
  cbn zeta. pose proof (exp_reachable_inv c ops) as Hinv.
  assert (NoDup (akeys (e_abs (e_final c (e_init c) ops)))) as Hnd
    by (rewrite (e_abs_keys _ Hinv); apply Hinv).
  split; [exact Hnd|]. intros a p. rewrite (In_aget _ a p Hnd).
  rewrite <- (getpos_abs _ a Hinv), exp_position_last_assigned. reflexivity.
Qed.

(* the radius query issued after ANY history answers exactly: the agents whose last assigned (wrapped) position
   is within the radius, each with that distance *)
Theorem exp_radius_end_to_end c ops q r a d :
  let s := e_final c (e_init c) ops in
  snd (estep c s (ERadius q r)) = snd (espec_step c (e_abs s) (ERadius q r)) /\
  (In (a, d) (in_radius c (e_abs s) q r) <->
   exists p, fold_left (e_track c a) ops None = Some p /\
             d = dist2 (ec_torus c) (ec_bounds c) p q /\ 0 <= r /\ d <= r * r).
Proof.
  cbn zeta. split.
  - destruct (estep_sim c _ (ERadius q r) (exp_reachable_invM c ops)) as [_ H]. rewrite H. reflexivity.
  - rewrite radius_exact. destruct (reachable_abs c ops) as [_ Hin]. split.
    + intros [p [H1 H2]]. exists p. split; [apply Hin; exact H1|exact H2].
    + intros [p [H1 H2]]. exists p. split; [apply Hin; exact H1|exact H2].
Qed.

(* a k-nearest outcome accepted after ANY history: k distinct agents of the space, reported with the distance of
   their last assigned position, none farther than an agent of the space that was left out *)
Theorem exp_knearest_end_to_end c ops q k out :
  let s := e_final c (e_init c) ops in
  knn_legal (distances c (e_abs s) q) k out = true ->
  length out = k /\ NoDup out /\
  forall a, In a out ->
    exists p, fold_left (e_track c a) ops None = Some p /\
      dist_of (distances c (e_abs s) q) a = dist2 (ec_torus c) (ec_bounds c) p q /\
      forall b pb, fold_left (e_track c b) ops None = Some pb -> ~ In b out ->
        dist2 (ec_torus c) (ec_bounds c) p q <= dist2 (ec_torus c) (ec_bounds c) pb q.
Proof.
  cbn zeta. intros Hl. destruct (knn_legal_sound _ _ _ Hl) as [H1 [H2 [H3 H4]]].
  destruct (reachable_abs c ops) as [Hnd Hin]. cbn zeta in *.
  split; [exact H1|]. split; [exact H2|]. intros a Ha.
  specialize (H3 a Ha). unfold akeys, distances in H3. rewrite map_map in H3. cbn [fst] in H3.
  apply in_map_iff in H3. destruct H3 as [[a' p] [Ea Hp]]. cbn [fst] in Ea. subst a'.
  exists p. split; [apply Hin; exact Hp|].
  pose proof (dist_of_spec c _ q a Hnd p Hp) as Hd. split; [exact Hd|].
  intros b pb Hb Hnb. rewrite <- Hd.
  apply (H4 a b _ Ha); [|exact Hnb].
  apply distances_spec. exists pb. split; [apply Hin; exact Hb|reflexivity].
Qed.

(* ---------------------------------------------------------------- every k in 1..n has a legal answer *)
From Coq Require Import Sorted.

Fixpoint dinsert (x : Z * Z) (l : list (Z * Z)) : list (Z * Z) :=
  match l with
  | [] => [x]
  | y :: t => if snd x <=? snd y then x :: l else y :: dinsert x t
  end.
Definition dsort (l : list (Z * Z)) : list (Z * Z) := fold_right dinsert [] l.
Definition dle (x y : Z * Z) : Prop := snd x <= snd y.

Lemma dinsert_perm x l : Permutation (x :: l) (dinsert x l).
Proof.
  induction l as [|y t IH]; simpl; [reflexivity|].
  destruct (snd x <=? snd y); [reflexivity|]. rewrite perm_swap. constructor. exact IH.
Qed.

Lemma dsort_perm l : Permutation l (dsort l).
Proof.
  induction l as [|x t IH]; simpl; [constructor|]. rewrite <- dinsert_perm. constructor. exact IH.
Qed.

Lemma dinsert_sorted x l : StronglySorted dle l -> StronglySorted dle (dinsert x l).
Proof.
  induction l as [|y t IH]; intros Hs; simpl.
  - constructor; constructor.
  - inversion Hs as [|? ? Hs' Hall]. subst.
    destruct (snd x <=? snd y) eqn:E.
    + apply Z.leb_le in E. constructor; [exact Hs|]. constructor; [exact E|].
      eapply Forall_impl; [|exact Hall]. intros z Hz. unfold dle in *. lia.
    + apply Z.leb_gt in E. constructor; [apply IH; exact Hs'|].
      apply (Permutation_Forall (dinsert_perm x t)). constructor; [unfold dle; lia|exact Hall].
Qed.

Lemma dsort_sorted l : StronglySorted dle (dsort l).
Proof. induction l as [|x t IH]; simpl; [constructor|]. apply dinsert_sorted. exact IH. Qed.

Lemma sorted_app_le (l1 l2 : list (Z * Z)) x y :
  StronglySorted dle (l1 ++ l2) -> In x l1 -> In y l2 -> snd x <= snd y.
Proof.
  induction l1 as [|z t IH]; intros Hs Hx Hy; [destruct Hx|].
  simpl in Hs. inversion Hs as [|? ? Hs' Hall]. subst. destruct Hx as [->|Hx].
  - rewrite Forall_forall in Hall. apply (Hall y). apply in_or_app. right. exact Hy.
  - apply IH; assumption.
Qed.

Lemma NoDup_has_dup_false l : NoDup l -> has_dup l = false.
Proof.
  induction l as [|x t IH]; intros H; [reflexivity|].
  inversion H as [|? ? Hx Hnd]. subst. simpl. apply orb_false_iff. split; [|apply IH; exact Hnd].
  destruct (existsb (Z.eqb x) t) eqn:E; [|reflexivity].
  exfalso. apply Hx. apply mem_In. exact E.
Qed.

Lemma NoDup_app_l {A : Type} (l1 l2 : list A) : NoDup (l1 ++ l2) -> NoDup l1.
Proof.
  induction l1 as [|x t IH]; intros H; [constructor|].
  simpl in H. inversion H as [|? ? Hx Hnd]. subst. constructor; [|apply IH; exact Hnd].
  intros Hin. apply Hx. apply in_or_app. left. exact Hin.
Qed.

(* the k entries of smallest distance (ties broken by insertion order) are a legal k-nearest outcome *)
Theorem knn_exists (ds : list (Z * Z)) k :
  NoDup (akeys ds) -> (k <= length ds)%nat ->
  knn_legal ds k (map fst (firstn k (dsort ds))) = true.
Proof.
  intros Hnd Hk. pose proof (dsort_perm ds) as Hp. pose proof (dsort_sorted ds) as Hs.
  assert (Hsplit : dsort ds = firstn k (dsort ds) ++ skipn k (dsort ds)) by (symmetry; apply firstn_skipn).
  assert (Hkeys : Permutation (akeys ds) (map fst (dsort ds))) by (apply Permutation_map; exact Hp).
  unfold knn_legal. rewrite !andb_true_iff. repeat split.
  - apply Nat.eqb_eq. rewrite map_length, firstn_length, <- (Permutation_length Hp). lia.
  - apply negb_true_iff. apply NoDup_has_dup_false.
    apply (NoDup_app_l _ (map fst (skipn k (dsort ds)))). rewrite <- map_app, <- Hsplit.
    apply (Permutation_NoDup Hkeys). exact Hnd.
  - apply forallb_forall. intros a Ha. apply mem_In.
    apply (Permutation_in _ (Permutation_sym Hkeys)).
    rewrite Hsplit, map_app. apply in_or_app. left. exact Ha.
  - apply forallb_forall. intros a Ha. apply forallb_forall. intros [b d] Hb. cbn [fst snd].
    apply (Permutation_in _ Hp) in Hb. rewrite Hsplit in Hb. apply in_app_or in Hb.
    apply orb_true_iff. destruct Hb as [Hb|Hb].
    + left. apply mem_In. apply in_map_iff. exists (b, d). auto.
    + right. apply Z.leb_le. apply in_map_iff in Ha. destruct Ha as [[a' da] [Ea Ha]]. cbn [fst] in Ea. subst a'.
      assert (In (a, da) ds) as Hin.
      { apply (Permutation_in _ (Permutation_sym Hp)). rewrite Hsplit. apply in_or_app. left. exact Ha. }
      unfold dist_of. rewrite (proj1 (In_aget ds a da Hnd) Hin).
      rewrite Hsplit in Hs. exact (sorted_app_le _ _ (a, da) (b, d) Hs Ha Hb).
Qed.

Theorem exp_knearest_exists c ops q k :
  let s := e_final c (e_init c) ops in
  (k <= e_n s)%nat -> exists out, knn_legal (distances c (e_abs s) q) k out = true.
Proof.
  cbn zeta. intros Hk. pose proof (exp_reachable_inv c ops) as Hinv.
  destruct (reachable_abs c ops) as [Hnd _]. cbn zeta in Hnd.
  eexists. apply knn_exists.
  - unfold akeys, distances. rewrite map_map. cbn [fst]. exact Hnd.
  - unfold distances. rewrite map_length, (e_abs_length _ Hinv). exact Hk.
Qed.

(* C18_continue: after a rejected call the rest of the history behaves as if the call had not been made *)
Theorem exp_continue c ops o s' e rest :
  estep c (e_final c (e_init c) ops) o = (s', Some (Err e)) ->
  e_run c s' rest = e_run c (e_final c (e_init c) ops) rest.
Proof. intros H. rewrite (exp_atomic c ops o s' e H). reflexivity. Qed.

(* ---------------------------------------------------------------- unaffected by other agents *)
Definition e_names (a : Z) (o : eop) : bool :=
  match o with EAdd b _ | ESet b _ | ERemove b => b =? a | EClear => true | _ => false end.

Lemma e_track_other c a cur o : e_names a o = false -> e_track c a cur o = cur.
Proof. destruct o; cbn [e_names e_track]; intros H; try discriminate H; try rewrite H; reflexivity. Qed.

Lemma e_track_filter c a ops : forall cur,
  fold_left (e_track c a) ops cur = fold_left (e_track c a) (filter (e_names a) ops) cur.
Proof.
  induction ops as [|o t IH]; intros cur; [reflexivity|]. cbn [fold_left filter].
  destruct (e_names a o) eqn:E; cbn [fold_left]; [apply IH|].
  rewrite (e_track_other c a cur o E). apply IH.
Qed.

(* deleting from a history every operation that does not name agent a (adds, moves, removals of other agents,
   all queries) - and changing the initial capacity - does not change the position a reports *)
Theorem exp_position_independent c c' ops a :
  ec_bounds c' = ec_bounds c -> ec_torus c' = ec_torus c ->
  e_getpos (e_final c (e_init c) ops) a
  = e_getpos (e_final c' (e_init c') (filter (e_names a) ops)) a.
Proof.
  intros Hb Ht. rewrite !exp_position_last_assigned, (e_track_filter c a ops None).
  generalize (filter (e_names a) ops). intros l. generalize (@None point).
  induction l as [|o t IH]; intros cur; [reflexivity|]. cbn [fold_left].
  assert (e_track c a cur o = e_track c' a cur o) as ->; [|apply IH].
  destruct o; cbn [e_track]; unfold norm_pos; rewrite ?Hb, ?Ht; reflexivity.
Qed.

(* ---------------------------------------------------------------- no duplicates in answers, all agents listed *)

(* no agent is returned twice *)
Lemma NoDup_flat_map_select {A : Type} (f : A -> Z) (sel : A -> bool) (l : list A) :
  NoDup (map f l) -> NoDup (flat_map (fun x => if sel x then [f x] else []) l).
Proof.
  induction l as [|x t IH]; intros H; simpl; [constructor|].
  simpl in H. inversion H as [|? ? Hx Hnd]. subst.
  destruct (sel x); simpl; [|apply IH; exact Hnd].
  constructor; [|apply IH; exact Hnd].
  intros Hin. apply Hx. apply in_flat_map in Hin. destruct Hin as [y [Hy Hin]].
  destruct (sel y); [|destruct Hin]. destruct Hin as [Hin|[]]. rewrite <- Hin. apply in_map. exact Hy.
Qed.

Lemma NoDup_map_filter {A : Type} (f : A -> Z) (sel : A -> bool) (l : list A) :
  NoDup (map f l) -> NoDup (map f (filter sel l)).
Proof.
  induction l as [|x t IH]; intros H; simpl; [constructor|].
  simpl in H. inversion H as [|? ? Hx Hnd]. subst.
  destruct (sel x); simpl; [|apply IH; exact Hnd].
  constructor; [|apply IH; exact Hnd].
  intros Hin. apply Hx. apply in_map_iff in Hin. destruct Hin as [y [Hy Hin]].
  apply filter_In in Hin. rewrite <- Hy. apply in_map. apply Hin.
Qed.

Theorem exp_radius_nodup c (m : amap) q r :
  NoDup (akeys m) -> NoDup (map fst (in_radius c m q r)).
Proof.
  intros H. unfold in_radius. apply NoDup_map_filter.
  unfold distances. rewrite map_map. cbn [fst]. exact H.
Qed.


(* calculate_distances(q) lists every agent of the space exactly once, in order, with its distance *)
Theorem exp_distances_all c (m : amap) q :
  map fst (distances c m q) = akeys m /\
  forall a p, NoDup (akeys m) -> In (a, p) m ->
    In (a, dist2 (ec_torus c) (ec_bounds c) p q) (distances c m q).
Proof.
  split.
  - unfold distances, akeys. rewrite map_map. reflexivity.
  - intros a p _ Hin. apply distances_spec. exists p. auto.
Qed.

(* agent.get_nearest_neighbors(k): an accepted outcome has k distinct other agents, none farther from the
   asking agent than an agent left out *)
Theorem nearest_nbrs_sound ds k a out :
  knn_legal ds (S k) (a :: out) = true ->
  length out = k /\ NoDup out /\ ~ In a out /\ (forall b, In b out -> In b (akeys ds)) /\
  (forall b x d, In b out -> In (x, d) ds -> x <> a -> ~ In x out -> dist_of ds b <= d).
Proof.
  intros H. destruct (knn_legal_sound _ _ _ H) as [H1 [H2 [H3 H4]]].
  simpl in H1. inversion H2 as [|? ? Ha Hnd]. subst.
  repeat split.
  - lia.
  - exact Hnd.
  - exact Ha.
  - intros b Hb. apply H3. right. exact Hb.
  - intros b x d Hb Hx Hne Hnx. apply (H4 b x d); [right; exact Hb|exact Hx|].
    intros [Hin|Hin]; [congruence|contradiction].
Qed.

(* ---------------------------------------------------------------- growth steps are invisible *)
(* a capacity growth step of ANY size (k fresh, uninitialised rows appended to _agent_positions; the view
   agent_positions = _agent_positions[0:n] re-taken), at ANY moment of a history *)
Definition grow (s : estate) (k : nat) : estate :=
  {| e_store := e_store s ++ repeat garbage k; e_n := e_n s; e_active := e_active s; e_a2i := e_a2i s; e_model := e_model s |}.

Inductive gop := GOp (o : eop) | GGrow (k : nat).

Fixpoint g_run (c : ecfg) (s : estate) (l : list gop) : list (list Z) :=
  match l with
  | [] => []
  | GGrow k :: t => g_run c (grow s k) t
  | GOp o :: t => let '(s', r) := estep c s o in e_obs s' r :: g_run c s' t
  end.

Fixpoint g_final (c : ecfg) (s : estate) (l : list gop) : estate :=
  match l with
  | [] => s
  | GGrow k :: t => g_final c (grow s k) t
  | GOp o :: t => g_final c (fst (estep c s o)) t
  end.

Fixpoint ops_of (l : list gop) : list eop :=
  match l with
  | [] => []
  | GGrow _ :: t => ops_of t
  | GOp o :: t => o :: ops_of t
  end.

Lemma grow_inv s k : EInv s -> EInv (grow s k).
Proof.
  intros [H1 [H2 [H3 H4]]]. unfold EInv, grow. cbn [e_n e_active e_store e_a2i].
  rewrite app_length. repeat split; try assumption. lia.
Qed.

Lemma grow_invM s k : EInvM s -> EInvM (grow s k).
Proof. intros [H Hm]. split; [apply grow_inv; exact H|exact Hm]. Qed.

(* growth never changes the active prefix: same agents, same rows, hence the same abstract map *)
Lemma grow_rows s k : EInv s -> e_rows (grow s k) = e_rows s.
Proof. intros [_ [H2 _]]. unfold e_rows, grow. cbn [e_n e_store]. apply firstn_app_le. exact H2. Qed.

Lemma grow_abs s k : EInv s -> e_abs (grow s k) = e_abs s.
Proof. intros H. unfold e_abs. rewrite (grow_rows s k H). reflexivity. Qed.

Lemma g_run_refines c l : forall s, EInvM s -> g_run c s l = espec_run c (e_abs s) (ops_of l).
Proof.
  induction l as [|[o|k] t IH]; intros s Hinv; [reflexivity| |].
  - cbn [g_run ops_of espec_run]. destruct (estep_sim c s o Hinv) as [Hinv' Hsim].
    rewrite Hsim. destruct (estep c s o) as [s' r]. cbn [fst snd] in *.
    rewrite IH by exact Hinv'. f_equal.
    unfold e_obs, spec_obs. rewrite (view_abs s' Hinv'). reflexivity.
  - cbn [g_run ops_of]. rewrite IH by (apply grow_invM; exact Hinv). rewrite (grow_abs s k (proj1 Hinv)). reflexivity.
Qed.

Lemma g_final_refines c l : forall s, EInvM s ->
  EInvM (g_final c s l) /\ e_abs (g_final c s l) = espec_final c (e_abs s) (ops_of l).
Proof.
  induction l as [|[o|k] t IH]; intros s Hinv; [split; [exact Hinv|reflexivity]| |].
  - cbn [g_final ops_of espec_final]. destruct (estep_sim c s o Hinv) as [Hinv' Hsim].
    rewrite Hsim. cbn [fst]. apply IH. exact Hinv'.
  - cbn [g_final ops_of]. rewrite <- (grow_abs s k (proj1 Hinv)). apply IH. apply grow_invM. exact Hinv.
Qed.

(* every observation of a history is unchanged by growth steps of any size inserted anywhere in it *)
Theorem exp_growth_invisible c l :
  g_run c (e_init c) l = e_run c (e_init c) (ops_of l).
Proof.
  rewrite (g_run_refines c l (e_init c) (init_invM c)), <- exp_refines. reflexivity.
Qed.

(* ... and so are space.agents and every agent's position in the final state *)
Theorem exp_growth_view_invariant c l a :
  e_active (g_final c (e_init c) l) = e_active (e_final c (e_init c) (ops_of l)) /\
  e_getpos (g_final c (e_init c) l) a = e_getpos (e_final c (e_init c) (ops_of l)) a.
Proof.
  destruct (g_final_refines c l (e_init c) (init_invM c)) as [[Hg _] Habs].
  destruct (e_final_refines c (ops_of l) (e_init c) (init_invM c)) as [[He _] Habs'].
  split.
  - rewrite <- (e_abs_keys _ Hg), <- (e_abs_keys _ He), Habs, Habs'. reflexivity.
  - rewrite (getpos_abs _ a Hg), (getpos_abs _ a He), Habs, Habs'. reflexivity.
Qed.

(* ================================================================= round 3 *)
(* ---------------------------------------------------------------- space.agents ORDER *)
(* the order the code fixes: active_agents is appended to by _add_agent, deleted from in place by _remove_agent,
   never touched by a move or a query; model.agents (model._agents) evolves the same way *)
Definition e_order_step (c : ecfg) (l : list Z) (o : eop) : list Z :=
  match o with
  | EAdd a p =>
      if negb (dim_ok (ec_bounds c) p) || mem a l || (negb (ec_torus c) && negb (in_closed (ec_bounds c) p))
      then l else l ++ [a]
  | ERemove a => filter (fun b => negb (b =? a)) l
  | EClear => []
  | _ => l
  end.

Lemma filter_neq_notin a (l : list Z) : ~ In a l -> filter (fun b => negb (b =? a)) l = l.
Proof.
  induction l as [|x t IH]; intros H; [reflexivity|]. cbn [filter].
  destruct (x =? a) eqn:E; [apply Z.eqb_eq in E; subst; exfalso; apply H; left; reflexivity|].
  cbn [negb]. rewrite IH; [reflexivity|]. intros Hin. apply H. right. exact Hin.
Qed.

Lemma espec_keys_step c (m : amap) o :
  akeys (fst (espec_step c m o)) = e_order_step c (akeys m) o.
Proof.
  destruct o as [a p|a p|a|q|q r|q k out|q|b r|b k out|b b'|q l|q l|]; cbn [espec_step e_order_step fst]; try reflexivity.
  - destruct (_ || _ || _) eqn:Eg; [reflexivity|].
    apply orb_false_iff in Eg. destruct Eg as [_ Eoob].
    assert (exists p', norm_pos c p = Ok p') as [p' ->].
    { unfold norm_pos. destruct (in_closed (ec_bounds c) p); [eauto|].
      destruct (ec_torus c); [eauto|]. simpl in Eoob. discriminate. }
    cbn [fst]. unfold akeys. rewrite map_app. reflexivity.
  - destruct (_ || _) eqn:Eg; [reflexivity|].
    apply orb_false_iff in Eg. destruct Eg as [_ Em]. apply negb_false_iff in Em. apply mem_In in Em.
    destruct (norm_pos c p); [|reflexivity]. cbn [fst]. apply akeys_aset_old.
    intros Hn. apply aget_None_keys in Hn. contradiction.
  - destruct (mem a (akeys m)) eqn:Em; cbn [negb fst].
    + rewrite akeys_adel. symmetry. apply filter_eqb_sym.
    + symmetry. apply filter_neq_notin. rewrite <- mem_In. congruence.
Qed.

Lemma espec_final_keys c ops : forall m,
  akeys (espec_final c m ops) = fold_left (e_order_step c) ops (akeys m).
Proof.
  induction ops as [|o t IH]; intros m; [reflexivity|].
  cbn [espec_final fold_left]. rewrite IH, espec_keys_step. reflexivity.
Qed.

(* C10_exp_agents_order *)
Theorem exp_agents_order c ops :
  e_active (e_final c (e_init c) ops) = fold_left (e_order_step c) ops [] /\
  e_model (e_final c (e_init c) ops) = fold_left (e_order_step c) ops [].
Proof.
  destruct (e_final_refines c ops (e_init c) (init_invM c)) as [[Hinv Hmod] Habs].
  rewrite Hmod. rewrite <- (e_abs_keys _ Hinv), Habs, espec_final_keys. auto.
Qed.

(* ---------------------------------------------------------------- agent.remove() / model.remove_all_agents() *)
(* C10_remove_from_model_leaves_space: in every reachable state the agents registered with the model are exactly the
   agents of the space (same order); agent.remove() takes the agent out of both, it reports no position any more, and the
   map of everybody else is untouched; remove_all_agents() empties both *)
Theorem remove_from_model_leaves_space c ops a :
  let s := e_final c (e_init c) ops in
  e_model s = e_active s /\
  (In a (e_model s) ->
   let s' := fst (estep c s (ERemove a)) in
   snd (estep c s (ERemove a)) = Some (Ok []) /\
   ~ In a (e_model s') /\ ~ In a (e_active s') /\ e_getpos s' a = None /\
   e_abs s' = adel a (e_abs s) /\
   (forall b, b <> a -> e_getpos s' b = e_getpos s b)) /\
  (let s' := fst (estep c s EClear) in
   snd (estep c s EClear) = Some (Ok []) /\ e_model s' = [] /\ e_active s' = []).
Proof.
  cbn zeta. pose proof (exp_reachable_invM c ops) as HinvM. pose proof HinvM as [Hinv Hmod].
  split; [exact Hmod|]. split.
  - intros Hin. rewrite Hmod in Hin.
    destruct (estep_sim c _ (ERemove a) HinvM) as [[Hinv' Hmod'] Hsim].
    cbn [espec_step] in Hsim. rewrite (mem_active_abs _ a Hinv) in Hsim.
    assert (mem a (e_active (e_final c (e_init c) ops)) = true) as Hm by (apply mem_In; exact Hin).
    rewrite Hm in Hsim. cbn [negb] in Hsim.
    remember (estep c (e_final c (e_init c) ops) (ERemove a)) as st eqn:Est. clear Est.
    pose proof (f_equal fst Hsim) as Habs. pose proof (f_equal snd Hsim) as Hres. cbn [fst snd] in Habs, Hres.
    assert (Hnot : ~ In a (e_active (fst st))).
    { rewrite <- (e_abs_keys _ Hinv'), <- Habs. apply aget_None_keys. apply aget_adel_same. }
    split; [symmetry; exact Hres|]. split; [rewrite Hmod'; exact Hnot|]. split; [exact Hnot|].
    split; [rewrite (getpos_abs _ a Hinv'), <- Habs; apply aget_adel_same|].
    split; [symmetry; exact Habs|].
    intros b Hb. rewrite (getpos_abs _ b Hinv'), (getpos_abs _ b Hinv), <- Habs. apply aget_adel_other. exact Hb.
  - destruct (estep_sim c _ EClear HinvM) as [[Hinv' Hmod'] Hsim].
    cbn [espec_step] in Hsim.
    remember (estep c (e_final c (e_init c) ops) EClear) as st eqn:Est. clear Est.
    pose proof (f_equal fst Hsim) as Habs. pose proof (f_equal snd Hsim) as Hres. cbn [fst snd] in Habs, Hres.
    split; [symmetry; exact Hres|].
    assert (e_active (fst st) = []) as Hnil by (rewrite <- (e_abs_keys _ Hinv'), <- Habs; reflexivity).
    split; [rewrite Hmod'; exact Hnil|exact Hnil].
Qed.

(* ---------------------------------------------------------------- the agents= forms *)
(* calculate_distances / calculate_difference_vector with agents=[...]: the rows of exactly the listed agents, in
   the order listed (repeats and the empty list included); defined iff every listed agent is in the space *)
Lemma positions_of_spec g (l : list Z) rows :
  positions_of g l = Some rows <-> Forall2 (fun a p => g a = Some p) l rows.
Proof.
  revert rows. induction l as [|a t IH]; intros rows; cbn [positions_of].
  - split; [intros H; inversion H; constructor|intros H; inversion H; reflexivity].
  - destruct (g a) as [p|] eqn:Eg.
    + destruct (positions_of g t) as [r|] eqn:Et.
      * split.
        -- intros H. inversion H. subst. constructor; [exact Eg|]. apply IH. reflexivity.
        -- intros H. inversion H as [|? ? ? ? H1 H2]. subst. apply IH in H2. inversion H2. subst.
           rewrite Eg in H1. inversion H1. reflexivity.
      * split; [discriminate|]. intros H. inversion H as [|? ? ? ? H1 H2]. subst. apply IH in H2. discriminate.
    + split; [discriminate|]. intros H. inversion H as [|? ? ? ? H1 H2]. subst. rewrite Eg in H1. discriminate.
Qed.

Theorem exp_subset_forms_exact c ops q l :
  let s := e_final c (e_init c) ops in
  dim_ok (ec_bounds c) q = true ->
  (snd (estep c s (EDistancesOf q l)) <> None <-> forall a, In a l -> In a (e_active s)) /\
  (forall rows, Forall2 (fun a p => fold_left (e_track c a) ops None = Some p) l rows ->
     snd (estep c s (EDistancesOf q l))
     = Some (Ok (concat (map (fun ar : Z * point => [fst ar; dist2 (ec_torus c) (ec_bounds c) (snd ar) q]) (combine l rows)))) /\
     snd (estep c s (EDiffsOf q l))
     = Some (Ok (concat (map (fun ar : Z * point => fst ar :: diffv (ec_torus c) (ec_bounds c) q (snd ar)) (combine l rows))))).
Proof.
  cbn zeta. intros Hd. pose proof (exp_reachable_invM c ops) as HinvM. pose proof HinvM as [Hinv _].
  destruct (estep_sim c _ (EDistancesOf q l) HinvM) as [_ H1].
  destruct (estep_sim c _ (EDiffsOf q l) HinvM) as [_ H2].
  cbn [espec_step equery] in H1, H2. rewrite Hd in H1, H2. cbn [negb] in H1, H2.
  pose proof (f_equal snd H1) as R1. pose proof (f_equal snd H2) as R2. cbn [snd] in R1, R2. clear H1 H2.
  set (m := e_abs (e_final c (e_init c) ops)) in *.
  assert (Hg : forall a, aget a m = fold_left (e_track c a) ops None).
  { intros a. unfold m. rewrite <- (getpos_abs _ a Hinv). apply exp_position_last_assigned. }
  split.
  - rewrite <- R1. split.
    + intros Hne a Ha. destruct (positions_of (fun a0 => aget a0 m) l) as [rows|] eqn:Ep; [|contradiction].
      apply positions_of_spec in Ep. rewrite <- (e_abs_keys _ Hinv). fold m.
      clear - Ep Ha. induction Ep as [|x p t r Hx Hr IH]; [destruct Ha|].
      destruct Ha as [->|Ha]; [|apply IH; exact Ha].
      destruct (in_dec Z.eq_dec a (akeys m)) as [H|H]; [exact H|]. apply aget_None_keys in H. congruence.
    + intros Hall. destruct (positions_of (fun a0 => aget a0 m) l) as [rows|] eqn:Ep; [discriminate|].
      exfalso. clear - Ep Hall Hinv. revert Ep. fold m.
      induction l as [|x t IH]; cbn [positions_of]; [discriminate|].
      destruct (aget x m) eqn:Ex.
      * destruct (positions_of (fun a0 => aget a0 m) t); [discriminate|]. intros _. apply IH; [|reflexivity].
        intros a Ha. apply Hall. right. exact Ha.
      * intros _. apply aget_None_keys in Ex. apply Ex. unfold m. rewrite (e_abs_keys _ Hinv). apply Hall. left. reflexivity.
  - intros rows Hrows.
    assert (positions_of (fun a => aget a m) l = Some rows) as Ep.
    { apply positions_of_spec. clear - Hrows Hg. induction Hrows as [|a p t r Hp Hr IH]; constructor;
        [rewrite Hg; exact Hp|exact IH]. }
    rewrite <- R1, <- R2, Ep. split; reflexivity.
Qed.

(* ---------------------------------------------------------------- get_nearest_neighbors with coincident agents *)
Lemma filter_neq_length a (l : list Z) :
  NoDup l -> In a l -> S (length (filter (fun b => negb (b =? a)) l)) = length l.
Proof.
  induction l as [|x t IH]; intros Hnd Hin; [destruct Hin|].
  inversion Hnd as [|? ? Hx Hnd']. subst. cbn [filter length].
  destruct (x =? a) eqn:E.
  - apply Z.eqb_eq in E. subst x. cbn [negb]. rewrite filter_neq_notin by exact Hx. reflexivity.
  - cbn [negb length]. f_equal. apply IH; [exact Hnd'|].
    destruct Hin as [Hin|Hin]; [apply Z.eqb_neq in E; congruence|exact Hin].
Qed.

(* the documented boundary of ContinuousSpaceAgent.get_nearest_neighbors(k) = get_k_nearest_agents(self.position, k + 1)
   minus self.  ds: the distances from self's position (self at distance 0), raw: ANY legal choice of k+1 nearest.
   (i)  self in raw  -> exactly k distinct other agents, none farther than an other agent left out;
   (ii) self not in raw -> the answer is raw itself: k+1 agents, every one of them at distance <= 0, i.e. exactly on self
        (so this needs at least k+1 other agents coincident with self; with fewer, (i) is the only case) *)
Theorem nearest_neighbors_boundary ds k a raw :
  In (a, 0) ds -> knn_legal ds (S k) raw = true ->
  let out := filter (fun b => negb (b =? a)) raw in
  (In a raw ->
     length out = k /\ NoDup out /\ ~ In a out /\
     (forall b x d, In b out -> In (x, d) ds -> x <> a -> ~ In x out -> dist_of ds b <= d)) /\
  (~ In a raw ->
     out = raw /\ length out = S k /\ NoDup out /\ (forall b, In b out -> b <> a /\ dist_of ds b <= 0)).
Proof.
  intros Ha Hl. cbn zeta. destruct (knn_legal_sound _ _ _ Hl) as [H1 [H2 [H3 H4]]]. split.
  - intros Hin. pose proof (filter_neq_length a raw H2 Hin) as Hlen.
    split; [lia|]. split; [apply NoDup_filter; exact H2|]. split.
    + intros Hf. apply filter_In in Hf. destruct Hf as [_ Hf]. rewrite Z.eqb_refl in Hf. discriminate.
    + intros b x d Hb Hx Hne Hnx. apply filter_In in Hb. destruct Hb as [Hb _].
      apply (H4 b x d Hb Hx). intros Hxr. apply Hnx. apply filter_In. split; [exact Hxr|].
      destruct (x =? a) eqn:E; [apply Z.eqb_eq in E; contradiction|reflexivity].
  - intros Hnin. rewrite (filter_neq_notin a raw Hnin).
    split; [reflexivity|]. split; [exact H1|]. split; [exact H2|].
    intros b Hb. split; [intros ->; contradiction|]. apply (H4 b a 0 Hb Ha Hnin).
Qed.
