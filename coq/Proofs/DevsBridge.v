(* Bridge between the code-level T1 translation (Generated.Tables: gen_rel_event_time, gen_abs_event_time,
   gen_now_event_time, gen_tick_event_time, gen_schedule_event_ok, gen_run_for_horizon, gen_until_runs_sim/_abm,
   gen_abm_reschedules, gen_execute_runs, gen_pop_returns, gen_peek_keeps, gen_peek_full - regenerated from
   mesa/experimental/devs/{simulator,eventlist}.py by harness/tables/devs_code.py on every run) and the functions
   of the hand-written model Model/Devs.v that the C14 / C15 theorems are about.

   1. bridge lemmas  `generated condition = condition used by the model`, proved ROBUSTLY: both sides are
      case-split and the impossible combinations refuted by lia (with ZifyBool) or by truth tables, so a harmless
      rewrite of a condition in the source keeps them checking while a semantic change breaks them;
   2. `src_*` functions: the model's functions written with the generated pieces only, and `*_of_source` lemmas
      `model function = src function`;
   3. headline theorems of C14 / C15 restated about the src functions. *)
From Coq Require Import ZArith List Bool Lia ZifyBool Sorted.
From Mesa Require Import Generated.Tables Model.Devs Model.DevsSpec Proofs.DevsProofs Proofs.DevsOrderProofs
  Proofs.DevsChunkProofs.
Import ListNotations.
Open Scope Z_scope.

Ltac split_ifs :=
  repeat match goal with
         | |- context [if ?c then _ else _] => let E := fresh "E" in destruct c eqn:E
         end; try reflexivity; try (exfalso; lia); try (f_equal; lia).

(* bool-valued conditions: split the ifs of both sides, name both sides, compare the four combinations *)
Ltac bool_bridge :=
  repeat match goal with
         | |- context [if ?c then _ else _] => let E := fresh "E" in destruct c eqn:E
         end;
  match goal with
  | |- ?l = ?r => let b1 := fresh "b" in let b2 := fresh "b" in
                  remember l as b1 eqn:?; remember r as b2 eqn:?; destruct b1, b2; try reflexivity; exfalso; lia
  end.

(* ---------------------------------------------------------------- 1. bridge lemmas *)
(* schedule_event_relative: rejected iff the delta is negative, else the event is for now + delta *)
Lemma rel_time_bridge : forall now d,
  gen_rel_event_time SCALE now d = if d <? 0 then None else Some (now + d).
Proof. intros now d. unfold gen_rel_event_time. cbv zeta. split_ifs. Qed.

(* schedule_event_absolute: rejected iff now > time, else the event is for exactly `time` *)
Lemma abs_time_bridge : forall now t,
  gen_abs_event_time SCALE now t = if now >? t then None else Some t.
Proof. intros now t. unfold gen_abs_event_time, gen_rel_event_time. cbv zeta. split_ifs. Qed.

(* schedule_event_now: always accepted, for now *)
Lemma now_time_bridge : forall now, gen_now_event_time SCALE now = Some now.
Proof. intros now. unfold gen_now_event_time, gen_rel_event_time. cbv zeta. split_ifs. Qed.

(* schedule_event_next_tick: always accepted, for now + 1 tick *)
Lemma tick_time_bridge : forall now, gen_tick_event_time SCALE now = Some (now + SCALE).
Proof. intros now. unfold gen_tick_event_time, gen_rel_event_time, SCALE. cbv zeta. split_ifs. Qed.

(* _schedule_event: the event is added iff check_time_unit holds *)
Lemma sched_ok_bridge : forall u, gen_schedule_event_ok u = if u then Some true else None.
Proof. intros u. unfold gen_schedule_event_ok. destruct u; cbn; split_ifs. Qed.

Lemma run_for_bridge : forall now d, gen_run_for_horizon now d = now + d.
Proof. intros now d. unfold gen_run_for_horizon. lia. Qed.

(* run_until (both classes): the popped event is executed iff its time is <= end_time *)
Lemma until_bridge_sim : forall et endt, gen_until_runs_sim et endt = (et <=? endt).
Proof.
  intros et endt. unfold gen_until_runs_sim.
  bool_bridge.
Qed.
Lemma until_bridge_abm : forall et endt, gen_until_runs_abm et endt = (et <=? endt).
Proof.
  intros et endt. unfold gen_until_runs_abm.
  bool_bridge.
Qed.

(* truth tables *)
Lemma abm_resched_bridge : forall s, gen_abm_reschedules s = s.
Proof. intros s. unfold gen_abm_reschedules. destruct s; reflexivity. Qed.
Lemma execute_bridge : forall c a, gen_execute_runs c a = negb c && a.
Proof. intros c a. unfold gen_execute_runs. destruct c, a; reflexivity. Qed.
Lemma pop_returns_bridge : forall c, gen_pop_returns c = negb c.
Proof. intros c. unfold gen_pop_returns. destruct c; reflexivity. Qed.
Lemma peek_keeps_bridge : forall c, gen_peek_keeps c = negb c.
Proof. intros c. unfold gen_peek_keeps. destruct c; reflexivity. Qed.
Lemma peek_full_bridge : forall l n, gen_peek_full l n = (l >=? n).
Proof.
  intros l n. unfold gen_peek_full.
  bool_bridge.
Qed.

(* ---------------------------------------------------------------- 2. the model written with the generated pieces *)
(* the time an accepted schedule_event_* call gives its event; None = ValueError "in the past" *)
Definition src_sched_time (st : state) (k : skind) (t : Z) : option Z :=
  match k with
  | KAbs => gen_abs_event_time SCALE (s_time st) t
  | KRel => gen_rel_event_time SCALE (s_time st) t
  | KNow => gen_now_event_time SCALE (s_time st)
  | KTick => gen_tick_event_time SCALE (s_time st)
  end.

Lemma src_sched_time_spec : forall st k t,
  src_sched_time st k t = if sched_time st k t <? s_time st then None else Some (sched_time st k t).
Proof.
  intros st k t. unfold src_sched_time, sched_time.
  destruct k; rewrite ?abs_time_bridge, ?rel_time_bridge, ?now_time_bridge, ?tick_time_bridge; unfold SCALE;
    split_ifs.
Qed.

Definition src_do_sched (cfg : config) (st : state) (k : skind) (t : Z) (p : prio_name) (tag holder : Z)
           (body : list act) : state * Z :=
  if memz holder (s_dead st) then (st, R_SKIP) else
  if (match k with KTick => negb (c_abm cfg) | _ => false end) then (st, R_SKIP) else
  match src_sched_time st k t with
  | None => (st, R_PAST)
  | Some t' =>
      let st1 := set_uid st (s_uid st + 1) in
      match gen_schedule_event_ok (unit_ok (c_abm cfg) t') with
      | Some _ => (set_events st1 (ev_insert (mk_event t' p (s_uid st) tag holder false body) (s_events st1)), R_OK)
      | None => (st1, R_UNIT)
      end
  end.

Lemma do_sched_of_source : forall cfg st k t p tag h body,
  do_sched cfg st k t p tag h body = src_do_sched cfg st k t p tag h body.
Proof.
  intros cfg st k t p tag h body. unfold do_sched, src_do_sched, src_sched_time, schedule_relative, schedule.
  destruct (memz h (s_dead st)); [reflexivity|].
  destruct k; rewrite ?abs_time_bridge, ?rel_time_bridge, ?now_time_bridge, ?tick_time_bridge.
  - (* now *) replace (0 <? 0) with false by reflexivity. rewrite Z.add_0_r, sched_ok_bridge.
    destruct (unit_ok (c_abm cfg) (s_time st)); reflexivity.
  - (* rel *) destruct (t <? 0); [reflexivity|]. rewrite sched_ok_bridge.
    destruct (unit_ok (c_abm cfg) (s_time st + t)); reflexivity.
  - (* abs *) destruct (s_time st >? t); [reflexivity|]. rewrite sched_ok_bridge.
    destruct (unit_ok (c_abm cfg) t); reflexivity.
  - (* tick *) destruct (c_abm cfg) eqn:Ea; cbn [negb]; [|reflexivity].
    replace (SCALE <? 0) with false by reflexivity. rewrite sched_ok_bridge.
    destruct (unit_ok true (s_time st + SCALE)); reflexivity.
Qed.

(* EventList.pop_event: the while loop with the generated test *)
Fixpoint src_pop (l : list event) : option (event * list event) :=
  match l with
  | [] => None
  | h :: t => if gen_pop_returns (e_cancelled h) then Some (h, t) else src_pop t
  end.
Lemma pop_event_of_source : forall l, pop_event l = src_pop l.
Proof.
  induction l as [|h t IH]; cbn [pop_event src_pop]; [reflexivity|].
  rewrite pop_returns_bridge. destruct (e_cancelled h); cbn [negb]; [exact IH|reflexivity].
Qed.

(* EventList.peak_ahead: the for loop over sorted(self._events) with the two generated tests *)
Fixpoint src_peak (n : Z) (events peek : list event) : list event :=
  match events with
  | [] => peek
  | e :: r =>
      let peek := if gen_peek_keeps (e_cancelled e) then peek ++ [e] else peek in
      if gen_peek_full (Z.of_nat (length peek)) n then peek else src_peak n r peek
  end.

Lemma src_peak_spec : forall n l acc, Z.of_nat (length acc) < n ->
  src_peak n l acc = acc ++ firstn (Z.to_nat n - length acc) (live l).
Proof.
  intros n l. induction l as [|e r IH]; intros acc Hlt; cbn [src_peak live filter].
  - rewrite firstn_nil, app_nil_r. reflexivity.
  - rewrite peek_keeps_bridge, peek_full_bridge. fold (live r).
    destruct (e_cancelled e); cbn [negb].
    + destruct (Z.of_nat (length acc) >=? n) eqn:E; [exfalso; lia|]. apply IH. exact Hlt.
    + rewrite app_length. cbn [length].
      destruct (Z.of_nat (length acc + 1) >=? n) eqn:E.
      * replace (Z.to_nat n - length acc)%nat with 1%nat by lia. reflexivity.
      * rewrite IH by (rewrite app_length; cbn [length]; lia).
        rewrite app_length. cbn [length].
        replace (Z.to_nat n - length acc)%nat with (S (Z.to_nat n - (length acc + 1)))%nat by lia.
        cbn [firstn]. rewrite <- app_assoc. reflexivity.
Qed.

Lemma peak_ahead_of_source : forall n l, 1 <= n -> peak_ahead (Z.to_nat n) l = src_peak n l [].
Proof.
  intros n l Hn. rewrite src_peak_spec by (cbn; lia). cbn [length app]. rewrite Nat.sub_0_r. reflexivity.
Qed.

(* SimulationEvent.execute on an event that is not model.step: the callable runs iff the generated test says so *)
Lemma execute_of_source : forall cfg st e st' l, e_step e = false -> execute cfg st e = (st', l) ->
  execs l = if gen_execute_runs (e_cancelled e) (negb (memz (e_holder e) (s_dead st))) then [e] else [].
Proof.
  intros cfg st e st' l Hs H. rewrite execute_bridge. unfold execute in H. rewrite Hs in H.
  destruct (e_cancelled e); cbn [negb andb]; [inversion H; reflexivity|].
  destruct (memz (e_holder e) (s_dead st)); cbn [negb]; [inversion H; reflexivity|].
  destruct (do_acts cfg st (e_body e)) as [s2 l2] eqn:E. inversion H; subst.
  cbn [execs flat_map exec_of app]. fold (execs l2). rewrite (proj1 (do_acts_log _ _ _ _ _ E)). reflexivity.
Qed.

(* _execute_event of both classes *)
Definition src_exec_event (cfg : config) (st : state) (e : event) : state * list logitem :=
  let st0 := set_time st (e_time e) in
  let st1 := if (if c_abm cfg then gen_abm_reschedules (e_step e) else false)
             then fst (schedule_relative cfg st0 SCALE gen_step_prio (-1) (-1) true [])
             else st0 in
  execute cfg st1 e.
Lemma exec_event_of_source : forall cfg st e, exec_event cfg st e = src_exec_event cfg st e.
Proof.
  intros cfg st e. unfold exec_event, src_exec_event. rewrite abm_resched_bridge.
  destruct (c_abm cfg); reflexivity.
Qed.

(* run_until of both classes: the loop with the generated decision, the generated pop test, the generated
   _execute_event decision *)
Definition src_until (cfg : config) (et endt : Z) : bool :=
  if c_abm cfg then gen_until_runs_abm et endt else gen_until_runs_sim et endt.
Lemma src_until_spec : forall cfg et endt, src_until cfg et endt = (et <=? endt).
Proof. intros cfg et endt. unfold src_until. destruct (c_abm cfg); [apply until_bridge_abm|apply until_bridge_sim]. Qed.

Fixpoint src_run_loop (cfg : config) (fuel : nat) (endt : Z) (st : state) : state * list logitem * bool :=
  match fuel with
  | O => (st, [], false)
  | S n =>
      match src_pop (s_events st) with
      | None => (set_time (set_events st []) endt, [], true)
      | Some (e, rest) =>
          if src_until cfg (e_time e) endt then
            let '(st1, l1) := src_exec_event cfg (set_events st rest) e in
            if has_raise l1 then (st1, l1, false) else
            let '(st2, l2, ok) := src_run_loop cfg n endt st1 in
            (st2, l1 ++ l2, ok)
          else (set_events (set_time (set_events st rest) endt) (ev_insert e rest), [], true)
      end
  end.

Lemma run_loop_of_source : forall cfg fuel endt st, run_loop cfg fuel endt st = src_run_loop cfg fuel endt st.
Proof.
  intros cfg fuel endt. induction fuel as [|n IH]; intros st; cbn [run_loop src_run_loop]; [reflexivity|].
  rewrite <- pop_event_of_source.
  destruct (pop_event (s_events st)) as [[e rest]|]; [|reflexivity].
  rewrite src_until_spec. destruct (e_time e <=? endt); [|reflexivity].
  rewrite <- exec_event_of_source.
  destruct (exec_event cfg (set_events st rest) e) as [st1 l1]. destruct (has_raise l1); [reflexivity|].
  rewrite IH. reflexivity.
Qed.

Definition src_run_for (cfg : config) (fuel : nat) (d : Z) (st : state) : state * list logitem * bool :=
  src_run_loop cfg fuel (gen_run_for_horizon (s_time st) d) st.
Lemma run_for_of_source : forall cfg fuel d st, run_loop cfg fuel (s_time st + d) st = src_run_for cfg fuel d st.
Proof.
  intros cfg fuel d st. pose proof (run_for_bridge (s_time st) d) as Hb.
  unfold src_run_for. rewrite <- run_loop_of_source. congruence.
Qed.

(* ---------------------------------------------------------------- 3. headline theorems about the generated code *)
(* C14: the guards read from the source accept a schedule call iff its time is not before the clock, and the
   accepted event is for exactly the requested instant *)
Lemma no_past_of_source : forall st k t t', src_sched_time st k t = Some t' ->
  s_time st <= t' /\ t' = sched_time st k t.
Proof.
  intros st k t t' H. rewrite src_sched_time_spec in H.
  destruct (sched_time st k t <? s_time st) eqn:E; [discriminate|]. inversion H; subst. split; lia.
Qed.
Lemma past_rejected_of_source : forall st k t, sched_time st k t < s_time st -> src_sched_time st k t = None.
Proof.
  intros st k t H. rewrite src_sched_time_spec. destruct (sched_time st k t <? s_time st) eqn:E; [reflexivity|lia].
Qed.

(* C14: run_until as generated: the clock ends at the horizon; what is left pending and live is what the source's
   own test refuses; what ran is live and what the source's own test admits *)
Lemma run_until_of_source : forall cfg fuel endt st st' l, inv st ->
  src_run_loop cfg fuel endt st = (st', l, true) ->
  s_time st' = endt /\
  Forall (fun e => e_cancelled e = false -> src_until cfg (e_time e) endt = false) (s_events st') /\
  Forall (fun e => e_cancelled e = false /\ src_until cfg (e_time e) endt = true) (execs l) /\
  StronglySorted Z.le (clocks l).
Proof.
  intros cfg fuel endt st st' l Hi H. rewrite <- run_loop_of_source in H.
  split; [eapply run_loop_time; exact H|]. split.
  - pose proof (run_loop_done _ _ _ _ _ _ Hi H) as Hd. rewrite Forall_forall in *.
    intros e He Hc. rewrite src_until_spec. specialize (Hd e He Hc). lia.
  - destruct (run_loop_log _ _ _ _ _ _ _ Hi H) as [He [_ Hs]]. split; [|exact Hs].
    rewrite Forall_forall in *. intros e Hin. destruct (He e Hin) as [Hc [_ Ht]].
    split; [exact Hc|]. rewrite src_until_spec. lia.
Qed.

(* C14: peak_ahead as generated (n >= 1): live events only, in key order *)
Lemma peek_of_source : forall st n, inv st -> 1 <= n ->
  StronglySorted ev_lt (src_peak n (s_events st) []) /\
  Forall (fun e => e_cancelled e = false) (src_peak n (s_events st) []).
Proof.
  intros st n Hi Hn. rewrite <- peak_ahead_of_source by exact Hn. apply peek_sorted. exact Hi.
Qed.

(* C15: chunking for the generated loop: run_until t1 then run_until t2 is run_until t2 *)
Lemma chunking_of_source : forall cfg fuel st t1 t2 st1 l1 st2 l2, inv st -> t1 <= t2 ->
  src_run_loop cfg fuel t1 st = (st1, l1, true) -> src_run_loop cfg fuel t2 st1 = (st2, l2, true) ->
  exists n, src_run_loop cfg n t2 st = (st2, l1 ++ l2, true).
Proof.
  intros cfg fuel st t1 t2 st1 l1 st2 l2 Hi Ht H1 H2. rewrite <- run_loop_of_source in H1, H2.
  destruct (chunking_two _ _ _ _ _ _ _ _ _ Hi Ht H1 H2) as [n Hn]. exists n.
  rewrite <- run_loop_of_source. exact Hn.
Qed.

(* C15: under ABMSimulator the generated _execute_event re-schedules model.step exactly when it executes it *)
Lemma step_resched_of_source : forall cfg st e, c_abm cfg = true ->
  src_exec_event cfg st e =
  execute cfg (if e_step e then fst (schedule_relative cfg (set_time st (e_time e)) SCALE gen_step_prio (-1) (-1) true [])
               else set_time st (e_time e)) e.
Proof.
  intros cfg st e Ha. unfold src_exec_event. rewrite Ha, abm_resched_bridge. reflexivity.
Qed.
