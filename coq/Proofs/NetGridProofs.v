(* Lemmas about Model/NetGrid.v: the invariant NAgree (agent.pos <-> node contents), its preservation by every
   history, the readers, and the non-atomicity of move_agent towards an unknown node. *)
From Coq Require Import ZArith List Bool Lia.
From Mesa Require Import Common.ListX Model.LegacyGrid Proofs.LegacyGridProofs Model.NetGrid.
Import ListNotations.
Open Scope Z_scope.

Record NAgree (nodes : list Z) (s : nstate) : Prop := {
  na_node : forall a n, npos s a = Some n -> In n nodes;
  na_pos : forall a n, npos s a = Some n <-> In a (ncell s n);
  na_nodup : forall n, NoDup (ncell s n)
}.

Lemma ninit_agree nodes : NAgree nodes ninit.
Proof.
  constructor; cbn.
  - intros; discriminate.
  - intros a n. split; [discriminate|tauto].
  - intros; constructor.
Qed.

Lemma is_node_In nodes n : is_node nodes n = true <-> In n nodes.
Proof. unfold is_node. apply zmemb_In. Qed.

Lemma nplace_cases nodes s a n s' r :
  NAgree nodes s -> npos s a = None -> nplace nodes s a n = (s', r) ->
  (r = Ok [] /\ NAgree nodes s' /\ In n nodes /\ npos s' a = Some n /\
     (forall b, b <> a -> npos s' b = npos s b) /\ (forall m, m <> n -> ncell s' m = ncell s m) /\
     ncell s' n = ncell s n ++ [a]) \/
  (s' = s /\ r = Err E_KEY /\ ~ In n nodes).
Proof.
  intros Ha Hn Hp. unfold nplace in Hp. destruct (is_node nodes n) eqn:En.
  - apply is_node_In in En. inversion Hp. subst s' r. clear Hp. left.
    assert (Hnot : forall m, ~ In a (ncell s m)) by (intros m H; apply (na_pos nodes s Ha) in H; congruence).
    split; [reflexivity|]. split; [|split; [exact En|]].
    + constructor; cbn.
      * intros b m. unfold upd_a. destruct (b =? a); [intros H; inversion H; subst; exact En|apply (na_node nodes s Ha)].
      * intros b m. unfold upd_a, upd_n. destruct (b =? a) eqn:E.
        -- apply Z.eqb_eq in E. subst b. destruct (m =? n) eqn:E2.
           ++ apply Z.eqb_eq in E2. subst m. split; [intros _; apply in_or_app; right; left; reflexivity|reflexivity].
           ++ split; [intros H; inversion H; subst; rewrite Z.eqb_refl in E2; discriminate|intros H; exfalso; exact (Hnot m H)].
        -- apply Z.eqb_neq in E. destruct (m =? n) eqn:E2.
           ++ apply Z.eqb_eq in E2. subst m. rewrite (na_pos nodes s Ha), in_app_iff. cbn [In].
              split; [tauto|]. intros [H|[H|[]]]; [exact H|congruence].
           ++ apply (na_pos nodes s Ha).
      * intros m. unfold upd_n. destruct (m =? n); [|apply (na_nodup nodes s Ha)].
        apply NoDup_app_snoc; [apply (na_nodup nodes s Ha)|apply Hnot].
    + cbn. unfold upd_a, upd_n. rewrite !Z.eqb_refl. split; [reflexivity|]. split; [|split; [|reflexivity]].
      * intros b Hb. apply Z.eqb_neq in Hb. rewrite Hb. reflexivity.
      * intros m Hm. apply Z.eqb_neq in Hm. rewrite Hm. reflexivity.
  - inversion Hp. subst. right. split; [reflexivity|]. split; [reflexivity|].
    intros H. apply is_node_In in H. congruence.
Qed.

Lemma nremove_ok nodes s a n :
  NAgree nodes s -> npos s a = Some n ->
  exists s', nremove nodes s a = (s', Ok []) /\ NAgree nodes s' /\ npos s' a = None /\
             (forall b, b <> a -> npos s' b = npos s b) /\ (forall m, m <> n -> ncell s' m = ncell s m) /\
             ncell s' n = remove_first a (ncell s n).
Proof.
  intros Ha Hp. unfold nremove. rewrite Hp.
  assert (Hn : is_node nodes n = true) by (apply is_node_In, (na_node nodes s Ha a n Hp)).
  assert (Hin : In a (ncell s n)) by (apply (na_pos nodes s Ha); exact Hp).
  assert (Hm : zmemb a (ncell s n) = true) by (apply zmemb_In; exact Hin).
  rewrite Hn, Hm. eexists. split; [reflexivity|].
  pose proof (na_nodup nodes s Ha n) as Hnd.
  assert (Hl : forall x, In x (remove_first a (ncell s n)) <-> In x (ncell s n) /\ x <> a)
    by (intros x; apply remove_first_In; exact Hnd).
  split; [|cbn; unfold upd_a, upd_n; rewrite !Z.eqb_refl; split; [reflexivity|]; split; [|split; [|reflexivity]]].
  - constructor; cbn.
    + intros b m. unfold upd_a. destruct (b =? a); [discriminate|apply (na_node nodes s Ha)].
    + intros b m. unfold upd_a, upd_n. destruct (b =? a) eqn:E.
      * apply Z.eqb_eq in E. subst b. split; [discriminate|]. intros H. exfalso. destruct (m =? n) eqn:E2.
        -- apply Hl in H. destruct H as [_ H]. apply H. reflexivity.
        -- apply (na_pos nodes s Ha) in H. rewrite Hp in H. inversion H. subst. rewrite Z.eqb_refl in E2. discriminate.
      * apply Z.eqb_neq in E. destruct (m =? n) eqn:E2.
        -- apply Z.eqb_eq in E2. subst m. rewrite Hl, (na_pos nodes s Ha). tauto.
        -- apply (na_pos nodes s Ha).
    + intros m. unfold upd_n. destruct (m =? n); [apply remove_first_NoDup; exact Hnd|apply (na_nodup nodes s Ha)].
  - intros b Hb. apply Z.eqb_neq in Hb. rewrite Hb. reflexivity.
  - intros m Hm'. apply Z.eqb_neq in Hm'. rewrite Hm'. reflexivity.
Qed.

(* move_agent: lands on an existing node; towards an unknown node it is rejected with the state untouched *)
Lemma nmove_cases nodes s a n0 n s' r :
  NAgree nodes s -> npos s a = Some n0 -> nmove nodes s a n = (s', r) ->
  NAgree nodes s' /\
  ((r = Ok [] /\ In n nodes /\ npos s' a = Some n /\ (forall b, b <> a -> npos s' b = npos s b)) \/
   (r = Err E_KEY /\ ~ In n nodes /\ s' = s)).
Proof.
  intros Ha Hp Hm. unfold nmove in Hm. destruct (is_node nodes n) eqn:En.
  - destruct (nremove_ok nodes s a n0 Ha Hp) as (s1 & Hr & Ha1 & Hn1 & Hf1 & _).
    rewrite Hr in Hm. cbn [nbind] in Hm.
    destruct (nplace_cases nodes s1 a n s' r Ha1 Hn1 Hm) as [(Hr' & Ha' & Hin & Hp' & Hf' & _)|(Hs & Hr' & Hnin)].
    + split; [exact Ha'|]. left. split; [exact Hr'|]. split; [exact Hin|]. split; [exact Hp'|].
      intros b Hb. rewrite (Hf' b Hb). apply Hf1. exact Hb.
    + exfalso. apply Hnin. apply is_node_In. exact En.
  - inversion Hm. subst. split; [exact Ha|]. right. split; [reflexivity|]. split; [|reflexivity].
    intros H. apply is_node_In in H. congruence.
Qed.

Lemma nplaced_true s a : nplaced s a = true -> exists n, npos s a = Some n.
Proof. unfold nplaced. destruct (npos s a) as [n|]; [exists n; reflexivity|discriminate]. Qed.
Lemma nplaced_false s a : nplaced s a = false -> npos s a = None.
Proof. unfold nplaced. destruct (npos s a); [discriminate|reflexivity]. Qed.

Lemma nstep_agree nodes s o : NAgree nodes s -> NAgree nodes (fst (nstep nodes s o)).
Proof.
  intros Ha. destruct o; cbn [nstep].
  - destruct (nplaced s a) eqn:E; [exact Ha|]. apply nplaced_false in E.
    destruct (nplace nodes s a n) as [s' r] eqn:Ep. cbn [fst].
    destruct (nplace_cases nodes s a n s' r Ha E Ep) as [(_ & Ha' & _)|(-> & _)]; assumption.
  - destruct (nplaced s a) eqn:E; [|exact Ha]. apply nplaced_true in E. destruct E as [n Hp].
    destruct (nremove_ok nodes s a n Ha Hp) as (s' & Hr & Ha' & _). rewrite Hr. exact Ha'.
  - destruct (nplaced s a) eqn:E; [|exact Ha]. apply nplaced_true in E. destruct E as [n0 Hp].
    destruct (nmove nodes s a n) as [s' r] eqn:Em. cbn [fst].
    apply (nmove_cases nodes s a n0 n s' r Ha Hp Em).
  - destruct (is_node nodes n); exact Ha.
  - destruct (forallb (is_node nodes) l); exact Ha.
  - exact Ha.
  - exact Ha.
Qed.

Lemma nrun_agree nodes ops : forall s, NAgree nodes s -> NAgree nodes (nrun nodes s ops).
Proof.
  induction ops as [|o t IH]; intros s Ha; cbn [nrun]; [exact Ha|]. apply IH. apply nstep_agree. exact Ha.
Qed.

Lemma net_agree_history nodes ops : NAgree nodes (nrun nodes ninit ops).
Proof. apply nrun_agree, ninit_agree. Qed.

(* readers *)
Lemma ncontents_In nodes s l a :
  NAgree nodes s -> (In a (ncontents s l) <-> exists n, In n l /\ npos s a = Some n).
Proof.
  intros Ha. unfold ncontents. rewrite in_flat_map. split.
  - intros [n [Hn Hin]]. apply filter_In in Hn. exists n. split; [tauto|]. apply (na_pos nodes s Ha). exact Hin.
  - intros [n [Hn Hp]]. apply (na_pos nodes s Ha) in Hp. exists n. split; [|exact Hp].
    apply filter_In. split; [exact Hn|]. destruct (ncell s n); [destruct Hp|reflexivity].
Qed.

Lemma ncontents_NoDup nodes s l : NAgree nodes s -> NoDup l -> NoDup (ncontents s l).
Proof.
  intros Ha Hl. unfold ncontents. apply NoDup_flat_map.
  - apply NoDup_filter. exact Hl.
  - intros n _. apply (na_nodup nodes s Ha).
  - intros n m a _ _ Hn Hm. apply (na_pos nodes s Ha) in Hn. apply (na_pos nodes s Ha) in Hm. congruence.
Qed.

Lemma net_views_history nodes ops :
  NoDup nodes -> let s := nrun nodes ninit ops in
  (forall a n, npos s a = Some n <-> In a (ncell s n)) /\
  (forall a n, npos s a = Some n -> In n nodes) /\
  (forall n, is_nil (ncell s n) = true <-> forall a, npos s a <> Some n) /\
  (forall a, In a (ncontents s nodes) <-> exists n, npos s a = Some n) /\
  NoDup (ncontents s nodes) /\
  (forall a l, In a (ncontents s l) <-> exists n, In n l /\ npos s a = Some n) /\
  (forall a, In a (flat_map (ncell s) nodes) <-> In a (ncontents s nodes)).
Proof.
  intros Hnd s. pose proof (net_agree_history nodes ops) as Ha. fold s in Ha.
  split; [apply (na_pos nodes s Ha)|]. split; [apply (na_node nodes s Ha)|]. split; [|split; [|split; [|split]]].
  - intros n. rewrite is_nil_true. split.
    + intros H a Hp. apply (na_pos nodes s Ha) in Hp. rewrite H in Hp. destruct Hp.
    + intros H. destruct (ncell s n) as [|a t] eqn:E; [reflexivity|]. exfalso. apply (H a).
      apply (na_pos nodes s Ha). rewrite E. left. reflexivity.
  - intros a. rewrite (ncontents_In nodes s nodes a Ha). split.
    + intros [n [_ Hp]]. exists n. exact Hp.
    + intros [n Hp]. exists n. split; [apply (na_node nodes s Ha a n Hp)|exact Hp].
  - apply (ncontents_NoDup nodes s nodes Ha Hnd).
  - intros a l. apply (ncontents_In nodes s l a Ha).
  - intros a. rewrite (ncontents_In nodes s nodes a Ha), in_flat_map. split.
    + intros [n [Hn Hin]]. exists n. split; [exact Hn|]. apply (na_pos nodes s Ha). exact Hin.
    + intros [n [Hn Hp]]. exists n. split; [exact Hn|]. apply (na_pos nodes s Ha). exact Hp.
Qed.

Lemma net_move_step nodes s a n0 n s' r :
  NAgree nodes s -> npos s a = Some n0 -> nstep nodes s (NMove a n) = (s', r) ->
  (r = Ok [] /\ In n nodes /\ npos s' a = Some n /\ (forall b, b <> a -> npos s' b = npos s b)) \/
  (r = Err E_KEY /\ ~ In n nodes /\ s' = s).
Proof.
  intros Ha Hp Hst. cbn [nstep] in Hst. unfold nplaced in Hst. rewrite Hp in Hst.
  apply (nmove_cases nodes s a n0 n s' r Ha Hp Hst).
Qed.

Lemma net_place_step nodes s a n s' r :
  NAgree nodes s -> npos s a = None -> nstep nodes s (NPlace a n) = (s', r) ->
  (r = Ok [] /\ In n nodes /\ npos s' a = Some n /\ (forall b, b <> a -> npos s' b = npos s b)) \/
  (s' = s /\ r = Err E_KEY /\ ~ In n nodes).
Proof.
  intros Ha Hn Hst. cbn [nstep] in Hst. unfold nplaced in Hst. rewrite Hn in Hst.
  destruct (nplace_cases nodes s a n s' r Ha Hn Hst) as [(H1 & _ & H2 & H3 & H4 & _)|H]; [left|right; exact H].
  repeat split; assumption.
Qed.

Lemma net_place_move nodes s a :
  NAgree nodes s ->
  (forall n s' r, npos s a = None -> nstep nodes s (NPlace a n) = (s', r) ->
     (r = Ok [] /\ In n nodes /\ npos s' a = Some n /\ (forall b, b <> a -> npos s' b = npos s b)) \/
     (s' = s /\ r = Err E_KEY /\ ~ In n nodes)) /\
  (forall n0 n s' r, npos s a = Some n0 -> nstep nodes s (NMove a n) = (s', r) ->
     (r = Ok [] /\ In n nodes /\ npos s' a = Some n /\ (forall b, b <> a -> npos s' b = npos s b)) \/
     (r = Err E_KEY /\ ~ In n nodes /\ s' = s)).
Proof.
  intros Ha. split.
  - intros n s' r. exact (net_place_step nodes s a n s' r Ha).
  - intros n0 n s' r. exact (net_move_step nodes s a n0 n s' r Ha).
Qed.

(* ================================================================== C18: the NetworkGrid sites
   place_agent / move_agent towards a node that is not in the graph (KeyError): a NetGrid step that returns an
   error leaves the state LITERALLY unchanged - for every state satisfying the invariant, hence at every point of
   every history - and so every continuation behaves as if the call had not been made *)
Lemma C18_networkgrid_atomic nodes s o s' e :
  NAgree nodes s -> nstep nodes s o = (s', Err e) -> s' = s.
Proof.
  intros Ha Hst. destruct o; cbn [nstep] in Hst.
  - destruct (nplaced s a) eqn:E; [discriminate|]. apply nplaced_false in E.
    destruct (nplace_cases nodes s a n s' (Err e) Ha E Hst) as [(Hr & _)|(Hs & _)]; [discriminate|exact Hs].
  - destruct (nplaced s a) eqn:E; [|discriminate]. apply nplaced_true in E. destruct E as [n Hp].
    destruct (nremove_ok nodes s a n Ha Hp) as (s1 & Hr & _). rewrite Hr in Hst. discriminate.
  - destruct (nplaced s a) eqn:E; [|discriminate]. apply nplaced_true in E. destruct E as [n0 Hp].
    destruct (nmove_cases nodes s a n0 n s' (Err e) Ha Hp Hst) as [_ [(Hr & _)|(_ & _ & Hs)]]; [discriminate|exact Hs].
  - destruct (is_node nodes n); discriminate.
  - destruct (forallb (is_node nodes) l); discriminate.
  - discriminate.
  - discriminate.
Qed.

Lemma C18_networkgrid_atomic_obs nodes n s o s' e :
  NAgree nodes s -> nstep nodes s o = (s', Err e) -> nobs_state nodes n s' = nobs_state nodes n s.
Proof. intros Ha Hst. rewrite (C18_networkgrid_atomic nodes s o s' e Ha Hst). reflexivity. Qed.

Lemma C18_networkgrid_atomic_continue nodes n s o s' e rest :
  NAgree nodes s -> nstep nodes s o = (s', Err e) ->
  nrun_obs nodes n s' rest = nrun_obs nodes n s rest /\ nrun nodes s' rest = nrun nodes s rest.
Proof. intros Ha Hst. rewrite (C18_networkgrid_atomic nodes s o s' e Ha Hst). split; reflexivity. Qed.

Lemma C18_networkgrid_atomic_history nodes ops o s' e :
  nstep nodes (nrun nodes ninit ops) o = (s', Err e) -> s' = nrun nodes ninit ops.
Proof. apply C18_networkgrid_atomic. apply net_agree_history. Qed.
