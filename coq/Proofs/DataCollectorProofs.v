From Coq Require Import ZArith List Bool Lia.
From Mesa Require Import Model.DataCollector.
Import ListNotations.
Open Scope Z_scope.
Lemma stub : True. Proof. exact I. Qed.
