(* Lemmas about Model/DataCollector.v: the collector state after ANY history is a function of
   the moments at which collect succeeded and of the accepted table rows. *)
From Coq Require Import ZArith List Bool Lia.
From Mesa Require Import Model.DataCollector.
Import ListNotations.
Open Scope Z_scope.

(* ------------------------------------------------------------------ association lists *)
Section AssocLemmas.
  Context {V : Type}.
  Implicit Types (l : list (Z * V)).

  Lemma aget_aset_same k v l : aget k (aset k v l) = Some v.
  Proof.
    induction l as [|[k' v'] t IH]; simpl.
    - rewrite Z.eqb_refl. reflexivity.
    - destruct (k =? k') eqn:E; simpl; rewrite E; [reflexivity|exact IH].
  Qed.

  Lemma aget_aset_other k k' v l : k <> k' -> aget k' (aset k v l) = aget k' l.
  Proof.
    intros Hne. induction l as [|[k2 v2] t IH]; simpl.
    - destruct (k' =? k) eqn:E; [apply Z.eqb_eq in E; congruence|reflexivity].
    - destruct (k =? k2) eqn:E; simpl.
      + apply Z.eqb_eq in E. subst k2.
        destruct (k' =? k) eqn:E2; [apply Z.eqb_eq in E2; congruence|reflexivity].
      + destruct (k' =? k2); [reflexivity|exact IH].
  Qed.

  Lemma aget_In k v l : aget k l = Some v -> In (k, v) l.
  Proof.
    induction l as [|[k' v'] t IH]; simpl; [discriminate|].
    destruct (k =? k') eqn:E.
    - apply Z.eqb_eq in E. subst. intros H. inversion H. subst. left. reflexivity.
    - intros H. right. apply IH. exact H.
  Qed.

  Lemma aget_None_notin k l : aget k l = None -> ~ In k (map fst l).
  Proof.
    induction l as [|[k' v'] t IH]; simpl; [tauto|].
    destruct (k =? k') eqn:E; [discriminate|].
    apply Z.eqb_neq in E. intros H [H1|H1]; [congruence|]. apply IH; assumption.
  Qed.

  Lemma notin_aget_None k l : ~ In k (map fst l) -> aget k l = None.
  Proof.
    induction l as [|[k' v'] t IH]; simpl; [reflexivity|].
    intros H. destruct (k =? k') eqn:E.
    - apply Z.eqb_eq in E. subst. tauto.
    - apply IH. tauto.
  Qed.

  Lemma In_aget_NoDup k v l : NoDup (map fst l) -> In (k, v) l -> aget k l = Some v.
  Proof.
    induction l as [|[k' v'] t IH]; simpl; [tauto|].
    intros Hnd [H|H].
    - inversion H. subst. rewrite Z.eqb_refl. reflexivity.
    - inversion Hnd as [|? ? Hnotin Hnd']. subst.
      destruct (k =? k') eqn:E.
      + apply Z.eqb_eq in E. subst. exfalso. apply Hnotin.
        apply in_map_iff. exists (k', v). split; [reflexivity|exact H].
      + apply IH; assumption.
  Qed.

  (* keys after d[k] = v *)
  Lemma aset_keys k v l :
    map fst (aset k v l) = if amem k l then map fst l else map fst l ++ [k].
  Proof.
    unfold amem. induction l as [|[k' v'] t IH]; simpl; [reflexivity|].
    destruct (k =? k') eqn:E; simpl; [reflexivity|].
    rewrite IH. destruct (aget k t); reflexivity.
  Qed.

  Lemma NoDup_snoc (A : Type) (x : A) (l0 : list A) : NoDup l0 -> ~ In x l0 -> NoDup (l0 ++ [x]).
  Proof.
    induction l0 as [|y t IH]; simpl; intros Hnd Hn.
    - constructor; [simpl; tauto|constructor].
    - inversion Hnd as [|? ? Hy Ht]. subst. constructor.
      + rewrite in_app_iff. simpl. intros [H|[H|[]]]; [tauto|]. subst. tauto.
      + apply IH; tauto.
  Qed.

  Lemma aset_keys_NoDup k v l : NoDup (map fst l) -> NoDup (map fst (aset k v l)).
  Proof.
    intros H. rewrite aset_keys. unfold amem. destruct (aget k l) eqn:E; [exact H|].
    apply aget_None_notin in E. apply NoDup_snoc; assumption.
  Qed.
End AssocLemmas.

(* ------------------------------------------------------------------ the specification side *)
Definition res_ok {A : Type} (r : result A) : bool := match r with Ok _ => true | Err _ => false end.

(* direct evaluation with the exception case mapped to None (only used where evaluation succeeds) *)
Definition mval_at (w : world) (r : mrep) : snap := match eval_mrep w r with Ok v => v | Err _ => SNone end.
Definition aval_at (w : world) (a : agent) (r : arep) : snap := match eval_arep w a r with Ok v => v | Err _ => SNone end.
Definition row_of (w : world) (reps : list (Z * arep)) (a : agent) : row :=
  (w_steps w, a_id a, map (fun p => aval_at w a (snd p)) reps).

(* the agents "of the class" as the repaired code picks them *)
Definition type_members (w : world) (t : Z) : list agent :=
  match filter (fun a => a_cls a =? t) (w_agents w) with
  | x :: rest => x :: rest
  | [] => filter (fun a => is_sub (a_cls a) t) (w_agents w)
  end.

(* no reporter raises at this moment, every agent-type key is usable *)
Definition mreps_ok (cfg : config) (w : world) : bool :=
  forallb (fun p => res_ok (eval_mrep w (snd p))) (c_mreps cfg).
Definition areps_ok (w : world) (reps : list (Z * arep)) (ags : list agent) : bool :=
  forallb (fun a => forallb (fun p => res_ok (eval_arep w a (snd p))) reps) ags.
Definition treps_ok (cfg : config) (w : world) : bool :=
  forallb (fun tr => res_ok (type_agents w (fst tr)) && areps_ok w (snd tr) (w_agents w)) (c_treps cfg).
Definition ok_at (cfg : config) (w : world) : bool :=
  mreps_ok cfg w && areps_ok w (c_areps cfg) (w_agents w) && treps_ok cfg w.

(* the worlds at the Collect operations of a history *)
Fixpoint collect_worlds (w : world) (ops : list op) : list world :=
  match ops with
  | [] => []
  | o :: t => match o with
              | Collect => w :: collect_worlds w t
              | _ => collect_worlds (fst (world_step w o)) t
              end
  end.

(* the moments: all of them, except a first collect rejected by the model-reporter validation *)
Definition moments (cfg : config) (ws : list world) : list world :=
  match ws with
  | [] => []
  | w0 :: t => if is_nil (c_mreps cfg) || res_ok (validate_all w0 (c_mreps cfg)) then w0 :: t else t
  end.
Definition moments_v (cfg : config) (validated : bool) (ws : list world) : list world :=
  if validated then ws else moments cfg ws.

(* accepted table rows of a history *)
Definition row_ok (cfg : config) (t : Z) (r : list (Z * cellv)) (ign : bool) : bool :=
  match aget t (c_tables cfg) with
  | None => false
  | Some cols => ign || forallb (fun c => amem c r) cols
  end.
Fixpoint accepted (cfg : config) (ops : list op) : list (Z * list (Z * cellv)) :=
  match ops with
  | [] => []
  | AddRow t r ign :: rest => if row_ok cfg t r ign then (t, r) :: accepted cfg rest else accepted cfg rest
  | _ :: rest => accepted cfg rest
  end.

(* what the collector must hold, as a function of moments and accepted rows *)
Definition mvars_of (cfg : config) (ms : list world) : list (Z * list snap) :=
  map (fun p => (fst p, map (fun w => mval_at w (snd p)) ms)) (c_mreps cfg).
Definition arecs_of (cfg : config) (ms : list world) : list (Z * list row) :=
  if is_nil (c_areps cfg) then []
  else fold_left (fun acc w => aset (w_steps w) (map (row_of w (c_areps cfg)) (w_agents w)) acc) ms [].
Fixpoint tinner_of (w : world) (treps : list (Z * list (Z * arep))) (inner : list (Z * list row)) : list (Z * list row) :=
  match treps with
  | [] => inner
  | (t, reps) :: rest => tinner_of w rest (aset t (map (row_of w reps) (type_members w t)) inner)
  end.
Definition trecs_of (cfg : config) (ms : list world) : list (Z * list (Z * list row)) :=
  if is_nil (c_treps cfg) then []
  else fold_left (fun acc w => aset (w_steps w) (tinner_of w (c_treps cfg) []) acc) ms [].
Definition rows_for (t : Z) (acc : list (Z * list (Z * cellv))) : list (list (Z * cellv)) :=
  map snd (filter (fun p => fst p =? t) acc).
Definition tables_of (cfg : config) (acc : list (Z * list (Z * cellv))) : list (Z * list (Z * list cellv)) :=
  map (fun tb => (fst tb, map (fun c => (c, map (fun r => row_cell r c) (rows_for (fst tb) acc))) (snd tb))) (c_tables cfg).

Record refines (cfg : config) (ms : list world) (acc : list (Z * list (Z * cellv))) (d : dc) : Prop := {
  r_mvars : d_mvars d = mvars_of cfg ms;
  r_arecs : d_arecs d = arecs_of cfg ms;
  r_trecs : d_trecs d = trecs_of cfg ms;
  r_tables : d_tables d = tables_of cfg acc;
  r_csteps : d_csteps d = map w_steps ms }.

Lemma refines_init cfg : refines cfg [] [] (dc_init cfg).
Proof.
  constructor; simpl; try reflexivity.
  - unfold arecs_of. destruct (is_nil (c_areps cfg)); reflexivity.
  - unfold trecs_of. destruct (is_nil (c_treps cfg)); reflexivity.
Qed.

(* ------------------------------------------------------------------ stage 1: model variables *)
Lemma collect_mvars_ok w rs : forall mv,
  NoDup (map fst rs) ->
  forallb (fun p => res_ok (eval_mrep w (snd p))) rs = true ->
  collect_mvars w rs mv =
  (map (fun p => match aget (fst p) rs with
                 | Some r => (fst p, snd p ++ [mval_at w r])
                 | None => p end) mv, Ok tt).
Proof.
  induction rs as [|[n r] t IH]; intros mv Hnd Hok; simpl.
  - f_equal. rewrite <- (map_id mv) at 1. apply map_ext. intros p. reflexivity.
  - simpl in Hok. apply andb_true_iff in Hok. destruct Hok as [Hr Ht].
    inversion Hnd as [|? ? Hn Hnd']. subst.
    unfold mval_at at 1. destruct (eval_mrep w r) as [v|e] eqn:Ev; [|discriminate].
    rewrite (IH _ Hnd' Ht). f_equal. unfold aappend. rewrite map_map. apply map_ext.
    intros [k l]. simpl. destruct (k =? n) eqn:E.
    + apply Z.eqb_eq in E. subst k. simpl. rewrite (notin_aget_None n t Hn).
      unfold mval_at. rewrite Ev. reflexivity.
    + simpl. reflexivity.
Qed.

Lemma mvars_of_snoc cfg ms w :
  NoDup (map fst (c_mreps cfg)) ->
  map (fun p => match aget (fst p) (c_mreps cfg) with
                | Some r => (fst p, snd p ++ [mval_at w r])
                | None => p end) (mvars_of cfg ms) = mvars_of cfg (ms ++ [w]).
Proof.
  intros Hnd. unfold mvars_of. rewrite map_map. apply map_ext_in. intros [n r] Hin. simpl.
  rewrite (In_aget_NoDup n r _ Hnd Hin). rewrite map_app. reflexivity.
Qed.

(* ------------------------------------------------------------------ stage 2/3: agent rows *)
Lemma map_res_ok {A B : Type} (f : A -> result B) (g : A -> B) (l : list A) :
  (forall x, In x l -> f x = Ok (g x)) -> map_res f l = Ok (map g l).
Proof.
  induction l as [|x t IH]; intros H; simpl; [reflexivity|].
  rewrite (H x (or_introl eq_refl)). rewrite IH; [reflexivity|].
  intros y Hy. apply H. right. exact Hy.
Qed.

Lemma agent_row_ok w reps a :
  forallb (fun p => res_ok (eval_arep w a (snd p))) reps = true ->
  agent_row w reps a = Ok (row_of w reps a).
Proof.
  intros H. unfold agent_row, row_of.
  rewrite (map_res_ok _ (fun p => aval_at w a (snd p))); [reflexivity|].
  intros p Hp. rewrite forallb_forall in H. specialize (H p Hp).
  unfold aval_at. destruct (eval_arep w a (snd p)); [reflexivity|discriminate].
Qed.

Lemma record_agents_ok w reps ags :
  areps_ok w reps ags = true -> record_agents w reps ags = Ok (map (row_of w reps) ags).
Proof.
  intros H. unfold record_agents. apply map_res_ok. intros a Ha.
  apply agent_row_ok. unfold areps_ok in H. rewrite forallb_forall in H. apply H. exact Ha.
Qed.

Lemma areps_ok_sub w reps ags ags' :
  (forall a, In a ags' -> In a ags) -> areps_ok w reps ags = true -> areps_ok w reps ags' = true.
Proof.
  unfold areps_ok. intros Hsub H. rewrite forallb_forall in *. intros a Ha. apply H. apply Hsub. exact Ha.
Qed.

Lemma type_members_sub w t a : In a (type_members w t) -> In a (w_agents w).
Proof.
  unfold type_members. destruct (filter (fun a0 => a_cls a0 =? t) (w_agents w)) eqn:E.
  - intros H. apply filter_In in H. tauto.
  - intros H. rewrite <- E in H. apply filter_In in H. tauto.
Qed.

Lemma type_agents_ok w t : res_ok (type_agents w t) = true -> type_agents w t = Ok (type_members w t).
Proof.
  unfold type_agents, type_members.
  destruct (filter (fun a => a_cls a =? t) (w_agents w)); [|reflexivity].
  destruct (is_agent_class t); [reflexivity|discriminate].
Qed.

Lemma collect_types_ok w treps : forall inner,
  forallb (fun tr => res_ok (type_agents w (fst tr)) && areps_ok w (snd tr) (w_agents w)) treps = true ->
  collect_types w treps inner = (tinner_of w treps inner, Ok tt).
Proof.
  induction treps as [|[t reps] rest IH]; intros inner H; simpl; [reflexivity|].
  simpl in H. apply andb_true_iff in H. destruct H as [H1 H2].
  apply andb_true_iff in H1. destruct H1 as [Ht Hr].
  rewrite (type_agents_ok _ _ Ht).
  rewrite record_agents_ok.
  - apply IH. exact H2.
  - apply (areps_ok_sub w reps (w_agents w)); [|exact Hr]. intros a. apply type_members_sub.
Qed.

(* ------------------------------------------------------------------ collect as a whole *)
Lemma is_nil_true {A : Type} (l : list A) : is_nil l = true -> l = [].
Proof. destruct l; [reflexivity|discriminate]. Qed.

Lemma arecs_of_snoc cfg ms w :
  is_nil (c_areps cfg) = false ->
  aset (w_steps w) (map (row_of w (c_areps cfg)) (w_agents w)) (arecs_of cfg ms) = arecs_of cfg (ms ++ [w]).
Proof. intros H. unfold arecs_of. rewrite H. rewrite fold_left_app. reflexivity. Qed.

Lemma trecs_of_snoc cfg ms w :
  is_nil (c_treps cfg) = false ->
  aset (w_steps w) (tinner_of w (c_treps cfg) []) (trecs_of cfg ms) = trecs_of cfg (ms ++ [w]).
Proof. intros H. unfold trecs_of. rewrite H. rewrite fold_left_app. reflexivity. Qed.

Lemma arecs_of_nil cfg ms ms' : is_nil (c_areps cfg) = true -> arecs_of cfg ms = arecs_of cfg ms'.
Proof. intros H. unfold arecs_of. rewrite H. reflexivity. Qed.
Lemma trecs_of_nil cfg ms ms' : is_nil (c_treps cfg) = true -> trecs_of cfg ms = trecs_of cfg ms'.
Proof. intros H. unfold trecs_of. rewrite H. reflexivity. Qed.

(* stages 2 and 3 on a collector that already passed stage 1 *)
Lemma collect_stage23 cfg w d ms acc :
  areps_ok w (c_areps cfg) (w_agents w) = true -> treps_ok cfg w = true ->
  d_mvars d = mvars_of cfg (ms ++ [w]) -> d_arecs d = arecs_of cfg ms -> d_trecs d = trecs_of cfg ms ->
  d_tables d = tables_of cfg acc -> d_csteps d = map w_steps (ms ++ [w]) ->
  exists d2, collect_stage2 cfg w d = (d2, Ok tt) /\
  exists d3, collect_stage3 cfg w d2 = (d3, Ok tt) /\ refines cfg (ms ++ [w]) acc d3 /\ d_validated d3 = d_validated d.
Proof.
  intros Ha Ht Hm Har Htr Htb Hcs.
  unfold collect_stage2. destruct (is_nil (c_areps cfg)) eqn:En.
  - exists d. split; [reflexivity|].
    unfold collect_stage3. destruct (is_nil (c_treps cfg)) eqn:Et.
    + exists d. split; [reflexivity|]. split; [|reflexivity].
      constructor; try assumption.
      * rewrite Har. apply arecs_of_nil. exact En.
      * rewrite Htr. apply trecs_of_nil. exact Et.
    + rewrite (collect_types_ok w (c_treps cfg) [] Ht).
      eexists. split; [reflexivity|]. split; [|reflexivity].
      constructor; simpl; try assumption.
      * rewrite Har. apply arecs_of_nil. exact En.
      * rewrite Htr. apply trecs_of_snoc. exact Et.
  - rewrite (record_agents_ok _ _ _ Ha).
    eexists. split; [reflexivity|].
    unfold collect_stage3. destruct (is_nil (c_treps cfg)) eqn:Et.
    + eexists. split; [reflexivity|]. split; [|reflexivity].
      constructor; simpl; try assumption.
      * rewrite Har. apply arecs_of_snoc. exact En.
      * rewrite Htr. apply trecs_of_nil. exact Et.
    + simpl. rewrite (collect_types_ok w (c_treps cfg) [] Ht).
      eexists. split; [reflexivity|]. split; [|reflexivity].
      constructor; simpl; try assumption.
      * rewrite Har. apply arecs_of_snoc. exact En.
      * rewrite Htr. apply trecs_of_snoc. exact Et.
Qed.

Lemma refines_with_validated cfg ms acc d : refines cfg ms acc d -> refines cfg ms acc (with_validated d).
Proof. intros [H1 H2 H3 H4 H5]. constructor; simpl; assumption. Qed.

(* a collect rejected by the validation only sets the flag *)
Lemma collect_invalid cfg w d e :
  is_nil (c_mreps cfg) = false -> d_validated d = false -> validate_all w (c_mreps cfg) = Err e ->
  collect cfg w d = (with_validated d, Err e).
Proof.
  intros Hn Hv He. unfold collect, collect_stage1. rewrite Hn, Hv, He. reflexivity.
Qed.

Lemma collect_valid cfg w d ms acc :
  NoDup (map fst (c_mreps cfg)) -> ok_at cfg w = true -> refines cfg ms acc d ->
  is_nil (c_mreps cfg) || d_validated d || res_ok (validate_all w (c_mreps cfg)) = true ->
  exists d', collect cfg w d = (d', Ok tt) /\ refines cfg (ms ++ [w]) acc d' /\
             d_validated d' = d_validated d || negb (is_nil (c_mreps cfg)).
Proof.
  intros Hnd Hok [H1 H2 H3 H4 H5] Hvalid.
  unfold ok_at in Hok. apply andb_true_iff in Hok. destruct Hok as [Hok Ht].
  apply andb_true_iff in Hok. destruct Hok as [Hm Ha].
  unfold collect, collect_stage1.
  destruct (is_nil (c_mreps cfg)) eqn:En.
  - (* no model reporters *)
    destruct (collect_stage23 cfg w (with_csteps d (d_csteps d ++ [w_steps w])) ms acc Ha Ht) as [d2 [E2 [d3 [E3 [R3 V3]]]]];
      simpl; try assumption.
    + rewrite H1. unfold mvars_of. apply is_nil_true in En. rewrite En. reflexivity.
    + rewrite H5. rewrite map_app. reflexivity.
    + rewrite E2. exists d3. split; [exact E3|]. split; [exact R3|].
      rewrite V3. simpl. rewrite orb_false_r. reflexivity.
  - (* model reporters: validation passes (or was done before) *)
    assert ((if d_validated d then Ok tt else validate_all w (c_mreps cfg)) = Ok tt) as Hv.
    { simpl in Hvalid. destruct (d_validated d); [reflexivity|]. simpl in Hvalid.
      destruct (validate_all w (c_mreps cfg)) as [[]|]; [reflexivity|discriminate]. }
    rewrite Hv. simpl d_mvars.
    rewrite (collect_mvars_ok w (c_mreps cfg) (d_mvars d) Hnd Hm).
    rewrite H1. rewrite (mvars_of_snoc cfg ms w Hnd).
    destruct (collect_stage23 cfg w
                (with_csteps (with_mvars (with_validated d) (mvars_of cfg (ms ++ [w]))) (d_csteps d ++ [w_steps w]))
                ms acc Ha Ht) as [d2 [E2 [d3 [E3 [R3 V3]]]]]; simpl; try assumption; try reflexivity.
    + rewrite H5. rewrite map_app. reflexivity.
    + simpl in E2. rewrite E2. exists d3. split; [exact E3|]. split; [exact R3|].
      rewrite V3. simpl. rewrite orb_true_r. reflexivity.
Qed.

(* ------------------------------------------------------------------ tables *)
Lemma aget_map_snd {A B : Type} (F : Z * A -> B) (l : list (Z * A)) k :
  aget k (map (fun p => (fst p, F p)) l) = match aget k l with Some v => Some (F (k, v)) | None => None end.
Proof.
  induction l as [|[k' v] t IH]; simpl; [reflexivity|].
  destruct (k =? k') eqn:E; [|exact IH]. apply Z.eqb_eq in E. subst. reflexivity.
Qed.

Lemma aset_map {A B : Type} (F : Z * A -> B) (l : list (Z * A)) t v :
  NoDup (map fst l) -> amem t l = true ->
  aset t v (map (fun p => (fst p, F p)) l) = map (fun p => (fst p, if fst p =? t then v else F p)) l.
Proof.
  unfold amem. induction l as [|[k a] rest IH]; simpl; intros Hnd Hm; [discriminate|].
  inversion Hnd as [|? ? Hk Hnd']. subst.
  destruct (t =? k) eqn:E.
  - apply Z.eqb_eq in E. subst k. rewrite Z.eqb_refl. f_equal.
    apply map_ext_in. intros [k2 a2] Hin. simpl.
    destruct (k2 =? t) eqn:E2; [|reflexivity].
    apply Z.eqb_eq in E2. subst. exfalso. apply Hk. apply in_map_iff. exists (t, a2). split; [reflexivity|exact Hin].
  - rewrite Z.eqb_sym in E. rewrite E. f_equal. apply IH; assumption.
Qed.

Lemma rows_for_snoc_same t acc r : rows_for t (acc ++ [(t, r)]) = rows_for t acc ++ [r].
Proof. unfold rows_for. rewrite filter_app. simpl. rewrite Z.eqb_refl. rewrite map_app. reflexivity. Qed.
Lemma rows_for_snoc_other t t' acc r : t' <> t -> rows_for t' (acc ++ [(t, r)]) = rows_for t' acc.
Proof.
  intros H. unfold rows_for. rewrite filter_app. simpl.
  destruct (t =? t') eqn:E; [apply Z.eqb_eq in E; congruence|]. rewrite app_nil_r. reflexivity.
Qed.

Lemma existsb_missing (r : list (Z * cellv)) (G : Z -> list cellv) (cols : list Z) :
  existsb (fun c : Z * list cellv => negb (amem (fst c) r)) (map (fun c => (c, G c)) cols)
  = negb (forallb (fun c => amem c r) cols).
Proof.
  induction cols as [|c cs IH]; simpl; [reflexivity|].
  rewrite IH. destruct (amem c r); reflexivity.
Qed.

Lemma add_row_refines cfg d ms acc t r ign :
  NoDup (map fst (c_tables cfg)) -> refines cfg ms acc d ->
  exists d' res, add_row d t r ign = (d', res) /\
    refines cfg ms (acc ++ (if row_ok cfg t r ign then [(t, r)] else [])) d' /\
    d_validated d' = d_validated d /\
    (row_ok cfg t r ign = false -> d' = d /\ res = Err E_EXC).
Proof.
  intros Hnd [H1 H2 H3 H4 H5]. unfold add_row, row_ok.
  rewrite H4. unfold tables_of at 1. rewrite aget_map_snd.
  destruct (aget t (c_tables cfg)) as [cols|] eqn:Et.
  - simpl fst. simpl snd. rewrite existsb_missing.
    destruct (negb ign && negb (forallb (fun c => amem c r) cols)) eqn:Erej.
    + (* rejected *)
      assert (ign || forallb (fun c => amem c r) cols = false) as Hf.
      { destruct ign; simpl in *; [discriminate|]. destruct (forallb _ cols); [discriminate|reflexivity]. }
      rewrite Hf. exists d, (Err E_EXC). split; [reflexivity|]. rewrite app_nil_r.
      split; [constructor; assumption|]. split; [reflexivity|]. intros _. split; reflexivity.
    + assert (ign || forallb (fun c => amem c r) cols = true) as Hf.
      { destruct ign; simpl in *; [reflexivity|]. destruct (forallb _ cols); [reflexivity|discriminate]. }
      rewrite Hf. eexists. eexists. split; [reflexivity|].
      split; [|split; [reflexivity|intros; discriminate]].
      constructor; simpl; try assumption.
      unfold tables_of at 1.
      rewrite (aset_map (fun tb => map (fun c => (c, map (fun r0 => row_cell r0 c) (rows_for (fst tb) acc))) (snd tb))
                 (c_tables cfg) t); [|exact Hnd|unfold amem; rewrite Et; reflexivity].
      unfold tables_of. apply map_ext_in. intros [t' cols'] Hin. simpl.
      destruct (t' =? t) eqn:E.
      * apply Z.eqb_eq in E. subst t'.
        assert (cols' = cols) as ->.
        { pose proof (In_aget_NoDup t cols' _ Hnd Hin) as Hg. rewrite Et in Hg. inversion Hg. reflexivity. }
        f_equal. rewrite map_map. simpl. apply map_ext. intros c.
        rewrite rows_for_snoc_same. rewrite map_app. reflexivity.
      * apply Z.eqb_neq in E. rewrite (rows_for_snoc_other t t' acc r E). reflexivity.
  - exists d, (Err E_EXC). split; [reflexivity|]. rewrite app_nil_r.
    split; [constructor; assumption|]. split; [reflexivity|]. intros _. split; reflexivity.
Qed.

(* ------------------------------------------------------------------ histories *)
Definition is_world_op (o : op) : bool :=
  match o with Collect | AddRow _ _ _ | Frames => false | _ => true end.

Lemma step_world cfg s o : is_world_op o = true ->
  fst (step cfg s o) = {| s_w := fst (world_step (s_w s) o); s_d := s_d s |}.
Proof.
  intros H. destruct o; try discriminate; unfold step; cbv beta iota;
    destruct (world_step (s_w s) _); reflexivity.
Qed.

Lemma collect_worlds_world w o t : is_world_op o = true ->
  collect_worlds w (o :: t) = collect_worlds (fst (world_step w o)) t.
Proof. intros H. destruct o; try discriminate; reflexivity. Qed.

Lemma accepted_world cfg o t : is_world_op o = true -> accepted cfg (o :: t) = accepted cfg t.
Proof. intros H. destruct o; try discriminate; reflexivity. Qed.

Lemma moments_nil cfg ws : is_nil (c_mreps cfg) = true -> moments cfg ws = ws.
Proof. intros H. unfold moments. destruct ws; [reflexivity|]. rewrite H. reflexivity. Qed.

Lemma exec_refines cfg :
  NoDup (map fst (c_mreps cfg)) -> NoDup (map fst (c_tables cfg)) ->
  forall ops s ms acc,
  forallb (ok_at cfg) (collect_worlds (s_w s) ops) = true ->
  refines cfg ms acc (s_d s) ->
  refines cfg (ms ++ moments_v cfg (d_validated (s_d s)) (collect_worlds (s_w s) ops))
              (acc ++ accepted cfg ops) (s_d (exec cfg s ops)).
Proof.
  intros Hndm Hndt. induction ops as [|o t IH]; intros s ms acc Hok Href.
  - simpl. unfold moments_v. destruct (d_validated (s_d s)); simpl; rewrite !app_nil_r; exact Href.
  - destruct (is_world_op o) eqn:Ew.
    + rewrite collect_worlds_world in * by exact Ew. rewrite accepted_world by exact Ew.
      simpl exec. rewrite step_world by exact Ew.
      apply (IH {| s_w := fst (world_step (s_w s) o); s_d := s_d s |} ms acc); assumption.
    + destruct o; try discriminate.
      * (* Collect *)
        simpl collect_worlds in *. simpl accepted. simpl in Hok. apply andb_true_iff in Hok.
        destruct Hok as [Hw Hrest]. simpl exec. unfold step.
        destruct (is_nil (c_mreps cfg) || d_validated (s_d s) || res_ok (validate_all (s_w s) (c_mreps cfg))) eqn:Ev.
        -- destruct (collect_valid cfg (s_w s) (s_d s) ms acc Hndm Hw Href Ev) as [d' [Ec [Rd Vd]]].
           rewrite Ec. simpl fst.
           specialize (IH {| s_w := s_w s; s_d := d' |} (ms ++ [s_w s]) acc Hrest Rd). simpl in IH.
           rewrite <- app_assoc in IH. simpl in IH.
           assert (moments_v cfg (d_validated (s_d s)) (s_w s :: collect_worlds (s_w s) t)
                   = s_w s :: moments_v cfg (d_validated d') (collect_worlds (s_w s) t)) as Hm.
           { rewrite Vd. unfold moments_v. destruct (d_validated (s_d s)) eqn:Evd.
             - reflexivity.
             - rewrite orb_false_r in Ev.
               change (false || negb (is_nil (c_mreps cfg))) with (negb (is_nil (c_mreps cfg))).
               unfold moments at 1. rewrite Ev.
               destruct (is_nil (c_mreps cfg)) eqn:En.
               + change (negb true) with false. cbv iota. rewrite moments_nil by exact En. reflexivity.
               + reflexivity. }
           rewrite Hm. exact IH.
        -- apply orb_false_iff in Ev. destruct Ev as [Ev Eval]. apply orb_false_iff in Ev. destruct Ev as [En Evd].
           destruct (validate_all (s_w s) (c_mreps cfg)) as [[]|e] eqn:Eva; [discriminate|].
           rewrite (collect_invalid cfg (s_w s) (s_d s) e En Evd Eva). simpl fst.
           specialize (IH {| s_w := s_w s; s_d := with_validated (s_d s) |} ms acc Hrest (refines_with_validated _ _ _ _ Href)).
           simpl in IH. unfold moments_v at 1. rewrite Evd. unfold moments. rewrite En, Eva. simpl.
           exact IH.
      * (* AddRow *)
        simpl collect_worlds in *. simpl exec. unfold step.
        destruct (add_row_refines cfg (s_d s) ms acc t0 r ignore_missing Hndt Href) as [d' [res [Ea [Rd [Vd _]]]]].
        rewrite Ea. simpl fst.
        specialize (IH {| s_w := s_w s; s_d := d' |} ms _ Hok Rd). simpl in IH.
        rewrite Vd in IH. rewrite <- app_assoc in IH.
        simpl accepted. destruct (row_ok cfg t0 r ignore_missing); exact IH.
      * (* Frames *)
        simpl collect_worlds in *. simpl exec. simpl accepted.
        apply (IH s ms acc); assumption.
Qed.

Theorem refinement cfg ops :
  NoDup (map fst (c_mreps cfg)) -> NoDup (map fst (c_tables cfg)) ->
  forallb (ok_at cfg) (collect_worlds world_init ops) = true ->
  refines cfg (moments cfg (collect_worlds world_init ops)) (accepted cfg ops)
          (s_d (exec cfg (state_init cfg) ops)).
Proof.
  intros H1 H2 H3.
  exact (exec_refines cfg H1 H2 ops (state_init cfg) [] [] H3 (refines_init cfg)).
Qed.

(* ------------------------------------------------------------------ reading the records *)
(* the last moment made while model.steps = s *)
Fixpoint last_at (s : Z) (ms : list world) : option world :=
  match ms with
  | [] => None
  | w :: t => match last_at s t with
              | Some x => Some x
              | None => if w_steps w =? s then Some w else None
              end
  end.

Lemma aget_fold_aset {V : Type} (F : world -> V) s ms : forall init,
  aget s (fold_left (fun acc w => aset (w_steps w) (F w) acc) ms init)
  = match last_at s ms with Some w => Some (F w) | None => aget s init end.
Proof.
  induction ms as [|w t IH]; intros init; simpl; [reflexivity|].
  rewrite IH. destruct (last_at s t); [reflexivity|].
  destruct (w_steps w =? s) eqn:E.
  - apply Z.eqb_eq in E. subst. apply aget_aset_same.
  - apply Z.eqb_neq in E. apply aget_aset_other. exact E.
Qed.

Lemma fold_aset_keys_NoDup {V : Type} (F : world -> V) ms : forall init,
  NoDup (map fst init) -> NoDup (map fst (fold_left (fun acc w => aset (w_steps w) (F w) acc) ms init)).
Proof.
  induction ms as [|w t IH]; intros init H; simpl; [exact H|].
  apply IH. apply aset_keys_NoDup. exact H.
Qed.

Lemma arecs_lookup cfg ms s :
  aget s (arecs_of cfg ms) =
  if is_nil (c_areps cfg) then None
  else match last_at s ms with
       | Some w => Some (map (row_of w (c_areps cfg)) (w_agents w))
       | None => None
       end.
Proof.
  unfold arecs_of. destruct (is_nil (c_areps cfg)); [reflexivity|].
  rewrite (aget_fold_aset (fun w => map (row_of w (c_areps cfg)) (w_agents w))). reflexivity.
Qed.

Lemma tinner_lookup w treps t : forall inner,
  NoDup (map fst treps) ->
  aget t (tinner_of w treps inner) =
  match aget t treps with
  | Some reps => Some (map (row_of w reps) (type_members w t))
  | None => aget t inner
  end.
Proof.
  induction treps as [|[t' reps'] rest IH]; intros inner Hnd; simpl; [reflexivity|].
  inversion Hnd as [|? ? Hn Hnd']. subst. rewrite IH by exact Hnd'.
  destruct (t =? t') eqn:E.
  - apply Z.eqb_eq in E. subst t'. rewrite (notin_aget_None t rest Hn). apply aget_aset_same.
  - destruct (aget t rest); [reflexivity|]. apply aget_aset_other. apply Z.eqb_neq in E. congruence.
Qed.

Lemma trecs_lookup cfg ms s :
  aget s (trecs_of cfg ms) =
  if is_nil (c_treps cfg) then None
  else match last_at s ms with
       | Some w => Some (tinner_of w (c_treps cfg) [])
       | None => None
       end.
Proof.
  unfold trecs_of. destruct (is_nil (c_treps cfg)); [reflexivity|].
  rewrite (aget_fold_aset (fun w => tinner_of w (c_treps cfg) [])). reflexivity.
Qed.

Lemma last_at_In s ms w : last_at s ms = Some w -> In w ms /\ w_steps w = s.
Proof.
  induction ms as [|x t IH]; simpl; [discriminate|].
  destruct (last_at s t) eqn:E.
  - intros H. inversion H. subst. destruct (IH eq_refl). tauto.
  - destruct (w_steps x =? s) eqn:E2; [|discriminate]. intros H. inversion H. subst.
    apply Z.eqb_eq in E2. tauto.
Qed.

(* ------------------------------------------------------------------ agents of the class *)
Lemma is_sub_refl c : is_sub c c = true.
Proof. unfold is_sub. simpl. rewrite Z.eqb_refl. reflexivity. Qed.

Lemma type_members_isinstance w t :
  (forall a, In a (w_agents w) -> is_sub (a_cls a) t = true -> a_cls a = t) \/
  (forall a, In a (w_agents w) -> a_cls a <> t) ->
  type_members w t = filter (fun a => is_sub (a_cls a) t) (w_agents w).
Proof.
  intros [H|H]; unfold type_members.
  - assert (filter (fun a => a_cls a =? t) (w_agents w) = filter (fun a => is_sub (a_cls a) t) (w_agents w)) as Hf.
    { apply filter_ext_in. intros a Ha. destruct (is_sub (a_cls a) t) eqn:E.
      - apply Z.eqb_eq. apply H; assumption.
      - destruct (a_cls a =? t) eqn:E2; [|reflexivity]. apply Z.eqb_eq in E2. rewrite E2 in E.
        rewrite is_sub_refl in E. discriminate. }
    rewrite Hf. destruct (filter (fun a => is_sub (a_cls a) t) (w_agents w)); reflexivity.
  - assert (filter (fun a => a_cls a =? t) (w_agents w) = []) as Hf.
    { induction (w_agents w) as [|a l IH]; simpl; [reflexivity|].
      destruct (a_cls a =? t) eqn:E.
      - apply Z.eqb_eq in E. exfalso. apply (H a); [left; reflexivity|exact E].
      - apply IH. intros b Hb. apply H. right. exact Hb. }
    rewrite Hf. reflexivity.
Qed.

(* ------------------------------------------------------------------ the registry *)
Definition reg_ok (w : world) : Prop :=
  NoDup (map a_id (w_agents w)) /\ forall a, In a (w_agents w) -> a_id a < w_next_id w.

Lemma NoDup_map_filter {A : Type} (f : A -> Z) (p : A -> bool) (l : list A) :
  NoDup (map f l) -> NoDup (map f (filter p l)).
Proof.
  induction l as [|x t IH]; simpl; intros H; [constructor|].
  inversion H as [|? ? Hx Ht]. subst. destruct (p x); simpl; [|apply IH; exact Ht].
  constructor; [|apply IH; exact Ht].
  intros Hin. apply Hx. apply in_map_iff in Hin. destruct Hin as [y [Hy1 Hy2]].
  apply filter_In in Hy2. apply in_map_iff. exists y. tauto.
Qed.

Lemma world_step_reg_ok w o : reg_ok w -> reg_ok (fst (world_step w o)).
Proof.
  intros [Hnd Hlt]. destruct o; simpl; try (split; assumption).
  - destruct (aget m (w_attrs w)); simpl; split; assumption.
  - destruct (aget n (w_attrs w)) as [[| |loc]|]; simpl; split; assumption.
  - destruct (amem n (w_attrs w)); simpl; split; assumption.
  - destruct (creatable cls); simpl; [|split; assumption]. unfold reg_ok. simpl. split.
    + rewrite map_app. simpl. apply NoDup_snoc; [exact Hnd|].
      intros Hin. apply in_map_iff in Hin. destruct Hin as [a [Ha1 Ha2]]. specialize (Hlt a Ha2). lia.
    + intros a Ha. apply in_app_iff in Ha. destruct Ha as [Ha|[Ha|[]]].
      * specialize (Hlt a Ha). lia.
      * subst. simpl. lia.
  - destruct (has_agent w id); simpl; [|split; assumption]. unfold reg_ok. simpl. split.
    + apply NoDup_map_filter. exact Hnd.
    + intros a Ha. apply filter_In in Ha. apply Hlt. tauto.
  - destruct (has_agent w id); simpl; [|split; assumption]. unfold reg_ok. simpl. split.
    + rewrite map_map.
      rewrite (map_ext _ a_id); [exact Hnd|]. intros a. destruct (a_id a =? id); reflexivity.
    + intros a Ha. apply in_map_iff in Ha. destruct Ha as [b [Hb1 Hb2]].
      specialize (Hlt b Hb2). destruct (a_id b =? id); subst; simpl; exact Hlt.
Qed.

Lemma collect_worlds_reg_ok ops : forall w, reg_ok w -> Forall reg_ok (collect_worlds w ops).
Proof.
  induction ops as [|o t IH]; intros w H; simpl; [constructor|].
  destruct o; try (apply IH; apply (world_step_reg_ok w _ H)).
  - constructor; [exact H|apply IH; exact H].
Qed.

Lemma moments_incl cfg ws w : In w (moments cfg ws) -> In w ws.
Proof.
  unfold moments. destruct ws as [|w0 t]; [tauto|].
  destruct (is_nil (c_mreps cfg) || res_ok (validate_all w0 (c_mreps cfg))); simpl; tauto.
Qed.

Lemma reg_ok_init : reg_ok world_init.
Proof. split; simpl; [constructor|tauto]. Qed.

Lemma rows_ids w reps ags : map (fun r : row => snd (fst r)) (map (row_of w reps) ags) = map a_id ags.
Proof. rewrite map_map. reflexivity. Qed.

(* ------------------------------------------------------------------ immunity and atomicity *)
Lemma exec_world_ops cfg ops : forall s,
  forallb is_world_op ops = true -> s_d (exec cfg s ops) = s_d s.
Proof.
  induction ops as [|o t IH]; intros s H; simpl; [reflexivity|].
  simpl in H. apply andb_true_iff in H. destruct H as [Ho Ht].
  rewrite step_world by exact Ho. rewrite IH by exact Ht. reflexivity.
Qed.

Lemma exec_app cfg ops1 ops2 s : exec cfg s (ops1 ++ ops2) = exec cfg (exec cfg s ops1) ops2.
Proof. revert s. induction ops1 as [|o t IH]; intros s; simpl; [reflexivity|apply IH]. Qed.

Lemma later_mutation_immune cfg ops1 ops2 s :
  forallb is_world_op ops2 = true -> s_d (exec cfg s (ops1 ++ ops2)) = s_d (exec cfg s ops1).
Proof. intros H. rewrite exec_app. apply exec_world_ops. exact H. Qed.

Lemma add_row_atomic d t r ign d' e : add_row d t r ign = (d', Err e) -> d' = d.
Proof.
  unfold add_row. destruct (aget t (d_tables d)) as [cols|].
  - destruct (negb ign && existsb (fun c => negb (amem (fst c) r)) cols).
    + intros H. inversion H. reflexivity.
    + intros H. inversion H.
  - intros H. inversion H. reflexivity.
Qed.

Lemma step_addrow_atomic cfg s t r ign s' e :
  step cfg s (AddRow t r ign) = (s', RErr e) -> s' = s.
Proof.
  unfold step. destruct (add_row (s_d s) t r ign) as [d' res] eqn:E.
  destruct res as [u|k]; simpl; intros H; inversion H; subst.
  apply add_row_atomic in E. subst. destruct s; reflexivity.
Qed.

(* ------------------------------------------------------------------ tables: aligned, row i = i-th accepted row *)
Lemma tables_aligned cfg acc t cols c vals :
  In (t, cols) (tables_of cfg acc) -> In (c, vals) cols ->
  vals = map (fun r => row_cell r c) (rows_for t acc).
Proof.
  unfold tables_of. intros H1 H2. apply in_map_iff in H1. destruct H1 as [[t' cs] [Heq Hin]].
  simpl in Heq. inversion Heq. subst. apply in_map_iff in H2. destruct H2 as [c' [Heq2 _]].
  inversion Heq2. subst. reflexivity.
Qed.

Lemma tables_columns cfg acc : map fst (tables_of cfg acc) = map fst (c_tables cfg) /\
  forall t cols, In (t, cols) (tables_of cfg acc) -> exists cs, In (t, cs) (c_tables cfg) /\ map fst cols = cs.
Proof.
  split.
  - unfold tables_of. rewrite map_map. reflexivity.
  - intros t cols H. unfold tables_of in H. apply in_map_iff in H. destruct H as [[t' cs] [Heq Hin]].
    simpl in Heq. inversion Heq. subst. exists cs. split; [exact Hin|]. rewrite map_map. simpl. apply map_id.
Qed.

(* ================================================================== the DataFrames are lossless *)
(* ---- frames with a default index: the columns are recovered from the rows ---- *)
Fixpoint zip_cons {A : Type} (heads : list A) (tails : list (list A)) : list (list A) :=
  match heads, tails with
  | h :: hs, t :: ts => (h :: t) :: zip_cons hs ts
  | _, _ => []
  end.
(* columns of a frame with k columns, read back from its rows *)
Fixpoint cols_of_rows {A : Type} (k : nat) (rows : list (list A)) : list (list A) :=
  match rows with
  | [] => repeat [] k
  | r :: t => zip_cons r (cols_of_rows k t)
  end.

Definition head1 {A : Type} (c : list A) : list A := match c with x :: _ => [x] | [] => [] end.

Lemma zip_cons_heads_tails {A : Type} (cols : list (list A)) :
  (forall c, In c cols -> c <> []) -> zip_cons (flat_map head1 cols) (map (@tl A) cols) = cols.
Proof.
  induction cols as [|c t IH]; intros H; simpl; [reflexivity|].
  destruct c as [|x c']; [exfalso; apply (H []); [left; reflexivity|reflexivity]|].
  simpl. f_equal. apply IH. intros c Hc. apply H. right. exact Hc.
Qed.

Lemma all_len_spec {A : Type} n (ls : list (list A)) :
  all_len n ls = true <-> forall l, In l ls -> length l = n.
Proof.
  unfold all_len. rewrite forallb_forall. split; intros H l Hl; specialize (H l Hl).
  - apply Nat.eqb_eq. exact H.
  - apply Nat.eqb_eq. exact H.
Qed.

Lemma transpose_lossless {A : Type} n : forall (cols : list (list A)),
  all_len n cols = true -> cols_of_rows (length cols) (transpose n cols) = cols.
Proof.
  induction n as [|n IH]; intros cols H; simpl.
  - rewrite all_len_spec in H. induction cols as [|c t IHc]; simpl; [reflexivity|].
    rewrite IHc by (intros l Hl; apply H; right; exact Hl).
    assert (length c = 0%nat) as Hc by (apply H; left; reflexivity).
    destruct c; [reflexivity|discriminate].
  - assert (all_len n (map (@tl A) cols) = true) as Ht.
    { rewrite all_len_spec in *. intros l Hl. apply in_map_iff in Hl. destruct Hl as [c [Hc1 Hc2]]. subst.
      specialize (H c Hc2). destruct c; simpl in *; [discriminate|]. inversion H. reflexivity. }
    specialize (IH _ Ht). rewrite map_length in IH. rewrite IH.
    change (fun c : list A => match c with | [] => [] | x :: _ => [x] end) with (@head1 A).
    apply zip_cons_heads_tails. intros c Hc E. subst. rewrite all_len_spec in H. specialize (H [] Hc). discriminate.
Qed.

Lemma frame_of_columns_lossless {A : Type} (cols : list (list A)) rows :
  frame_of_columns cols = Ok rows -> cols_of_rows (length cols) rows = cols.
Proof.
  unfold frame_of_columns. destruct cols as [|c t]; [intros H; inversion H; reflexivity|].
  destruct (all_len (length c) (c :: t)) eqn:E; [|discriminate].
  intros H. inversion H. apply transpose_lossless. exact E.
Qed.

(* ---- (Step, AgentID)-indexed frames: the records are recovered by grouping on the Step index ---- *)
Definition step_of (r : row) : Z := fst (fst r).
Fixpoint group_rows (rows : list row) : list (Z * list row) :=
  match rows with
  | [] => []
  | r :: t => match group_rows t with
              | (s, g) :: rest => if s =? step_of r then (s, r :: g) :: rest else (step_of r, [r]) :: (s, g) :: rest
              | [] => [(step_of r, [r])]
              end
  end.

Definition nonempty {A B : Type} (p : A * list B) : bool := negb (is_nil (snd p)).

Lemma group_rows_block s (rows : list row) : forall tail G,
  rows <> [] -> (forall r, In r rows -> step_of r = s) ->
  group_rows tail = G -> (match G with (s', _) :: _ => s' <> s | [] => True end) ->
  group_rows (rows ++ tail) = (s, rows) :: G.
Proof.
  induction rows as [|r t IH]; intros tail G Hne Hs HG Hhead; [congruence|].
  destruct t as [|r' t'].
  - simpl. rewrite HG. rewrite (Hs r (or_introl eq_refl)).
    destruct G as [|[s' g] rest]; [reflexivity|].
    destruct (s' =? s) eqn:E; [apply Z.eqb_eq in E; contradiction|reflexivity].
  - change ((r :: r' :: t') ++ tail) with (r :: ((r' :: t') ++ tail)).
    assert (group_rows ((r' :: t') ++ tail) = (s, r' :: t') :: G) as HX.
    { apply IH; try assumption; try discriminate. intros x Hx. apply Hs. right. exact Hx. }
    remember ((r' :: t') ++ tail) as X eqn:EX. simpl. rewrite HX.
    rewrite (Hs r (or_introl eq_refl)). rewrite Z.eqb_refl. reflexivity.
Qed.

Lemma group_concat (recs : list (Z * list row)) :
  NoDup (map fst recs) ->
  (forall s rows r, In (s, rows) recs -> In r rows -> step_of r = s) ->
  group_rows (concat (map snd recs)) = filter nonempty recs.
Proof.
  induction recs as [|[s rows] rest IH]; intros Hnd Hk; simpl; [reflexivity|].
  inversion Hnd as [|? ? Hs Hnd']. subst.
  assert (group_rows (concat (map snd rest)) = filter nonempty rest) as IH'.
  { apply IH; [exact Hnd'|]. intros s' rows' r H1 H2. apply (Hk s' rows' r); [right; exact H1|exact H2]. }
  destruct rows as [|r0 rows']; unfold nonempty at 1; simpl; [exact IH'|].
  apply (group_rows_block s (r0 :: rows') _ (filter nonempty rest)); [discriminate| |exact IH'|].
  - intros r Hr. apply (Hk s (r0 :: rows') r); [left; reflexivity|exact Hr].
  - destruct (filter nonempty rest) as [|[s' g] rest'] eqn:E; [exact I|].
    intros Heq. subst s'. apply Hs.
    assert (In (s, g) (filter nonempty rest)) as Hin by (rewrite E; left; reflexivity).
    apply filter_In in Hin. destruct Hin as [Hin _]. apply in_map_iff. exists (s, g). split; [reflexivity|exact Hin].
Qed.

(* ---- the records are well formed after EVERY history (also after failing collects) ---- *)
Definition rows_keyed (recs : list (Z * list row)) : Prop :=
  forall s rows r, In (s, rows) recs -> In r rows -> step_of r = s.
Definition rows_width (n : nat) (recs : list (Z * list row)) : Prop :=
  forall s rows r, In (s, rows) recs -> In r rows -> length (snd r) = n.
Definition trecs_keyed (trecs : list (Z * list (Z * list row))) : Prop :=
  forall s inner t rows r, In (s, inner) trecs -> In (t, rows) inner -> In r rows -> step_of r = s.

Record records_wf (cfg : config) (d : dc) : Prop := {
  wf_akeys : NoDup (map fst (d_arecs d));
  wf_akeyed : rows_keyed (d_arecs d);
  wf_awidth : rows_width (length (c_areps cfg)) (d_arecs d);
  wf_tkeys : NoDup (map fst (d_trecs d));
  wf_tkeyed : trecs_keyed (d_trecs d) }.

Lemma In_aset {V : Type} k (v : V) l k' v' :
  In (k', v') (aset k v l) -> (k' = k /\ v' = v) \/ In (k', v') l.
Proof.
  induction l as [|[k2 v2] t IH]; simpl.
  - intros [H|[]]. inversion H. left. split; reflexivity.
  - destruct (k =? k2) eqn:E.
    + apply Z.eqb_eq in E. subst k2. intros [H|H]; [inversion H; left; split; reflexivity|right; right; exact H].
    + intros [H|H]; [right; left; exact H|]. destruct (IH H) as [H'|H']; [left; exact H'|right; right; exact H'].
Qed.

Lemma map_res_In {A B : Type} (f : A -> result B) (l : list A) ys y :
  map_res f l = Ok ys -> In y ys -> exists x, In x l /\ f x = Ok y.
Proof.
  revert ys. induction l as [|x t IH]; intros ys; simpl.
  - intros H. inversion H. simpl. tauto.
  - destruct (f x) as [y0|e] eqn:Ef; [|discriminate].
    destruct (map_res f t) as [ys'|e]; [|discriminate].
    intros H. inversion H. subst. intros [Hy|Hy].
    + subst. exists x. split; [left; reflexivity|exact Ef].
    + destruct (IH ys' eq_refl Hy) as [x' [H1 H2]]. exists x'. split; [right; exact H1|exact H2].
Qed.

Lemma map_res_length {A B : Type} (f : A -> result B) (l : list A) ys :
  map_res f l = Ok ys -> length ys = length l.
Proof.
  revert ys. induction l as [|x t IH]; intros ys; simpl.
  - intros H. inversion H. reflexivity.
  - destruct (f x); [|discriminate]. destruct (map_res f t) as [ys'|]; [|discriminate].
    intros H. inversion H. simpl. rewrite (IH ys' eq_refl). reflexivity.
Qed.

Lemma record_agents_rows w reps ags rows r :
  record_agents w reps ags = Ok rows -> In r rows -> step_of r = w_steps w /\ length (snd r) = length reps.
Proof.
  intros H Hr. unfold record_agents in H. destruct (map_res_In _ _ _ _ H Hr) as [a [_ Ha]].
  unfold agent_row in Ha. destruct (map_res (fun p => eval_arep w a (snd p)) reps) as [vs|] eqn:E; [|discriminate].
  inversion Ha. subst. simpl. split; [reflexivity|]. apply (map_res_length _ _ _ E).
Qed.

Lemma collect_types_keyed w treps : forall inner,
  (forall t rows r, In (t, rows) inner -> In r rows -> step_of r = w_steps w) ->
  forall t rows r, In (t, rows) (fst (collect_types w treps inner)) -> In r rows -> step_of r = w_steps w.
Proof.
  induction treps as [|[t0 reps] rest IH]; intros inner Hin; simpl; [exact Hin|].
  destruct (type_agents w t0) as [ags|e]; [|exact Hin].
  destruct (record_agents w reps ags) as [rows0|e] eqn:E; [|exact Hin].
  apply IH. intros t rows r H1 H2. apply In_aset in H1. destruct H1 as [[_ ->]|H1].
  - apply (record_agents_rows _ _ _ _ _ E H2).
  - apply (Hin t rows r H1 H2).
Qed.

Lemma collect_stage1_records cfg w d :
  d_arecs (fst (collect_stage1 cfg w d)) = d_arecs d /\ d_trecs (fst (collect_stage1 cfg w d)) = d_trecs d.
Proof.
  unfold collect_stage1. destruct (is_nil (c_mreps cfg)); [split; reflexivity|].
  destruct (if d_validated d then Ok tt else validate_all w (c_mreps cfg)); [|split; reflexivity].
  simpl. destruct (collect_mvars w (c_mreps cfg) (d_mvars d)). split; reflexivity.
Qed.

Lemma stage2_wf cfg w d : records_wf cfg d -> records_wf cfg (fst (collect_stage2 cfg w d)).
Proof.
  intros [H1 H2 H3 H4 H5]. unfold collect_stage2. destruct (is_nil (c_areps cfg)); [constructor; assumption|].
  destruct (record_agents w (c_areps cfg) (w_agents w)) as [rows|e] eqn:E; [|constructor; assumption].
  constructor; simpl; try assumption.
  - apply aset_keys_NoDup. exact H1.
  - intros s rows' r Hin Hr. apply In_aset in Hin. destruct Hin as [[-> ->]|Hin].
    + apply (record_agents_rows _ _ _ _ _ E Hr).
    + apply (H2 s rows' r Hin Hr).
  - intros s rows' r Hin Hr. apply In_aset in Hin. destruct Hin as [[-> ->]|Hin].
    + apply (record_agents_rows _ _ _ _ _ E Hr).
    + apply (H3 s rows' r Hin Hr).
Qed.

Lemma stage3_wf cfg w d : records_wf cfg d -> records_wf cfg (fst (collect_stage3 cfg w d)).
Proof.
  intros [H1 H2 H3 H4 H5]. unfold collect_stage3. destruct (is_nil (c_treps cfg)); [constructor; assumption|].
  destruct (collect_types w (c_treps cfg) []) as [inner r0] eqn:E.
  constructor; simpl; try assumption.
  - apply aset_keys_NoDup. exact H4.
  - intros s inner' t rows r Hin Ht Hr. apply In_aset in Hin. destruct Hin as [[-> ->]|Hin].
    + assert (inner = fst (collect_types w (c_treps cfg) [])) as -> by (rewrite E; reflexivity).
      apply (collect_types_keyed w (c_treps cfg) [] (fun _ _ _ F => match F with end) t rows r Ht Hr).
    + apply (H5 s inner' t rows r Hin Ht Hr).
Qed.

Lemma wf_ext cfg d d' : d_arecs d' = d_arecs d -> d_trecs d' = d_trecs d -> records_wf cfg d -> records_wf cfg d'.
Proof. intros E1 E2 [H1 H2 H3 H4 H5]. constructor; rewrite ?E1, ?E2; assumption. Qed.

Lemma collect_wf cfg w d : records_wf cfg d -> records_wf cfg (fst (collect cfg w d)).
Proof.
  intros H. unfold collect.
  pose proof (collect_stage1_records cfg w d) as [E1 E2].
  destruct (collect_stage1 cfg w d) as [d1 r1]. simpl in E1, E2.
  assert (records_wf cfg d1) as H1 by (apply (wf_ext cfg d d1 E1 E2 H)).
  destruct r1 as [u|e]; [|exact H1].
  set (d1' := with_csteps d1 (d_csteps d1 ++ [w_steps w])).
  assert (records_wf cfg d1') as H1' by (apply (wf_ext cfg d1 d1' eq_refl eq_refl H1)).
  pose proof (stage2_wf cfg w d1' H1') as H2.
  destruct (collect_stage2 cfg w d1') as [d2 r2]. simpl in H2.
  destruct r2 as [u2|e2]; [|exact H2].
  apply stage3_wf. exact H2.
Qed.

Lemma add_row_records d t r ign :
  d_arecs (fst (add_row d t r ign)) = d_arecs d /\ d_trecs (fst (add_row d t r ign)) = d_trecs d.
Proof.
  unfold add_row. destruct (aget t (d_tables d)) as [cols|]; [|split; reflexivity].
  destruct (negb ign && existsb (fun c => negb (amem (fst c) r)) cols); split; reflexivity.
Qed.

Lemma step_wf cfg s o : records_wf cfg (s_d s) -> records_wf cfg (s_d (fst (step cfg s o))).
Proof.
  intros H. destruct (is_world_op o) eqn:Ew.
  - rewrite step_world by exact Ew. exact H.
  - destruct o; try discriminate; unfold step.
    + pose proof (collect_wf cfg (s_w s) (s_d s) H) as Hc.
      destruct (collect cfg (s_w s) (s_d s)). exact Hc.
    + pose proof (add_row_records (s_d s) t r ignore_missing) as [E1 E2].
      destruct (add_row (s_d s) t r ignore_missing) as [d' res]. simpl in *.
      apply (wf_ext cfg (s_d s) d' E1 E2 H).
    + exact H.
Qed.

Lemma exec_wf cfg ops : forall s, records_wf cfg (s_d s) -> records_wf cfg (s_d (exec cfg s ops)).
Proof.
  induction ops as [|o t IH]; intros s H; simpl; [exact H|]. apply IH. apply step_wf. exact H.
Qed.

Lemma init_wf cfg : records_wf cfg (dc_init cfg).
Proof.
  constructor; simpl; try (apply NoDup_nil); unfold rows_keyed, rows_width, trecs_keyed; simpl; intros; contradiction.
Qed.

(* ---- the frames of a well-formed collector give the records back ---- *)
Lemma agent_frame_lossless cfg d fr :
  records_wf cfg d -> agent_frame cfg d = Ok fr ->
  af_index fr = [IDX_STEP; IDX_AGENTID] /\ af_cols fr = map fst (c_areps cfg) /\
  group_rows (af_rows fr) = filter nonempty (d_arecs d) /\
  (forall r, In r (af_rows fr) -> length (snd r) = length (af_cols fr)).
Proof.
  intros [H1 H2 H3 H4 H5]. unfold agent_frame. destruct (is_nil (c_areps cfg)); [discriminate|].
  intros H. inversion H. simpl. split; [reflexivity|]. split; [reflexivity|]. split.
  - apply group_concat; assumption.
  - intros r Hr. rewrite map_length. apply in_concat in Hr. destruct Hr as [rows [Hrows Hr]].
    apply in_map_iff in Hrows. destruct Hrows as [[s rows'] [Heq Hin]]. simpl in Heq. subst.
    apply (H3 s rows r Hin Hr).
Qed.

Lemma type_frame_lossless cfg d t :
  records_wf cfg d ->
  af_index (type_frame cfg d t) = [IDX_STEP; IDX_AGENTID] /\
  af_cols (type_frame cfg d t) = map fst (match aget t (c_treps cfg) with Some reps => reps | None => [] end) /\
  group_rows (af_rows (type_frame cfg d t)) = filter nonempty (type_records d t).
Proof.
  intros [H1 H2 H3 H4 H5]. split; [reflexivity|]. split; [reflexivity|]. simpl.
  apply group_concat.
  - unfold type_records. rewrite map_map. simpl. exact H4.
  - intros s rows r Hin Hr. unfold type_records in Hin. apply in_map_iff in Hin.
    destruct Hin as [[s' inner] [Heq Hin]]. simpl in Heq. inversion Heq. subst.
    destruct (aget t inner) as [rows'|] eqn:E; [|contradiction].
    apply (H5 s inner t rows' r Hin (aget_In t rows' inner E) Hr).
Qed.

Lemma model_frame_lossless cfg d fr :
  model_frame cfg d = Ok fr ->
  combine (cf_cols fr) (cols_of_rows (length (cf_cols fr)) (cf_rows fr)) = d_mvars d.
Proof.
  unfold model_frame. destruct (is_nil (c_mreps cfg)); [discriminate|].
  destruct (frame_of_columns (map snd (d_mvars d))) as [rows|e] eqn:E; [|discriminate].
  intros H. inversion H. simpl. apply frame_of_columns_lossless in E. rewrite map_length in *.
  rewrite E. clear. induction (d_mvars d) as [|[n l] t IH]; simpl; [reflexivity|]. rewrite IH. reflexivity.
Qed.

Lemma table_frame_lossless cols fr :
  table_frame cols = Ok fr -> combine (cf_cols fr) (cols_of_rows (length (cf_cols fr)) (cf_rows fr)) = cols.
Proof.
  unfold table_frame. destruct (frame_of_columns (map snd cols)) as [rows|e] eqn:E; [|discriminate].
  intros H. inversion H. simpl. apply frame_of_columns_lossless in E. rewrite map_length in *.
  rewrite E. clear. induction cols as [|[n l] t IH]; simpl; [reflexivity|]. rewrite IH. reflexivity.
Qed.

(* ================================================================== a collect during which a reporter raises *)
(* the model-reporter loop appends as it goes: when it stops, exactly the first j reporters (dictionary order)
   have one more value, the value evaluating them directly yields *)
Definition mvars_prefix (w : world) (rs : list (Z * mrep)) (j : nat) (mv : list (Z * list snap)) : list (Z * list snap) :=
  map (fun p => match aget (fst p) (firstn j rs) with
                | Some r => (fst p, snd p ++ [mval_at w r])
                | None => p
                end) mv.

Lemma mvars_prefix_0 w rs mv : mvars_prefix w rs 0 mv = mv.
Proof. unfold mvars_prefix. simpl. rewrite <- (map_id mv) at 2. apply map_ext. intros p. reflexivity. Qed.

Lemma firstn_In {A : Type} (n : nat) (l : list A) x : In x (firstn n l) -> In x l.
Proof.
  revert l. induction n as [|n IH]; intros l; simpl; [tauto|]. destruct l as [|y t]; simpl; [tauto|].
  intros [H|H]; [left; exact H|right; apply IH; exact H].
Qed.

Lemma collect_mvars_spec w rs : NoDup (map fst rs) -> forall mv,
  exists j, (j <= length rs)%nat /\
    fst (collect_mvars w rs mv) = mvars_prefix w rs j mv /\
    (forall p, In p (firstn j rs) -> res_ok (eval_mrep w (snd p)) = true) /\
    match snd (collect_mvars w rs mv) with
    | Ok _ => j = length rs
    | Err e => exists p, nth_error rs j = Some p /\ eval_mrep w (snd p) = Err e
    end.
Proof.
  induction rs as [|[n r] t IH]; intros Hnd mv.
  - exists 0%nat. simpl. rewrite mvars_prefix_0. repeat split; [lia|tauto].
  - inversion Hnd as [|? ? Hn Hnd']. subst. simpl collect_mvars.
    destruct (eval_mrep w r) as [v|e] eqn:Ev.
    + destruct (IH Hnd' (aappend n v mv)) as [j [Hj [Hf [Hok Hs]]]].
      exists (S j). split; [simpl; lia|]. split; [|split].
      * rewrite Hf. unfold mvars_prefix, aappend. rewrite map_map. apply map_ext. intros [k l]. simpl.
        destruct (k =? n) eqn:E.
        -- apply Z.eqb_eq in E. subst k. simpl.
           assert (aget n (firstn j t) = None) as ->.
           { apply notin_aget_None. intros Hin. apply Hn. apply in_map_iff in Hin. destruct Hin as [q [Hq1 Hq2]].
             apply in_map_iff. exists q. split; [exact Hq1|]. apply (firstn_In j t). exact Hq2. }
           unfold mval_at. rewrite Ev. reflexivity.
        -- simpl. reflexivity.
      * intros p [Hp|Hp]; [subst; simpl; rewrite Ev; reflexivity|apply Hok; exact Hp].
      * destruct (snd (collect_mvars w t (aappend n v mv))); [simpl; lia|exact Hs].
    + exists 0%nat. simpl. rewrite mvars_prefix_0. split; [lia|]. split; [reflexivity|]. split; [tauto|].
      exists (n, r). split; [reflexivity|exact Ev].
Qed.

(* EXACTLY the state a raising collect leaves behind.  Four ways for collect to raise: *)
Inductive raised (cfg : config) (w : world) (d : dc) (e : Z) (d' : dc) : Prop :=
| RValidation :          (* (a) first collect, a model reporter fails validation: nothing is appended *)
    is_nil (c_mreps cfg) = false -> d_validated d = false -> validate_all w (c_mreps cfg) = Err e ->
    d' = with_validated d -> raised cfg w d e d'
| RModelReporter j p :   (* (b) model reporter number j raises: reporters 0..j-1 HAVE their value appended, j.. have not;
                                _collection_steps, agent and agent-type records untouched *)
    nth_error (c_mreps cfg) j = Some p -> eval_mrep w (snd p) = Err e ->
    (forall q, In q (firstn j (c_mreps cfg)) -> res_ok (eval_mrep w (snd q)) = true) ->
    d' = with_mvars (with_validated d) (mvars_prefix w (c_mreps cfg) j (d_mvars d)) -> raised cfg w d e d'
| RAgentReporter d1 :    (* (c) an agent reporter raises: model vars and _collection_steps are complete, no agent records *)
    collect_stage1 cfg w d = (d1, Ok tt) -> is_nil (c_areps cfg) = false ->
    record_agents w (c_areps cfg) (w_agents w) = Err e ->
    d' = with_csteps d1 (d_csteps d1 ++ [w_steps w]) -> raised cfg w d e d'
| RTypeReporter d1 d2 :  (* (d) an agent-type key / reporter raises: agent records done, _agenttype_records[steps] holds
                                the classes processed before the failing one *)
    collect_stage1 cfg w d = (d1, Ok tt) ->
    collect_stage2 cfg w (with_csteps d1 (d_csteps d1 ++ [w_steps w])) = (d2, Ok tt) ->
    is_nil (c_treps cfg) = false -> snd (collect_types w (c_treps cfg) []) = Err e ->
    d' = with_trecs d2 (aset (w_steps w) (fst (collect_types w (c_treps cfg) [])) (d_trecs d2)) -> raised cfg w d e d'.

Lemma collect_raises_state cfg w d d' e :
  NoDup (map fst (c_mreps cfg)) -> collect cfg w d = (d', Err e) -> raised cfg w d e d'.
Proof.
  intros Hnd H. unfold collect in H.
  destruct (collect_stage1 cfg w d) as [d1 r1] eqn:E1. destruct r1 as [u1|e1].
  - destruct u1.
    destruct (collect_stage2 cfg w (with_csteps d1 (d_csteps d1 ++ [w_steps w]))) as [d2 r2] eqn:E2.
    destruct r2 as [u2|e2].
    + destruct u2. unfold collect_stage3 in H. destruct (is_nil (c_treps cfg)) eqn:Et; [discriminate|].
      destruct (collect_types w (c_treps cfg) []) as [inner r3] eqn:E3. inversion H. subst.
      apply (RTypeReporter cfg w d e _ d1 d2 E1 E2 Et); rewrite E3; reflexivity.
    + inversion H. subst. unfold collect_stage2 in E2. destruct (is_nil (c_areps cfg)) eqn:Ea; [discriminate|].
      destruct (record_agents w (c_areps cfg) (w_agents w)) as [rows|e0] eqn:Er; [discriminate|].
      inversion E2. subst. apply (RAgentReporter cfg w d e _ d1 E1 Ea Er eq_refl).
  - inversion H. subst. unfold collect_stage1 in E1. destruct (is_nil (c_mreps cfg)) eqn:En; [discriminate|].
    destruct (d_validated d) eqn:Ev.
    + destruct (collect_mvars w (c_mreps cfg) (d_mvars (with_validated d))) as [mv r] eqn:Ec.
      inversion E1. subst.
      destruct (collect_mvars_spec w (c_mreps cfg) Hnd (d_mvars (with_validated d))) as [j [_ [Hf [Hok Hs]]]].
      rewrite Ec in Hf, Hs. simpl in Hf, Hs. destruct Hs as [p [Hp He]].
      apply (RModelReporter cfg w d e _ j p Hp He Hok). rewrite Hf. reflexivity.
    + destruct (validate_all w (c_mreps cfg)) as [u|e0] eqn:Eva.
      * destruct (collect_mvars w (c_mreps cfg) (d_mvars (with_validated d))) as [mv r] eqn:Ec.
        inversion E1. subst.
        destruct (collect_mvars_spec w (c_mreps cfg) Hnd (d_mvars (with_validated d))) as [j [_ [Hf [Hok Hs]]]].
        rewrite Ec in Hf, Hs. simpl in Hf, Hs. destruct Hs as [p [Hp He]].
        apply (RModelReporter cfg w d e _ j p Hp He Hok). rewrite Hf. reflexivity.
      * inversion E1. subst. apply (RValidation cfg w d e _ En Ev Eva eq_refl).
Qed.

(* what a raising collect NEVER touches: the tables, and the agent / agent-type records of other steps *)
Lemma collect_tables cfg w d : d_tables (fst (collect cfg w d)) = d_tables d.
Proof.
  unfold collect, collect_stage1, collect_stage2, collect_stage3.
  destruct (is_nil (c_mreps cfg)).
  - simpl. destruct (is_nil (c_areps cfg)); simpl.
    + destruct (is_nil (c_treps cfg)); [reflexivity|]. destruct (collect_types w (c_treps cfg) []); reflexivity.
    + destruct (record_agents w (c_areps cfg) (w_agents w)); simpl; [|reflexivity].
      destruct (is_nil (c_treps cfg)); [reflexivity|]. destruct (collect_types w (c_treps cfg) []); reflexivity.
  - destruct (if d_validated d then Ok tt else validate_all w (c_mreps cfg)); [|reflexivity].
    destruct (collect_mvars w (c_mreps cfg) (d_mvars (with_validated d))) as [mv r]. destruct r; [|reflexivity].
    simpl. destruct (is_nil (c_areps cfg)); simpl.
    + destruct (is_nil (c_treps cfg)); [reflexivity|]. destruct (collect_types w (c_treps cfg) []); reflexivity.
    + destruct (record_agents w (c_areps cfg) (w_agents w)); simpl; [|reflexivity].
      destruct (is_nil (c_treps cfg)); [reflexivity|]. destruct (collect_types w (c_treps cfg) []); reflexivity.
Qed.

Lemma raised_other_steps cfg w d e d' s :
  raised cfg w d e d' -> s <> w_steps w ->
  aget s (d_arecs d') = aget s (d_arecs d) /\ aget s (d_trecs d') = aget s (d_trecs d).
Proof.
  intros H Hs. pose proof (collect_stage1_records cfg w d) as [A1 T1].
  destruct H as [_ _ _ ->|j p _ _ _ ->|d1 E1 _ _ ->|d1 d2 E1 E2 _ _ ->]; simpl; try (split; reflexivity).
  - rewrite E1 in A1, T1. simpl in *. rewrite A1, T1. split; reflexivity.
  - rewrite E1 in A1, T1. simpl in A1, T1.
    unfold collect_stage2 in E2. destruct (is_nil (c_areps cfg)).
    + inversion E2. subst. simpl. rewrite A1, T1. split; [reflexivity|]. apply aget_aset_other. congruence.
    + destruct (record_agents w (c_areps cfg) (w_agents w)); [|discriminate]. inversion E2. subst. simpl.
      rewrite A1, T1. split; apply aget_aset_other; congruence.
Qed.

(* the finding: after case (b) with j >= 1 on a collector whose lists were aligned, the first reporter's list is one
   longer than reporter j's list *)
Lemma raised_ragged cfg w d j p n0 r0 :
  NoDup (map fst (c_mreps cfg)) ->
  nth_error (c_mreps cfg) 0 = Some (n0, r0) -> nth_error (c_mreps cfg) j = Some p -> (0 < j)%nat ->
  forall l0 lj, aget n0 (d_mvars d) = Some l0 -> aget (fst p) (d_mvars d) = Some lj ->
  aget n0 (mvars_prefix w (c_mreps cfg) j (d_mvars d)) = Some (l0 ++ [mval_at w r0]) /\
  aget (fst p) (mvars_prefix w (c_mreps cfg) j (d_mvars d)) = Some lj.
Proof.
  intros Hnd H0 Hj Hpos l0 lj Hl0 Hlj. unfold mvars_prefix.
  assert (forall k (F : Z * list snap -> Z * list snap) (mv : list (Z * list snap)),
             (forall q, fst (F q) = fst q) ->
             aget k (map F mv) = match aget k mv with Some l => Some (snd (F (k, l))) | None => None end) as Hmap.
  { intros k F mv HF. induction mv as [|[k' l'] t IH]; simpl; [reflexivity|].
    specialize (HF (k', l')) as HF'. destruct (F (k', l')) as [k2 l2] eqn:EF. simpl in HF'. subst k2.
    destruct (k =? k') eqn:E; [|exact IH]. apply Z.eqb_eq in E. subst. rewrite EF. reflexivity. }
  rewrite !Hmap by (intros [k l]; simpl; destruct (aget k (firstn j (c_mreps cfg))); reflexivity).
  rewrite Hl0, Hlj. simpl.
  destruct (c_mreps cfg) as [|[n0' r0'] t] eqn:Em; [discriminate|]. simpl in H0. inversion H0. subst n0' r0'.
  destruct j as [|j']; [lia|]. simpl firstn. simpl. rewrite Z.eqb_refl. split; [reflexivity|].
  simpl in Hj. assert (fst p <> n0) as Hne.
  { intros Heq. simpl in Hnd. inversion Hnd as [|? ? Hn _]. apply Hn. rewrite <- Heq.
    apply in_map. apply (nth_error_In t j' Hj). }
  destruct (fst p =? n0) eqn:E; [apply Z.eqb_eq in E; contradiction|].
  assert (aget (fst p) (firstn j' t) = None) as ->; [|reflexivity].
  apply notin_aget_None. intros Hin. simpl in Hnd. inversion Hnd as [|? ? _ Hnd'].
  (* p sits at position j' of t, the first j' elements have other names *)
  clear -Hin Hj Hnd'. revert j' Hj Hin. induction t as [|q t IH]; intros j' Hj Hin; [destruct j'; discriminate|].
  destruct j' as [|j'']; [simpl in Hin; contradiction|]. simpl in Hj, Hin. inversion Hnd' as [|? ? Hq Hnd'']. subst.
  destruct Hin as [Hin|Hin].
  - apply Hq. rewrite Hin. apply in_map. apply (nth_error_In t j'' Hj).
  - apply (IH Hnd'' j'' Hj Hin).
Qed.

(* ================================================================== the table frame, row by row *)
Lemma flat_map_head1 {A R : Type} (f : Z -> R -> A) (cs : list Z) r t :
  flat_map (fun c : list A => match c with x :: _ => [x] | [] => [] end) (map (fun c => f c r :: map (f c) t) cs)
  = map (fun c => f c r) cs.
Proof. induction cs as [|c cs IH]; simpl; [reflexivity|]. rewrite IH. reflexivity. Qed.

Lemma transpose_columns {A R : Type} (f : Z -> R -> A) (cs : list Z) (rows : list R) :
  transpose (length rows) (map (fun c => map (f c) rows) cs) = map (fun r => map (fun c => f c r) cs) rows.
Proof.
  induction rows as [|r t IH]; simpl; [reflexivity|].
  rewrite flat_map_head1. f_equal. rewrite map_map. simpl. exact IH.
Qed.

Lemma frame_of_columns_rect {A R : Type} (f : Z -> R -> A) (cs : list Z) (rows : list R) :
  cs <> [] ->
  frame_of_columns (map (fun c => map (f c) rows) cs) = Ok (map (fun r => map (fun c => f c r) cs) rows).
Proof.
  intros Hne. destruct cs as [|c0 cs']; [congruence|].
  pose proof (transpose_columns f (c0 :: cs') rows) as Ht.
  assert (all_len (length rows) (map (fun c => map (f c) rows) (c0 :: cs')) = true) as Hl.
  { apply all_len_spec. intros l Hl. apply in_map_iff in Hl. destruct Hl as [c [<- _]]. apply map_length. }
  unfold frame_of_columns. cbn [map] in *. rewrite map_length. rewrite Hl, Ht. reflexivity.
Qed.

(* the frame of table t after any history: its columns are the table's columns in declaration order, row i holds
   the cells of the i-th accepted row (None where ignore_missing filled a missing column) *)
Lemma table_frame_rows (cs : list Z) (rows : list (list (Z * cellv))) :
  cs <> [] ->
  table_frame (map (fun c => (c, map (fun r => row_cell r c) rows)) cs)
  = Ok {| cf_cols := cs; cf_rows := map (fun r => map (fun c => row_cell r c) cs) rows |}.
Proof.
  intros Hne. unfold table_frame. rewrite !map_map. cbn [fst snd].
  rewrite (frame_of_columns_rect (fun c r => row_cell r c) cs rows Hne). rewrite map_id. reflexivity.
Qed.

(* ================================================================== refinement for ALL histories, raising reporters included *)
(* how a collect ends, decided from the world and the validated flag alone *)
Inductive ckind := KInvalid | KModel (j : nat) | KAgent | KType | KOk.

Fixpoint first_raise (w : world) (rs : list (Z * mrep)) : option nat :=
  match rs with
  | [] => None
  | (_, r) :: t => match eval_mrep w r with
                   | Err _ => Some 0%nat
                   | Ok _ => match first_raise w t with Some j => Some (S j) | None => None end
                   end
  end.

Definition moment_kind (cfg : config) (validated : bool) (w : world) : ckind :=
  if negb (is_nil (c_mreps cfg)) && negb validated && negb (res_ok (validate_all w (c_mreps cfg))) then KInvalid
  else match first_raise w (c_mreps cfg) with
       | Some j => KModel j
       | None =>
           if negb (is_nil (c_areps cfg)) && negb (res_ok (record_agents w (c_areps cfg) (w_agents w))) then KAgent
           else if negb (is_nil (c_treps cfg)) && negb (res_ok (snd (collect_types w (c_treps cfg) []))) then KType
           else KOk
       end.

(* the moments of a history, the failed ones included, each with the way it ended *)
Fixpoint events (cfg : config) (w : world) (validated : bool) (ops : list op) : list (world * ckind) :=
  match ops with
  | [] => []
  | o :: t => match o with
              | Collect => (w, moment_kind cfg validated w)
                           :: events cfg w (validated || negb (is_nil (c_mreps cfg))) t
              | _ => events cfg (fst (world_step w o)) validated t
              end
  end.

Definition k_reached (cfg : config) (n : Z) (k : ckind) : bool :=   (* did reporter n get its value at such a moment *)
  match k with KInvalid => false | KModel j => amem n (firstn j (c_mreps cfg)) | _ => true end.
Definition k_counts (k : ckind) : bool := match k with KAgent | KType | KOk => true | _ => false end.
Definition k_records (k : ckind) : bool := match k with KType | KOk => true | _ => false end.

Definition rows_at (cfg : config) (w : world) : list row :=
  match record_agents w (c_areps cfg) (w_agents w) with Ok rows => rows | Err _ => [] end.
Definition inner_at (cfg : config) (w : world) : list (Z * list row) := fst (collect_types w (c_treps cfg) []).

Definition mvars_g (cfg : config) (evs : list (world * ckind)) : list (Z * list snap) :=
  map (fun p => (fst p, map (fun ev => mval_at (fst ev) (snd p))
                            (filter (fun ev => k_reached cfg (fst p) (snd ev)) evs))) (c_mreps cfg).
Definition csteps_g (evs : list (world * ckind)) : list Z :=
  map (fun ev => w_steps (fst ev)) (filter (fun ev => k_counts (snd ev)) evs).
Definition arecs_g (cfg : config) (evs : list (world * ckind)) : list (Z * list row) :=
  if is_nil (c_areps cfg) then []
  else fold_left (fun acc ev => aset (w_steps (fst ev)) (rows_at cfg (fst ev)) acc)
                 (filter (fun ev => k_records (snd ev)) evs) [].
Definition trecs_g (cfg : config) (evs : list (world * ckind)) : list (Z * list (Z * list row)) :=
  if is_nil (c_treps cfg) then []
  else fold_left (fun acc ev => aset (w_steps (fst ev)) (inner_at cfg (fst ev)) acc)
                 (filter (fun ev => k_records (snd ev)) evs) [].

Record refines_g (cfg : config) (evs : list (world * ckind)) (acc : list (Z * list (Z * cellv))) (d : dc) : Prop := {
  g_mvars : d_mvars d = mvars_g cfg evs;
  g_arecs : d_arecs d = arecs_g cfg evs;
  g_trecs : d_trecs d = trecs_g cfg evs;
  g_tables : d_tables d = tables_of cfg acc;
  g_csteps : d_csteps d = csteps_g evs }.

Lemma collect_mvars_first_raise w rs : NoDup (map fst rs) -> forall mv,
  match first_raise w rs with
  | Some j => exists e, collect_mvars w rs mv = (mvars_prefix w rs j mv, Err e)
  | None => collect_mvars w rs mv = (mvars_prefix w rs (length rs) mv, Ok tt)
  end.
Proof.
  intros Hnd mv. destruct (collect_mvars_spec w rs Hnd mv) as [j [Hj [Hf [Hok Hs]]]].
  assert (forall l k, (forall p, In p (firstn k l) -> res_ok (eval_mrep w (snd p)) = true) ->
          (k <= length l)%nat ->
          match first_raise w l with Some j' => (k <= j')%nat | None => True end) as Hge.
  { induction l as [|[n r] t IH]; intros k Hall Hk; simpl; [exact I|].
    destruct k as [|k']; [destruct (eval_mrep w r); [destruct (first_raise w t)|]; lia|].
    simpl in Hall. pose proof (Hall (n, r) (or_introl eq_refl)) as Hr. simpl in Hr.
    destruct (eval_mrep w r); [|discriminate].
    assert (match first_raise w t with Some j' => (k' <= j')%nat | None => True end) as H'.
    { apply IH; [intros p Hp; apply Hall; right; exact Hp|simpl in Hk; lia]. }
    destruct (first_raise w t); [lia|exact I]. }
  assert (forall l k p e, nth_error l k = Some p -> eval_mrep w (snd p) = Err e ->
          match first_raise w l with Some j' => (j' <= k)%nat | None => False end) as Hle.
  { induction l as [|[n r] t IH]; intros k p e Hn He; [destruct k; discriminate|]. simpl.
    destruct k as [|k']; simpl in Hn.
    - inversion Hn. subst. simpl in He. rewrite He. lia.
    - destruct (eval_mrep w r); [|lia]. specialize (IH k' p e Hn He). destruct (first_raise w t); [lia|exact IH]. }
  specialize (Hge rs j Hok Hj).
  destruct (collect_mvars w rs mv) as [mv' res] eqn:Ec. simpl in Hf, Hs. subst mv'.
  destruct res as [[]|e].
  - subst j. destruct (first_raise w rs) as [j'|] eqn:Ef; [|reflexivity].
    exfalso. clear -Ef Hge. revert j' Ef Hge. induction rs as [|[n r] t IH]; intros j' Ef Hge; [discriminate|].
    simpl in Ef. destruct (eval_mrep w r); [|inversion Ef; subst; simpl in Hge; lia].
    destruct (first_raise w t) as [j2|] eqn:E2; [|discriminate]. inversion Ef. subst. simpl in Hge.
    apply (IH j2 eq_refl). lia.
  - destruct Hs as [p [Hp He]]. specialize (Hle rs j p e Hp He).
    destruct (first_raise w rs) as [j'|]; [|contradiction]. assert (j' = j) as -> by lia. exists e. reflexivity.
Qed.

Lemma mvars_g_snoc cfg evs w k j :
  NoDup (map fst (c_mreps cfg)) ->
  (forall n r, In (n, r) (c_mreps cfg) -> k_reached cfg n k = amem n (firstn j (c_mreps cfg))) ->
  mvars_prefix w (c_mreps cfg) j (mvars_g cfg evs) = mvars_g cfg (evs ++ [(w, k)]).
Proof.
  intros Hnd Hk. unfold mvars_prefix, mvars_g. rewrite map_map. apply map_ext_in. intros [n r] Hin. simpl.
  rewrite filter_app. simpl. rewrite (Hk n r Hin). unfold amem.
  destruct (aget n (firstn j (c_mreps cfg))) as [r'|] eqn:E.
  - assert (r' = r) as ->.
    { apply aget_In in E. apply firstn_In in E. pose proof (In_aget_NoDup n r' _ Hnd E) as H1.
      rewrite (In_aget_NoDup n r _ Hnd Hin) in H1. inversion H1. reflexivity. }
    rewrite map_app. reflexivity.
  - rewrite app_nil_r. reflexivity.
Qed.

Lemma mvars_g_skip cfg evs w k : (forall n, k_reached cfg n k = false) -> mvars_g cfg (evs ++ [(w, k)]) = mvars_g cfg evs.
Proof.
  intros Hk. unfold mvars_g. apply map_ext. intros [n r]. simpl. rewrite filter_app. simpl. rewrite Hk, app_nil_r. reflexivity.
Qed.

Lemma csteps_g_snoc evs w k : csteps_g (evs ++ [(w, k)]) = csteps_g evs ++ (if k_counts k then [w_steps w] else []).
Proof. unfold csteps_g. rewrite filter_app, map_app. simpl. destruct (k_counts k); reflexivity. Qed.
Lemma arecs_g_snoc cfg evs w k :
  arecs_g cfg (evs ++ [(w, k)]) =
  if k_records k && negb (is_nil (c_areps cfg)) then aset (w_steps w) (rows_at cfg w) (arecs_g cfg evs) else arecs_g cfg evs.
Proof.
  unfold arecs_g. rewrite filter_app. simpl. destruct (is_nil (c_areps cfg)); [rewrite andb_false_r; reflexivity|].
  destruct (k_records k); simpl; [rewrite fold_left_app; reflexivity|rewrite app_nil_r; reflexivity].
Qed.
Lemma trecs_g_snoc cfg evs w k :
  trecs_g cfg (evs ++ [(w, k)]) =
  if k_records k && negb (is_nil (c_treps cfg)) then aset (w_steps w) (inner_at cfg w) (trecs_g cfg evs) else trecs_g cfg evs.
Proof.
  unfold trecs_g. rewrite filter_app. simpl. destruct (is_nil (c_treps cfg)); [rewrite andb_false_r; reflexivity|].
  destruct (k_records k); simpl; [rewrite fold_left_app; reflexivity|rewrite app_nil_r; reflexivity].
Qed.

(* stages 2 and 3 on a collector whose model vars are done *)
Lemma stage23_general cfg w d1 evs acc mv :
  d_mvars d1 = mv -> d_arecs d1 = arecs_g cfg evs -> d_trecs d1 = trecs_g cfg evs ->
  d_tables d1 = tables_of cfg acc -> d_csteps d1 = csteps_g evs ->
  let k := if negb (is_nil (c_areps cfg)) && negb (res_ok (record_agents w (c_areps cfg) (w_agents w))) then KAgent
           else if negb (is_nil (c_treps cfg)) && negb (res_ok (snd (collect_types w (c_treps cfg) []))) then KType
           else KOk in
  let d' := fst (match collect_stage2 cfg w (with_csteps d1 (d_csteps d1 ++ [w_steps w])) with
                 | (d2, Err e) => (d2, Err e)
                 | (d2, Ok _) => collect_stage3 cfg w d2
                 end) in
  d_mvars d' = mv /\ d_arecs d' = arecs_g cfg (evs ++ [(w, k)]) /\ d_trecs d' = trecs_g cfg (evs ++ [(w, k)]) /\
  d_tables d' = tables_of cfg acc /\ d_csteps d' = csteps_g (evs ++ [(w, k)]) /\ d_validated d' = d_validated d1.
Proof.
  intros Hm Ha Ht Htb Hc. cbv zeta. rewrite arecs_g_snoc, trecs_g_snoc, csteps_g_snoc.
  unfold collect_stage2, collect_stage3, rows_at, inner_at.
  destruct (is_nil (c_areps cfg)) eqn:Ea; simpl.
  - destruct (is_nil (c_treps cfg)) eqn:Et; simpl.
    + rewrite Hc. repeat split; assumption.
    + destruct (collect_types w (c_treps cfg) []) as [inner r] eqn:Ect. simpl.
      destruct r as [[]|e]; simpl; rewrite Hc, Ht; repeat split; assumption.
  - destruct (record_agents w (c_areps cfg) (w_agents w)) as [rows|e] eqn:Er; simpl.
    + destruct (is_nil (c_treps cfg)) eqn:Et; simpl.
      * rewrite Hc, Ha. repeat split; assumption.
      * destruct (collect_types w (c_treps cfg) []) as [inner r] eqn:Ect. simpl.
        destruct r as [[]|e]; simpl; rewrite Hc, Ha, Ht; repeat split; assumption.
    + rewrite Hc. repeat split; assumption.
Qed.

Definition kind23 (cfg : config) (w : world) : ckind :=
  if negb (is_nil (c_areps cfg)) && negb (res_ok (record_agents w (c_areps cfg) (w_agents w))) then KAgent
  else if negb (is_nil (c_treps cfg)) && negb (res_ok (snd (collect_types w (c_treps cfg) []))) then KType
  else KOk.

Lemma kind23_reached cfg w n : k_reached cfg n (kind23 cfg w) = true.
Proof.
  unfold kind23. destruct (negb (is_nil (c_areps cfg)) && _); [reflexivity|].
  destruct (negb (is_nil (c_treps cfg)) && _); reflexivity.
Qed.

(* everything after a passed (or already done) validation *)
Lemma collect_after_validation cfg w d evs acc :
  NoDup (map fst (c_mreps cfg)) -> refines_g cfg evs acc d -> is_nil (c_mreps cfg) = false ->
  (if d_validated d then Ok tt else validate_all w (c_mreps cfg)) = Ok tt ->
  let k := match first_raise w (c_mreps cfg) with Some j => KModel j | None => kind23 cfg w end in
  refines_g cfg (evs ++ [(w, k)]) acc (fst (collect cfg w d)) /\ d_validated (fst (collect cfg w d)) = true.
Proof.
  intros Hnd [H1 H2 H3 H4 H5] En Hv. cbv zeta. unfold collect, collect_stage1. rewrite En, Hv.
  pose proof (collect_mvars_first_raise w (c_mreps cfg) Hnd (d_mvars (with_validated d))) as Hc.
  destruct (first_raise w (c_mreps cfg)) as [j|] eqn:Ef.
  - destruct Hc as [e Hc]. rewrite Hc. simpl. split; [|reflexivity].
    constructor; simpl; rewrite ?arecs_g_snoc, ?trecs_g_snoc, ?csteps_g_snoc; simpl; rewrite ?app_nil_r; try assumption.
    rewrite H1. apply mvars_g_snoc; [exact Hnd|reflexivity].
  - rewrite Hc. cbv beta iota zeta.
    pose proof (stage23_general cfg w (with_mvars (with_validated d) (mvars_prefix w (c_mreps cfg) (length (c_mreps cfg)) (d_mvars (with_validated d))))
                  evs acc _ eq_refl H2 H3 H4 H5) as S. cbv zeta in S. fold (kind23 cfg w) in S.
    destruct S as [S1 [S2 [S3 [S4 [S5 S6]]]]]. split; [|rewrite S6; reflexivity].
    constructor; try assumption. rewrite S1. simpl d_mvars. rewrite H1.
    apply mvars_g_snoc; [exact Hnd|]. intros n r Hin. rewrite kind23_reached, firstn_all. unfold amem.
    rewrite (In_aget_NoDup n r _ Hnd Hin). reflexivity.
Qed.

Lemma collect_general cfg w d evs acc :
  NoDup (map fst (c_mreps cfg)) -> refines_g cfg evs acc d ->
  refines_g cfg (evs ++ [(w, moment_kind cfg (d_validated d) w)]) acc (fst (collect cfg w d)) /\
  d_validated (fst (collect cfg w d)) = d_validated d || negb (is_nil (c_mreps cfg)).
Proof.
  intros Hnd Hr. unfold moment_kind. fold (kind23 cfg w).
  destruct (is_nil (c_mreps cfg)) eqn:En.
  - (* no model reporters *)
    destruct Hr as [H1 H2 H3 H4 H5].
    assert (c_mreps cfg = []) as Em by (apply is_nil_true; exact En). simpl. rewrite Em. simpl first_raise.
    unfold collect, collect_stage1. rewrite En. cbv beta iota zeta.
    pose proof (stage23_general cfg w d evs acc (d_mvars d) eq_refl H2 H3 H4 H5) as S. cbv zeta in S. fold (kind23 cfg w) in S.
    destruct S as [S1 [S2 [S3 [S4 [S5 S6]]]]]. split; [|rewrite S6, orb_false_r; reflexivity].
    constructor; try assumption. rewrite S1, H1. unfold mvars_g. rewrite Em. reflexivity.
  - simpl negb. rewrite andb_true_l, orb_true_r.
    destruct (d_validated d) eqn:Ev; simpl negb; rewrite ?andb_false_l, ?andb_true_l.
    + apply (collect_after_validation cfg w d evs acc Hnd Hr En). rewrite Ev. reflexivity.
    + destruct (validate_all w (c_mreps cfg)) as [[]|e] eqn:Eva; simpl.
      * apply (collect_after_validation cfg w d evs acc Hnd Hr En). rewrite Ev. exact Eva.
      * (* rejected by the validation: only the flag is set *)
        destruct Hr as [H1 H2 H3 H4 H5].
        rewrite (collect_invalid cfg w d e En Ev Eva). simpl. split; [|reflexivity].
        constructor; simpl; rewrite ?arecs_g_snoc, ?trecs_g_snoc, ?csteps_g_snoc; simpl; rewrite ?app_nil_r; try assumption.
        rewrite H1. symmetry. apply mvars_g_skip. reflexivity.
Qed.

Lemma refines_g_init cfg : refines_g cfg [] [] (dc_init cfg).
Proof.
  constructor; simpl; try reflexivity.
  - unfold arecs_g. destruct (is_nil (c_areps cfg)); reflexivity.
  - unfold trecs_g. destruct (is_nil (c_treps cfg)); reflexivity.
Qed.

Lemma add_row_refines_g cfg d evs acc t r ign :
  NoDup (map fst (c_tables cfg)) -> refines_g cfg evs acc d ->
  refines_g cfg evs (acc ++ (if row_ok cfg t r ign then [(t, r)] else [])) (fst (add_row d t r ign)) /\
  d_validated (fst (add_row d t r ign)) = d_validated d.
Proof.
  intros Hnd [H1 H2 H3 H4 H5].
  (* re-use the lemma about refines: only the tables field matters *)
  assert (refines cfg [] acc {| d_validated := d_validated d; d_mvars := mvars_of cfg []; d_arecs := arecs_of cfg [];
                                d_trecs := trecs_of cfg []; d_tables := d_tables d; d_csteps := [] |}) as Hr0.
  { constructor; simpl; try reflexivity. exact H4. }
  destruct (add_row_refines cfg _ [] acc t r ign Hnd Hr0) as [d0 [res0 [E0 [[_ _ _ T0 _] _]]]].
  pose proof (add_row_records d t r ign) as [A1 A2].
  unfold add_row in *. simpl in E0.
  destruct (aget t (d_tables d)) as [cols|].
  - destruct (negb ign && existsb (fun c => negb (amem (fst c) r)) cols).
    + inversion E0. subst. simpl in *. split; [constructor; assumption|reflexivity].
    + inversion E0. subst. simpl in *. split; [constructor; assumption|reflexivity].
  - inversion E0. subst. simpl in *. split; [constructor; assumption|reflexivity].
Qed.

Lemma events_world cfg w v o t : is_world_op o = true ->
  events cfg w v (o :: t) = events cfg (fst (world_step w o)) v t.
Proof. intros H. destruct o; try discriminate; reflexivity. Qed.

Lemma exec_refines_g cfg :
  NoDup (map fst (c_mreps cfg)) -> NoDup (map fst (c_tables cfg)) ->
  forall ops s evs acc,
  refines_g cfg evs acc (s_d s) ->
  refines_g cfg (evs ++ events cfg (s_w s) (d_validated (s_d s)) ops) (acc ++ accepted cfg ops) (s_d (exec cfg s ops)).
Proof.
  intros Hndm Hndt. induction ops as [|o t IH]; intros s evs acc Href.
  - simpl. rewrite !app_nil_r. exact Href.
  - destruct (is_world_op o) eqn:Ew.
    + rewrite events_world by exact Ew. rewrite accepted_world by exact Ew.
      simpl exec. rewrite step_world by exact Ew.
      apply (IH {| s_w := fst (world_step (s_w s) o); s_d := s_d s |} evs acc). exact Href.
    + destruct o; try discriminate.
      * (* Collect *)
        simpl events. simpl accepted. simpl exec. unfold step.
        destruct (collect_general cfg (s_w s) (s_d s) evs acc Hndm Href) as [Rd Vd].
        destruct (collect cfg (s_w s) (s_d s)) as [d' r] eqn:Ec. simpl fst in *.
        specialize (IH {| s_w := s_w s; s_d := d' |} _ acc Rd). simpl in IH.
        rewrite <- app_assoc in IH. simpl in IH. rewrite Vd in IH. exact IH.
      * (* AddRow *)
        simpl events. simpl exec. unfold step.
        destruct (add_row_refines_g cfg (s_d s) evs acc t0 r ignore_missing Hndt Href) as [Rd Vd].
        destruct (add_row (s_d s) t0 r ignore_missing) as [d' res] eqn:Ea. simpl fst in *.
        specialize (IH {| s_w := s_w s; s_d := d' |} evs _ Rd). simpl in IH.
        rewrite Vd in IH. rewrite <- app_assoc in IH. simpl accepted.
        destruct (row_ok cfg t0 r ignore_missing); exact IH.
      * (* Frames *)
        simpl events. simpl exec. simpl accepted. apply (IH s evs acc). exact Href.
Qed.

Theorem refinement_general cfg ops :
  NoDup (map fst (c_mreps cfg)) -> NoDup (map fst (c_tables cfg)) ->
  refines_g cfg (events cfg world_init false ops) (accepted cfg ops) (s_d (exec cfg (state_init cfg) ops)).
Proof.
  intros H1 H2. exact (exec_refines_g cfg H1 H2 ops (state_init cfg) [] [] (refines_g_init cfg)).
Qed.
