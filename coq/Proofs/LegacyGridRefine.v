(* Refinement: seen through agent.pos alone, every call of the legacy-grid API is a step of an
   abstract "position map" machine that knows nothing of _grid, _empties or _empty_mask. *)
From Coq Require Import ZArith List Bool Lia.
From Mesa Require Import Common.ListX Model.LegacyGrid Proofs.LegacyGridProofs.
Import ListNotations.
Open Scope Z_scope.

Definition pmap := agent -> option coord.
Definition same (P P' : pmap) : Prop := forall b, P' b = P b.
Definition moved (P : pmap) (a : agent) (q : coord) (P' : pmap) : Prop :=
  P' a = Some q /\ forall b, b <> a -> P' b = P b.
Definition occupied_other (P : pmap) (a : agent) (q : coord) : Prop := exists b, b <> a /\ P b = Some q.
Definition cell_free (P : pmap) (q : coord) : Prop := forall b, P b <> Some q.

Definition aspec (c : cfg) (P : pmap) (o : op) (P' : pmap) (r : res) : Prop :=
  match o with
  | Place a p =>
    match P a with
    | Some _ => same P P' /\ r = Skip
    | None =>
      if out_of_bounds c p then same P P' /\ r = Skip
      else (r = Ok [] /\ moved P a p P' /\ (c_multi c = false -> cell_free P p)) \/
           (r = Err E_CELL_NOT_EMPTY /\ same P P' /\ c_multi c = false /\ ~ cell_free P p)
    end
  | Remove a =>
    match P a with
    | None => same P P' /\ r = Skip
    | Some _ => r = Ok [] /\ P' a = None /\ forall b, b <> a -> P' b = P b
    end
  | Move a p =>
    match P a with
    | None => same P P' /\ r = Skip
    | Some _ =>
      match torus_adj c p with
      | None => r = Err E_OOB /\ same P P'
      | Some q => (r = Ok [] /\ moved P a q P' /\ (c_multi c = false -> ~ occupied_other P a q)) \/
                  (r = Err E_CELL_NOT_EMPTY /\ same P P' /\ c_multi c = false /\ occupied_other P a q)
      end
    end
  | Swap a b =>
    match P a, P b with
    | Some pa, Some pb => r = Ok [] /\ P' a = Some pb /\ P' b = Some pa /\
                          forall x, x <> a -> x <> b -> P' x = P x
    | _, _ => r = Err E_NOT_ON_GRID /\ same P P'
    end
  | MoveToEmpty a _ out =>
    match P a with
    | None => same P P' /\ r = Skip
    | Some _ =>
      (r = Ok [] /\ moved P a out P' /\ out_of_bounds c out = false /\ cell_free P out) \/
      (r = Err E_NO_EMPTY /\ same P P' /\ forall q, out_of_bounds c q = false -> ~ cell_free P q) \/
      (r = Illegal /\ same P P')
    end
  | MoveToOneOf a cells sl he out =>
    match P a with
    | None => same P P' /\ r = Skip
    | Some pa =>
      match cells with
      | [] => same P P' /\
              r = match he with HNone => Ok [0] | HWarn => Ok [1] | HError => Err E_NO_POSITIONS end
      | _ =>
        (r = Ok [] /\ In out cells /\
           (sl = SelClosest -> forall q, In q cells -> dist2 c out pa <= dist2 c q pa) /\
           exists q, torus_adj c out = Some q /\ moved P a q P' /\
                     (c_multi c = false -> ~ occupied_other P a q)) \/
        (same P P' /\ exists k, r = Err k) \/ (same P P' /\ r = Illegal)
      end
    end
  | _ => same P P'      (* the readers: their results are the subject of C08_views *)
  end.

Lemma cell_free_iff c s q : Agree c s -> (grid s q = [] <-> cell_free (pos s) q).
Proof.
  intros Ha. split.
  - intros H b Hb. apply (ag_pos c s Ha) in Hb. rewrite H in Hb. destruct Hb.
  - intros H. apply (cell_empty_if_no_pos c s q Ha H).
Qed.

Lemma same_refl P : same P P.
Proof. intros b. reflexivity. Qed.

Lemma same_build c s : same (pos s) (pos (build_empties c s)).
Proof. intros b. rewrite build_empties_pos. reflexivity. Qed.

Lemma step_refines c s o s' r :
  wf c -> Agree c s -> step c s o = (s', r) -> aspec c (pos s) o (pos s') r.
Proof.
  intros Hwf Ha Hst. destruct o; cbn [aspec].
  - (* Place *)
    cbn [step] in Hst. unfold placed in Hst. destruct (pos s a) as [pa|] eqn:Hp.
    + cbn [orb] in Hst. inversion Hst. subst. split; [apply same_refl|reflexivity].
    + cbn [orb] in Hst. destruct (out_of_bounds c p) eqn:Ho.
      * inversion Hst. subst. split; [apply same_refl|reflexivity].
      * destruct (place_cases c s a p s' r Ha Hp Ho Hst) as [(H1 & _ & H2 & H3 & H4)|(H1 & H2 & H3 & H4)].
        -- left. split; [exact H1|]. split; [split; assumption|].
           intros Hs. apply (cell_free_iff c s p Ha). exact (H4 Hs).
        -- right. subst s'. split; [exact H2|]. split; [apply same_refl|]. split; [exact H3|].
           intros Hf. apply H4. apply (cell_free_iff c s p Ha). exact Hf.
  - (* Remove *)
    cbn [step] in Hst. unfold placed in Hst. destruct (pos s a) as [pa|] eqn:Hp.
    + destruct (remove_ok c s a pa Ha Hp) as (s1 & Hr & Hrs). rewrite Hr in Hst. inversion Hst. subst.
      split; [reflexivity|]. split; [apply (removed_pos_none s a pa s' Hrs)|].
      intros b Hb. apply (removed_pos_other s a pa s' b Hrs Hb).
    + inversion Hst. subst. split; [apply same_refl|reflexivity].
  - (* Move *)
    cbn [step] in Hst. unfold placed in Hst. destruct (pos s a) as [pa|] eqn:Hp.
    + destruct (move_cases c s a p pa s' r Hwf Ha Hp Hst)
        as [(H1 & _ & p' & Ht & H2 & H3 & H4)|[(H1 & H2 & Ht)|(H1 & H2 & Hs & p' & Ht & Hb)]]; rewrite Ht.
      * left. split; [exact H1|]. split; [split; assumption|].
        intros Hs Hocc. apply (blocked_spec c s a p' Ha Hs) in Hocc. rewrite (H3 Hs) in Hocc. discriminate.
      * subst s'. split; [exact H2|apply same_refl].
      * right. subst s'. split; [exact H2|]. split; [apply same_refl|]. split; [exact Hs|].
        apply (blocked_spec c s a p' Ha Hs). exact Hb.
    + inversion Hst. subst. split; [apply same_refl|reflexivity].
  - (* Swap *)
    cbn [step] in Hst.
    destruct (swap_cases c s a b s' r Ha Hst) as [(H1 & _ & pa & pb & Hpa & Hpb & H2 & H3 & H4)|(H1 & H2 & H3)].
    + rewrite Hpa, Hpb. repeat split; assumption.
    + subst s'. destruct (pos s a); [destruct (pos s b)|]; try (split; [exact H2|apply same_refl]).
      destruct H3; discriminate.
  - (* MoveToEmpty *)
    cbn [step] in Hst. unfold placed in Hst. destruct (pos s a) as [pa|] eqn:Hp.
    + destruct (move_to_empty_cases c s a pa sampling out s' r Ha Hp Hst)
        as [(H1 & _ & H2 & H3 & H4 & H5)|[(H1 & H2 & H3)|(H1 & H2)]].
      * left. split; [exact H1|]. split; [split; assumption|]. split; [exact H2|].
        apply (cell_free_iff c s out Ha). exact H3.
      * right. left. subst s'. split; [exact H2|]. split; [apply same_build|].
        intros q Hq Hf. apply (H3 q Hq). apply (cell_free_iff c s q Ha). exact Hf.
      * right. right. subst s'. split; [exact H2|apply same_build].
    + inversion Hst. subst. split; [apply same_refl|reflexivity].
  - (* MoveToOneOf *)
    cbn [step] in Hst. unfold placed in Hst. destruct (pos s a) as [pa|] eqn:Hp.
    + destruct cells as [|c0 ct].
      * cbn [move_agent_to_one_of] in Hst. destruct he; inversion Hst; subst; (split; [apply same_refl|reflexivity]).
      * destruct (move_one_of_cases c s a pa (c0 :: ct) sl he out s' r Hwf Ha Hp Hst)
          as [(H1 & _ & _ & Hin & Hcl & p' & Ht & H2 & H3 & H4)|[(_ & Hc & _)|[(H1 & k & Hk)|(H1 & Hk)]]].
        -- left. split; [exact H1|]. split; [exact Hin|]. split; [exact Hcl|].
           exists p'. split; [exact Ht|]. split; [split; assumption|].
           intros Hs Hocc. apply (blocked_spec c s a p' Ha Hs) in Hocc. rewrite (H3 Hs) in Hocc. discriminate.
        -- discriminate.
        -- right. left. subst s'. split; [apply same_refl|]. exists k. exact Hk.
        -- right. right. subst s'. split; [apply same_refl|exact Hk].
    + inversion Hst. subst. split; [apply same_refl|reflexivity].
  - cbn [step] in Hst. inversion Hst. subst. apply same_build.
  - cbn [step] in Hst. inversion Hst. subst. apply same_refl.
  - cbn [step] in Hst. destruct (out_of_bounds c p); inversion Hst; subst; apply same_refl.
  - cbn [step] in Hst. inversion Hst. subst. apply same_build.
  - cbn [step] in Hst. destruct (view_index c s p); inversion Hst; subst; apply same_refl.
  - cbn [step] in Hst. inversion Hst. subst. apply same_refl.
  - cbn [step] in Hst. inversion Hst. subst. apply same_refl.
  - cbn [step] in Hst. inversion Hst. subst. apply same_refl.
  - cbn [step] in Hst. inversion Hst. subst. apply same_refl.
  - cbn [step] in Hst. inversion Hst. subst. apply same_refl.
Qed.

(* every history refines the position-map machine, call by call *)
Lemma history_refines c ops o s' r :
  wf c -> step c (run c init ops) o = (s', r) -> aspec c (pos (run c init ops)) o (pos s') r.
Proof. intros Hwf. apply step_refines; [exact Hwf|apply run_agree; exact Hwf]. Qed.
