(* Bridge between the code-level T1 translation of mesa/visualization (Generated.Tables: gen_check_*,
   gen_check_param_is_fixed, gen_split_*, gen_hex_center_*, gen_mesh_centres, gen_layer_*, gen_hex_layer_colors,
   gen_agent_loc, gen_collect_mark, gen_scatter, gen_altair_xy_* - regenerated from the working tree by
   harness/tables/viz_code.py on every run) and the functions of the hand-written model Model/Viz.v that the
   C20 theorems are about; then the headline theorems restated about the generated code.

   The bridge proofs case-split BOTH sides (finite case analysis on parameter kinds / value shapes / the
   booleans of the conditions, lia with ZifyBool for arithmetic and comparison orientation), so harmless
   rewrites of a condition keep checking while a semantic change breaks them. *)
From Coq Require Import ZArith List Bool Lia ZifyBool Permutation.
From Mesa Require Import Common.ListX Generated.Tables Model.Viz Proofs.VizProofs.
Import ListNotations.
Open Scope Z_scope.

Lemma flat_map_ext' {A B} (f g : A -> list B) l : (forall a, f a = g a) -> flat_map f l = flat_map g l.
Proof. intros H. induction l as [|a l IH]; simpl; [reflexivity|]. rewrite H, IH. reflexivity. Qed.

Lemma existsb_ext' {A} (f g : A -> bool) l : (forall a, f a = g a) -> existsb f l = existsb g l.
Proof. intros H. induction l as [|a l IH]; simpl; [reflexivity|]. rewrite H, IH. reflexivity. Qed.

Lemma flat_map_singleton {A B} (f : A -> B) l : flat_map (fun a => [f a]) l = map f l.
Proof. induction l as [|a l IH]; simpl; [reflexivity|]. rewrite IH. reflexivity. Qed.

(* ------------------------------------------------------------------ _check_model_params *)
Lemma first_raise_ext {A} (f g : A -> Z) xs : (forall a, f a = g a) -> first_raise f xs = first_raise g xs.
Proof. intros H. unfold first_raise. rewrite (map_ext f g H). reflexivity. Qed.

Lemma first_raise_flag {A} (b : A -> bool) (c : Z) xs :
  c <> 0 -> first_raise (fun x => if b x then c else 0) xs = if existsb b xs then c else 0.
Proof.
  intros Hc. unfold first_raise. induction xs as [|x t IH]; simpl; [reflexivity|].
  destruct (b x); simpl.
  - destruct (c =? 0) eqn:E; [apply Z.eqb_eq in E; contradiction|reflexivity].
  - exact IH.
Qed.

Lemma check_varpos_bridge p : gen_check_any1 p = is_kind VarPos p.
Proof. destruct p as [n k d]. destruct k; reflexivity. Qed.
Lemma check_varkw_bridge p : gen_check_any2 p = is_kind VarKw p.
Proof. destruct p as [n k d]. destruct k; reflexivity. Qed.

(* the body of the first loop, for every parameter and whatever the two flags are *)
Lemma check_loop1_bridge s ps a b p : gen_check_loop1_body s ps a b p = param_problem ps p.
Proof.
  destruct p as [n k d]. unfold gen_check_loop1_body, param_problem, is_kind. cbn.
  destruct k, d, (n =? SELF), (memz n ps); reflexivity.
Qed.

(* the body of the second loop, for every given name *)
Lemma check_loop2_bridge s ps a hk n :
  gen_check_loop2_body s ps a hk n = if name_invalid s hk n then E_INVALID else 0.
Proof.
  unfold gen_check_loop2_body, name_invalid, kw_passable, is_kind.
  destruct (lookup_param s n) as [[n' k d]|]; cbn; [destruct k|]; destruct hk; reflexivity.
Qed.

Lemma check_bridge s ps : check s ps = gen_check_model_params s ps.
Proof.
  unfold check, gen_check_model_params. cbv zeta.
  rewrite (existsb_ext' _ _ s check_varpos_bridge), (existsb_ext' _ _ s check_varkw_bridge).
  destruct (existsb (is_kind VarPos) s); [reflexivity|].
  rewrite (first_raise_ext _ _ s (check_loop1_bridge s ps false (existsb (is_kind VarKw) s))).
  unfold first_raise at 1.
  destruct (first_nonzero (map (param_problem ps) s) =? 0); cbn [negb]; [|reflexivity].
  rewrite (first_raise_ext _ _ ps (check_loop2_bridge s ps false (existsb (is_kind VarKw) s))).
  rewrite first_raise_flag by discriminate.
  destruct (existsb (name_invalid s (existsb (is_kind VarKw) s)) ps); reflexivity.
Qed.

(* ------------------------------------------------------------------ check_param_is_fixed / split *)
Lemma fixed_bridge v : check_param_is_fixed v = gen_check_param_is_fixed v.
Proof. destruct v; reflexivity. Qed.

Lemma split_step_bridge acc kv : split_step acc kv = gen_split_step acc kv.
Proof.
  unfold split_step, gen_split_step. rewrite <- fixed_bridge.
  destruct (truthy (check_param_is_fixed (snd kv))); reflexivity.
Qed.

Lemma fold_left_ext {A B} (f g : A -> B -> A) l : (forall a b, f a b = g a b) -> forall a, fold_left f l a = fold_left g l a.
Proof. intros H. induction l as [|x t IH]; intros a; simpl; [reflexivity|]. rewrite H. apply IH. Qed.

Lemma split_bridge ps : split_model_params ps = gen_split_model_params ps.
Proof.
  unfold split_model_params, gen_split_model_params. cbv zeta.
  rewrite (fold_left_ext _ _ ps split_step_bridge).
  destruct (fold_left gen_split_step ps ([], [])); reflexivity.
Qed.

(* ------------------------------------------------------------------ hex centres and the mesh *)
Ltac arith :=
  try reflexivity; try lia;
  repeat match goal with
         | |- context [if ?c then _ else _] => let E := fresh "E" in destruct c eqn:E
         end;
  try lia;
  repeat match goal with
         | |- context [?a mod 2] => lazymatch goal with
                                    | H : 0 <= a mod 2 < 2 |- _ => fail
                                    | _ => pose proof (Z.mod_pos_bound a 2 ltac:(lia))
                                    end
         | H : context [?a mod 2] |- _ => lazymatch goal with
                                    | H' : 0 <= a mod 2 < 2 |- _ => fail
                                    | _ => pose proof (Z.mod_pos_bound a 2 ltac:(lia))
                                    end
         end;
  try lia; Z.div_mod_to_equations; lia.

Lemma hex_center_bridge p : hex_center p = (gen_hex_center_x (fst p) (snd p), gen_hex_center_y (snd p)).
Proof.
  destruct p as [x y]. unfold hex_center, gen_hex_center_x, gen_hex_center_y. cbn [fst snd].
  f_equal; arith.
Qed.

Lemma mesh_point_bridge col row :
  (let x := col * 2 + b2z (row mod 2 =? 0) * 1 in let y := row * 3 in (x, y)) = mesh_center col row.
Proof. cbv zeta. unfold mesh_center, b2z. f_equal; arith. Qed.

Lemma mesh_bridge w h : mesh_centres w h = gen_mesh_centres w h.
Proof.
  unfold mesh_centres, gen_mesh_centres.
  apply flat_map_ext'. intros row. rewrite <- flat_map_singleton.
  apply flat_map_ext'. intros col. cbv zeta. unfold mesh_center, b2z.
  f_equal. f_equal; arith.
Qed.

(* ------------------------------------------------------------------ property layers *)
Lemma layer_cmap_bridge w h d : transpose w h d = gen_layer_image_cmap w h d.
Proof. reflexivity. Qed.
Lemma layer_color_bridge w h d : transpose w h d = gen_layer_image_color w h d.
Proof. reflexivity. Qed.
Lemma hex_layer_bridge w h d :
  hex_layer_pairs w h d = combine (gen_mesh_centres w h) (gen_hex_layer_colors w h d).
Proof. unfold hex_layer_pairs. rewrite mesh_bridge. reflexivity. Qed.

(* ------------------------------------------------------------------ collect_agent_data *)
Lemma agent_loc_bridge a : agent_loc a = gen_agent_loc a.
Proof. unfold agent_loc, gen_agent_loc. destruct (a_pos a); reflexivity. Qed.

Lemma collect_mark_bridge pt dflt a :
  the_mark pt dflt a =
  gen_collect_mark dflt DEF_COLOR DEF_MARKER DEF_ZORDER (portray pt (a_kind a)) (loc_of a).
Proof.
  unfold the_mark, gen_collect_mark, size_of, pop_size, pop_color, pop_marker, pop_zorder.
  destruct (portray pt (a_kind a)) as [s c m z]. cbn.
  destruct s, c, m, z; reflexivity.
Qed.

(* ------------------------------------------------------------------ _scatter *)
Ltac masks :=
  repeat match goal with
         | |- map2 andb _ _ = map2 andb _ _ => f_equal
         | |- select _ ?x = select _ ?x => f_equal
         | |- map _ ?l = map _ ?l => apply map_ext; intros; try reflexivity; lia
         end.

Lemma scatter_bridge c : scatter c = gen_scatter c.
Proof.
  unfold scatter, gen_scatter. cbv zeta.
  apply flat_map_ext'. intros mk. apply map_ext. intros z.
  f_equal; masks.
Qed.

(* ------------------------------------------------------------------ Altair x / y *)
Lemma altair_xy_bridge p : gen_altair_xy_old p = p /\ gen_altair_xy_new p = p /\ gen_altair_xy_cont p = p.
Proof. destruct p as [x y]. repeat split; reflexivity. Qed.

(* ------------------------------------------------------------------ headline theorems about the generated code *)
Lemma check_iff_bindable_of_source s ps :
  wf_sig s -> ~ In SELF ps ->
  (gen_check_model_params s ps = 0 <-> existsb (is_kind VarPos) s = false /\ bindable s ps = true).
Proof. rewrite <- check_bridge. apply check_iff_bindable. Qed.

Lemma scatter_partition_of_source ms : Permutation (drawn_marks (gen_scatter (cols_of ms))) ms.
Proof. rewrite <- scatter_bridge. apply scatter_perm. Qed.

Lemma split_lossless_of_source ps :
  let r := gen_split_model_params ps in
  Permutation (fst r ++ snd r) ps /\
  (forall kv, In kv (fst r) -> adjustable (snd kv)) /\
  (forall kv, In kv (snd r) -> ~ adjustable (snd kv)).
Proof. rewrite <- split_bridge. apply split_lossless. Qed.

(* the translated agent-centre formula lands on the translated mesh, on the hexagon that the translated
   colour assignment gives data[x][y] *)
Lemma hex_layer_orientation_of_source w h d x y :
  0 <= x < w -> 0 <= y < h ->
  lookup_coord (gen_hex_center_x x y, gen_hex_center_y y)
               (combine (gen_mesh_centres w h) (gen_hex_layer_colors w h d)) = Some (dget d x y).
Proof.
  intros Hx Hy. rewrite <- hex_layer_bridge.
  pose proof (hex_center_bridge (x, y)) as Hc. cbn [fst snd] in Hc. rewrite <- Hc.
  apply hex_layer_orientation; assumption.
Qed.

Lemma layer_orientation_of_source w h d x y :
  0 <= x < w -> 0 <= y < h ->
  image_at (gen_layer_image_cmap w h d) x y = dget d x y /\
  image_at (gen_layer_image_color w h d) x y = dget d x y.
Proof.
  intros Hx Hy.
  split; [rewrite <- (layer_cmap_bridge w h d)|rewrite <- (layer_color_bridge w h d)];
    apply layer_orientation; assumption.
Qed.

(* the marker each agent gets, in the vocabulary of the translated loop body of collect_agent_data *)
Lemma drawn_mark_of_source sp pt a :
  drawn_mark sp pt a =
  let m := gen_collect_mark (dflt_size sp) DEF_COLOR DEF_MARKER DEF_ZORDER (portray pt (a_kind a))
                            (get (gen_agent_loc a) (0, 0)) in
  {| m_loc := draw_loc sp (m_loc m); m_s := m_s m; m_c := m_c m; m_m := m_m m; m_z := m_z m |}.
Proof.
  unfold drawn_mark. rewrite collect_mark_bridge. unfold loc_of. rewrite agent_loc_bridge. reflexivity.
Qed.
