(* Bridge between the code-level T1 translation of mesa_signal.py (Generated.Tables: gen_obs_get, gen_obs_set,
   gen_comp_get, gen_set_dirty, gen_add_parent, gen_remove_parents, gen_cmp_changed, gen_call - regenerated from
   the working tree by harness/tables/computed_code.py on every run) and the hand-written model
   Model/Computed.v the C17 theorems are about.  The proofs case-split on the conditions of both sides, so a
   harmless rewrite of a condition keeps checking while a semantic change (a statement moved, a condition
   dropped or altered) does not. *)
From Coq Require Import ZArith List Bool PeanoNat Lia ZifyBool.
From Mesa Require Import Generated.Tables Model.Computed Proofs.ComputedProofs.
Import ListNotations.
Open Scope Z_scope.

Ltac both_sides :=
  match goal with |- ?l = ?r => destruct l eqn:?E1; destruct r eqn:?E2 end; try reflexivity; exfalso; lia.

(* the test inside the comparison loop of Computed.__call__ *)
Lemma cmp_changed_bridge : forall v old, gen_cmp_changed v old = negb (v =? old).
Proof. intros. unfold gen_cmp_changed. both_sides. Qed.

Ltac split_conds :=
  repeat match goal with
         | |- context [if ?c then _ else _] => let E := fresh "E" in destruct c eqn:E; cbn [negb andb orb fst snd] in *
         end; try reflexivity; try discriminate; try (exfalso; lia).

(* Observable.__set__ *)
Lemma obs_set_bridge : forall prog b st o nm v, set_obs prog b st o nm v = gen_obs_set prog b st o nm v.
Proof.
  intros. unfold set_obs, gen_obs_set, sig_store_set. destruct b; destruct (ps_mem o nm (ps st)); cbn [negb andb orb]; reflexivity.
Qed.

(* BaseObservable.__get__ : inside the function of computed j, and in the comparison loop (nobody evaluating) *)
Lemma obs_get_bridge_inside : forall prog j st o nm,
  (let v := store st o nm in
   let st1 := add_parent prog st j (SObs o nm) v in (upd_ps st1 ((o, nm) :: ps st1), v)) = gen_obs_get prog (Some j) st o nm.
Proof. intros. reflexivity. Qed.

Lemma obs_get_bridge_outside : forall prog st o nm, (st, store st o nm) = gen_obs_get prog None st o nm.
Proof. intros. reflexivity. Qed.

(* Computable.__get__ *)
Lemma comp_get_bridge : forall prog call cur st k, read_comp prog call cur st k = gen_comp_get prog call cur st k.
Proof.
  intros. unfold read_comp, gen_comp_get, sig_cached, sig_changed, sig_get, sig_cur_some, sig_cur_get.
  destruct (call st k) as [st1 v]. destruct cur as [j|]; destruct (first st k); cbn [orb];
    try reflexivity; destruct (v =? value st k) eqn:E; cbn [negb]; try reflexivity;
    apply Z.eqb_eq in E; rewrite E; reflexivity.
Qed.

(* Computed._set_dirty (the fuel, index and liveness tests are the model's rendering of the weak subscriber list) *)
Lemma set_dirty_bridge : forall prog f st c,
  set_dirty prog (S f) st c =
  if negb (c <? ncomp prog)%nat then st
  else if negb (alive st (cowner prog c)) then st
  else gen_set_dirty (fun s => fold_left (set_dirty prog f) (subs s (SComp c)) s) st c.
Proof.
  intros. cbn [set_dirty]. unfold gen_set_dirty, sig_mark.
  destruct (negb (c <? ncomp prog)%nat); [reflexivity|]. destruct (negb (alive st (cowner prog c))); [reflexivity|].
  destruct (dirty st c); reflexivity.
Qed.

(* Computed._add_parent / _remove_parents *)
Lemma add_parent_bridge : forall prog st j s v, add_parent prog st j s v = gen_add_parent prog st j s v.
Proof. intros. reflexivity. Qed.

Lemma remove_parents_bridge : forall prog st j, remove_parents prog st j = gen_remove_parents prog st j.
Proof. intros. reflexivity. Qed.

(* Computed.__call__ *)
Definition evalf_of (prog : list cdef) (call : state -> nat -> state * Z) (j : nat) (s : state) : state :=
  let '(stb, v) := ev prog call j (d_expr (cdef_at prog j)) s in
  upd_count (upd_value stb (updn (value stb) j v)) (updn (count stb) j (count stb j + 1)).

Lemma call_bridge : forall prog f st j,
  callf prog (S f) st j =
  gen_call prog (fun s => cmp_items prog (callf prog f) (flat (parents s j)) s) (evalf_of prog (callf prog f) j) st j.
Proof.
  intros. cbn [callf]. unfold gen_call, sig_loop, sig_mark, evalf_of.
  destruct (dirty st j); cbn [negb]; [|reflexivity].
  destruct (first st j); cbn [negb].
  - destruct (ev prog (callf prog f) j (d_expr (cdef_at prog j))
                 (remove_parents prog (upd_first st (updn (first st) j false)) j)) as [stb v]. reflexivity.
  - destruct (cmp_items prog (callf prog f) (flat (parents st j)) st) as [st1 ch]. cbn [fst snd orb].
    destruct ch; [|reflexivity].
    destruct (ev prog (callf prog f) j (d_expr (cdef_at prog j)) (remove_parents prog st1 j)) as [stb v]. reflexivity.
Qed.

(* ------------------------------------------------------------------ the machine assembled from the generated code *)
Section GenMachine.
  Variable prog : list cdef.

  Section E.
    Variable call : state -> nat -> state * Z.

    Fixpoint g_ev (j : nat) (e : expr) (st : state) : state * Z :=
      match e with
      | Const z => (st, z)
      | Obs o nm => if alive st o then gen_obs_get prog (Some j) st o nm else (st, 0)
      | Comp k => if (k <? j)%nat && alive st (cowner prog k) then gen_comp_get prog call (Some j) st k else (st, 0)
      | Add a b => let '(st1, va) := g_ev j a st in let '(st2, vb) := g_ev j b st1 in (st2, va + vb)
      | If c a b => let '(st1, vc) := g_ev j c st in if vc =? 0 then g_ev j b st1 else g_ev j a st1
      end.

    Fixpoint g_cmp (l : list (src * Z)) (st : state) : state * bool :=
      match l with
      | [] => (st, false)
      | (s, old) :: t =>
          let '(st1, v) := match s with
                           | SObs o nm => gen_obs_get prog None st o nm
                           | SComp k => gen_comp_get prog call None st k
                           end in
          if gen_cmp_changed v old then (st1, true) else g_cmp t st1
      end.
  End E.

  Definition g_evalf (call : state -> nat -> state * Z) (j : nat) (s : state) : state :=
    let '(stb, v) := g_ev call j (d_expr (cdef_at prog j)) (s) in
    upd_count (upd_value stb (updn (value stb) j v)) (updn (count stb) j (count stb j + 1)).

  Fixpoint g_callf (f : nat) (st : state) (j : nat) : state * Z :=
    match f with
    | O => (st, 0)
    | S f' => gen_call prog (fun s => g_cmp (g_callf f') (flat (parents s j)) s) (g_evalf (g_callf f') j) st j
    end.

  Definition g_read_top (st : state) (k : nat) : state * Z := gen_comp_get prog (g_callf (length prog)) None st k.

  Lemma g_ev_eq : forall call call', (forall st k, call st k = call' st k) ->
    forall j e st, g_ev call j e st = ev prog call' j e st.
  Proof.
    intros call call' H j. induction e as [z|o nm|k|e1 IHe1 e2 IHe2|e1 IHe1 e2 IHe2 e3 IHe3]; intros st; cbn [g_ev ev].
    - reflexivity.
    - destruct (alive st o); auto.
    - destruct ((k <? j)%nat && alive st (cowner prog k)); auto.
      rewrite <- comp_get_bridge. unfold read_comp. rewrite H. reflexivity.
    - rewrite IHe1. destruct (ev prog call' j e1 st) as [st1 va]. rewrite IHe2. reflexivity.
    - rewrite IHe1. destruct (ev prog call' j e1 st) as [st1 vc]. destruct (vc =? 0); auto.
  Qed.

  Lemma g_cmp_eq : forall call call', (forall st k, call st k = call' st k) ->
    forall l st, g_cmp call l st = cmp_items prog call' l st.
  Proof.
    intros call call' H. induction l as [|[s old] t IH]; intros st; cbn [g_cmp cmp_items]; auto.
    destruct s as [o nm|k].
    - rewrite <- obs_get_bridge_outside. rewrite cmp_changed_bridge. destruct (store st o nm =? old); cbn [negb]; auto.
    - rewrite <- comp_get_bridge. unfold read_comp at 1. rewrite H. fold (read_comp prog call' None st k).
      destruct (read_comp prog call' None st k) as [st1 v]. rewrite cmp_changed_bridge.
      destruct (v =? old); cbn [negb]; auto.
  Qed.

  Lemma g_callf_eq : forall f st j, g_callf f st j = callf prog f st j.
  Proof.
    induction f as [|f IH]; intros st j; [reflexivity|].
    rewrite call_bridge. cbn [g_callf].
    assert (E1 : forall s, g_cmp (g_callf f) (flat (parents s j)) s = cmp_items prog (callf prog f) (flat (parents s j)) s)
      by (intro s; apply g_cmp_eq; exact IH).
    assert (E2 : forall s, g_evalf (g_callf f) j s = evalf_of prog (callf prog f) j s).
    { intro s. unfold g_evalf, evalf_of. rewrite (g_ev_eq (g_callf f) (callf prog f) IH). reflexivity. }
    unfold gen_call. destruct (dirty st j); [|reflexivity].
    destruct (first st j).
    - cbn [negb]. rewrite E2. reflexivity.
    - cbn [negb]. rewrite E1. destruct (cmp_items prog (callf prog f) (flat (parents st j)) st) as [st1 ch].
      unfold sig_loop. cbn [fst snd orb]. destruct ch; [rewrite E2|]; reflexivity.
  Qed.

  Lemma g_read_top_eq : forall st k, g_read_top st k = read_top prog st k.
  Proof.
    intros. unfold g_read_top, read_top. rewrite <- comp_get_bridge. unfold read_comp.
    rewrite g_callf_eq. reflexivity.
  Qed.
End GenMachine.

(* headline theorems restated about the generated code *)
Lemma never_stale_of_source : forall (c : case) (pre : list op) (k : nat),
  gen_signal_skeleton_ok = true ->
  no_kill pre = true -> (k < length (c_comps c))%nat ->
  let st := final (c_comps c) (map (@length Z) (c_init c)) (start c) pre in
  snd (g_read_top (c_comps c) st k) = den (c_comps c) (alive st) (store st) k.
Proof. intros c pre k _ Hn Hk st. rewrite g_read_top_eq. exact (never_stale_case c pre k Hn Hk). Qed.

Lemma cycle_rejected_of_source : forall prog st o nm v,
  ps_mem o nm (ps st) = true -> gen_obs_set prog true st o nm v = None.
Proof. intros. rewrite <- obs_set_bridge. unfold set_obs. rewrite H. reflexivity. Qed.

Lemma read_registers_of_source : forall prog j st o nm,
  ps_mem o nm (ps (fst (gen_obs_get prog (Some j) st o nm))) = true.
Proof.
  intros. rewrite <- obs_get_bridge_inside. cbn [fst]. unfold ps_mem. cbn [ps upd_ps existsb fst snd].
  rewrite !Z.eqb_refl. reflexivity.
Qed.

Lemma clear_only_outside_of_source : forall prog st o nm v st',
  gen_obs_set prog true st o nm v = Some st' -> ps st' = ps st.
Proof.
  intros prog st o nm v st' H. rewrite <- obs_set_bridge in H. unfold set_obs in H.
  destruct (true && ps_mem o nm (ps st)); [discriminate|]. inversion H; subst. cbn [ps upd_store].
  destruct (notify_frame prog st (SObs o nm)) as (_ & _ & _ & _ & _ & _ & _ & E). exact E.
Qed.
