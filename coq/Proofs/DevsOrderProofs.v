(* Order of execution in the discrete-event simulator: pop-min discipline, soundness of the log of a
   run, up-front schedules run in key order, peak_ahead. *)
From Coq Require Import ZArith List Bool Lia Sorted.
From Mesa Require Import Generated.Tables Model.Devs Model.DevsSpec Proofs.DevsProofs.
Import ListNotations. Open Scope Z_scope.

(* ---------- 1. reachable states satisfy the invariant ---------- *)
Lemma reach_inv : forall cfg st, reach cfg st -> inv st.
Proof.
  intros cfg st H. induction H.
  - apply inv_init.
  - eapply inv_step_op; eassumption.
  - eapply inv_exec_event; eassumption.
Qed.

(* ---------- 2. pop-min discipline ---------- *)
Theorem next_event_is_least : forall cfg st e rest x, reach cfg st -> pop_event (s_events st) = Some (e, rest) ->
  e_cancelled e = false /\ (In x (s_events st) -> e_cancelled x = false -> x = e \/ ev_lt e x).
Proof.
  intros cfg st e rest x Hr Hp. pose proof (reach_inv _ _ Hr) as [Hs _].
  split.
  - destruct (pop_event_some _ _ _ Hp) as [Hc _]. exact Hc.
  - intros Hin Hx. eapply pop_event_min; eassumption.
Qed.

(* ---------- 3. what an executed event logs ---------- *)
Lemma execs_app : forall a b, execs (a ++ b) = execs a ++ execs b.
Proof. intros a b. unfold execs. apply flat_map_app. Qed.
Lemma clocks_app : forall a b, clocks (a ++ b) = clocks a ++ clocks b.
Proof. intros a b. unfold clocks. apply flat_map_app. Qed.

Lemma do_act_log : forall cfg a st st' l, do_act cfg st a = (st', l) -> execs l = [] /\ clocks l = [].
Proof.
  intros cfg a st st' l H. destruct a as [k t p tag h body|tag|h|]; cbn [do_act] in H.
  - destruct (do_sched cfg st k t p tag h body) as [s rc] eqn:E. inversion H; subst. split; reflexivity.
  - inversion H; subst. split; reflexivity.
  - inversion H; subst. split; reflexivity.
  - inversion H; subst. split; reflexivity.
Qed.

Lemma do_acts_log : forall cfg acts st st' l, do_acts cfg st acts = (st', l) -> execs l = [] /\ clocks l = [].
Proof.
  intros cfg acts. induction acts as [|a r IH]; intros st st' l H; cbn [do_acts] in H.
  - inversion H; subst. split; reflexivity.
  - destruct (do_act cfg st a) as [s1 l1] eqn:E1.
    destruct (do_act_log _ _ _ _ _ E1) as [A1 B1].
    destruct (has_raise l1) eqn:Hr; [inversion H; subst; split; assumption|].
    destruct (do_acts cfg s1 r) as [s2 l2] eqn:E2. inversion H; subst.
    destruct (IH _ _ _ E2) as [A2 B2].
    rewrite execs_app, clocks_app, A1, A2, B1, B2. split; reflexivity.
Qed.

Lemma execute_log : forall cfg st e st' l, execute cfg st e = (st', l) ->
  (execs l = [] \/ (execs l = [e] /\ e_step e = false /\ e_cancelled e = false /\ memz (e_holder e) (s_dead st) = false)) /\
  Forall (fun c => c = s_time st) (clocks l).
Proof.
  intros cfg st e st' l H. unfold execute in H.
  destruct (e_cancelled e) eqn:Ec; [inversion H; subst; split; [left; reflexivity|constructor]|].
  destruct (e_step e) eqn:Es.
  - destruct (do_acts cfg (set_steps st (s_steps st + 1))
                (script_for (s_steps (set_steps st (s_steps st + 1))) (c_script cfg))) as [s2 l2] eqn:E.
    inversion H; subst. destruct (do_acts_log _ _ _ _ _ E) as [A B].
    unfold execs, clocks in *. cbn [flat_map exec_of clock_of app]. rewrite A, B.
    cbn [s_time set_steps]. split; [left; reflexivity|].
    constructor; [reflexivity|constructor].
  - destruct (memz (e_holder e) (s_dead st)) eqn:Em;
      [inversion H; subst; split; [left; reflexivity|constructor]|].
    destruct (do_acts cfg st (e_body e)) as [s2 l2] eqn:E.
    inversion H; subst. destruct (do_acts_log _ _ _ _ _ E) as [A B].
    unfold execs, clocks in *. cbn [flat_map exec_of clock_of app]. rewrite A, B. split.
    + right. repeat split; reflexivity.
    + constructor; [reflexivity|constructor].
Qed.

Lemma schedule_relative_dead : forall cfg st d p tag h stp body st' rc,
  schedule_relative cfg st d p tag h stp body = (st', rc) -> s_dead st' = s_dead st.
Proof.
  intros cfg st d p tag h stp body st' rc H.
  destruct (schedule_relative_cases _ _ _ _ _ _ _ _ _ _ H) as [[_ ->]|[_ H1]]; [reflexivity|].
  destruct (schedule_cases _ _ _ _ _ _ _ _ _ _ H1) as [[_ [_ ->]]|[_ ->]]; reflexivity.
Qed.

Lemma exec_event_log : forall cfg st e st' l, exec_event cfg st e = (st', l) ->
  (execs l = [] \/ (execs l = [e] /\ e_step e = false /\ e_cancelled e = false /\ memz (e_holder e) (s_dead st) = false)) /\
  Forall (fun c => c = e_time e) (clocks l).
Proof.
  intros cfg st e st' l H. unfold exec_event in H.
  destruct (c_abm cfg && e_step e).
  - destruct (schedule_relative cfg (set_time st (e_time e)) SCALE gen_step_prio (-1) (-1) true [])
      as [s rc] eqn:E. cbn [fst] in H.
    pose proof (schedule_relative_dead _ _ _ _ _ _ _ _ _ _ E) as Hd.
    pose proof (schedule_relative_time _ _ _ _ _ _ _ _ _ _ E) as Ht.
    cbn [s_dead s_time set_time] in Hd, Ht.
    pose proof (execute_log _ _ _ _ _ H) as HL. rewrite Hd, Ht in HL. exact HL.
  - pose proof (execute_log _ _ _ _ _ H) as HL. cbn [s_dead s_time set_time] in HL. exact HL.
Qed.

Lemma in_execs : forall l e c, In (LExec e c) l -> In e (execs l) /\ In c (clocks l).
Proof.
  intros l e c H. split.
  - unfold execs. apply in_flat_map. exists (LExec e c). split; [exact H|left; reflexivity].
  - unfold clocks. apply in_flat_map. exists (LExec e c). split; [exact H|left; reflexivity].
Qed.

Lemma exec_event_In : forall cfg st e st' l e' c, exec_event cfg st e = (st', l) -> In (LExec e' c) l ->
  e' = e /\ c = e_time e /\ e_cancelled e = false.
Proof.
  intros cfg st e st' l e' c H Hin.
  destruct (exec_event_log _ _ _ _ _ H) as [Hex Hcl].
  destruct (in_execs _ _ _ Hin) as [He Hc].
  rewrite Forall_forall in Hcl. split; [|split].
  - destruct Hex as [Hn|[Hn _]]; rewrite Hn in He; [destruct He|].
    destruct He as [He|[]]. symmetry; exact He.
  - apply Hcl, Hc.
  - destruct Hex as [Hn|[_ [_ [Hc' _]]]]; [rewrite Hn in He; destruct He|exact Hc'].
Qed.

(* ---------- 4. soundness of the log of a run ---------- *)
Lemma ss_app_const : forall c a b, Forall (fun x => x = c) a -> StronglySorted Z.le b ->
  Forall (fun x => c <= x) b -> StronglySorted Z.le (a ++ b).
Proof.
  intros c a b Ha Hb Hcb. induction Ha as [|x a Hx Ha IH]; cbn [app]; [exact Hb|].
  constructor; [exact IH|]. apply Forall_app. split.
  - eapply Forall_impl; [|exact Ha]. cbn. intros y Hy. lia.
  - eapply Forall_impl; [|exact Hcb]. cbn. intros y Hy. lia.
Qed.

Theorem run_loop_log : forall cfg fuel endt st st' l ok, inv st -> run_loop cfg fuel endt st = (st', l, ok) ->
  Forall (fun e => e_cancelled e = false /\ e_step e = false /\ s_time st <= e_time e <= endt) (execs l) /\
  Forall (fun c => s_time st <= c <= endt) (clocks l) /\
  StronglySorted Z.le (clocks l).
Proof.
  intros cfg fuel endt. induction fuel as [|n IH]; intros st st' l ok Hi H; cbn [run_loop] in H.
  - inversion H; subst. cbn. repeat split; constructor.
  - destruct (pop_event (s_events st)) as [[e rest]|] eqn:Ep.
    + destruct (Z.leb_spec (e_time e) endt).
      * destruct (exec_event cfg (set_events st rest) e) as [s1 l1] eqn:E1.
        destruct (inv_pop _ _ _ Hi Ep) as [_ [Hte _]].
        destruct (exec_event_log _ _ _ _ _ E1) as [Hex Hcl].
        destruct (has_raise l1) eqn:Hr.
        { inversion H; subst. split; [|split].
          - destruct Hex as [->|[-> [Hs [Hc _]]]]; [constructor|].
            constructor; [|constructor]. repeat split; try assumption.
          - eapply Forall_impl; [|exact Hcl]. cbn. intros x ->. lia.
          - rewrite <- (app_nil_r (clocks l)).
            eapply ss_app_const; [exact Hcl|constructor|constructor]. }
        destruct (run_loop cfg n endt s1) as [[s2 l2] ok2] eqn:E2. inversion H; subst.
        pose proof (exec_event_time _ _ _ _ _ E1) as Ht.
        assert (Hi1 : inv s1) by (eapply inv_exec_event; eassumption).
        destruct (IH _ _ _ _ Hi1 E2) as [IH1 [IH2 IH3]].
        rewrite Ht in IH1, IH2.
        rewrite execs_app, clocks_app. split; [|split].
        -- apply Forall_app. split.
           ++ destruct Hex as [->|[-> [Hs [Hc _]]]]; [constructor|].
              constructor; [|constructor]. repeat split; try assumption.
           ++ eapply Forall_impl; [|exact IH1]. cbn. intros x [A [B C]]. repeat split; try assumption; lia.
        -- apply Forall_app. split.
           ++ eapply Forall_impl; [|exact Hcl]. cbn. intros x ->. lia.
           ++ eapply Forall_impl; [|exact IH2]. cbn. intros x Hx. lia.
        -- eapply ss_app_const; [exact Hcl|exact IH3|].
           eapply Forall_impl; [|exact IH2]. cbn. intros x Hx. lia.
      * inversion H; subst. cbn. repeat split; constructor.
    + inversion H; subst. cbn. repeat split; constructor.
Qed.

Theorem run_loop_exec_clock : forall cfg fuel endt st st' l ok e c, run_loop cfg fuel endt st = (st', l, ok) -> In (LExec e c) l -> c = e_time e.
Proof.
  intros cfg fuel endt. induction fuel as [|n IH]; intros st st' l ok e0 c H Hin; cbn [run_loop] in H.
  - inversion H; subst. destruct Hin.
  - destruct (pop_event (s_events st)) as [[e rest]|] eqn:Ep.
    + destruct (e_time e <=? endt).
      * destruct (exec_event cfg (set_events st rest) e) as [s1 l1] eqn:E1.
        destruct (has_raise l1) eqn:Hr.
        { inversion H; subst.
          destruct (exec_event_In _ _ _ _ _ _ _ E1 Hin) as [-> [-> _]]. reflexivity. }
        destruct (run_loop cfg n endt s1) as [[s2 l2] ok2] eqn:E2. inversion H; subst.
        apply in_app_or in Hin. destruct Hin as [Hin|Hin].
        -- destruct (exec_event_In _ _ _ _ _ _ _ E1 Hin) as [-> [-> _]]. reflexivity.
        -- eapply IH; eassumption.
      * inversion H; subst. destruct Hin.
    + inversion H; subst. destruct Hin.
Qed.

Theorem run_next_log : forall cfg st st' l, inv st -> run_next cfg st = (st', l) ->
  Forall (fun e => e_cancelled e = false /\ s_time st <= e_time e) (execs l) /\ (length (execs l) <= 1)%nat /\
  (forall e c, In (LExec e c) l -> c = e_time e /\ s_time st' = c).
Proof.
  intros cfg st st' l Hi H. unfold run_next in H.
  destruct (pop_event (s_events st)) as [[e rest]|] eqn:Ep.
  - destruct (inv_pop _ _ _ Hi Ep) as [_ [Hte _]].
    destruct (exec_event_log _ _ _ _ _ H) as [Hex Hcl].
    pose proof (exec_event_time _ _ _ _ _ H) as Ht.
    split; [|split].
    + destruct Hex as [->|[-> [_ [Hc _]]]]; [constructor|].
      constructor; [|constructor]. split; assumption.
    + destruct Hex as [->|[-> _]]; cbn; lia.
    + intros e0 c Hin. destruct (exec_event_In _ _ _ _ _ _ _ H Hin) as [-> [-> _]].
      split; [reflexivity|exact Ht].
  - inversion H; subst. cbn. split; [constructor|split; [lia|]]. intros e c [].
Qed.

(* ---------- 5. events scheduled up front run exactly once each, in key order ---------- *)

Lemma filter_due_cancelled : forall dead endt l, Forall (fun x => e_cancelled x = true) l ->
  filter (due dead endt) l = [].
Proof.
  intros dead endt l H. induction H as [|x l Hx Hl IH]; [reflexivity|].
  cbn [filter]. unfold due at 1, runnable. rewrite Hx. cbn. exact IH.
Qed.

Lemma filter_due_late : forall dead endt l, Forall (fun x => endt < e_time x) l ->
  filter (due dead endt) l = [].
Proof.
  intros dead endt l H. induction H as [|x l Hx Hl IH]; [reflexivity|].
  cbn [filter]. unfold due at 1.
  replace (e_time x <=? endt) with false by (symmetry; apply Z.leb_gt; exact Hx).
  rewrite andb_false_r. exact IH.
Qed.

Theorem upfront_sorted : forall cfg fuel endt st st' l, inv st -> plain (s_events st) ->
  run_loop cfg fuel endt st = (st', l, true) ->
  l = map (fun e => LExec e (e_time e)) (filter (due (s_dead st) endt) (s_events st)) /\ s_dead st' = s_dead st /\ plain (s_events st').
Proof.
  intros cfg fuel endt. induction fuel as [|n IH]; intros st st' l Hi Hp H; cbn [run_loop] in H.
  - inversion H.
  - destruct (pop_event (s_events st)) as [[e rest]|] eqn:Ep.
    + destruct (pop_event_some _ _ _ Ep) as [Hc [pre [Hl Hpre]]].
      assert (Hpl : (e_step e = false /\ e_body e = []) /\ plain rest).
      { unfold plain in Hp. rewrite Hl in Hp. apply Forall_app in Hp. destruct Hp as [_ Hp2].
        inversion Hp2; subst. split; assumption. }
      destruct Hpl as [[Hstep Hbody] Hprest].
      destruct (Z.leb_spec (e_time e) endt) as [Hle|Hgt].
      * destruct (exec_event cfg (set_events st rest) e) as [s1 l1] eqn:E1.
        destruct (has_raise l1) eqn:Hr; [inversion H|].
        destruct (run_loop cfg n endt s1) as [[s2 l2] ok2] eqn:E2. inversion H; subst.
        assert (Hi1 : inv s1) by (eapply inv_exec_event; eassumption).
        unfold exec_event in E1. rewrite Hstep, andb_false_r in E1.
        unfold execute in E1. rewrite Hc, Hstep, Hbody in E1.
        cbn [s_dead set_time set_events do_acts s_time] in E1.
        assert (Hfl : filter (due (s_dead st) endt) (s_events st) =
                      (if memz (e_holder e) (s_dead st) then [] else [e]) ++ filter (due (s_dead st) endt) rest).
        { rewrite Hl, filter_app, (filter_due_cancelled _ _ _ Hpre). cbn [app filter].
          unfold due at 1, runnable. rewrite Hc.
          replace (e_time e <=? endt) with true by (symmetry; apply Z.leb_le; exact Hle).
          destruct (memz (e_holder e) (s_dead st)); reflexivity. }
        rewrite Hfl, map_app.
        destruct (memz (e_holder e) (s_dead st)) eqn:Em; inversion E1; subst.
        -- destruct (IH _ _ _ Hi1 Hprest E2) as [A [B C]].
           cbn [s_dead s_events set_time set_events] in A, B.
           split; [|split; assumption]. cbn [map app]. exact A.
        -- destruct (IH _ _ _ Hi1 Hprest E2) as [A [B C]].
           cbn [s_dead s_events set_time set_events] in A, B.
           split; [|split; assumption]. cbn [map app]. rewrite A. reflexivity.
      * inversion H; subst. cbn [s_dead s_events set_time set_events].
        destruct (inv_stop _ _ _ endt Hi Ep Hgt) as [_ [-> Hall]].
        split; [|split].
        -- rewrite Hl, filter_app, (filter_due_cancelled _ _ _ Hpre), (filter_due_late _ _ _ Hall). reflexivity.
        -- reflexivity.
        -- constructor; [split; assumption|exact Hprest].
    + inversion H; subst. cbn [s_dead s_events set_time set_events].
      rewrite (filter_due_cancelled _ _ _ (pop_event_none _ Ep)).
      split; [reflexivity|split; [reflexivity|constructor]].
Qed.

(* ---------- 6. peak_ahead ---------- *)
Lemma live_sorted : forall l, StronglySorted ev_lt l -> StronglySorted ev_lt (live l).
Proof.
  intros l H. unfold live. induction H as [|x l Hl IH Hx]; cbn [filter]; [constructor|].
  destruct (negb (e_cancelled x)); [|exact IH].
  constructor; [exact IH|]. rewrite Forall_forall in *. intros y Hy.
  apply filter_In in Hy. apply Hx, Hy.
Qed.

Lemma firstn_subset : forall (n : nat) (l : list event) x, In x (firstn n l) -> In x l.
Proof.
  induction n as [|n IH]; intros l x H; [destruct H|].
  destruct l as [|h t]; [destruct H|]. cbn [firstn] in H. destruct H as [H|H]; [left; exact H|right; apply IH, H].
Qed.

Lemma firstn_sorted : forall (R : event -> event -> Prop) n l, StronglySorted R l -> StronglySorted R (firstn n l).
Proof.
  intros R n. induction n as [|n IH]; intros l H; [constructor|].
  destruct H as [|x l Hl Hx]; cbn [firstn]; [constructor|].
  constructor; [apply IH; exact Hl|]. rewrite Forall_forall in *. intros y Hy.
  apply Hx. eapply firstn_subset; exact Hy.
Qed.

Theorem peek_sorted : forall st n, inv st -> StronglySorted ev_lt (peak_ahead n (s_events st)) /\
  Forall (fun e => e_cancelled e = false) (peak_ahead n (s_events st)).
Proof.
  intros st n [Hs _]. unfold peak_ahead. split.
  - apply firstn_sorted, live_sorted, Hs.
  - rewrite Forall_forall. intros x Hx. apply firstn_subset in Hx. unfold live in Hx.
    apply filter_In in Hx. destruct Hx as [_ Hx]. destruct (e_cancelled x); [discriminate|reflexivity].
Qed.

Lemma pop_event_live : forall l e rest, pop_event l = Some (e, rest) -> live l = e :: live rest.
Proof.
  induction l as [|h t IH]; intros e rest H; cbn [pop_event] in H; [discriminate|].
  unfold live. cbn [filter]. destruct (e_cancelled h) eqn:Ec; cbn [negb].
  - apply IH. exact H.
  - inversion H; subst. reflexivity.
Qed.

Theorem peek_head_is_next : forall st e rest, pop_event (s_events st) = Some (e, rest) ->
  peak_ahead 1 (s_events st) = [e] /\ live (s_events st) = e :: live rest.
Proof.
  intros st e rest H. pose proof (pop_event_live _ _ _ H) as HL. split; [|exact HL].
  unfold peak_ahead. rewrite HL. reflexivity.
Qed.

Lemma peak_ahead_all : forall l, peak_ahead (length l) l = live l.
Proof.
  intros l. unfold peak_ahead. apply firstn_all2. unfold live.
  induction l as [|h t IH]; cbn [filter length]; [lia|].
  destruct (negb (e_cancelled h)); cbn [length]; lia.
Qed.

Theorem peek_all : forall st x, In x (peak_ahead (length (s_events st)) (s_events st)) <-> In x (s_events st) /\ e_cancelled x = false.
Proof.
  intros st x. rewrite peak_ahead_all. unfold live. rewrite filter_In.
  destruct (e_cancelled x); cbn [negb]; intuition discriminate.
Qed.

Lemma execs_map_exec : forall (f : event -> Z) l, execs (map (fun e => LExec e (f e)) l) = l.
Proof.
  intros f l. induction l as [|h t IH]; [reflexivity|].
  cbn [map]. change (execs (LExec h (f h) :: map (fun e => LExec e (f e)) t))
    with (h :: execs (map (fun e => LExec e (f e)) t)). rewrite IH. reflexivity.
Qed.

Lemma filter_andb : forall (f g : event -> bool) l,
  filter (fun e => f e && g e) l = filter g (filter f l).
Proof.
  intros f g l. induction l as [|h t IH]; [reflexivity|].
  cbn [filter]. destruct (f h); cbn [andb filter]; [destruct (g h); rewrite IH; reflexivity|exact IH].
Qed.

(* peak_ahead lists the events in the order in which an up-front schedule executes them *)
Theorem peek_is_run_order : forall cfg fuel endt st st' l, inv st -> plain (s_events st) -> s_dead st = [] ->
  run_loop cfg fuel endt st = (st', l, true) ->
  execs l = filter (fun e => e_time e <=? endt) (peak_ahead (length (s_events st)) (s_events st)).
Proof.
  intros cfg fuel endt st st' l Hi Hp Hd H.
  destruct (upfront_sorted _ _ _ _ _ _ Hi Hp H) as [-> _].
  rewrite execs_map_exec, peak_ahead_all, Hd. unfold live.
  rewrite <- filter_andb. apply filter_ext. intros e. unfold due, runnable. cbn [memz existsb].
  rewrite andb_true_r. reflexivity.
Qed.
