(* Bridge between the code-level T1 translation of mesa/discrete_space (Generated.Tables: gen_connect_2d,
   gen_connect_nd, gen_moore_axis, gen_vn_deltas, gen_nbhd_* - regenerated from grid.py / cell.py by
   harness/tables/cellgeom_code.py on every run) and the hand-written model Model/CellGeom.v that the C07
   theorems are about.  The proofs case-split both sides and close the arithmetic by lia (ZifyBool), so a
   harmless rewrite of a condition keeps checking while a semantic change breaks the bridge. *)
From Coq Require Import ZArith List Bool Lia ZifyBool.
From Mesa Require Import Common.ListX Generated.Tables Model.CellGeom Proofs.CellGeomProofs.
Import ListNotations.
Open Scope Z_scope.

Lemma flat_map_ext' {A B} (f g : A -> list B) l : (forall a, f a = g a) -> flat_map f l = flat_map g l.
Proof. intros H. induction l as [|a l IH]; simpl; [reflexivity|]. rewrite H, IH. reflexivity. Qed.

Lemma map_flat_map {A B C} (h : B -> C) (f : A -> list B) l :
  map h (flat_map f l) = flat_map (fun x => map h (f x)) l.
Proof. induction l as [|a l IH]; simpl; [reflexivity|]. rewrite map_app, IH. reflexivity. Qed.

Ltac bool_eq :=
  match goal with
  | |- ?l = ?r => let E1 := fresh "E" in let E2 := fresh "E" in
                  destruct l eqn:E1; destruct r eqn:E2; try reflexivity; exfalso; lia
  end.

Ltac split_ifs :=
  repeat match goal with
         | |- context [if ?c then _ else _] => let E := fresh "E" in destruct c eqn:E
         end; try reflexivity; try (exfalso; lia).

(* ------------------------------------------------------------------ Grid._connect_single_cell_2d *)
Definition conv2 (p : (Z * Z) * (Z * Z)) : coord * coord :=
  ([fst (fst p); snd (fst p)], [fst (snd p); snd (snd p)]).

Lemma connect_2d_bridge torus h w i j offsets :
  conns_2d torus [h; w] offsets [i; j] = map conv2 (gen_connect_2d torus h w i j offsets).
Proof.
  unfold conns_2d, gen_connect_2d. rewrite map_flat_map. apply flat_map_ext'. intros [di dj].
  unfold connect_2d. cbn [fst snd]. destruct torus; cbv zeta; cbv beta iota.
  - match goal with |- context [if ?c then Some _ else None] => destruct c eqn:E1 end;
      match goal with |- _ = map conv2 (if ?c then _ else _) => destruct c eqn:E2 end;
      try reflexivity; exfalso; lia.
  - match goal with |- context [if ?c then Some _ else None] => destruct c eqn:E1 end;
      match goal with |- _ = map conv2 (if ?c then _ else _) => destruct c eqn:E2 end;
      try reflexivity; exfalso; lia.
Qed.

(* ------------------------------------------------------------------ Grid._connect_single_cell_nd *)
Lemma map_zip (f : Z * Z -> Z) (g : Z -> Z -> Z) a b :
  (forall x y, f (x, y) = g x y) -> map f (combine a b) = zip_with g a b.
Proof.
  intros H. revert b. induction a as [|x a IH]; intros [|y b]; simpl; try reflexivity.
  rewrite H, IH. reflexivity.
Qed.

Lemma forallb_zip (f : Z * Z -> bool) n dims :
  (forall x y, f (x, y) = ((0 <=? x) && (x <? y))) -> forallb f (combine n dims) = in_bounds dims n.
Proof.
  intros H. unfold in_bounds. revert dims. induction n as [|x n IH]; intros [|y dims]; simpl; try reflexivity.
  rewrite H, IH. reflexivity.
Qed.

Lemma connect_nd_bridge torus dims offsets c :
  conns_nd torus dims offsets c = gen_connect_nd torus dims c offsets.
Proof.
  unfold conns_nd, gen_connect_nd. apply flat_map_ext'. intros d. unfold connect_nd. cbv zeta.
  rewrite !(map_zip _ Z.add c d) by (intros; cbv beta iota; lia).
  destruct torus.
  - rewrite !(map_zip _ Z.modulo (zip_with Z.add c d) dims) by (intros; cbv beta iota; first [reflexivity | lia]).
    rewrite (forallb_zip _ (zip_with Z.modulo (zip_with Z.add c d) dims) dims) by (intros; cbv beta iota; bool_eq).
    destruct (in_bounds dims (zip_with Z.modulo (zip_with Z.add c d) dims)); reflexivity.
  - rewrite (forallb_zip _ (zip_with Z.add c d) dims) by (intros; cbv beta iota; bool_eq).
    destruct (in_bounds dims (zip_with Z.add c d)); reflexivity.
Qed.

(* the whole connection statement, about the translated helpers themselves *)
Lemma gen_connect_nd_spec torus dims c offsets d c' :
  In (d, c') (gen_connect_nd torus dims c offsets) <->
  In d offsets /\ c' = (if torus then wrap dims (vadd c d) else vadd c d) /\ in_bounds dims c' = true.
Proof. rewrite <- connect_nd_bridge, conns_nd_In, connect_nd_spec. reflexivity. Qed.

Lemma gen_connect_2d_spec torus h w i j offsets a b x y :
  In ((a, b), (x, y)) (gen_connect_2d torus h w i j offsets) <->
  In (a, b) offsets /\
  [x; y] = (if torus then wrap [h; w] (vadd [i; j] [a; b]) else vadd [i; j] [a; b]) /\
  in_bounds [h; w] [x; y] = true.
Proof.
  assert (In ([a; b], [x; y]) (conns_2d torus [h; w] offsets [i; j]) <->
          In ((a, b), (x, y)) (gen_connect_2d torus h w i j offsets)) as Hb.
  { rewrite connect_2d_bridge, in_map_iff. split.
    - intros [[[a' b'] [x' y']] [He Hin]]. unfold conv2 in He. cbn [fst snd] in He. inversion He; subst. exact Hin.
    - intros H. exists ((a, b), (x, y)). split; [reflexivity|exact H]. }
  rewrite <- Hb, conns_2d_In. split.
  - intros [a' [b' [He [Hin Hc]]]]. inversion He; subst a' b'. split; [exact Hin|].
    rewrite connect_2d_eq_nd in Hc. apply connect_nd_spec in Hc. exact Hc.
  - intros [Hin Hc]. exists a, b. split; [reflexivity|]. split; [exact Hin|].
    rewrite connect_2d_eq_nd. apply connect_nd_spec. exact Hc.
Qed.

(* ------------------------------------------------------------------ the n-D offset constructions, from the literals of the source *)
Fixpoint znodup (l : list Z) : bool :=
  match l with [] => true | x :: t => negb (zmem x t) && znodup t end.
Lemma znodup_spec l : znodup l = true -> NoDup l.
Proof.
  induction l as [|x t IH]; simpl; intros H; [constructor|].
  apply andb_true_iff in H. destruct H as [H1 H2]. constructor; [|auto].
  rewrite <- zmem_In. destruct (zmem x t); [discriminate|congruence].
Qed.

Definition moore_offsets_src (n : nat) : list coord :=
  remove_first (repeat 0 n) (product_ (repeat gen_moore_axis n)).
Definition vn_offsets_src (n : nat) : list coord :=
  flat_map (fun dim => map (fun delta => set_nth dim delta (repeat 0 n)) gen_vn_deltas) (seq 0 n).

Definition axis_ok (ax : list Z) : bool :=
  forallb (fun x => (-1 <=? x) && (x <=? 1)) ax && forallb (fun x => zmem x ax) [-1; 0; 1] && znodup ax.
Definition deltas_ok (ds : list Z) : bool :=
  forallb (fun v => (v =? -1) || (v =? 1)) ds && zmem (-1) ds && zmem 1 ds.

Lemma axis_ok_spec ax : axis_ok ax = true -> (forall x, In x ax <-> -1 <= x <= 1) /\ NoDup ax.
Proof.
  unfold axis_ok. rewrite !andb_true_iff. intros [[H1 H2] H3]. split; [|apply znodup_spec; exact H3].
  intros x. split.
  - intros Hx. rewrite forallb_forall in H1. specialize (H1 x Hx). lia.
  - intros Hx. simpl in H2. rewrite !andb_true_iff in H2. destruct H2 as [A [B [C _]]].
    apply zmem_In in A, B, C.
    assert (x = -1 \/ x = 0 \/ x = 1) as [->|[->| ->]] by lia; assumption.
Qed.

Lemma moore_src_In : axis_ok gen_moore_axis = true ->
  forall n d, In d (moore_offsets_src n) <-> In d (moore_offsets n).
Proof.
  intros Hok n d. destruct (axis_ok_spec _ Hok) as [Hin Hnd].
  rewrite moore_offsets_In. unfold moore_offsets_src. rewrite remove_first_In.
  - rewrite product_In, Forall2_repeat. rewrite Forall_forall. setoid_rewrite Hin. rewrite <- Forall_forall. tauto.
  - apply product_NoDup. clear -Hnd. induction n; simpl; constructor; assumption.
Qed.

Lemma vn_src_In : deltas_ok gen_vn_deltas = true ->
  forall n d, In d (vn_offsets_src n) <-> In d (vn_offsets n).
Proof.
  unfold deltas_ok. rewrite !andb_true_iff. intros [[H1 H2] H3] n d.
  apply zmem_In in H2, H3. rewrite forallb_forall in H1.
  rewrite vn_offsets_In. unfold vn_offsets_src. rewrite in_flat_map. split.
  - intros [i [Hi Hd]]. apply in_seq in Hi. apply in_map_iff in Hd. destruct Hd as [v [<- Hv]].
    exists i, v. split; [lia|]. split; [specialize (H1 v Hv); lia|reflexivity].
  - intros [i [v [Hi [Hv ->]]]]. exists i. split; [apply in_seq; lia|]. apply in_map_iff. exists v.
    split; [reflexivity|]. destruct Hv as [-> | ->]; assumption.
Qed.

(* Moore / von Neumann n-D grids as the source builds them, read off the translated code:
   offsets constructed from the literals of the source, handed to the translated _connect_single_cell_nd *)
Lemma conn_spec_nd_of_source : axis_ok gen_moore_axis = true -> deltas_ok gen_vn_deltas = true ->
  forall (moore torus : bool) dims c d c',
  In (d, c') (gen_connect_nd torus dims c
                (if moore then moore_offsets_src (length dims) else vn_offsets_src (length dims))) <->
  length d = length dims /\ (if moore then norm_inf d else norm_1 d) = 1 /\
  c' = (if torus then wrap dims (vadd c d) else vadd c d) /\ in_bounds dims c' = true.
Proof.
  intros Ha Hd moore torus dims c d c'. rewrite gen_connect_nd_spec. destruct moore.
  - rewrite (moore_src_In Ha), moore_offsets_spec. tauto.
  - rewrite (vn_src_In Hd), vn_offsets_spec. tauto.
Qed.

(* 2 axes: the regenerated 2-D tables handed to the translated _connect_single_cell_2d *)
Lemma conn_spec_2d_of_source : tables_2d_ok = true ->
  forall (moore torus : bool) h w i j a b x y,
  In ((a, b), (x, y)) (gen_connect_2d torus h w i j (if moore then gen_moore_offsets_2d else gen_vn_offsets_2d)) <->
  (if moore then Z.max (Z.abs a) (Z.abs b) else Z.abs a + Z.abs b) = 1 /\
  [x; y] = (if torus then wrap [h; w] (vadd [i; j] [a; b]) else vadd [i; j] [a; b]) /\
  in_bounds [h; w] [x; y] = true.
Proof.
  intros Hok moore torus h w i j a b x y. destruct (tables_2d_of_check Hok) as [Hm [Hv _]].
  rewrite gen_connect_2d_spec. destruct moore; [rewrite Hm|rewrite Hv]; tauto.
Qed.

(* ------------------------------------------------------------------ Cell._neighborhood with the translated conditions *)
Section SrcNbhd.
  Variable conn : cell -> list cell.

  (* the statement skeleton of the (repaired) source, conditions and recursive-call arguments = generated code;
     None = ValueError (or out of fuel) *)
  Fixpoint src_nbhd (fuel : nat) (radius : Z) (ic : bool) (c : cell) : option (list cell) :=
    if gen_nbhd_invalid radius then None
    else match fuel with
         | O => None
         | S f =>
             let raw :=
               if gen_nbhd_base radius then Some (conn c)
               else fold_left (fun acc nb =>
                                 match acc, src_nbhd f (gen_nbhd_rec_radius radius ic) (gen_nbhd_rec_center radius ic) nb with
                                 | Some a, Some v => Some (a ++ v)
                                 | _, _ => None
                                 end) (conn c) (Some []) in
             match raw with
             | Some r => Some (if gen_nbhd_add_center ic then zset c (zdedup r) else zpop c (zdedup r))
             | None => None
             end
         end.

  Lemma fold_some (g : cell -> option (list cell)) (h : cell -> list cell) :
    (forall nb, g nb = Some (h nb)) ->
    forall l acc,
    fold_left (fun acc nb => match acc, g nb with Some a, Some v => Some (a ++ v) | _, _ => None end) l (Some acc)
    = Some (acc ++ flat_map h l).
  Proof.
    intros Hg l. induction l as [|x l IH]; intros acc; simpl; [rewrite app_nil_r; reflexivity|].
    rewrite Hg, IH, app_assoc. reflexivity.
  Qed.

  Lemma gen_invalid_spec r : gen_nbhd_invalid r = (r <? 1).
  Proof. unfold gen_nbhd_invalid. bool_eq. Qed.
  Lemma gen_base_spec r : 1 <= r -> gen_nbhd_base r = (r =? 1).
  Proof. intros H. unfold gen_nbhd_base. bool_eq. Qed.
  Lemma gen_center_spec b : gen_nbhd_add_center b = b.
  Proof. unfold gen_nbhd_add_center. destruct b; bool_eq. Qed.
  Lemma gen_rec_spec r ic : 2 <= r -> gen_nbhd_rec_radius r ic = r - 1 /\ gen_nbhd_rec_center r ic = true.
  Proof.
    intros H. unfold gen_nbhd_rec_radius, gen_nbhd_rec_center. split; [lia|].
    destruct ic; match goal with |- ?l = true => destruct l eqn:E; [reflexivity|exfalso; lia] end.
  Qed.

  (* the source-shaped recursion on the integer radius is the model's recursion on radius - 1 : nat *)
  Lemma src_nbhd_model n : forall ic c,
    src_nbhd (S n) (Z.of_nat n + 1) ic c = Some (nbhd conn n ic c).
  Proof.
    induction n as [|m IH]; intros ic c.
    - cbn [src_nbhd]. rewrite gen_invalid_spec, gen_base_spec, gen_center_spec by lia.
      replace (Z.of_nat 0 + 1 <? 1) with false by lia. replace (Z.of_nat 0 + 1 =? 1) with true by lia.
      reflexivity.
    - cbn [src_nbhd]. rewrite (gen_invalid_spec (Z.of_nat (S m) + 1)), gen_base_spec, gen_center_spec by lia.
      replace (Z.of_nat (S m) + 1 <? 1) with false by lia. replace (Z.of_nat (S m) + 1 =? 1) with false by lia.
      destruct (gen_rec_spec (Z.of_nat (S m) + 1) ic ltac:(lia)) as [-> ->].
      replace (Z.of_nat (S m) + 1 - 1) with (Z.of_nat m + 1) by lia.
      rewrite (fold_some _ (nbhd conn m true) (fun nb => IH true nb)). reflexivity.
  Qed.

  Lemma src_nbhd_invalid fuel r ic c : r < 1 -> src_nbhd fuel r ic c = None.
  Proof. intros H. destruct fuel; cbn [src_nbhd]; rewrite gen_invalid_spec; replace (r <? 1) with true by lia; reflexivity. Qed.

  (* the neighbourhood theorem about the translated source *)
  Lemma nbhd_is_ball_of_source r ic c : 1 <= r ->
    exists l, src_nbhd (Z.to_nat r) r ic c = Some l /\ NoDup l /\
      forall d, In d l <-> (d <> c /\ within conn (Z.to_nat r) c d) \/ (ic = true /\ d = c).
  Proof.
    intros Hr. exists (nbhd conn (Z.to_nat (r - 1)) ic c).
    replace (Z.to_nat r) with (S (Z.to_nat (r - 1))) by lia.
    replace r with (Z.of_nat (Z.to_nat (r - 1)) + 1) at 2 by lia.
    split; [apply src_nbhd_model|]. split; [apply nbhd_NoDup|]. intros d. apply nbhd_is_ball.
  Qed.
End SrcNbhd.

(* ------------------------------------------------------------------ Network *)
Lemma net_connect_bridge nbrs : gen_net_connect nbrs = map (fun v => (v, v)) nbrs.
Proof.
  unfold gen_net_connect. induction nbrs as [|v t IH]; simpl; [reflexivity|]. rewrite IH. reflexivity.
Qed.

(* connections of node u as the translated _connect_single_cell builds them from G.neighbors(u) *)
Lemma net_conn_of_source edges u k v :
  In (k, v) (gen_net_connect (net_adj edges u)) <-> k = v /\ (In (u, v) edges \/ In (v, u) edges).
Proof.
  rewrite net_connect_bridge, in_map_iff. split.
  - intros [w [E Hw]]. inversion E; subst. split; [reflexivity|]. apply net_adj_In. exact Hw.
  - intros [-> H]. exists v. split; [reflexivity|]. apply net_adj_In. exact H.
Qed.

(* directed graphs (outside the statement's quantifier): neighbours = successors *)
Lemma dnet_adj_In edges u v : In v (dnet_adj edges u) <-> In (u, v) edges.
Proof.
  unfold dnet_adj. rewrite zdedup_In, in_flat_map. split.
  - intros [[a b] [He Hv]]. simpl in Hv. destruct (a =? u) eqn:E; [|destruct Hv].
    apply Z.eqb_eq in E. destruct Hv as [<-|[]]. subst. exact He.
  - intros H. exists (u, v). split; [exact H|]. simpl. rewrite Z.eqb_refl. left. reflexivity.
Qed.

Lemma dnet_conn_of_source edges u k v :
  In (k, v) (gen_net_connect (dnet_adj edges u)) <-> k = v /\ In (u, v) edges.
Proof.
  rewrite net_connect_bridge, in_map_iff. split.
  - intros [w [E Hw]]. inversion E; subst. split; [reflexivity|]. apply dnet_adj_In. exact Hw.
  - intros [-> H]. exists v. split; [reflexivity|]. apply dnet_adj_In. exact H.
Qed.

(* the boundary of the statement: on a directed graph connection is symmetric exactly when the edge set is *)
Lemma dnet_symmetric_iff edges :
  (forall u v, In v (dnet_adj edges u) -> In u (dnet_adj edges v)) <->
  (forall u v, In (u, v) edges -> In (v, u) edges).
Proof.
  split; intros H u v Huv.
  - apply dnet_adj_In. apply H. apply dnet_adj_In. exact Huv.
  - apply dnet_adj_In. apply H. apply dnet_adj_In. exact Huv.
Qed.

Lemma dnet_asymmetric_witness :
  exists edges u v, In v (dnet_adj edges u) /\ ~ In u (dnet_adj edges v) /\
    In v (nbhd (dnet_adj edges) 0 false u) /\ ~ In u (nbhd (dnet_adj edges) 5 false v).
Proof.
  exists [(0, 1)], 0, 1. vm_compute. repeat split; auto; intros H; repeat (destruct H as [H|H]; try discriminate); auto.
Qed.

(* ------------------------------------------------------------------ VoronoiGrid._connect_cells, end to end *)
Lemma existsb_flat_map_in {A B} (p : B -> bool) (f : A -> list B) l t :
  In t l -> existsb p (f t) = true -> existsb p (flat_map f l) = true.
Proof.
  intros Hin He. apply existsb_exists in He. destruct He as [x [Hx Hp]].
  apply existsb_exists. exists x. split; [|exact Hp]. apply in_flat_map. exists t. auto.
Qed.

(* bridge to the model's edge function: an edge of an exported triangle is connected by the translated first loop *)
Lemma vor_loop1_bridge exported full i j :
  tri_adj exported i j = true -> vor_emitted (gen_vor_connect exported full) i j = true.
Proof.
  intros H. apply tri_adj_spec in H. destruct H as [[[a b] c] [z [Ht Hp]]].
  unfold vor_emitted, gen_vor_connect. rewrite existsb_app. apply orb_true_iff. left.
  apply (existsb_flat_map_in _ _ _ (a, b, c) Ht).
  unfold comb2. cbn [flat_map app fst snd existsb].
  simpl in Hp.
  destruct Hp as [E|[E|[E|[E|[E|[E|[]]]]]]]; inversion E; subst;
    rewrite ?Z.eqb_refl; cbn [andb orb]; rewrite ?orb_true_r; reflexivity.
Qed.

Lemma vor_entry_ok_spec pts x k1 k2 y :
  vor_entry_ok pts (x, ((k1, k2), y)) = true ->
  In x (idxs pts) /\ In y (idxs pts) /\ k1 = x /\ k2 = y /\ delaunay_adj pts x y = true.
Proof.
  unfold vor_entry_ok. rewrite !andb_true_iff, !Z.eqb_eq. intros [[[[H1 H2] H3] H4] H5].
  repeat split; try assumption; apply in_range_In; assumption.
Qed.

(* certificate-checked triangulation + translated extraction = the Delaunay adjacency, with keys (i, j) *)
Lemma voronoi_connections_of_source pts full : vor_conn_cert pts full = true ->
  let conns := gen_vor_connect (gen_vor_export full) full in
  (forall i j, In i (idxs pts) -> In j (idxs pts) ->
     (vor_emitted conns i j = true <-> delaunay_adj pts i j = true)) /\
  (forall x k1 k2 y, In (x, ((k1, k2), y)) conns ->
     In x (idxs pts) /\ In y (idxs pts) /\ k1 = x /\ k2 = y).
Proof.
  unfold vor_conn_cert. cbv zeta. rewrite !andb_true_iff. intros [[Hc Hall] H2]. rewrite forallb_forall in Hall. split.
  - intros i j Hi Hj. split.
    + intros He. unfold vor_emitted in He. apply existsb_exists in He.
      destruct He as [[x [[k1 k2] y]] [Hin Hxy]]. cbn [fst snd] in Hxy. apply andb_true_iff in Hxy.
      destruct Hxy as [E1 E2]. apply Z.eqb_eq in E1, E2. subst.
      apply Hall in Hin. apply vor_entry_ok_spec in Hin. tauto.
    + intros Hd. destruct (Z.of_nat (length pts) =? 2) eqn:E2.
      * apply Z.eqb_eq in E2. apply andb_true_iff in H2. destruct H2 as [A B].
        apply idxs_In in Hi. apply idxs_In in Hj.
        assert (i <> j) by (unfold delaunay_adj in Hd; apply andb_true_iff in Hd; destruct Hd as [Hd _];
                            apply negb_true_iff, Z.eqb_neq in Hd; exact Hd).
        assert ((i = 0 /\ j = 1) \/ (i = 1 /\ j = 0)) as [[-> ->]|[-> ->]] by lia; assumption.
      * apply Z.eqb_neq in E2. apply vor_loop1_bridge.
        rewrite (cert_delaunay pts _ Hc E2 i j Hi Hj). exact Hd.
  - intros x k1 k2 y Hin. apply Hall in Hin. apply vor_entry_ok_spec in Hin. tauto.
Qed.
