(* "No live event is ever lost": an event that is pending, live, with a live callable, and that is
   neither cancelled (by tag) nor has its holder dropped during a stretch of simulation, is after that
   stretch either executed (the very same record in the log) or still pending (the very same record
   in the event list).  With run_loop_done this gives the at-least-once half of "every scheduled,
   non-cancelled event is executed exactly once". *)
From Coq Require Import ZArith List Bool Lia Sorted.
From Mesa Require Import Generated.Tables Model.Devs Model.DevsSpec Proofs.DevsProofs.
Import ListNotations. Open Scope Z_scope.


(* ---------- logs ---------- *)
Lemma cancels_app : forall a b, cancels (a ++ b) = cancels a ++ cancels b.
Proof. intros a b. unfold cancels. apply flat_map_app. Qed.

Lemma drops_app : forall a b, drops (a ++ b) = drops a ++ drops b.
Proof. intros a b. unfold drops. apply flat_map_app. Qed.

Lemma survives_app : forall x a b, survives x (a ++ b) <-> survives x a /\ survives x b.
Proof.
  intros x a b. unfold survives. rewrite cancels_app, drops_app. rewrite !in_app_iff. tauto.
Qed.

Lemma survives_nil : forall x, survives x [].
Proof. intros x. unfold survives. cbn. tauto. Qed.

Lemma survives_cons_exec : forall x e c l, survives x (LExec e c :: l) -> survives x l.
Proof. intros x e c l H. exact H. Qed.

Lemma survives_cons_step : forall x k c l, survives x (LStep k c :: l) -> survives x l.
Proof. intros x k c l H. exact H. Qed.

Lemma survives_cancel : forall x tag, survives x [LCancel tag] -> e_tag x <> tag.
Proof.
  intros x tag [H _] E. apply H. cbn [cancels flat_map cancel_of app]. left. symmetry. exact E.
Qed.

Lemma survives_drop : forall x h, survives x [LDrop h] -> e_holder x <> h.
Proof.
  intros x h [_ H] E. apply H. cbn [drops flat_map drop_of app]. left. symmetry. exact E.
Qed.

(* ---------- single operations ---------- *)
Lemma cancel_ev_other : forall tag x, e_tag x <> tag -> cancel_ev tag x = x.
Proof.
  intros tag x H. unfold cancel_ev.
  destruct (Z.eqb_spec (e_tag x) tag) as [E|E]; [contradiction|]. reflexivity.
Qed.

Lemma watch_same : forall x a b, s_dead b = s_dead a ->
  (forall y, In y (s_events a) -> In y (s_events b)) -> watch x a -> watch x b.
Proof.
  intros x a b Hd Hi [H1 [H2 [H3 H4]]]. unfold watch. rewrite Hd. auto.
Qed.

Lemma watch_schedule : forall cfg st t p tag h stp body st' rc x, watch x st ->
  schedule cfg st t p tag h stp body = (st', rc) -> watch x st'.
Proof.
  intros cfg st t p tag h stp body st' rc x Hw H.
  destruct (schedule_cases _ _ _ _ _ _ _ _ _ _ H) as [[_ [_ ->]]|[_ ->]].
  - eapply watch_same; [| |exact Hw]; cbn [s_dead s_events set_events set_uid].
    + reflexivity.
    + intros y Hy. apply ev_insert_In. right. exact Hy.
  - eapply watch_same; [| |exact Hw]; cbn [s_dead s_events set_events set_uid]; auto.
Qed.

Lemma watch_schedule_relative : forall cfg st d p tag h stp body st' rc x, watch x st ->
  schedule_relative cfg st d p tag h stp body = (st', rc) -> watch x st'.
Proof.
  intros cfg st d p tag h stp body st' rc x Hw H.
  destruct (schedule_relative_cases _ _ _ _ _ _ _ _ _ _ H) as [[_ ->]|[_ H1]]; [exact Hw|].
  eapply watch_schedule; eassumption.
Qed.

Lemma watch_do_sched : forall cfg st k t p tag h body st' rc x, watch x st ->
  do_sched cfg st k t p tag h body = (st', rc) -> watch x st'.
Proof.
  intros cfg st k t p tag h body st' rc x Hw H. unfold do_sched in H.
  destruct (memz h (s_dead st)); [inversion H; subst; exact Hw|].
  destruct k.
  - eapply watch_schedule_relative; eassumption.
  - eapply watch_schedule_relative; eassumption.
  - destruct (s_time st >? t); [inversion H; subst; exact Hw|].
    eapply watch_schedule; eassumption.
  - destruct (c_abm cfg); [|inversion H; subst; exact Hw].
    eapply watch_schedule_relative; eassumption.
Qed.

Lemma watch_do_cancel : forall st tag x, watch x st -> e_tag x <> tag -> watch x (do_cancel st tag).
Proof.
  intros st tag x [H1 [H2 [H3 H4]]] Hne. unfold watch, do_cancel.
  cbn [s_events s_dead set_events]. repeat split; auto.
  rewrite <- (cancel_ev_other tag x Hne). apply in_map. exact H1.
Qed.

Lemma watch_do_drop : forall st h x, watch x st -> e_holder x <> h -> watch x (do_drop st h).
Proof.
  intros st h x [H1 [H2 [H3 H4]]] Hne. unfold watch, do_drop.
  cbn [s_events s_dead set_dead]. repeat split; auto.
  unfold memz in *. cbn [existsb]. rewrite H4.
  destruct (Z.eqb_spec (e_holder x) h) as [E|E]; [contradiction|]. reflexivity.
Qed.

Lemma watch_do_act : forall cfg a st st' l x, watch x st -> do_act cfg st a = (st', l) ->
  survives x l -> watch x st'.
Proof.
  intros cfg a st st' l x Hw H Hs. destruct a as [k t p tag h body|tag|h|]; cbn [do_act] in H.
  - destruct (do_sched cfg st k t p tag h body) as [s rc] eqn:E. inversion H; subst.
    eapply watch_do_sched; eassumption.
  - inversion H; subst. apply watch_do_cancel; [exact Hw|]. apply survives_cancel, Hs.
  - inversion H; subst. apply watch_do_drop; [exact Hw|]. apply survives_drop, Hs.
  - inversion H; subst. exact Hw.
Qed.

Lemma watch_do_acts : forall cfg acts st st' l x, watch x st -> do_acts cfg st acts = (st', l) ->
  survives x l -> watch x st'.
Proof.
  intros cfg acts. induction acts as [|a r IH]; intros st st' l x Hw H Hs; cbn [do_acts] in H.
  - inversion H; subst. exact Hw.
  - destruct (do_act cfg st a) as [s1 l1] eqn:E1.
    destruct (has_raise l1) eqn:Hr.
    { inversion H; subst. eapply watch_do_act; eassumption. }
    destruct (do_acts cfg s1 r) as [s2 l2] eqn:E2. inversion H; subst.
    apply survives_app in Hs. destruct Hs as [Hs1 Hs2].
    eapply IH; [|exact E2|exact Hs2].
    eapply watch_do_act; eassumption.
Qed.

Lemma watch_set_steps : forall x st k, watch x st -> watch x (set_steps st k).
Proof. intros x st k H. exact H. Qed.

Lemma watch_set_time : forall x st t, watch x st -> watch x (set_time st t).
Proof. intros x st t H. exact H. Qed.

Lemma watch_execute : forall cfg st e st' l x, watch x st -> execute cfg st e = (st', l) ->
  survives x l -> watch x st'.
Proof.
  intros cfg st e st' l x Hw H Hs. unfold execute in H.
  destruct (e_cancelled e); [inversion H; subst; exact Hw|].
  destruct (e_step e).
  - destruct (do_acts cfg (set_steps st (s_steps st + 1))
                (script_for (s_steps (set_steps st (s_steps st + 1))) (c_script cfg))) as [s2 l2] eqn:E.
    inversion H; subst. apply survives_cons_step in Hs.
    eapply watch_do_acts; [|exact E|exact Hs]. apply watch_set_steps, Hw.
  - destruct (memz (e_holder e) (s_dead st)); [inversion H; subst; exact Hw|].
    destruct (do_acts cfg st (e_body e)) as [s2 l2] eqn:E.
    inversion H; subst. apply survives_cons_exec in Hs.
    eapply watch_do_acts; eassumption.
Qed.

Lemma watch_exec_event_other : forall cfg st e st' l x, watch x st -> exec_event cfg st e = (st', l) ->
  survives x l -> watch x st'.
Proof.
  intros cfg st e st' l x Hw H Hs. unfold exec_event in H.
  eapply watch_execute; [|exact H|exact Hs].
  destruct (c_abm cfg && e_step e).
  - destruct (schedule_relative cfg (set_time st (e_time e)) SCALE gen_step_prio (-1) (-1) true [])
      as [s rc] eqn:E. cbn [fst].
    eapply watch_schedule_relative; [|exact E]. apply watch_set_time, Hw.
  - apply watch_set_time, Hw.
Qed.

Lemma watch_exec_event : forall cfg st e rest st' l x, inv st -> pop_event (s_events st) = Some (e, rest) ->
  exec_event cfg (set_events st rest) e = (st', l) -> watch x st -> survives x l ->
  (x = e /\ exists c, In (LExec x c) l) \/ (x <> e /\ watch x st').
Proof.
  intros cfg st e rest st' l x Hi Hp H Hw Hs.
  destruct (inv_pop _ _ _ Hi Hp) as [_ [_ [_ [_ [Hlt _]]]]].
  destruct (pop_event_some _ _ _ Hp) as [Hc [pre [Hl Hpre]]].
  destruct Hw as [H1 [H2 [H3 H4]]].
  rewrite Hl in H1. apply in_app_or in H1. destruct H1 as [H1|[H1|H1]].
  - rewrite Forall_forall in Hpre. rewrite (Hpre _ H1) in H2. discriminate.
  - subst x. left. split; [reflexivity|].
    unfold exec_event in H. rewrite H3, andb_false_r in H. unfold execute in H.
    rewrite H2, H3 in H.
    cbn [s_dead set_time set_events] in H. rewrite H4 in H.
    destruct (do_acts cfg (set_time (set_events st rest) (e_time e)) (e_body e)) as [s2 l2] eqn:E.
    inversion H; subst. eexists. left. reflexivity.
  - right. split.
    + intros ->. rewrite Forall_forall in Hlt. exact (ev_lt_irrefl _ (Hlt _ H1)).
    + eapply watch_exec_event_other; [|exact H|exact Hs].
      unfold watch. cbn [s_events s_dead set_events]. auto.
Qed.

(* ---------- runs ---------- *)
(* conservation over one run_until, whether or not it completes *)
Theorem run_loop_keeps : forall cfg fuel endt st st' l ok x, inv st -> run_loop cfg fuel endt st = (st', l, ok) ->
  watch x st -> survives x l -> (exists c, In (LExec x c) l) \/ watch x st'.
Proof.
  intros cfg fuel endt. induction fuel as [|n IH]; intros st st' l ok x Hi H Hw Hs; cbn [run_loop] in H.
  - inversion H; subst. right. exact Hw.
  - destruct (pop_event (s_events st)) as [[e rest]|] eqn:Ep.
    + destruct (e_time e <=? endt).
      * destruct (exec_event cfg (set_events st rest) e) as [s1 l1] eqn:E1.
        destruct (has_raise l1) eqn:Hr.
        { inversion H; subst.
          destruct (watch_exec_event _ _ _ _ _ _ _ Hi Ep E1 Hw Hs) as [[_ Hc]|[_ Hw1]]; auto. }
        destruct (run_loop cfg n endt s1) as [[s2 l2] ok2] eqn:E2. inversion H; subst.
        apply survives_app in Hs. destruct Hs as [Hs1 Hs2].
        destruct (watch_exec_event _ _ _ _ _ _ _ Hi Ep E1 Hw Hs1) as [[_ [c Hc]]|[_ Hw1]].
        -- left. exists c. apply in_or_app. left. exact Hc.
        -- assert (Hi1 : inv s1) by (eapply inv_exec_event; eassumption).
           destruct (IH _ _ _ _ _ Hi1 E2 Hw1 Hs2) as [[c Hc]|Hw2].
           ++ left. exists c. apply in_or_app. right. exact Hc.
           ++ right. exact Hw2.
      * inversion H; subst. right.
        destruct Hw as [H1 [H2 [H3 H4]]]. unfold watch.
        cbn [s_events s_dead set_events set_time]. repeat split; auto.
        apply ev_insert_In.
        destruct (pop_event_some _ _ _ Ep) as [_ [pre [Hl Hpre]]].
        rewrite Hl in H1. apply in_app_or in H1. destruct H1 as [H1|[H1|H1]]; auto.
        rewrite Forall_forall in Hpre. rewrite (Hpre _ H1) in H2. discriminate.
    + exfalso. destruct Hw as [H1 [H2 _]].
      pose proof (pop_event_none _ Ep) as Hn. rewrite Forall_forall in Hn.
      rewrite (Hn _ H1) in H2. discriminate.
Qed.

Theorem run_next_keeps : forall cfg st st' l x, inv st -> run_next cfg st = (st', l) ->
  watch x st -> survives x l -> (exists c, In (LExec x c) l) \/ watch x st'.
Proof.
  intros cfg st st' l x Hi H Hw Hs. unfold run_next in H.
  destruct (pop_event (s_events st)) as [[e rest]|] eqn:Ep.
  - destruct (watch_exec_event _ _ _ _ _ _ _ Hi Ep H Hw Hs) as [[_ Hc]|[_ Hw1]]; auto.
  - exfalso. destruct Hw as [H1 [H2 _]].
    pose proof (pop_event_none _ Ep) as Hn. rewrite Forall_forall in Hn.
    rewrite (Hn _ H1) in H2. discriminate.
Qed.

Theorem step_op_keeps : forall cfg fuel st o st' ob l x, inv st -> step_op cfg fuel st o = (st', ob, l) ->
  watch x st -> survives x l -> (exists c, In (LExec x c) l) \/ watch x st'.
Proof.
  intros cfg fuel st o st' ob l x Hi H Hw Hs. destruct o; cbn [step_op] in H.
  - destruct (do_sched cfg st k t p tag holder body) as [s rc] eqn:E. inversion H; subst.
    right. eapply watch_do_sched; eassumption.
  - inversion H; subst. right. apply watch_do_cancel; [exact Hw|]. apply survives_cancel, Hs.
  - inversion H; subst. right. apply watch_do_drop; [exact Hw|]. apply survives_drop, Hs.
  - destruct (run_loop cfg fuel t st) as [[s1 l1] ok] eqn:E. inversion H; subst.
    eapply run_loop_keeps; eassumption.
  - destruct (run_loop cfg fuel (s_time st + d) st) as [[s1 l1] ok] eqn:E. inversion H; subst.
    eapply run_loop_keeps; eassumption.
  - destruct (run_next cfg st) as [s1 l1] eqn:E. inversion H; subst.
    eapply run_next_keeps; eassumption.
  - destruct (s_events st); inversion H; subst; right; exact Hw.
Qed.

Lemma inv_run_state : forall cfg fuel ops st st' l, inv st -> run_state cfg fuel st ops = (st', l) -> inv st'.
Proof.
  intros cfg fuel ops. induction ops as [|o r IH]; intros st st' l Hi H; cbn [run_state] in H.
  - inversion H; subst. exact Hi.
  - destruct (step_op cfg fuel st o) as [[s1 ob] l1] eqn:E1.
    destruct (run_state cfg fuel s1 r) as [s2 l2] eqn:E2. inversion H; subst.
    eapply IH; [|exact E2]. eapply inv_step_op; eassumption.
Qed.

Theorem run_state_keeps : forall cfg fuel ops st st' l x, inv st -> run_state cfg fuel st ops = (st', l) ->
  watch x st -> survives x l -> (exists c, In (LExec x c) l) \/ watch x st'.
Proof.
  intros cfg fuel ops. induction ops as [|o r IH]; intros st st' l x Hi H Hw Hs; cbn [run_state] in H.
  - inversion H; subst. right. exact Hw.
  - destruct (step_op cfg fuel st o) as [[s1 ob] l1] eqn:E1.
    destruct (run_state cfg fuel s1 r) as [s2 l2] eqn:E2. inversion H; subst.
    apply survives_app in Hs. destruct Hs as [Hs1 Hs2].
    destruct (step_op_keeps _ _ _ _ _ _ _ _ Hi E1 Hw Hs1) as [[c Hc]|Hw1].
    + left. exists c. apply in_or_app. left. exact Hc.
    + assert (Hi1 : inv s1) by (eapply inv_step_op; eassumption).
      destruct (IH _ _ _ _ Hi1 E2 Hw1 Hs2) as [[c Hc]|Hw2].
      * left. exists c. apply in_or_app. right. exact Hc.
      * right. exact Hw2.
Qed.

(* at least once: a completed run_until endt executes every such event with time <= endt *)
Theorem at_least_once : forall cfg fuel endt st st' l x, inv st -> run_loop cfg fuel endt st = (st', l, true) ->
  watch x st -> e_time x <= endt -> survives x l -> exists c, In (LExec x c) l.
Proof.
  intros cfg fuel endt st st' l x Hi H Hw Ht Hs.
  destruct (run_loop_keeps _ _ _ _ _ _ _ _ Hi H Hw Hs) as [Hc|[H1 [H2 _]]]; [exact Hc|].
  exfalso. pose proof (run_loop_done _ _ _ _ _ _ Hi H) as Hd. rewrite Forall_forall in Hd.
  specialize (Hd _ H1 H2). lia.
Qed.

(* the same after any history that ends with a completed run_until endt *)
Theorem at_least_once_history : forall cfg fuel ops endt st st1 l1 st2 l2 x, inv st ->
  run_state cfg fuel st ops = (st1, l1) -> run_loop cfg fuel endt st1 = (st2, l2, true) ->
  watch x st -> e_time x <= endt -> survives x (l1 ++ l2) -> exists c, In (LExec x c) (l1 ++ l2).
Proof.
  intros cfg fuel ops endt st st1 l1 st2 l2 x Hi H1 H2 Hw Ht Hs.
  apply survives_app in Hs. destruct Hs as [Hs1 Hs2].
  destruct (run_state_keeps _ _ _ _ _ _ _ Hi H1 Hw Hs1) as [[c Hc]|Hw1].
  - exists c. apply in_or_app. left. exact Hc.
  - assert (Hi1 : inv st1) by (eapply inv_run_state; eassumption).
    destruct (at_least_once _ _ _ _ _ _ _ Hi1 H2 Hw1 Ht Hs2) as [c Hc].
    exists c. apply in_or_app. right. exact Hc.
Qed.

(* an accepted schedule call puts a watchable event into the list *)
Lemma scheduled_is_watched : forall cfg st k t p tag h body st', do_sched cfg st k t p tag h body = (st', R_OK) ->
  exists x, watch x st' /\ e_tag x = tag /\ e_holder x = h /\ e_body x = body /\ e_uid x = s_uid st /\
            e_time x = sched_time st k t.
Proof.
  intros cfg st k t p tag h body st' H.
  destruct (do_sched_accepted _ _ _ _ _ _ _ _ _ H)
    as [e [He [Hu [_ [Ht [_ [_ [Hc [Htag [Hh [Hst [Hb [_ [_ [Hd Hm]]]]]]]]]]]]]]].
  exists e. repeat split; auto.
  - rewrite He. apply ev_insert_In. left. reflexivity.
  - rewrite Hd, Hh. exact Hm.
Qed.
