(* Compositions for C14: statements over whole histories starting from setup (init cfg). *)
From Coq Require Import ZArith List Bool Lia Sorted.
From Mesa Require Import Generated.Tables Model.Devs Model.DevsSpec Proofs.DevsProofs Proofs.DevsOrderProofs
  Proofs.DevsOnceProofs Proofs.DevsTopProofs.
Import ListNotations.
Open Scope Z_scope.

(* cancel_event after any history: the cancelled event never runs in any continuation *)
Lemma cancel_after_history_never_runs : forall cfg fuel ops tag x ops2 st' l,
  In x (s_events (do_cancel (final cfg fuel (init cfg) ops) tag)) -> e_tag x = tag -> e_step x = false ->
  run_state cfg fuel (do_cancel (final cfg fuel (init cfg) ops) tag) ops2 = (st', l) ->
  Forall (fun e => e_uid e <> e_uid x) (execs l).
Proof.
  intros cfg fuel ops tag x ops2 st' l Hx Ht Hs H. unfold final in *.
  destruct (run_state cfg fuel (init cfg) ops) as [s0 l0] eqn:E0. cbn [fst] in *.
  pose proof (once_run_state cfg fuel ops [] (init cfg) s0 l0 (fresh_inv_init cfg) E0) as Hf.
  eapply cancel_then_never_runs; eassumption.
Qed.

(* every state a history reaches from setup is reachable in the sense of DevsSpec.reach *)
Lemma reach_final : forall cfg fuel ops, reach cfg (final cfg fuel (init cfg) ops).
Proof.
  intros cfg fuel ops. unfold final.
  assert (G : forall ops st, reach cfg st -> reach cfg (fst (run_state cfg fuel st ops))).
  { clear ops. induction ops as [|o r IH]; intros st Hr; cbn [run_state].
    - exact Hr.
    - destruct (step_op cfg fuel st o) as [[s1 ob] l1] eqn:E1.
      specialize (IH s1 (reach_op cfg fuel st o s1 ob l1 Hr E1)).
      destruct (run_state cfg fuel s1 r) as [s2 l2]. exact IH. }
  apply G. apply reach_init.
Qed.

(* an accepted schedule call: the event is for a time not before the clock and of the right unit *)
Lemma accepted_not_past_right_unit : forall cfg st k t p tag h body st',
  do_sched cfg st k t p tag h body = (st', R_OK) ->
  s_time st <= sched_time st k t /\ unit_ok (c_abm cfg) (sched_time st k t) = true /\
  exists e, s_events st' = ev_insert e (s_events st) /\ e_time e = sched_time st k t /\ e_uid e = s_uid st /\
            e_tag e = tag /\ e_cancelled e = false.
Proof.
  intros cfg st k t p tag h body st' H.
  destruct (do_sched_accepted _ _ _ _ _ _ _ _ _ H) as [e He].
  decompose [and] He. repeat split; try congruence.
  exists e. repeat split; assumption.
Qed.

(* what the statement calls "scheduled in the past" / "wrong unit" is rejected *)
Lemma past_rejected : forall cfg st k t p tag h body st' rc,
  do_sched cfg st k t p tag h body = (st', rc) -> sched_time st k t < s_time st -> rc <> R_OK.
Proof.
  intros cfg st k t p tag h body st' rc H Hp Hr. subst rc.
  destruct (accepted_not_past_right_unit _ _ _ _ _ _ _ _ _ H) as [Hle _]. lia.
Qed.
Lemma wrong_unit_rejected : forall cfg st k t p tag h body st' rc,
  do_sched cfg st k t p tag h body = (st', rc) -> unit_ok (c_abm cfg) (sched_time st k t) = false -> rc <> R_OK.
Proof.
  intros cfg st k t p tag h body st' rc H Hu Hr. subst rc.
  destruct (accepted_not_past_right_unit _ _ _ _ _ _ _ _ _ H) as [_ [Hok _]]. congruence.
Qed.

(* FIFO among equal (time, priority): ids are handed out in the order of scheduling - an accepted call gives the
   new event an id larger than that of every pending event, so by the key it runs after all pending events of
   the same time and priority, and before none of them *)
Lemma fifo_ids : forall cfg st k t p tag h body st', inv st ->
  do_sched cfg st k t p tag h body = (st', R_OK) ->
  exists e, s_events st' = ev_insert e (s_events st) /\ e_uid e = s_uid st /\
            Forall (fun x => e_uid x < e_uid e) (s_events st) /\
            Forall (fun x => e_time x = e_time e -> e_prio x = e_prio e -> ev_lt x e) (s_events st).
Proof.
  intros cfg st k t p tag h body st' [_ Hf] H.
  destruct (do_sched_accepted _ _ _ _ _ _ _ _ _ H) as [e He].
  decompose [and] He. exists e. split; [assumption|]. split; [assumption|].
  split; rewrite Forall_forall in *; intros x Hx.
  - destruct (Hf x Hx) as [Hu _]. lia.
  - intros Ht Hp. destruct (Hf x Hx) as [Hu _]. unfold ev_lt. apply ev_ltb_spec. right. split; [exact Ht|].
    right. split; [exact Hp|lia].
Qed.

(* before setup(model): run_until / run_for / run_next_event raise and leave the simulator exactly as it was;
   every other call behaves as after setup and keeps the event-list invariant *)
Lemma run_before_setup : forall cfg fuel st o st' ob l, is_run o = true ->
  step_op_unset cfg fuel st o = (st', ob, l) -> st' = st /\ ob = [-1; E_NOSETUP] /\ l = [].
Proof.
  intros cfg fuel st o st' ob l Hr H. unfold step_op_unset in H. rewrite Hr in H. inversion H; subst. auto.
Qed.

Lemma inv_step_op_unset : forall cfg fuel st o st' ob l, inv st ->
  step_op_unset cfg fuel st o = (st', ob, l) -> inv st'.
Proof.
  intros cfg fuel st o st' ob l Hi H. unfold step_op_unset in H. destruct (is_run o).
  - inversion H; subst. exact Hi.
  - eapply inv_step_op; eassumption.
Qed.
