(* Bridge between the code-level T1 translation of the cell-space methods (Generated.Tables: gen_is_empty,
   gen_is_full, gen_add_agent, gen_remove_agent, gen_cell_setter, gen_fixed_setter, gen_move_to, gen_move_relative,
   gen_move2d, gen_cellagent_remove, gen_fixedagent_remove, gen_empties, gen_try_random_accepts - regenerated from
   mesa/discrete_space/{cell,cell_agent,discrete_space,grid}.py by harness/tables/cellspace_code.py on every run)
   and the hand-written model Model/CellSpace.v that the C06 / C18 theorems are about.

   Every bridge lemma is `model function = generated function`.  They are proved by case analysis on the
   conditions of BOTH sides with lia (ZifyBool) refuting the impossible combinations, so a harmless rewrite of a
   condition in the source (`n >= capacity` as `not n < capacity`, `len(..) == 0` as `len(..) < 1`, `x is not None`
   as `not x is None`, swapped operands of `is`) keeps them checking, while a semantic change (another order of
   the statements, another comparison, a dropped statement) breaks them.

   gen_step puts the translated methods under the dispatch of the model (agent class, applicability, the legality
   check of recorded random outcomes); step_bridge : step = gen_step carries every theorem over to the source. *)
From Coq Require Import ZArith List Bool Lia ZifyBool.
From Mesa Require Import Common.ListX Common.CellState Generated.Tables Model.CellSpace
  Proofs.CellSpaceProofs Proofs.CellSpaceRefine.
Import ListNotations.
Open Scope Z_scope.

(* a method returning normally / raising kind k, as a result of the model *)
Definition to_res (x : state * option Z) : state * result :=
  match x with (s, None) => (s, Ok []) | (s, Some k) => (s, Err k) end.

Ltac split_ifs :=
  repeat match goal with
         | |- context [if ?c then _ else _] => let E := fresh "E" in destruct c eqn:E
         end; try reflexivity; try (exfalso; lia).

Ltac bool_eq :=
  match goal with |- ?l = ?r => let E1 := fresh "E" in let E2 := fresh "E" in
    destruct l eqn:E1; destruct r eqn:E2; try reflexivity; exfalso; lia end.

Lemma zlen_cons x l : zlen (x :: l) = zlen l + 1.
Proof. unfold zlen. simpl length. lia. Qed.

(* ---------------------------------------------------------------- cell.py *)
Lemma is_empty_bridge s c : is_empty s c = gen_is_empty s c.
Proof.
  unfold is_empty, gen_is_empty, gen_cell_agents.
  pose proof (zlen_nonneg (content s c)) as H0.
  destruct (content s c) as [|x t] eqn:El; cbn [is_nil].
  - unfold zlen. simpl. bool_eq.
  - rewrite zlen_cons. pose proof (zlen_nonneg t). bool_eq.
Qed.

Lemma is_full_bridge e s c : is_full e s c = gen_is_full e s c.
Proof.
  unfold is_full, gen_is_full, gen_cell_agents.
  destruct (e_cap e c) as [k|]; cbn [opt_eqb opt_val opt_truthy]; try reflexivity; bool_eq.
Qed.

Lemma add_agent_bridge e s c a : add_agent e s c a = gen_add_agent e s c a.
Proof.
  unfold add_agent, gen_add_agent, rejects. cbv zeta. cbn [content set_flag].
  destruct (e_cap e c) as [k|]; cbn [opt_truthy opt_val]; split_ifs.
Qed.

Lemma remove_agent_bridge e s c a : remove_agent s c a = gen_remove_agent e s c a.
Proof.
  unfold remove_agent, gen_remove_agent. cbv zeta.
  destruct (memz a (content s c)); [|reflexivity].
  rewrite <- is_empty_bridge. unfold is_empty. cbn [content set_content]. rewrite upd_same. reflexivity.
Qed.

(* ---------------------------------------------------------------- cell_agent.py *)
Lemma rebind_id (x : state * option Z) :
  (match x with (s, Some er) => (s, Some er) | (s, None) => (s, None) end) = x.
Proof. destruct x as [s [k|]]; reflexivity. Qed.

Lemma opt_eqb_sym x y : opt_eqb x y = opt_eqb y x.
Proof. destruct x, y; simpl; try reflexivity. apply Z.eqb_sym. Qed.

Lemma set_cell_bridge e s a tgt : set_cell e s a tgt = to_res (gen_cell_setter e s a tgt).
Proof.
  unfold set_cell, gen_cell_setter. cbv zeta.
  destruct tgt as [c|]; destruct (ptr s a) as [c0|] eqn:Ep; cbn [opt_eqb negb];
    repeat rewrite <- add_agent_bridge;
    try (destruct (add_agent e s c a) as [s1 [er|]]); cbv beta iota;
    repeat rewrite <- remove_agent_bridge;
    repeat match goal with |- context [remove_agent ?t c0 a] => destruct (remove_agent t c0 a) as [? [?|]] end;
    cbv beta iota; split_ifs.
Qed.

Lemma fixed_set_bridge e s a tgt : fixed_set e s a tgt = to_res (gen_fixed_setter e s a tgt).
Proof.
  unfold fixed_set, gen_fixed_setter. cbv zeta.
  destruct (ptr s a) as [c0|]; cbn [opt_eqb negb]; [reflexivity|].
  destruct tgt as [c|]; [|reflexivity].
  rewrite <- add_agent_bridge. destruct (add_agent e s c a) as [s1 [er|]]; reflexivity.
Qed.

Lemma move_to_bridge e s a c : set_cell e s a (Some c) = to_res (gen_move_to e s a (Some c)).
Proof. unfold gen_move_to. rewrite rebind_id. apply set_cell_bridge. Qed.

Lemma move_relative_bridge e s a d : move_relative e s a d = to_res (gen_move_relative e s a d).
Proof.
  unfold move_relative, gen_move_relative. cbv zeta.
  destruct (ptr s a) as [c0|]; [|reflexivity].
  destruct (e_conn e c0 d) as [c1|]; cbn [opt_eqb negb]; [|reflexivity].
  rewrite rebind_id. apply set_cell_bridge.
Qed.

(* the loop of Grid2DMovingAgent.move, for any body that steps along the connection or raises *)
Lemma loop_walk e v (body : option Z -> option Z + Z) :
  (forall c, body (Some c) = match e_conn e c v with Some c' => inl (Some c') | None => inr E_NODIR end) ->
  forall n c0, loop_n n body (Some c0) =
               match walk e v n c0 with Some c1 => inl (Some c1) | None => inr E_NODIR end.
Proof.
  intros Hb. induction n as [|n IH]; intros c0; simpl; [reflexivity|].
  rewrite Hb. destruct (e_conn e c0 v) as [c'|]; [apply IH|reflexivity].
Qed.

Lemma move2d_bridge e s a name k : move2d e s a name k = to_res (gen_move2d e s a name k).
Proof.
  unfold move2d, gen_move2d, dir_mem, dir_get. cbv zeta.
  destruct (lookup_dir (e_dirs e) (lower name)) as [v|]; cbn [negb]; [|reflexivity].
  match goal with |- context [loop_n _ ?b _] => set (body := b) end.
  assert (Hb : forall c, body (Some c) = match e_conn e c v with Some c' => inl (Some c') | None => inr E_NODIR end).
  { intros c. unfold body. destruct (e_conn e c v); reflexivity. }
  assert (Hn : body None = inr E_ATTR) by reflexivity.
  destruct (k <=? 0) eqn:Ek.
  - assert (Z.to_nat k = 0%nat) as -> by lia. simpl. rewrite rebind_id. apply set_cell_bridge.
  - destruct (ptr s a) as [c0|].
    + rewrite (loop_walk e v body Hb). destruct (walk e v (Z.to_nat k) c0) as [c1|]; [|reflexivity].
      rewrite rebind_id. apply set_cell_bridge.
    + destruct (Z.to_nat k) as [|n] eqn:En; [lia|]. cbn [loop_n]. rewrite Hn. reflexivity.
Qed.

Definition gen_remove (e : env) (s : state) (a : Z) : state * option Z :=
  match e_kind e a with KFixed => gen_fixedagent_remove e s a | _ => gen_cellagent_remove e s a end.

Lemma remove_bridge e s a : remove e s a = to_res (gen_remove e s a).
Proof.
  unfold remove, gen_remove, gen_cellagent_remove, gen_fixedagent_remove. cbv zeta.
  destruct (e_kind e a).
  - rewrite rebind_id. apply set_cell_bridge.
  - cbn [ptr set_reg]. destruct (ptr s a) as [c|]; cbn [opt_eqb negb andb]; [|reflexivity].
    unfold gen_cell_agents. cbn [content set_reg].
    destruct (memz a (content s c)); [|reflexivity].
    rewrite <- remove_agent_bridge. rewrite rebind_id.
    destruct (remove_agent (set_reg s a false) c a) as [s1 [er|]]; reflexivity.
  - rewrite rebind_id. apply set_cell_bridge.
Qed.

(* ---------------------------------------------------------------- discrete_space.py / grid.py *)
Lemma empties_bridge e s : empties e s = gen_empties e s.
Proof. unfold empties, gen_empties. apply filter_ext. intros c. apply is_empty_bridge. Qed.

Lemma try_random_bridge s c : is_empty s c = gen_try_random_accepts s c.
Proof. unfold gen_try_random_accepts. apply is_empty_bridge. Qed.

(* ---------------------------------------------------------------- the step function over the translated methods *)
Definition gen_assign (e : env) (s : state) (a : Z) (tgt : option Z) : state * option Z :=
  match e_kind e a with KFixed => gen_fixed_setter e s a tgt | _ => gen_cell_setter e s a tgt end.

Lemma assign_bridge e s a tgt : assign e s a tgt = to_res (gen_assign e s a tgt).
Proof.
  unfold assign, gen_assign. destruct (e_kind e a); [apply set_cell_bridge|apply fixed_set_bridge|apply set_cell_bridge].
Qed.

Fixpoint gen_remove_list (e : env) (s : state) (l : list Z) : state * result :=
  match l with
  | [] => (s, Ok [])
  | a :: t => match to_res (gen_remove e s a) with
              | (s1, Ok _) => gen_remove_list e s1 t
              | (s1, r) => (s1, r)
              end
  end.

Lemma remove_list_bridge e l : forall s, remove_list e s l = gen_remove_list e s l.
Proof.
  induction l as [|a t IH]; intros s; simpl; [reflexivity|].
  rewrite <- remove_bridge. destruct (remove e s a) as [s1 r]. destruct r; try reflexivity. apply IH.
Qed.

(* Grid: draw from all cells until gen_try_random_accepts; otherwise draw from gen_empties *)
Definition gen_random_empty (e : env) (s : state) (try_random : bool) (outcome : option Z) : option Z * result :=
  match gen_empties e s with
  | [] => (None, Err (if e_grid e && try_random then E_LOOP else E_NOEMPTY))
  | _ => match outcome with
         | Some c => if in_cells e c && gen_try_random_accepts s c then (Some c, Ok [c]) else (None, Illegal)
         | None => (None, Illegal)
         end
  end.

Lemma random_empty_bridge e s tr out : random_empty e s tr out = gen_random_empty e s tr out.
Proof.
  unfold random_empty, gen_random_empty. rewrite <- empties_bridge.
  destruct (empties e s); [reflexivity|]. destruct out as [c|]; [|reflexivity].
  rewrite <- try_random_bridge. reflexivity.
Qed.

(* on a non-grid space the drawn cell comes from gen_empties: the same legality *)
Lemma gen_empties_accepts e s c :
  In c (gen_empties e s) <-> In c (cells_dom e) /\ gen_try_random_accepts s c = true.
Proof. unfold gen_empties, gen_try_random_accepts. apply filter_In. Qed.

Definition gen_step (e : env) (s : state) (o : op) : state * result :=
  match o with
  | SetCell a tgt =>
      if in_agents e a && match tgt with Some c => in_cells e c | None => true end
      then to_res (gen_assign e s a tgt) else (s, NotApplicable)
  | MoveTo a c =>
      if in_agents e a && in_cells e c && negb (is_fixed (e_kind e a))
      then to_res (gen_move_to e s a (Some c)) else (s, NotApplicable)
  | MoveRel a d =>
      if in_agents e a && negb (is_fixed (e_kind e a))
      then to_res (gen_move_relative e s a d) else (s, NotApplicable)
  | Move2D a name k =>
      if in_agents e a && is_grid2d (e_kind e a)
      then to_res (gen_move2d e s a name k) else (s, NotApplicable)
  | Remove a => if in_agents e a then to_res (gen_remove e s a) else (s, NotApplicable)
  | RemoveAll => gen_remove_list e s (filter (reg s) (agents_dom e))
  | RandomEmpty tr out => (s, snd (gen_random_empty e s tr out))
  | PlaceRandomEmpty a tr out =>
      if in_agents e a then
        match gen_random_empty e s tr out with
        | (Some c, _) => to_res (gen_assign e s a (Some c))
        | (None, r) => (s, r)
        end
      else (s, NotApplicable)
  end.

Theorem step_bridge e s o : step e s o = gen_step e s o.
Proof.
  destruct o as [a tgt|a c|a d|a name k|a| |tr out|a tr out]; simpl.
  - rewrite <- assign_bridge. reflexivity.
  - rewrite <- move_to_bridge. reflexivity.
  - rewrite <- move_relative_bridge. reflexivity.
  - rewrite <- move2d_bridge. reflexivity.
  - rewrite <- remove_bridge. reflexivity.
  - apply remove_list_bridge.
  - rewrite <- random_empty_bridge. reflexivity.
  - rewrite <- random_empty_bridge.
    destruct (in_agents e a); [|reflexivity].
    destruct (random_empty e s tr out) as [[c|] r]; [|reflexivity]. apply assign_bridge.
Qed.

Fixpoint gen_exec (e : env) (s : state) (ops : list op) : state :=
  match ops with [] => s | o :: t => gen_exec e (fst (gen_step e s o)) t end.

Lemma exec_bridge e ops : forall s, exec e s ops = gen_exec e s ops.
Proof. induction ops as [|o t IH]; intros s; simpl; [reflexivity|]. rewrite <- step_bridge. apply IH. Qed.

(* ---------------------------------------------------------------- the theorems, about the translated source *)
Lemma mirror_of_source e ops :
  caps_ok e -> let s := gen_exec e init ops in
  forall a c, reg s a = true \/ e_kind e a <> KFixed -> (ptr s a = Some c <-> In a (content s c)).
Proof. intros Hc. rewrite <- exec_bridge. apply mirror_all. exact Hc. Qed.

Lemma capacity_of_source e ops :
  caps_ok e -> forall c k, e_cap e c = Some k -> 0 < k -> zlen (content (gen_exec e init ops) c) <= k.
Proof. intros Hc. rewrite <- exec_bridge. apply capacity_all. exact Hc. Qed.

Lemma views_of_source e ops :
  caps_ok e -> let s := gen_exec e init ops in
  (forall c, flag s c = gen_is_empty s c) /\
  (forall c, gen_is_empty s c = true <-> content s c = []) /\
  (forall c, gen_is_full e s c = true <-> e_cap e c = Some (zlen (content s c))) /\
  (forall c, In c (gen_empties e s) <-> In c (cells_dom e) /\ content s c = []).
Proof.
  intros Hc s. unfold s. rewrite <- exec_bridge.
  destruct (views_agree_all e ops Hc) as [H1 [H2 [H3 [H4 _]]]].
  split; [intros c; rewrite <- is_empty_bridge; apply H1|].
  split; [intros c; rewrite <- is_empty_bridge; apply H2|].
  split; [intros c; rewrite <- is_full_bridge; apply H3|].
  intros c. rewrite <- empties_bridge. apply H4.
Qed.

Lemma atomic_of_source e ops o s' k :
  caps_ok e -> gen_step e (gen_exec e init ops) o = (s', Err k) ->
  view e s' = view e (gen_exec e init ops) /\ eqv (gen_exec e init ops) s'.
Proof. intros Hc. rewrite <- exec_bridge, <- step_bridge. apply atomic_all. exact Hc. Qed.

(* the translated setter itself: when it raises from a consistent state, nothing has changed *)
Lemma source_setter_atomic e s a tgt s' k :
  caps_ok e -> Inv e s -> e_kind e a <> KFixed ->
  gen_cell_setter e s a tgt = (s', Some k) -> eqv s s' /\ k = E_FULL.
Proof.
  intros Hc HI Hk H.
  assert (set_cell e s a tgt = (s', Err k)) as H' by (rewrite set_cell_bridge, H; reflexivity).
  split.
  - eapply set_cell_err_eqv; [exact Hc|exact HI| |exact H']. apply (listed_of_nonfixed e); assumption.
  - eapply set_cell_err_justified; [exact Hc|exact HI| |exact H']. apply (listed_of_nonfixed e); assumption.
Qed.

Lemma source_fixed_setter_atomic e s a tgt s' k :
  caps_ok e -> Inv e s -> gen_fixed_setter e s a tgt = (s', Some k) -> eqv s s'.
Proof.
  intros Hc HI H.
  assert (fixed_set e s a tgt = (s', Err k)) as H' by (rewrite fixed_set_bridge, H; reflexivity).
  eapply fixed_set_err_eqv; eassumption.
Qed.

Lemma random_empty_of_source e ops tr out c r :
  caps_ok e -> let s := gen_exec e init ops in
  gen_random_empty e s tr out = (Some c, r) ->
  content s c = [] /\ flag s c = true /\ In c (gen_empties e s) /\
  (forall a, reg s a = true \/ e_kind e a <> KFixed -> ptr s a <> Some c).
Proof.
  intros Hc s H. unfold s in *. rewrite <- exec_bridge in *. rewrite <- random_empty_bridge in H.
  destruct (random_empty_all e ops tr out c r Hc H) as [_ [_ [_ [H1 [H2 [H3 [_ H4]]]]]]].
  rewrite <- empties_bridge. tauto.
Qed.
